import Isotp.Proofs.C07Ign
/-
  C07ign — a frame that is read but IGNORED does not belong to the message being received, so it does not
  move the N_Cr deadline: "a multi-frame reception is abandoned iff the next Consecutive Frame is not
  processed within rx_consecutive_frame_timeout of the PREVIOUS FRAME OF THAT MESSAGE (or of the Flow Control
  the layer sent for it)".

  Model: N_Cr = `s.timerCf`; `_process_rx` = `State.processRx : State → CanMsg → State × Bool × Bool`
  (state, immediate_tx_required, frame_received); the N_Cr test = `State.checkTimeoutsRx`, run by the rx loop of
  `process` after every `rxfn` return (`State.rxArrive` = that step for a frame, see C07).
  Helper file: `Isotp/Proofs/C07Ign.lean` (vocabulary: `reception`, `WrongSizeCf`, `IsFlowControl`,
  `MissingEscapeSf`, `Foreign`, `Ignored`, `Skipped`, `QuietSkipped`, `readFrame`, `readAll`, `total`, `SkipEv`).

  Findings (details at the theorems):
  * the literal statement 1 (`rxState = WAIT_CF ∧ rxBuf unchanged → timerCf unchanged`) is FALSE of the model:
    a First Frame that repeats the data already buffered restarts the reception (new timer, same buffer), and an
    in-sequence Consecutive Frame without payload is accepted (sequence number advanced, timer restarted, buffer
    unchanged). Both are progress / a restart, not ignored frames. `deadline_moves_only_with_progress_partial`
    adds the two missing clauses of "same reception, no progress"; `deadline_moves_only_by` is the full case
    analysis.
  * an UNDECODABLE frame is not ignored by the code: `InvalidCanDataError` is reported and the reception is
    ABANDONED (`_stop_receiving`): `undecodable_frame_ignored_false`, `undecodable_frame_aborts_reception`.
    The timer is stopped, never re-armed, so the property "an ignored frame does not extend the deadline" is
    not at stake, but such a frame is not in `Ignored`.
-/
set_option linter.unusedSimpArgs false
set_option linter.unusedVariables false

namespace Isotp.C07ign
open Isotp Isotp.State Isotp.C07Ign

/-! ## concrete CAN FD receiver used by the witnesses and the non-vacuity examples -/

def h11 : Half := { mode := .n11, txid := some 0x123, rxid := some 0x456, ta := none, sa := none, ae := none,
                    physId := 0, funcId := 0, rxOnly := false, txOnly := false }
def addr : Addr := { tx := h11, rx := h11 }
/-- CAN FD, 16-byte frames; N_Cr = 1 s (default) -/
def cfgFd : Cfg := { canFd := true, txDl := 16 }
def msg (d : Bytes) : CanMsg := { id := 0x456, ext := false, data := d }

/-- 16-byte First Frame announcing 40 bytes (carries 14) -/
def ff16 : CanMsg := msg [0x10, 40, 1, 2, 3, 4, 5, 6, 7, 8, 9, 10, 11, 12, 13, 14]
/-- 8-byte Consecutive Frame #1: wrong size (RX_DL 8 ≠ 16, and 8 < 26 bytes still expected) -/
def cf8 : CanMsg := msg [0x21, 15, 16, 17, 18, 19, 20, 21]
/-- the real 16-byte Consecutive Frame #1 -/
def cf16 : CanMsg := msg [0x21, 15, 16, 17, 18, 19, 20, 21, 22, 23, 24, 25, 26, 27, 28, 29]
/-- ContinueToSend -/
def fcCts : CanMsg := msg [0x30, 0, 0]
/-- 12-byte Single Frame with the length in the first nibble (escape sequence missing) -/
def sfBad : CanMsg := msg [0x05, 1, 2, 3, 4, 5, 0xCC, 0xCC, 0xCC, 0xCC, 0xCC, 0xCC]
/-- a frame of somebody else -/
def foreign : CanMsg := { id := 0x123, ext := false, data := [0x21, 15, 16, 17, 18, 19, 20, 21] }
/-- reserved PCI type 4 -/
def garbage : CanMsg := msg [0x40, 1, 2, 3, 4, 5, 6, 7]

/-- First Frame taken at t = 0 -/
def r1 : State := ((State.init cfgFd addr).processRx ff16).1
/-- Flow Control sent at t = 0: N_Cr runs from 0 -/
def r2 : State := r1.processTx.1
/-- 0.3 s later -/
def r3 : State := r2.advance 300000000
/-- the 8-byte Consecutive Frame #1 has been given to `_process_rx` at t = 0.3 s -/
def r4 : State := (r3.processRx cf8).1
/-- the real Consecutive Frame #1 is given to `_process_rx` at t = 0.6 s -/
def r5 : State := r4.advance 300000000
def r6 : State := (r5.processRx cf16).1

/-! ## 1. the deadline moves only with progress -/

/-- the statement as first written: still receiving and the buffer unchanged → timer unchanged -/
def deadline_moves_only_with_progress_statement : Prop :=
  ∀ (s : State) (m : CanMsg), s.rxState = .waitCf →
    (s.processRx m).1.rxState = .waitCf → (s.processRx m).1.rxBuf = s.rxBuf →
    (s.processRx m).1.timerCf = s.timerCf

/-- FALSE of the model. Witness: the First Frame sent again 0.3 s later. The reception is restarted with the
    same 14 bytes (`ReceptionInterruptedWithFirstFrameError`), N_Cr restarts at 0.3 s. -/
theorem deadline_moves_only_with_progress_false : ¬ deadline_moves_only_with_progress_statement := by
  intro h
  have := h r3 ff16 (by decide +kernel) (by decide +kernel) (by decide +kernel)
  revert this
  decide +kernel

/-- second witness, why the sequence number must be mentioned too: a 1-byte Consecutive Frame #1 (no payload)
    in a classical-CAN reception is ACCEPTED — `lastSeq` 0 → 1, N_Cr restarted — with the buffer unchanged. -/
theorem empty_cf_is_progress :
    let s := (((State.init {} addr).processRx (msg [0x10, 20, 1, 2, 3, 4, 5, 6])).1.processTx.1).advance 300000000
    let s' := (s.processRx (msg [0x21])).1
    s.rxState = .waitCf ∧ s'.rxState = .waitCf ∧ s'.rxBuf = s.rxBuf ∧
    s.lastSeq = 0 ∧ s'.lastSeq = 1 ∧ s'.log = s.log ∧
    s.timerCf.start = some 0 ∧ s'.timerCf.start = some 300000000 := by
  decide +kernel

/-- What holds: "the same reception with no progress" = still WAIT_CF, same buffer, same sequence number, and no
    restart by a First Frame (the code reports a restart with `ReceptionInterruptedWithFirstFrameError`; the
    model has no other mark of it). Then `_process_rx` has not touched N_Cr — whatever the frame was. -/
theorem deadline_moves_only_with_progress_partial (s : State) (m : CanMsg) (hw : s.rxState = .waitCf)
    (h1 : (s.processRx m).1.rxState = .waitCf) (h2 : (s.processRx m).1.rxBuf = s.rxBuf)
    (h3 : (s.processRx m).1.lastSeq = s.lastSeq)
    (h4 : (s.processRx m).1.log ≠ .err s.now .InterruptedWithFirstFrame :: s.log) :
    (s.processRx m).1.timerCf = s.timerCf := by
  rcases timerCf_cases s m hw with h | ⟨h, _⟩ | ⟨d, sn, data, _, h5, h6⟩ | ⟨d, len, data, esc, _, h5⟩
  · exact h
  · rw [h] at h1; cases h1
  · rw [h5] at h3; exact absurd h3 h6
  · exact absurd h5 h4

/-- the same with "no restart" expressed on the frame: it does not decode to a First Frame -/
theorem deadline_moves_only_with_progress_partial' (s : State) (m : CanMsg) (hw : s.rxState = .waitCf)
    (h1 : (s.processRx m).1.rxState = .waitCf) (h2 : (s.processRx m).1.rxBuf = s.rxBuf)
    (h3 : (s.processRx m).1.lastSeq = s.lastSeq)
    (h4 : ∀ d len data esc, decode m.data s.addr.rx.rxPrefixSize = some d → d.pdu ≠ .ff len data esc) :
    (s.processRx m).1.timerCf = s.timerCf := by
  rcases timerCf_cases s m hw with h | ⟨h, _⟩ | ⟨d, sn, data, _, h5, h6⟩ | ⟨d, len, data, esc, h5, _⟩
  · exact h
  · rw [h] at h1; cases h1
  · rw [h5] at h3; exact absurd h3 h6
  · exact absurd h5.pdu (h4 d len data esc h5.dec)

/-- The full case analysis. While receiving, `_process_rx` leaves N_Cr exactly as it was, unless
    (a) the reception ended (N_Cr stopped), or
    (b) the frame was an in-sequence Consecutive Frame with an acceptable RX_DL (`CfInSeq`): data appended,
        sequence number advanced, or
    (c) the frame was a valid First Frame (`FfAccepted`): new reception, interruption reported.
    Every other frame — in particular every `Ignored` one — cannot move the deadline. -/
theorem deadline_moves_only_by (s : State) (m : CanMsg) (hw : s.rxState = .waitCf) :
    (s.processRx m).1.timerCf = s.timerCf ∨
    ((s.processRx m).1.rxState = .idle ∧ (s.processRx m).1.timerCf.start = none) ∨
    (∃ d sn data, CfInSeq s m d sn data ∧ (s.processRx m).1.lastSeq = sn ∧ sn ≠ s.lastSeq) ∨
    (∃ d len data esc, FfAccepted s m d len data esc ∧
      (s.processRx m).1.log = .err s.now .InterruptedWithFirstFrame :: s.log) :=
  timerCf_cases s m hw

/-- hypotheses of the `_partial` theorems on the wrong-size frame -/
example : r3.rxState = .waitCf ∧ (r3.processRx cf8).1.rxState = .waitCf ∧
    (r3.processRx cf8).1.rxBuf = r3.rxBuf ∧ (r3.processRx cf8).1.lastSeq = r3.lastSeq ∧
    (r3.processRx cf8).1.log ≠ .err r3.now .InterruptedWithFirstFrame :: r3.log := by decide +kernel
/-- cases (b), (c) and (a) of `deadline_moves_only_by` do occur -/
example : ((r5.processRx cf16).1.timerCf ≠ r5.timerCf ∧ (r5.processRx cf16).1.lastSeq = 1) ∧
    ((r3.processRx ff16).1.timerCf ≠ r3.timerCf ∧
      (r3.processRx ff16).1.log = .err r3.now .InterruptedWithFirstFrame :: r3.log) ∧
    ((r3.processRx garbage).1.rxState = .idle ∧ (r3.processRx garbage).1.timerCf.start = none) := by
  decide +kernel

/-! ## 2. one theorem per kind of ignored frame -/

/-- (a) A Consecutive Frame with the EXPECTED sequence number on a CAN frame whose RX_DL (`max 8 length`) is not
    the one fixed by the First Frame, and smaller than the number of bytes still to receive (so it cannot be the
    last frame): `ChangingInvalidRXDLError` is reported and nothing else happens — in particular the sequence
    number is not consumed and N_Cr keeps running from where it was. -/
theorem wrong_size_cf_ignored (s : State) (m : CanMsg) (d : Decoded) (sn : Nat) (data : Bytes)
    (hw : s.rxState = .waitCf)
    (hd : decode m.data s.addr.rx.rxPrefixSize = some d) (hp : d.pdu = .cf sn data)
    (hsn : sn = (s.lastSeq + 1) % 16)
    (hne : some (max 8 m.data.length) ≠ s.actualRxdl)
    (hlt : max 8 m.data.length < s.rxFrameLen - s.rxBuf.length) :
    s.processRx m = ({ s with log := .err s.now .ChangingInvalidRXDL :: s.log }, false, false) ∧
    reception (s.processRx m).1 = reception s ∧
    (s.processRx m).1.rxState = .waitCf ∧ (s.processRx m).1.rxBuf = s.rxBuf ∧
    (s.processRx m).1.timerCf = s.timerCf ∧ (s.processRx m).1.lastSeq = s.lastSeq ∧
    (s.processRx m).1.rxBlockCnt = s.rxBlockCnt ∧ (s.processRx m).1.rxFrameLen = s.rxFrameLen ∧
    (s.processRx m).1.actualRxdl = s.actualRxdl ∧ (s.processRx m).1.pendingFc = s.pendingFc := by
  rw [processRx_wrongSizeCf ⟨hw, d, sn, data, hd, hp, hsn, hne, hlt⟩]
  exact ⟨rfl, rfl, hw, rfl, rfl, rfl, rfl, rfl, rfl, rfl⟩

example : WrongSizeCf r3 cf8 :=
  ⟨by decide +kernel, ⟨.cf 1 [15, 16, 17, 18, 19, 20, 21], 8, 8⟩, 1, [15, 16, 17, 18, 19, 20, 21],
    by decide +kernel, rfl, by decide +kernel, by decide +kernel, by decide +kernel⟩

/-- (b) A Flow Control frame (read while receiving or not): it goes to the `last_flow_control_frame` mailbox of
    the transmit side and an immediate transmit pass is requested; no error; the reception is untouched. -/
theorem flow_control_during_reception_ignored (s : State) (m : CanMsg) (d : Decoded) (st bs stm : Nat)
    (hd : decode m.data s.addr.rx.rxPrefixSize = some d) (hp : d.pdu = .fc st bs stm) :
    s.processRx m = ({ s with lastFc := some ⟨st, bs, stm⟩ }, true, false) ∧
    reception (s.processRx m).1 = reception s ∧ (s.processRx m).1.log = s.log ∧
    (s.processRx m).1.rxState = s.rxState ∧ (s.processRx m).1.rxBuf = s.rxBuf ∧
    (s.processRx m).1.timerCf = s.timerCf ∧ (s.processRx m).1.lastSeq = s.lastSeq ∧
    (s.processRx m).1.rxBlockCnt = s.rxBlockCnt ∧ (s.processRx m).1.rxFrameLen = s.rxFrameLen ∧
    (s.processRx m).1.actualRxdl = s.actualRxdl ∧ (s.processRx m).1.pendingFc = s.pendingFc := by
  rw [processRx_flowControl hd hp]
  exact ⟨rfl, rfl, rfl, rfl, rfl, rfl, rfl, rfl, rfl, rfl, rfl⟩

example : r3.rxState = .waitCf ∧ IsFlowControl r3 fcCts :=
  ⟨by decide +kernel, ⟨.fc 0 0 0, 3, 8⟩, 0, 0, 0, by decide +kernel, rfl⟩

/-- (c) A frame that does not meet the reception condition of the address is not given to `_process_rx` at all:
    the rx loop goes on from `rxArrive` (clock advanced by the blocking delay, `.rx` logged, N_Cr checked).
    If N_Cr has not expired at that instant nothing but the clock, the inbox and the `.rx` log entry changes —
    the deadline stays; if it has expired the timeout is reported, as it would be with no frame at all. -/
theorem foreign_frame_ignored (doTx : Bool) (s : State) (st : Stats) (dt : Nat) (m : CanMsg)
    (rest : List (Nat × CanMsg)) (hme : s.addr.rx.isForMe m = false) :
    rxLoop doTx s st ((dt, m) :: rest) =
      (if doTx && (s.rxArrive dt m rest).txTimeDriven then
         (s.rxArrive dt m rest, { st with received := st.received + 1 }, true)
       else rxLoop doTx (s.rxArrive dt m rest) { st with received := st.received + 1 } rest) ∧
    (s.timerCf.timedOut (s.now + dt) = false →
      s.rxArrive dt m rest =
        { s with inbox := rest, now := s.now + dt, log := .rx (s.now + dt) m :: s.log } ∧
      reception (s.rxArrive dt m rest) = reception s ∧ (s.rxArrive dt m rest).timerCf = s.timerCf) ∧
    (s.timerCf.timedOut (s.now + dt) = true →
      (s.rxArrive dt m rest).log = .err (s.now + dt) .ConsecutiveFrameTimeout :: .rx (s.now + dt) m :: s.log ∧
      (s.rxArrive dt m rest).rxState = .idle) := by
  refine ⟨rxLoop_cons_foreign doTx s st dt m rest hme, fun h => ?_, fun h => ?_⟩
  · rw [rxArrive_live s dt m rest h]; exact ⟨rfl, rfl, rfl⟩
  · unfold rxArrive
    rw [checkTimeoutsRx_of_expired _ (by simpa [emit] using h)]
    exact ⟨rfl, rfl⟩

example : r2.addr.rx.isForMe foreign = false ∧ r2.timerCf.timedOut (r2.now + 300000000) = false ∧
    r2.rxState = .waitCf := by decide +kernel

/-- (d) as first written: a frame that does not decode leaves the reception untouched -/
def undecodable_frame_ignored_statement : Prop :=
  ∀ (s : State) (m : CanMsg), s.rxState = .waitCf → decode m.data s.addr.rx.rxPrefixSize = none →
    reception (s.processRx m).1 = reception s

/-- FALSE of the model (and of the code: `_process_rx` calls `_stop_receiving()` after reporting
    `InvalidCanDataError`). Witness: a frame with the reserved PCI type 4 in the middle of the reception. -/
theorem undecodable_frame_ignored_false : ¬ undecodable_frame_ignored_statement := by
  intro h
  have := h r3 garbage (by decide +kernel) (by decide +kernel)
  revert this
  decide +kernel

/-- What the model does with a frame that does not decode (empty, shorter than the address prefix, reserved PCI
    type, truncated header, invalid Flow Control): `InvalidCanDataError`, and the reception is ABANDONED —
    idle, buffer dropped, pending Flow Control cancelled, N_Cr STOPPED (not re-armed: no timeout will follow). -/
theorem undecodable_frame_aborts_reception (s : State) (m : CanMsg)
    (hd : decode m.data s.addr.rx.rxPrefixSize = none) :
    s.processRx m = ((s.error .InvalidCanData).stopReceiving, false, false) ∧
    (s.processRx m).1.log = .err s.now .InvalidCanData :: s.log ∧
    (s.processRx m).1.rxState = .idle ∧ (s.processRx m).1.rxBuf = [] ∧
    (s.processRx m).1.timerCf.start = none ∧ (s.processRx m).1.pendingFc = false ∧
    (s.processRx m).1.rxQueue = s.rxQueue ∧ ∀ now, (s.processRx m).1.timerCf.timedOut now = false := by
  rw [processRx_undecodable hd]
  exact ⟨rfl, rfl, rfl, rfl, rfl, rfl, rfl, fun _ => rfl⟩

example : decode garbage.data r3.addr.rx.rxPrefixSize = none ∧
    decode ([] : Bytes) r3.addr.rx.rxPrefixSize = none := by decide +kernel

/-- (e) A Single Frame with the length in the first nibble on a frame of more than 8 bytes:
    `MissingEscapeSequenceError`, nothing else — it does not even interrupt the reception. -/
theorem missing_escape_sf_ignored (s : State) (m : CanMsg) (d : Decoded) (len : Nat) (data : Bytes)
    (hd : decode m.data s.addr.rx.rxPrefixSize = some d) (hp : d.pdu = .sf len data false)
    (h8 : 8 < m.data.length) :
    s.processRx m = ({ s with log := .err s.now .MissingEscapeSequence :: s.log }, false, false) ∧
    reception (s.processRx m).1 = reception s ∧
    (s.processRx m).1.rxState = s.rxState ∧ (s.processRx m).1.rxBuf = s.rxBuf ∧
    (s.processRx m).1.timerCf = s.timerCf ∧ (s.processRx m).1.lastSeq = s.lastSeq ∧
    (s.processRx m).1.rxBlockCnt = s.rxBlockCnt := by
  rw [processRx_missingEscape ⟨d, len, data, hd, hp, h8⟩]
  exact ⟨rfl, rfl, rfl, rfl, rfl, rfl, rfl⟩

example : MissingEscapeSf r3 sfBad :=
  ⟨⟨.sf 5 [1, 2, 3, 4, 5] false, 12, 12⟩, 5, [1, 2, 3, 4, 5], by decide +kernel, rfl, by decide +kernel⟩

/-- all kinds at once: an `Ignored` frame leaves reception, address, configuration and clock alone, logs at most
    one error which is `ChangingInvalidRXDLError` or `MissingEscapeSequenceError` (`SkipEv`), is not counted as a
    received frame, and asks for an immediate transmit pass iff it is a Flow Control -/
theorem ignored_frame (s : State) (m : CanMsg) (h : Ignored s m) :
    reception (s.processRx m).1 = reception s ∧ (s.processRx m).1.timerCf = s.timerCf ∧
    (s.processRx m).1.addr = s.addr ∧ (s.processRx m).1.cfg = s.cfg ∧ (s.processRx m).1.now = s.now ∧
    LogExt SkipEv s (s.processRx m).1 ∧ (s.processRx m).2.2 = false ∧
    ((s.processRx m).2.1 = true ↔ IsFlowControl s m) := by
  have := processRx_ignored h
  exact ⟨this.1.rx, (reception_inj this.1.rx).2.2.2.2.2.2.1, this.1.addr, this.1.cfg, this.2.1, this.2.2.1,
    this.2.2.2.1, this.2.2.2.2⟩

/-! ## 3. … hence the timeout comes exactly when it would have come without them -/

/-- `readFrame` is the body of the rx loop of `process`: the loop returns after it (immediate transmit pass
    requested by `_process_rx`, or time-driven transmit work) or carries on with the rest of the inbox -/
theorem rxLoop_reads (doTx : Bool) (s : State) (st : Stats) (dt : Nat) (m : CanMsg)
    (rest : List (Nat × CanMsg)) :
    (rxLoop doTx s st ((dt, m) :: rest)).1 = readFrame s dt m rest ∨
    ∃ st', (rxLoop doTx s st ((dt, m) :: rest)).1 = (rxLoop doTx (readFrame s dt m rest) st' rest).1 := by
  rw [rxLoop_cons]
  split
  · exact Or.inl rfl
  · split
    · exact Or.inl rfl
    · exact Or.inr ⟨_, rfl⟩

/-- Any number of skipped frames (foreign, wrong-size Consecutive Frames, Flow Controls, Single Frames without
    escape sequence — judged in the state `s` in which the burst begins), read one after the other at arbitrary
    instants up to `s.now + total l`, the last one not later than the deadline: N_Cr is still exactly `s.timerCf`,
    the whole reception is as it was, the clock is where the delays put it, and the log got only `.rx` entries
    and `ChangingInvalidRXDL` / `MissingEscapeSequence` errors — no timeout. -/
theorem ignored_frames_keep_deadline (s : State) (l : List (Nat × CanMsg))
    (hall : ∀ x ∈ l, Skipped s x.2) (hlive : s.timerCf.timedOut (s.now + total l) = false) :
    (readAll s l).timerCf = s.timerCf ∧ reception (readAll s l) = reception s ∧
    (readAll s l).now = s.now + total l ∧ LogExt SkipEv s (readAll s l) := by
  have h := readAll_skipped l s hall hlive
  exact ⟨(reception_inj h.1.rx).2.2.2.2.2.2.1, h.1.rx, h.2.1, h.2.2⟩

/-- … and the next N_Cr check, `dt'` later (`s'` = the state it runs in; `w` = the state it would run in had the
    layer simply waited `total l + dt'` with no frame at all): it reports `ConsecutiveFrameTimeoutError` iff the
    timer of `s` — started at the previous frame of the message or at the Flow Control — has expired by then,
    exactly as in `w`; when it does the reception is closed, otherwise nothing happens; and in both cases the
    reception fields after the check are those of `w` after the check. -/
theorem ignored_frames_keep_timeout (s : State) (l : List (Nat × CanMsg)) (dt' : Nat)
    (hall : ∀ x ∈ l, Skipped s x.2) (hlive : s.timerCf.timedOut (s.now + total l) = false) :
    let s' := (readAll s l).advance dt'
    let w := s.advance (total l + dt')
    s'.now = s.now + total l + dt' ∧ w.now = s'.now ∧
    (s'.checkTimeoutsRx.log = .err s'.now .ConsecutiveFrameTimeout :: s'.log ↔
      s.timerCf.timedOut (s.now + total l + dt') = true) ∧
    (w.checkTimeoutsRx.log = .err w.now .ConsecutiveFrameTimeout :: w.log ↔
      s.timerCf.timedOut (s.now + total l + dt') = true) ∧
    (s.timerCf.timedOut (s.now + total l + dt') = true →
      s'.checkTimeoutsRx.rxState = .idle ∧ s'.checkTimeoutsRx.rxBuf = [] ∧
      s'.checkTimeoutsRx.rxQueue = s.rxQueue) ∧
    (s.timerCf.timedOut (s.now + total l + dt') = false → s'.checkTimeoutsRx = s') ∧
    reception s'.checkTimeoutsRx = reception w.checkTimeoutsRx := by
  intro s' w
  have h := ignored_frames_keep_deadline s l hall hlive
  have hn' : s'.now = s.now + total l + dt' := by
    show (readAll s l).now + dt' = _
    rw [h.2.2.1]
  have hw : w.now = s'.now := by
    rw [hn']; show s.now + (total l + dt') = _; rw [Nat.add_assoc]
  have ht' : s'.timerCf = s.timerCf := h.1
  have hr : reception s' = reception w := h.2.1
  have hq : s'.rxQueue = s.rxQueue := (reception_inj h.2.1).2.2.2.2.2.2.2.2.2
  refine ⟨hn', hw, ?_, ?_, fun hto => ?_, fun hto => ?_, reception_checkTimeoutsRx hr hw.symm⟩
  · rw [timeout_reported_iff, ht', hn']
  · rw [timeout_reported_iff, hw, hn']; rfl
  · have := (checkTimeoutsRx_verdict s').1 (by rw [ht', hn']; exact hto)
    exact ⟨this.2.1, this.2.2.1, by rw [this.2.2.2.2, hq]⟩
  · exact (checkTimeoutsRx_verdict s').2 (by rw [ht', hn']; exact hto)

/-- The same for the rx loop of `process` itself: an inbox made of quietly skipped frames (no Flow Control, which
    would make the loop return for a transmit pass), the last one read before the deadline, no time-driven
    transmit work. The pass reads them all, gets `None`, and ends with the reception and N_Cr as in `s`; its log
    holds no timeout. -/
theorem ignored_inbox_keeps_deadline (doTx : Bool) (s : State) (st : Stats) (l : List (Nat × CanMsg))
    (hall : ∀ x ∈ l, QuietSkipped s x.2) (hlive : s.timerCf.timedOut (s.now + total l) = false)
    (htd : (doTx && s.txTimeDriven) = false) :
    (rxLoop doTx s st l).1 = ({ readAll s l with inbox := [] } : State).emit (.rxNone (s.now + total l)) ∧
    (rxLoop doTx s st l).1.timerCf = s.timerCf ∧ reception (rxLoop doTx s st l).1 = reception s ∧
    (rxLoop doTx s st l).1.now = s.now + total l ∧
    ∀ t, .err t .ConsecutiveFrameTimeout ∉ (rxLoop doTx s st l).1.log.take
      ((rxLoop doTx s st l).1.log.length - s.log.length) := by
  have h := ignored_frames_keep_deadline s l (fun x hx => (hall x hx).skipped) hlive
  rw [rxLoop_quietSkipped_live doTx l s st hall hlive htd]
  refine ⟨rfl, h.1, h.2.1, h.2.2.1, fun t hmem => ?_⟩
  obtain ⟨new, hlog, hnew⟩ := h.2.2.2
  simp only [emit, hlog, List.length_cons, List.length_append] at hmem
  have : new.length + s.log.length + 1 - s.log.length = (Ev.rxNone (s.now + total l) :: new).length := by
    simp; omega
  rw [this, ← List.cons_append, List.take_left] at hmem
  rcases List.mem_cons.mp hmem with h | h
  · cases h
  · have := hnew _ h
    simp [SkipEv] at this

/-- non-vacuity of 3: a burst of four skipped frames of the four kinds, 0.1 s apart, after the Flow Control -/
def burst : List (Nat × CanMsg) :=
  [(100000000, foreign), (100000000, cf8), (100000000, sfBad), (100000000, fcCts)]

example : ∀ x ∈ burst, Skipped r2 x.2 := by
  intro x hx
  simp only [burst, List.mem_cons, List.mem_nil_iff, or_false] at hx
  rcases hx with rfl | rfl | rfl | rfl
  · exact Or.inl (by unfold Foreign; decide +kernel)
  · exact Or.inr (Or.inl ⟨by decide +kernel, ⟨.cf 1 [15, 16, 17, 18, 19, 20, 21], 8, 8⟩, 1, _,
      by decide +kernel, rfl, by decide +kernel, by decide +kernel, by decide +kernel⟩)
  · exact Or.inr (Or.inr (Or.inr ⟨⟨.sf 5 [1, 2, 3, 4, 5] false, 12, 12⟩, 5, _, by decide +kernel, rfl,
      by decide +kernel⟩))
  · exact Or.inr (Or.inr (Or.inl ⟨⟨.fc 0 0 0, 3, 8⟩, 0, 0, 0, by decide +kernel, rfl⟩))

example : r2.rxState = .waitCf ∧ r2.timerCf.start = some 0 ∧ total burst = 400000000 ∧
    r2.timerCf.timedOut (r2.now + total burst) = false := by decide +kernel
/-- the four frames really went through the loop body (two errors, the Flow Control in the mailbox) … -/
example : (readAll r2 burst).timerCf = r2.timerCf ∧ (readAll r2 burst).now = 400000000 ∧
    (readAll r2 burst).rxBuf = r2.rxBuf ∧ (readAll r2 burst).lastFc = some ⟨0, 0, 0⟩ ∧
    (readAll r2 burst).log.take 6 =
      [.rx 400000000 fcCts, .err 300000000 .MissingEscapeSequence, .rx 300000000 sfBad,
       .err 200000000 .ChangingInvalidRXDL, .rx 200000000 cf8, .rx 100000000 foreign] := by decide +kernel
/-- … and the timeout comes 1 s after the Flow Control (t = 0): not at t = 1.0 s, but at t = 1.0 s + 1 ns — not
    1 s after the last ignored frame (t = 1.4 s) -/
example : ((readAll r2 burst).advance 600000000).checkTimeoutsRx.log = (readAll r2 burst).log ∧
    ((readAll r2 burst).advance 600000000).checkTimeoutsRx.rxState = .waitCf ∧
    ((readAll r2 burst).advance 600000001).checkTimeoutsRx.log.head? =
      some (.err 1000000001 .ConsecutiveFrameTimeout) ∧
    ((readAll r2 burst).advance 600000001).checkTimeoutsRx.rxState = .idle := by decide +kernel
/-- the rx loop on the quiet part of the burst -/
example : (∀ x ∈ burst.take 3, QuietSkipped r2 x.2) ∧ (true && r2.txTimeDriven) = false := by
  refine ⟨fun x hx => ?_, by decide +kernel⟩
  simp only [burst, List.take, List.mem_cons, List.mem_nil_iff, or_false] at hx
  rcases hx with rfl | rfl | rfl
  · exact Or.inl (by unfold Foreign; decide +kernel)
  · exact Or.inr (Or.inl ⟨by decide +kernel, ⟨.cf 1 [15, 16, 17, 18, 19, 20, 21], 8, 8⟩, 1, _,
      by decide +kernel, rfl, by decide +kernel, by decide +kernel, by decide +kernel⟩)
  · exact Or.inr (Or.inr ⟨⟨.sf 5 [1, 2, 3, 4, 5] false, 12, 12⟩, 5, _, by decide +kernel, rfl,
      by decide +kernel⟩)
example : (rxLoop true r2 {} (burst.take 3)).1.timerCf = r2.timerCf ∧
    (rxLoop true r2 {} (burst.take 3)).1.now = 300000000 := by decide +kernel

/-! ## 4. the scenario of the property, end to end -/

/-- CAN FD receiver, 16-byte First Frame at t = 0 (Flow Control sent, N_Cr running from 0) -/
example : r2.rxState = .waitCf ∧ r2.actualRxdl = some 16 ∧ r2.rxFrameLen = 40 ∧ r2.rxBuf.length = 14 ∧
    r2.timerCf = { start := some 0, timeout := 1000000000 } := by decide +kernel
/-- t = 0.3 s: the 8-byte Consecutive Frame #1 is ignored — error logged, nothing else, N_Cr unchanged -/
example : r3.processRx cf8 = ({ r3 with log := .err 300000000 .ChangingInvalidRXDL :: r3.log }, false, false) :=
  (wrong_size_cf_ignored r3 cf8 ⟨.cf 1 [15, 16, 17, 18, 19, 20, 21], 8, 8⟩ 1 _ (by decide +kernel)
    (by decide +kernel) rfl (by decide +kernel) (by decide +kernel) (by decide +kernel)).1
example : r4.log = .err 300000000 .ChangingInvalidRXDL :: r3.log ∧ r4.rxState = .waitCf ∧
    r4.timerCf = { start := some 0, timeout := 1000000000 } ∧ r4.lastSeq = 0 ∧ r4.rxBuf = r3.rxBuf ∧
    reception r4 = reception r3 := by
  decide +kernel
/-- t = 0.6 s: the real 16-byte Consecutive Frame #1 is accepted — data appended, N_Cr restarted now -/
example : r6.rxState = .waitCf ∧ r6.rxBuf.length = 29 ∧ r6.lastSeq = 1 ∧ r6.log = r5.log ∧
    r6.timerCf = { start := some 600000000, timeout := 1000000000 } := by decide +kernel
/-- had the real frame not come: the reception is abandoned by the first check after t = 1 s (1 s after the Flow
    Control), although the ignored frame was read at t = 0.3 s -/
example : (r4.advance 700000000).checkTimeoutsRx.log = r4.log ∧
    (r4.advance 700000000).checkTimeoutsRx.rxState = .waitCf ∧
    (r4.advance 700000001).checkTimeoutsRx.log.head? = some (.err 1000000001 .ConsecutiveFrameTimeout) ∧
    (r4.advance 700000001).checkTimeoutsRx.rxState = .idle := by decide +kernel

end Isotp.C07ign

#print axioms Isotp.C07ign.deadline_moves_only_with_progress_false
#print axioms Isotp.C07ign.empty_cf_is_progress
#print axioms Isotp.C07ign.deadline_moves_only_with_progress_partial
#print axioms Isotp.C07ign.deadline_moves_only_with_progress_partial'
#print axioms Isotp.C07ign.deadline_moves_only_by
#print axioms Isotp.C07ign.wrong_size_cf_ignored
#print axioms Isotp.C07ign.flow_control_during_reception_ignored
#print axioms Isotp.C07ign.foreign_frame_ignored
#print axioms Isotp.C07ign.undecodable_frame_ignored_false
#print axioms Isotp.C07ign.undecodable_frame_aborts_reception
#print axioms Isotp.C07ign.missing_escape_sf_ignored
#print axioms Isotp.C07ign.ignored_frame
#print axioms Isotp.C07ign.rxLoop_reads
#print axioms Isotp.C07ign.ignored_frames_keep_deadline
#print axioms Isotp.C07ign.ignored_frames_keep_timeout
#print axioms Isotp.C07ign.ignored_inbox_keeps_deadline
