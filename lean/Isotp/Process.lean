import Isotp.Layer
/-
  `process()` (the rx/tx alternation loop), `send`, `recv`, `stop_sending`,
  `stop_receiving`, `reset` and the accessors.
-/
namespace Isotp

structure Stats where
  received  : Nat := 0
  processed : Nat := 0
  sent      : Nat := 0
  frames    : Nat := 0
  deriving DecidableEq, Repr, Inhabited

namespace State

/-- the transmit FSM has time-driven work (STmin pacing or rate-limiter standby) -/
def txTimeDriven (s : State) : Bool :=
  s.txState = .transmitCf || s.txState = .sfStandby || s.txState = .ffStandby

/-- The inner rx loop of `process`: `rxfn` returns the inbox entries one by one (advancing the
    clock by the entry's blocking delay), then `None`. Stops early when `_process_rx` asks for an
    immediate tx pass, or (with `do_tx`) after a message while the transmit FSM has time-driven
    work; in that case `run_process` is requested (third component). -/
def rxLoop (doTx : Bool) (s : State) (st : Stats) : List (Nat × CanMsg) → State × Stats × Bool
  | [] => ((({ s with inbox := [] } : State).emit (.rxNone s.now)).checkTimeoutsRx, st, false)
  | (dt, m) :: rest =>
    let s := { s with inbox := rest, now := s.now + dt }
    let s := (s.emit (.rx s.now m)).checkTimeoutsRx
    let st := { st with received := st.received + 1 }
    if s.addr.rx.isForMe m then
      let st := { st with processed := st.processed + 1 }
      let (s, imm, fr) := s.processRx m
      let st := if fr then { st with frames := st.frames + 1 } else st
      if imm then (s, st, false)
      else if doTx && s.txTimeDriven then (s, st, true)
      else rxLoop doTx s st rest
    else if doTx && s.txTimeDriven then (s, st, true)
    else rxLoop doTx s st rest

/-- The inner tx loop: (state, sent, run_process requested, out of fuel). -/
def txLoop : Nat → State → Nat → State × Nat × Bool × Bool
  | 0, s, n => (s, n, false, true)
  | f + 1, s, n =>
    let (s, out, imm) := s.processTx
    if s.exc.isSome then (s, n, false, false) else
    let (s, n) := match out with
      | some m => (s.emit (.tx s.now m), n + 1)
      | none => (s, n)
    if imm then (s, n, true, false)
    else if out.isSome then txLoop f s n
    else (s, n, false, false)

def reqFuel (r : Req) : Nat := r.remaining + 2

/-- enough fuel for one inner tx loop (each iteration emits a frame or ends a request). -/
def txFuel (s : State) : Nat :=
  (s.txQueue.map reqFuel).sum + (match s.active with | some r => reqFuel r | none => 0) + 4

/-- `process(do_rx, do_tx)`: (state, stats, out of fuel). -/
def processLoop : Nat → Bool → Bool → State → Stats → State × Stats × Bool
  | 0, _, _, s, st => (s, st, true)
  | f + 1, doRx, doTx, s, st =>
    let startWithTx := doTx && !s.txQueue.isEmpty && s.rxState = .idle && s.txState = .idle
    let (s, st, rxRun) := if doRx && !startWithTx then s.rxLoop doTx st s.inbox else (s, st, false)
    let s := { s with rl := s.rl.update s.cfg.rlWindowNs s.now }
    let (s, st, run, oof) :=
      if doTx then
        let (s, n, run, oof) := txLoop s.txFuel s st.sent
        (s, { st with sent := n }, run, oof)
      else (s, st, false, false)
    if s.exc.isSome then (s, st, false)
    else if oof then (s, st, true)
    else if startWithTx || rxRun || run then processLoop f doRx doTx s st
    else (s, st, false)

def processFuel (s : State) : Nat := 2 * (s.inbox.length + s.txQueue.length) + 8

def process (s : State) (doRx doTx : Bool) : State × Stats × Bool :=
  processLoop s.processFuel doRx doTx s {}

/-- arguments of `send` as the model sees them -/
structure SendArgs where
  id    : Nat
  size  : Int            -- declared size (`len(data)` for bytes)
  src   : Bytes          -- what the generator yields
  tat   : Option Tat := none
  instr : Bool := false
  deriving Repr, Inhabited

/-- `send(...)`; with `blocking_send` the harness always passes `send_timeout=0`
    in single-threaded scenarios, so the call ends in `BlockingSendTimeout` unless
    the request is already complete (it never is). -/
def send (s : State) (a : SendArgs) : State × Option PyExc :=
  let tat := a.tat.getD s.cfg.defaultTat
  if a.size < 0 then (s, some .ValueError)
  else if a.size > 0xFFFFFFFF then (s, some .ValueError)
  else
    let size := a.size.toNat
    let lengthBytes := if s.cfg.txDl = 8 then 1 else 2
    if tat = .functional && size + lengthBytes + s.txPrefixLen > s.cfg.txDl then (s, some .ValueError)
    else
      let r : Req := { id := a.id, size := size, src := a.src, tat := tat, instr := a.instr }
      let s := { s with txQueue := s.txQueue ++ [r] }
      if s.cfg.blocking then (s, some .BlockingSendTimeout) else (s, none)

def recv (s : State) : State × Option Bytes :=
  match s.rxQueue with
  | [] => (s, none)
  | p :: rest => ({ s with rxQueue := rest }, some p)

def available (s : State) : Bool := !s.rxQueue.isEmpty
def transmitting (s : State) : Bool := !s.txQueue.isEmpty || s.txState != .idle
def isTxThrottled (s : State) : Bool := s.txState = .sfStandby || s.txState = .ffStandby
def isRxActive (s : State) : Bool := s.rxState != .idle

/-- `clear_tx_queue`: every dropped request is completed with failure. -/
def clearTxQueue (s : State) : List Req → State
  | [] => { s with txQueue := [] }
  | r :: rest => clearTxQueue (s.emit (.done r.id false)) rest

/-- `reset()` -/
def reset (s : State) : State :=
  let s := { s with rxQueue := [] }
  let s := s.clearTxQueue s.txQueue
  let s := (s.stopSending false).stopReceiving
  { s with rl := s.rl.reset }

def advance (s : State) (dt : Nat) : State := { s with now := s.now + dt }

def pushFrame (s : State) (dt : Nat) (m : CanMsg) : State := { s with inbox := s.inbox ++ [(dt, m)] }

end State
end Isotp
