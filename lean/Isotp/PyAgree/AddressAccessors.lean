import Isotp.PyAgree.AddressFns
import Isotp.PyAgree.AddressInit
/-!
  The accessors of `Address` and the twelve delegations of `AsymmetricAddress` (isotp/address.py), for EVERY validated address.

  1. `Address`: `is_tx_only`, `is_rx_only`, `get_rx_prefix_size`, `get_tx_payload_prefix`, `is_tx_29bits`, `is_rx_29bits`,
     `requires_tx_extension_byte`, `requires_rx_extension_byte`, `is_for_me` return the model's field of the `Half`, on every
     environment that holds what `Address.__init__` computes.  The presentation predicate is `Presents h env`: the part of the
     conclusion of `Address_init_constructs_raw` / `Address_init_constructs` (AddressInit.lean) that does not mention the five
     identifier arguments (`otherAttrs h` present, `unsetAttrs h` absent); `constructed_presents` cites those theorems, so every
     statement below composes with the constructor (`*_on_constructed`).
     An accessor of the missing direction of a partial address is REPLACED in the instance (`setattr(self, name,
     not_implemented_func_with_partial)`): the class-level body is then not what a call runs.  Each theorem therefore also states
     that the name is not shadowed (`env "self.<name>" = none`) under the guard the constructor uses, and `shadowed_when_partial`
     gives the replaced names.  The class-level `Address.is_for_me` raises `NotImplementedError` for everybody
     (`Address_is_for_me_class_raises`); what a receive-capable object answers is the variant the constructor installed
     (`installed_is_for_me`, `is_for_me_on_constructed`).
  2. `AsymmetricAddress`: each delegation calls the method of the RIGHT object with the argument unchanged, whatever the two
     objects answer (`asym_*_delegates`: callees `asymMeths tx rx`, `tx` / `rx` arbitrary functions of the method name and the
     argument list); with the two objects answering the model's values (`halfObj`), every accessor of the asymmetric object is the
     model's field of `a.tx` / `a.rx` (`asym_accessors_model`).
  3. `swap_detected`: an 11-bit transmit half and a 29-bit receive half on which every tx answer differs from the rx answer, and
     on which each of the eleven delegations REDIRECTED TO THE OTHER OBJECT misses the model's value.
  4. Section 5: a body that only reads names returns the same value in two environments that agree on the names it reads
     (`retOf_congr`); with it the theorems of AddressFns.lean stated on the attribute view `halfEnv h` (`isForMe_agrees`, the
     extension bytes) hold on the object the constructor returns: `is_for_me_presented`, `is_for_me_on_constructed`,
     `address_accessors_on_constructed`, `arbitration_ids_on_constructed`.

  Conventions: `retM M env body` = value returned by `body` run by the first interpreter `runFn` with callees `M`
  (`retOf` = `retM noMeths`); objects other than `self` are opaque handles (`.meth "msg"`), as in `asymEnv` of AddressInit.lean.
-/
namespace Isotp.PyAgree.Acc
open Isotp Isotp.Py Isotp.PyAgree Isotp.PyAgree.AddrInit

/-! ## 0. Infrastructure -/

/-- value returned by a function body, the other methods being given by `M` (`retOf` is the case `noMeths`) -/
def retM (M : Meths) (env : Env) (body : PBlock) : Except PErr PV := (runFn M env body).map (·.1)

theorem retOf_eq_retM (env : Env) (body : PBlock) : retOf env body = retM noMeths env body := rfl

/-- the names the interpreter treats as builtins; every other call goes to `Meths` -/
def builtinNames : List String :=
  ["len", "int", "bool", "min", "max", "bytes", "isinstance_int", "isinstance_bool", "isinstance_float", "isinstance_int_float"]

theorem evalBuiltin_none (fn : String) (args : List PV) (h : fn ∉ builtinNames) : evalBuiltin fn args = none := by
  simp only [builtinNames, List.mem_cons, List.not_mem_nil, or_false, not_or] at h
  unfold evalBuiltin; split <;> simp_all

/-- `return <attribute>` -/
theorem ret_var (M : Meths) (env : Env) (k : String) (v : PV) (hk : env k = some v) :
    retM M env (.cons (.ret (.var k)) .nil) = .ok v := by
  simp [retM, runFn, execBlock, execStmt, eval, hk]

/-- `return <callee>()`: the value is whatever the callee answers (an exception of the callee propagates) -/
theorem ret_call0 (M : Meths) (env : Env) (name : String) (hn : name ∉ builtinNames) :
    retM M env (.cons (.ret (.call name .nil)) .nil) = M.fn name [] env := by
  cases hf : M.fn name [] env <;>
  simp [retM, runFn, execBlock, execStmt, eval, evalArgs, evalBuiltin_none _ _ hn, hf]

/-- `return <callee>(<name>)`: the callee receives the value bound to the name, unchanged -/
theorem ret_call1 (M : Meths) (env : Env) (name arg : String) (v : PV) (hn : name ∉ builtinNames) (hv : env arg = some v) :
    retM M env (.cons (.ret (.call name (.cons (.var arg) .nil))) .nil) = M.fn name [v] env := by
  cases hf : M.fn name [v] env <;>
  simp [retM, runFn, execBlock, execStmt, eval, evalArgs, evalBuiltin_none _ _ hn, hv, hf]

/-! ## 1. The presentation: what `Address.__init__` leaves in the object -/

/-- The presentation predicate of AddressInit.lean: every attribute of `otherAttrs h` (mode, `_is_29bits`, the two partial flags,
    `physical_id` / `functional_id`, the cached identifiers, `_rx_prefix_size`, `_tx_payload_prefix`, `is_for_me` and the replaced
    methods) has the model's value, the attributes of `unsetAttrs h` do not exist.  It is the common part of the conclusions of
    `Address_init_constructs_raw` and `Address_init_constructs`. -/
def Presents (h : Half) (env : Env) : Prop :=
  (∀ kv ∈ otherAttrs h, env kv.1 = some kv.2) ∧ (∀ k ∈ unsetAttrs h, env k = none)

theorem presents_of_raw {a : AddrArgs} {h : Half} {env : Env}
    (h1 : ∀ kv ∈ rawIdAttrs a ++ otherAttrs h, env kv.1 = some kv.2) (h2 : ∀ k ∈ unsetAttrs h, env k = none) : Presents h env :=
  ⟨fun kv hkv => h1 kv (List.mem_append_right _ hkv), h2⟩

theorem presents_of_expected {h : Half} {env : Env}
    (h1 : ∀ kv ∈ expectedAttrs h, env kv.1 = some kv.2) (h2 : ∀ k ∈ unsetAttrs h, env k = none) : Presents h env :=
  ⟨fun kv hkv => h1 kv (List.mem_append_right _ hkv), h2⟩

/-- the class constants (global names, not attributes of the object) are visible -/
structure Consts (env : Env) : Prop where
  c1 : env "AddressingMode.Normal_11bits" = some (modePV .n11)
  c2 : env "AddressingMode.Normal_29bits" = some (modePV .n29)
  c3 : env "AddressingMode.NormalFixed_29bits" = some (modePV .nf29)
  c4 : env "AddressingMode.Extended_11bits" = some (modePV .e11)
  c5 : env "AddressingMode.Extended_29bits" = some (modePV .e29)
  c6 : env "AddressingMode.Mixed_11bits" = some (modePV .m11)
  c7 : env "AddressingMode.Mixed_29bits" = some (modePV .m29)
  t1 : env "TargetAddressType.Physical" = some (tatPV .physical)
  t2 : env "TargetAddressType.Functional" = some (tatPV .functional)

theorem consts_halfEnv (h : Half) : Consts (halfEnv h) := by
  constructor <;> rfl

theorem inv_txNip {a : AddrArgs} {m : Mode} {env : Env} (hI : Inv a m env) : Inv a m (txNip env) :=
  (((((hI.set (by decide) _).set (by decide) _).set (by decide) _).set (by decide) _).set (by decide) _)

/-- the read-only invariant of the constructor still holds of the object it returns -/
theorem inv_finalEnv (a : AddrArgs) (m : Mode) (h : Half) : Inv a m (finalEnv a m h) := by
  have I13 : Inv a m (env13 a m) := ((inv_env11 a m).set (by decide) _).set (by decide) _
  have I17 : Inv a m ((isForMeStage a m (txStage a m h (rxStage a m h (env13 a m)))).set nipName nip) :=
    (((I13.rxStage h).txStage h).isForMeStage).set (by decide) _
  have I18 : Inv a m (if a.txOnly then rxNip ((isForMeStage a m (txStage a m h (rxStage a m h (env13 a m)))).set nipName nip)
      else (isForMeStage a m (txStage a m h (rxStage a m h (env13 a m)))).set nipName nip) := by
    split
    · exact I17.rxNip
    · exact I17
  show Inv a m (if a.rxOnly then txNip _ else _)
  split
  · exact inv_txNip I18
  · exact I18

theorem consts_finalEnv (a : AddrArgs) (m : Mode) (h : Half) : Consts (finalEnv a m h) := by
  have I := inv_finalEnv a m h
  exact ⟨I.c1, I.c2, I.c3, I.c4, I.c5, I.c6, I.c7, I.t1, I.t2⟩

/-- **the constructor establishes the presentation**, for ALL accepted arguments (`Address_init_run` + `finalEnv_attrs`, i.e.
    `Address_init_constructs_raw`) -/
theorem constructed_presents (a : AddrArgs) (m : Mode) (h : Half) (hm : a.mode = some m) (hk : mkAddress a = .ok h) :
    ∃ env', runFn (initMeths a) (initEnv a m) Src.Address_init = .ok (pnone, env') ∧ Presents h env' ∧ Consts env' :=
  ⟨finalEnv a m h, Address_init_run a m h hm hk,
    presents_of_raw (finalEnv_attrs a m h hm hk).1 (finalEnv_attrs a m h hm hk).2, consts_finalEnv a m h⟩

/-- `validate` rejects `rx_only and tx_only` -/
theorem mkAddress_not_both {a : AddrArgs} {h : Half} (hk : mkAddress a = .ok h) : ¬ (h.rxOnly = true ∧ h.txOnly = true) := by
  cases hm : a.mode with
  | none => simp [mkAddress, hm] at hk
  | some m =>
    obtain ⟨hv, hh⟩ := mkAddress_ok hm hk
    subst hh
    simp only [validateAddr, hm, Bool.and_eq_true] at hv
    have := hv.1.1.1.1.1.1
    rintro ⟨h1, h2⟩
    simp only [mkHalf] at h1 h2
    simp [h1, h2] at this

/-! ### the attributes the accessors read -/

section lookups
variable {h : Half} {env : Env} (hp : Presents h env)
include hp

theorem at_tx_only : env "self._tx_only" = some (pbool h.txOnly) := hp.1 ("self._tx_only", _) (by simp [otherAttrs])
theorem at_rx_only : env "self._rx_only" = some (pbool h.rxOnly) := hp.1 ("self._rx_only", _) (by simp [otherAttrs])
theorem at_is_29bits : env "self._is_29bits" = some (pbool h.mode.is29) := hp.1 ("self._is_29bits", _) (by simp [otherAttrs])
theorem at_mode : env "self._addressing_mode" = some (modePV h.mode) := hp.1 ("self._addressing_mode", _) (by simp [otherAttrs, modePV])

theorem at_rx_prefix_size (ht : h.txOnly = false) : env "self._rx_prefix_size" = some (pint h.rxPrefixSize) :=
  hp.1 ("self._rx_prefix_size", _) (by simp [otherAttrs, ht, nip])
theorem at_tx_payload_prefix (hr : h.rxOnly = false) : env "self._tx_payload_prefix" = some (.bytes h.txPrefix) :=
  hp.1 ("self._tx_payload_prefix", _) (by simp [otherAttrs, hr, nip])
theorem at_is_for_me (ht : h.txOnly = false) : env "self.is_for_me" = some (.meth (isForMeName h.mode)) :=
  hp.1 ("self.is_for_me", _) (by simp [otherAttrs, ht, nip])
theorem at_tx_id (hr : h.rxOnly = false) (t : Tat) :
    env (match t with | .physical => "self._tx_arbitration_id_physical" | .functional => "self._tx_arbitration_id_functional") =
      some (pint (h.txId t)) := by
  cases t
  · exact hp.1 ("self._tx_arbitration_id_physical", _) (by simp [otherAttrs, hr, nip])
  · exact hp.1 ("self._tx_arbitration_id_functional", _) (by simp [otherAttrs, hr, nip])
theorem at_rx_id (ht : h.txOnly = false) (t : Tat) :
    env (match t with | .physical => "self._rx_arbitration_id_physical" | .functional => "self._rx_arbitration_id_functional") =
      some (pint (h.rxId t)) := by
  cases t
  · exact hp.1 ("self._rx_arbitration_id_physical", _) (by simp [otherAttrs, ht, nip])
  · exact hp.1 ("self._rx_arbitration_id_functional", _) (by simp [otherAttrs, ht, nip])

/-- the receive-side accessors of an object that can receive are the class-level `def`s (no instance attribute shadows them) -/
theorem rx_side_not_shadowed (ht : h.txOnly = false) :
    env "self.get_rx_arbitration_id" = none ∧ env "self.requires_rx_extension_byte" = none ∧
    env "self.get_rx_extension_byte" = none ∧ env "self.is_rx_29bits" = none ∧ env "self.get_rx_prefix_size" = none :=
  ⟨hp.2 _ (by simp [unsetAttrs, ht]), hp.2 _ (by simp [unsetAttrs, ht]), hp.2 _ (by simp [unsetAttrs, ht]),
    hp.2 _ (by simp [unsetAttrs, ht]), hp.2 _ (by simp [unsetAttrs, ht])⟩

/-- the transmit-side accessors of an object that can transmit are the class-level `def`s -/
theorem tx_side_not_shadowed (hr : h.rxOnly = false) :
    env "self.get_tx_arbitration_id" = none ∧ env "self.requires_tx_extension_byte" = none ∧
    env "self.get_tx_extension_byte" = none ∧ env "self.is_tx_29bits" = none ∧ env "self.get_tx_payload_prefix" = none :=
  ⟨hp.2 _ (by simp [unsetAttrs, hr]), hp.2 _ (by simp [unsetAttrs, hr]), hp.2 _ (by simp [unsetAttrs, hr]),
    hp.2 _ (by simp [unsetAttrs, hr]), hp.2 _ (by simp [unsetAttrs, hr])⟩

/-- the accessors of the missing direction of a partial address are replaced by `not_implemented_func_with_partial`
    (source: `raise NotImplementedError("Not possible with partial address")`) -/
theorem shadowed_when_partial :
    (h.txOnly = true →
      env "self.get_rx_arbitration_id" = some nip ∧ env "self.requires_rx_extension_byte" = some nip ∧
      env "self.get_rx_extension_byte" = some nip ∧ env "self.is_rx_29bits" = some nip ∧ env "self.is_for_me" = some nip ∧
      env "self.get_rx_prefix_size" = some nip) ∧
    (h.rxOnly = true →
      env "self.get_tx_arbitration_id" = some nip ∧ env "self.requires_tx_extension_byte" = some nip ∧
      env "self.get_tx_extension_byte" = some nip ∧ env "self.is_tx_29bits" = some nip ∧
      env "self.get_tx_payload_prefix" = some nip) := by
  constructor
  · intro ht
    exact ⟨hp.1 ("self.get_rx_arbitration_id", _) (by simp [otherAttrs, ht, nip]),
      hp.1 ("self.requires_rx_extension_byte", _) (by simp [otherAttrs, ht, nip]),
      hp.1 ("self.get_rx_extension_byte", _) (by simp [otherAttrs, ht, nip]),
      hp.1 ("self.is_rx_29bits", _) (by simp [otherAttrs, ht, nip]),
      hp.1 ("self.is_for_me", _) (by simp [otherAttrs, ht, nip]),
      hp.1 ("self.get_rx_prefix_size", _) (by simp [otherAttrs, ht, nip])⟩
  · intro hr
    exact ⟨hp.1 ("self.get_tx_arbitration_id", _) (by simp [otherAttrs, hr, nip]),
      hp.1 ("self.requires_tx_extension_byte", _) (by simp [otherAttrs, hr, nip]),
      hp.1 ("self.get_tx_extension_byte", _) (by simp [otherAttrs, hr, nip]),
      hp.1 ("self.is_tx_29bits", _) (by simp [otherAttrs, hr, nip]),
      hp.1 ("self.get_tx_payload_prefix", _) (by simp [otherAttrs, hr, nip])⟩

end lookups

/-! ## 2. The accessors of `Address` -/

section accessors
variable (M : Meths) {h : Half} {env : Env} (hp : Presents h env)
include hp

/-- `is_tx_only` (never replaced) -/
theorem is_tx_only_agrees : retM M env Src.Address_is_tx_only = .ok (pbool h.txOnly) :=
  ret_var M env _ _ (at_tx_only hp)

/-- `is_rx_only` (never replaced) -/
theorem is_rx_only_agrees : retM M env Src.Address_is_rx_only = .ok (pbool h.rxOnly) :=
  ret_var M env _ _ (at_rx_only hp)

/-- `is_tx_29bits`: the width of the mode; the body does not depend on the direction, the guard is for the dispatch -/
theorem is_tx_29bits_agrees : retM M env Src.Address_is_tx_29bits = .ok (pbool h.mode.is29) :=
  ret_var M env _ _ (at_is_29bits hp)

theorem is_rx_29bits_agrees : retM M env Src.Address_is_rx_29bits = .ok (pbool h.mode.is29) :=
  ret_var M env _ _ (at_is_29bits hp)

/-- `get_rx_prefix_size` of an object that can receive: `Half.rxPrefixSize` -/
theorem get_rx_prefix_size_agrees (ht : h.txOnly = false) :
    retM M env Src.Address_get_rx_prefix_size = .ok (pint h.rxPrefixSize) :=
  ret_var M env _ _ (at_rx_prefix_size hp ht)

/-- `get_tx_payload_prefix` of an object that can transmit: `Half.txPrefix` -/
theorem get_tx_payload_prefix_agrees (hr : h.rxOnly = false) :
    retM M env Src.Address_get_tx_payload_prefix = .ok (.bytes h.txPrefix) :=
  ret_var M env _ _ (at_tx_payload_prefix hp hr)

omit hp in
/-- `requires_rx_extension_byte` / `requires_tx_extension_byte` return what `self._requires_extension_byte()` answers -/
theorem requires_rx_extension_byte_delegates (env : Env) :
    retM M env Src.Address_requires_rx_extension_byte = M.fn "self._requires_extension_byte" [] env :=
  ret_call0 M env _ (by decide)

omit hp in
theorem requires_tx_extension_byte_delegates (env : Env) :
    retM M env Src.Address_requires_tx_extension_byte = M.fn "self._requires_extension_byte" [] env :=
  ret_call0 M env _ (by decide)

end accessors

/-- `_requires_extension_byte` on ANY environment that presents `h` (same proof as `p_requires_extension_byte_agrees`, which is the
    instance `halfEnv h`) -/
theorem p_requires_extension_byte_presented {h : Half} {env : Env} (hp : Presents h env) (hc : Consts env) :
    retOf env Src.Address_p_requires_extension_byte = .ok (pbool h.mode.hasPrefix) := by
  have hm := at_mode hp
  cases hc
  cases hmm : h.mode <;>
  simp [retOf, runFn, Src.Address_p_requires_extension_byte, execBlock, execStmt, eval, evalArgs, *, modePV, modeName] <;> rfl

/-- a call to another method of the same object runs the callee's SOURCE on the same object (no parameter) -/
def selfMeths : Meths where
  fn := fun name args env =>
    match name, args with
    | "self._requires_extension_byte", [] => retOf env Src.Address_p_requires_extension_byte
    | n, _ => .error (.unsupported ("call " ++ n))
  proc := fun n _ _ => .error (.unsupported ("call " ++ n))

theorem selfMeths_requires (env : Env) :
    selfMeths.fn "self._requires_extension_byte" [] env = retOf env Src.Address_p_requires_extension_byte := rfl

/-- `requires_rx_extension_byte`, the callee interpreted too: `Mode.hasPrefix` -/
theorem requires_rx_extension_byte_agrees {h : Half} {env : Env} (hp : Presents h env) (hc : Consts env) :
    retM selfMeths env Src.Address_requires_rx_extension_byte = .ok (pbool h.mode.hasPrefix) := by
  rw [requires_rx_extension_byte_delegates, selfMeths_requires, p_requires_extension_byte_presented hp hc]

theorem requires_tx_extension_byte_agrees {h : Half} {env : Env} (hp : Presents h env) (hc : Consts env) :
    retM selfMeths env Src.Address_requires_tx_extension_byte = .ok (pbool h.mode.hasPrefix) := by
  rw [requires_tx_extension_byte_delegates, selfMeths_requires, p_requires_extension_byte_presented hp hc]

/-! ### `is_for_me` -/

/-- the class-level `Address.is_for_me` raises `NotImplementedError`, whatever the object and the message -/
theorem Address_is_for_me_class_raises (M : Meths) (env : Env) :
    runFn M env Src.Address_is_for_me = .error (.exc .NotImplementedError) := rfl

/-- the `def`s the constructor binds to `self.is_for_me`, by name -/
def boundBody : String → Option PBlock
  | "_is_for_me_normal" => some Src.Address_p_is_for_me_normal
  | "_is_for_me_extended" => some Src.Address_p_is_for_me_extended
  | "_is_for_me_normal_fixed" => some Src.Address_p_is_for_me_normal_fixed
  | "_is_for_me_mixed_11bits" => some Src.Address_p_is_for_me_mixed_11bits
  | "_is_for_me_mixed_29bits" => some Src.Address_p_is_for_me_mixed_29bits
  | _ => none

theorem boundBody_isForMeName (m : Mode) : boundBody (isForMeName m) = some (selectedPredicate m) := by
  cases m <;> rfl

/-- **`is_for_me` = the installed variant**: on an object that can receive, `self.is_for_me` is the bound method
    `_is_for_me_<mode>` chosen by the constructor (it shadows the raising class-level `def`), whose source answers
    `Half.isForMe` (`isForMe_agrees`, on the attribute view `halfEnv h`). -/
theorem installed_is_for_me {h : Half} {env : Env} (hp : Presents h env) (ht : h.txOnly = false) (m : CanMsg) :
    ∃ n body, env "self.is_for_me" = some (.meth n) ∧ boundBody n = some body ∧
      retOf (msgEnv m (halfEnv h)) body = .ok (pbool (h.isForMe m)) :=
  ⟨isForMeName h.mode, selectedPredicate h.mode, at_is_for_me hp ht, boundBody_isForMeName _, isForMe_agrees h m⟩

/-! ### the cached identifiers (`get_tx_arbitration_id` / `get_rx_arbitration_id`) on a presented object

  (`get_tx_arbitration_id_agrees` of AddressFns.lean is the instance `cachedEnv h (halfEnv h)`.) -/

theorem get_tx_arbitration_id_presented {h : Half} {env : Env} (M : Meths) (hp : Presents h env) (hc : Consts env)
    (hr : h.rxOnly = false) (t : Tat) (hat : env "address_type" = some (tatPV t)) :
    retM M env Src.Address_get_tx_arbitration_id = .ok (pint (h.txId t)) := by
  have h1 := at_tx_id hp hr .physical
  have h2 := at_tx_id hp hr .functional
  cases hc
  cases t <;>
  simp [retM, runFn, Src.Address_get_tx_arbitration_id, execBlock, execStmt, eval, *, tatPV] at *

theorem get_rx_arbitration_id_presented {h : Half} {env : Env} (M : Meths) (hp : Presents h env) (hc : Consts env)
    (ht : h.txOnly = false) (t : Tat) (hat : env "address_type" = some (tatPV t)) :
    retM M env Src.Address_get_rx_arbitration_id = .ok (pint (h.rxId t)) := by
  have h1 := at_rx_id hp ht .physical
  have h2 := at_rx_id hp ht .functional
  cases hc
  cases t <;>
  simp [retM, runFn, Src.Address_get_rx_arbitration_id, execBlock, execStmt, eval, *, tatPV] at *

/-! ## 3. The delegations of `AsymmetricAddress` -/

/-- The callees of the delegations: `self.tx_addr.<m>(args)` is the method `<m>` of the object stored in `self.tx_addr`,
    `self.rx_addr.<m>(args)` the method `<m>` of the object stored in `self.rx_addr`; the two objects are ARBITRARY functions of the
    method name and the argument list (`tx`, `rx`).  All 2 x 11 combinations are given a meaning, so that a delegation to the
    wrong object is a call that succeeds - with the other object's answer. -/
def asymMeths (tx rx : String → List PV → Except PErr PV) : Meths where
  fn := fun name args _ =>
    match name with
    | "self.tx_addr.get_tx_extension_byte" => tx "get_tx_extension_byte" args
    | "self.tx_addr.get_rx_extension_byte" => tx "get_rx_extension_byte" args
    | "self.tx_addr.is_for_me" => tx "is_for_me" args
    | "self.tx_addr.get_tx_arbitration_id" => tx "get_tx_arbitration_id" args
    | "self.tx_addr.get_rx_arbitration_id" => tx "get_rx_arbitration_id" args
    | "self.tx_addr.is_tx_29bits" => tx "is_tx_29bits" args
    | "self.tx_addr.is_rx_29bits" => tx "is_rx_29bits" args
    | "self.tx_addr.requires_tx_extension_byte" => tx "requires_tx_extension_byte" args
    | "self.tx_addr.requires_rx_extension_byte" => tx "requires_rx_extension_byte" args
    | "self.tx_addr.get_rx_prefix_size" => tx "get_rx_prefix_size" args
    | "self.tx_addr.get_tx_payload_prefix" => tx "get_tx_payload_prefix" args
    | "self.rx_addr.get_tx_extension_byte" => rx "get_tx_extension_byte" args
    | "self.rx_addr.get_rx_extension_byte" => rx "get_rx_extension_byte" args
    | "self.rx_addr.is_for_me" => rx "is_for_me" args
    | "self.rx_addr.get_tx_arbitration_id" => rx "get_tx_arbitration_id" args
    | "self.rx_addr.get_rx_arbitration_id" => rx "get_rx_arbitration_id" args
    | "self.rx_addr.is_tx_29bits" => rx "is_tx_29bits" args
    | "self.rx_addr.is_rx_29bits" => rx "is_rx_29bits" args
    | "self.rx_addr.requires_tx_extension_byte" => rx "requires_tx_extension_byte" args
    | "self.rx_addr.requires_rx_extension_byte" => rx "requires_rx_extension_byte" args
    | "self.rx_addr.get_rx_prefix_size" => rx "get_rx_prefix_size" args
    | "self.rx_addr.get_tx_payload_prefix" => rx "get_tx_payload_prefix" args
    | n => .error (.unsupported ("call " ++ n))
  proc := fun n _ _ => .error (.unsupported ("call " ++ n))

section delegations
variable (tx rx : String → List PV → Except PErr PV) (env : Env)

/-- the transmit side goes to `self.tx_addr` -/
theorem asym_get_tx_extension_byte_delegates :
    retM (asymMeths tx rx) env Src.AsymmetricAddress_get_tx_extension_byte = tx "get_tx_extension_byte" [] :=
  ret_call0 _ env "self.tx_addr.get_tx_extension_byte" (by decide)

theorem asym_get_tx_arbitration_id_delegates (v : PV) (hv : env "address_type" = some v) :
    retM (asymMeths tx rx) env Src.AsymmetricAddress_get_tx_arbitration_id = tx "get_tx_arbitration_id" [v] :=
  ret_call1 _ env "self.tx_addr.get_tx_arbitration_id" "address_type" v (by decide) hv

theorem asym_is_tx_29bits_delegates :
    retM (asymMeths tx rx) env Src.AsymmetricAddress_is_tx_29bits = tx "is_tx_29bits" [] :=
  ret_call0 _ env "self.tx_addr.is_tx_29bits" (by decide)

theorem asym_requires_tx_extension_byte_delegates :
    retM (asymMeths tx rx) env Src.AsymmetricAddress_requires_tx_extension_byte = tx "requires_tx_extension_byte" [] :=
  ret_call0 _ env "self.tx_addr.requires_tx_extension_byte" (by decide)

theorem asym_get_tx_payload_prefix_delegates :
    retM (asymMeths tx rx) env Src.AsymmetricAddress_get_tx_payload_prefix = tx "get_tx_payload_prefix" [] :=
  ret_call0 _ env "self.tx_addr.get_tx_payload_prefix" (by decide)

/-- the receive side goes to `self.rx_addr` -/
theorem asym_get_rx_extension_byte_delegates :
    retM (asymMeths tx rx) env Src.AsymmetricAddress_get_rx_extension_byte = rx "get_rx_extension_byte" [] :=
  ret_call0 _ env "self.rx_addr.get_rx_extension_byte" (by decide)

theorem asym_is_for_me_delegates (v : PV) (hv : env "msg" = some v) :
    retM (asymMeths tx rx) env Src.AsymmetricAddress_is_for_me = rx "is_for_me" [v] :=
  ret_call1 _ env "self.rx_addr.is_for_me" "msg" v (by decide) hv

theorem asym_get_rx_arbitration_id_delegates (v : PV) (hv : env "address_type" = some v) :
    retM (asymMeths tx rx) env Src.AsymmetricAddress_get_rx_arbitration_id = rx "get_rx_arbitration_id" [v] :=
  ret_call1 _ env "self.rx_addr.get_rx_arbitration_id" "address_type" v (by decide) hv

theorem asym_is_rx_29bits_delegates :
    retM (asymMeths tx rx) env Src.AsymmetricAddress_is_rx_29bits = rx "is_rx_29bits" [] :=
  ret_call0 _ env "self.rx_addr.is_rx_29bits" (by decide)

theorem asym_requires_rx_extension_byte_delegates :
    retM (asymMeths tx rx) env Src.AsymmetricAddress_requires_rx_extension_byte = rx "requires_rx_extension_byte" [] :=
  ret_call0 _ env "self.rx_addr.requires_rx_extension_byte" (by decide)

theorem asym_get_rx_prefix_size_delegates :
    retM (asymMeths tx rx) env Src.AsymmetricAddress_get_rx_prefix_size = rx "get_rx_prefix_size" [] :=
  ret_call0 _ env "self.rx_addr.get_rx_prefix_size" (by decide)

/-- `is_partial_address` is `False`, whatever the two halves -/
theorem asym_is_partial_address_false (M : Meths) :
    retM M env Src.AsymmetricAddress_is_partial_address = .ok (pbool false) := rfl

end delegations

/-! ### the two objects, from the model -/

/-- the handle bound to the parameter `msg` (objects are opaque values of the interpreter) -/
def msgHandle : PV := .meth "msg"

/-- what `not_implemented_func_with_partial` does -/
def notImplemented : Except PErr PV := .error (.exc .NotImplementedError)

/-- an argument that must be a `TargetAddressType` member -/
def withTat (v : PV) (f : Tat → PV) : Except PErr PV :=
  if v = tatPV .physical then .ok (f .physical)
  else if v = tatPV .functional then .ok (f .functional)
  else .error (.unsupported "address type")

theorem withTat_tatPV (t : Tat) (f : Tat → PV) : withTat (tatPV t) f = .ok (f t) := by
  cases t <;> simp [withTat, tatPV]

/-- What the `Address` object presented by `h` answers to each accessor call, FROM THE MODEL (`m`: the message `msgHandle` stands
    for).  Each clause is an agreement theorem: section 2 above for `is_tx_29bits`, `is_rx_29bits`, `get_rx_prefix_size`,
    `get_tx_payload_prefix`, `requires_*_extension_byte`, `get_*_arbitration_id` (`*_presented`), `installed_is_for_me` for
    `is_for_me`, `get_tx_extension_byte_agrees` / `get_rx_extension_byte_agrees` (AddressFns.lean) for the extension bytes; the
    `notImplemented` guards are `shadowed_when_partial` (and `*_not_shadowed` for the other branch).
    `strict = true` is the object as constructed; with `strict = false` the replacements of the constructor are ignored (every
    call runs the class-level `def`): used only to show that `swap_detected` does not rest on the guards. -/
def halfObj (strict : Bool) (h : Half) (m : CanMsg) (name : String) (args : List PV) : Except PErr PV :=
  match name with
  | "get_tx_extension_byte" =>
    (match args with | [] => if strict && h.rxOnly then notImplemented else .ok (optPV h.txExtByte) | _ => .error (.exc .TypeError))
  | "get_rx_extension_byte" =>
    (match args with | [] => if strict && h.txOnly then notImplemented else .ok (optPV h.rxExtByte) | _ => .error (.exc .TypeError))
  | "is_for_me" =>
    (match args with
     | [v] => if strict && h.txOnly then notImplemented else
        if v = msgHandle then .ok (pbool (h.isForMe m)) else .error (.unsupported "message")
     | _ => .error (.exc .TypeError))
  | "get_tx_arbitration_id" =>
    (match args with
     | [v] => if strict && h.rxOnly then notImplemented else withTat v (fun t => pint (h.txId t))
     | _ => .error (.exc .TypeError))
  | "get_rx_arbitration_id" =>
    (match args with
     | [v] => if strict && h.txOnly then notImplemented else withTat v (fun t => pint (h.rxId t))
     | _ => .error (.exc .TypeError))
  | "is_tx_29bits" =>
    (match args with | [] => if strict && h.rxOnly then notImplemented else .ok (pbool h.mode.is29) | _ => .error (.exc .TypeError))
  | "is_rx_29bits" =>
    (match args with | [] => if strict && h.txOnly then notImplemented else .ok (pbool h.mode.is29) | _ => .error (.exc .TypeError))
  | "requires_tx_extension_byte" =>
    (match args with | [] => if strict && h.rxOnly then notImplemented else .ok (pbool h.mode.hasPrefix) | _ => .error (.exc .TypeError))
  | "requires_rx_extension_byte" =>
    (match args with | [] => if strict && h.txOnly then notImplemented else .ok (pbool h.mode.hasPrefix) | _ => .error (.exc .TypeError))
  | "get_rx_prefix_size" =>
    (match args with | [] => if strict && h.txOnly then notImplemented else .ok (pint h.rxPrefixSize) | _ => .error (.exc .TypeError))
  | "get_tx_payload_prefix" =>
    (match args with | [] => if strict && h.rxOnly then notImplemented else .ok (.bytes h.txPrefix) | _ => .error (.exc .TypeError))
  | n => .error (.unsupported ("call " ++ n))

theorem halfObj_lookups (strict : Bool) (h : Half) (m : CanMsg) (v : PV) :
    halfObj strict h m "get_tx_extension_byte" [] = (if strict && h.rxOnly then notImplemented else .ok (optPV h.txExtByte)) ∧
    halfObj strict h m "get_rx_extension_byte" [] = (if strict && h.txOnly then notImplemented else .ok (optPV h.rxExtByte)) ∧
    halfObj strict h m "is_for_me" [v] = (if strict && h.txOnly then notImplemented else
        if v = msgHandle then .ok (pbool (h.isForMe m)) else .error (.unsupported "message")) ∧
    halfObj strict h m "get_tx_arbitration_id" [v] = (if strict && h.rxOnly then notImplemented else withTat v (fun t => pint (h.txId t))) ∧
    halfObj strict h m "get_rx_arbitration_id" [v] = (if strict && h.txOnly then notImplemented else withTat v (fun t => pint (h.rxId t))) ∧
    halfObj strict h m "is_tx_29bits" [] = (if strict && h.rxOnly then notImplemented else .ok (pbool h.mode.is29)) ∧
    halfObj strict h m "is_rx_29bits" [] = (if strict && h.txOnly then notImplemented else .ok (pbool h.mode.is29)) ∧
    halfObj strict h m "requires_tx_extension_byte" [] = (if strict && h.rxOnly then notImplemented else .ok (pbool h.mode.hasPrefix)) ∧
    halfObj strict h m "requires_rx_extension_byte" [] = (if strict && h.txOnly then notImplemented else .ok (pbool h.mode.hasPrefix)) ∧
    halfObj strict h m "get_rx_prefix_size" [] = (if strict && h.txOnly then notImplemented else .ok (pint h.rxPrefixSize)) ∧
    halfObj strict h m "get_tx_payload_prefix" [] = (if strict && h.rxOnly then notImplemented else .ok (.bytes h.txPrefix)) :=
  ⟨rfl, rfl, rfl, rfl, rfl, rfl, rfl, rfl, rfl, rfl, rfl⟩

/-- **The accessors of an asymmetric address are the model's fields of the right half.**
    `tx`, `rx`: two validated addresses (`mkAddress` accepted them) that `AsymmetricAddress.__init__` accepts (`mkAsym`; it is
    `AsymmetricAddress_init_agrees` that ties `mkAsym` to the constructor); `a` the model's `Addr`.  The environment is arbitrary
    but for the two parameters (`msg` bound to the handle of `m`, `address_type` to `t`). -/
theorem asym_accessors_model (strict : Bool) (atx arx : AddrArgs) (tx rx : Half) (a : Addr)
    (htx : mkAddress atx = .ok tx) (hrx : mkAddress arx = .ok rx) (hk : mkAsym tx rx = .ok a)
    (m : CanMsg) (t : Tat) (env : Env) (hmsg : env "msg" = some msgHandle) (hat : env "address_type" = some (tatPV t)) :
    let M := asymMeths (halfObj strict tx m) (halfObj strict rx m)
    retM M env Src.AsymmetricAddress_get_tx_extension_byte = .ok (optPV a.tx.txExtByte) ∧
    retM M env Src.AsymmetricAddress_get_rx_extension_byte = .ok (optPV a.rx.rxExtByte) ∧
    retM M env Src.AsymmetricAddress_is_for_me = .ok (pbool (a.rx.isForMe m)) ∧
    retM M env Src.AsymmetricAddress_get_tx_arbitration_id = .ok (pint (a.tx.txId t)) ∧
    retM M env Src.AsymmetricAddress_get_rx_arbitration_id = .ok (pint (a.rx.rxId t)) ∧
    retM M env Src.AsymmetricAddress_is_tx_29bits = .ok (pbool a.tx.mode.is29) ∧
    retM M env Src.AsymmetricAddress_is_rx_29bits = .ok (pbool a.rx.mode.is29) ∧
    retM M env Src.AsymmetricAddress_requires_tx_extension_byte = .ok (pbool a.tx.mode.hasPrefix) ∧
    retM M env Src.AsymmetricAddress_requires_rx_extension_byte = .ok (pbool a.rx.mode.hasPrefix) ∧
    retM M env Src.AsymmetricAddress_get_rx_prefix_size = .ok (pint a.rx.rxPrefixSize) ∧
    retM M env Src.AsymmetricAddress_get_tx_payload_prefix = .ok (.bytes a.tx.txPrefix) ∧
    retM M env Src.AsymmetricAddress_is_partial_address = .ok (pbool false) := by
  intro M
  -- what `mkAsym` and `validate` say of the two halves
  have hto : tx.txOnly = true := by
    unfold mkAsym at hk; cases h1 : tx.txOnly <;> simp [h1] at hk ⊢
  have hro : rx.rxOnly = true := by
    unfold mkAsym at hk; cases h1 : rx.rxOnly <;> simp [hto, h1] at hk ⊢
  have ha : a = { tx := tx, rx := rx } := by
    unfold mkAsym at hk; simp [hto, hro] at hk; exact hk.symm
  have htr : tx.rxOnly = false := by
    cases h1 : tx.rxOnly
    · rfl
    · exact absurd ⟨h1, hto⟩ (mkAddress_not_both htx)
  have hrt : rx.txOnly = false := by
    cases h1 : rx.txOnly
    · rfl
    · exact absurd ⟨hro, h1⟩ (mkAddress_not_both hrx)
  subst ha
  obtain ⟨l1, _, _, l4, _, l6, _, l8, _, _, l11⟩ := halfObj_lookups strict tx m (tatPV t)
  obtain ⟨_, r2, _, _, r5, _, r7, _, r9, r10, _⟩ := halfObj_lookups strict rx m (tatPV t)
  obtain ⟨_, _, r3, _⟩ := halfObj_lookups strict rx m msgHandle
  refine ⟨?_, ?_, ?_, ?_, ?_, ?_, ?_, ?_, ?_, ?_, ?_, ?_⟩
  · rw [asym_get_tx_extension_byte_delegates, l1]; simp [htr]
  · rw [asym_get_rx_extension_byte_delegates, r2]; simp [hrt]
  · rw [asym_is_for_me_delegates _ _ _ _ hmsg, r3]; simp [hrt]
  · rw [asym_get_tx_arbitration_id_delegates _ _ _ _ hat, l4]; simp [htr, withTat_tatPV]
  · rw [asym_get_rx_arbitration_id_delegates _ _ _ _ hat, r5]; simp [hrt, withTat_tatPV]
  · rw [asym_is_tx_29bits_delegates, l6]; simp [htr]
  · rw [asym_is_rx_29bits_delegates, r7]; simp [hrt]
  · rw [asym_requires_tx_extension_byte_delegates, l8]; simp [htr]
  · rw [asym_requires_rx_extension_byte_delegates, r9]; simp [hrt]
  · rw [asym_get_rx_prefix_size_delegates, r10]; simp [hrt]
  · rw [asym_get_tx_payload_prefix_delegates, l11]; simp [htr]
  · rfl

/-! ## 4. Non-vacuity of the tx / rx distinction -/

/-- transmit half: `Normal_11bits`, `tx_only` -/
def txW : AddrArgs := { mode := some .n11, txid := .int 0x123, txOnly := true }
/-- receive half: `Extended_29bits`, `rx_only` -/
def rxW : AddrArgs := { mode := some .e29, rxid := .int 0x18DA0001, ta := .int 0x66, sa := .int 0x55, rxOnly := true }
def txH : Half :=
  { mode := .n11, txid := some 0x123, rxid := none, ta := none, sa := none, ae := none, physId := 0, funcId := 0,
    rxOnly := false, txOnly := true }
def rxH : Half :=
  { mode := .e29, txid := none, rxid := some 0x18DA0001, ta := some 0x66, sa := some 0x55, ae := none, physId := 0, funcId := 0,
    rxOnly := true, txOnly := false }
/-- a frame for the receive half -/
def msgW : CanMsg := { id := 0x18DA0001, ext := true, data := [0x55] }

/-- the source: the twelve bodies with the model's answer -/
def delegations (a : Addr) (m : CanMsg) (t : Tat) : List (PBlock × Except PErr PV) :=
  [(Src.AsymmetricAddress_get_tx_extension_byte, .ok (optPV a.tx.txExtByte)),
   (Src.AsymmetricAddress_get_rx_extension_byte, .ok (optPV a.rx.rxExtByte)),
   (Src.AsymmetricAddress_is_for_me, .ok (pbool (a.rx.isForMe m))),
   (Src.AsymmetricAddress_get_tx_arbitration_id, .ok (pint (a.tx.txId t))),
   (Src.AsymmetricAddress_get_rx_arbitration_id, .ok (pint (a.rx.rxId t))),
   (Src.AsymmetricAddress_is_tx_29bits, .ok (pbool a.tx.mode.is29)),
   (Src.AsymmetricAddress_is_rx_29bits, .ok (pbool a.rx.mode.is29)),
   (Src.AsymmetricAddress_requires_tx_extension_byte, .ok (pbool a.tx.mode.hasPrefix)),
   (Src.AsymmetricAddress_requires_rx_extension_byte, .ok (pbool a.rx.mode.hasPrefix)),
   (Src.AsymmetricAddress_get_rx_prefix_size, .ok (pint a.rx.rxPrefixSize)),
   (Src.AsymmetricAddress_get_tx_payload_prefix, .ok (.bytes a.tx.txPrefix)),
   (Src.AsymmetricAddress_is_partial_address, .ok (pbool false))]

/-- mutants: the eleven delegations, each REDIRECTED TO THE OTHER OBJECT (`tx_addr` <-> `rx_addr`, same method, same argument),
    with the model's answer (the one the unmutated source gives) -/
def swapped (a : Addr) (m : CanMsg) (t : Tat) : List (PBlock × Except PErr PV) :=
  [(.cons (.ret (.call "self.rx_addr.get_tx_extension_byte" .nil)) .nil, .ok (optPV a.tx.txExtByte)),
   (.cons (.ret (.call "self.tx_addr.get_rx_extension_byte" .nil)) .nil, .ok (optPV a.rx.rxExtByte)),
   (.cons (.ret (.call "self.tx_addr.is_for_me" (.cons (.var "msg") .nil))) .nil, .ok (pbool (a.rx.isForMe m))),
   (.cons (.ret (.call "self.rx_addr.get_tx_arbitration_id" (.cons (.var "address_type") .nil))) .nil, .ok (pint (a.tx.txId t))),
   (.cons (.ret (.call "self.tx_addr.get_rx_arbitration_id" (.cons (.var "address_type") .nil))) .nil, .ok (pint (a.rx.rxId t))),
   (.cons (.ret (.call "self.rx_addr.is_tx_29bits" .nil)) .nil, .ok (pbool a.tx.mode.is29)),
   (.cons (.ret (.call "self.tx_addr.is_rx_29bits" .nil)) .nil, .ok (pbool a.rx.mode.is29)),
   (.cons (.ret (.call "self.rx_addr.requires_tx_extension_byte" .nil)) .nil, .ok (pbool a.tx.mode.hasPrefix)),
   (.cons (.ret (.call "self.tx_addr.requires_rx_extension_byte" .nil)) .nil, .ok (pbool a.rx.mode.hasPrefix)),
   (.cons (.ret (.call "self.tx_addr.get_rx_prefix_size" .nil)) .nil, .ok (pint a.rx.rxPrefixSize)),
   (.cons (.ret (.call "self.rx_addr.get_tx_payload_prefix" .nil)) .nil, .ok (.bytes a.tx.txPrefix))]

/-- `asym_accessors_model`, as a table -/
theorem delegations_model (strict : Bool) (atx arx : AddrArgs) (tx rx : Half) (a : Addr)
    (htx : mkAddress atx = .ok tx) (hrx : mkAddress arx = .ok rx) (hk : mkAsym tx rx = .ok a)
    (m : CanMsg) (t : Tat) (env : Env) (hmsg : env "msg" = some msgHandle) (hat : env "address_type" = some (tatPV t)) :
    ∀ p ∈ delegations a m t, retM (asymMeths (halfObj strict tx m) (halfObj strict rx m)) env p.1 = p.2 := by
  obtain ⟨h1, h2, h3, h4, h5, h6, h7, h8, h9, h10, h11, h12⟩ :=
    asym_accessors_model strict atx arx tx rx a htx hrx hk m t env hmsg hat
  simp only [delegations, List.mem_cons, List.not_mem_nil, or_false]
  rintro p (rfl | rfl | rfl | rfl | rfl | rfl | rfl | rfl | rfl | rfl | rfl | rfl) <;> assumption

/-- **Non-vacuity of the distinction.**  The asymmetric address with an 11-bit transmit half (`Normal_11bits`, txid 0x123) and a
    29-bit receive half (`Extended_29bits`, rxid 0x18DA0001, source address 0x55): the two halves differ in EVERY field an accessor
    returns; the source gives the model's answer for each accessor; and each of the eleven delegations redirected to the other
    object MISSES it - whether the other object raises `NotImplementedError` (as constructed, `strict = true`) or answers with
    its class-level body (`strict = false`).  A delegation to the wrong half would therefore falsify `asym_accessors_model`. -/
theorem swap_detected :
    mkAddress txW = .ok txH ∧ mkAddress rxW = .ok rxH ∧ mkAsym txH rxH = .ok { tx := txH, rx := rxH } ∧
    txH.mode.is29 = false ∧ rxH.mode.is29 = true ∧
    txH.mode.hasPrefix ≠ rxH.mode.hasPrefix ∧ txH.rxPrefixSize ≠ rxH.rxPrefixSize ∧ txH.txPrefix ≠ rxH.txPrefix ∧
    txH.txExtByte ≠ rxH.txExtByte ∧ txH.rxExtByte ≠ rxH.rxExtByte ∧
    (∀ t, txH.txId t ≠ rxH.txId t) ∧ (∀ t, txH.rxId t ≠ rxH.rxId t) ∧ txH.isForMe msgW ≠ rxH.isForMe msgW ∧
    ∀ (strict : Bool) (t : Tat) (env : Env), env "msg" = some msgHandle → env "address_type" = some (tatPV t) →
      (∀ p ∈ delegations { tx := txH, rx := rxH } msgW t,
        retM (asymMeths (halfObj strict txH msgW) (halfObj strict rxH msgW)) env p.1 = p.2) ∧
      (∀ p ∈ swapped { tx := txH, rx := rxH } msgW t,
        retM (asymMeths (halfObj strict txH msgW) (halfObj strict rxH msgW)) env p.1 ≠ p.2) := by
  have k1 : mkAddress txW = .ok txH := rfl
  have k2 : mkAddress rxW = .ok rxH := rfl
  have k3 : mkAsym txH rxH = .ok { tx := txH, rx := rxH } := rfl
  refine ⟨k1, k2, k3, by decide, by decide, by decide, by decide, by decide, by decide, by decide,
    by intro t; cases t <;> decide, by intro t; cases t <;> decide, by decide, ?_⟩
  intro strict t env hmsg hat
  refine ⟨delegations_model strict txW rxW txH rxH _ k1 k2 k3 msgW t env hmsg hat, ?_⟩
  obtain ⟨_, l2, _, _, l5, _, l7, _, l9, l10, _⟩ := halfObj_lookups strict txH msgW (tatPV t)
  obtain ⟨_, _, l3, _⟩ := halfObj_lookups strict txH msgW msgHandle
  obtain ⟨r1, _, _, r4, _, r6, _, r8, _, _, r11⟩ := halfObj_lookups strict rxH msgW (tatPV t)
  simp only [swapped, List.mem_cons, List.not_mem_nil, or_false]
  rintro p (rfl | rfl | rfl | rfl | rfl | rfl | rfl | rfl | rfl | rfl | rfl)
  · rw [ret_call0 _ env "self.rx_addr.get_tx_extension_byte" (by decide)]
    show halfObj strict rxH msgW "get_tx_extension_byte" [] ≠ _
    rw [r1]; cases strict <;> simp [notImplemented, rxH, txH, Half.txExtByte, optPV]
  · rw [ret_call0 _ env "self.tx_addr.get_rx_extension_byte" (by decide)]
    show halfObj strict txH msgW "get_rx_extension_byte" [] ≠ _
    rw [l2]; cases strict <;> simp [notImplemented, rxH, txH, Half.rxExtByte, optPV]
  · rw [ret_call1 _ env "self.tx_addr.is_for_me" "msg" _ (by decide) hmsg]
    show halfObj strict txH msgW "is_for_me" [msgHandle] ≠ _
    rw [l3]; cases strict <;> simp [notImplemented, rxH, txH, msgW, Half.isForMe, Mode.is29, byteAt]
  · rw [ret_call1 _ env "self.rx_addr.get_tx_arbitration_id" "address_type" _ (by decide) hat]
    show halfObj strict rxH msgW "get_tx_arbitration_id" [tatPV t] ≠ _
    rw [r4]; cases strict <;> cases t <;> simp [notImplemented, withTat_tatPV, rxH, txH, Half.txId]
  · rw [ret_call1 _ env "self.tx_addr.get_rx_arbitration_id" "address_type" _ (by decide) hat]
    show halfObj strict txH msgW "get_rx_arbitration_id" [tatPV t] ≠ _
    rw [l5]; cases strict <;> cases t <;> simp [notImplemented, withTat_tatPV, rxH, txH, Half.rxId]
  · rw [ret_call0 _ env "self.rx_addr.is_tx_29bits" (by decide)]
    show halfObj strict rxH msgW "is_tx_29bits" [] ≠ _
    rw [r6]; cases strict <;> simp [notImplemented, rxH, txH, Mode.is29]
  · rw [ret_call0 _ env "self.tx_addr.is_rx_29bits" (by decide)]
    show halfObj strict txH msgW "is_rx_29bits" [] ≠ _
    rw [l7]; cases strict <;> simp [notImplemented, rxH, txH, Mode.is29]
  · rw [ret_call0 _ env "self.rx_addr.requires_tx_extension_byte" (by decide)]
    show halfObj strict rxH msgW "requires_tx_extension_byte" [] ≠ _
    rw [r8]; cases strict <;> simp [notImplemented, rxH, txH, Mode.hasPrefix]
  · rw [ret_call0 _ env "self.tx_addr.requires_rx_extension_byte" (by decide)]
    show halfObj strict txH msgW "requires_rx_extension_byte" [] ≠ _
    rw [l9]; cases strict <;> simp [notImplemented, rxH, txH, Mode.hasPrefix]
  · rw [ret_call0 _ env "self.tx_addr.get_rx_prefix_size" (by decide)]
    show halfObj strict txH msgW "get_rx_prefix_size" [] ≠ _
    rw [l10]; cases strict <;> simp [notImplemented, rxH, txH, Half.rxPrefixSize, Mode.hasPrefix]
  · rw [ret_call0 _ env "self.rx_addr.get_tx_payload_prefix" (by decide)]
    show halfObj strict rxH msgW "get_tx_payload_prefix" [] ≠ _
    rw [r11]; cases strict <;> simp [notImplemented, rxH, txH, Half.txPrefix]

/-! ## 5. From the attribute view `halfEnv h` to the constructed object

  The agreement theorems of AddressFns.lean / Address.lean (`isForMe_agrees`, the extension bytes) are stated on the attribute view
  `halfEnv h`; the constructor returns an environment that AGREES with `halfEnv h` on the attributes `halfEnv` defines
  (`Address_init_constructs`, 4th conjunct) but also holds the locals of the constructor, the cached identifiers, ...
  A body that only READS names (no assignment, no call used as a statement) returns the same value in two environments that agree
  on the names it reads: `retOf_congr`.  With it the theorems transfer to the constructed object (`*_on_constructed`). -/

mutual
/-- every name the expression reads is in `ks` -/
def roE (ks : List String) : PExpr → Bool
  | .var p => decide (p ∈ ks)
  | .int _ => true
  | .tt => true
  | .ff => true
  | .none => true
  | .strLit _ => true
  | .binop _ a b => roE ks a && roE ks b
  | .cmp _ a b => roE ks a && roE ks b
  | .isNone e => roE ks e
  | .isNotNone e => roE ks e
  | .and_ a b => roE ks a && roE ks b
  | .or_ a b => roE ks a && roE ks b
  | .not_ e => roE ks e
  | .ifexp c t e => roE ks c && roE ks t && roE ks e
  | .lst xs => roA ks xs
  | .index e i => roE ks e && roE ks i
  | .sliceFrom e lo => roE ks e && roE ks lo
  | .sliceTo e hi => roE ks e && roE ks hi
  | .slice e lo hi => roE ks e && roE ks lo && roE ks hi
  | .call _ args => roA ks args
def roA (ks : List String) : PArgs → Bool
  | .nil => true
  | .cons e rest => roE ks e && roA ks rest
end

mutual
/-- the statement writes nothing and every name it reads is in `ks` -/
def roS (ks : List String) : PStmt → Bool
  | .ret e => roE ks e
  | .retNone => true
  | .raise _ => true
  | .assert_ e => roE ks e
  | .ite c t e => roE ks c && roB ks t && roB ks e
  | .pass => true
  | .unsupported _ => true
  | _ => false
def roB (ks : List String) : PBlock → Bool
  | .nil => true
  | .cons s rest => roS ks s && roB ks rest
end

section congr
set_option linter.unusedSectionVars false
variable {ks : List String} {M : Meths} {env env' : Env}
  (hag : ∀ k ∈ ks, env k = env' k) (hM : ∀ n a, M.fn n a env = M.fn n a env')
include hag hM

mutual
theorem eval_env_congr : ∀ e : PExpr, roE ks e = true → eval M env e = eval M env' e
  | .var p, ha => by
    simp only [roE, decide_eq_true_eq] at ha
    simp only [eval, hag p ha]
  | .int _, _ => by simp only [eval]
  | .tt, _ => by simp only [eval]
  | .ff, _ => by simp only [eval]
  | .none, _ => by simp only [eval]
  | .strLit _, _ => by simp only [eval]
  | .binop _ a b, ha => by
    simp only [roE, Bool.and_eq_true] at ha
    simp only [eval, eval_env_congr a ha.1, eval_env_congr b ha.2]
  | .cmp _ a b, ha => by
    simp only [roE, Bool.and_eq_true] at ha
    simp only [eval, eval_env_congr a ha.1, eval_env_congr b ha.2]
  | .isNone e, ha => by
    simp only [roE] at ha
    simp only [eval, eval_env_congr e ha]
  | .isNotNone e, ha => by
    simp only [roE] at ha
    simp only [eval, eval_env_congr e ha]
  | .and_ a b, ha => by
    simp only [roE, Bool.and_eq_true] at ha
    simp only [eval, eval_env_congr a ha.1, eval_env_congr b ha.2]
  | .or_ a b, ha => by
    simp only [roE, Bool.and_eq_true] at ha
    simp only [eval, eval_env_congr a ha.1, eval_env_congr b ha.2]
  | .not_ e, ha => by
    simp only [roE] at ha
    simp only [eval, eval_env_congr e ha]
  | .ifexp c t e, ha => by
    simp only [roE, Bool.and_eq_true] at ha
    simp only [eval, eval_env_congr c ha.1.1, eval_env_congr t ha.1.2, eval_env_congr e ha.2]
  | .lst xs, ha => by
    simp only [roE] at ha
    simp only [eval, evalArgs_env_congr xs ha]
  | .index e i, ha => by
    simp only [roE, Bool.and_eq_true] at ha
    simp only [eval, eval_env_congr e ha.1, eval_env_congr i ha.2]
  | .sliceFrom e i, ha => by
    simp only [roE, Bool.and_eq_true] at ha
    simp only [eval, eval_env_congr e ha.1, eval_env_congr i ha.2]
  | .sliceTo e i, ha => by
    simp only [roE, Bool.and_eq_true] at ha
    simp only [eval, eval_env_congr e ha.1, eval_env_congr i ha.2]
  | .slice e lo hi, ha => by
    simp only [roE, Bool.and_eq_true] at ha
    simp only [eval, eval_env_congr e ha.1.1, eval_env_congr lo ha.1.2, eval_env_congr hi ha.2]
  | .call fn args, ha => by
    simp only [roE] at ha
    simp only [eval, evalArgs_env_congr args ha, hM]
theorem evalArgs_env_congr : ∀ a : PArgs, roA ks a = true → evalArgs M env a = evalArgs M env' a
  | .nil, _ => by simp only [evalArgs]
  | .cons e rest, ha => by
    simp only [roA, Bool.and_eq_true] at ha
    simp only [evalArgs, eval_env_congr e ha.1, evalArgs_env_congr rest ha.2]
end

/-- two runs of a read-only block: same outcome, each in its own (unchanged) environment -/
def FlowEq (env env' : Env) : Except PErr Flow → Except PErr Flow → Prop
  | .error e, .error e' => e = e'
  | .ok (.next e1), .ok (.next e2) => e1 = env ∧ e2 = env'
  | .ok (.returned v e1), .ok (.returned v' e2) => v = v' ∧ e1 = env ∧ e2 = env'
  | _, _ => False

mutual
theorem execStmt_env_congr : ∀ s : PStmt, roS ks s = true → FlowEq env env' (execStmt M env s) (execStmt M env' s)
  | .ret e, ha => by
    simp only [roS] at ha
    simp only [execStmt, eval_env_congr hag hM e ha]
    cases eval M env' e <;> simp [FlowEq]
  | .retNone, _ => by simp [execStmt, FlowEq]
  | .raise c, _ => by
    simp only [execStmt]
    split <;> simp [FlowEq]
  | .assert_ e, ha => by
    simp only [roS] at ha
    simp only [execStmt, eval_env_congr hag hM e ha]
    cases eval M env' e with
    | error x => simp [FlowEq]
    | ok v =>
      cases ht : truthy v with
      | error x => simp [FlowEq, ht]
      | ok b => cases b <;> simp [FlowEq, ht]
  | .ite c t e, ha => by
    simp only [roS, Bool.and_eq_true] at ha
    simp only [execStmt, eval_env_congr hag hM c ha.1.1]
    cases eval M env' c with
    | error x => simp [FlowEq]
    | ok v =>
      cases ht : truthy v with
      | error x => simp [FlowEq, ht]
      | ok b =>
        cases b
        · simpa [ht] using execBlock_env_congr e ha.2
        · simpa [ht] using execBlock_env_congr t ha.1.2
  | .pass, _ => by simp [execStmt, FlowEq]
  | .unsupported _, _ => by simp [execStmt, FlowEq]
  | .assign _ _, ha => by simp [roS] at ha
  | .expr _, ha => by simp [roS] at ha
  | .tryExcept _ _, ha => by simp [roS] at ha
  | .while_ _ _, ha => by simp [roS] at ha
  | .tryCatch _ _ _, ha => by simp [roS] at ha
  | .break_, ha => by simp [roS] at ha
  | .tryFinally _ _, ha => by simp [roS] at ha
theorem execBlock_env_congr : ∀ b : PBlock, roB ks b = true → FlowEq env env' (execBlock M env b) (execBlock M env' b)
  | .nil, _ => by simp [execBlock, FlowEq]
  | .cons s rest, ha => by
    simp only [roB, Bool.and_eq_true] at ha
    have h1 := execStmt_env_congr s ha.1
    have h2 := execBlock_env_congr rest ha.2
    simp only [execBlock]
    revert h1
    cases execStmt M env s with
    | error x =>
      cases execStmt M env' s with
      | error y => intro h1; simpa [FlowEq] using h1
      | ok f => cases f <;> simp [FlowEq]
    | ok f =>
      cases execStmt M env' s with
      | error y => cases f <;> simp [FlowEq]
      | ok f' =>
        cases f <;> cases f' <;> simp only [FlowEq, ok_bind, false_imp_iff, imp_self]
        rintro ⟨rfl, rfl⟩; exact h2
end

/-- **a read-only body returns the same value in two environments that agree on what it reads** -/
theorem retM_congr (b : PBlock) (hb : roB ks b = true) : retM M env b = retM M env' b := by
  have h := execBlock_env_congr hag hM b hb
  unfold retM runFn
  revert h
  cases execBlock M env b with
  | error x =>
    cases execBlock M env' b with
    | error y => intro h; simp only [FlowEq] at h; simp [h]
    | ok f => cases f <;> simp [FlowEq]
  | ok f =>
    cases execBlock M env' b with
    | error y => cases f <;> simp [FlowEq]
    | ok f' =>
      cases f <;> cases f' <;> simp [FlowEq]
      intro h _ _; exact h

end congr

theorem retOf_congr {ks : List String} {env env' : Env} (hag : ∀ k ∈ ks, env k = env' k) (b : PBlock) (hb : roB ks b = true) :
    retOf env b = retOf env' b :=
  retM_congr (M := noMeths) hag (fun _ _ => rfl) b hb

/-! ### the transfer -/

/-- the object agrees with the attribute view `halfEnv h` on the attributes `halfEnv` defines: the 4th conjunct of
    `Address_init_constructs` -/
def Views (h : Half) (env : Env) : Prop := ∀ k ∈ halfAttrKeys, env k = halfEnv h k

def constKeys : List String :=
  ["AddressingMode.Normal_11bits", "AddressingMode.Normal_29bits", "AddressingMode.NormalFixed_29bits",
   "AddressingMode.Extended_11bits", "AddressingMode.Extended_29bits", "AddressingMode.Mixed_11bits", "AddressingMode.Mixed_29bits",
   "TargetAddressType.Physical", "TargetAddressType.Functional"]

def msgKeys : List String := ["msg.arbitration_id", "msg.is_extended_id", "msg.data"]

/-- everything a method without parameter may read: the attributes of the view and the class constants -/
def viewKeys : List String := halfAttrKeys ++ constKeys

theorem agree_view {h : Half} {env : Env} (hv : Views h env) (hc : Consts env) : ∀ k ∈ viewKeys, env k = halfEnv h k := by
  intro k hk
  simp only [viewKeys, List.mem_append] at hk
  rcases hk with hk | hk
  · exact hv k hk
  · have hc' := consts_halfEnv h
    simp only [constKeys, List.mem_cons, List.not_mem_nil, or_false] at hk
    rcases hk with rfl | rfl | rfl | rfl | rfl | rfl | rfl | rfl | rfl
    · exact hc.c1.trans hc'.c1.symm
    · exact hc.c2.trans hc'.c2.symm
    · exact hc.c3.trans hc'.c3.symm
    · exact hc.c4.trans hc'.c4.symm
    · exact hc.c5.trans hc'.c5.symm
    · exact hc.c6.trans hc'.c6.symm
    · exact hc.c7.trans hc'.c7.symm
    · exact hc.t1.trans hc'.t1.symm
    · exact hc.t2.trans hc'.t2.symm

theorem msgEnv_congr (m : CanMsg) (e1 e2 : Env) (k : String) (h : e1 k = e2 k) : msgEnv m e1 k = msgEnv m e2 k := by
  by_cases h1 : k = "msg.arbitration_id"
  · subst h1; rfl
  by_cases h2 : k = "msg.is_extended_id"
  · subst h2; rfl
  by_cases h3 : k = "msg.data"
  · subst h3; rfl
  rw [msgEnv_of_ne m e1 k h1 h2 h3, msgEnv_of_ne m e2 k h1 h2 h3, h]

theorem agree_msgEnv (m : CanMsg) {ks : List String} {e1 e2 : Env} (hag : ∀ k ∈ ks, e1 k = e2 k) :
    ∀ k ∈ ks ++ msgKeys, msgEnv m e1 k = msgEnv m e2 k := by
  intro k hk
  simp only [List.mem_append] at hk
  rcases hk with hk | hk
  · exact msgEnv_congr m e1 e2 k (hag k hk)
  · simp only [msgKeys, List.mem_cons, List.not_mem_nil, or_false] at hk
    rcases hk with rfl | rfl | rfl <;> rfl

/-- the five `_is_for_me_*` variants only read the view, the constants and the message -/
theorem selectedPredicate_readOnly (m : Mode) : roB (viewKeys ++ msgKeys) (selectedPredicate m) = true := by
  cases m <;> rfl

/-- **`is_for_me` on ANY environment that presents `h`**: the installed variant, run on the object itself, answers `Half.isForMe` -/
theorem is_for_me_presented {h : Half} {env : Env} (hp : Presents h env) (hc : Consts env) (hv : Views h env)
    (ht : h.txOnly = false) (msg : CanMsg) :
    ∃ n body, env "self.is_for_me" = some (.meth n) ∧ boundBody n = some body ∧
      retOf (msgEnv msg env) body = .ok (pbool (h.isForMe msg)) := by
  refine ⟨isForMeName h.mode, selectedPredicate h.mode, at_is_for_me hp ht, boundBody_isForMeName _, ?_⟩
  rw [retOf_congr (agree_msgEnv msg (agree_view hv hc)) _ (selectedPredicate_readOnly _)]
  exact isForMe_agrees h msg

/-- the extension bytes and `_requires_extension_byte` (AddressFns.lean), on any environment that agrees with the view -/
theorem get_tx_extension_byte_presented {h : Half} {env : Env} (hc : Consts env) (hv : Views h env) :
    retOf env Src.Address_get_tx_extension_byte = .ok (optPV h.txExtByte) := by
  rw [retOf_congr (agree_view hv hc) _ (by rfl : roB viewKeys Src.Address_get_tx_extension_byte = true)]
  exact get_tx_extension_byte_agrees h

theorem get_rx_extension_byte_presented {h : Half} {env : Env} (hc : Consts env) (hv : Views h env) :
    retOf env Src.Address_get_rx_extension_byte = .ok (optPV h.rxExtByte) := by
  rw [retOf_congr (agree_view hv hc) _ (by rfl : roB viewKeys Src.Address_get_rx_extension_byte = true)]
  exact get_rx_extension_byte_agrees h

/-! ### on the constructed object -/

/-- the constructor establishes `Presents`, `Consts` and (when no identifier argument is a `bool`: `Address_init_constructs`)
    `Views` -/
theorem constructed_views (a : AddrArgs) (m : Mode) (h : Half) (hm : a.mode = some m) (hk : mkAddress a = .ok h)
    (hnb : noBoolArgs a = true) :
    ∃ env', runFn (initMeths a) (initEnv a m) Src.Address_init = .ok (pnone, env') ∧ Presents h env' ∧ Consts env' ∧ Views h env' := by
  obtain ⟨e1, r1, x1, x2, x3⟩ := Address_init_constructs a m h hm hk hnb
  have e : e1 = finalEnv a m h := by
    have := r1.symm.trans (Address_init_run a m h hm hk)
    injection this with this
    injection this
  exact ⟨e1, r1, presents_of_expected x1 x2, e ▸ consts_finalEnv a m h, x3⟩

/-- **The accessors of `Address`, on the object the constructor returns, for ALL accepted arguments.**
    `is_tx_only` / `is_rx_only` always; the accessors of a direction the object has are the class-level `def`s (not shadowed) and
    return the model's field; those of a missing direction are replaced by `not_implemented_func_with_partial`. -/
theorem address_accessors_on_constructed (a : AddrArgs) (m : Mode) (h : Half) (hm : a.mode = some m) (hk : mkAddress a = .ok h) :
    ∃ env', runFn (initMeths a) (initEnv a m) Src.Address_init = .ok (pnone, env') ∧
      retOf env' Src.Address_is_tx_only = .ok (pbool h.txOnly) ∧
      retOf env' Src.Address_is_rx_only = .ok (pbool h.rxOnly) ∧
      (h.rxOnly = false →
        (env' "self.is_tx_29bits" = none ∧ retOf env' Src.Address_is_tx_29bits = .ok (pbool h.mode.is29)) ∧
        (env' "self.requires_tx_extension_byte" = none ∧
          retM selfMeths env' Src.Address_requires_tx_extension_byte = .ok (pbool h.mode.hasPrefix)) ∧
        (env' "self.get_tx_payload_prefix" = none ∧ retOf env' Src.Address_get_tx_payload_prefix = .ok (.bytes h.txPrefix))) ∧
      (h.txOnly = false →
        (env' "self.is_rx_29bits" = none ∧ retOf env' Src.Address_is_rx_29bits = .ok (pbool h.mode.is29)) ∧
        (env' "self.requires_rx_extension_byte" = none ∧
          retM selfMeths env' Src.Address_requires_rx_extension_byte = .ok (pbool h.mode.hasPrefix)) ∧
        (env' "self.get_rx_prefix_size" = none ∧ retOf env' Src.Address_get_rx_prefix_size = .ok (pint h.rxPrefixSize)) ∧
        (env' "self.is_for_me" = some (.meth (isForMeName h.mode)) ∧
          boundBody (isForMeName h.mode) = some (selectedPredicate h.mode))) ∧
      (h.txOnly = true →
        env' "self.is_rx_29bits" = some nip ∧ env' "self.requires_rx_extension_byte" = some nip ∧
        env' "self.get_rx_prefix_size" = some nip ∧ env' "self.is_for_me" = some nip) ∧
      (h.rxOnly = true →
        env' "self.is_tx_29bits" = some nip ∧ env' "self.requires_tx_extension_byte" = some nip ∧
        env' "self.get_tx_payload_prefix" = some nip) := by
  obtain ⟨env', hr, hp, hc⟩ := constructed_presents a m h hm hk
  refine ⟨env', hr, is_tx_only_agrees noMeths hp, is_rx_only_agrees noMeths hp, ?_, ?_, ?_, ?_⟩
  · intro hro
    obtain ⟨_, n2, _, n4, n5⟩ := tx_side_not_shadowed hp hro
    exact ⟨⟨n4, is_tx_29bits_agrees noMeths hp⟩, ⟨n2, requires_tx_extension_byte_agrees hp hc⟩,
      ⟨n5, get_tx_payload_prefix_agrees noMeths hp hro⟩⟩
  · intro hto
    obtain ⟨_, n2, _, n4, n5⟩ := rx_side_not_shadowed hp hto
    exact ⟨⟨n4, is_rx_29bits_agrees noMeths hp⟩, ⟨n2, requires_rx_extension_byte_agrees hp hc⟩,
      ⟨n5, get_rx_prefix_size_agrees noMeths hp hto⟩, ⟨at_is_for_me hp hto, boundBody_isForMeName _⟩⟩
  · intro hto
    obtain ⟨_, s2, _, s4, s5, s6⟩ := (shadowed_when_partial hp).1 hto
    exact ⟨s4, s2, s6, s5⟩
  · intro hro
    obtain ⟨_, s2, _, s4, s5⟩ := (shadowed_when_partial hp).2 hro
    exact ⟨s4, s2, s5⟩

/-- **`is_for_me` on the constructed object** (no identifier argument a `bool`): the method the constructor installed, run on
    the returned object and the message, answers `Half.isForMe`. -/
theorem is_for_me_on_constructed (a : AddrArgs) (m : Mode) (h : Half) (hm : a.mode = some m) (hk : mkAddress a = .ok h)
    (hnb : noBoolArgs a = true) (ht : h.txOnly = false) (msg : CanMsg) :
    ∃ env' n body, runFn (initMeths a) (initEnv a m) Src.Address_init = .ok (pnone, env') ∧
      env' "self.is_for_me" = some (.meth n) ∧ boundBody n = some body ∧
      retOf (msgEnv msg env') body = .ok (pbool (h.isForMe msg)) := by
  obtain ⟨env', hr, hp, hc, hv⟩ := constructed_views a m h hm hk hnb
  obtain ⟨n, body, h1, h2, h3⟩ := is_for_me_presented hp hc hv ht msg
  exact ⟨env', n, body, hr, h1, h2, h3⟩

/-! ### the cached identifiers on the constructed object (the parameter `address_type` added to the environment) -/

theorem otherAttrs_key_ne {h : Half} {kv : String × PV} (hkv : kv ∈ otherAttrs h) : kv.1 ≠ "address_type" := by
  intro he
  have hm : kv.1 ∈ (otherAttrs h).map (·.1) := List.mem_map_of_mem hkv
  rw [he] at hm
  revert hm
  unfold otherAttrs
  cases h.txOnly <;> cases h.rxOnly <;> by_cases hc : (h.mode = .nf29 ∨ h.mode = .m29) <;> simp [hc]

theorem unsetAttrs_key_ne {h : Half} {k : String} (hk : k ∈ unsetAttrs h) : k ≠ "address_type" := by
  intro he
  rw [he] at hk
  revert hk
  unfold unsetAttrs
  cases h.txOnly <;> cases h.rxOnly <;> by_cases hc : (h.mode = .nf29 ∨ h.mode = .m29) <;> simp [hc]

/-- binding the parameter `address_type` does not touch the object -/
theorem presents_tatEnv {h : Half} {env : Env} (t : Tat) (hp : Presents h env) : Presents h (tatEnv t env) := by
  constructor
  · intro kv hkv
    rw [tatEnv_of_ne _ _ _ (otherAttrs_key_ne hkv)]; exact hp.1 kv hkv
  · intro k hk
    rw [tatEnv_of_ne _ _ _ (unsetAttrs_key_ne hk)]; exact hp.2 k hk

theorem consts_tatEnv {env : Env} (t : Tat) (hc : Consts env) : Consts (tatEnv t env) := by
  cases hc
  constructor <;> (rw [tatEnv_of_ne _ _ _ (by decide)]; assumption)

/-- `get_tx_arbitration_id` / `get_rx_arbitration_id` on the object the constructor returns, for ALL accepted arguments: the
    identifiers cached by the constructor, i.e. `Half.txId` / `Half.rxId` -/
theorem arbitration_ids_on_constructed (a : AddrArgs) (m : Mode) (h : Half) (hm : a.mode = some m) (hk : mkAddress a = .ok h) :
    ∃ env', runFn (initMeths a) (initEnv a m) Src.Address_init = .ok (pnone, env') ∧
      (h.rxOnly = false → env' "self.get_tx_arbitration_id" = none ∧
        ∀ t, retOf (tatEnv t env') Src.Address_get_tx_arbitration_id = .ok (pint (h.txId t))) ∧
      (h.txOnly = false → env' "self.get_rx_arbitration_id" = none ∧
        ∀ t, retOf (tatEnv t env') Src.Address_get_rx_arbitration_id = .ok (pint (h.rxId t))) ∧
      (h.rxOnly = true → env' "self.get_tx_arbitration_id" = some nip) ∧
      (h.txOnly = true → env' "self.get_rx_arbitration_id" = some nip) := by
  obtain ⟨env', hr, hp, hc⟩ := constructed_presents a m h hm hk
  refine ⟨env', hr, ?_, ?_, ?_, ?_⟩
  · intro hro
    exact ⟨(tx_side_not_shadowed hp hro).1, fun t =>
      get_tx_arbitration_id_presented noMeths (presents_tatEnv t hp) (consts_tatEnv t hc) hro t (tatEnv_address_type t env')⟩
  · intro hto
    exact ⟨(rx_side_not_shadowed hp hto).1, fun t =>
      get_rx_arbitration_id_presented noMeths (presents_tatEnv t hp) (consts_tatEnv t hc) hto t (tatEnv_address_type t env')⟩
  · intro hro; exact ((shadowed_when_partial hp).2 hro).1
  · intro hto; exact ((shadowed_when_partial hp).1 hto).1

/-! ### non-vacuity of the hypotheses -/

/-- a validated address, with neither direction missing, no `bool` argument -/
example : ∃ a m h, a.mode = some m ∧ mkAddress a = .ok h ∧ noBoolArgs a = true ∧ h.txOnly = false ∧ h.rxOnly = false :=
  ⟨{ mode := some .m29, ta := .int 1, sa := .int 2, ae := .int 3 }, .m29, _, rfl, rfl, by decide, rfl, rfl⟩
/-- the two halves of `swap_detected`: a transmit-only and a receive-only validated address that `mkAsym` accepts -/
example : ∃ atx arx tx rx a, mkAddress atx = .ok tx ∧ mkAddress arx = .ok rx ∧ mkAsym tx rx = .ok a :=
  ⟨txW, rxW, txH, rxH, _, rfl, rfl, rfl⟩
/-- `Presents`, `Consts` hold of an environment (`constructed_presents` on the transmit half of `swap_detected`) -/
example : ∃ env, Presents txH env ∧ Consts env :=
  let ⟨env, _, hp, hc⟩ := constructed_presents txW .n11 txH rfl rfl
  ⟨env, hp, hc⟩

#print axioms Isotp.PyAgree.Acc.retOf_eq_retM
#print axioms Isotp.PyAgree.Acc.evalBuiltin_none
#print axioms Isotp.PyAgree.Acc.ret_var
#print axioms Isotp.PyAgree.Acc.ret_call0
#print axioms Isotp.PyAgree.Acc.ret_call1
#print axioms Isotp.PyAgree.Acc.presents_of_raw
#print axioms Isotp.PyAgree.Acc.presents_of_expected
#print axioms Isotp.PyAgree.Acc.consts_halfEnv
#print axioms Isotp.PyAgree.Acc.inv_txNip
#print axioms Isotp.PyAgree.Acc.inv_finalEnv
#print axioms Isotp.PyAgree.Acc.consts_finalEnv
#print axioms Isotp.PyAgree.Acc.constructed_presents
#print axioms Isotp.PyAgree.Acc.mkAddress_not_both
#print axioms Isotp.PyAgree.Acc.at_tx_only
#print axioms Isotp.PyAgree.Acc.at_rx_only
#print axioms Isotp.PyAgree.Acc.at_is_29bits
#print axioms Isotp.PyAgree.Acc.at_mode
#print axioms Isotp.PyAgree.Acc.at_rx_prefix_size
#print axioms Isotp.PyAgree.Acc.at_tx_payload_prefix
#print axioms Isotp.PyAgree.Acc.at_is_for_me
#print axioms Isotp.PyAgree.Acc.at_tx_id
#print axioms Isotp.PyAgree.Acc.at_rx_id
#print axioms Isotp.PyAgree.Acc.rx_side_not_shadowed
#print axioms Isotp.PyAgree.Acc.tx_side_not_shadowed
#print axioms Isotp.PyAgree.Acc.shadowed_when_partial
#print axioms Isotp.PyAgree.Acc.is_tx_only_agrees
#print axioms Isotp.PyAgree.Acc.is_rx_only_agrees
#print axioms Isotp.PyAgree.Acc.is_tx_29bits_agrees
#print axioms Isotp.PyAgree.Acc.is_rx_29bits_agrees
#print axioms Isotp.PyAgree.Acc.get_rx_prefix_size_agrees
#print axioms Isotp.PyAgree.Acc.get_tx_payload_prefix_agrees
#print axioms Isotp.PyAgree.Acc.requires_rx_extension_byte_delegates
#print axioms Isotp.PyAgree.Acc.requires_tx_extension_byte_delegates
#print axioms Isotp.PyAgree.Acc.p_requires_extension_byte_presented
#print axioms Isotp.PyAgree.Acc.selfMeths_requires
#print axioms Isotp.PyAgree.Acc.requires_rx_extension_byte_agrees
#print axioms Isotp.PyAgree.Acc.requires_tx_extension_byte_agrees
#print axioms Isotp.PyAgree.Acc.Address_is_for_me_class_raises
#print axioms Isotp.PyAgree.Acc.boundBody_isForMeName
#print axioms Isotp.PyAgree.Acc.installed_is_for_me
#print axioms Isotp.PyAgree.Acc.get_tx_arbitration_id_presented
#print axioms Isotp.PyAgree.Acc.get_rx_arbitration_id_presented
#print axioms Isotp.PyAgree.Acc.asym_get_tx_extension_byte_delegates
#print axioms Isotp.PyAgree.Acc.asym_get_tx_arbitration_id_delegates
#print axioms Isotp.PyAgree.Acc.asym_is_tx_29bits_delegates
#print axioms Isotp.PyAgree.Acc.asym_requires_tx_extension_byte_delegates
#print axioms Isotp.PyAgree.Acc.asym_get_tx_payload_prefix_delegates
#print axioms Isotp.PyAgree.Acc.asym_get_rx_extension_byte_delegates
#print axioms Isotp.PyAgree.Acc.asym_is_for_me_delegates
#print axioms Isotp.PyAgree.Acc.asym_get_rx_arbitration_id_delegates
#print axioms Isotp.PyAgree.Acc.asym_is_rx_29bits_delegates
#print axioms Isotp.PyAgree.Acc.asym_requires_rx_extension_byte_delegates
#print axioms Isotp.PyAgree.Acc.asym_get_rx_prefix_size_delegates
#print axioms Isotp.PyAgree.Acc.asym_is_partial_address_false
#print axioms Isotp.PyAgree.Acc.withTat_tatPV
#print axioms Isotp.PyAgree.Acc.halfObj_lookups
#print axioms Isotp.PyAgree.Acc.asym_accessors_model
#print axioms Isotp.PyAgree.Acc.delegations_model
#print axioms Isotp.PyAgree.Acc.swap_detected
#print axioms Isotp.PyAgree.Acc.eval_env_congr
#print axioms Isotp.PyAgree.Acc.evalArgs_env_congr
#print axioms Isotp.PyAgree.Acc.execStmt_env_congr
#print axioms Isotp.PyAgree.Acc.execBlock_env_congr
#print axioms Isotp.PyAgree.Acc.retM_congr
#print axioms Isotp.PyAgree.Acc.retOf_congr
#print axioms Isotp.PyAgree.Acc.agree_view
#print axioms Isotp.PyAgree.Acc.msgEnv_congr
#print axioms Isotp.PyAgree.Acc.agree_msgEnv
#print axioms Isotp.PyAgree.Acc.selectedPredicate_readOnly
#print axioms Isotp.PyAgree.Acc.is_for_me_presented
#print axioms Isotp.PyAgree.Acc.get_tx_extension_byte_presented
#print axioms Isotp.PyAgree.Acc.get_rx_extension_byte_presented
#print axioms Isotp.PyAgree.Acc.constructed_views
#print axioms Isotp.PyAgree.Acc.address_accessors_on_constructed
#print axioms Isotp.PyAgree.Acc.is_for_me_on_constructed
#print axioms Isotp.PyAgree.Acc.otherAttrs_key_ne
#print axioms Isotp.PyAgree.Acc.unsetAttrs_key_ne
#print axioms Isotp.PyAgree.Acc.presents_tatEnv
#print axioms Isotp.PyAgree.Acc.consts_tatEnv
#print axioms Isotp.PyAgree.Acc.arbitration_ids_on_constructed

end Isotp.PyAgree.Acc
