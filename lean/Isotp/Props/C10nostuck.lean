import Isotp.Proofs.NoStuck3
import Isotp.Props.C10live
/-
  C10, second sentence — "No interleaving reaches a state in which a transfer is incomplete and no further progress is
  possible": NO REACHABLE STATE IS STUCK.  (Safety for every schedule: Props/C01net.lean, C01netfc.lean, C10.lean; progress
  along the canonical schedule from the start: Props/C10live.lean.)

  Setting (as in C10live): two freshly constructed mirrored layers A (layer 0) and B (layer 1) of the network the driver
  runs (`Net`); `A.send(p)`, `B.send(q)` (`startNet2`).  Then ANY schedule over the schedule space of C10
      full pass of A / of B (`process()`), transmit-only pass of A / of B (`process(do_rx=False)`),
      delivery of the first k frames of the link A → B / B → A (any k, any time), ticks
  (`SOp` = `NoStuck.GOp`; `toNOp dt` maps it to the operations `NetP.NOp` of the driver: `proc i`, `procTx i`,
  `deliver i k`, `tick (k·dt)`; the schedule is run by `NetP.Net.run`, the very function of the safety theorems of C01net).

  Results (for ANY blocksizes, STmin bytes, addressing modes, tx_data_length / padding, payloads; hypotheses `Duplex` of
  C10live: valid configurations, mirrored well-formed addresses, no listen mode, limiters off, valid STmin bytes,
  payloads within limits, tick `dt` longer than both separation times — and the four timeouts covering the duration of
  the schedule plus `roundsBound + 1` ticks, so that no timer expires during the schedule and the continuation):

  * `no_stuck_state_partial`: after ANY such schedule (any order, any multiplicity, partial deliveries included) no error
    has been reported, and for every `M ≥ roundsBound + 1` the canonical continuation of `M` rounds (A.process(); deliver
    all; B.process(); deliver all; tick) completes BOTH transfers: B's rx queue is `[p]`, A's `[q]`, both requests
    completed with success (during the schedule or the continuation), both layers idle in both directions, nothing
    queued or pending, links and inboxes empty, no error event.  So the state reached is not a deadlock and every payload
    still gets delivered byte-identical.
  * `no_stuck_state_work`: the same with the bound in terms of the REMAINING WORK: the state reached is represented by
    the abstract duplex state `n` (`NoStuck.grun` of the same schedule on the abstract machine), whose potential
    `gM n` = Σ over both directions of 3·(frames still to send) + (frames still to receive) + 2·[waiting for a Flow
    Control] + [request still queued] never increases along the schedule (`potential_never_increases`) and is at most
    `roundsBound`; `gM n + 1` canonical rounds suffice (one round flushes the links, then every round strictly decreases
    the potential, `DuplexLive.round_ok`).
  * `no_stuck_state_nops`: the same in the vocabulary of the driver: any list of `NetP.NOp` made of `proc i`,
    `procTx i`, `deliver i k` (i < 2) and `tick d` with `dt ∣ d`.  This is `C10nostuck_statement` restricted to tick
    durations that are multiples of the tick of the continuation.
  * `no_stuck_state_unit`, `no_stuck_state_nops_unit`: more generally the tick durations of the schedule and the tick of
    the continuation only need a COMMON UNIT `g` larger than both separation times (ticks `k·g`, continuation `c·g`).
  * `no_stuck_state_stmin0`: if both separation times are 0 (the peers announce STmin 0, or `override_receiver_stmin
    = 0`) the general statement `C10nostuck_statement` holds as it stands (`StatementFor ca cb`): ticks of ANY
    durations, any tick of the continuation (unit 1 ns).
  * `timeouts_must_cover`: the hypothesis on the timeouts cannot be replaced by "no timeout has fired during the
    schedule": a schedule that lets 9 of the 10 ns of N_Cr pass without an error leaves a state from which the canonical
    continuation reports ConsecutiveFrameTimeoutError and loses A's payload (a timeout, not a deadlock).

  What is missing for `C10nostuck_statement` itself: a separation time > 0 together with tick durations that have no
  common unit larger than it with the tick of the continuation (e.g. STmin 1 ms and ticks of 0.3 ms).  The
  representation relation `Rep` of DuplexLive.lean records timer start times as multiples of the unit ("round numbers"),
  and the abstract transmit machine decides "STmin elapsed" by comparing round numbers; a tick shorter than the
  separation time needs an abstract machine with real time stamps (every lemma of DuplexLive.lean about TRANSMIT_CF and
  everything built on `SideOk.sep` would have to be redone).  No counterexample was found: every concrete run we
  evaluated completes.

  Method (Proofs/NoStuck.lean, NoStuck2.lean, NoStuck3.lean): the abstract duplex machine of C10live gets its two links back (`GN`); the
  direction invariant `DirInv` of DuplexLive3 is kept with "in transit" = inbox ++ link (`GInv`); the steps of the
  abstract machine never look at the inbox field, so the step lemmas of DuplexLive4 transfer, the loops are redone, the
  transmit-only pass is new (`absPassTx`, `passTx_sim`); every operation preserves `GInv` and the representation `GRep`
  and does not increase the potential; one canonical round from any `GInv` state ends with empty links in a state
  satisfying the round-synchronous invariant `NInv`, from where `abs_terminates` / `rounds_sim` of C10live apply
  (NoStuck3: the same with a tick of `c` units per round, via `round_ok`).
-/
namespace Isotp.C10nostuck
open Isotp Isotp.State Isotp.Spec Isotp.Proofs Isotp.Lockstep Isotp.DuplexLive Isotp.NoStuck Isotp.C10live

/-! ## the statement -/

/-- the schedule space of C10: full passes, transmit-only passes, deliveries of any number of frames, ticks -/
abbrev SOp := NoStuck.GOp

/-- number of ticks in a schedule -/
abbrev ticks (ops : List SOp) : Nat := gticksAll ops

/-- the number of ticks the four timeouts have to cover: the whole schedule and the continuation -/
def cover (ca cb : Cfg) (aa ab : Addr) (p q : Bytes) (ops : List SOp) : Nat :=
  ticks ops + roundsBound ca cb aa ab p q + 1

/-- from network `d` (events of A / of B so far: `preA`, `preB`), `M` canonical rounds complete both transfers -/
def CompletesFrom (d : Net) (preA preB : List Ev) (idA : Nat) (p : Bytes) (idB : Nat) (q : Bytes) (dt M : Nat) : Prop :=
  ∃ d' evA evB, canonRounds dt M d = some (d', evA, evB) ∧ Completed2 idA p idB q d' (preA ++ evA) (preB ++ evB)

/-- an operation of the schedule space, in the vocabulary of the driver -/
def IsOp : NetP.NOp → Prop
  | .proc i => i < 2
  | .procTx i => i < 2
  | .deliver i _ => i < 2
  | .tick _ => True
  | _ => False

instance : DecidablePred IsOp := fun op => by cases op <;> unfold IsOp <;> infer_instance

/-- duration of an operation (only ticks take time) -/
def dur : NetP.NOp → Nat
  | .tick d => d
  | _ => 0

/-- nanoseconds elapsed during a schedule -/
def elapsed (ops : List NetP.NOp) : Nat := (ops.map dur).sum

/-- **The general statement** (conjectured; proved below for tick durations that are multiples of `dt`, and for all
    tick durations when both separation times are 0): after `A.send(p)`, `B.send(q)` and ANY schedule of passes,
    transmit-only passes, deliveries and ticks of ANY durations, if the four timeouts cover the time elapsed plus
    `roundsBound + 1` ticks of the continuation, the canonical continuation completes both transfers. -/
def C10nostuck_statement : Prop :=
  ∀ (ca cb : Cfg) (aa ab : Addr) (idA idB : Nat) (p q : Bytes) (dt : Nat) (ops : List NetP.NOp),
    (∀ op ∈ ops, IsOp op) →
    Duplex ca cb aa ab p q dt 1 1 1 1 →
    elapsed ops + (roundsBound ca cb aa ab p q + 1) * dt ≤ ca.tFc →
    elapsed ops + (roundsBound ca cb aa ab p q + 1) * dt ≤ ca.tCf →
    elapsed ops + (roundsBound ca cb aa ab p q + 1) * dt ≤ cb.tFc →
    elapsed ops + (roundsBound ca cb aa ab p q + 1) * dt ≤ cb.tCf →
    ((State.init ca aa).send { id := idA, size := p.length, src := p }).2 = none →
    ((State.init cb ab).send { id := idB, size := q.length, src := q }).2 = none →
    ∃ d0, startNet2 ca cb aa ab idA p idB q = some (d0, none, none) ∧
      ∀ M, roundsBound ca cb aa ab p q + 1 ≤ M →
        CompletesFrom (NetP.Net.run d0 ops).1 (NetP.logOf 0 (NetP.Net.run d0 ops).2)
          (NetP.logOf 1 (NetP.Net.run d0 ops).2) idA p idB q dt M

/-! ## the theorems -/

/-- **C10: no reachable state is stuck — bound in terms of the remaining work.** After `A.send(p)`, `B.send(q)` and ANY
    schedule `ops` of full passes, transmit-only passes, deliveries of any number of frames and ticks (timeouts covering
    `cover` ticks): the abstract duplex machine runs the same schedule without failing (`grun … = some n`), its state `n`
    satisfies the invariant `GInv` (both directions: the data frames in the inbox and on the link are exactly the frames
    sent and not yet consumed, in order; exactly one Flow Control is requested / in transit / in the mailbox iff the
    sender waits for it and the receiver has consumed the block), its potential `gM n` (remaining work) is at most
    `roundsBound`; no error has been reported during the schedule; the clock is `ticks ops · dt`; and for every
    `M ≥ gM n + 1`, `M` canonical rounds from the state reached complete both transfers. -/
theorem no_stuck_state_work (ca cb : Cfg) (aa ab : Addr) (idA idB : Nat) (p q : Bytes) (dt : Nat) (ops : List SOp)
    (hD : Duplex ca cb aa ab p q dt (cover ca cb aa ab p q ops) (cover ca cb aa ab p q ops)
      (cover ca cb aa ab p q ops) (cover ca cb aa ab p q ops))
    (haccA : ((State.init ca aa).send { id := idA, size := p.length, src := p }).2 = none)
    (haccB : ((State.init cb ab).send { id := idB, size := q.length, src := q }).2 = none) :
    ∃ d0 n, startNet2 ca cb aa ab idA p idB q = some (d0, none, none) ∧
      grun (parA ca cb aa ab p q (cover ca cb aa ab p q ops) (cover ca cb aa ab p q ops))
        (parB ca cb aa ab p q (cover ca cb aa ab p q ops) (cover ca cb aa ab p q ops)) ops {} = some n ∧
      GInv (parA ca cb aa ab p q (cover ca cb aa ab p q ops) (cover ca cb aa ab p q ops))
        (parB ca cb aa ab p q (cover ca cb aa ab p q ops) (cover ca cb aa ab p q ops)) n ∧
      gM (parA ca cb aa ab p q (cover ca cb aa ab p q ops) (cover ca cb aa ab p q ops))
        (parB ca cb aa ab p q (cover ca cb aa ab p q ops) (cover ca cb aa ab p q ops)) n ≤ roundsBound ca cb aa ab p q ∧
      (∀ t e, Ev.err t e ∉ NetP.logOf 0 (NetP.Net.run d0 (ops.map (toNOp dt))).2) ∧
      (∀ t e, Ev.err t e ∉ NetP.logOf 1 (NetP.Net.run d0 (ops.map (toNOp dt))).2) ∧
      (NetP.Net.run d0 (ops.map (toNOp dt))).1.now = ticks ops * dt ∧
      ∀ M, gM (parA ca cb aa ab p q (cover ca cb aa ab p q ops) (cover ca cb aa ab p q ops))
          (parB ca cb aa ab p q (cover ca cb aa ab p q ops) (cover ca cb aa ab p q ops)) n + 1 ≤ M →
        CompletesFrom (NetP.Net.run d0 (ops.map (toNOp dt))).1 (NetP.logOf 0 (NetP.Net.run d0 (ops.map (toNOp dt))).2)
          (NetP.logOf 1 (NetP.Net.run d0 (ops.map (toNOp dt))).2) idA p idB q dt M := by
  let K := cover ca cb aa ab p q ops
  let SA : Side := { c := ca, a := aa, c' := cb, a' := ab, id := idA, p := p, p' := q, dt := dt, kCf := K, kFc := K }
  have hA : SideOk SA :=
    ⟨hD.va, hD.vb, hD.listenA, hD.rlA, hD.wfA, hD.wfB, hD.mirBA, hD.stminB, hD.p1, hD.p32, hD.q1, hD.q32, hD.qmax,
     hD.sepAB, hD.kFcA1, hD.kCfA1, hD.tFcA, hD.tCfA⟩
  have hB : SideOk (sideB SA idB K K) :=
    ⟨hD.vb, hD.va, hD.listenB, hD.rlB, hD.wfB, hD.wfA, hD.mirAB, hD.stminA, hD.q1, hD.q32, hD.p1, hD.p32, hD.pmax,
     hD.sepBA, hD.kFcB1, hD.kCfB1, hD.tFcB, hD.tCfB⟩
  obtain ⟨d0, n, h1, h2, h3, h4, h5, h6, h7, h8⟩ := nostuck_core (SA := SA) (idB := idB) (kCfB := K) (kFcB := K) hA hB
    (parOk ca cb aa ab p q K K K K hD.va hD.vb) haccA haccB ops K (Nat.le_refl _) (Nat.le_refl _) (Nat.le_refl _)
    (Nat.le_refl _) (Nat.le_refl _)
  refine ⟨d0, n, h1, h2, h3, h4, h5, h6, h7, ?_⟩
  intro M hM
  obtain ⟨d', evA, evB, c1, c2, -⟩ := h8 M hM
  exact ⟨d', evA, evB, c1, c2⟩

/-- **C10: no reachable state is stuck.** After `A.send(p)`, `B.send(q)` and ANY schedule of full passes, transmit-only
    passes, deliveries of any number of frames on either link and ticks, in any order and multiplicity (timeouts
    covering the schedule and `roundsBound + 1` more ticks): no error has been reported, and for every
    `M ≥ roundsBound + 1`, `M` canonical rounds from the state reached complete both transfers — B's rx queue is `[p]`,
    A's `[q]`, both requests completed with success, both layers idle, links and inboxes empty, no error event. -/
theorem no_stuck_state_partial (ca cb : Cfg) (aa ab : Addr) (idA idB : Nat) (p q : Bytes) (dt : Nat) (ops : List SOp)
    (hD : Duplex ca cb aa ab p q dt (cover ca cb aa ab p q ops) (cover ca cb aa ab p q ops)
      (cover ca cb aa ab p q ops) (cover ca cb aa ab p q ops))
    (haccA : ((State.init ca aa).send { id := idA, size := p.length, src := p }).2 = none)
    (haccB : ((State.init cb ab).send { id := idB, size := q.length, src := q }).2 = none) :
    ∃ d0, startNet2 ca cb aa ab idA p idB q = some (d0, none, none) ∧
      (∀ t e, Ev.err t e ∉ NetP.logOf 0 (NetP.Net.run d0 (ops.map (toNOp dt))).2) ∧
      (∀ t e, Ev.err t e ∉ NetP.logOf 1 (NetP.Net.run d0 (ops.map (toNOp dt))).2) ∧
      ∀ M, roundsBound ca cb aa ab p q + 1 ≤ M →
        CompletesFrom (NetP.Net.run d0 (ops.map (toNOp dt))).1 (NetP.logOf 0 (NetP.Net.run d0 (ops.map (toNOp dt))).2)
          (NetP.logOf 1 (NetP.Net.run d0 (ops.map (toNOp dt))).2) idA p idB q dt M := by
  obtain ⟨d0, n, h1, -, -, h4, h5, h6, -, h8⟩ := no_stuck_state_work ca cb aa ab idA idB p q dt ops hD haccA haccB
  exact ⟨d0, h1, h5, h6, fun M hM => h8 M (by omega)⟩

/-- **The potential never increases**, whatever the schedule does: if the abstract machine runs `ops1 ++ ops2` from
    the start, the potential after `ops1 ++ ops2` is at most the potential after `ops1` (timeouts covering all ticks). -/
theorem potential_never_increases {PA PB : Par} (hP : ParOk PA PB) (ops1 ops2 : List SOp)
    (k1 : gticksAll (ops1 ++ ops2) ≤ PA.kCf) (k2 : gticksAll (ops1 ++ ops2) ≤ PA.kFc)
    (k3 : gticksAll (ops1 ++ ops2) ≤ PB.kCf) (k4 : gticksAll (ops1 ++ ops2) ≤ PB.kFc) :
    ∃ n1 n2, grun PA PB ops1 {} = some n1 ∧ grun PA PB ops2 n1 = some n2 ∧ grun PA PB (ops1 ++ ops2) {} = some n2 ∧
      GInv PA PB n1 ∧ GInv PA PB n2 ∧ gM PA PB n2 ≤ gM PA PB n1 ∧ gM PA PB n1 ≤ 4 * (PA.n + PB.n) + 2 := by
  have ht : gticksAll (ops1 ++ ops2) = gticksAll ops1 + gticksAll ops2 := by simp [gticksAll]
  rw [ht] at k1 k2 k3 k4
  obtain ⟨n1, e1, i1, m1, r1⟩ := grun_ok hP ops1 {} (ginv_init hP) (by show 0 + _ ≤ _; omega) (by show 0 + _ ≤ _; omega)
    (by show 0 + _ ≤ _; omega) (by show 0 + _ ≤ _; omega)
  have r1' : n1.R = gticksAll ops1 := by rw [r1]; show 0 + _ = _; omega
  obtain ⟨n2, e2, i2, m2, r2⟩ := grun_ok hP ops2 n1 i1 (by rw [r1']; omega) (by rw [r1']; omega) (by rw [r1']; omega)
    (by rw [r1']; omega)
  have e12 : ∀ (l1 l2 : List SOp) (n : GN), grun PA PB (l1 ++ l2) n = (grun PA PB l1 n).bind (grun PA PB l2) := by
    intro l1
    induction l1 with
    | nil => intro l2 n; rfl
    | cons o l ih =>
      intro l2 n
      simp only [List.cons_append, grun]
      cases gstep PA PB n o with
      | none => rfl
      | some n' => simp only [Option.bind_some]; exact ih l2 n'
  refine ⟨n1, n2, e1, e2, by rw [e12, e1]; exact e2, i1, i2, m2, ?_⟩
  rw [← gM_init PA PB hP]; exact m1


/-! ## in the vocabulary of the driver -/

/-- every schedule of the driver made of operations of the schedule space, with tick durations that are multiples of
    `dt`, is a schedule over `SOp` -/
theorem ofNOps (dt : Nat) : ∀ (ops : List NetP.NOp), (∀ op ∈ ops, IsOp op) → (∀ op ∈ ops, dt ∣ dur op) →
    ∃ gops : List SOp, gops.map (toNOp dt) = ops ∧ ticks gops * dt = elapsed ops := by
  intro ops
  induction ops with
  | nil => intro _ _; exact ⟨[], rfl, by simp [ticks, gticksAll, elapsed]⟩
  | cons op ops ih =>
    intro h1 h2
    obtain ⟨gops, e1, e2⟩ := ih (fun o ho => h1 o (List.mem_cons_of_mem _ ho)) (fun o ho => h2 o (List.mem_cons_of_mem _ ho))
    have hop := h1 op List.mem_cons_self
    have step : ∀ g : SOp, toNOp dt g = op → gticks g * dt = dur op →
        ∃ gops : List SOp, gops.map (toNOp dt) = op :: ops ∧ ticks gops * dt = elapsed (op :: ops) := by
      intro g hg ht
      refine ⟨g :: gops, by simp [hg, e1], ?_⟩
      have e3 : ticks (g :: gops) = gticks g + ticks gops := by simp [ticks, gticksAll]
      have e4 : elapsed (op :: ops) = dur op + elapsed ops := by simp [elapsed]
      rw [e3, e4, Nat.add_mul, ht, e2]
    cases op with
    | send i a => exact absurd hop (by simp [IsOp])
    | recv i => exact absurd hop (by simp [IsOp])
    | proc i =>
      have hi : i < 2 := hop
      rcases (by omega : i = 0 ∨ i = 1) with rfl | rfl
      · exact step .passA rfl (by simp [gticks, dur])
      · exact step .passB rfl (by simp [gticks, dur])
    | procTx i =>
      have hi : i < 2 := hop
      rcases (by omega : i = 0 ∨ i = 1) with rfl | rfl
      · exact step .txA rfl (by simp [gticks, dur])
      · exact step .txB rfl (by simp [gticks, dur])
    | deliver i k =>
      have hi : i < 2 := hop
      rcases (by omega : i = 0 ∨ i = 1) with rfl | rfl
      · exact step (.delAB k) rfl (by simp [gticks, dur])
      · exact step (.delBA k) rfl (by simp [gticks, dur])
    | tick d =>
      obtain ⟨c, rfl⟩ : dt ∣ d := h2 (.tick d) List.mem_cons_self
      exact step (.tick c) (by simp [toNOp, Nat.mul_comm]) (by simp [gticks, dur, Nat.mul_comm])

/-- the hypotheses of C10live with the timeouts covering `K` ticks -/
theorem duplex_cover {ca cb : Cfg} {aa ab : Addr} {p q : Bytes} {dt : Nat} (hD : Duplex ca cb aa ab p q dt 1 1 1 1)
    (K : Nat) (hK : 1 ≤ K) (t1 : K * dt ≤ ca.tFc) (t2 : K * dt ≤ ca.tCf) (t3 : K * dt ≤ cb.tFc) (t4 : K * dt ≤ cb.tCf) :
    Duplex ca cb aa ab p q dt K K K K :=
  ⟨hD.va, hD.vb, hD.listenA, hD.listenB, hD.rlA, hD.rlB, hD.wfA, hD.wfB, hD.mirAB, hD.mirBA, hD.stminA, hD.stminB,
   hD.p1, hD.p32, hD.pmax, hD.q1, hD.q32, hD.qmax, hD.sepAB, hD.sepBA, hK, hK, hK, hK, t1, t2, t3, t4⟩

/-- **C10: no reachable state is stuck, in the vocabulary of the driver** — `C10nostuck_statement` for schedules whose
    tick durations are multiples of the tick `dt` of the continuation: after `A.send(p)`, `B.send(q)` and any list of
    `proc i`, `procTx i`, `deliver i k` (i < 2) and `tick d` with `dt ∣ d` (`dt ∣ dur op` for every operation) run by `NetP.Net.run`, if the four timeouts
    cover the time elapsed plus `roundsBound + 1` ticks, then for every `M ≥ roundsBound + 1`, `M` canonical rounds
    complete both transfers; no error event during the schedule or the continuation. -/
theorem no_stuck_state_nops (ca cb : Cfg) (aa ab : Addr) (idA idB : Nat) (p q : Bytes) (dt : Nat) (ops : List NetP.NOp)
    (hops : ∀ op ∈ ops, IsOp op) (hdiv : ∀ op ∈ ops, dt ∣ dur op)
    (hD : Duplex ca cb aa ab p q dt 1 1 1 1)
    (t1 : elapsed ops + (roundsBound ca cb aa ab p q + 1) * dt ≤ ca.tFc)
    (t2 : elapsed ops + (roundsBound ca cb aa ab p q + 1) * dt ≤ ca.tCf)
    (t3 : elapsed ops + (roundsBound ca cb aa ab p q + 1) * dt ≤ cb.tFc)
    (t4 : elapsed ops + (roundsBound ca cb aa ab p q + 1) * dt ≤ cb.tCf)
    (haccA : ((State.init ca aa).send { id := idA, size := p.length, src := p }).2 = none)
    (haccB : ((State.init cb ab).send { id := idB, size := q.length, src := q }).2 = none) :
    ∃ d0, startNet2 ca cb aa ab idA p idB q = some (d0, none, none) ∧
      ∀ M, roundsBound ca cb aa ab p q + 1 ≤ M →
        CompletesFrom (NetP.Net.run d0 ops).1 (NetP.logOf 0 (NetP.Net.run d0 ops).2)
          (NetP.logOf 1 (NetP.Net.run d0 ops).2) idA p idB q dt M := by
  obtain ⟨gops, e1, e2⟩ := ofNOps dt ops hops hdiv
  have hc : cover ca cb aa ab p q gops * dt = elapsed ops + (roundsBound ca cb aa ab p q + 1) * dt := by
    unfold cover
    rw [Nat.add_assoc, Nat.add_mul, e2]
  have hD' := duplex_cover hD (cover ca cb aa ab p q gops) (by unfold cover; omega) (by rw [hc]; exact t1)
    (by rw [hc]; exact t2) (by rw [hc]; exact t3) (by rw [hc]; exact t4)
  obtain ⟨d0, h1, -, -, h4⟩ := no_stuck_state_partial ca cb aa ab idA idB p q dt gops hD' haccA haccB
  rw [e1] at h4
  exact ⟨d0, h1, h4⟩

/-! ## a common unit for the ticks of the schedule and of the continuation -/

/-- **C10: no reachable state is stuck — the tick of the continuation is a multiple `c·dt` of the unit `dt` of the
    schedule.** As `no_stuck_state_partial`, with canonical rounds that tick by `c·dt` (`c ≥ 1`); the timeouts cover
    `ticks ops + (roundsBound + 1)·c` units. -/
theorem no_stuck_state_unit (ca cb : Cfg) (aa ab : Addr) (idA idB : Nat) (p q : Bytes) (dt : Nat) (ops : List SOp)
    (c : Nat) (hc : 1 ≤ c)
    (hD : Duplex ca cb aa ab p q dt (ticks ops + (roundsBound ca cb aa ab p q + 1) * c)
      (ticks ops + (roundsBound ca cb aa ab p q + 1) * c) (ticks ops + (roundsBound ca cb aa ab p q + 1) * c)
      (ticks ops + (roundsBound ca cb aa ab p q + 1) * c))
    (haccA : ((State.init ca aa).send { id := idA, size := p.length, src := p }).2 = none)
    (haccB : ((State.init cb ab).send { id := idB, size := q.length, src := q }).2 = none) :
    ∃ d0, startNet2 ca cb aa ab idA p idB q = some (d0, none, none) ∧
      (∀ t e, Ev.err t e ∉ NetP.logOf 0 (NetP.Net.run d0 (ops.map (toNOp dt))).2) ∧
      (∀ t e, Ev.err t e ∉ NetP.logOf 1 (NetP.Net.run d0 (ops.map (toNOp dt))).2) ∧
      ∀ M, roundsBound ca cb aa ab p q + 1 ≤ M →
        CompletesFrom (NetP.Net.run d0 (ops.map (toNOp dt))).1 (NetP.logOf 0 (NetP.Net.run d0 (ops.map (toNOp dt))).2)
          (NetP.logOf 1 (NetP.Net.run d0 (ops.map (toNOp dt))).2) idA p idB q (c * dt) M := by
  let K := ticks ops + (roundsBound ca cb aa ab p q + 1) * c
  let SA : Side := { c := ca, a := aa, c' := cb, a' := ab, id := idA, p := p, p' := q, dt := dt, kCf := K, kFc := K }
  have hA : SideOk SA :=
    ⟨hD.va, hD.vb, hD.listenA, hD.rlA, hD.wfA, hD.wfB, hD.mirBA, hD.stminB, hD.p1, hD.p32, hD.q1, hD.q32, hD.qmax,
     hD.sepAB, hD.kFcA1, hD.kCfA1, hD.tFcA, hD.tCfA⟩
  have hB : SideOk (sideB SA idB K K) :=
    ⟨hD.vb, hD.va, hD.listenB, hD.rlB, hD.wfB, hD.wfA, hD.mirAB, hD.stminA, hD.q1, hD.q32, hD.p1, hD.p32, hD.pmax,
     hD.sepBA, hD.kFcB1, hD.kCfB1, hD.tFcB, hD.tCfB⟩
  obtain ⟨d0, h1, h2, h3, -, h5⟩ := nostuck_coreC (SA := SA) (idB := idB) (kCfB := K) (kFcB := K) hA hB
    (parOk ca cb aa ab p q K K K K hD.va hD.vb) haccA haccB ops c hc K (Nat.le_refl _) (Nat.le_refl _) (Nat.le_refl _)
    (Nat.le_refl _) (Nat.le_refl _)
  exact ⟨d0, h1, h2, h3, fun M hM => h5 M hM⟩

/-- **… in the vocabulary of the driver**: `g` is a common unit of all tick durations of the schedule and of the tick
    `c·g` of the continuation, larger than both separation times (`Duplex … g …`). -/
theorem no_stuck_state_nops_unit (ca cb : Cfg) (aa ab : Addr) (idA idB : Nat) (p q : Bytes) (g c : Nat) (hc : 1 ≤ c)
    (ops : List NetP.NOp) (hops : ∀ op ∈ ops, IsOp op) (hdiv : ∀ op ∈ ops, g ∣ dur op)
    (hD : Duplex ca cb aa ab p q g 1 1 1 1)
    (t1 : elapsed ops + (roundsBound ca cb aa ab p q + 1) * (c * g) ≤ ca.tFc)
    (t2 : elapsed ops + (roundsBound ca cb aa ab p q + 1) * (c * g) ≤ ca.tCf)
    (t3 : elapsed ops + (roundsBound ca cb aa ab p q + 1) * (c * g) ≤ cb.tFc)
    (t4 : elapsed ops + (roundsBound ca cb aa ab p q + 1) * (c * g) ≤ cb.tCf)
    (haccA : ((State.init ca aa).send { id := idA, size := p.length, src := p }).2 = none)
    (haccB : ((State.init cb ab).send { id := idB, size := q.length, src := q }).2 = none) :
    ∃ d0, startNet2 ca cb aa ab idA p idB q = some (d0, none, none) ∧
      ∀ M, roundsBound ca cb aa ab p q + 1 ≤ M →
        CompletesFrom (NetP.Net.run d0 ops).1 (NetP.logOf 0 (NetP.Net.run d0 ops).2)
          (NetP.logOf 1 (NetP.Net.run d0 ops).2) idA p idB q (c * g) M := by
  obtain ⟨gops, e1, e2⟩ := ofNOps g ops hops hdiv
  have hc' : (ticks gops + (roundsBound ca cb aa ab p q + 1) * c) * g =
      elapsed ops + (roundsBound ca cb aa ab p q + 1) * (c * g) := by
    rw [Nat.add_mul, e2, Nat.mul_assoc]
  have hD' := duplex_cover hD (ticks gops + (roundsBound ca cb aa ab p q + 1) * c)
    (Nat.le_trans (Nat.le_trans hc (Nat.le_mul_of_pos_left c (Nat.succ_pos _))) (Nat.le_add_left _ _))
    (by rw [hc']; exact t1) (by rw [hc']; exact t2) (by rw [hc']; exact t3) (by rw [hc']; exact t4)
  obtain ⟨d0, h1, -, -, h4⟩ := no_stuck_state_unit ca cb aa ab idA idB p q g gops c hc hD' haccA haccB
  rw [e1] at h4
  exact ⟨d0, h1, h4⟩

/-- `C10nostuck_statement` for given configurations -/
def StatementFor (ca cb : Cfg) : Prop :=
  ∀ (aa ab : Addr) (idA idB : Nat) (p q : Bytes) (dt : Nat) (ops : List NetP.NOp),
    (∀ op ∈ ops, IsOp op) →
    Duplex ca cb aa ab p q dt 1 1 1 1 →
    elapsed ops + (roundsBound ca cb aa ab p q + 1) * dt ≤ ca.tFc →
    elapsed ops + (roundsBound ca cb aa ab p q + 1) * dt ≤ ca.tCf →
    elapsed ops + (roundsBound ca cb aa ab p q + 1) * dt ≤ cb.tFc →
    elapsed ops + (roundsBound ca cb aa ab p q + 1) * dt ≤ cb.tCf →
    ((State.init ca aa).send { id := idA, size := p.length, src := p }).2 = none →
    ((State.init cb ab).send { id := idB, size := q.length, src := q }).2 = none →
    ∃ d0, startNet2 ca cb aa ab idA p idB q = some (d0, none, none) ∧
      ∀ M, roundsBound ca cb aa ab p q + 1 ≤ M →
        CompletesFrom (NetP.Net.run d0 ops).1 (NetP.logOf 0 (NetP.Net.run d0 ops).2)
          (NetP.logOf 1 (NetP.Net.run d0 ops).2) idA p idB q dt M

theorem statement_iff : C10nostuck_statement ↔ ∀ ca cb, StatementFor ca cb :=
  ⟨fun h ca cb aa ab idA idB p q dt ops => h ca cb aa ab idA idB p q dt ops,
   fun h ca cb aa ab idA idB p q dt ops => h ca cb aa ab idA idB p q dt ops⟩

/-- **C10: no reachable state is stuck — separation time 0 on both sides: the general statement**, for ticks of ANY
    durations in the schedule and any tick `dt ≥ 1` of the continuation: `C10nostuck_statement` holds for all
    configurations in which both layers have to respect a separation time of 0 (the peer announces STmin 0, or
    `override_receiver_stmin = 0`). -/
theorem no_stuck_state_stmin0 (ca cb : Cfg) (hzA : effOf ca cb = 0) (hzB : effOf cb ca = 0) : StatementFor ca cb := by
  intro aa ab idA idB p q dt ops hops hD t1 t2 t3 t4 haccA haccB
  have hdt : 1 ≤ dt := by have := hD.sepAB; omega
  have e1 : dt * 1 = dt := Nat.mul_one dt
  have f1 := hD.tFcA; have f2 := hD.tCfA; have f3 := hD.tFcB; have f4 := hD.tCfB
  have hD1 : Duplex ca cb aa ab p q 1 1 1 1 1 :=
    ⟨hD.va, hD.vb, hD.listenA, hD.listenB, hD.rlA, hD.rlB, hD.wfA, hD.wfB, hD.mirAB, hD.mirBA, hD.stminA, hD.stminB,
     hD.p1, hD.p32, hD.pmax, hD.q1, hD.q32, hD.qmax, by rw [hzA]; omega, by rw [hzB]; omega, Nat.le_refl 1, Nat.le_refl 1,
     Nat.le_refl 1, Nat.le_refl 1, by omega, by omega, by omega, by omega⟩
  have := no_stuck_state_nops_unit ca cb aa ab idA idB p q 1 dt hdt ops hops (fun op _ => Nat.one_dvd (dur op)) hD1
    (by rw [e1]; exact t1) (by rw [e1]; exact t2) (by rw [e1]; exact t3) (by rw [e1]; exact t4) haccA haccB
  rw [e1] at this
  exact this

/-! ## concrete instances (non-vacuity): the scenario of C10live — classic CAN, normal 11-bit addressing; A sends 20
    bytes (3 frames), B sends 50 bytes (8 frames) — after ADVERSARIAL schedule prefixes -/

/-- an adversarial prefix: transmit-only passes, single-frame deliveries in odd order, ticks in between (4 ticks) -/
def adv1 : List SOp :=
  [.txA, .txB, .delBA 1, .txA, .passA, .delAB 1, .passB, .delBA 1, .tick 1, .passA, .delAB 1, .txB, .passB, .tick 2,
   .delAB 1, .txA, .delBA 2, .passB, .txB, .tick 1, .txB, .delBA 1, .passA, .txA]

/-- another one, without ticks: B first, frames delivered late and in bursts -/
def adv2 : List SOp :=
  [.txB, .txA, .delAB 1, .delBA 1, .txB, .txA, .passB, .passA, .delBA 5, .delAB 5, .passA, .txB, .delAB 1, .passB,
   .delAB 3, .delBA 1]

/-- the hypotheses are satisfiable: blocksizes 2 / 3, STmin 1 ms on both sides, tick 1 ms + 1 ns, default timeouts
    (1 s): they cover the 4 + 46 + 1 = 51 ticks of `cover` for the schedule `adv1` -/
theorem exDuplex_adv1 : Duplex (exC 2 1 1000000000 1000000000) (exC 3 1 1000000000 1000000000) exAddrA exAddrB exP exQ
    1000001 (cover (exC 2 1 1000000000 1000000000) (exC 3 1 1000000000 1000000000) exAddrA exAddrB exP exQ adv1)
      (cover (exC 2 1 1000000000 1000000000) (exC 3 1 1000000000 1000000000) exAddrA exAddrB exP exQ adv1)
      (cover (exC 2 1 1000000000 1000000000) (exC 3 1 1000000000 1000000000) exAddrA exAddrB exP exQ adv1)
      (cover (exC 2 1 1000000000 1000000000) (exC 3 1 1000000000 1000000000) exAddrA exAddrB exP exQ adv1) :=
  ⟨by decide, by decide, by decide, by decide, by decide, by decide, by decide, by decide, by decide, by decide,
   by decide, by decide, by decide, by decide, by decide, by decide, by decide, by decide, by decide, by decide,
   by decide, by decide, by decide, by decide, by decide, by decide, by decide, by decide⟩

example : cover (exC 2 1 1000000000 1000000000) (exC 3 1 1000000000 1000000000) exAddrA exAddrB exP exQ adv1 = 51 := by
  decide

/-- instances of the theorems -/
example := no_stuck_state_partial _ _ _ _ 1 2 _ _ _ adv1 exDuplex_adv1 (by decide) (by decide)
example := no_stuck_state_work _ _ _ _ 1 2 _ _ _ adv1 exDuplex_adv1 (by decide) (by decide)

/-- … in the vocabulary of the driver: the same prefix as a list of driver operations (ticks of 1, 2, 1 × `dt`) -/
def adv1N : List NetP.NOp :=
  [.procTx 0, .procTx 1, .deliver 1 1, .procTx 0, .proc 0, .deliver 0 1, .proc 1, .deliver 1 1, .tick 1000001, .proc 0,
   .deliver 0 1, .procTx 1, .proc 1, .tick 2000002, .deliver 0 1, .procTx 0, .deliver 1 2, .proc 1, .procTx 1,
   .tick 1000001, .procTx 1, .deliver 1 1, .proc 0, .procTx 0]

example : adv1.map (toNOp 1000001) = adv1N := rfl

theorem exDuplex_1 : Duplex (exC 2 1 1000000000 1000000000) (exC 3 1 1000000000 1000000000) exAddrA exAddrB exP exQ
    1000001 1 1 1 1 :=
  ⟨by decide, by decide, by decide, by decide, by decide, by decide, by decide, by decide, by decide, by decide,
   by decide, by decide, by decide, by decide, by decide, by decide, by decide, by decide, by decide, by decide,
   by decide, by decide, by decide, by decide, by decide, by decide, by decide, by decide⟩

example := no_stuck_state_nops _ _ _ _ 1 2 _ _ 1000001 adv1N (by decide) (by decide) exDuplex_1 (by decide) (by decide)
  (by decide) (by decide) (by decide) (by decide)

/-- … separation time 0 on both sides: ticks of 7 ns, 13 ns, 1 ns between the operations of `adv2`; the continuation
    ticks by 5 ns -/
def adv2N : List NetP.NOp :=
  [.procTx 1, .procTx 0, .tick 7, .deliver 0 1, .deliver 1 1, .procTx 1, .procTx 0, .proc 1, .tick 13, .proc 0,
   .deliver 1 5, .deliver 0 5, .proc 0, .procTx 1, .tick 1, .deliver 0 1, .proc 1, .deliver 0 3, .deliver 1 1]

theorem exDuplex_stmin0 : Duplex (exC 0 0 1000000000 1000000000) (exC 0 0 1000000000 1000000000) exAddrA exAddrB exP exQ
    5 1 1 1 1 :=
  ⟨by decide, by decide, by decide, by decide, by decide, by decide, by decide, by decide, by decide, by decide,
   by decide, by decide, by decide, by decide, by decide, by decide, by decide, by decide, by decide, by decide,
   by decide, by decide, by decide, by decide, by decide, by decide, by decide, by decide⟩

example := no_stuck_state_stmin0 (exC 0 0 1000000000 1000000000) (exC 0 0 1000000000 1000000000) (by decide) (by decide)
  exAddrA exAddrB 1 2 exP exQ 5 adv2N (by decide) exDuplex_stmin0 (by decide) (by decide) (by decide) (by decide)
  (by decide) (by decide)

/-- … a common unit: the schedule `adv1` ticks in units of 1 ms + 1 ns, the continuation by 2 units per round; the
    default timeouts cover the 4 + 47·2 = 98 units -/
theorem exDuplex_unit : Duplex (exC 2 1 1000000000 1000000000) (exC 3 1 1000000000 1000000000) exAddrA exAddrB exP exQ
    1000001 (ticks adv1 + (roundsBound (exC 2 1 1000000000 1000000000) (exC 3 1 1000000000 1000000000) exAddrA exAddrB exP exQ + 1) * 2)
      (ticks adv1 + (roundsBound (exC 2 1 1000000000 1000000000) (exC 3 1 1000000000 1000000000) exAddrA exAddrB exP exQ + 1) * 2)
      (ticks adv1 + (roundsBound (exC 2 1 1000000000 1000000000) (exC 3 1 1000000000 1000000000) exAddrA exAddrB exP exQ + 1) * 2)
      (ticks adv1 + (roundsBound (exC 2 1 1000000000 1000000000) (exC 3 1 1000000000 1000000000) exAddrA exAddrB exP exQ + 1) * 2) :=
  ⟨by decide, by decide, by decide, by decide, by decide, by decide, by decide, by decide, by decide, by decide,
   by decide, by decide, by decide, by decide, by decide, by decide, by decide, by decide, by decide, by decide,
   by decide, by decide, by decide, by decide, by decide, by decide, by decide, by decide⟩

example := no_stuck_state_unit _ _ _ _ 1 2 _ _ _ adv1 2 (by decide) exDuplex_unit (by decide) (by decide)

example := no_stuck_state_nops_unit _ _ _ _ 1 2 _ _ 1000001 3 (by decide) adv1N (by decide) (by decide) exDuplex_1
  (by decide) (by decide) (by decide) (by decide) (by decide) (by decide)

/-- the abstract parameters of the scenario (3 and 8 frames, blocksizes 2 / 3, separation time > 0) -/
def exPA : Par := { n := 3, n' := 8, bs := 2, bs' := 3, z := false, kCf := 51, kFc := 51 }
def exPB : Par := { n := 8, n' := 3, bs := 3, bs' := 2, z := false, kCf := 51, kFc := 51 }

example := potential_never_increases (PA := exPA) (PB := exPB) ⟨rfl, rfl, rfl, rfl, by decide, by decide⟩
  (adv1.take 10) (adv1.drop 10) (by decide) (by decide) (by decide) (by decide)

/-- the potential along `adv1` (after 0, 1, …, 24 operations): it starts at `roundsBound` = 46 and never goes up;
    the state reached has potential 25, so 26 canonical rounds certainly suffice (10 do, see below) -/
example : (List.range 25).map (fun i => (grun exPA exPB (adv1.take i) {}).map (gM exPA exPB)) =
    [46, 44, 42, 42, 42, 41, 41, 40, 40, 40, 38, 38, 38, 36, 36, 36, 33, 33, 30, 30, 30, 29, 29, 25, 25].map some := by
  decide +kernel

/-! ### the same scenarios, evaluated on the network of the driver -/

/-- what is looked at after the two `send` calls, the schedule `ops` and `M` canonical rounds (events: schedule and
    continuation) -/
def runAdv (ca cb : Cfg) (p q : Bytes) (dt : Nat) (ops : List SOp) (M : Nat) : Option Summary :=
  (startNet2 ca cb exAddrA exAddrB 1 p 2 q).bind fun d0 =>
    (canonRounds dt M (NetP.Net.run d0.1 (ops.map (toNOp dt))).1).map fun c =>
      { rxQueues := c.1.layers.toList.map (·.rxQueue), txStates := c.1.layers.toList.map (·.txState),
        rxStates := c.1.layers.toList.map (·.rxState), inboxes := c.1.layers.toList.map (·.inbox.length),
        now := c.1.now,
        doneA := decide (Ev.done 1 true ∈ NetP.logOf 0 (NetP.Net.run d0.1 (ops.map (toNOp dt))).2 ++ c.2.1),
        doneB := decide (Ev.done 2 true ∈ NetP.logOf 1 (NetP.Net.run d0.1 (ops.map (toNOp dt))).2 ++ c.2.2),
        errsA := errsOf (NetP.logOf 0 (NetP.Net.run d0.1 (ops.map (toNOp dt))).2 ++ c.2.1),
        errsB := errsOf (NetP.logOf 1 (NetP.Net.run d0.1 (ops.map (toNOp dt))).2 ++ c.2.2) }

/-- frames on the two links and in the two inboxes after the schedule -/
def inFlight (ca cb : Cfg) (p q : Bytes) (dt : Nat) (ops : List SOp) : Option (List Nat × List Nat) :=
  (startNet2 ca cb exAddrA exAddrB 1 p 2 q).map fun d0 =>
    ((NetP.Net.run d0.1 (ops.map (toNOp dt))).1.outbox.toList.map (·.length),
     (NetP.Net.run d0.1 (ops.map (toNOp dt))).1.layers.toList.map (·.inbox.length))

-- after `adv1` (blocksizes 2 / 3, STmin 1 ms): A has sent everything, B waits for a Flow Control, both receptions are
-- open, 2 + 1 frames are on the links
example : runAdv (exC 2 1 big big) (exC 3 1 big big) exP exQ 1000001 adv1 0 =
    some ⟨[[], []], [.idle, .waitFc], [.waitCf, .waitCf], [0, 0], 4000004, true, false, [], []⟩ := by decide +kernel
example : inFlight (exC 2 1 big big) (exC 3 1 big big) exP exQ 1000001 adv1 = some ([2, 1], [0, 0]) := by decide +kernel
-- … ten canonical rounds complete both transfers (nine do not)
example : runAdv (exC 2 1 big big) (exC 3 1 big big) exP exQ 1000001 adv1 10 = okAt exP exQ 14000014 := by decide +kernel
example : runAdv (exC 2 1 big big) (exC 3 1 big big) exP exQ 1000001 adv1 9 =
    some ⟨[[], [exP]], [.idle, .idle], [.waitCf, .idle], [1, 0], 13000013, true, true, [], []⟩ := by decide +kernel
-- … and it stays complete: the 47 rounds of the theorem
example : runAdv (exC 2 1 big big) (exC 3 1 big big) exP exQ 1000001 adv1 47 = okAt exP exQ 51000051 := by decide +kernel

-- after `adv2` (blocksize 0, STmin 0): both have sent everything, 6 frames on the link B → A, 1 + 2 unread
example : runAdv (exC 0 0 big big) (exC 0 0 big big) exP exQ 1 adv2 0 =
    some ⟨[[], []], [.idle, .idle], [.waitCf, .waitCf], [1, 2], 0, true, true, [], []⟩ := by decide +kernel
example : inFlight (exC 0 0 big big) (exC 0 0 big big) exP exQ 1 adv2 = some ([0, 6], [1, 2]) := by decide +kernel
-- … two canonical rounds complete both transfers (one does not)
example : runAdv (exC 0 0 big big) (exC 0 0 big big) exP exQ 1 adv2 2 = okAt exP exQ 2 := by decide +kernel
example : runAdv (exC 0 0 big big) (exC 0 0 big big) exP exQ 1 adv2 1 =
    some ⟨[[], [exP]], [.idle, .idle], [.waitCf, .idle], [6, 0], 1, true, true, [], []⟩ := by decide +kernel

/-- the same for a schedule in the vocabulary of the driver -/
def runAdvN (ca cb : Cfg) (p q : Bytes) (dt : Nat) (ops : List NetP.NOp) (M : Nat) : Option Summary :=
  (startNet2 ca cb exAddrA exAddrB 1 p 2 q).bind fun d0 =>
    (canonRounds dt M (NetP.Net.run d0.1 ops).1).map fun c =>
      { rxQueues := c.1.layers.toList.map (·.rxQueue), txStates := c.1.layers.toList.map (·.txState),
        rxStates := c.1.layers.toList.map (·.rxState), inboxes := c.1.layers.toList.map (·.inbox.length),
        now := c.1.now,
        doneA := decide (Ev.done 1 true ∈ NetP.logOf 0 (NetP.Net.run d0.1 ops).2 ++ c.2.1),
        doneB := decide (Ev.done 2 true ∈ NetP.logOf 1 (NetP.Net.run d0.1 ops).2 ++ c.2.2),
        errsA := errsOf (NetP.logOf 0 (NetP.Net.run d0.1 ops).2 ++ c.2.1),
        errsB := errsOf (NetP.logOf 1 (NetP.Net.run d0.1 ops).2 ++ c.2.2) }

-- `adv2N` (ticks of 7, 13 and 1 ns), then a continuation that ticks by 5 ns: two rounds complete both transfers
example : runAdvN (exC 0 0 big big) (exC 0 0 big big) exP exQ 5 adv2N 2 = okAt exP exQ 31 := by decide +kernel
-- `adv1N`, then a continuation that ticks by 3 units: ten rounds
example : runAdvN (exC 2 1 big big) (exC 3 1 big big) exP exQ 3000003 adv1N 10 = okAt exP exQ 34000034 := by
  decide +kernel

/-! ### the timeouts have to cover the schedule -/

/-- N_Cr = N_Bs = 10 ns on both sides (blocksize 0, STmin 0, continuation tick 1 ns). The schedule lets A send its
    First Frame, delivers it, lets B answer, and then lets 9 ns pass: NO timeout has fired (no error event, first
    line). But B's N_Cr timer — restarted when B sent its Flow Control — is 9 ns old, and A's first Consecutive Frame
    reaches B only in the second round of the continuation: B reports ConsecutiveFrameTimeoutError, A's payload is lost
    (A's request completes "successfully"). With timeouts covering the schedule and the continuation (`cover`: here
    9 + 46 + 1 = 56 ns) this cannot happen (`no_stuck_state_partial`); third line: 56 ns. -/
theorem timeouts_must_cover :
    runAdvN (exC 0 0 10 10) (exC 0 0 10 10) exP exQ 1 [.procTx 0, .deliver 0 1, .proc 1, .tick 9] 0 =
      some ⟨[[], []], [.waitFc, .waitFc], [.idle, .waitCf], [0, 0], 9, false, false, [], []⟩ ∧
    runAdvN (exC 0 0 10 10) (exC 0 0 10 10) exP exQ 1 [.procTx 0, .deliver 0 1, .proc 1, .tick 9] 6 =
      some ⟨[[exQ], []], [.idle, .idle], [.idle, .idle], [0, 0], 15, true, true, [],
            [.ConsecutiveFrameTimeout, .UnexpectedConsecutiveFrame, .UnexpectedConsecutiveFrame]⟩ ∧
    runAdvN (exC 0 0 56 56) (exC 0 0 56 56) exP exQ 1 [.procTx 0, .deliver 0 1, .proc 1, .tick 9] 6 =
      okAt exP exQ 15 := by
  refine ⟨?_, ?_, ?_⟩ <;> decide +kernel

end Isotp.C10nostuck

#print axioms Isotp.C10nostuck.no_stuck_state_work
#print axioms Isotp.C10nostuck.no_stuck_state_partial
#print axioms Isotp.C10nostuck.potential_never_increases
#print axioms Isotp.C10nostuck.ofNOps
#print axioms Isotp.C10nostuck.no_stuck_state_nops
#print axioms Isotp.C10nostuck.no_stuck_state_unit
#print axioms Isotp.C10nostuck.no_stuck_state_nops_unit
#print axioms Isotp.C10nostuck.no_stuck_state_stmin0
#print axioms Isotp.C10nostuck.statement_iff
#print axioms Isotp.C10nostuck.timeouts_must_cover
