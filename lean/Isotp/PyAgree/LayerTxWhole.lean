import Isotp.PyAgree.LayerTx
import Isotp.PyAgree.Exec2Bridge
/-!
  `TransportLayerLogic._process_tx` (isotp/protocol.py) AS A WHOLE, on top of the region theorems of LayerTx.lean.

  PART 1  `processTx_decomposed` : the model-side pieces the six region theorems of LayerTx.lean are stated against (`prefixR`, `standbyM`,
          `State.readTxQueue` / `startTxR`, `State.transmitCf` / `transmitCfR`, `tailM`), composed (`processTxD`), ARE `State.processTx`,
          for every state.  No mismatch was found between the pieces and `processTx`.
  PART 2  `whole_shape`, `dispatch_at`, `tail_at` (+ the definitions above them): the dumped function is `prefix ++ [dispatch] ++ tail`, the
          branch bodies of `dispatch` are the region blocks (`__standby`, `__transmit_cf`), the `while` body contains
          `before_start ++ [try start_tx except BadGeneratorError: handler]`.  All by `rfl`: they break when the source changes shape.
  PART 3  `process_tx_agrees` : the whole function in the SECOND (fuelled) semantics `run2`, for every state `s` and every fuel
          `≥ |s.txQueue| + 40`: returns the model's report in an environment that represents the model's new state when the model does not
          set `exc`; raises the model's exception (`AttributeError` / `ValueError` / `AssertionError`) when it does.
          Ingredients: `exec2B_congr` (a run that never calls the four names added to `txM` is the same with `txM2`), `lift_ok` / `lift_exc`
          (region theorem -> second semantics, through Exec2Bridge), `exec2B_append`, `execBlock_keeps` (the queue key survives the early
          `return`s of the prefix), `start_tx_badGen` (the environment at the point where `consume` raises), `loop_agrees` (the
          `while read_tx_queue` loop = `State.readTxQueue`, by induction on the queue), `dispatch_agrees`.

  Representation: `Rep2 env s` = `Rep env s` of LayerTx.lean + the history key `#tx_queue` (`txqScs s.txQueue`: every queued request with its
  generator, as scalars).  Primitives: `txM2 s` = `txM s` + `self.tx_queue.empty()`, `self.active_send_request = self.tx_queue.get()`,
  `self.active_send_request.complete(ok)`, and `__caught__` (the exception object bound by `except BadGeneratorError as e`).

  Hypotheses of `process_tx_agrees`, and why:
  * `s.exc = none`                       the model's `processTx` stops at its end when `exc` is set, whatever set it;
  * `hL` (`FcLoc`), `hsd`, `hod`         the attributes of the objects held by a LOCAL or an attribute (`flow_control_frame.flow_status`,
                                         `self.tx_standby_msg.data`, `output_msg.data`): the interpreter's environment is flat (a dotted path is
                                         a key), an assignment `x = obj` does not bind `x.attr`; LayerTx's `prefix_agrees`, `standby_agrees`,
                                         `tail_agrees` take them as hypotheses, so does this theorem (`hod`: about the message the MODEL emits);
  * `txSeq < 16`, `8 ≤ txDl ≤ 64`, `consumed ≤ size` (active request and queued ones)   the invariants the region theorems need;
  * `r.instr = false` for queued `r`     see `badGen_pull_lost`: when `consume` raises `BadGeneratorError` the model still records the pull
                                         event of an instrumented generator, the failing primitive cannot.
-/
set_option linter.unusedSimpArgs false
set_option linter.unusedSectionVars false

namespace Isotp.PyAgree
open Isotp Isotp.Py Isotp.PyAgree.Tx

/-! ## PART 1. the pieces of LayerTx.lean, composed, are `State.processTx` -/
def dispatchM (s : State) (allowed : Nat) : State × Option CanMsg × Bool :=
  match s.txState with
  | .idle => ((s.readTxQueue allowed s.txQueue).1, (s.readTxQueue allowed s.txQueue).2, false)
  | .sfStandby | .ffStandby => ((standbyM s allowed).1, (standbyM s allowed).2, false)
  | .waitFc => (s, none, false)
  | .transmitCf => s.transmitCf allowed

def finishM (r : State × Option CanMsg × Bool) : State × Option CanMsg × Bool :=
  if r.1.exc.isSome then (r.1, none, false) else tailM r.1 r.2.1 r.2.2

/-- how a `PrefixOut` that is not `.next` reads as a result of `processTx` -/
def prefixFin (k : State → State × Option CanMsg × Bool) : PrefixOut → State × Option CanMsg × Bool
  | .raised s' e => (s'.raise e, none, false)
  | .ret s' out imm => (s', out, imm)
  | .next s' => k s'

def processTxD (s : State) : State × Option CanMsg × Bool :=
  prefixFin (fun s' => finishM (dispatchM s' (s.rl.allowedBytes s.cfg.rlBitMax))) (prefixR s)

/-- the text of `State.processTx`: the dispatch on `tx_state` and what follows -/
def ptx4 (allowed : Nat) (s : State) : State × Option CanMsg × Bool :=
      let (s, out, imm) : State × Option CanMsg × Bool :=
        match s.txState with
        | .idle =>
          let (s, out) := s.readTxQueue allowed s.txQueue
          (s, out, false)
        | .sfStandby | .ffStandby =>
          match s.standby with
          | some msg =>
            if msg.data.length ≤ allowed then
              let s := { s with standby := none }
              if s.txState = .ffStandby then
                (({ s.startRxFcTimer with txState := .waitFc }), some msg, false)
              else (s.stopSending true, some msg, false)
            else (s, none, false)
          | none => (s, none, false)
        | .waitFc => (s, none, false)
        | .transmitCf => s.transmitCf allowed
      if s.exc.isSome then (s, none, false) else
      match out with
      | some msg => ({ s with rl := s.rl.inform s.now msg.data.length }, some msg, imm)
      | none => (s, none, imm)

/-- ... from the "no transmission in progress" check on -/
def ptx3b (allowed : Nat) (s : State) : State × Option CanMsg × Bool :=
      if s.txState ≠ .idle && s.active.isNone then (s.raise .AssertionError, none, false) else
      ptx4 allowed (if s.txState ≠ .idle && (match s.active with | some r => r.depleted | none => false) && s.standby.isNone
               then s.stopSending true else s)

/-- ... after the Flow Control handling -/
def ptx3 (allowed : Nat) (s : State) : State × Option CanMsg × Bool :=
      ptx3b allowed (if s.timerFc.timedOut s.now then (s.error .FlowControlTimeout).stopSending false else s)

/-- ... after the pending Flow Control part -/
def ptx2 (allowed : Nat) (s : State) : State × Option CanMsg × Bool :=
    let fc := s.lastFc
    let s := { s with lastFc := none }
    match (match fc with
      | some f => if f.status = 2 then (((s.stopSending false).error .Overflow), true) else (s.handleFc f, false)
      | none => (s, false)) with
    | (s, true) => (s, none, false)
    | (s, false) => ptx3 allowed s

def ptx1 (s : State) : State × Option (Option CanMsg) :=
    if s.pendingFc then
      let s := { s with pendingFc := false }
      match s.pendingFcStatus with
      | none => (s.raise .AttributeError, some none)
      | some st =>
        let s := if st = 0 then s.startRxCfTimer else s
        if !s.cfg.listen then
          match makeFlowControl s.cfg s.addr st with
          | none => (s.raise .ValueError, some none)
          | some msg => (s, some (some msg))
        else (s, none)
    else (s, none)

theorem processTx_stages (s : State) :
    s.processTx = (match ptx1 s with
      | (s', some none) => (s', none, false)
      | (s', some (some msg)) => (s', some msg, true)
      | (s', none) => ptx2 (s.rl.allowedBytes s.cfg.rlBitMax) s') := rfl

theorem dispatch_eq (allowed : Nat) (s : State) :
    (match s.txState with
        | .idle =>
          let (s, out) := s.readTxQueue allowed s.txQueue
          (s, out, false)
        | .sfStandby | .ffStandby =>
          match s.standby with
          | some msg =>
            if msg.data.length ≤ allowed then
              let s := { s with standby := none }
              if s.txState = .ffStandby then
                (({ s.startRxFcTimer with txState := .waitFc }), some msg, false)
              else (s.stopSending true, some msg, false)
            else (s, none, false)
          | none => (s, none, false)
        | .waitFc => (s, none, false)
        | .transmitCf => s.transmitCf allowed : State × Option CanMsg × Bool) = dispatchM s allowed := by
  unfold dispatchM standbyM
  cases s.txState <;> simp only
  all_goals (cases s.standby <;> simp only <;> repeat' split) <;> rfl

theorem ptx4_eq (allowed : Nat) (s : State) : ptx4 allowed s = finishM (dispatchM s allowed) := by
  unfold ptx4
  simp only [dispatch_eq]
  unfold finishM tailM
  rcases dispatchM s allowed with ⟨a, b, c⟩
  simp only
  split
  · rfl
  · cases b <;> rfl

theorem ptx3b_eq (allowed : Nat) (t : State) :
    ptx3b allowed t = prefixFin (fun s' => finishM (dispatchM s' allowed)) (deplM t) := by
  unfold ptx3b deplM
  split
  · rfl
  · rw [ptx4_eq]; rfl

theorem ptx3_eq (allowed : Nat) (s : State) :
    ptx3 allowed s = prefixFin (fun s' => finishM (dispatchM s' allowed)) (deplM (timeoutM s)) :=
  ptx3b_eq allowed (timeoutM s)

theorem ptx2_eq (allowed : Nat) (s : State) :
    ptx2 allowed s = prefixFin (ptx3 allowed) (fcM { s with lastFc := none } s.lastFc) := by
  unfold ptx2 fcM
  cases s.lastFc with
  | none => rfl
  | some f =>
    simp only
    by_cases h : f.status = 2
    · simp only [h, if_true]; rfl
    · simp only [h, if_false]; rfl

theorem ptx1_eq (s : State) :
    ptx1 s = (match pendM s with
      | .raised s' e => (s'.raise e, some none)
      | .ret s' out _ => (s', some out)
      | .next s' => (s', none)) := by
  unfold ptx1 pendM
  by_cases hp : s.pendingFc = true
  · simp only [hp, if_true]
    cases s.pendingFcStatus with
    | none => rfl
    | some st =>
      simp only
      by_cases h0 : st = 0
      · simp only [h0, if_true, State.startRxCfTimer]
        cases s.cfg.listen with
        | true => rfl
        | false =>
          simp only [Bool.not_false, if_true]
          cases makeFlowControl s.cfg s.addr 0 <;> rfl
      · simp only [h0, if_false]
        cases s.cfg.listen with
        | true => rfl
        | false =>
          simp only [Bool.not_false, if_true]
          cases makeFlowControl s.cfg s.addr st <;> rfl
  · simp only [hp]; rfl

theorem pendM_ret {s s' : State} {out : Option CanMsg} {imm : Bool} (h : pendM s = .ret s' out imm) :
    (∃ m, out = some m) ∧ imm = true := by
  unfold pendM at h
  by_cases hp : s.pendingFc = true
  · simp only [hp, if_true] at h
    cases hst : s.pendingFcStatus with
    | none => simp [hst] at h
    | some st =>
      simp only [hst] at h
      repeat' split at h
      all_goals first | (cases h; exact ⟨⟨_, rfl⟩, rfl⟩) | (cases h)
  · simp only [hp, Bool.false_eq_true, if_false] at h; cases h

/-- **PART 1**: the model-side pieces of LayerTx.lean (`prefixR`, `State.readTxQueue`, `standbyM`, `State.transmitCf`, `tailM`), composed,
    ARE `State.processTx` -/
theorem processTx_decomposed (s : State) : s.processTx = processTxD s := by
  rw [processTx_stages, ptx1_eq]
  unfold processTxD prefixR
  cases hp : pendM s with
  | raised s' e => rfl
  | ret s' out imm =>
    obtain ⟨⟨m, rfl⟩, rfl⟩ := pendM_ret hp
    rfl
  | next s1 =>
    simp only
    rw [ptx2_eq]
    cases hf : fcM { s1 with lastFc := none } s1.lastFc with
    | raised s' e => rfl
    | ret s' out imm => rfl
    | next s2 =>
      simp only [prefixFin]
      rw [ptx3_eq]
      rfl

/-! ## PART 2. the region blocks are sub-terms of the whole function -/

def appendB : PBlock → PBlock → PBlock
  | .nil, b => b
  | .cons s r, b => .cons s (appendB r b)

def lenB : PBlock → Nat
  | .nil => 0
  | .cons _ r => lenB r + 1

abbrev WHOLE : PBlock := Src.TransportLayerLogic_p_process_tx

def handlerB : PBlock :=
  .cons (.assign "e" (.call "__caught__" .nil))
  (.cons (.expr (.call "self._trigger_error" (.cons (.var "e") .nil)))
  (.cons (.expr (.call "self._stop_sending#success" (.cons .ff .nil))) .nil))

def skipB : PBlock :=
  .cons (.assign "read_tx_queue" .tt)
  (.cons (.expr (.call "self.active_send_request.complete" (.cons .tt .nil)))
  (.cons (.assign "self.active_send_request" .none) .nil))

def tryS : PStmt := .tryCatch ST "BadGeneratorError" handlerB
def startB : PBlock := appendB BS (.cons tryS .nil)
def deplCond : PExpr := .call "self.active_send_request.generator.depleted" .nil
def dequeueB : PBlock :=
  .cons (.expr (.call "self.active_send_request:=self.tx_queue.get" .nil)) (.cons (.ite deplCond skipB startB) .nil)
def emptyCond : PExpr := .not_ (.call "self.tx_queue.empty" .nil)
def loopBody : PBlock := .cons (.assign "read_tx_queue" .ff) (.cons (.ite emptyCond dequeueB .nil) .nil)
def loopS : PStmt := .while_ (.var "read_tx_queue") loopBody
def idleB : PBlock := .cons (.assign "read_tx_queue" .tt) (.cons loopS .nil)

def isIdleC : PExpr := .cmp .eq (.var "self.tx_state") (.var "self.TxState.IDLE")
def isStandbyC : PExpr := .cmp .isIn (.var "self.tx_state")
  (.lst (.cons (.var "self.TxState.TRANSMIT_SF_STANDBY") (.cons (.var "self.TxState.TRANSMIT_FF_STANDBY") .nil)))
def isWaitFcC : PExpr := .cmp .eq (.var "self.tx_state") (.var "self.TxState.WAIT_FC")
def isTcfC : PExpr := .cmp .eq (.var "self.tx_state") (.var "self.TxState.TRANSMIT_CF")

def tcfS : PStmt := .ite isTcfC TCF .nil
def waitS : PStmt := .ite isWaitFcC (.cons .pass .nil) (.cons tcfS .nil)
def standbyS : PStmt := .ite isStandbyC Src.TransportLayerLogic_p_process_tx__standby (.cons waitS .nil)
def dispatchS : PStmt := .ite isIdleC idleB (.cons standbyS .nil)

theorem whole_shape : WHOLE = appendB PRE (.cons dispatchS TAIL) := rfl
/-- the dispatch is statement 9 of the function, the tail is what follows it -/
theorem dispatch_at : nth WHOLE 9 = dispatchS := rfl
theorem tail_at : Tx.drop WHOLE 10 = TAIL := rfl
theorem lenB_PRE : lenB PRE = 9 := rfl

/-! ## PART 3. the whole function in the second semantics -/

/-! ## 3a. extending the primitives: a run that never calls the new names is unchanged -/

mutual
/-- no call to a name of `bad` -/
def avoidsE (bad : List String) : PExpr → Bool
  | .var _ => true
  | .int _ => true
  | .tt => true
  | .ff => true
  | .none => true
  | .strLit _ => true
  | .binop _ a b => avoidsE bad a && avoidsE bad b
  | .cmp _ a b => avoidsE bad a && avoidsE bad b
  | .isNone e => avoidsE bad e
  | .isNotNone e => avoidsE bad e
  | .and_ a b => avoidsE bad a && avoidsE bad b
  | .or_ a b => avoidsE bad a && avoidsE bad b
  | .not_ e => avoidsE bad e
  | .ifexp c t e => avoidsE bad c && avoidsE bad t && avoidsE bad e
  | .lst xs => avoidsA bad xs
  | .index e i => avoidsE bad e && avoidsE bad i
  | .sliceFrom e lo => avoidsE bad e && avoidsE bad lo
  | .sliceTo e hi => avoidsE bad e && avoidsE bad hi
  | .slice e lo hi => avoidsE bad e && avoidsE bad lo && avoidsE bad hi
  | .call fn args => decide (fn ∉ bad) && avoidsA bad args
def avoidsA (bad : List String) : PArgs → Bool
  | .nil => true
  | .cons e rest => avoidsE bad e && avoidsA bad rest
end

mutual
def avoidsS (bad : List String) : PStmt → Bool
  | .assign _ e => avoidsE bad e
  | .ret e => avoidsE bad e
  | .retNone => true
  | .raise _ => true
  | .assert_ e => avoidsE bad e
  | .ite c t e => avoidsE bad c && avoidsB bad t && avoidsB bad e
  | .expr e => avoidsE bad e
  | .pass => true
  | .unsupported _ => true
  | .tryExcept b h => avoidsB bad b && avoidsB bad h
  | .while_ c b => avoidsE bad c && avoidsB bad b
  | .tryCatch b _ h => avoidsB bad b && avoidsB bad h
  | .break_ => true
  | .tryFinally b f => avoidsB bad b && avoidsB bad f
def avoidsB (bad : List String) : PBlock → Bool
  | .nil => true
  | .cons s rest => avoidsS bad s && avoidsB bad rest
end

/-- `M'` gives every name outside `bad` the meaning `M` gives it -/
structure AgreeOff (bad : List String) (M M' : Meths) : Prop where
  fn : ∀ n, n ∉ bad → ∀ a e, M'.fn n a e = M.fn n a e
  proc : ∀ n, n ∉ bad → ∀ a e, M'.proc n a e = M.proc n a e

section congr
variable {bad : List String} {M M' : Meths} (h : AgreeOff bad M M')
include h

mutual
theorem eval_congr (env : Env) : ∀ e : PExpr, avoidsE bad e = true → eval M' env e = eval M env e
  | .var _, _ => by simp only [eval]
  | .int _, _ => by simp only [eval]
  | .tt, _ => by simp only [eval]
  | .ff, _ => by simp only [eval]
  | .none, _ => by simp only [eval]
  | .strLit _, _ => by simp only [eval]
  | .binop _ a b, ha => by
    simp only [avoidsE, Bool.and_eq_true] at ha
    simp only [eval, eval_congr env a ha.1, eval_congr env b ha.2]
  | .cmp _ a b, ha => by
    simp only [avoidsE, Bool.and_eq_true] at ha
    simp only [eval, eval_congr env a ha.1, eval_congr env b ha.2]
  | .isNone e, ha => by
    simp only [avoidsE] at ha
    simp only [eval, eval_congr env e ha]
  | .isNotNone e, ha => by
    simp only [avoidsE] at ha
    simp only [eval, eval_congr env e ha]
  | .and_ a b, ha => by
    simp only [avoidsE, Bool.and_eq_true] at ha
    simp only [eval, eval_congr env a ha.1, eval_congr env b ha.2]
  | .or_ a b, ha => by
    simp only [avoidsE, Bool.and_eq_true] at ha
    simp only [eval, eval_congr env a ha.1, eval_congr env b ha.2]
  | .not_ e, ha => by
    simp only [avoidsE] at ha
    simp only [eval, eval_congr env e ha]
  | .ifexp c t e, ha => by
    simp only [avoidsE, Bool.and_eq_true] at ha
    simp only [eval, eval_congr env c ha.1.1, eval_congr env t ha.1.2, eval_congr env e ha.2]
  | .lst xs, ha => by
    simp only [avoidsE] at ha
    simp only [eval, evalArgs_congr env xs ha]
  | .index e i, ha => by
    simp only [avoidsE, Bool.and_eq_true] at ha
    simp only [eval, eval_congr env e ha.1, eval_congr env i ha.2]
  | .sliceFrom e i, ha => by
    simp only [avoidsE, Bool.and_eq_true] at ha
    simp only [eval, eval_congr env e ha.1, eval_congr env i ha.2]
  | .sliceTo e i, ha => by
    simp only [avoidsE, Bool.and_eq_true] at ha
    simp only [eval, eval_congr env e ha.1, eval_congr env i ha.2]
  | .slice e lo hi, ha => by
    simp only [avoidsE, Bool.and_eq_true] at ha
    simp only [eval, eval_congr env e ha.1.1, eval_congr env lo ha.1.2, eval_congr env hi ha.2]
  | .call fn args, ha => by
    simp only [avoidsE, Bool.and_eq_true, decide_eq_true_eq] at ha
    simp only [eval, evalArgs_congr env args ha.2, h.fn fn ha.1]
theorem evalArgs_congr (env : Env) : ∀ a : PArgs, avoidsA bad a = true → evalArgs M' env a = evalArgs M env a
  | .nil, _ => by simp only [evalArgs]
  | .cons e rest, ha => by
    simp only [avoidsA, Bool.and_eq_true] at ha
    simp only [evalArgs, eval_congr env e ha.1, evalArgs_congr env rest ha.2]
end

/-- a simple statement -/
theorem execStmt_congr (env : Env) (s : PStmt) (hs : isSimple s = true) (ha : avoidsS bad s = true) :
    execStmt M' env s = execStmt M env s := by
  cases s with
  | assign t e => simp only [avoidsS] at ha; simp only [execStmt, eval_congr h env e ha]
  | ret e => simp only [avoidsS] at ha; simp only [execStmt, eval_congr h env e ha]
  | retNone => simp only [execStmt]
  | raise c => simp only [execStmt]
  | assert_ e => simp only [avoidsS] at ha; simp only [execStmt, eval_congr h env e ha]
  | pass => simp only [execStmt]
  | unsupported w => simp only [execStmt]
  | expr e =>
    simp only [avoidsS] at ha
    cases e with
    | call fn args =>
      simp only [avoidsE, Bool.and_eq_true, decide_eq_true_eq] at ha
      simp only [execStmt, evalArgs_congr h env args ha.2, h.proc fn ha.1]
    | _ => simp only [execStmt, eval_congr h env _ ha]
  | ite _ _ _ => simp [isSimple] at hs
  | tryExcept _ _ => simp [isSimple] at hs
  | while_ _ _ => simp [isSimple] at hs
  | tryCatch _ _ _ => simp [isSimple] at hs
  | break_ => simp [isSimple] at hs
  | tryFinally _ _ => simp [isSimple] at hs

theorem exec2_congr : ∀ n : Nat,
    (∀ (env : Env) (s : PStmt), avoidsS bad s = true → exec2S n M' env s = exec2S n M env s) ∧
    (∀ (env : Env) (b : PBlock), avoidsB bad b = true → exec2B n M' env b = exec2B n M env b)
  | 0 => ⟨fun env s _ => by rw [exec2S_zero, exec2S_zero], fun env b _ => by rw [exec2B_zero, exec2B_zero]⟩
  | n + 1 => by
    obtain ⟨ihS, ihB⟩ := exec2_congr n
    constructor
    · intro env s ha
      cases s with
      | ite c t e =>
        simp only [avoidsS, Bool.and_eq_true] at ha
        rw [exec2S_ite, exec2S_ite, eval_congr h env c ha.1.1, ihB env t ha.1.2, ihB env e ha.2]
      | tryExcept body handler =>
        simp only [avoidsS, Bool.and_eq_true] at ha
        rw [exec2S_tryExcept, exec2S_tryExcept, ihB env body ha.1]
        simp only [fun env1 => ihB env1 handler ha.2]
      | tryCatch body cls handler =>
        simp only [avoidsS, Bool.and_eq_true] at ha
        rw [exec2S_tryCatch, exec2S_tryCatch, ihB env body ha.1]
        simp only [fun env1 => ihB env1 handler ha.2]
      | while_ c body =>
        have ha' := ha
        simp only [avoidsS, Bool.and_eq_true] at ha
        rw [exec2S_while, exec2S_while, eval_congr h env c ha.1, ihB env body ha.2]
        simp only [fun env1 => ihS env1 (.while_ c body) ha']
      | break_ => rfl
      | tryFinally body fin =>
        simp only [avoidsS, Bool.and_eq_true] at ha
        have e1 : ∀ (X : Meths), exec2S (n + 1) X env (.tryFinally body fin) =
            (match exec2B n X env body with
             | .error e => .error e
             | .ok o =>
               match exec2B n X o.env fin with
               | .ok (.next env2) => .ok (o.setEnv env2)
               | r => r) := fun _ => rfl
        rw [e1, e1, ihB env body ha.1]
        simp only [fun env1 => ihB env1 fin ha.2]
      | assign t e => rw [exec2S_simple _ _ _ _ rfl, exec2S_simple _ _ _ _ rfl, simple2, simple2, execStmt_congr h env _ rfl ha]
      | ret e => rw [exec2S_simple _ _ _ _ rfl, exec2S_simple _ _ _ _ rfl, simple2, simple2, execStmt_congr h env _ rfl ha]
      | retNone => rw [exec2S_simple _ _ _ _ rfl, exec2S_simple _ _ _ _ rfl, simple2, simple2, execStmt_congr h env _ rfl ha]
      | raise c => rw [exec2S_simple _ _ _ _ rfl, exec2S_simple _ _ _ _ rfl, simple2, simple2, execStmt_congr h env _ rfl ha]
      | assert_ e => rw [exec2S_simple _ _ _ _ rfl, exec2S_simple _ _ _ _ rfl, simple2, simple2, execStmt_congr h env _ rfl ha]
      | expr e => rw [exec2S_simple _ _ _ _ rfl, exec2S_simple _ _ _ _ rfl, simple2, simple2, execStmt_congr h env _ rfl ha]
      | pass => rw [exec2S_simple _ _ _ _ rfl, exec2S_simple _ _ _ _ rfl, simple2, simple2, execStmt_congr h env _ rfl ha]
      | unsupported w => rw [exec2S_simple _ _ _ _ rfl, exec2S_simple _ _ _ _ rfl, simple2, simple2, execStmt_congr h env _ rfl ha]
    · intro env b ha
      cases b with
      | nil => rfl
      | cons s rest =>
        simp only [avoidsB, Bool.and_eq_true] at ha
        rw [exec2B_cons, exec2B_cons, ihS env s ha.1]
        simp only [fun env1 => ihB env1 rest ha.2]

theorem exec2B_congr (n : Nat) (env : Env) (b : PBlock) (ha : avoidsB bad b = true) : exec2B n M' env b = exec2B n M env b :=
  (exec2_congr h n).2 env b ha
end congr
/-! ## 3b. the transmit queue and the four primitives `_process_tx` needs besides those of `txM` -/

def tatSc : Tat → Sc
  | .physical => .enum "TargetAddressType" "Physical"
  | .functional => .enum "TargetAddressType" "Functional"

theorem tatPV_sc (t : Tat) : tatPV t = .sc (tatSc t) := by cases t <;> rfl

/-- one queued `SendRequest` (with its generator) as scalars: six fields, then what the generator will still yield (length first) -/
def reqScs (r : Req) : List Sc :=
  [.py (.int r.id), .py (.int r.size), .py (.int r.consumed), .py (.bool r.depletedFlag), tatSc r.tat, .py (.bool r.instr),
   .py (.int r.src.length)] ++ r.src.map (fun b => Sc.py (.int b.toNat))

/-- the queue `self.tx_queue`, as ONE list of scalars (history key `#tx_queue`) -/
def txqScs : List Req → List Sc
  | [] => []
  | r :: q => reqScs r ++ txqScs q

def scByte' : Sc → Option UInt8
  | .py (.int (.ofNat k)) => some (UInt8.ofNat k)
  | _ => none

def takeBytes' : Nat → List Sc → Option (Bytes × List Sc)
  | 0, xs => some ([], xs)
  | _ + 1, [] => none
  | n + 1, x :: xs =>
    match scByte' x, takeBytes' n xs with
    | some b, some (p, r) => some (b :: p, r)
    | _, _ => none

theorem takeBytes'_encoded (p : Bytes) (tail : List Sc) :
    takeBytes' p.length (p.map (fun b => Sc.py (.int b.toNat)) ++ tail) = some (p, tail) := by
  induction p with
  | nil => rfl
  | cons b p ih =>
    show (match scByte' (Sc.py (.int b.toNat)), takeBytes' p.length (p.map (fun b => Sc.py (.int b.toNat)) ++ tail) with
      | some b, some (p, r) => some (b :: p, r)
      | _, _ => none) = _
    rw [ih]
    show some (UInt8.ofNat b.toNat :: p, tail) = _
    rw [UInt8.ofNat_toNat]

/-- the first request of an encoded queue, and the rest of the queue -/
def headReq : List Sc → Option (Req × List Sc)
  | .py (.int (.ofNat id)) :: .py (.int (.ofNat sz)) :: .py (.int (.ofNat c)) :: .py (.bool d) :: t :: .py (.bool i) ::
      .py (.int (.ofNat n)) :: rest =>
    (match takeBytes' n rest with
     | some (src, rest') =>
       some ({ id := id, size := sz, src := src, consumed := c, depletedFlag := d,
               tat := if t = tatSc .functional then .functional else .physical, instr := i }, rest')
     | none => none)
  | _ => none

theorem headReq_encoded (r : Req) (q : List Req) : headReq (txqScs (r :: q)) = some (r, txqScs q) := by
  have e : txqScs (r :: q) =
      .py (.int (.ofNat r.id)) :: .py (.int (.ofNat r.size)) :: .py (.int (.ofNat r.consumed)) :: .py (.bool r.depletedFlag) ::
        tatSc r.tat :: .py (.bool r.instr) :: .py (.int (.ofNat r.src.length)) ::
        (r.src.map (fun b => Sc.py (.int b.toNat)) ++ txqScs q) := rfl
  rw [e]
  simp only [headReq, takeBytes'_encoded]
  rcases r with ⟨id, size, src, consumed, depletedFlag, tat, instr⟩
  cases tat <;> simp [tatSc]

theorem txqScs_isEmpty (q : List Req) : (txqScs q).isEmpty = q.isEmpty := by
  cases q with
  | nil => rfl
  | cons r q => rfl

/-- `self.tx_queue.empty()` -/
def qEmptyP (env : Env) : Except PErr PV :=
  match env "#tx_queue" with
  | some (.list xs) => .ok (pbool xs.isEmpty)
  | _ => .error (.exc .AttributeError)

/-- the attributes of the request object `self.active_send_request` is bound to -/
def setReq (r : Req) (env : Env) : Env :=
  ((((((((env.set "self.active_send_request" (.meth "req")).set "self.active_send_request.target_address_type" (tatPV r.tat)).set
    "self.active_send_request.generator._size" (pint r.size)).set
    "self.active_send_request.generator._consumed" (pint r.consumed)).set
    "self.active_send_request.generator._depleted" (pbool r.depletedFlag)).set "#gen.src" (.bytes r.src)).set
    "#req.id" (pint r.id)).set "#req.instr" (pbool r.instr))

/-- `self.active_send_request = self.tx_queue.get()`: the head of the queue leaves it and becomes the active request.
    (On an empty queue `Queue.get()` blocks forever: no result; the source only calls it after `not self.tx_queue.empty()`.) -/
def getP (env : Env) : Except PErr Env :=
  match env "#tx_queue" with
  | some (.list xs) =>
    (match xs with
     | [] => .error (.unsupported "Queue.get() on an empty queue: blocks forever")
     | _ => match headReq xs with
            | some (r, rest) => .ok (setReq r (env.set "#tx_queue" (.list rest)))
            | none => .error (.unsupported "malformed #tx_queue"))
  | _ => .error (.exc .AttributeError)

/-- `self.active_send_request.complete(ok)`: the completion is recorded in the history (as `stopP` records it) -/
def completeP (ok : Bool) (env : Env) : Except PErr Env :=
  match env "self.active_send_request", env "#req.id", env "#log" with
  | some (.meth _), some (.sc (.py (.int id))), some (.list h) =>
    .ok (env.set "#log" (.list (h ++ [.py (.int 1), .py (.int id), .py (.bool ok)])))
  | _, _, _ => .error (.exc .AttributeError)

/-- the names added to `txM` -/
def newNames : List String :=
  ["self.tx_queue.empty", "__caught__", "self.active_send_request:=self.tx_queue.get", "self.active_send_request.complete"]

def txFn2 (c : Cfg) (a : Addr) (now : Nat) (rl : Limiter) (name : String) (args : List PV) (env : Env) : Except PErr PV :=
  match name, args with
  | "self.tx_queue.empty", [] => qEmptyP env
  /- the exception object bound by `except BadGeneratorError as e` (the only typed handler of `_process_tx`): the value
     `isotp.errors.BadGeneratorError(...)` has in `txFn` -/
  | "__caught__", [] => .ok (pint (errCode .BadGenerator))
  | n, as => txFn c a now rl n as env

def txProc2 (c : Cfg) (now : Nat) (rl : Limiter) (name : String) (args : List PV) (env : Env) : Except PErr Env :=
  match name, args with
  | "self.active_send_request:=self.tx_queue.get", [] => getP env
  | "self.active_send_request.complete", [.sc (.py (.bool ok))] => completeP ok env
  | n, as => txProc c now rl n as env

def txMeths2 (c : Cfg) (a : Addr) (now : Nat) (rl : Limiter) : Meths where
  fn := txFn2 c a now rl
  proc := txProc2 c now rl

/-- the primitives of `_process_tx` in state `s`: those of `txM s`, and the queue / the caught exception -/
abbrev txM2 (s : State) : Meths := txMeths2 s.cfg s.addr s.now s.rl


section lookups
variable (c : Cfg) (a : Addr) (now : Nat) (rl : Limiter) (env : Env)
theorem fn2_empty : (txMeths2 c a now rl).fn "self.tx_queue.empty" [] env = qEmptyP env := rfl
theorem fn2_caught : (txMeths2 c a now rl).fn "__caught__" [] env = .ok (pint (errCode .BadGenerator)) := rfl
theorem proc2_get : (txMeths2 c a now rl).proc "self.active_send_request:=self.tx_queue.get" [] env = getP env := rfl
theorem proc2_complete (ok : Bool) :
    (txMeths2 c a now rl).proc "self.active_send_request.complete" [pbool ok] env = completeP ok env := rfl
end lookups

theorem txM2_agrees (s : State) : AgreeOff newNames (txM s) (txM2 s) := by
  constructor
  · intro n hn a e
    simp only [newNames, List.mem_cons, List.not_mem_nil, or_false, not_or] at hn
    show txFn2 _ _ _ _ n a e = txFn _ _ _ _ n a e
    unfold txFn2
    split <;> simp_all
  · intro n hn a e
    simp only [newNames, List.mem_cons, List.not_mem_nil, or_false, not_or] at hn
    show txProc2 _ _ _ n a e = txProc _ _ _ n a e
    unfold txProc2
    split <;> simp_all

/-! ## 3c. stepping in the second semantics -/

theorem e2_cons_next {n : Nat} {M : Meths} {env env' : Env} {s : PStmt} {rest : PBlock}
    (h : exec2S n M env s = .ok (.next env')) : exec2B (n + 1) M env (.cons s rest) = exec2B n M env' rest := by
  rw [exec2B_cons, h]
theorem e2_cons_raised {n : Nat} {M : Meths} {env env' : Env} {s : PStmt} {rest : PBlock} {x : String}
    (h : exec2S n M env s = .ok (.raised x env')) : exec2B (n + 1) M env (.cons s rest) = .ok (.raised x env') := by
  rw [exec2B_cons, h]
theorem e2_cons_ret {n : Nat} {M : Meths} {env env' : Env} {s : PStmt} {rest : PBlock} {v : PV}
    (h : exec2S n M env s = .ok (.ret v env')) : exec2B (n + 1) M env (.cons s rest) = .ok (.ret v env') := by
  rw [exec2B_cons, h]
theorem e2_simple_ok {n : Nat} {M : Meths} {env : Env} {s : PStmt} {f : Flow} (hs : isSimple s = true)
    (h : execStmt M env s = .ok f) : exec2S (n + 1) M env s = .ok (ofFlow f) := by
  rw [exec2S_simple _ _ _ _ hs, simple2, h]
theorem e2_simple_err {n : Nat} {M : Meths} {env : Env} {s : PStmt} {e : PErr} (hs : isSimple s = true)
    (h : execStmt M env s = .error e) : exec2S (n + 1) M env s = ofPErr env e := by
  rw [exec2S_simple _ _ _ _ hs, simple2, h]
theorem e2_ite_true {n : Nat} {M : Meths} {env : Env} {c : PExpr} {t e : PBlock}
    (hc : eval M env c = .ok (pbool true)) : exec2S (n + 1) M env (.ite c t e) = exec2B n M env t := by
  rw [exec2S_ite, hc]; rfl
theorem e2_ite_false {n : Nat} {M : Meths} {env : Env} {c : PExpr} {t e : PBlock}
    (hc : eval M env c = .ok (pbool false)) : exec2S (n + 1) M env (.ite c t e) = exec2B n M env e := by
  rw [exec2S_ite, hc]; rfl

/-- a block followed by another: with `N` units of fuel left for the second -/
theorem exec2B_append (M : Meths) : ∀ (a rest : PBlock) (m N : Nat) (env : Env) (o : Out),
    exec2B m M env a = .ok o → m ≤ N →
    exec2B (N + lenB a) M env (appendB a rest) = (match o with | .next env1 => exec2B N M env1 rest | o => .ok o)
  | .nil, rest, m, N, env, o, h, hm => by
    cases m with
    | zero => rw [exec2B_zero] at h; cases h
    | succ m => rw [exec2B_nil] at h; cases h; rfl
  | .cons s a, rest, m, N, env, o, h, hm => by
    cases m with
    | zero => rw [exec2B_zero] at h; cases h
    | succ m =>
      rw [exec2B_cons] at h
      show exec2B ((N + lenB a) + 1) M env (.cons s (appendB a rest)) = _
      rw [exec2B_cons]
      cases hs : exec2S m M env s with
      | error er => rw [hs] at h; cases h
      | ok o1 =>
        rw [hs] at h
        rw [exec2S_mono_le (by omega : m ≤ N + lenB a) M env s o1 hs]
        cases o1 with
        | next env' => exact exec2B_append M a rest m N env' o h (by omega)
        | ret v e => cases h; rfl
        | raised x e => cases h; rfl
        | brk e => cases h; rfl

/-! ## 3d. what the pieces of the model leave alone -/

/-- from `s` to `s'`: the queue and the exception flag are untouched; the standby message, the sequence number and the active
    request are untouched or reset -/
structure Pres (s s' : State) : Prop where
  txQueue : s'.txQueue = s.txQueue
  exc : s'.exc = s.exc
  standby : s'.standby = s.standby ∨ s'.standby = none
  txSeq : s'.txSeq = s.txSeq ∨ s'.txSeq = 0
  active : s'.active = s.active ∨ s'.active = none

theorem Pres.refl (s : State) : Pres s s := ⟨rfl, rfl, .inl rfl, .inl rfl, .inl rfl⟩
theorem Pres.trans {a b c : State} (h1 : Pres a b) (h2 : Pres b c) : Pres a c := by
  refine ⟨h2.txQueue.trans h1.txQueue, h2.exc.trans h1.exc, ?_, ?_, ?_⟩
  · rcases h2.standby with h | h
    · rcases h1.standby with h' | h'
      · exact .inl (h.trans h')
      · exact .inr (h.trans h')
    · exact .inr h
  · rcases h2.txSeq with h | h
    · rcases h1.txSeq with h' | h'
      · exact .inl (h.trans h')
      · exact .inr (h.trans h')
    · exact .inr h
  · rcases h2.active with h | h
    · rcases h1.active with h' | h'
      · exact .inl (h.trans h')
      · exact .inr (h.trans h')
    · exact .inr h

theorem pres_error (s : State) (e : Err) : Pres s (s.error e) := ⟨rfl, rfl, .inl rfl, .inl rfl, .inl rfl⟩
theorem pres_stopSending (s : State) (ok : Bool) : Pres s (s.stopSending ok) := by
  unfold State.stopSending; cases s.active <;> exact ⟨rfl, rfl, .inr rfl, .inr rfl, by simp⟩
theorem pres_handleFc (s : State) (f : FcFrame) : Pres s (s.handleFc f) := by
  unfold State.handleFc
  repeat' (first | split | dsimp only)
  all_goals first
    | exact ⟨rfl, rfl, .inl rfl, .inl rfl, .inl rfl⟩
    | exact pres_error _ _
    | exact (pres_error _ _).trans (pres_stopSending _ _)

/-- how far `Pres` goes for a `PrefixOut` -/
def PresOut (s : State) : PrefixOut → Prop
  | .raised _ _ => True
  | .ret s' _ _ => Pres s s'
  | .next s' => Pres s s'

theorem pres_pendM (s : State) : PresOut s (pendM s) := by
  unfold pendM
  repeat' (first | split | dsimp only)
  all_goals first | trivial | exact ⟨rfl, rfl, .inl rfl, .inl rfl, .inl rfl⟩

theorem pres_fcM (s : State) (fc : Option FcFrame) : PresOut s (fcM s fc) := by
  unfold fcM
  repeat' (first | split | dsimp only)
  all_goals first
    | exact Pres.refl _
    | exact pres_handleFc _ _
    | exact (pres_stopSending _ _).trans (pres_error _ _)

theorem pres_timeoutM (s : State) : Pres s (timeoutM s) := by
  unfold timeoutM
  split
  · exact (pres_error _ _).trans (pres_stopSending _ _)
  · exact Pres.refl _

theorem pres_deplM (s : State) : PresOut s (deplM s) := by
  unfold deplM
  repeat' (first | split | dsimp only)
  all_goals first | trivial | exact Pres.refl _ | exact pres_stopSending _ _

theorem PresOut.trans {a b : State} {o : PrefixOut} (h1 : Pres a b) (h2 : PresOut b o) : PresOut a o := by
  cases o with
  | raised _ _ => trivial
  | ret s' _ _ => exact Pres.trans h1 h2
  | next s' => exact Pres.trans h1 h2

theorem pres_prefixR (s : State) : PresOut s (prefixR s) := by
  unfold prefixR
  have hp := pres_pendM s
  cases hpm : pendM s with
  | raised s' e => trivial
  | ret s' out imm => rw [hpm] at hp; exact hp
  | next s1 =>
    rw [hpm] at hp
    simp only
    have h1 : Pres s ({ s1 with lastFc := none } : State) := Pres.trans hp ⟨rfl, rfl, .inl rfl, .inl rfl, .inl rfl⟩
    have hf := pres_fcM { s1 with lastFc := none } s1.lastFc
    cases hfm : fcM { s1 with lastFc := none } s1.lastFc with
    | raised s' e => trivial
    | ret s' out imm => rw [hfm] at hf; exact Pres.trans h1 hf
    | next s2 =>
      rw [hfm] at hf
      simp only
      exact PresOut.trans (Pres.trans (Pres.trans h1 hf) (pres_timeoutM s2)) (pres_deplM _)

/-- queue and exception flag untouched, same primitives (`SameK`) -/
structure SameQ (s s' : State) : Prop where
  txQueue : s'.txQueue = s.txQueue
  exc : s'.exc = s.exc
  k : SameK s s'

theorem SameQ.refl (s : State) : SameQ s s := ⟨rfl, rfl, SameK.refl s⟩
theorem SameQ.trans {a b c : State} (h1 : SameQ a b) (h2 : SameQ b c) : SameQ a c :=
  ⟨h2.txQueue.trans h1.txQueue, h2.exc.trans h1.exc, h1.k.trans h2.k⟩

theorem sameQ_error (s : State) (e : Err) : SameQ s (s.error e) := ⟨rfl, rfl, ⟨rfl, rfl, rfl, rfl⟩⟩
theorem sameQ_stopSending (s : State) (ok : Bool) : SameQ s (s.stopSending ok) := by
  unfold State.stopSending; cases s.active <;> exact ⟨rfl, rfl, ⟨rfl, rfl, rfl, rfl⟩⟩
theorem sameQ_consumeActive (s : State) (r : Req) (n : Nat) (e : Bool) : SameQ s (s.consumeActive r n e).1 := by
  unfold State.consumeActive
  simp only
  split <;> exact ⟨rfl, rfl, ⟨rfl, rfl, rfl, rfl⟩⟩

theorem sameQ_standbyM (s : State) (allowed : Nat) : SameQ s (standbyM s allowed).1 := by
  unfold standbyM
  repeat' (first | split | dsimp only)
  all_goals first
    | exact ⟨rfl, rfl, ⟨rfl, rfl, rfl, rfl⟩⟩
    | exact SameQ.trans (b := { s with standby := none }) ⟨rfl, rfl, ⟨rfl, rfl, rfl, rfl⟩⟩ (sameQ_stopSending _ _)

theorem sameQ_tcfFrame {s s2 : State} {p : Bytes} {out : Option CanMsg} (h : tcfFrame s p = some (s2, out)) : SameQ s s2 := by
  unfold tcfFrame at h
  split at h
  · split at h
    · cases h
    · simp only [Option.some.injEq, Prod.mk.injEq] at h
      obtain ⟨rfl, -⟩ := h
      exact ⟨rfl, rfl, ⟨rfl, rfl, rfl, rfl⟩⟩
  · simp only [Option.some.injEq, Prod.mk.injEq] at h
    obtain ⟨rfl, -⟩ := h
    exact ⟨rfl, rfl, ⟨rfl, rfl, rfl, rfl⟩⟩

theorem sameQ_tcfTail (s : State) (r' : Req) (rbs : Nat) : SameQ s (tcfTail s r' rbs).1 := by
  unfold tcfTail
  repeat' (first | split | dsimp only)
  all_goals first
    | exact ⟨rfl, rfl, ⟨rfl, rfl, rfl, rfl⟩⟩
    | exact sameQ_stopSending _ _
    | exact (sameQ_error _ _).trans (sameQ_stopSending _ _)

/-- what a region outcome says about the queue and the exception flag -/
def SameQOut (s : State) : Outcome → Prop
  | .raised _ _ => True
  | .badGen s' => SameQ s s'
  | .done s' _ _ => SameQ s s'

theorem sameQ_transmitCfR (s : State) (allowed : Nat) : SameQOut s (transmitCfR s allowed) := by
  unfold transmitCfR
  cases s.remoteBs with
  | none => trivial
  | some rbs =>
    cases s.active with
    | none => trivial
    | some r =>
      simp only
      split
      · split
        · have hc := sameQ_consumeActive s r (min (s.cfg.txDl - 1 - s.txPrefixLen) r.remaining) false
          generalize s.consumeActive r (min (s.cfg.txDl - 1 - s.txPrefixLen) r.remaining) false = t at hc ⊢
          obtain ⟨s1, r', res⟩ := t
          cases res with
          | none => exact hc
          | some payload =>
            simp only
            cases hf : tcfFrame s1 payload with
            | none => trivial
            | some p =>
              obtain ⟨s2, out⟩ := p
              exact (hc.trans (sameQ_tcfFrame hf)).trans (sameQ_tcfTail _ _ _)
        · exact SameQ.refl s
      · exact SameQ.refl s

theorem sameQ_startTxR (s : State) (r : Req) (allowed : Nat) : SameQOut s (startTxR s r allowed) := by
  unfold startTxR
  simp only
  by_cases hsf : r.size + (if sizeOnFirstM s r then 1 else 2) + s.txPrefixLen ≤ s.cfg.txDl
  · simp only [hsf, if_true]
    have hc := sameQ_consumeActive s r r.size true
    generalize s.consumeActive r r.size true = t at hc ⊢
    obtain ⟨s1, r', res⟩ := t
    cases res with
    | none => exact hc
    | some payload =>
      have hc' : SameQ s s1 := hc
      simp only
      repeat' (first | split | dsimp only)
      all_goals first
        | trivial
        | exact hc'.trans ⟨rfl, rfl, ⟨rfl, rfl, rfl, rfl⟩⟩
        | exact hc'.trans (sameQ_stopSending _ _)
  · simp only [hsf, if_false]
    have hc := sameQ_consumeActive ({ s with txFrameLen := r.size } : State) r
      (if r.size ≤ 0xFFF then s.cfg.txDl - 2 - s.txPrefixLen else s.cfg.txDl - 6 - s.txPrefixLen) true
    generalize ({ s with txFrameLen := r.size } : State).consumeActive r
      (if r.size ≤ 0xFFF then s.cfg.txDl - 2 - s.txPrefixLen else s.cfg.txDl - 6 - s.txPrefixLen) true = t at hc ⊢
    obtain ⟨s1, r', res⟩ := t
    have hc' : SameQ s s1 := SameQ.trans (b := { s with txFrameLen := r.size }) ⟨rfl, rfl, ⟨rfl, rfl, rfl, rfl⟩⟩ hc
    cases res with
    | none => exact hc'
    | some payload =>
      simp only
      repeat' (first | split | dsimp only)
      all_goals first
        | trivial
        | exact hc'.trans ⟨rfl, rfl, ⟨rfl, rfl, rfl, rfl⟩⟩

/-- `State.readTxQueue`, with the way it ends made explicit (`BadGeneratorError` is caught inside the loop) -/
def readTxQueueR (s : State) (allowed : Nat) : List Req → Outcome
  | [] => .done { s with txQueue := [] } none false
  | r :: rest =>
    if r.depleted then
      readTxQueueR ({ ({ s with txQueue := rest, active := some r } : State).emit (.done r.id true) with active := none }) allowed rest
    else
      match startTxR { s with txQueue := rest, active := some r } r allowed with
      | .badGen s' => .done ((s'.error .BadGenerator).stopSending false) none false
      | o => o

theorem readTxQueue_eq (allowed : Nat) : ∀ (q : List Req) (s : State),
    s.readTxQueue allowed q = startFin (readTxQueueR s allowed q)
  | [], s => rfl
  | r :: rest, s => by
    unfold State.readTxQueue readTxQueueR
    simp only
    split
    · exact readTxQueue_eq allowed rest _
    · rw [startTx_eq]
      cases startTxR { s with txQueue := rest, active := some r } r allowed <;> rfl


/-! ## 3e. the representation with the queue; the new primitives -/

/-- `env` represents the transmit side of `s` (`Rep` of LayerTx.lean) and its queue of requests -/
structure Rep2 (env : Env) (s : State) : Prop where
  rep : Rep env s
  q : env "#tx_queue" = some (.list (txqScs s.txQueue))

theorem Rep2.of_frame {env env' : Env} {s s' : State} {xs : List String} (hR : Rep2 env s) (hR' : Rep env' s')
    (hF : Frame xs env env') (hx : "#tx_queue" ∉ xs) (hq : s'.txQueue = s.txQueue) : Rep2 env' s' :=
  ⟨hR', by rw [hF _ (by decide) hx, hq]; exact hR.q⟩

theorem qEmptyP_rep {env : Env} {s : State} (hR : Rep2 env s) : qEmptyP env = .ok (pbool s.txQueue.isEmpty) := by
  unfold qEmptyP; rw [hR.q]; simp only [txqScs_isEmpty]

theorem frame_setReq (xs : List String) (r : Req) (env : Env) : Frame xs env (setReq r env) := by
  unfold setReq
  exact ((((((((Frame.refl xs env).set (.inl (by decide)) _).set (.inl (by decide)) _).set (.inl (by decide)) _).set
    (.inl (by decide)) _).set (.inl (by decide)) _).set (.inl (by decide)) _).set (.inl (by decide)) _).set (.inl (by decide)) _

theorem getP_cons {env : Env} {r : Req} {rest : List Req} (h : env "#tx_queue" = some (.list (txqScs (r :: rest)))) :
    getP env = .ok (setReq r (env.set "#tx_queue" (.list (txqScs rest)))) := by
  unfold getP; rw [h]
  have hd := headReq_encoded r rest
  have hne : txqScs (r :: rest) ≠ [] := by simp [txqScs, reqScs]
  revert hne hd
  generalize txqScs (r :: rest) = xs
  intro hd hne
  cases xs with
  | nil => exact absurd rfl hne
  | cons x xs => simp only [hd]

/-- `self.active_send_request = self.tx_queue.get()` -/
theorem getP_rep {env : Env} {s : State} {r : Req} {rest : List Req} (hR : Rep2 env s) (hq : s.txQueue = r :: rest) :
    ∃ env', getP env = .ok env' ∧ Rep2 env' { s with txQueue := rest, active := some r } ∧ Frame ["#tx_queue"] env env' := by
  refine ⟨_, getP_cons (by rw [← hq]; exact hR.q), ⟨?_, ?_⟩, ?_⟩
  · have hc := hR.rep.consts
    obtain ⟨hrep, -⟩ := hR
    cases hrep
    unfold setReq
    constructor
    case req =>
      intro r' hr'
      simp only [Option.some.injEq] at hr'
      subst hr'
      constructor <;> simp [set_get]
    case consts =>
      repeat (first | exact hc | refine ConstRep.set ?_ (by decide) _)
    all_goals simp [set_get, *, objPV]
  · rw [(frame_setReq [] r _) "#tx_queue" (by decide) (by simp)]; simp [set_get]
  · exact ((Frame.refl _ env).set (.inr (by simp)) _).trans (frame_setReq _ r _)

/-- `self.active_send_request.complete(ok)` -/
theorem completeP_rep {env : Env} {s : State} {r : Req} (hR : Rep env s) (ha : s.active = some r) (ok : Bool) :
    completeP ok env = .ok (env.set "#log" (.list (histOf s.log ++ [.py (.int 1), .py (.int r.id), .py (.bool ok)]))) := by
  have h := hR.active
  simp only [ha, Option.isSome_some, objPV, if_true] at h
  simp [completeP, h, (hR.req r ha).id, hR.log]

/-! ## 3f. lifting the region theorems (first semantics, `txM`) to the second semantics with `txM2` -/

structure Liftable (B : PBlock) : Prop where
  lf : loopFreeB B = true
  ds : dumperShapeB B = true
  av : avoidsB newNames B = true

theorem lift_PRE : Liftable PRE := ⟨rfl, rfl, rfl⟩
theorem lift_BS : Liftable BS := ⟨rfl, rfl, rfl⟩
theorem lift_ST : Liftable ST := ⟨rfl, rfl, rfl⟩
theorem lift_TCF : Liftable TCF := ⟨rfl, rfl, rfl⟩
theorem lift_TAIL : Liftable TAIL := ⟨rfl, rfl, rfl⟩
theorem lift_STANDBY : Liftable Src.TransportLayerLogic_p_process_tx__standby := ⟨rfl, rfl, rfl⟩

theorem depth_PRE : depthB PRE = 25 := rfl
theorem depth_BS : depthB BS = 5 := rfl
theorem depth_ST : depthB ST = 15 := rfl
theorem depth_TCF : depthB TCF = 18 := rfl
theorem depth_TAIL : depthB TAIL = 4 := rfl
theorem depth_STANDBY : depthB Src.TransportLayerLogic_p_process_tx__standby = 11 := rfl

theorem lift_ok {s : State} {B : PBlock} {n : Nat} {env : Env} {f : Flow} (hB : Liftable B) (hd : depthB B ≤ n)
    (h : execBlock (txM s) env B = .ok f) : exec2B n (txM2 s) env B = .ok (ofFlow f) := by
  rw [exec2B_congr (txM2_agrees s) n env B hB.av]
  exact exec2B_of_execBlock_ok _ B n env f hB.lf hB.ds hd h

theorem lift_exc {s : State} {B : PBlock} {n : Nat} {env : Env} {e : PyExc} (hB : Liftable B) (hd : depthB B ≤ n)
    (h : execBlock (txM s) env B = .error (.exc e)) : ∃ env1, exec2B n (txM2 s) env B = .ok (.raised e.name env1) := by
  rw [exec2B_congr (txM2_agrees s) n env B hB.av]
  obtain ⟨env1, h1⟩ := exec2B_of_execBlock_error _ B n env _ hB.lf hB.ds hd h (.inl rfl)
  exact ⟨env1, h1⟩


/-! ## 3g. a key nobody assigns and no primitive changes is left alone (needed for the early `return`s of the prefix, for which
    LayerTx.lean gives no frame condition) -/

mutual
def noAssignS (k : String) : PStmt → Bool
  | .assign t _ => t != k
  | .ite _ t e => noAssignB k t && noAssignB k e
  | .tryExcept b h => noAssignB k b && noAssignB k h
  | .while_ _ b => noAssignB k b
  | .tryCatch b _ h => noAssignB k b && noAssignB k h
  | _ => true
def noAssignB (k : String) : PBlock → Bool
  | .nil => true
  | .cons s r => noAssignS k s && noAssignB k r
end

def flowEnv : Flow → Env
  | .next e => e
  | .returned _ e => e

section keeps
variable (M : Meths) (k : String) (hp : ∀ n a e e', M.proc n a e = .ok e' → e' k = e k)
include hp

mutual
theorem execStmt_keeps : ∀ (s : PStmt) (env : Env) (f : Flow), noAssignS k s = true → execStmt M env s = .ok f → flowEnv f k = env k
  | .assign t e, env, f, hk, h => by
    simp only [noAssignS, bne_iff_ne, ne_eq] at hk
    simp only [execStmt] at h
    cases hv : eval M env e with
    | error er => rw [hv] at h; cases h
    | ok v =>
      rw [hv] at h
      cases h
      simp [flowEnv, Env.set, Ne.symm hk]
  | .ret e, env, f, _, h => by
    simp only [execStmt] at h
    cases hv : eval M env e with
    | error er => rw [hv] at h; cases h
    | ok v => rw [hv] at h; cases h; rfl
  | .retNone, env, f, _, h => by simp only [execStmt] at h; cases h; rfl
  | .raise c, env, f, _, h => by
    simp only [execStmt] at h
    split at h <;> cases h
  | .assert_ e, env, f, _, h => by
    simp only [execStmt] at h
    cases hv : eval M env e with
    | error er => rw [hv] at h; cases h
    | ok v =>
      rw [hv] at h
      simp only [ok_bind] at h
      cases ht : truthy v with
      | error er => rw [ht] at h; cases h
      | ok b =>
        rw [ht] at h
        simp only [ok_bind] at h
        cases b
        · cases h
        · cases h; rfl
  | .ite c t e, env, f, hk, h => by
    simp only [noAssignS, Bool.and_eq_true] at hk
    simp only [execStmt] at h
    cases hv : eval M env c with
    | error er => rw [hv] at h; cases h
    | ok v =>
      rw [hv] at h
      simp only [ok_bind] at h
      cases ht : truthy v with
      | error er => rw [ht] at h; cases h
      | ok b =>
        rw [ht] at h
        simp only [ok_bind] at h
        cases b
        · exact execBlock_keeps e env f hk.2 h
        · exact execBlock_keeps t env f hk.1 h
  | .expr e, env, f, _, h => by
    cases e with
    | call fn args =>
      simp only [execStmt] at h
      cases hv : evalArgs M env args with
      | error er => rw [hv] at h; cases h
      | ok vs =>
        rw [hv] at h
        simp only [ok_bind] at h
        cases hb : evalBuiltin fn vs with
        | some r =>
          rw [hb] at h
          cases r with
          | error er => cases h
          | ok v => cases h; rfl
        | none =>
          rw [hb] at h
          cases hq : M.proc fn vs env with
          | error er => rw [hq] at h; cases h
          | ok env' => rw [hq] at h; cases h; exact hp _ _ _ _ hq
    | _ =>
      simp only [execStmt] at h
      revert h
      generalize eval M env _ = x
      intro h
      cases x with
      | error er => cases h
      | ok v => cases h; rfl
  | .pass, env, f, _, h => by simp only [execStmt] at h; cases h; rfl
  | .unsupported w, env, f, _, h => by simp only [execStmt] at h; cases h
  | .tryExcept body handler, env, f, hk, h => by
    simp only [noAssignS, Bool.and_eq_true] at hk
    simp only [execStmt] at h
    cases hb : execBlock M env body with
    | ok f' => rw [hb] at h; cases h; exact execBlock_keeps body env f hk.1 hb
    | error er =>
      rw [hb] at h
      cases er with
      | exc x => exact execBlock_keeps handler env f hk.2 h
      | zeroDivision => cases h
      | unsupported w => cases h
  | .while_ _ _, env, f, _, h => by simp only [execStmt] at h; cases h
  | .tryCatch _ _ _, env, f, _, h => by simp only [execStmt] at h; cases h
  | .break_, env, f, _, h => by simp only [execStmt] at h; cases h
theorem execBlock_keeps : ∀ (b : PBlock) (env : Env) (f : Flow), noAssignB k b = true → execBlock M env b = .ok f → flowEnv f k = env k
  | .nil, env, f, _, h => by simp only [execBlock] at h; cases h; rfl
  | .cons s rest, env, f, hk, h => by
    simp only [noAssignB, Bool.and_eq_true] at hk
    simp only [execBlock] at h
    cases hs : execStmt M env s with
    | error er => rw [hs] at h; cases h
    | ok f1 =>
      rw [hs] at h
      have h1 := execStmt_keeps s env f1 hk.1 hs
      cases f1 with
      | next env' =>
        simp only [ok_bind] at h
        have h2 := execBlock_keeps rest env' f hk.2 h
        rw [h2]; exact h1
      | returned v env' =>
        simp only [ok_bind] at h
        cases h; exact h1
end
end keeps


theorem stopCore_q (env : Env) : stopCore env "#tx_queue" = env "#tx_queue" :=
  frame_stopCore [] env "#tx_queue" (by decide) (by simp)

theorem stopP_q {ok : Bool} {env env' : Env} (h : stopP ok env = .ok env') : env' "#tx_queue" = env "#tx_queue" := by
  unfold stopP at h
  split at h
  · cases h; exact stopCore_q env
  · split at h
    · cases h; rw [stopCore_q]; simp [set_get]
    · cases h
  · cases h

theorem consumeP_q {n : Int} {exact : Bool} {env env' : Env} (h : consumeP n exact env = .ok env') :
    env' "#tx_queue" = env "#tx_queue" := by
  unfold consumeP at h
  split at h
  · cases h
  · split at h
    · split at h
      · cases h
      · cases h; simp [set_get]
    · cases h

theorem trigP_q {now : Nat} {code : Int} {env env' : Env} (h : trigP now code env = .ok env') :
    env' "#tx_queue" = env "#tx_queue" := by
  unfold trigP at h
  split at h
  · cases h; simp [set_get]
  · cases h

/-- no primitive of `txM` touches the queue -/
theorem txProc_q (c : Cfg) (now : Nat) (rl : Limiter) (n : String) (a : List PV) (env env' : Env)
    (h : txProc c now rl n a env = .ok env') : env' "#tx_queue" = env "#tx_queue" := by
  unfold txProc at h
  split at h
  · cases h; simp [set_get]
  · cases h; simp [set_get]
  · split at h
    · cases h; simp [set_get]
    · cases h
  · exact stopP_q h
  · exact consumeP_q h
  · cases h; simp [set_get]
  · cases h; simp [set_get]
  · exact trigP_q h
  · cases h; simp [set_get]
  · cases h

theorem PRE_noAssign_q : noAssignB "#tx_queue" PRE = true := rfl

theorem PRE_keeps_q {s : State} {env : Env} {f : Flow} (h : execBlock (txM s) env PRE = .ok f) :
    flowEnv f "#tx_queue" = env "#tx_queue" :=
  execBlock_keeps (txM s) "#tx_queue" (fun n a e e' hq => txProc_q _ _ _ n a e e' hq) PRE env f PRE_noAssign_q h

/-! ## 3h. `start_tx` when the generator raises `BadGeneratorError`: the environment at the raise point
    (the first semantics, hence `start_tx_agrees`, does not keep it; the handler runs in it) -/

theorem ofPErr_badGen (env : Env) : ofPErr env (.unsupported "raise BadGeneratorError") = .ok (.raised "BadGeneratorError" env) := rfl

theorem start_tx_badGen (s : State) (env : Env) (r : Req) (allowed : Nat) (n : Nat) (hR : Rep env s) (ha : s.active = some r)
    (hoff : env "size_offset" = some (pint (if sizeOnFirstM s r then 1 else 2)))
    (hdl : 8 ≤ s.cfg.txDl ∧ s.cfg.txDl ≤ 64) (hn : 15 ≤ n) {s1 : State} (hb : startTxR s r allowed = .badGen s1) :
    ∃ env1 s0 k, exec2B n (txM s) env ST = .ok (.raised "BadGeneratorError" env1) ∧ Rep env1 s0 ∧ s0.active = some r ∧
      SameK s s0 ∧ SameQ s s0 ∧ Frame ["total_size", "encode_length_on_2_first_bytes", "data_length"] env env1 ∧
      s1 = (s0.consumeActive r k true).1 := by
  have hq := hR.req r ha
  have hpl : s.txPrefixLen ≤ 1 := txPrefix_len_le _
  obtain ⟨m, rfl⟩ : ∃ m, n = m + 15 := ⟨n - 15, by omega⟩
  rw [ST_shape]
  have h0 : execStmt (txM s) env (nth ST 0) = .ok (.next (env.set "total_size" (pint (r.size : Int)))) := by
    simp [Tx.ST, nth, Src.TransportLayerLogic_p_process_tx__start_tx, execStmt, eval, evalArgs, bi_none, fn_total, genTotal_rep hq]
  rw [e2_cons_next (e2_simple_ok rfl h0)]
  have R1 := hR.setOther (k := "total_size") (by decide) (pint (r.size : Int))
  generalize he1 : env.set "total_size" (pint (r.size : Int)) = env1 at *
  have hF1 : Frame ["total_size"] env env1 := by rw [← he1]; exact (Frame.refl _ env).set (.inr (by decide)) _
  have hts : env1 "total_size" = some (pint (r.size : Int)) := by rw [← he1]; simp [set_get]
  have hoff1 : env1 "size_offset" = some (pint (if sizeOnFirstM s r then 1 else 2)) := by
    rw [hF1 _ (by decide) (by decide)]; exact hoff
  have hc : eval (txM s) env1 (condOf (nth ST 1)) =
      .ok (pbool (decide (r.size + (if sizeOnFirstM s r then 1 else 2) + s.txPrefixLen ≤ s.cfg.txDl))) := by
    have e : ((r.size : Int) ≤ (s.cfg.txDl : Int) - (if sizeOnFirstM s r = true then 1 else 2) - (s.addr.tx.txPrefix.length : Int)) ↔
        r.size + (if sizeOnFirstM s r = true then 1 else 2) + s.txPrefixLen ≤ s.cfg.txDl := by
      unfold State.txPrefixLen; split <;> omega
    simp [Tx.ST, nth, condOf, Src.TransportLayerLogic_p_process_tx__start_tx, eval, evalArgs, hts, R1.txDl, hoff1, bi_none, fn_prefix,
      builtin_len_bytes, evalCmp_le_pint, e]
  unfold startTxR at hb
  simp only at hb
  by_cases hsf : r.size + (if sizeOnFirstM s r then 1 else 2) + s.txPrefixLen ≤ s.cfg.txDl
  · -- Single Frame
    simp only [hsf, if_true] at hb
    rw [decide_eq_true hsf] at hc
    obtain ⟨-, c2, -, -, -, -, -, -, -, -, -⟩ := consumeActive_spec s r r.size true
    rcases hca : s.consumeActive r r.size true with ⟨s1', r1, res⟩
    rw [hca] at hb c2
    simp only at hb c2
    cases res with
    | some payload =>
      exfalso
      revert hb
      simp only
      repeat' split
      all_goals (intro hb; cases hb)
    | none =>
      simp only at hb
      cases hb
      have hB0 : execStmt (txM s) env1 (nth stSF 0) = .error (.unsupported "raise BadGeneratorError") := by
        simp [stSF, Tx.ST, nth, thenOf, Src.TransportLayerLogic_p_process_tx__start_tx, execStmt, eval, evalArgs, hts,
          bi_none, proc_consume, consumeP_none R1 ha r.size true c2.symm]
      have hite : exec2S (m + 13) (txM s) env1 (.ite (condOf (nth ST 1)) stSF stFF) =
          .ok (.raised "BadGeneratorError" env1) := by
        rw [e2_ite_true hc, stSF_shape]
        exact e2_cons_raised (by rw [e2_simple_err rfl hB0]; rfl)
      rw [e2_cons_raised hite]
      refine ⟨env1, s, r.size, rfl, R1, ha, SameK.refl _, SameQ.refl _, hF1.mono (by simp), ?_⟩
      rw [hca]
  · -- First Frame
    simp only [hsf, if_false] at hb
    rw [decide_eq_false hsf] at hc
    have hC0 : execStmt (txM s) env1 (nth stFF 0) = .ok (.next (env1.set "self.tx_frame_length" (pint (r.size : Int)))) := by
      simp [stFF, Tx.ST, nth, elseOf, Src.TransportLayerLogic_p_process_tx__start_tx, execStmt, eval, hts]
    have R2 := R1.setTxFrameLen r.size
    have hC1 : execStmt (txM s) (env1.set "self.tx_frame_length" (pint (r.size : Int))) (nth stFF 1) =
        .ok (.next ((env1.set "self.tx_frame_length" (pint (r.size : Int))).set "encode_length_on_2_first_bytes"
          (pbool (decide (r.size ≤ 0xFFF))))) := by
      by_cases h12 : r.size ≤ 0xFFF
      · have h12' : (r.size : Int) ≤ 4095 := by omega
        simp [stFF, Tx.ST, nth, elseOf, Src.TransportLayerLogic_p_process_tx__start_tx, execStmt, eval, set_get, evalCmp_le_pint, h12, h12']
      · have h12' : ¬ (r.size : Int) ≤ 4095 := by omega
        simp [stFF, Tx.ST, nth, elseOf, Src.TransportLayerLogic_p_process_tx__start_tx, execStmt, eval, set_get, evalCmp_le_pint, h12, h12']
    have R3 := R2.setOther (k := "encode_length_on_2_first_bytes") (by decide) (pbool (decide (r.size ≤ 0xFFF)))
    generalize he3 : (env1.set "self.tx_frame_length" (pint (r.size : Int))).set "encode_length_on_2_first_bytes"
      (pbool (decide (r.size ≤ 0xFFF))) = env3 at *
    have hF3 : Frame ["encode_length_on_2_first_bytes"] env1 env3 := by
      rw [← he3]; exact ((Frame.refl _ env1).set (.inl (by decide)) _).set (.inr (by decide)) _
    have henc : env3 "encode_length_on_2_first_bytes" = some (pbool (decide (r.size ≤ 0xFFF))) := by rw [← he3]; simp [set_get]
    obtain ⟨-, c2, -, -, -, -, -, -, -, -, -⟩ := consumeActive_spec ({ s with txFrameLen := r.size } : State) r
      (if r.size ≤ 4095 then s.cfg.txDl - 2 - s.txPrefixLen else s.cfg.txDl - 6 - s.txPrefixLen) true
    rcases hca : ({ s with txFrameLen := r.size } : State).consumeActive r
      (if r.size ≤ 4095 then s.cfg.txDl - 2 - s.txPrefixLen else s.cfg.txDl - 6 - s.txPrefixLen) true with ⟨s1', r1, res⟩
    rw [hca] at hb c2
    simp only at hb c2
    cases res with
    | some payload =>
      exfalso
      revert hb
      simp only
      repeat' split
      all_goals (intro hb; cases hb)
    | none =>
      simp only at hb
      cases hb
      -- the `if encode_length_on_2_first_bytes:` statement raises in the environment with `data_length`
      have hdat : ∃ env4, exec2S (m + 10) (txM s) env3
          (.ite (.var "encode_length_on_2_first_bytes") (thenOf (nth stFF 2)) (elseOf (nth stFF 2))) =
            .ok (.raised "BadGeneratorError" env4) ∧ Rep env4 ({ s with txFrameLen := r.size } : State) ∧
            Frame ["data_length"] env3 env4 := by
        by_cases hs : r.size ≤ 0xFFF
        · simp only [hs, if_true, decide_true] at henc c2
          have e : ((s.cfg.txDl : Int) - 2 - (s.addr.tx.txPrefix.length : Int)) = ((s.cfg.txDl - 2 - s.txPrefixLen : Nat) : Int) := by
            unfold State.txPrefixLen at *; omega
          have h0' : execStmt (txM s) env3 (nth (thenOf (nth stFF 2)) 0) =
              .ok (.next (env3.set "data_length" (pint ((s.cfg.txDl - 2 - s.txPrefixLen : Nat) : Int)))) := by
            simp [stFF, Tx.ST, nth, thenOf, elseOf, Src.TransportLayerLogic_p_process_tx__start_tx, execStmt, eval, evalArgs, R3.txDl,
              bi_none, fn_prefix, builtin_len_bytes, e]
          have R4 := R3.setOther (k := "data_length") (by decide) (pint ((s.cfg.txDl - 2 - s.txPrefixLen : Nat) : Int))
          generalize s.cfg.txDl - 2 - s.txPrefixLen = k at *
          have h1' : execStmt (txM s) (env3.set "data_length" (pint (k : Int))) (nth (thenOf (nth stFF 2)) 1) =
              .error (.unsupported "raise BadGeneratorError") := by
            simp [stFF, Tx.ST, nth, thenOf, elseOf, Src.TransportLayerLogic_p_process_tx__start_tx, execStmt, eval, evalArgs, set_get,
              bi_none, proc_consume, consumeP_none R4 ha k true c2.symm]
          refine ⟨_, ?_, R4, (Frame.refl _ env3).set (.inr (by decide)) _⟩
          rw [e2_ite_true (by simp [eval, henc]), ffA_shape, e2_cons_next (e2_simple_ok rfl h0')]
          exact e2_cons_raised (by rw [e2_simple_err rfl h1']; rfl)
        · simp only [hs, if_false, decide_false] at henc c2
          have e : ((s.cfg.txDl : Int) - 6 - (s.addr.tx.txPrefix.length : Int)) = ((s.cfg.txDl - 6 - s.txPrefixLen : Nat) : Int) := by
            unfold State.txPrefixLen at *; omega
          have h0' : execStmt (txM s) env3 (nth (elseOf (nth stFF 2)) 0) =
              .ok (.next (env3.set "data_length" (pint ((s.cfg.txDl - 6 - s.txPrefixLen : Nat) : Int)))) := by
            simp [stFF, Tx.ST, nth, thenOf, elseOf, Src.TransportLayerLogic_p_process_tx__start_tx, execStmt, eval, evalArgs, R3.txDl,
              bi_none, fn_prefix, builtin_len_bytes, e]
          have R4 := R3.setOther (k := "data_length") (by decide) (pint ((s.cfg.txDl - 6 - s.txPrefixLen : Nat) : Int))
          generalize s.cfg.txDl - 6 - s.txPrefixLen = k at *
          have h1' : execStmt (txM s) (env3.set "data_length" (pint (k : Int))) (nth (elseOf (nth stFF 2)) 1) =
              .error (.unsupported "raise BadGeneratorError") := by
            simp [stFF, Tx.ST, nth, thenOf, elseOf, Src.TransportLayerLogic_p_process_tx__start_tx, execStmt, eval, evalArgs, set_get,
              bi_none, proc_consume, consumeP_none R4 ha k true c2.symm]
          refine ⟨_, ?_, R4, (Frame.refl _ env3).set (.inr (by decide)) _⟩
          rw [e2_ite_false (by simp [eval, henc]), ffB_shape, e2_cons_next (e2_simple_ok rfl h0')]
          exact e2_cons_raised (by rw [e2_simple_err rfl h1']; rfl)
      obtain ⟨env4, he4, R4, hF4⟩ := hdat
      have hite : exec2S (m + 13) (txM s) env1 (.ite (condOf (nth ST 1)) stSF stFF) =
          .ok (.raised "BadGeneratorError" env4) := by
        rw [e2_ite_false hc, stFF_shape, e2_cons_next (e2_simple_ok rfl hC0), e2_cons_next (e2_simple_ok rfl hC1)]
        exact e2_cons_raised he4
      rw [e2_cons_raised hite]
      refine ⟨env4, { s with txFrameLen := r.size },
        (if r.size ≤ 4095 then s.cfg.txDl - 2 - s.txPrefixLen else s.cfg.txDl - 6 - s.txPrefixLen), rfl, R4, ha, ⟨rfl, rfl, rfl, rfl⟩, ⟨rfl, rfl, ⟨rfl, rfl, rfl, rfl⟩⟩, ?_, ?_⟩
      · exact ((hF1.mono (by simp)).trans (hF3.mono (by simp))).trans (hF4.mono (by simp))
      · rw [hca]


/-! ## 3i. the body of the `while read_tx_queue` loop -/

theorem catches_badGen (e : PyExc) : catches "BadGeneratorError" e.name = false := by cases e <;> rfl

section lookups2
variable (c : Cfg) (a : Addr) (now : Nat) (rl : Limiter) (env : Env)
theorem proc2_trigger (code : Int) : (txMeths2 c a now rl).proc "self._trigger_error" [pint code] env = trigP now code env := rfl
theorem proc2_stop (ok : Bool) : (txMeths2 c a now rl).proc "self._stop_sending#success" [pbool ok] env = stopP ok env := rfl
theorem fn2_depleted :
    (txMeths2 c a now rl).fn "self.active_send_request.generator.depleted" [] env = genDepleted env := rfl
end lookups2

/-- without instrumentation, the model's state after the `except BadGeneratorError` handler does not depend on what the failed
    `consume` did to the generator -/
theorem badGen_fin (s0 : State) (r : Req) (k : Nat) (ha : s0.active = some r) (hni : r.instr = false) :
    (((s0.consumeActive r k true).1.error .BadGenerator).stopSending false) = ((s0.error .BadGenerator).stopSending false) := by
  obtain ⟨f1, -, -, -⟩ := consume_fields r k true
  unfold State.consumeActive
  simp only [hni, Bool.false_and, Bool.false_eq_true, if_false]
  unfold State.stopSending State.error State.emit
  simp only [ha, f1]

/-- the locals the loop body writes when it starts a transmission -/
def startLocals : List String := ["size_on_first_byte", "size_offset", "e"] ++ stLocals

/-- the handler `except BadGeneratorError as e: self._trigger_error(e); self._stop_sending(success=False)` -/
theorem handler_agrees (s : State) (env : Env) (n : Nat) (hR : Rep env s) (hn : 4 ≤ n) :
    ∃ env', exec2B n (txM2 s) env handlerB = .ok (.next env') ∧ Rep env' ((s.error .BadGenerator).stopSending false) ∧
      Frame ["e"] env env' := by
  obtain ⟨m, rfl⟩ : ∃ m, n = m + 4 := ⟨n - 4, by omega⟩
  have h0 : execStmt (txM2 s) env (.assign "e" (.call "__caught__" .nil)) =
      .ok (.next (env.set "e" (pint (errCode .BadGenerator)))) := by
    simp [execStmt, eval, evalArgs, bi_none, fn2_caught]
  have R1 := hR.setOther (k := "e") (by decide) (pint (errCode .BadGenerator))
  have h1 : execStmt (txM2 s) (env.set "e" (pint (errCode .BadGenerator)))
      (.expr (.call "self._trigger_error" (.cons (.var "e") .nil))) =
      .ok (.next ((env.set "e" (pint (errCode .BadGenerator))).set "#log"
        (.list (histOf s.log ++ [.py (.int 0), .py (.int s.now), .py (.int (errCode .BadGenerator))])))) := by
    simp [execStmt, eval, evalArgs, set_get, bi_none, proc2_trigger, trigP_rep R1]
  obtain ⟨env', he, hR', hF⟩ := stopP_rep (R1.error .BadGenerator) false []
  have h2 : execStmt (txM2 s) ((env.set "e" (pint (errCode .BadGenerator))).set "#log"
        (.list (histOf s.log ++ [.py (.int 0), .py (.int s.now), .py (.int (errCode .BadGenerator))])))
      (.expr (.call "self._stop_sending#success" (.cons .ff .nil))) = .ok (.next env') := by
    simp [execStmt, eval, evalArgs, bi_none, proc2_stop, he]
  refine ⟨env', ?_, hR', ?_⟩
  · unfold handlerB
    rw [e2_cons_next (e2_simple_ok rfl h0), e2_cons_next (e2_simple_ok rfl h1), e2_cons_next (e2_simple_ok rfl h2)]
    rfl
  · exact (((Frame.refl _ env).set (.inr (by decide)) _).set (.inl (by decide)) _).trans (hF.mono (by simp))

theorem lenB_BS : lenB BS = 3 := rfl

theorem stLocals_sub : ∀ k ∈ stLocals, k ∈ startLocals := by intro k hk; simp [startLocals, hk]
theorem badGenLocals_sub : ∀ k ∈ ["total_size", "encode_length_on_2_first_bytes", "data_length"], k ∈ startLocals := by
  intro k hk; simp [startLocals, stLocals] at hk ⊢; rcases hk with h | h | h <;> simp [h]

/-- **the `else` branch of the loop body**: `before_start`, then `try: start_tx  except BadGeneratorError: ...` -/
theorem startB_agrees (s : State) (env : Env) (r : Req) (allowed n : Nat) (hR : Rep2 env s) (ha : s.active = some r)
    (hle : r.consumed ≤ r.size) (hni : r.instr = false)
    (hal : env "allowed_bytes" = some (pint allowed)) (ho : env "output_msg" = some pnone)
    (hdl : 8 ≤ s.cfg.txDl ∧ s.cfg.txDl ≤ 64) (hn : 20 ≤ n) :
    match startTxR s r allowed with
    | .raised _ e => ∃ env', exec2B n (txM2 s) env startB = .ok (.raised e.name env')
    | .badGen s1 =>
      ∃ env', exec2B n (txM2 s) env startB = .ok (.next env') ∧ Rep2 env' ((s1.error .BadGenerator).stopSending false) ∧
        env' "output_msg" = some pnone ∧ Frame startLocals env env'
    | .done s' out _ =>
      ∃ env', exec2B n (txM2 s) env startB = .ok (.next env') ∧ Rep2 env' s' ∧ env' "output_msg" = some (optMsgPV out) ∧
        Frame startLocals env env' := by
  obtain ⟨m, rfl⟩ : ∃ m, n = m + 20 := ⟨n - 20, by omega⟩
  obtain ⟨env4, he4, R4, hsof, hoff, hF4⟩ := before_start_agrees s env r hR.rep ha hle
  have hbs : exec2B 5 (txM2 s) env BS = .ok (.next env4) := lift_ok lift_BS (by rw [depth_BS]; exact Nat.le_refl _) he4
  have happ : exec2B (m + 20) (txM2 s) env startB = exec2B (m + 17) (txM2 s) env4 (.cons tryS .nil) :=
    exec2B_append (txM2 s) BS (.cons tryS .nil) 5 (m + 17) env _ hbs (by omega)
  rw [happ, exec2B_cons]
  unfold tryS
  rw [exec2S_tryCatch]
  have hal4 : env4 "allowed_bytes" = some (pint allowed) := by rw [hF4 _ (by decide) (by decide)]; exact hal
  have ho4 : env4 "output_msg" = some pnone := by rw [hF4 _ (by decide) (by decide)]; exact ho
  have hst := start_tx_agrees s env4 r allowed R4 ha hsof hoff hal4 ho4 hdl
  have hsq := sameQ_startTxR s r allowed
  cases hr : startTxR s r allowed with
  | raised s' e =>
    rw [hr] at hst
    simp only at hst ⊢
    obtain ⟨env1, h1⟩ := lift_exc (n := m + 15) lift_ST (by rw [depth_ST]; omega) hst
    rw [h1]
    simp only [catches_badGen]
    exact ⟨env1, rfl⟩
  | done s' out imm =>
    rw [hr] at hst hsq
    simp only at hst ⊢
    obtain ⟨env5, he5, R5, ho5, hF5⟩ := hst
    rw [lift_ok (n := m + 15) lift_ST (by rw [depth_ST]; omega) he5]
    have hF : Frame startLocals env env5 := (hF4.mono (by simp [startLocals])).trans (hF5.mono stLocals_sub)
    exact ⟨env5, rfl, hR.of_frame R5 hF (by decide) hsq.txQueue, ho5, hF⟩
  | badGen s1 =>
    rw [hr] at hsq
    simp only
    obtain ⟨env1, s0, k, h1, R1, ha0, hK0, hQ0, hF1, hs1⟩ := start_tx_badGen s env4 r allowed (m + 15) R4 ha hoff hdl (by omega) hr
    rw [exec2B_congr (txM2_agrees s) _ _ _ lift_ST.av, h1]
    have hcatch : catches "BadGeneratorError" "BadGeneratorError" = true := rfl
    simp only [hcatch, if_true]
    obtain ⟨env', he', R', hF'⟩ := handler_agrees s0 env1 (m + 15) R1 (by omega)
    have hM : txM2 s0 = txM2 s := by unfold txM2; rw [hK0.1, hK0.2.1, hK0.2.2.1, hK0.2.2.2]
    rw [hM] at he'
    rw [he']
    have hF : Frame startLocals env env' :=
      ((hF4.mono (by simp [startLocals])).trans (hF1.mono badGenLocals_sub)).trans (hF'.mono (by simp [startLocals]))
    refine ⟨env', rfl, ?_, ?_, hF⟩
    · rw [hs1, badGen_fin s0 r k ha0 hni]
      exact hR.of_frame R' hF (by decide) (((sameQ_error _ _).trans (sameQ_stopSending _ _)).txQueue.trans hQ0.txQueue)
    · rw [hF' _ (by decide) (by decide), hF1 _ (by decide) (by decide)]; exact ho4


/-! ## 3j. the `while read_tx_queue` loop, by induction on the queue -/

theorem e2_while_false {n : Nat} {M : Meths} {env : Env} {c : PExpr} {b : PBlock}
    (hc : eval M env c = .ok (pbool false)) : exec2S (n + 1) M env (.while_ c b) = .ok (.next env) := by
  rw [exec2S_while, hc]; rfl
theorem e2_while_next {n : Nat} {M : Meths} {env env1 : Env} {c : PExpr} {b : PBlock}
    (hc : eval M env c = .ok (pbool true)) (hb : exec2B n M env b = .ok (.next env1)) :
    exec2S (n + 1) M env (.while_ c b) = exec2S n M env1 (.while_ c b) := by
  rw [exec2S_while, hc]
  show (match exec2B n M env b with
    | .ok (.next env1) => exec2S n M env1 (.while_ c b)
    | .ok (.brk env1) => .ok (.next env1)
    | r => r) = _
  rw [hb]
theorem e2_while_raised {n : Nat} {M : Meths} {env env1 : Env} {c : PExpr} {b : PBlock} {x : String}
    (hc : eval M env c = .ok (pbool true)) (hb : exec2B n M env b = .ok (.raised x env1)) :
    exec2S (n + 1) M env (.while_ c b) = .ok (.raised x env1) := by
  rw [exec2S_while, hc]
  show (match exec2B n M env b with
    | .ok (.next env1) => exec2S n M env1 (.while_ c b)
    | .ok (.brk env1) => .ok (.next env1)
    | r => r) = _
  rw [hb]

theorem e2_single (n : Nat) (M : Meths) (env : Env) (s : PStmt) :
    exec2B (n + 2) M env (.cons s .nil) = exec2S (n + 1) M env s := by
  rw [exec2B_cons]
  cases exec2S (n + 1) M env s with
  | error e => rfl
  | ok o => cases o <;> rfl

/-- the names the loop writes besides the attributes of the object (`#tx_queue` is the queue itself) -/
def loopLocals : List String := ["read_tx_queue", "#tx_queue"] ++ startLocals

theorem startLocals_sub : ∀ k ∈ startLocals, k ∈ loopLocals := by intro k hk; simp [loopLocals, hk]

theorem eval_rtq {M : Meths} {env : Env} {b : Bool} (h : env "read_tx_queue" = some (pbool b)) :
    eval M env (.var "read_tx_queue") = .ok (pbool b) := by simp [eval, h]

theorem assign_rtq_tt (M : Meths) (env : Env) :
    execStmt M env (.assign "read_tx_queue" .tt) = .ok (.next (env.set "read_tx_queue" (pbool true))) := by
  simp [execStmt, eval]
theorem assign_rtq_ff (M : Meths) (env : Env) :
    execStmt M env (.assign "read_tx_queue" .ff) = .ok (.next (env.set "read_tx_queue" (pbool false))) := by
  simp [execStmt, eval]

theorem eval_emptyCond {s : State} {env : Env} (hR : Rep2 env s) :
    eval (txM2 s) env emptyCond = .ok (pbool (!s.txQueue.isEmpty)) := by
  simp [emptyCond, eval, evalArgs, bi_none, fn2_empty, qEmptyP_rep hR, truthy_pbool]

theorem Rep2.setOther {env : Env} {s : State} (hR : Rep2 env s) {k : String} (hk : k ∉ allKeys) (hk2 : k ≠ "#tx_queue") (v : PV) :
    Rep2 (env.set k v) s :=
  ⟨hR.rep.setOther hk v, by simp [set_get, Ne.symm hk2, hR.q]⟩

/-- the `if` branch of the loop body: an empty-payload request is completed with success and skipped -/
theorem skipB_agrees (s : State) (env : Env) (r : Req) (n : Nat) (hR : Rep2 env s) (ha : s.active = some r) (hn : 4 ≤ n) :
    ∃ env', exec2B n (txM2 s) env skipB = .ok (.next env') ∧ Rep2 env' { s.emit (.done r.id true) with active := none } ∧
      env' "read_tx_queue" = some (pbool true) ∧ Frame ["read_tx_queue"] env env' := by
  obtain ⟨m, rfl⟩ : ∃ m, n = m + 4 := ⟨n - 4, by omega⟩
  have h0 := assign_rtq_tt (txM2 s) env
  have R1 := hR.rep.setOther (k := "read_tx_queue") (by decide) (pbool true)
  have h1 : execStmt (txM2 s) (env.set "read_tx_queue" (pbool true))
      (.expr (.call "self.active_send_request.complete" (.cons .tt .nil))) =
      .ok (.next ((env.set "read_tx_queue" (pbool true)).set "#log"
        (.list (histOf s.log ++ [.py (.int 1), .py (.int r.id), .py (.bool true)])))) := by
    simp [execStmt, eval, evalArgs, bi_none, proc2_complete, completeP_rep R1 ha]
  have h2 : execStmt (txM2 s) ((env.set "read_tx_queue" (pbool true)).set "#log"
        (.list (histOf s.log ++ [.py (.int 1), .py (.int r.id), .py (.bool true)])))
      (.assign "self.active_send_request" .none) =
      .ok (.next (((env.set "read_tx_queue" (pbool true)).set "#log"
        (.list (histOf s.log ++ [.py (.int 1), .py (.int r.id), .py (.bool true)]))).set "self.active_send_request" pnone)) := by
    simp [execStmt, eval]
  have hF : Frame ["read_tx_queue"] env (((env.set "read_tx_queue" (pbool true)).set "#log"
        (.list (histOf s.log ++ [.py (.int 1), .py (.int r.id), .py (.bool true)]))).set "self.active_send_request" pnone) :=
    (((Frame.refl _ env).set (.inr (by decide)) _).set (.inl (by decide)) _).set (.inl (by decide)) _
  refine ⟨_, ?_, ⟨rep_complete R1 r true, ?_⟩, by simp [set_get], hF⟩
  · unfold skipB
    rw [e2_cons_next (e2_simple_ok rfl h0), e2_cons_next (e2_simple_ok rfl h1), e2_cons_next (e2_simple_ok rfl h2)]
    rfl
  · simp [set_get, State.emit, hR.q]

/-- **the loop** `while read_tx_queue: ...`, entered with `read_tx_queue = True`: what `State.readTxQueue` computes.
    Fuel: one unit per queued request, and 27 for the deepest body. -/
theorem loop_agrees (allowed : Nat) : ∀ (q : List Req) (s : State) (env : Env) (n : Nat),
    s.txQueue = q → Rep2 env s → env "read_tx_queue" = some (pbool true) →
    env "allowed_bytes" = some (pint allowed) → env "output_msg" = some pnone →
    (∀ r ∈ q, r.consumed ≤ r.size ∧ r.instr = false) → (8 ≤ s.cfg.txDl ∧ s.cfg.txDl ≤ 64) → q.length + 27 ≤ n →
    match readTxQueueR s allowed q with
    | .raised _ e => ∃ env', exec2S n (txM2 s) env loopS = .ok (.raised e.name env')
    | .badGen _ => False
    | .done s' out _ =>
      ∃ env', exec2S n (txM2 s) env loopS = .ok (.next env') ∧ Rep2 env' s' ∧ env' "output_msg" = some (optMsgPV out) ∧
        Frame loopLocals env env'
  | [], s, env, n, hq, hR, hrtq, hal, ho, hreq, hdl, hn => by
    obtain ⟨m, rfl⟩ : ∃ m, n = m + 5 := ⟨n - 5, by simp only [List.length_nil] at hn; omega⟩
    unfold readTxQueueR
    simp only
    have h0 := assign_rtq_ff (txM2 s) env
    have R1 := hR.setOther (k := "read_tx_queue") (by decide) (by decide) (pbool false)
    have hc := eval_emptyCond R1
    rw [hq] at hc
    have hbody : exec2B (m + 4) (txM2 s) env loopBody = .ok (.next (env.set "read_tx_queue" (pbool false))) := by
      unfold loopBody
      rw [e2_cons_next (e2_simple_ok rfl h0), e2_single, e2_ite_false hc]
      rfl
    refine ⟨env.set "read_tx_queue" (pbool false), ?_, ?_, ?_, ?_⟩
    · unfold loopS
      rw [e2_while_next (eval_rtq hrtq) hbody, e2_while_false (eval_rtq (by simp [set_get]))]
    · have : ({ s with txQueue := [] } : State) = s := by rw [← hq]
      rw [this]; exact R1
    · simp [set_get, ho, optMsgPV]
    · exact (Frame.refl _ env).set (.inr (by simp [loopLocals])) _
  | r :: rest, s, env, n, hq, hR, hrtq, hal, ho, hreq, hdl, hn => by
    obtain ⟨m, rfl⟩ : ∃ m, n = m + 27 := ⟨n - 27, by simp only [List.length_cons] at hn; omega⟩
    have hm : rest.length + 1 ≤ m := by simp only [List.length_cons] at hn; omega
    obtain ⟨hle, hni⟩ := hreq r (by simp)
    have h0 := assign_rtq_ff (txM2 s) env
    have R1 := hR.setOther (k := "read_tx_queue") (by decide) (by decide) (pbool false)
    have hc := eval_emptyCond R1
    rw [hq] at hc
    obtain ⟨env2, hget, R2, hF2⟩ := getP_rep R1 hq
    have hg : execStmt (txM2 s) (env.set "read_tx_queue" (pbool false))
        (.expr (.call "self.active_send_request:=self.tx_queue.get" .nil)) = .ok (.next env2) := by
      simp [execStmt, evalArgs, bi_none, proc2_get, hget]
    have hF02 : Frame ["read_tx_queue", "#tx_queue"] env env2 :=
      ((Frame.refl _ env).set (.inr (by decide)) _).trans (hF2.mono (by simp))
    have hd : eval (txM2 s) env2 deplCond = .ok (pbool r.depleted) := by
      simp [deplCond, eval, evalArgs, bi_none, fn2_depleted, genDepleted_rep (R2.rep.req r rfl)]
    have hrtq2 : env2 "read_tx_queue" = some (pbool false) := by
      rw [hF2 _ (by decide) (by decide)]; simp [set_get]
    have hal2 : env2 "allowed_bytes" = some (pint allowed) := by rw [hF02 _ (by decide) (by decide)]; exact hal
    have ho2 : env2 "output_msg" = some pnone := by rw [hF02 _ (by decide) (by decide)]; exact ho
    unfold readTxQueueR
    by_cases hdep : r.depleted = true
    · -- completed with success, skipped
      simp only [hdep, if_true]
      rw [hdep] at hd
      obtain ⟨env3, he3, R3, hrtq3, hF3⟩ := skipB_agrees _ env2 r (m + 20) R2 rfl (by omega)
      have hbody : exec2B (m + 26) (txM2 s) env loopBody = .ok (.next env3) := by
        unfold loopBody
        rw [e2_cons_next (e2_simple_ok rfl h0), e2_single, e2_ite_true hc]
        unfold dequeueB
        rw [e2_cons_next (e2_simple_ok rfl hg), e2_single, e2_ite_true hd]
        exact he3
      have hF03' : Frame ["read_tx_queue", "#tx_queue"] env env3 := hF02.trans (hF3.mono (by simp))
      have hF03 : Frame loopLocals env env3 := hF03'.mono (by simp [loopLocals])
      have ih := loop_agrees allowed rest _ env3 (m + 26) rfl R3 hrtq3
        (by rw [hF03' _ (by decide) (by decide)]; exact hal) (by rw [hF03' _ (by decide) (by decide)]; exact ho)
        (fun r' hr' => hreq r' (by simp [hr'])) hdl (by omega)
      have hw : exec2S (m + 27) (txM2 s) env loopS = exec2S (m + 26) (txM2 s) env3 loopS := by
        unfold loopS
        exact e2_while_next (eval_rtq hrtq) hbody
      rw [hw]
      revert ih
      generalize readTxQueueR _ allowed rest = o
      intro ih
      cases o with
      | raised s' e => exact ih
      | badGen s' => exact ih
      | done s' out imm =>
        obtain ⟨env', h1, h2, h3, h4⟩ := ih
        exact ⟨env', h1, h2, h3, hF03.trans h4⟩
    · -- a transmission starts
      simp only [hdep, if_false, Bool.false_eq_true]
      have hdep' : r.depleted = false := by cases h : r.depleted <;> simp_all
      rw [hdep'] at hd
      have hst := startB_agrees _ env2 r allowed (m + 20) R2 rfl hle hni hal2 ho2 hdl (by omega)
      have hbody : exec2B (m + 26) (txM2 s) env loopBody = exec2B (m + 20) (txM2 s) env2 startB := by
        unfold loopBody
        rw [e2_cons_next (e2_simple_ok rfl h0), e2_single, e2_ite_true hc]
        unfold dequeueB
        rw [e2_cons_next (e2_simple_ok rfl hg), e2_single, e2_ite_false hd]
      revert hst
      generalize startTxR _ r allowed = o
      intro hst
      cases o with
      | raised s' e =>
        obtain ⟨env', h1⟩ := hst
        refine ⟨env', ?_⟩
        unfold loopS
        exact e2_while_raised (eval_rtq hrtq) (hbody.trans h1)
      | badGen s1 =>
        obtain ⟨env', h1, h2, h3, h4⟩ := hst
        have hF : Frame loopLocals env env' := (hF02.mono (by simp [loopLocals])).trans (h4.mono startLocals_sub)
        refine ⟨env', ?_, h2, by simpa [optMsgPV] using h3, hF⟩
        unfold loopS
        rw [e2_while_next (eval_rtq hrtq) (hbody.trans h1)]
        exact e2_while_false (eval_rtq (by rw [h4 _ (by decide) (by decide)]; exact hrtq2))
      | done s' out imm =>
        obtain ⟨env', h1, h2, h3, h4⟩ := hst
        have hF : Frame loopLocals env env' := (hF02.mono (by simp [loopLocals])).trans (h4.mono startLocals_sub)
        refine ⟨env', ?_, h2, h3, hF⟩
        unfold loopS
        rw [e2_while_next (eval_rtq hrtq) (hbody.trans h1)]
        exact e2_while_false (eval_rtq (by rw [h4 _ (by decide) (by decide)]; exact hrtq2))


/-! ## 3k. the dispatch on `tx_state` -/

theorem eval_isIdle {M : Meths} {env : Env} {s : State} (hR : Rep env s) :
    eval M env isIdleC = .ok (pbool (decide (s.txState = .idle))) := by
  simp [isIdleC, eval, hR.txState, hR.consts.idle, pvEq_txSt]
theorem eval_isWaitFc {M : Meths} {env : Env} {s : State} (hR : Rep env s) :
    eval M env isWaitFcC = .ok (pbool (decide (s.txState = .waitFc))) := by
  simp [isWaitFcC, eval, hR.txState, hR.consts.waitFc, pvEq_txSt]
theorem eval_isTcf {M : Meths} {env : Env} {s : State} (hR : Rep env s) :
    eval M env isTcfC = .ok (pbool (decide (s.txState = .transmitCf))) := by
  simp [isTcfC, eval, hR.txState, hR.consts.transmitCf, pvEq_txSt]
theorem eval_isStandby {M : Meths} {env : Env} {s : State} (hR : Rep env s) :
    eval M env isStandbyC = .ok (pbool (decide (s.txState = .sfStandby ∨ s.txState = .ffStandby))) := by
  have hts := hR.txState
  cases hs : s.txState <;> rw [hs] at hts <;>
    simp [isStandbyC, eval, evalArgs, hts, hR.consts.sfStandby, hR.consts.ffStandby, txStPV, txStName]


/-- a region that falls through leaves the exception flag and the primitives as they were -/
def OutK (s : State) : Outcome → Prop
  | .done s' _ _ => s'.exc = s.exc ∧ SameK s s'
  | _ => True

theorem readTxQueueR_same (allowed : Nat) : ∀ (q : List Req) (s : State), OutK s (readTxQueueR s allowed q)
  | [], s => ⟨rfl, rfl, rfl, rfl, rfl⟩
  | r :: rest, s => by
    unfold readTxQueueR
    split
    · have ih := readTxQueueR_same allowed rest
        ({ ({ s with txQueue := rest, active := some r } : State).emit (.done r.id true) with active := none })
      revert ih
      generalize readTxQueueR _ allowed rest = o
      intro ih
      cases o with
      | raised _ _ => trivial
      | badGen _ => trivial
      | done s' _ _ => exact ⟨ih.1, ih.2⟩
    · have h := sameQ_startTxR { s with txQueue := rest, active := some r } r allowed
      revert h
      generalize startTxR _ r allowed = o
      intro h
      cases o with
      | raised _ _ => trivial
      | badGen s1 =>
        have h' : SameQ _ s1 := h
        have h2 := h'.trans ((sameQ_error s1 .BadGenerator).trans (sameQ_stopSending _ false))
        exact ⟨h2.exc, h2.k⟩
      | done s' _ _ =>
        have h' : SameQ _ s' := h
        exact ⟨h'.exc, h'.k⟩

/-- the locals the dispatch writes (and the queue key) -/
def dispLocals : List String := loopLocals ++ tcfLocals

theorem loopLocals_sub : ∀ k ∈ loopLocals, k ∈ dispLocals := by intro k hk; simp [dispLocals, hk]
theorem tcfLocals_sub : ∀ k ∈ tcfLocals, k ∈ dispLocals := by intro k hk; simp [dispLocals, hk]

/-- **the dispatch** `if self.tx_state == IDLE: <loop> elif <standby> ... elif WAIT_FC: pass elif TRANSMIT_CF: ...` computes `dispatchM`;
    it raises exactly when the model sets `exc` -/
theorem dispatch_agrees (s : State) (env : Env) (allowed n : Nat) (hR : Rep2 env s) (hexc : s.exc = none)
    (hal : env "allowed_bytes" = some (pint allowed)) (ho : env "output_msg" = some pnone)
    (hi : env "immediate_rx_msg_required" = some (pbool false))
    (hsd : ∀ m, s.standby = some m → env "self.tx_standby_msg.data" = some (.bytes m.data))
    (hseq : s.txSeq < 16) (hdl : 8 ≤ s.cfg.txDl ∧ s.cfg.txDl ≤ 64)
    (hinv : ∀ r, s.active = some r → r.consumed ≤ r.size)
    (hq : ∀ r ∈ s.txQueue, r.consumed ≤ r.size ∧ r.instr = false)
    (hn : s.txQueue.length + 30 ≤ n) :
    match (dispatchM s allowed).1.exc with
    | some e => ∃ env', exec2S n (txM2 s) env dispatchS = .ok (.raised e.name env')
    | none =>
      ∃ env', exec2S n (txM2 s) env dispatchS = .ok (.next env') ∧ Rep2 env' (dispatchM s allowed).1 ∧
        env' "output_msg" = some (optMsgPV (dispatchM s allowed).2.1) ∧
        env' "immediate_rx_msg_required" = some (pbool (dispatchM s allowed).2.2) ∧ Frame dispLocals env env' ∧
        SameK s (dispatchM s allowed).1 := by
  obtain ⟨m, rfl⟩ : ∃ m, n = m + 30 := ⟨n - 30, by omega⟩
  have hm : s.txQueue.length ≤ m := by omega
  have hidle := eval_isIdle (M := txM2 s) hR.rep
  unfold dispatchS
  unfold dispatchM
  cases hs : s.txState with
  | idle =>
    simp only [hs, decide_true] at hidle ⊢
    rw [e2_ite_true hidle]
    unfold idleB
    rw [e2_cons_next (e2_simple_ok rfl (assign_rtq_tt (txM2 s) env)), e2_single]
    have R1 := hR.setOther (k := "read_tx_queue") (by decide) (by decide) (pbool true)
    have hl := loop_agrees allowed s.txQueue s (env.set "read_tx_queue" (pbool true)) (m + 27) rfl R1 (by simp [set_get])
      (by simpa [set_get] using hal) (by simpa [set_get] using ho) hq hdl (by omega)
    have hx := readTxQueueR_same allowed s.txQueue s
    rw [readTxQueue_eq]
    revert hl hx
    generalize readTxQueueR s allowed s.txQueue = o
    intro hl hx
    cases o with
    | raised s' e => simpa [startFin, State.raise] using hl
    | badGen s' => exact hl.elim
    | done s' out imm =>
      have hx' : s'.exc = s.exc ∧ SameK s s' := hx
      simp only [startFin, hx'.1, hexc]
      obtain ⟨env', h1, h2, h3, h4⟩ := hl
      have hF : Frame loopLocals env env' := ((Frame.refl _ env).set (.inr (by simp [loopLocals])) _).trans h4
      exact ⟨env', h1, h2, h3, by rw [hF _ (by decide) (by decide)]; exact hi, hF.mono loopLocals_sub, hx'.2⟩
  | waitFc =>
    simp only [hs] at hidle ⊢
    rw [e2_ite_false (by simpa using hidle), e2_single]
    unfold standbyS
    have h1 := eval_isStandby (M := txM2 s) hR.rep
    rw [hs] at h1
    rw [e2_ite_false (by simpa using h1), e2_single]
    unfold waitS
    have h2 := eval_isWaitFc (M := txM2 s) hR.rep
    rw [hs] at h2
    rw [e2_ite_true (by simpa using h2)]
    simp only [hexc]
    exact ⟨env, rfl, hR, by simpa [optMsgPV] using ho, hi, Frame.refl _ _, SameK.refl _⟩
  | sfStandby =>
    simp only [hs] at hidle ⊢
    rw [e2_ite_false (by simpa using hidle), e2_single]
    unfold standbyS
    have h1 := eval_isStandby (M := txM2 s) hR.rep
    rw [hs] at h1
    rw [e2_ite_true (by simpa using h1)]
    obtain ⟨env', he, R', ho', hF⟩ := standby_agrees s env allowed hR.rep hal hsd
    have hsq := sameQ_standbyM s allowed
    simp only [hsq.exc, hexc]
    refine ⟨env', lift_ok lift_STANDBY (by rw [depth_STANDBY]; omega) he, hR.of_frame R' hF (by decide) hsq.txQueue, ?_, ?_,
      hF.mono (by simp [dispLocals, loopLocals, startLocals, stLocals]), hsq.k⟩
    · revert ho'
      cases (standbyM s allowed).2 with
      | none => intro ho'; rw [ho', ho]; rfl
      | some m => intro ho'; rw [ho']; rfl
    · rw [hF _ (by decide) (by decide)]; exact hi
  | ffStandby =>
    simp only [hs] at hidle ⊢
    rw [e2_ite_false (by simpa using hidle), e2_single]
    unfold standbyS
    have h1 := eval_isStandby (M := txM2 s) hR.rep
    rw [hs] at h1
    rw [e2_ite_true (by simpa using h1)]
    obtain ⟨env', he, R', ho', hF⟩ := standby_agrees s env allowed hR.rep hal hsd
    have hsq := sameQ_standbyM s allowed
    simp only [hsq.exc, hexc]
    refine ⟨env', lift_ok lift_STANDBY (by rw [depth_STANDBY]; omega) he, hR.of_frame R' hF (by decide) hsq.txQueue, ?_, ?_,
      hF.mono (by simp [dispLocals, loopLocals, startLocals, stLocals]), hsq.k⟩
    · revert ho'
      cases (standbyM s allowed).2 with
      | none => intro ho'; rw [ho', ho]; rfl
      | some m => intro ho'; rw [ho']; rfl
    · rw [hF _ (by decide) (by decide)]; exact hi
  | transmitCf =>
    simp only [hs] at hidle ⊢
    rw [e2_ite_false (by simpa using hidle), e2_single]
    unfold standbyS
    have h1 := eval_isStandby (M := txM2 s) hR.rep
    rw [hs] at h1
    rw [e2_ite_false (by simpa using h1), e2_single]
    unfold waitS
    have h2 := eval_isWaitFc (M := txM2 s) hR.rep
    rw [hs] at h2
    rw [e2_ite_false (by simpa using h2), e2_single]
    unfold tcfS
    have h3 := eval_isTcf (M := txM2 s) hR.rep
    rw [hs] at h3
    rw [e2_ite_true (by simpa using h3)]
    have hpl : s.txPrefixLen ≤ 1 := txPrefix_len_le _
    have ht := transmit_cf_agrees s env allowed hR.rep hal ho hi hseq (by omega) hinv
    have hsq := sameQ_transmitCfR s allowed
    rw [transmitCf_eq]
    revert ht hsq
    generalize transmitCfR s allowed = o
    intro ht hsq
    cases o with
    | raised s' e =>
      simp only [State.raise]
      exact lift_exc lift_TCF (by rw [depth_TCF]; omega) ht
    | badGen s' => exact ht.elim
    | done s' out imm =>
      obtain ⟨env', he, R', ho', hi', hF⟩ := ht
      have hsq' : SameQ s s' := hsq
      simp only [hsq'.exc, hexc]
      exact ⟨env', lift_ok lift_TCF (by rw [depth_TCF]; omega) he, hR.of_frame R' hF (by decide) hsq'.txQueue, ho', hi',
        hF.mono tcfLocals_sub, hsq'.k⟩


/-! ## 3l. the whole function -/

/-- the fuel `_process_tx` needs, besides one unit per queued request -/
def processTxFuel : Nat := 40

theorem finishM_fst_exc (r : State × Option CanMsg × Bool) : (finishM r).1.exc = r.1.exc := by
  unfold finishM tailM
  split
  · rfl
  · cases r.2.1 <;> rfl

theorem txM2_eq {s s' : State} (h : SameK s s') : txM2 s' = txM2 s := by
  unfold txM2; rw [h.1, h.2.1, h.2.2.1, h.2.2.2]

/-- **`_process_tx`, the whole function, second semantics**: for every state `s` the environment represents (`Rep2`: the attributes of
    LayerTx's `Rep` and the queue), with no exception pending, and every fuel `≥ |tx_queue| + 40`:
    * when the model's `processTx` does not set `exc`, the run returns `ProcessTxReport(msg, immediate_rx_required)` with the model's
      message and flag, in an environment that represents the model's new state;
    * when it does (`AttributeError`, `ValueError`, `AssertionError`), the run raises that exception. -/
theorem process_tx_agrees (s : State) (env : Env) (n : Nat)
    (hR : Rep2 env s) (hexc : s.exc = none)
    (hL : ∀ f, s.lastFc = some f → FcLoc env f)
    (hsd : ∀ m, s.standby = some m → env "self.tx_standby_msg.data" = some (.bytes m.data))
    (hod : ∀ m, s.processTx.2.1 = some m → env "output_msg.data" = some (.bytes m.data))
    (hseq : s.txSeq < 16) (hdl : 8 ≤ s.cfg.txDl ∧ s.cfg.txDl ≤ 64)
    (hinv : ∀ r, s.active = some r → r.consumed ≤ r.size)
    (hq : ∀ r ∈ s.txQueue, r.consumed ≤ r.size ∧ r.instr = false)
    (hn : s.txQueue.length + processTxFuel ≤ n) :
    match s.processTx.1.exc with
    | none =>
      ∃ env', run2 n (txM2 s) env WHOLE = .ok (.ret (reportPV s.processTx.2.1 s.processTx.2.2) env') ∧ Rep2 env' s.processTx.1
    | some e => ∃ env', run2 n (txM2 s) env WHOLE = .ok (.raised e.name env') := by
  rw [processTx_decomposed] at hod ⊢
  unfold processTxD at hod ⊢
  obtain ⟨m, rfl⟩ : ∃ m, n = m + 40 := ⟨n - 40, by unfold processTxFuel at hn; omega⟩
  have hm : s.txQueue.length ≤ m := by unfold processTxFuel at hn; omega
  have hpre := prefix_agrees s env hR.rep hL
  have hpres := pres_prefixR s
  unfold run2
  rw [whole_shape]
  cases hp : prefixR s with
  | raised s' e =>
    rw [hp] at hpre
    simp only [prefixFin, State.raise] at hpre ⊢
    obtain ⟨env1, h1⟩ := lift_exc (n := 25) lift_PRE (by rw [depth_PRE]; exact Nat.le_refl _) hpre
    have h2 : exec2B (m + 40) (txM2 s) env (appendB PRE (.cons dispatchS TAIL)) = .ok (.raised e.name env1) :=
      exec2B_append (txM2 s) PRE (.cons dispatchS TAIL) 25 (m + 31) env _ h1 (by omega)
    rw [h2]
    exact ⟨env1, rfl⟩
  | ret s' out imm =>
    rw [hp] at hpre hpres
    have hP : Pres s s' := hpres
    simp only [prefixFin, hP.exc, hexc] at hpre ⊢
    obtain ⟨env', he, R', hK⟩ := hpre
    have h1 := lift_ok (n := 25) lift_PRE (by rw [depth_PRE]; exact Nat.le_refl _) he
    have h2 : exec2B (m + 40) (txM2 s) env (appendB PRE (.cons dispatchS TAIL)) = .ok (.ret (reportPV out imm) env') :=
      exec2B_append (txM2 s) PRE (.cons dispatchS TAIL) 25 (m + 31) env _ h1 (by omega)
    rw [h2]
    have hq' : env' "#tx_queue" = env "#tx_queue" := PRE_keeps_q he
    exact ⟨env', rfl, R', by rw [hq', hP.txQueue]; exact hR.q⟩
  | next s3 =>
    rw [hp] at hpre hpres hod
    have hP : Pres s s3 := hpres
    simp only [prefixFin] at hpre hod ⊢
    obtain ⟨env3, he, R3', ho3, hal3, hi3, hK, hF3⟩ := hpre
    have R3 : Rep2 env3 s3 := hR.of_frame R3' hF3 (by decide) hP.txQueue
    have h1 := lift_ok (n := 25) lift_PRE (by rw [depth_PRE]; exact Nat.le_refl _) he
    have h2 : exec2B (m + 40) (txM2 s) env (appendB PRE (.cons dispatchS TAIL)) =
        exec2B (m + 31) (txM2 s) env3 (.cons dispatchS TAIL) :=
      exec2B_append (txM2 s) PRE (.cons dispatchS TAIL) 25 (m + 31) env _ h1 (by omega)
    rw [h2]
    have hM : txM2 s3 = txM2 s := txM2_eq hK
    have hsd3 : ∀ m, s3.standby = some m → env3 "self.tx_standby_msg.data" = some (.bytes m.data) := by
      intro m hm3
      rw [hF3 _ (by decide) (by decide)]
      rcases hP.standby with h | h
      · exact hsd m (by rw [← h]; exact hm3)
      · rw [h] at hm3; cases hm3
    have hseq3 : s3.txSeq < 16 := by rcases hP.txSeq with h | h <;> rw [h] <;> first | exact hseq | decide
    have hinv3 : ∀ r, s3.active = some r → r.consumed ≤ r.size := by
      intro r hr
      rcases hP.active with h | h
      · exact hinv r (by rw [← h]; exact hr)
      · rw [h] at hr; cases hr
    have hd := dispatch_agrees s3 env3 (s.rl.allowedBytes s.cfg.rlBitMax) (m + 30) R3 (hP.exc.trans hexc) hal3 ho3 hi3 hsd3 hseq3
      (by rw [hK.1]; exact hdl) hinv3 (by rw [hP.txQueue]; exact hq) (by rw [hP.txQueue]; omega)
    rw [hM] at hd
    rw [finishM_fst_exc]
    revert hd hod
    generalize hdm : dispatchM s3 (s.rl.allowedBytes s.cfg.rlBitMax) = d
    obtain ⟨s4, out, imm⟩ := d
    intro hod hd
    try simp only at hd
    cases hx : s4.exc with
    | some e =>
      rw [hx] at hd
      simp only at hd ⊢
      obtain ⟨env', h3⟩ := hd
      rw [e2_cons_raised h3]
      exact ⟨env', rfl⟩
    | none =>
      rw [hx] at hd
      simp only at hd ⊢
      obtain ⟨env4, h3, R4, ho4, hi4, hF4, hK4⟩ := hd
      rw [e2_cons_next h3]
      have hfin : finishM (s4, out, imm) = tailM s4 out imm := by
        unfold finishM
        simp [hx]
      rw [hfin] at hod ⊢
      have hod4 : ∀ m, out = some m → env4 "output_msg.data" = some (.bytes m.data) := by
        intro m hm4
        rw [hF4 _ (by decide) (by decide), hF3 _ (by decide) (by decide)]
        apply hod m
        rw [hm4]; rfl
      obtain ⟨env5, he5, R5, h25, hF5⟩ := tail_agrees s4 env4 out imm R4.rep ho4 hi4 hod4
      rw [txM_eq hK4.1 hK4.2.1 hK4.2.2.1 hK4.2.2.2, txM_eq hK.1 hK.2.1 hK.2.2.1 hK.2.2.2] at he5
      rw [lift_ok (n := m + 30) lift_TAIL (by rw [depth_TAIL]; omega) he5]
      have e1 : (tailM s4 out imm).2.1 = out := by rw [h25]
      have e2 : (tailM s4 out imm).2.2 = imm := by rw [h25]
      rw [e1, e2]
      refine ⟨env5, rfl, R5, ?_⟩
      rw [hF5 _ (by decide) (by simp), R4.q]
      cases out <;> rfl


/-! ## 3m. non-vacuity, and a finding -/

/-- a state with one queued request whose payload is empty (it is completed with success and skipped by the loop) -/
def exState : State := { cfg := {}, addr := default, txQueue := [{ id := 7, size := 0, src := [] }] }

def exEnv : Env := envOf (txAttrs exState ++
  [("PDU.FlowStatus.ContinueToSend", pint 0), ("PDU.FlowStatus.Wait", pint 1), ("PDU.FlowStatus.Overflow", pint 2),
   ("self.TxState.IDLE", txStPV .idle), ("self.TxState.WAIT_FC", txStPV .waitFc), ("self.TxState.TRANSMIT_CF", txStPV .transmitCf),
   ("self.TxState.TRANSMIT_SF_STANDBY", txStPV .sfStandby), ("self.TxState.TRANSMIT_FF_STANDBY", txStPV .ffStandby),
   ("#tx_queue", .list (txqScs exState.txQueue))])

theorem exEnv_rep : Rep2 exEnv exState := by
  refine ⟨?_, rfl⟩
  constructor
  case req => intro r h; cases h
  case consts => exact ⟨rfl, rfl, rfl, rfl, rfl, rfl, rfl, rfl⟩
  all_goals rfl

/-- the hypotheses of `process_tx_agrees` are satisfiable; the run needs `1 + 40` units of fuel here -/
example : ∃ env', run2 41 (txM2 exState) exEnv WHOLE = .ok (.ret (reportPV none false) env') ∧ Rep2 env' exState.processTx.1 := by
  have h := process_tx_agrees exState exEnv 41 exEnv_rep rfl (by intro f hf; cases hf) (by intro m hm; cases hm)
    (by intro m hm; have hn : exState.processTx.2.1 = none := by decide
        rw [hn] at hm; cases hm) (by decide) (by decide) (by intro r hr; cases hr)
    (by intro r hr; simp [exState] at hr; subst hr; exact ⟨Nat.le_refl _, rfl⟩) (by decide)
  have he : exState.processTx.1.exc = none := by decide
  have ho : exState.processTx.2.1 = none := by decide
  have hi : exState.processTx.2.2 = false := by decide
  rw [he, ho, hi] at h
  exact h


/-- FINDING (why `process_tx_agrees` asks for non-instrumented generators, `r.instr = false`): when `consume` raises
    `BadGeneratorError`, the model (`State.consumeActive`) still records the pull event of an instrumented generator, but a primitive of
    `Meths` that fails has no environment to record anything in (`consumeP` returns `.error`), so the handler runs in the environment of
    the state BEFORE the failed `consume`.  The two final states differ (by the pull event in the history) for an instrumented request: -/
theorem badGen_pull_lost :
    ∃ (s0 : State) (r : Req) (k : Nat), s0.active = some r ∧ r.instr = true ∧ (r.consume k true).2 = none ∧
      ∀ env', Rep env' ((s0.error .BadGenerator).stopSending false) →
        ¬ Rep env' (((s0.consumeActive r k true).1.error .BadGenerator).stopSending false) := by
  refine ⟨{ cfg := {}, addr := default, active := some { id := 1, size := 5, src := [1, 2], instr := true } },
    { id := 1, size := 5, src := [1, 2], instr := true }, 5, rfl, rfl, by decide, ?_⟩
  intro env' h1 h2
  have e1 := h1.log
  have e2 := h2.log
  rw [e1] at e2
  revert e2
  decide


end Isotp.PyAgree

#print axioms Isotp.PyAgree.processTx_decomposed
#print axioms Isotp.PyAgree.whole_shape
#print axioms Isotp.PyAgree.dispatch_at
#print axioms Isotp.PyAgree.tail_at
#print axioms Isotp.PyAgree.exec2B_congr
#print axioms Isotp.PyAgree.exec2B_append
#print axioms Isotp.PyAgree.execBlock_keeps
#print axioms Isotp.PyAgree.readTxQueue_eq
#print axioms Isotp.PyAgree.start_tx_badGen
#print axioms Isotp.PyAgree.startB_agrees
#print axioms Isotp.PyAgree.loop_agrees
#print axioms Isotp.PyAgree.dispatch_agrees
#print axioms Isotp.PyAgree.process_tx_agrees
#print axioms Isotp.PyAgree.badGen_pull_lost
