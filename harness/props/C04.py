"""C04 - sender obeys flow control from any peer and always terminates."""
import gen
import ref
import trace
from props.base import PropBase
from props.C02 import tx_cfg

INF = float('inf')


def adversarial_sender(rng, tier, rate_limit=True, gens=False, stops=False):
    mode = rng.choice([0, 0, 1, 2, 3, 5, 6])
    a, _ = gen.rand_addr_pair(rng, mode=mode, asym_prob=0.1)
    params = {}
    if rng.random() < 0.4:
        params['tx_data_length'] = rng.choice(gen.TXDLS)
    txdl = params.get('tx_data_length', 8)
    if rng.random() < 0.25:
        params['tx_data_min_length'] = rng.choice([m for m in gen.MINLENS if m <= txdl])
    if rng.random() < 0.25:
        params['tx_padding'] = rng.randrange(256)
    params['wftmax'] = rng.choice([0, 0, 1, 2, 3])
    tfc_ms = rng.choice([1000, 1000, 100, 10, 1])
    params['rx_flowcontrol_timeout'] = tfc_ms
    if rng.random() < 0.15:
        params['override_receiver_stmin'] = rng.choice([0, 0.001, 0.0003])
    if rate_limit and rng.random() < 0.3:
        w = rng.choice([0.05, 0.1, 0.2])
        params['rate_limit_enable'] = True
        params['rate_limit_window_size'] = w
        params['rate_limit_max_bitrate'] = int(txdl * 8 / w) + rng.choice([1, 1, 50, 2000, 100000])
    tfc = tfc_ms * 1000000
    pre = gen.prefix_len(a, 'tx')
    ops = [{'op': 'layer', 'i': 0, 'addr': a, 'params': params, 'watch_tx': True}]
    rid = 0
    c = max(1, txdl - 1 - pre)

    def fc(status, bs=0, st=0, dt=0):
        fid, ext, data = gen.rx_match_frame(a, bytes([0x30 | status, bs, st]))
        return {'op': 'frame', 'i': 0, 'id': fid, 'ext': ext, 'data': data, 'dt': dt}

    nmsg = rng.choice([1, 1, 2, 3])
    total_frames = 0
    for _ in range(nmsg):
        rid += 1
        n = rng.choice([1, 5, 7, 8, 9, 13, 20, 30, 50, 100, 3 * c + 6, 20 * c])
        total_frames += n // c + 2
        if rng.random() < 0.1:
            n = 0
        payload = gen.rand_payload(rng, n)
        op = {'op': 'send', 'i': 0, 'id': rid}
        if gens and rng.random() < 0.08:
            # declared size above 4095 (First Frame with the 32-bit length escape) and a generator that runs dry inside or right after it
            room = max(0, txdl - 6 - pre)
            actual = max(0, rng.choice([0, 1, room - 1, room, room + 1, room + c, room + 3 * c]))
            op['gen'] = (rng.choice([4096, 5000, 100000]), gen.rand_payload(rng, actual))
        elif gens and rng.random() < 0.5:
            actual = max(0, n + rng.choice([0, 0, -1, -2, -c, 1, 3, -n]))
            op['gen'] = (n, gen.rand_payload(rng, actual))
        else:
            op['data'] = payload
        ops.append(op)
        if rng.random() < 0.2:
            ops.append(fc(rng.choice([0, 0, 1, 2]), rng.choice([0, 1, 2])))      # FC before anything is sent
        steps = rng.randrange(2, 14)
        for _ in range(steps):
            r = rng.random()
            if r < 0.35:
                ops.append({'op': 'process', 'i': 0, **({'rx': False} if rng.random() < 0.15 else {})})
            elif r < 0.6:
                ops.append(fc(0, rng.choice([0, 0, 1, 2, 3, 255]), rng.choice([0, 0, 0, 1, 0xF1, 0x7F, 5, 0xF9, 0xF5]),
                              dt=rng.choice([0, 0, 0, 1000, tfc - 1000, tfc + 1000])))
                if rng.random() < 0.7:
                    ops.append({'op': 'process', 'i': 0})
            elif r < 0.7:
                ops.append(fc(1, rng.choice([0, 0, 3]), rng.choice(EDGE_ST),        # (block size / separation time of a Wait are don't-cares)
                              dt=rng.choice([0, 0, 0, 1000, max(0, tfc - 1000), tfc + 1000])))
                if rng.random() < 0.7:
                    ops.append({'op': 'process', 'i': 0})
            elif r < 0.76:
                ops.append(fc(2, rng.choice([0, 0, 3]), rng.choice(EDGE_ST)))        # ... and of an Overflow
                ops.append({'op': 'process', 'i': 0})
            elif r < 0.9:
                ops.append({'op': 'tick', 'dt': rng.choice([0, 1000, 300001, 1000001, 5000001, 127000001, max(0, tfc - 1000), tfc + 1000,
                                                            50000001, 200000001])})
            elif stops and r < 0.95:
                ops.append({'op': rng.choice(['stop_sending', 'stop_sending', 'reset']), 'i': 0})
            elif r < 0.975:
                # set_address() with the address the layer already has, at any moment (also while a frame is parked by the rate limiter or a
                # transfer is under way): documented to be callable at any time, and with an unchanged address nothing at all may change
                ops.append({'op': 'set_address', 'i': 0, 'addr': a})
            else:
                ops.append(fc(0, 0, 0))
                ops.append(fc(0, 1, 0))
        if rng.random() < 0.5:
            # let it finish cooperatively
            ops.append(fc(0, 0, 0))
            for _ in range(3):
                ops.append({'op': 'process', 'i': 0})
                ops.append({'op': 'tick', 'dt': 200000001})
    # watchdog phase: pass every due time; every request must get an outcome
    for _ in range(6 + total_frames):
        ops.append({'op': 'tick', 'dt': max(tfc, 200000000) + 1000, 'keep': True})
        ops.append({'op': 'process', 'i': 0, 'keep': True})
    return {'ops': ops}


EDGE_ST = [0, 0, 0, 0x7F, 0xF1, 0xF9, 5]         # every valid separation-time code at the edges of its range


def judge_sender(sc, lines_in, impl_out, check_outcomes=True):
    """TxMonitor of DESIGN appendix D.3 + prefix + abort rules + watchdog"""
    cfg = trace.layer_cfg(sc)
    a = cfg['addr']
    p = cfg['params']
    txh = ref.half(a, 'tx')
    rxh = ref.half(a, 'rx')
    prefix = ref.tx_prefix(txh)
    pre_rx = ref.rx_prefix_len(rxh)
    tc = tx_cfg(cfg)
    wftmax = p.get('wftmax', 0)
    out = []
    payload = {}
    declared = {}
    for op in sc['ops']:
        if op['op'] == 'send':
            if 'gen' in op:
                declared[op['id']] = op['gen'][0]
                payload[op['id']] = bytes(op['gen'][1])[:op['gen'][0]]
            else:
                declared[op['id']] = len(op['data'])
                payload[op['id']] = bytes(op['data'])
    queue = []
    cur = None           # id whose frames are being emitted
    cur_frames = []
    budget = 0
    count = 0            # Consecutive Frames emitted since the sender last waited (observed through 'txw')
    granted = 0          # largest block size granted since it last waited (INF for BS = 0)
    recent = 0           # largest block size granted since the last data frame was emitted
    watched = any(op['op'] == 'layer' and op.get('watch_tx') for op in sc['ops'])
    ended = set()
    grace = False        # a frame built in the same tx pass as the outcome may follow it

    for r in trace.records(lines_in, impl_out):
        if r.op == 'send' and r.result in ('ok', 'exc BlockingSendTimeout'):
            queue.append(int(r.toks[2]))
        grace = False
        for e in r.events:
            if e['k'] == 'rx':
                grace = False
                if not ref.reception_condition(rxh, e['id'], e['ext'], e['data']):
                    continue
                c = ref.classify(e['data'][pre_rx:])
                if c[0] == 'fc' and c[1] == 0 and cur is not None and cur_frames:
                    budget = max(budget, INF if c[2] == 0 else c[2])
                    granted = max(granted, INF if c[2] == 0 else c[2])
                    recent = max(recent, INF if c[2] == 0 else c[2])
            elif e['k'] == 'txw':
                # this transmit pass begins with the sender waiting: a new stretch starts; only grants received during the wait count
                count = 0
                granted = recent
            elif e['k'] == 'tx':
                body = e['data'][len(prefix):]
                c = ref.classify(body)
                if c[0] == 'fc':
                    continue
                if c[0] in ('sf', 'ff') and (cur is None or (cur in ended and cur_frames)):
                    cur = queue.pop(0) if queue else None
                    cur_frames = []
                    budget = 0
                if cur is None:
                    out.append(('prefix', 'frame %s emitted with no request pending' % e['data'].hex()))
                    continue
                if cur in ended and not grace:
                    out.append(('abort', 'frame %s emitted for request %d after it ended' % (e['data'].hex(), cur)))
                grace = False
                pl = payload[cur]
                if len(pl) >= declared[cur] and declared[cur] > 0:
                    exp = ref.segment(pl, prefix=prefix, **tc)
                    k = len(cur_frames)
                    if k >= len(exp) or exp[k] != e['data']:
                        out.append(('prefix', 'request %d frame %d is %s; not a prefix of its reference segmentation' % (cur, k, e['data'].hex())))
                if c[0] in ('cf', 'ff', 'sf'):
                    recent_before, recent = recent, 0
                if c[0] == 'cf' and watched:
                    count += 1
                    if count > granted:
                        out.append(('block_bound', 'request %d: %d Consecutive Frames emitted since the sender last waited, largest block size granted since then is %s' % (
                            cur, count, 'none' if granted == 0 else granted)))
                if c[0] == 'cf':
                    if budget == 0:
                        out.append(('block_bound', 'Consecutive Frame of request %d emitted with no block-size budget left (before the first ContinueToSend or beyond the granted block)' % cur))
                    else:
                        budget -= 1
                elif c[0] == 'ff':
                    budget = 0
                    count = 0
                    granted = 0
                    recent = 0
                cur_frames.append(e['data'])
            elif e['k'] == 'done':
                if e['id'] in queue and e['id'] != cur:
                    if queue[0] == e['id'] and e['ok'] and declared[e['id']] > 0 and (cur is None or cur in ended):
                        # outcome precedes the (single) frame built in the same pass
                        cur = queue.pop(0)
                        cur_frames = []
                        budget = 0
                        ended.add(cur)
                        grace = True
                    else:
                        queue.remove(e['id'])
                        ended.add(e['id'])
                else:
                    ended.add(e['id'])
                    grace = (e['id'] == cur)
    return out[:4]


def judge_outcomes_exist(sc, lines_in, impl_out):
    """watchdog: once the clock has passed every due time, each accepted request has exactly one outcome"""
    out = []
    accepted = []
    outcome = {}
    for r in trace.records(lines_in, impl_out):
        if r.op == 'send' and r.result in ('ok', 'exc BlockingSendTimeout'):
            accepted.append(int(r.toks[2]))
        for e in r.events:
            if e['k'] == 'done':
                outcome.setdefault(e['id'], []).append(e['ok'])
    for rid in accepted:
        n = len(outcome.get(rid, []))
        if n == 0:
            out.append(('terminates', 'request %d has no outcome after the watchdog phase' % rid))
        elif n > 1:
            out.append(('exactly_once', 'request %d completed %d times: %s' % (rid, n, outcome[rid])))
    for rid in outcome:
        if rid not in accepted:
            out.append(('exactly_once', 'request %d completed but never accepted' % rid))
    return out[:3]


def judge_abort_rules(sc, lines_in, impl_out):
    """Overflow -> OverflowError + failure; Wait beyond wftmax -> MaximumWaitFrameReachedError; wftmax=0 -> Unsupported, nothing else changes"""
    cfg = trace.layer_cfg(sc)
    a = cfg['addr']
    p = cfg['params']
    rxh = ref.half(a, 'rx')
    pre_rx = ref.rx_prefix_len(rxh)
    wftmax = p.get('wftmax', 0)
    out = []
    n_wait = 0      # Wait frames read since the previous message ended (an upper bound of the layer's count for the current message)
    for r in trace.records(lines_in, impl_out):
        last_fc = None
        tx_busy_before = None
        for e in r.events:
            if e['k'] == 'rx' and ref.reception_condition(rxh, e['id'], e['ext'], e['data']):
                c = ref.classify(e['data'][pre_rx:])
                last_fc = c if c[0] == 'fc' else None
                if c[0] == 'fc' and c[1] == 1:
                    n_wait += 1     # (not reset at a ContinueToSend: one that is not honoured, e.g. during standby, does not reset the layer's count)
            elif e['k'] == 'done':
                n_wait = 0
            elif e['k'] == 'err' and e['name'] == 'MaximumWaitFrameReachedError' and wftmax > 0 and n_wait <= wftmax:
                out.append(('abort', 'MaximumWaitFrameReachedError after %d Wait frame(s) for this message although wftmax=%d' % (n_wait, wftmax)))
            elif e['k'] == 'err' and last_fc is not None:
                st = last_fc[1]
                if st == 2 and e['name'] not in ('OverflowError', 'FlowControlTimeoutError'):
                    out.append(('abort', 'Overflow Flow Control answered with %s' % e['name']))
                if st == 1 and e['name'] not in ('UnsupportedWaitFrameError', 'MaximumWaitFrameReachedError', 'UnexpectedFlowControlError',
                                                 'FlowControlTimeoutError'):
                    out.append(('abort', 'Wait Flow Control answered with %s' % e['name']))
                if st == 1 and wftmax == 0 and e['name'] == 'MaximumWaitFrameReachedError':
                    out.append(('abort', 'wftmax=0 but MaximumWaitFrameReachedError reported'))
                if st == 1 and wftmax > 0 and e['name'] == 'UnsupportedWaitFrameError':
                    out.append(('abort', 'wftmax>0 but UnsupportedWaitFrameError reported'))
    return out[:3]


def judge_fc_deadline(sc, lines_in, impl_out):
    """'when no Flow Control arrives within rx_flowcontrol_timeout it abandons the message with the documented error and emits nothing further for
    it': a ContinueToSend or Wait read while the sender is WAITING (the transmit pass of that process() call begins in WAIT_FC: observed 'txw'),
    later than N_Bs after the wait began (the last data frame of the message, or the last Wait honoured in time), must be answered with
    FlowControlTimeoutError - never honoured."""
    cfg = trace.layer_cfg(sc)
    a = cfg['addr']
    p = cfg['params']
    if not any(op['op'] == 'layer' and op.get('watch_tx') for op in sc['ops']):
        return []
    rxh = ref.half(a, 'rx')
    pre_rx = ref.rx_prefix_len(rxh)
    prefix = ref.tx_prefix(ref.half(a, 'tx'))
    tfc = int(p.get('rx_flowcontrol_timeout', 1000)) * 1000000
    wftmax = p.get('wftmax', 0)
    out = []
    wait_start = None
    timed_out = False
    for r in trace.records(lines_in, impl_out):
        late = None
        fc_seen = None
        for e in r.events:
            if e['k'] == 'rx' and ref.reception_condition(rxh, e['id'], e['ext'], e['data']):
                c = ref.classify(e['data'][pre_rx:])
                if c[0] == 'fc' and c[1] in (0, 1):
                    fc_seen = (c[1], e['t'])
            elif e['k'] == 'txw':
                if fc_seen is not None and wait_start is not None and fc_seen[1] - wait_start > tfc + 1000:
                    late = fc_seen
                elif fc_seen is not None and fc_seen[0] == 1 and wftmax > 0 and wait_start is not None:
                    wait_start = fc_seen[1]         # a Wait honoured in time restarts the deadline
                fc_seen = None
            elif e['k'] == 'err' and e['name'] == 'FlowControlTimeoutError':
                timed_out = True
                late = None
            elif e['k'] == 'done':
                wait_start = None
                timed_out = False
                late = None
            elif e['k'] == 'tx':
                c = ref.classify(e['data'][len(prefix):])
                if c[0] in ('ff', 'cf'):
                    if late is not None and c[0] == 'cf' and not timed_out:
                        out.append(('abort', 'a %s Flow Control read %d ns after the sender began to wait (N_Bs = %d ns) was honoured: Consecutive Frames go on, no FlowControlTimeoutError' % (
                            'Wait' if late[0] == 1 else 'ContinueToSend', late[1] - wait_start, tfc)))
                        late = None
                    wait_start = e['t']
                elif c[0] == 'sf':
                    wait_start = None
        if fc_seen is not None and fc_seen[0] == 1 and wftmax > 0 and wait_start is not None:
            wait_start = max(wait_start, fc_seen[1])    # a Wait honoured while transmitting (not waiting yet) starts the wait then
        if late is not None and not timed_out and r.status.get('tx') == '1':
            # still waiting at the end of the pass that read the late frame: it was taken as a reason to go on waiting (a Wait re-arming the timer)
            out.append(('abort', 'a %s Flow Control read %d ns after the sender began to wait (N_Bs = %d ns) did not end the transmission: still waiting, no FlowControlTimeoutError' % (
                'Wait' if late[0] == 1 else 'ContinueToSend', late[1] - wait_start, tfc)))
    return out[:2]


class C04(PropBase):
    id = 'C04'
    address_change = 0.15
    rx_only_gaps = 0.1
    lean_modules = ['Isotp.Props.C04']
    theorems = []
    rule = ('one sender against adversarial Flow Control histories: {CTS(BS 0,1,2,3,255; STmin 0,1ms,5ms,127ms,100us), Wait, Overflow} delivered when '
            'solicited, idle, duplicated mid-block, during rate-limiter standby, late (after N_Bs) or withheld; wftmax 0..3; N_Bs 1ms..1s; override '
            'stmin; rate limiter off/tight; random process()/tick schedule; then a watchdog phase passing every due time. Monitor: remaining-budget '
            'TxMonitor, prefix of reference segmentation, documented abort errors, every request has exactly one outcome; distinct = (cfg class, FC/ops shape)')
    assumptions = ['virtual clock', 'payload elements are bytes']
    quick_per_shard = 150
    thorough_per_shard = 5000

    def scenario(self, rng, tier):
        return adversarial_sender(rng, tier)

    def enumerate(self, tier):
        """ALL Flow Control / time histories up to a bounded length over a small alphabet (DESIGN section 6, C04 tie)"""
        import itertools
        depth = 3 if tier == 'quick' else 5
        a = {'mode': 0, 'txid': 0x321, 'rxid': 0x654}
        T = 10000000    # N_Bs = 10 ms

        def fc(status, bs=0, st=0):
            return {'op': 'frame', 'i': 0, 'id': 0x654, 'ext': False, 'data': bytes([0x30 | status, bs, st])}
        moves = {
            'cts0': [fc(0, 0, 0)], 'cts1': [fc(0, 1, 0)], 'cts2': [fc(0, 2, 0)], 'ctsS': [fc(0, 0, 1)],
            'wait': [fc(1)], 'ovf': [fc(2)],
            'tick1': [{'op': 'tick', 'dt': 1100000}], 'tickT': [{'op': 'tick', 'dt': T + 1000}], 'proc': [],
        }
        names = sorted(moves)
        payload = bytes(range(1, 6 + 7 * 4 - 1))       # First Frame + 4 Consecutive Frames
        for wft in (0, 2):
            for n in range(1, depth + 1):
                for seq in itertools.product(names, repeat=n):
                    ops = [{'op': 'layer', 'i': 0, 'addr': a, 'params': {'wftmax': wft, 'rx_flowcontrol_timeout': 10}, 'watch_tx': True},
                           {'op': 'send', 'i': 0, 'id': 1, 'data': payload},
                           {'op': 'send', 'i': 0, 'id': 2, 'data': b'\x01\x02\x03'},
                           {'op': 'process', 'i': 0}]
                    for m in seq:
                        ops.extend(dict(o) for o in moves[m])
                        ops.append({'op': 'process', 'i': 0})
                    for _ in range(8):
                        ops.append({'op': 'tick', 'dt': T + 1000, 'keep': True})
                        ops.append({'op': 'process', 'i': 0, 'keep': True})
                    yield {'ops': ops}

    def project(self, op_line, out_line):
        return trace.project_events(out_line, keep=('tx', 'err', 'done'), status_keys=('tr', 'th'))

    def judge(self, sc, lines_in, impl_out):
        return judge_sender(sc, lines_in, impl_out) + judge_outcomes_exist(sc, lines_in, impl_out) + judge_abort_rules(sc, lines_in, impl_out) + \
            judge_fc_deadline(sc, lines_in, impl_out)

    def nontrivial_key(self, sc, lines_in, impl_out):
        shape = []
        for l, o in zip(lines_in, impl_out):
            t = l.split()
            if t[0] == 'frame':
                shape.append('F' + t[5][-6:-4])
            elif t[0] == 'process':
                shape.append('P%d' % o.count('tx@'))
            elif t[0] == 'tick':
                shape.append('T')
        if not any('tx@' in o for o in impl_out):
            return None
        cfg = trace.layer_cfg(sc)['params']
        return (cfg.get('wftmax'), cfg.get('rx_flowcontrol_timeout'), bool(cfg.get('rate_limit_enable')), tuple(shape[:40]))

    def tally(self, dist, sc, lines_in, impl_out):
        PropBase.tally(self, dist, sc, lines_in, impl_out)
        for l in impl_out:
            for e in l.split('|')[0].split(';'):
                if e.startswith('err@'):
                    k = 'err:' + e.split(':')[1]
                    dist[k] = dist.get(k, 0) + 1
                elif e.startswith('done:'):
                    k = 'done:' + e[-1]
                    dist[k] = dist.get(k, 0) + 1


PROP = C04()
