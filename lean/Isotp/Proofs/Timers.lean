import Isotp.Process
/-
  Helper lemmas for C07 (timeouts) and C18 (listen mode).
-/
set_option linter.unusedSimpArgs false
set_option linter.unusedVariables false

namespace Isotp
namespace State

/-! ## `processTx` cut in four stages (definitionally the same function) -/

/-- stage 1: the Flow Control requested by the receive side -/
def txPend (s : State) : State × Option (Option CanMsg) :=
  if s.pendingFc then
    let s := { s with pendingFc := false }
    match s.pendingFcStatus with
    | none => (s.raise .AttributeError, some none)
    | some st =>
      let s := if st = 0 then s.startRxCfTimer else s
      if !s.cfg.listen then
        match makeFlowControl s.cfg s.addr st with
        | none => (s.raise .ValueError, some none)
        | some msg => (s, some (some msg))
      else (s, none)
  else (s, none)

/-- stage 2: the Flow Control mailbox is consumed -/
def txFc (s : State) : State × Bool :=
  let fc := s.lastFc
  let s := { s with lastFc := none }
  match fc with
  | some f => if f.status = 2 then (((s.stopSending false).error .Overflow), true) else (s.handleFc f, false)
  | none => (s, false)

/-- stage 3: the N_Bs check -/
def txTimeout (s : State) : State :=
  if s.timerFc.timedOut s.now then (s.error .FlowControlTimeout).stopSending false else s

/-- stage 4a: a depleted generator with nothing in standby ends the transmission -/
def txDeplete (s : State) : State :=
  if s.txState ≠ .idle && (match s.active with | some r => r.depleted | none => false) && s.standby.isNone
  then s.stopSending true else s

/-- stage 4b: the transmit FSM proper -/
def txCore (s : State) (allowed : Nat) : State × Option CanMsg × Bool :=
  match s.txState with
  | .idle =>
    let (s, out) := s.readTxQueue allowed s.txQueue
    (s, out, false)
  | .sfStandby | .ffStandby =>
    match s.standby with
    | some msg =>
      if msg.data.length ≤ allowed then
        let s := { s with standby := none }
        if s.txState = .ffStandby then
          (({ s.startRxFcTimer with txState := .waitFc }), some msg, false)
        else (s.stopSending true, some msg, false)
      else (s, none, false)
    | none => (s, none, false)
  | .waitFc => (s, none, false)
  | .transmitCf => s.transmitCf allowed

/-- stage 4c: an exception discards the output; otherwise the rate limiter is informed -/
def txFinish (r : State × Option CanMsg × Bool) : State × Option CanMsg × Bool :=
  if r.1.exc.isSome then (r.1, none, false) else
  match r.2.1 with
  | some msg => ({ r.1 with rl := r.1.rl.inform r.1.now msg.data.length }, some msg, r.2.2)
  | none => (r.1, none, r.2.2)

/-- stage 4: the transmit FSM -/
def txFsm (s : State) (allowed : Nat) : State × Option CanMsg × Bool :=
  if s.txState ≠ .idle && s.active.isNone then (s.raise .AssertionError, none, false) else
  txFinish (s.txDeplete.txCore allowed)

theorem processTx_eq (s : State) :
    s.processTx =
      match s.txPend with
      | (s1, some none) => (s1, none, false)
      | (s1, some (some msg)) => (s1, some msg, true)
      | (s1, none) =>
        match s1.txFc with
        | (s2, true) => (s2, none, false)
        | (s2, false) => s2.txTimeout.txFsm (s.rl.allowedBytes s.cfg.rlBitMax) := by
  rfl

/-! ## the timer invariants -/

/-- N_Cr: no timer while no reception is in progress; the timeout value is the configured one -/
def RxTimerInv (s : State) : Prop :=
  (s.rxState = .idle → s.timerCf.start = none) ∧ s.timerCf.timeout = s.cfg.tCf

/-- an idle receiver never has a ContinueToSend Flow Control pending (the only pending one can be the
    Overflow answer to a too long First Frame) -/
def RxPendInv (s : State) : Prop :=
  s.rxState = .idle → s.pendingFc = true → s.pendingFcStatus ≠ some 0

/-- a reception with a stopped N_Cr timer is waiting for its own ContinueToSend to go out -/
def RxTimerInv2 (s : State) : Prop :=
  s.rxState = .waitCf → s.timerCf.start = none → s.pendingFc = true ∧ s.pendingFcStatus = some 0

def RxInv (s : State) : Prop := RxTimerInv s ∧ RxPendInv s ∧ RxTimerInv2 s

/-- N_Bs: the timer runs exactly in WAIT_FC -/
def TxTimerInv (s : State) : Prop :=
  (s.txState ≠ .waitFc → s.timerFc.start = none) ∧ (s.txState = .waitFc → s.timerFc.start ≠ none) ∧
  s.timerFc.timeout = s.cfg.tFc

theorem RxInv_init (c : Cfg) (a : Addr) : RxInv (State.init c a) := by
  simp [RxInv, RxTimerInv, RxPendInv, RxTimerInv2, State.init]

theorem TxTimerInv_init (c : Cfg) (a : Addr) : TxTimerInv (State.init c a) := by
  simp [TxTimerInv, State.init]

theorem RxInv_processRx (s : State) (m : CanMsg) (h : RxInv s) : RxInv (s.processRx m).1 := by
  unfold RxInv RxTimerInv RxPendInv RxTimerInv2 at *
  unfold processRx startReception
  obtain ⟨⟨h1, h2⟩, h3, h4⟩ := h
  cases hs : s.rxState <;> simp only [hs] at h1 h3 h4 ⊢ <;>
  repeat' split
  all_goals
    simp_all [deliver, stopReceiving, State.error, emit, requestFc, startRxCfTimer, Timer.stop]

theorem RxInv_checkTimeoutsRx (s : State) (h : RxInv s) : RxInv s.checkTimeoutsRx := by
  unfold RxInv RxTimerInv RxPendInv RxTimerInv2 at *
  unfold checkTimeoutsRx
  grind [stopReceiving, State.error, emit, Timer.stop]

/-! ## frame conditions: what the transmit side does not touch, and conversely -/

/-- everything `processRx` / `checkTimeoutsRx` read or write, except the mailbox and the log -/
structure RxView where
  cfg : Cfg
  addr : Addr
  now : Nat
  rxState : RxSt
  rxBuf : Bytes
  rxFrameLen : Nat
  lastSeq : Nat
  rxBlockCnt : Nat
  actualRxdl : Option Nat
  timerCf : Timer
  pendingFc : Bool
  pendingFcStatus : Option Nat
  rxQueue : List Bytes

def rxView (s : State) : RxView :=
  { cfg := s.cfg, addr := s.addr, now := s.now, rxState := s.rxState, rxBuf := s.rxBuf,
    rxFrameLen := s.rxFrameLen, lastSeq := s.lastSeq, rxBlockCnt := s.rxBlockCnt,
    actualRxdl := s.actualRxdl, timerCf := s.timerCf, pendingFc := s.pendingFc,
    pendingFcStatus := s.pendingFcStatus, rxQueue := s.rxQueue }

/-- everything the transmit FSM owns -/
structure TxView where
  cfg : Cfg
  addr : Addr
  now : Nat
  txState : TxSt
  txQueue : List Req
  active : Option Req
  standby : Option CanMsg
  txFrameLen : Nat
  txSeq : Nat
  txBlockCnt : Nat
  remoteBs : Option Nat
  wftCnt : Nat
  timerFc : Timer
  timerStmin : Timer
  rl : Limiter
  exc : Option PyExc

def txView (s : State) : TxView :=
  { cfg := s.cfg, addr := s.addr, now := s.now, txState := s.txState, txQueue := s.txQueue,
    active := s.active, standby := s.standby, txFrameLen := s.txFrameLen, txSeq := s.txSeq,
    txBlockCnt := s.txBlockCnt, remoteBs := s.remoteBs, wftCnt := s.wftCnt, timerFc := s.timerFc,
    timerStmin := s.timerStmin, rl := s.rl, exc := s.exc }

theorem rxView_stopSending (s : State) (b : Bool) : (s.stopSending b).rxView = s.rxView := by
  unfold stopSending; split <;> simp [rxView, emit]

theorem rxView_handleFc (s : State) (f : FcFrame) : (s.handleFc f).rxView = s.rxView := by
  unfold handleFc
  repeat' split
  all_goals simp [rxView, State.error, emit, stopSending, startRxFcTimer]
  all_goals split <;> simp

theorem rxView_consumeActive (s : State) (r : Req) (n : Nat) (e : Bool) :
    (s.consumeActive r n e).1.rxView = s.rxView := by
  unfold consumeActive; simp only []; split <;> simp [rxView, emit]

theorem rxView_startTx (s : State) (r : Req) (a : Nat) : (s.startTx r a).1.rxView = s.rxView := by
  unfold startTx
  grind [rxView, rxView_consumeActive, rxView_stopSending, State.error, emit, State.raise, startRxFcTimer]

theorem rxView_readTxQueue (s : State) (a : Nat) (l : List Req) :
    (s.readTxQueue a l).1.rxView = s.rxView := by
  induction l generalizing s with
  | nil => simp [readTxQueue, rxView]
  | cons r rest ih =>
    unfold readTxQueue
    simp only []
    split
    · rw [ih]; simp [rxView, emit]
    · rw [rxView_startTx]; simp [rxView]

theorem rxView_transmitCf (s : State) (a : Nat) : (s.transmitCf a).1.rxView = s.rxView := by
  unfold transmitCf
  grind [rxView, rxView_consumeActive, rxView_stopSending, State.error, emit, State.raise, startRxFcTimer]

theorem rxView_txTimeout (s : State) : s.txTimeout.rxView = s.rxView := by
  unfold txTimeout
  grind [rxView, rxView_stopSending, State.error, emit]

theorem rxView_txFc (s : State) : s.txFc.1.rxView = s.rxView := by
  unfold txFc
  grind [rxView, rxView_stopSending, rxView_handleFc, State.error, emit]

theorem rxView_txFsm (s : State) (a : Nat) : (s.txFsm a).1.rxView = s.rxView := by
  unfold txFsm txFinish txCore txDeplete
  grind [rxView, rxView_stopSending, rxView_readTxQueue, rxView_transmitCf, State.error, emit,
    State.raise, startRxFcTimer]

/-- after the pending-FC stage the rest of `processTx` leaves the receive side alone -/
theorem rxView_processTx_of_txPend (s : State) :
    s.processTx.1.rxView = s.txPend.1.rxView := by
  rw [processTx_eq]
  split
  · simp_all
  · simp_all
  · next s1 h =>
    split
    · next s2 h2 => rw [h]; simp only []; rw [← rxView_txFc s1, h2]
    · next s2 h2 => rw [h]; simp only []; rw [rxView_txFsm, rxView_txTimeout, ← rxView_txFc s1, h2]

theorem txView_startReception (s : State) (l : Nat) (d : Bytes) (r : Nat) :
    (s.startReception l d r).1.txView = s.txView := by
  unfold startReception
  grind [txView, stopReceiving, State.error, emit, requestFc, startRxCfTimer]

theorem txView_processRx (s : State) (m : CanMsg) : (s.processRx m).1.txView = s.txView := by
  unfold processRx
  grind [txView, txView_startReception, deliver, stopReceiving, State.error, emit, requestFc,
    startRxCfTimer]

theorem txView_checkTimeoutsRx (s : State) : s.checkTimeoutsRx.txView = s.txView := by
  unfold checkTimeoutsRx; split <;> simp [txView, stopReceiving, State.error, emit]

theorem RxInv_of_rxView {s s' : State} (h : s'.rxView = s.rxView) (hi : RxInv s) : RxInv s' := by
  unfold RxInv RxTimerInv RxPendInv RxTimerInv2 at *
  simp only [rxView, RxView.mk.injEq] at h
  grind

theorem TxTimerInv_of_txView {s s' : State} (h : s'.txView = s.txView) (hi : TxTimerInv s) :
    TxTimerInv s' := by
  unfold TxTimerInv at *
  simp only [txView, TxView.mk.injEq] at h
  grind

theorem RxInv_txPend (s : State) (h : RxInv s) : RxInv s.txPend.1 := by
  unfold RxInv RxTimerInv RxPendInv RxTimerInv2 at *
  unfold txPend
  grind [State.raise, startRxCfTimer]

theorem RxInv_processTx (s : State) (h : RxInv s) : RxInv s.processTx.1 :=
  RxInv_of_rxView (rxView_processTx_of_txPend s) (RxInv_txPend s h)

theorem TxTimerInv_processRx (s : State) (m : CanMsg) (h : TxTimerInv s) :
    TxTimerInv (s.processRx m).1 := TxTimerInv_of_txView (txView_processRx s m) h

theorem TxTimerInv_checkTimeoutsRx (s : State) (h : TxTimerInv s) :
    TxTimerInv s.checkTimeoutsRx := TxTimerInv_of_txView (txView_checkTimeoutsRx s) h

/-! ## N_Bs invariant through the transmit side -/

theorem TxTimerInv_stopSending (s : State) (b : Bool) (h : TxTimerInv s) :
    TxTimerInv (s.stopSending b) := by
  unfold TxTimerInv at *; unfold stopSending; split <;> simp_all [emit, Timer.stop]

theorem TxTimerInv_consumeActive (s : State) (r : Req) (n : Nat) (e : Bool) (h : TxTimerInv s) :
    TxTimerInv (s.consumeActive r n e).1 := by
  unfold TxTimerInv at *; unfold consumeActive; simp only []; split <;> simp_all [emit]

theorem TxTimerInv_handleFc (s : State) (f : FcFrame) (h : TxTimerInv s) :
    TxTimerInv (s.handleFc f) := by
  unfold handleFc
  grind [TxTimerInv, TxTimerInv_stopSending, State.error, emit, startRxFcTimer, Timer.stop]

theorem consumeActive_fc (s : State) (r : Req) (n : Nat) (e : Bool) :
    (s.consumeActive r n e).1.txState = s.txState ∧ (s.consumeActive r n e).1.timerFc = s.timerFc ∧
    (s.consumeActive r n e).1.cfg = s.cfg ∧ (s.consumeActive r n e).1.now = s.now := by
  unfold consumeActive; simp only []; split <;> simp [emit]

theorem stopSending_fc (s : State) (b : Bool) :
    (s.stopSending b).txState = .idle ∧ (s.stopSending b).timerFc = s.timerFc.stop ∧
    (s.stopSending b).cfg = s.cfg ∧ (s.stopSending b).now = s.now := by
  unfold stopSending; split <;> simp [emit]

theorem TxTimerInv_startTx (s : State) (r : Req) (a : Nat) (h : TxTimerInv s) (hi : s.txState = .idle) :
    TxTimerInv (s.startTx r a).1 := by
  unfold TxTimerInv at *
  unfold startTx
  simp only []
  repeat' split
  all_goals simp_all [consumeActive_fc, stopSending_fc, State.error, emit, State.raise, startRxFcTimer, Timer.stop]

theorem TxTimerInv_readTxQueue (s : State) (a : Nat) (l : List Req) (h : TxTimerInv s)
    (hi : s.txState = .idle) : TxTimerInv (s.readTxQueue a l).1 := by
  induction l generalizing s with
  | nil => simpa [readTxQueue, TxTimerInv] using h
  | cons r rest ih =>
    unfold readTxQueue
    simp only []
    split
    · apply ih
      · simpa [TxTimerInv, emit] using h
      · simpa [emit] using hi
    · apply TxTimerInv_startTx
      · simpa [TxTimerInv] using h
      · simpa using hi

theorem TxTimerInv_transmitCf (s : State) (a : Nat) (h : TxTimerInv s) (hi : s.txState = .transmitCf) :
    TxTimerInv (s.transmitCf a).1 := by
  unfold TxTimerInv at *
  unfold transmitCf
  simp only []
  repeat' split
  all_goals simp_all [consumeActive_fc, stopSending_fc, State.error, emit, State.raise, startRxFcTimer, Timer.stop]

theorem TxTimerInv_txTimeout (s : State) (h : TxTimerInv s) : TxTimerInv s.txTimeout := by
  unfold txTimeout; split
  · exact TxTimerInv_stopSending _ _ (by simpa [TxTimerInv, State.error, emit] using h)
  · exact h

theorem TxTimerInv_txFc (s : State) (h : TxTimerInv s) : TxTimerInv s.txFc.1 := by
  have h0 : TxTimerInv { s with lastFc := none } := by simpa [TxTimerInv] using h
  unfold txFc
  simp only []
  split
  · split
    · have := TxTimerInv_stopSending _ false h0
      simpa [TxTimerInv, State.error, emit] using this
    · exact TxTimerInv_handleFc _ _ h0
  · exact h0

theorem TxTimerInv_txPend (s : State) (h : TxTimerInv s) : TxTimerInv s.txPend.1 := by
  unfold TxTimerInv at *
  unfold txPend
  grind [State.raise, startRxCfTimer]

theorem TxTimerInv_txDeplete (s : State) (h : TxTimerInv s) : TxTimerInv s.txDeplete := by
  unfold txDeplete
  generalize (decide (s.txState ≠ .idle) && (match s.active with | some r => r.depleted | none => false) && s.standby.isNone) = c
  cases c
  · exact h
  · exact TxTimerInv_stopSending _ _ h

theorem TxTimerInv_txCore (s : State) (a : Nat) (h : TxTimerInv s) : TxTimerInv (s.txCore a).1 := by
  unfold txCore
  cases hs : s.txState <;> simp only []
  · exact TxTimerInv_readTxQueue _ _ _ h hs
  · exact h
  · exact TxTimerInv_transmitCf _ _ h hs
  all_goals
    cases hb : s.standby <;> simp only []
    · exact h
    · split
      · first
          | (simp only [hs, reduceCtorEq, ite_false]
             exact TxTimerInv_stopSending _ _ (by unfold TxTimerInv at *; simp_all))
          | (unfold TxTimerInv at *; simp_all [startRxFcTimer])
      · exact h

theorem TxTimerInv_txFinish (r : State × Option CanMsg × Bool) (h : TxTimerInv r.1) :
    TxTimerInv (txFinish r).1 := by
  unfold txFinish; split
  · exact h
  · split
    · simpa [TxTimerInv] using h
    · exact h

theorem TxTimerInv_txFsm (s : State) (a : Nat) (h : TxTimerInv s) : TxTimerInv (s.txFsm a).1 := by
  unfold txFsm
  split
  · simpa [TxTimerInv, State.raise] using h
  · exact TxTimerInv_txFinish _ (TxTimerInv_txCore _ _ (TxTimerInv_txDeplete _ h))

theorem TxTimerInv_processTx (s : State) (h : TxTimerInv s) : TxTimerInv s.processTx.1 := by
  rw [processTx_eq]
  have h1 := TxTimerInv_txPend s h
  split
  · next h' => rw [h'] at h1; exact h1
  · next h' => rw [h'] at h1; exact h1
  · next s1 h' =>
    rw [h'] at h1
    have h2 := TxTimerInv_txFc s1 h1
    split
    · next h'' => rw [h''] at h2; exact h2
    · next h'' => rw [h''] at h2; exact TxTimerInv_txFsm _ _ (TxTimerInv_txTimeout _ h2)

/-! ## both invariants through the public operations and the `process` loops -/

/-- the two timer invariants together -/
def TimerInv (s : State) : Prop := RxInv s ∧ TxTimerInv s

/-- the fields the invariants read -/
def timerFields (s : State) :=
  (s.rxState, s.timerCf, s.pendingFc, s.pendingFcStatus, s.cfg, s.txState, s.timerFc)

theorem TimerInv_of_fields {s s' : State} (h : s'.timerFields = s.timerFields) (hi : TimerInv s) :
    TimerInv s' := by
  unfold TimerInv RxInv RxTimerInv RxPendInv RxTimerInv2 TxTimerInv at *
  simp only [timerFields, Prod.mk.injEq] at h
  obtain ⟨h1, h2, h3, h4, h5, h6, h7⟩ := h
  rw [h1, h2, h3, h4, h5, h6, h7]; exact hi

theorem TimerInv_init (c : Cfg) (a : Addr) : TimerInv (State.init c a) :=
  ⟨RxInv_init c a, TxTimerInv_init c a⟩

theorem TimerInv_processRx (s : State) (m : CanMsg) (h : TimerInv s) : TimerInv (s.processRx m).1 :=
  ⟨RxInv_processRx s m h.1, TxTimerInv_processRx s m h.2⟩

theorem TimerInv_checkTimeoutsRx (s : State) (h : TimerInv s) : TimerInv s.checkTimeoutsRx :=
  ⟨RxInv_checkTimeoutsRx s h.1, TxTimerInv_checkTimeoutsRx s h.2⟩

theorem TimerInv_processTx (s : State) (h : TimerInv s) : TimerInv s.processTx.1 :=
  ⟨RxInv_processTx s h.1, TxTimerInv_processTx s h.2⟩

theorem TimerInv_stopSending (s : State) (b : Bool) (h : TimerInv s) : TimerInv (s.stopSending b) :=
  ⟨RxInv_of_rxView (rxView_stopSending s b) h.1, TxTimerInv_stopSending s b h.2⟩

theorem TimerInv_stopReceiving (s : State) (h : TimerInv s) : TimerInv s.stopReceiving := by
  unfold TimerInv RxInv RxTimerInv RxPendInv RxTimerInv2 TxTimerInv at *
  simp_all [stopReceiving, Timer.stop]

theorem TimerInv_send (s : State) (a : SendArgs) (h : TimerInv s) : TimerInv (s.send a).1 := by
  unfold send
  simp only []
  repeat' split
  all_goals first | exact h | exact TimerInv_of_fields (by simp [timerFields]) h

theorem TimerInv_recv (s : State) (h : TimerInv s) : TimerInv s.recv.1 := by
  unfold recv; split
  · exact h
  · exact TimerInv_of_fields (by simp [timerFields]) h

theorem TimerInv_advance (s : State) (dt : Nat) (h : TimerInv s) : TimerInv (s.advance dt) :=
  TimerInv_of_fields (by simp [timerFields, advance]) h

theorem TimerInv_pushFrame (s : State) (dt : Nat) (m : CanMsg) (h : TimerInv s) :
    TimerInv (s.pushFrame dt m) :=
  TimerInv_of_fields (by simp [timerFields, pushFrame]) h

theorem clearTxQueue_fields (s : State) (l : List Req) :
    (s.clearTxQueue l).timerFields = s.timerFields := by
  induction l generalizing s with
  | nil => simp [clearTxQueue, timerFields]
  | cons r rest ih => simp [clearTxQueue, ih]; simp [timerFields, emit]

theorem TimerInv_reset (s : State) (h : TimerInv s) : TimerInv s.reset := by
  unfold reset
  simp only []
  apply TimerInv_of_fields (s := (((({ s with rxQueue := [] } : State).clearTxQueue s.txQueue).stopSending false).stopReceiving))
  · simp [timerFields]
  · apply TimerInv_stopReceiving
    apply TimerInv_stopSending
    exact TimerInv_of_fields (by rw [clearTxQueue_fields]; simp [timerFields]) h

/-- what a predicate must satisfy to be carried through `process` -/
structure LoopInv (I : State → Prop) : Prop where
  glue : ∀ (s : State) ib now, I s → I { s with inbox := ib, now := now }
  rxEv : ∀ (s : State) m, I s → I (s.emit (.rx s.now m))
  rxNone : ∀ (s : State), I s → I (s.emit (.rxNone s.now))
  chk : ∀ (s : State), I s → I s.checkTimeoutsRx
  prx : ∀ (s : State) m, I s → I (s.processRx m).1
  rl : ∀ (s : State) l, I s → I { s with rl := l }
  ptx : ∀ (s : State), I s → I s.processTx.1
  txEv : ∀ (s : State) m, I s → s.processTx.2.1 = some m →
    I (s.processTx.1.emit (.tx s.processTx.1.now m))

theorem LoopInv.rxLoop {I : State → Prop} (hI : LoopInv I) (doTx : Bool) (s : State) (st : Stats)
    (l : List (Nat × CanMsg)) (h : I s) : I (rxLoop doTx s st l).1 := by
  induction l generalizing s st with
  | nil => exact hI.chk _ (hI.rxNone _ (hI.glue s [] s.now h))
  | cons x rest ih =>
    obtain ⟨dt, m⟩ := x
    have h2 : I ((({ s with inbox := rest, now := s.now + dt } : State).emit
        (.rx (s.now + dt) m)).checkTimeoutsRx) :=
      hI.chk _ (hI.rxEv _ m (hI.glue s rest (s.now + dt) h))
    unfold State.rxLoop
    simp only []
    split
    · have h3 := hI.prx _ m h2
      split
      · exact h3
      · split
        · exact h3
        · exact ih _ _ h3
    · split
      · exact h2
      · exact ih _ _ h2

theorem LoopInv.txLoop {I : State → Prop} (hI : LoopInv I) (f : Nat) (s : State) (n : Nat)
    (h : I s) : I (txLoop f s n).1 := by
  induction f generalizing s n with
  | zero => exact h
  | succ f ih =>
    unfold State.txLoop
    have h1 := hI.ptx s h
    have h2 := hI.txEv s
    generalize s.processTx = r at h1 h2
    obtain ⟨s1, out, imm⟩ := r
    simp only [] at h1 h2 ⊢
    split
    · exact h1
    · cases out with
      | none =>
        simp only []
        split
        · exact h1
        · simp; exact h1
      | some m =>
        have h3 := h2 m h rfl
        simp only []
        split
        · exact h3
        · simp; exact ih _ _ h3

theorem LoopInv.processLoop {I : State → Prop} (hI : LoopInv I) (f : Nat) (doRx doTx : Bool)
    (s : State) (st : Stats) (h : I s) : I (processLoop f doRx doTx s st).1 := by
  induction f generalizing s st with
  | zero => exact h
  | succ f ih =>
    unfold State.processLoop
    simp only []
    generalize (doTx && !s.txQueue.isEmpty && decide (s.rxState = .idle) && decide (s.txState = .idle)) = sw
    have h1 : I (if (doRx && !sw) = true then State.rxLoop doTx s st s.inbox else (s, st, false)).1 := by
      split
      · exact hI.rxLoop _ _ _ _ h
      · exact h
    generalize (if (doRx && !sw) = true then State.rxLoop doTx s st s.inbox else (s, st, false)) = r1 at h1
    obtain ⟨s1, st1, rxRun⟩ := r1
    simp only [] at h1 ⊢
    have h2 := hI.rl s1 (s1.rl.update s1.cfg.rlWindowNs s1.now) h1
    generalize ({ s1 with rl := s1.rl.update s1.cfg.rlWindowNs s1.now } : State) = s2 at h2
    cases doTx with
    | false =>
      simp only [Bool.false_eq_true, ite_false]
      repeat' split
      all_goals first | exact h2 | exact ih _ _ h2
    | true =>
      simp only [ite_true]
      have h3 := hI.txLoop s2.txFuel s2 st1.sent h2
      generalize State.txLoop s2.txFuel s2 st1.sent = r3 at h3
      obtain ⟨s3, n3, run3, oof3⟩ := r3
      simp only [] at h3 ⊢
      repeat' split
      all_goals first | exact h3 | exact ih _ _ h3

theorem LoopInv.process {I : State → Prop} (hI : LoopInv I) (doRx doTx : Bool)
    (s : State) (h : I s) : I (s.process doRx doTx).1 :=
  hI.processLoop _ _ _ _ _ h

theorem TimerInv_loopInv : LoopInv TimerInv where
  glue s ib now h := TimerInv_of_fields (by simp [timerFields]) h
  rxEv s m h := TimerInv_of_fields (by simp [timerFields, emit]) h
  rxNone s h := TimerInv_of_fields (by simp [timerFields, emit]) h
  chk := TimerInv_checkTimeoutsRx
  prx := TimerInv_processRx
  rl s l h := TimerInv_of_fields (by simp [timerFields]) h
  ptx := TimerInv_processTx
  txEv s m h _ := TimerInv_of_fields (by simp [timerFields, emit]) (TimerInv_processTx s h)

/-! ## log extensions -/

/-- `s'` has the log of `s` plus newer events which all satisfy `P` (the log is newest first) -/
def LogExt (P : Ev → Prop) (s s' : State) : Prop :=
  ∃ new, s'.log = new ++ s.log ∧ ∀ e ∈ new, P e

theorem LogExt.refl (P : Ev → Prop) (s : State) : LogExt P s s := ⟨[], rfl, by simp⟩

theorem LogExt.of_eq {P : Ev → Prop} {s s' : State} (h : s'.log = s.log) : LogExt P s s' :=
  ⟨[], by simpa using h, by simp⟩

theorem LogExt.trans {P : Ev → Prop} {s s' s'' : State} (h1 : LogExt P s s') (h2 : LogExt P s' s'') :
    LogExt P s s'' := by
  obtain ⟨n1, e1, p1⟩ := h1
  obtain ⟨n2, e2, p2⟩ := h2
  refine ⟨n2 ++ n1, by rw [e2, e1, List.append_assoc], ?_⟩
  intro e he
  rcases List.mem_append.mp he with h | h
  · exact p2 e h
  · exact p1 e h

theorem LogExt.mono {P Q : Ev → Prop} {s s' : State} (hpq : ∀ e, P e → Q e) (h : LogExt P s s') :
    LogExt Q s s' := by
  obtain ⟨n, e, p⟩ := h
  exact ⟨n, e, fun x hx => hpq x (p x hx)⟩

theorem LogExt.ext1 {P : Ev → Prop} {s s' : State} {e : Ev} (h : s'.log = e :: s.log) (he : P e) :
    LogExt P s s' := ⟨[e], by simpa using h, by simpa using he⟩

theorem LogExt.ext2 {P : Ev → Prop} {s s' : State} {e1 e2 : Ev} (h : s'.log = e1 :: e2 :: s.log)
    (h1 : P e1) (h2 : P e2) : LogExt P s s' :=
  ⟨[e1, e2], by simpa using h, by simp [h1, h2]⟩

theorem LogExt.ext3 {P : Ev → Prop} {s s' : State} {e1 e2 e3 : Ev}
    (h : s'.log = e1 :: e2 :: e3 :: s.log) (h1 : P e1) (h2 : P e2) (h3 : P e3) : LogExt P s s' :=
  ⟨[e1, e2, e3], by simpa using h, by simp [h1, h2, h3]⟩

/-- error classes `processRx` can report -/
def rxErr (c : Err) : Bool :=
  c = .InvalidCanData || c = .MissingEscapeSequence || c = .InterruptedWithSingleFrame ||
  c = .InterruptedWithFirstFrame || c = .UnexpectedConsecutiveFrame || c = .ChangingInvalidRXDL ||
  c = .WrongSequenceNumber || c = .FrameTooLong || c = .InvalidCanFdFirstFrameRXDL

/-- events `processRx` can log: a delivery or one of its error classes -/
def RxEv (e : Ev) : Prop :=
  match e with
  | .deliver _ => True
  | .err _ c => rxErr c = true
  | _ => False

/-- error classes `processTx` can report besides the N_Bs timeout -/
def txErr (c : Err) : Bool :=
  c = .BadGenerator || c = .UnexpectedFlowControl || c = .UnsupportedWaitFrame ||
  c = .MaximumWaitFrameReached || c = .Overflow

/-- events `processTx` can log besides the N_Bs timeout -/
def TxEv (e : Ev) : Prop :=
  match e with
  | .done _ _ => True
  | .pull _ _ => True
  | .err _ c => txErr c = true
  | _ => False

macro "log_ext" : tactic =>
  `(tactic| first
    | exact LogExt.of_eq rfl
    | exact LogExt.ext1 rfl (by simp [RxEv, rxErr, TxEv, txErr])
    | exact LogExt.ext2 rfl (by simp [RxEv, rxErr, TxEv, txErr]) (by simp [RxEv, rxErr, TxEv, txErr])
    | exact LogExt.ext3 rfl (by simp [RxEv, rxErr, TxEv, txErr]) (by simp [RxEv, rxErr, TxEv, txErr])
        (by simp [RxEv, rxErr, TxEv, txErr]))

theorem LogExt_startReception (s : State) (l : Nat) (d : Bytes) (r : Nat) :
    LogExt RxEv s (s.startReception l d r).1 := by
  unfold startReception
  simp only []
  repeat' split
  all_goals log_ext

theorem LogExt_processRx (s : State) (m : CanMsg) : LogExt RxEv s (s.processRx m).1 := by
  unfold processRx
  simp only []
  repeat' split
  all_goals first
    | log_ext
    | (apply LogExt.trans (s' := (State.startReception _ _ _ _).1) ?_ (by log_ext)
       exact LogExt.trans (LogExt.of_eq rfl) (LogExt_startReception _ _ _ _))

theorem LogExt_checkTimeoutsRx (s : State) :
    LogExt (fun e => e = .err s.now .ConsecutiveFrameTimeout) s s.checkTimeoutsRx := by
  unfold checkTimeoutsRx; split
  · exact LogExt.ext1 rfl rfl
  · exact LogExt.refl _ _

/-- a record update that keeps the log -/
theorem LogExt.mk_r {P : Ev → Prop} {s s' : State} (h : LogExt P s s') {f0 : Cfg} {f1 : Addr} {f2 : Nat} {f3 : RxSt} {f4 : Bytes} {f5 : Nat} {f6 : Nat} {f7 : Nat} {f8 : (Option Nat)} {f9 : Timer} {f10 : Bool} {f11 : (Option Nat)} {f12 : (List Bytes)} {f13 : TxSt} {f14 : (List Req)} {f15 : (Option Req)} {f16 : (Option CanMsg)} {f17 : Nat} {f18 : Nat} {f19 : Nat} {f20 : (Option Nat)} {f21 : Nat} {f22 : Timer} {f23 : Timer} {f24 : (Option FcFrame)} {f25 : Limiter} {f26 : (List (Nat × CanMsg))}
    {x : Option PyExc} : LogExt P s ⟨f0, f1, f2, f3, f4, f5, f6, f7, f8, f9, f10, f11, f12, f13, f14, f15, f16, f17, f18, f19, f20, f21, f22, f23, f24, f25, f26, s'.log, x⟩ := by
  obtain ⟨n, e, p⟩ := h; exact ⟨n, e, p⟩

/-- a record update that adds one event -/
theorem LogExt.mk_cons_r {P : Ev → Prop} {s s' : State} {ev : Ev} (hp : P ev) (h : LogExt P s s') {f0 : Cfg} {f1 : Addr} {f2 : Nat} {f3 : RxSt} {f4 : Bytes} {f5 : Nat} {f6 : Nat} {f7 : Nat} {f8 : (Option Nat)} {f9 : Timer} {f10 : Bool} {f11 : (Option Nat)} {f12 : (List Bytes)} {f13 : TxSt} {f14 : (List Req)} {f15 : (Option Req)} {f16 : (Option CanMsg)} {f17 : Nat} {f18 : Nat} {f19 : Nat} {f20 : (Option Nat)} {f21 : Nat} {f22 : Timer} {f23 : Timer} {f24 : (Option FcFrame)} {f25 : Limiter} {f26 : (List (Nat × CanMsg))}
    {x : Option PyExc} : LogExt P s ⟨f0, f1, f2, f3, f4, f5, f6, f7, f8, f9, f10, f11, f12, f13, f14, f15, f16, f17, f18, f19, f20, f21, f22, f23, f24, f25, f26, ev :: s'.log, x⟩ := by
  obtain ⟨n, e, p⟩ := h
  exact ⟨ev :: n, by simp [e], by intro y hy; rcases List.mem_cons.mp hy with h | h; exact h ▸ hp; exact p y h⟩

theorem LogExt.emit_r {P : Ev → Prop} {s s' : State} {ev : Ev} (hp : P ev) (h : LogExt P s s') :
    LogExt P s (s'.emit ev) := LogExt.mk_cons_r hp h

theorem LogExt.error_r {P : Ev → Prop} {s s' : State} {c : Err} (hp : P (.err s'.now c))
    (h : LogExt P s s') : LogExt P s (s'.error c) := LogExt.mk_cons_r hp h

theorem LogExt.raise_r {P : Ev → Prop} {s s' : State} {c : PyExc} (h : LogExt P s s') :
    LogExt P s (s'.raise c) := LogExt.mk_r h

theorem LogExt_stopSending (s : State) (b : Bool) : LogExt TxEv s (s.stopSending b) := by
  unfold stopSending; split <;> log_ext

theorem LogExt_consumeActive (s : State) (r : Req) (n : Nat) (e : Bool) :
    LogExt TxEv s (s.consumeActive r n e).1 := by
  unfold consumeActive; simp only []; split <;> log_ext

theorem LogExt.stopSending_r {s s' : State} {b : Bool} (h : LogExt TxEv s s') :
    LogExt TxEv s (s'.stopSending b) := h.trans (LogExt_stopSending _ _)

theorem LogExt.consumeActive_r {s s' : State} {r : Req} {n : Nat} {e : Bool} (h : LogExt TxEv s s') :
    LogExt TxEv s (s'.consumeActive r n e).1 := h.trans (LogExt_consumeActive _ _ _ _)

/-- peel the outermost state transformer off a `LogExt TxEv s _` goal -/
macro "peel" : tactic =>
  `(tactic| first
    | with_reducible exact LogExt.refl _ _
    | with_reducible apply LogExt.stopSending_r
    | with_reducible apply LogExt.consumeActive_r
    | with_reducible apply LogExt.raise_r
    | with_reducible apply LogExt.error_r (by simp [TxEv, txErr])
    | with_reducible apply LogExt.emit_r (by simp [TxEv, txErr])
    | with_reducible apply LogExt.mk_r
    | with_reducible apply LogExt.mk_cons_r (by simp [TxEv, txErr]))

theorem LogExt_handleFc (s : State) (f : FcFrame) : LogExt TxEv s (s.handleFc f) := by
  unfold handleFc startRxFcTimer
  simp only []
  repeat' split
  all_goals repeat peel

theorem LogExt_startTx (s : State) (r : Req) (a : Nat) : LogExt TxEv s (s.startTx r a).1 := by
  unfold startTx startRxFcTimer
  simp only []
  repeat' split
  all_goals repeat peel

theorem LogExt_readTxQueue (s : State) (a : Nat) (l : List Req) :
    LogExt TxEv s (s.readTxQueue a l).1 := by
  induction l generalizing s with
  | nil => exact LogExt.of_eq rfl
  | cons r rest ih =>
    unfold readTxQueue
    simp only []
    split
    · exact LogExt.trans (by repeat peel) (ih _)
    · exact LogExt.trans (LogExt.of_eq rfl) (LogExt_startTx _ _ _)

theorem LogExt_transmitCf (s : State) (a : Nat) : LogExt TxEv s (s.transmitCf a).1 := by
  unfold transmitCf startRxFcTimer
  simp only []
  repeat' split
  all_goals repeat peel

theorem txPend_log (s : State) : s.txPend.1.log = s.log := by
  unfold txPend startRxCfTimer State.raise
  simp only []
  repeat' split
  all_goals rfl

theorem txPend_now (s : State) : s.txPend.1.now = s.now := by
  unfold txPend startRxCfTimer State.raise
  simp only []
  repeat' split
  all_goals rfl

theorem LogExt_txFc (s : State) : LogExt TxEv s s.txFc.1 := by
  unfold txFc
  simp only []
  repeat' split
  · exact LogExt.error_r (by simp [TxEv, txErr]) (LogExt.stopSending_r (LogExt.of_eq rfl))
  · exact LogExt.trans (LogExt.of_eq rfl) (LogExt_handleFc _ _)
  · exact LogExt.of_eq rfl

theorem txFc_now (s : State) : s.txFc.1.now = s.now := by
  have := congrArg RxView.now (rxView_txFc s)
  simpa [rxView] using this

theorem LogExt_txFsm (s : State) (a : Nat) : LogExt TxEv s (s.txFsm a).1 := by
  have hd : LogExt TxEv s s.txDeplete := by
    unfold txDeplete
    generalize (decide (s.txState ≠ .idle) && (match s.active with | some r => r.depleted | none => false) && s.standby.isNone) = c
    cases c
    · exact LogExt.refl _ _
    · exact LogExt_stopSending _ _
  have hc : LogExt TxEv s.txDeplete (s.txDeplete.txCore a).1 := by
    generalize s.txDeplete = t
    unfold txCore startRxFcTimer
    simp only []
    repeat' split
    all_goals first
      | exact LogExt_readTxQueue _ _ _
      | exact LogExt_transmitCf _ _
      | (repeat peel)
  unfold txFsm
  split
  · exact LogExt.of_eq rfl
  · refine (hd.trans hc).trans ?_
    unfold txFinish
    repeat' split
    all_goals exact LogExt.of_eq rfl

/-- what one `processTx` pass can log: transmit-side events, and the N_Bs timeout (stamped now) -/
def TxPassEv (now : Nat) (e : Ev) : Prop := TxEv e ∨ e = .err now .FlowControlTimeout

theorem LogExt_txTimeout (s : State) : LogExt (TxPassEv s.now) s s.txTimeout := by
  unfold txTimeout; split
  · refine LogExt.trans (s' := s.error .FlowControlTimeout) (LogExt.ext1 rfl (Or.inr rfl)) ?_
    exact (LogExt_stopSending _ _).mono fun e h => Or.inl h
  · exact LogExt.refl _ _

theorem LogExt_processTx (s : State) : LogExt (TxPassEv s.now) s s.processTx.1 := by
  rw [processTx_eq]
  have h1 := txPend_log s
  have n1 := txPend_now s
  split
  · next h' => rw [h'] at h1; exact LogExt.of_eq h1
  · next h' => rw [h'] at h1; exact LogExt.of_eq h1
  · next s1 h' =>
    rw [h'] at h1 n1
    simp only [] at h1 n1
    have h2 := LogExt_txFc s1
    have n2 := txFc_now s1
    split
    · next h'' =>
      rw [h''] at h2
      exact (LogExt.of_eq h1).trans (h2.mono fun e h => Or.inl h)
    · next s2 h'' =>
      rw [h''] at h2 n2
      simp only [] at h2 n2
      have h3 := LogExt_txTimeout s2
      rw [n2, n1] at h3
      exact ((LogExt.of_eq h1).trans (h2.mono fun e h => Or.inl h)).trans
        (h3.trans ((LogExt_txFsm _ _).mono fun e h => Or.inl h))

/-- a pass whose N_Bs check does not fire logs transmit-side events only -/
theorem LogExt_processTx_quiet (s : State)
    (hq : ∀ s1 s2, s.txPend = (s1, none) → s1.txFc = (s2, false) → s2.timerFc.timedOut s2.now = false) :
    LogExt TxEv s s.processTx.1 := by
  rw [processTx_eq]
  have h1 := txPend_log s
  split
  · next h' => rw [h'] at h1; exact LogExt.of_eq h1
  · next h' => rw [h'] at h1; exact LogExt.of_eq h1
  · next s1 h' =>
    rw [h'] at h1
    simp only [] at h1
    have h2 := LogExt_txFc s1
    split
    · next h'' => rw [h''] at h2; exact (LogExt.of_eq h1).trans h2
    · next s2 h'' =>
      rw [h''] at h2
      simp only [] at h2
      have h3 : s2.txTimeout = s2 := by
        unfold txTimeout; rw [hq s1 s2 h' h'']; rfl
      rw [h3]
      exact ((LogExt.of_eq h1).trans h2).trans (LogExt_txFsm _ _)

/-! ## N_Cr: when `checkTimeoutsRx` fires -/

/-- the deadline test of a timer, spelled out -/
theorem timedOut_iff (t : Timer) (now : Nat) :
    t.timedOut now = true ↔ ∃ t0, t.start = some t0 ∧ (now - t0 > t.timeout ∨ t.timeout = 0) := by
  unfold Timer.timedOut
  cases t.start <;> simp

/-- N_Cr expired: the configured timeout has been exceeded since the timer was (re)started -/
def RxDeadlineMissed (s : State) : Prop :=
  ∃ t0, s.timerCf.start = some t0 ∧ (s.now - t0 > s.cfg.tCf ∨ s.cfg.tCf = 0)

theorem rxDeadlineMissed_iff (s : State) (h : s.timerCf.timeout = s.cfg.tCf) :
    RxDeadlineMissed s ↔ s.timerCf.timedOut s.now = true := by
  rw [timedOut_iff, h]; rfl

theorem checkTimeoutsRx_fire (s : State) (h : s.timerCf.timeout = s.cfg.tCf) (hd : RxDeadlineMissed s) :
    s.checkTimeoutsRx =
      { s with log := .err s.now .ConsecutiveFrameTimeout :: s.log, actualRxdl := none, rxState := .idle,
               rxBuf := [], pendingFc := false, lastFc := none,
               timerCf := { start := none, timeout := s.cfg.tCf } } := by
  unfold checkTimeoutsRx
  rw [(rxDeadlineMissed_iff s h).mp hd]
  simp [stopReceiving, State.error, emit, Timer.stop, h]

theorem checkTimeoutsRx_id (s : State) (h : s.timerCf.timeout = s.cfg.tCf) (hd : ¬ RxDeadlineMissed s) :
    s.checkTimeoutsRx = s := by
  unfold checkTimeoutsRx
  rw [rxDeadlineMissed_iff s h] at hd
  simp [hd]

/-- the timer cannot be expired while idle -/
theorem not_rxDeadlineMissed_of_idle (s : State) (h : RxTimerInv s) (hi : s.rxState = .idle) :
    ¬ RxDeadlineMissed s := by
  rintro ⟨t0, h0, _⟩
  rw [h.1 hi] at h0; cases h0

/-- before the deadline -/
theorem not_rxDeadlineMissed_of_le (s : State) (t0 : Nat) (h0 : s.timerCf.start = some t0)
    (hpos : 0 < s.cfg.tCf) (hle : s.now ≤ t0 + s.cfg.tCf) : ¬ RxDeadlineMissed s := by
  rintro ⟨t1, h1, h2⟩
  rw [h0] at h1; cases h1
  omega

/-! ## one step of the rx loop -/

/-- what `rxLoop` does with the head of the inbox before looking at the address: the clock advances
    by the blocking delay, the frame is logged, N_Cr is checked -/
def rxArrive (s : State) (dt : Nat) (m : CanMsg) (rest : List (Nat × CanMsg)) : State :=
  (({ s with inbox := rest, now := s.now + dt } : State).emit (.rx (s.now + dt) m)).checkTimeoutsRx

theorem rxLoop_cons_forMe (doTx : Bool) (s : State) (st : Stats) (dt : Nat) (m : CanMsg)
    (rest : List (Nat × CanMsg)) (hme : s.addr.rx.isForMe m = true) :
    rxLoop doTx s st ((dt, m) :: rest) =
      (let r := (s.rxArrive dt m rest).processRx m
       let st1 : Stats := { st with received := st.received + 1, processed := st.processed + 1 }
       let st' : Stats := if r.2.2 then { st1 with frames := st1.frames + 1 } else st1
       if r.2.1 then (r.1, st', false)
       else if doTx && r.1.txTimeDriven then (r.1, st', true)
       else rxLoop doTx r.1 st' rest) := by
  have ha : ∀ x : State, x.checkTimeoutsRx.addr = x.addr := fun x => by
    have := congrArg TxView.addr (txView_checkTimeoutsRx x)
    simpa [txView] using this
  rw [rxLoop]
  simp only [ha, emit, hme, if_true, rxArrive]
  rfl

/-! ## accepted frames restart N_Cr -/

/-- an in-sequence Consecutive Frame in WAIT_CF whose RX_DL is acceptable -/
structure CfInSeq (s : State) (m : CanMsg) (d : Decoded) (sn : Nat) (data : Bytes) : Prop where
  dec : decode m.data s.addr.rx.rxPrefixSize = some d
  pdu : d.pdu = .cf sn data
  wait : s.rxState = .waitCf
  seq : sn = (s.lastSeq + 1) % 16
  rxdl : some d.rxDl = s.actualRxdl ∨ s.rxFrameLen - s.rxBuf.length ≤ d.rxDl

/-- the buffer after an accepted Consecutive Frame -/
def cfBuf (s : State) (data : Bytes) : Bytes := s.rxBuf ++ data.take (s.rxFrameLen - s.rxBuf.length)

/-- last frame of the message: delivered, nothing else logged, reception closed -/
theorem processRx_cf_last {s : State} {m : CanMsg} {d : Decoded} {sn : Nat} {data : Bytes}
    (h : CfInSeq s m d sn data) (hl : s.rxFrameLen ≤ (s.cfBuf data).length) :
    (s.processRx m).1.log = .deliver (s.cfBuf data) :: s.log ∧
    (s.processRx m).1.rxQueue = s.rxQueue ++ [s.cfBuf data] ∧
    (s.processRx m).1.rxState = .idle ∧ (s.processRx m).1.timerCf.start = none ∧
    (s.processRx m).2.2 = true := by
  obtain ⟨h1, h2, h3, h4, h5⟩ := h
  unfold cfBuf at hl
  have h6 : (some d.rxDl != s.actualRxdl && decide (d.rxDl < s.rxFrameLen - s.rxBuf.length)) = false := by
    rcases h5 with h5 | h5
    · simp [h5]
    · simp; intro _; omega
  unfold processRx
  simp only [h1, h2, h3, h4, if_true, h6]
  simp only [List.length_append, List.length_take] at hl
  simp [startRxCfTimer, deliver, emit, stopReceiving, Timer.stop, cfBuf, hl]

/-- intermediate frame: appended, nothing logged, N_Cr restarted now (or, at the end of a block,
    stopped until the ContinueToSend that has just been requested goes out) -/
theorem processRx_cf_more {s : State} {m : CanMsg} {d : Decoded} {sn : Nat} {data : Bytes}
    (h : CfInSeq s m d sn data) (hl : (s.cfBuf data).length < s.rxFrameLen) :
    (s.processRx m).1.log = s.log ∧
    (s.processRx m).1.rxBuf = s.cfBuf data ∧ (s.processRx m).1.lastSeq = sn ∧
    (s.processRx m).1.rxQueue = s.rxQueue ∧
    (s.processRx m).1.rxState = .waitCf ∧
    ((s.processRx m).1.timerCf.start = some s.now ∨
      ((s.processRx m).1.timerCf.start = none ∧ (s.processRx m).1.pendingFc = true ∧
        (s.processRx m).1.pendingFcStatus = some 0)) ∧
    (s.processRx m).2.2 = false := by
  obtain ⟨h1, h2, h3, h4, h5⟩ := h
  unfold cfBuf at hl
  have h6 : (some d.rxDl != s.actualRxdl && decide (d.rxDl < s.rxFrameLen - s.rxBuf.length)) = false := by
    rcases h5 with h5 | h5
    · simp [h5]
    · simp; intro _; omega
  simp only [List.length_append, List.length_take] at hl
  have h7 : ¬ (s.rxFrameLen ≤ s.rxBuf.length + min (s.rxFrameLen - s.rxBuf.length) data.length) := by omega
  unfold processRx
  simp only [h1, h2, h3, h4, if_true, h6]
  simp only [startRxCfTimer, requestFc, cfBuf, ge_iff_le, List.length_append, List.length_take, h7,
    if_false, Bool.false_eq_true]
  grind [Timer.stop]

/-- a First Frame that starts a reception -/
structure FfAccepted (s : State) (m : CanMsg) (d : Decoded) (len : Nat) (data : Bytes) (esc : Bool) : Prop where
  dec : decode m.data s.addr.rx.rxPrefixSize = some d
  pdu : d.pdu = .ff len data esc
  dl : validTxDl d.rxDl = true
  fits : len ≤ s.cfg.maxFrameSize

/-- an accepted First Frame (in any state) opens the reception, requests the ContinueToSend and
    starts N_Cr now -/
theorem processRx_ff_start {s : State} {m : CanMsg} {d : Decoded} {len : Nat} {data : Bytes} {esc : Bool}
    (h : FfAccepted s m d len data esc) :
    (s.processRx m).1.rxState = .waitCf ∧ (s.processRx m).1.rxBuf = data ∧
    (s.processRx m).1.rxFrameLen = len ∧
    (s.processRx m).1.timerCf = { start := some s.now, timeout := s.cfg.tCf } ∧
    (s.processRx m).1.pendingFc = true ∧ (s.processRx m).1.pendingFcStatus = some 0 := by
  obtain ⟨h1, h2, h3, h4⟩ := h
  have h5 : ¬ (len > s.cfg.maxFrameSize) := by omega
  unfold processRx startReception
  simp only [h1, h2]
  cases hs : s.rxState <;>
    simp [h3, h5, requestFc, startRxCfTimer, State.error, emit]

/-- the receive side is up to date with its timer: N_Cr has been (re)started at the current instant,
    or is stopped with the ContinueToSend still to be handed out -/
def RxFresh (s : State) : Prop :=
  s.timerCf.start = some s.now ∨
    (s.timerCf.start = none ∧ s.pendingFc = true ∧ s.pendingFcStatus = some 0)

/-- whatever the configuration (listen mode or not, any blocksize), a tx pass right after an accepted
    frame leaves N_Cr running from the current instant -/
theorem processTx_timerCf_of_fresh (s : State) (h : RxFresh s) :
    s.processTx.1.timerCf.start = some s.now := by
  have h1 := congrArg RxView.timerCf (rxView_processTx_of_txPend s)
  simp only [rxView] at h1
  rw [h1]
  unfold RxFresh at h
  unfold txPend
  grind [State.raise, startRxCfTimer]

/-- handing out the ContinueToSend restarts N_Cr -/
theorem processTx_restarts_timerCf (s : State) (hp : s.pendingFc = true) (hs : s.pendingFcStatus = some 0) :
    s.processTx.1.timerCf = { start := some s.now, timeout := s.cfg.tCf } := by
  have h1 := congrArg RxView.timerCf (rxView_processTx_of_txPend s)
  simp only [rxView] at h1
  rw [h1]
  unfold txPend
  simp only [hp, hs, if_true]
  split <;> simp [startRxCfTimer, State.raise]
  split <;> simp [State.raise]

/-! ## N_Bs -/

/-- N_Bs expired -/
def TxDeadlineMissed (s : State) : Prop :=
  ∃ t0, s.timerFc.start = some t0 ∧ (s.now - t0 > s.cfg.tFc ∨ s.cfg.tFc = 0)

theorem txDeadlineMissed_iff (s : State) (h : s.timerFc.timeout = s.cfg.tFc) :
    TxDeadlineMissed s ↔ s.timerFc.timedOut s.now = true := by
  rw [timedOut_iff, h]; rfl

theorem not_timedOut_of_not_waitFc (s : State) (h : TxTimerInv s) (hs : s.txState ≠ .waitFc) (now : Nat) :
    s.timerFc.timedOut now = false := by
  simp [Timer.timedOut, h.1 hs]

theorem txPend_tx (s : State) :
    s.txPend.1.txState = s.txState ∧ s.txPend.1.timerFc = s.timerFc ∧ s.txPend.1.cfg = s.cfg ∧
    s.txPend.1.txQueue = s.txQueue ∧ s.txPend.1.active = s.active ∧ s.txPend.1.lastFc = s.lastFc ∧
    s.txPend.1.rl = s.rl := by
  unfold txPend startRxCfTimer State.raise
  simp only []
  repeat' split
  all_goals simp

theorem txFc_idle (s : State) (hi : s.txState = .idle) : s.txFc.1.txState = .idle := by
  unfold txFc handleFc
  simp only [hi, if_true]
  repeat' split
  all_goals simp [stopSending_fc, State.error, emit, hi]

/-- no N_Bs timeout is reported by a pass that starts with the transmitter idle -/
theorem processTx_idle_quiet (s : State) (h : TxTimerInv s) (hi : s.txState = .idle) :
    LogExt TxEv s s.processTx.1 := by
  apply LogExt_processTx_quiet
  intro s1 s2 h1 h2
  have hp := txPend_tx s
  have hI1 := TxTimerInv_txPend s h
  rw [h1] at hp hI1
  simp only [] at hp hI1
  have hI2 := TxTimerInv_txFc s1 hI1
  have hi2 := txFc_idle s1 (by rw [hp.1, hi])
  rw [h2] at hI2 hi2
  exact not_timedOut_of_not_waitFc s2 hI2 (by simp only [] at hi2; rw [hi2]; simp) _

/-- the state in which an N_Bs timeout leaves the layer: mailbox emptied, error reported, transmission
    stopped with failure -/
def txTimedOutState (s : State) : State :=
  (({ s with lastFc := none } : State).error .FlowControlTimeout).stopSending false

theorem txTimedOutState_log (s : State) (r : Req) (ha : s.active = some r) :
    s.txTimedOutState.log = .done r.id false :: .err s.now .FlowControlTimeout :: s.log := by
  simp [txTimedOutState, stopSending, State.error, emit, ha]

theorem txTimedOutState_fields (s : State) :
    s.txTimedOutState.txState = .idle ∧ s.txTimedOutState.timerFc.start = none ∧
    s.txTimedOutState.active = none ∧ s.txTimedOutState.standby = none ∧
    s.txTimedOutState.txQueue = s.txQueue ∧ s.txTimedOutState.lastFc = none := by
  unfold txTimedOutState stopSending
  simp only []
  split <;> simp_all [State.error, emit, Timer.stop]

/-- N_Bs expired in WAIT_FC: whatever Flow Control (other than Overflow) sits in the mailbox is not
    honoured; the pass continues from the failed, idle state -/
theorem processTx_fc_timeout (s : State) (hp : s.pendingFc = false) (hw : s.txState = .waitFc)
    (hto : s.timerFc.timeout = s.cfg.tFc) (hd : TxDeadlineMissed s)
    (hov : ∀ f, s.lastFc = some f → f.status ≠ 2) :
    s.processTx = s.txTimedOutState.txFsm (s.rl.allowedBytes s.cfg.rlBitMax) := by
  have ht := (txDeadlineMissed_iff s hto).mp hd
  have h1 : s.txPend = (s, none) := by unfold txPend; simp [hp]
  have h2 : s.txFc = ({ s with lastFc := none }, false) := by
    unfold txFc
    cases hf : s.lastFc with
    | none => rfl
    | some f =>
      have := hov f hf
      simp only [this, if_false]
      unfold handleFc
      simp [hw, ht]
  have h3 : ({ s with lastFc := none } : State).txTimeout = s.txTimedOutState := by
    unfold txTimeout txTimedOutState
    simp [ht]
  rw [processTx_eq, h1]
  simp only [h2, h3]

/-- an idle transmitter with nothing queued: the FSM stage does nothing -/
theorem txFsm_idle_empty (s : State) (a : Nat) (hi : s.txState = .idle) (hq : s.txQueue = []) :
    s.txFsm a = (s, none, false) := by
  cases s
  simp only [] at hi hq
  subst hi hq
  simp [txFsm, txDeplete, txCore, txFinish, readTxQueue]

/-- N_Bs expired, nothing else queued: exactly one FlowControlTimeoutError, the request completed
    with failure, no frame, FSM idle with the timer stopped -/
theorem processTx_fc_timeout_empty (s : State) (hp : s.pendingFc = false) (hw : s.txState = .waitFc)
    (hto : s.timerFc.timeout = s.cfg.tFc) (hd : TxDeadlineMissed s)
    (hov : ∀ f, s.lastFc = some f → f.status ≠ 2) (hq : s.txQueue = []) :
    s.processTx = (s.txTimedOutState, none, false) := by
  rw [processTx_fc_timeout s hp hw hto hd hov]
  have := txTimedOutState_fields s
  exact txFsm_idle_empty _ _ this.1 (by rw [this.2.2.2.2.1, hq])

/-- N_Bs expired (any queue): beyond the timeout report only ordinary transmit events follow -/
theorem processTx_fc_timeout_log (s : State) (hp : s.pendingFc = false) (hw : s.txState = .waitFc)
    (hto : s.timerFc.timeout = s.cfg.tFc) (hd : TxDeadlineMissed s)
    (hov : ∀ f, s.lastFc = some f → f.status ≠ 2) :
    LogExt TxEv s.txTimedOutState s.processTx.1 := by
  rw [processTx_fc_timeout s hp hw hto hd hov]
  exact LogExt_txFsm _ _

/-- an Overflow Flow Control ends the transmission by itself, deadline or not: no timeout report -/
theorem processTx_overflow (s : State) (hp : s.pendingFc = false) (f : FcFrame) (hf : s.lastFc = some f)
    (h2 : f.status = 2) :
    s.processTx = ((({ s with lastFc := none } : State).stopSending false).error .Overflow, none, false) := by
  have h1 : s.txPend = (s, none) := by unfold txPend; simp [hp]
  rw [processTx_eq, h1]
  simp only [txFc, hf, h2, if_true]

/-- before the deadline the mailbox stage never leaves an expired timer behind -/
theorem txFc_not_timedOut (s : State) (hto : s.timerFc.timeout = s.cfg.tFc) (hpos : 0 < s.cfg.tFc)
    (hd : ¬ TxDeadlineMissed s) : s.txFc.1.timerFc.timedOut s.now = false := by
  rw [txDeadlineMissed_iff s hto] at hd
  unfold txFc handleFc
  simp only []
  repeat' split
  all_goals simp_all [stopSending_fc, State.error, emit, Timer.stop, Timer.timedOut, startRxFcTimer]
  all_goals omega

/-- a pass before the N_Bs deadline reports no timeout -/
theorem processTx_before_deadline (s : State) (hp : s.pendingFc = false)
    (hto : s.timerFc.timeout = s.cfg.tFc) (hpos : 0 < s.cfg.tFc) (hd : ¬ TxDeadlineMissed s) :
    LogExt TxEv s s.processTx.1 := by
  apply LogExt_processTx_quiet
  intro s1 s2 h1 h2
  have h1' : s.txPend = (s, none) := by unfold txPend; simp [hp]
  rw [h1'] at h1
  cases h1
  have := txFc_not_timedOut s hto hpos hd
  rw [h2] at this
  have hn := txFc_now s
  rw [h2] at hn
  simp only [] at this hn
  rw [hn]; exact this

/-- the state after an honoured ContinueToSend in WAIT_FC -/
def ctsState (s : State) (f : FcFrame) : State :=
  { s with lastFc := none, wftCnt := 0, timerFc := { start := none, timeout := s.timerFc.timeout },
           timerStmin := { start := some s.now,
                           timeout := match s.cfg.overrideStminNs with | some o => o | none => stminNs f.stmin },
           remoteBs := some f.bs, txBlockCnt := 0, txState := .transmitCf }

/-- a ContinueToSend processed before the deadline is honoured: N_Bs stopped, FSM in TRANSMIT_CF,
    and the pass goes on sending from there -/
theorem processTx_cts_honoured (s : State) (hp : s.pendingFc = false) (hw : s.txState = .waitFc)
    (hto : s.timerFc.timeout = s.cfg.tFc) (hd : ¬ TxDeadlineMissed s)
    (f : FcFrame) (hf : s.lastFc = some f) (h0 : f.status = 0) :
    s.processTx = (s.ctsState f).txFsm (s.rl.allowedBytes s.cfg.rlBitMax) := by
  rw [txDeadlineMissed_iff s hto] at hd
  have h1 : s.txPend = (s, none) := by unfold txPend; simp [hp]
  have h2 : s.txFc = (s.ctsState f, false) := by
    unfold txFc
    simp only [hf, h0]
    unfold handleFc ctsState
    simp [hw, hd, h0, Timer.stop, Timer.startAt]
    rfl
  have h3 : (s.ctsState f).txTimeout = s.ctsState f := by
    unfold txTimeout ctsState
    simp [Timer.timedOut]
  rw [processTx_eq, h1]
  simp only [h2, h3]

/-- an accepted Wait before the deadline restarts N_Bs now -/
theorem txFc_wait_restarts (s : State) (hw : s.txState = .waitFc)
    (hto : s.timerFc.timeout = s.cfg.tFc) (hd : ¬ TxDeadlineMissed s)
    (f : FcFrame) (hf : s.lastFc = some f) (h1 : f.status = 1)
    (hmax : s.wftCnt < s.cfg.wftmax) :
    s.txFc = ({ s with lastFc := none, wftCnt := s.wftCnt + 1, txState := .waitFc,
                       timerFc := { start := some s.now, timeout := s.cfg.tFc } }, false) := by
  rw [txDeadlineMissed_iff s hto] at hd
  have hm : ¬ (s.cfg.wftmax = 0) := by omega
  have hm2 : ¬ (s.wftCnt ≥ s.cfg.wftmax) := by omega
  unfold txFc
  simp only [hf, h1]
  unfold handleFc
  simp [hw, hd, hm, hm2, h1, startRxFcTimer]


/-! ## listen mode -/

/-- a listener with no user request: listen mode, nothing queued, transmitter idle -/
def Quiet (s : State) : Prop := s.cfg.listen = true ∧ s.txQueue = [] ∧ s.txState = .idle

theorem Quiet_of_txView {s s' : State} (h : s'.txView = s.txView) (hq : Quiet s) : Quiet s' := by
  unfold Quiet at *
  simp only [txView, TxView.mk.injEq] at h
  obtain ⟨h1, _, _, h2, h3, _⟩ := h
  rw [h1, h2, h3]; exact hq

/-- in listen mode the pending-Flow-Control stage never yields a frame -/
theorem txPend_listen (s : State) (hl : s.cfg.listen = true) (m : CanMsg) :
    s.txPend.2 ≠ some (some m) := by
  unfold txPend
  simp only []
  repeat' split
  all_goals simp_all [startRxCfTimer]

theorem Quiet_txPend (s : State) (hq : Quiet s) : Quiet s.txPend.1 := by
  have := txPend_tx s
  unfold Quiet at *
  rw [this.2.2.1, this.2.2.2.1, this.1]; exact hq

theorem Quiet_stopSending (s : State) (b : Bool) (hq : Quiet s) : Quiet (s.stopSending b) := by
  unfold Quiet at *
  unfold stopSending; split <;> simp_all [emit]

theorem Quiet_handleFc (s : State) (f : FcFrame) (hq : Quiet s) : Quiet (s.handleFc f) := by
  unfold handleFc
  rw [if_pos hq.2.2]
  simpa [Quiet, State.error, emit] using hq

theorem Quiet_txFc (s : State) (hq : Quiet s) : Quiet s.txFc.1 := by
  have h0 : Quiet ({ s with lastFc := none } : State) := by simpa [Quiet] using hq
  unfold txFc
  simp only []
  split
  · split
    · have := Quiet_stopSending _ false h0
      simpa [Quiet, State.error, emit] using this
    · exact Quiet_handleFc _ _ h0
  · exact h0

theorem Quiet_txTimeout (s : State) (hq : Quiet s) : Quiet s.txTimeout := by
  unfold txTimeout; split
  · exact Quiet_stopSending _ _ (by simpa [Quiet, State.error, emit] using hq)
  · exact hq

/-- a quiet listener: one transmit pass outputs nothing and stays quiet -/
theorem Quiet_processTx (s : State) (hq : Quiet s) : s.processTx.2.1 = none ∧ Quiet s.processTx.1 := by
  rw [processTx_eq]
  have h1 := Quiet_txPend s hq
  have hl := txPend_listen s hq.1
  split
  · next h' => rw [h'] at h1; exact ⟨rfl, h1⟩
  · next msg h' => rw [h'] at hl; exact absurd rfl (hl msg)
  · next s1 h' =>
    rw [h'] at h1
    have h2 := Quiet_txFc s1 h1
    split
    · next h'' => rw [h''] at h2; exact ⟨rfl, h2⟩
    · next s2 h'' =>
      rw [h''] at h2
      have h3 := Quiet_txTimeout s2 h2
      rw [txFsm_idle_empty _ _ h3.2.2 h3.2.1]
      exact ⟨rfl, h3⟩

/-- no event of the kind "frame handed to txfn" -/
def NotTx (e : Ev) : Prop := ∀ t m, e ≠ .tx t m

theorem NotTx_of_RxEv (e : Ev) (h : RxEv e) : NotTx e := by
  intro t m he; subst he; exact h

theorem NotTx_of_TxPassEv (now : Nat) (e : Ev) (h : TxPassEv now e) : NotTx e := by
  intro t m he; subst he
  rcases h with h | h
  · exact h
  · cases h

/-- quiet, and nothing handed to `txfn` since `s0` -/
def QuietSince (s0 s : State) : Prop := Quiet s ∧ LogExt NotTx s0 s

theorem QuietSince_loopInv (s0 : State) : LoopInv (QuietSince s0) where
  glue s ib now h := ⟨by simpa [Quiet] using h.1, h.2.trans (LogExt.of_eq rfl)⟩
  rxEv s m h := ⟨Quiet_of_txView (by simp [txView, emit]) h.1,
    h.2.trans (LogExt.ext1 rfl (by intro t m' he; cases he))⟩
  rxNone s h := ⟨Quiet_of_txView (by simp [txView, emit]) h.1,
    h.2.trans (LogExt.ext1 rfl (by intro t m' he; cases he))⟩
  chk s h := ⟨Quiet_of_txView (txView_checkTimeoutsRx s) h.1,
    h.2.trans ((LogExt_checkTimeoutsRx s).mono (by intro e he t m h'; subst he; cases h'))⟩
  prx s m h := ⟨Quiet_of_txView (txView_processRx s m) h.1,
    h.2.trans ((LogExt_processRx s m).mono NotTx_of_RxEv)⟩
  rl s l h := ⟨by simpa [Quiet] using h.1, h.2.trans (LogExt.of_eq rfl)⟩
  ptx s h := ⟨(Quiet_processTx s h.1).2, h.2.trans ((LogExt_processTx s).mono (NotTx_of_TxPassEv _))⟩
  txEv s m h hm := by
    rw [(Quiet_processTx s h.1).1] at hm; cases hm

/-- whatever is in the inbox, `process` hands nothing to `txfn` and the listener stays quiet -/
theorem Quiet_process (s : State) (doRx doTx : Bool) (hq : Quiet s) :
    Quiet (s.process doRx doTx).1 ∧ LogExt NotTx s (s.process doRx doTx).1 :=
  (QuietSince_loopInv s).process doRx doTx s ⟨hq, LogExt.refl _ _⟩

end State


/-! ## a reference receiver without timers, Flow Control, block counting or listen mode -/

/-- what an observer of the receive side hears -/
inductive Heard where
  | payload (p : Bytes)
  | error (c : Err)
  deriving DecidableEq, Repr

/-- deliveries, and the error classes reported by `_process_rx` -/
def heardOf : Ev → Option Heard
  | .deliver p => some (.payload p)
  | .err _ c => if State.rxErr c then some (.error c) else none
  | _ => none

/-- the reassembly state proper -/
structure RxCore where
  rxState : RxSt
  rxBuf : Bytes
  rxFrameLen : Nat
  lastSeq : Nat
  actualRxdl : Option Nat
  rxQueue : List Bytes
  heard : List Heard          -- newest first, as the log
  deriving DecidableEq, Repr

namespace RxCore
def fail (c : RxCore) (e : Err) : RxCore := { c with heard := .error e :: c.heard }
def close (c : RxCore) : RxCore := { c with actualRxdl := none, rxState := .idle, rxBuf := [] }
def put (c : RxCore) (p : Bytes) : RxCore :=
  { c with heard := .payload p :: c.heard, rxQueue := c.rxQueue ++ [p] }

/-- First Frame: open a reception if the frame is acceptable -/
def start (maxLen : Nat) (c : RxCore) (len : Nat) (data : Bytes) (rxDl : Nat) : RxCore :=
  if !(validTxDl rxDl) then (c.fail .InvalidCanFdFirstFrameRXDL).close
  else if len > maxLen then { (c.fail .FrameTooLong).close with lastSeq := 0 }
  else { c with actualRxdl := some rxDl, rxState := .waitCf, rxFrameLen := len, rxBuf := data, lastSeq := 0 }

/-- one frame: new reassembly state, and whether a complete message was received -/
def step (pfx maxLen : Nat) (c : RxCore) (m : CanMsg) : RxCore × Bool :=
  match decode m.data pfx with
  | none => ((c.fail .InvalidCanData).close, false)
  | some d =>
    match d.pdu with
    | .fc _ _ _ => (c, false)
    | .sf _ data esc =>
      if d.canDl > 8 && !esc then (c.fail .MissingEscapeSequence, false)
      else match c.rxState with
        | .idle => (({ c with rxFrameLen := 0 } : RxCore).put data, true)
        | .waitCf => (((c.put data).close).fail .InterruptedWithSingleFrame, true)
    | .ff len data _ =>
      match c.rxState with
      | .idle => (start maxLen { c with rxFrameLen := 0 } len data d.rxDl, false)
      | .waitCf => ((start maxLen c len data d.rxDl).fail .InterruptedWithFirstFrame, false)
    | .cf sn data =>
      match c.rxState with
      | .idle => (({ c with rxFrameLen := 0 } : RxCore).fail .UnexpectedConsecutiveFrame, false)
      | .waitCf =>
        if sn = (c.lastSeq + 1) % 16 then
          let btr := c.rxFrameLen - c.rxBuf.length
          if some d.rxDl != c.actualRxdl && d.rxDl < btr then (c.fail .ChangingInvalidRXDL, false)
          else
            let c := { c with lastSeq := sn, rxBuf := c.rxBuf ++ data.take btr }
            if c.rxBuf.length ≥ c.rxFrameLen then ((c.put c.rxBuf).close, true)
            else (c, false)
        else (c.close.fail .WrongSequenceNumber, false)
end RxCore

namespace State

/-- the receive-side projection of a layer -/
def rxCore (s : State) : RxCore :=
  { rxState := s.rxState, rxBuf := s.rxBuf, rxFrameLen := s.rxFrameLen, lastSeq := s.lastSeq,
    actualRxdl := s.actualRxdl, rxQueue := s.rxQueue, heard := s.log.filterMap heardOf }

theorem rxCore_startReception (s : State) (len : Nat) (data : Bytes) (rxDl : Nat) :
    (s.startReception len data rxDl).1.rxCore =
      RxCore.start s.cfg.maxFrameSize s.rxCore len data rxDl := by
  unfold startReception RxCore.start
  simp only []
  repeat' split
  all_goals simp_all [rxCore, RxCore.fail, RxCore.close, heardOf, rxErr, stopReceiving, State.error, emit,
    requestFc, startRxCfTimer]

theorem rxCore_error (s : State) (c : Err) (h : rxErr c = true) :
    (s.error c).rxCore = s.rxCore.fail c := by
  simp [rxCore, State.error, emit, heardOf, h, RxCore.fail]

/-- `_process_rx`, seen through the projection, is the reference receiver: it depends on nothing but
    the reassembly state, the receive address prefix and `max_frame_size` -/
theorem rxCore_processRx (s : State) (m : CanMsg) :
    (s.processRx m).1.rxCore = (RxCore.step s.addr.rx.rxPrefixSize s.cfg.maxFrameSize s.rxCore m).1 ∧
    (s.processRx m).2.2 = (RxCore.step s.addr.rx.rxPrefixSize s.cfg.maxFrameSize s.rxCore m).2 := by
  unfold processRx RxCore.step
  cases hd : decode m.data s.addr.rx.rxPrefixSize with
  | none => simp [rxCore, RxCore.fail, RxCore.close, heardOf, rxErr, stopReceiving, State.error, emit]
  | some d =>
    simp only []
    cases hp : d.pdu with
    | fc st bs stm => simp [rxCore]
    | sf len data esc =>
      simp only []
      cases hs : s.rxState <;>
      simp only [rxCore, hs] <;> split <;>
      simp [rxCore, RxCore.fail, RxCore.close, RxCore.put, heardOf, rxErr, stopReceiving, State.error, emit,
        deliver, hs]
    | ff len data esc =>
      simp only []
      have hc : s.rxCore.rxState = s.rxState := rfl
      rw [hc]
      cases hs : s.rxState
      · simp only []
        refine ⟨(rxCore_startReception _ _ _ _).trans ?_, trivial⟩
        simp [rxCore, hs]
      · simp only []
        refine ⟨?_, trivial⟩
        rw [rxCore_error _ _ rfl, rxCore_startReception]
    | cf sn data =>
      simp only []
      cases hs : s.rxState
      · simp [rxCore, RxCore.fail, heardOf, rxErr, State.error, emit, hs]
      · simp only [rxCore, hs]
        repeat' split
        all_goals simp_all [rxCore, RxCore.fail, RxCore.close, RxCore.put, heardOf, rxErr, stopReceiving,
          State.error, emit, deliver, startRxCfTimer, requestFc]
        all_goals omega

end State
namespace State

/-! ## where N_Bs is started: only ever at the current instant -/

/-- from `s` to `s'` (same instant, same configuration) the N_Bs timer was left alone, stopped, or
    started now with the configured timeout -/
def FcStep (s s' : State) : Prop :=
  s'.now = s.now ∧ s'.cfg = s.cfg ∧
  (s'.timerFc = s.timerFc ∨ s'.timerFc.start = none ∨
    s'.timerFc = { start := some s.now, timeout := s.cfg.tFc })

theorem FcStep.refl (s : State) : FcStep s s := ⟨rfl, rfl, Or.inl rfl⟩

theorem FcStep.trans {s s' s'' : State} (h1 : FcStep s s') (h2 : FcStep s' s'') : FcStep s s'' := by
  unfold FcStep at *
  grind

theorem FcStep_stopSending (s : State) (b : Bool) : FcStep s (s.stopSending b) := by
  simp [FcStep, stopSending_fc, Timer.stop]

theorem FcStep_consumeActive (s : State) (r : Req) (n : Nat) (e : Bool) :
    FcStep s (s.consumeActive r n e).1 := by
  simp [FcStep, consumeActive_fc]

theorem FcStep_handleFc (s : State) (f : FcFrame) : FcStep s (s.handleFc f) := by
  unfold handleFc
  simp only []
  repeat' split
  all_goals simp_all [FcStep, stopSending_fc, State.error, emit, startRxFcTimer, Timer.stop]

theorem FcStep_startTx (s : State) (r : Req) (a : Nat) : FcStep s (s.startTx r a).1 := by
  unfold startTx
  simp only []
  repeat' split
  all_goals simp_all [FcStep, consumeActive_fc, stopSending_fc, State.error, emit, State.raise,
    startRxFcTimer, Timer.stop]

theorem FcStep_readTxQueue (s : State) (a : Nat) (l : List Req) : FcStep s (s.readTxQueue a l).1 := by
  induction l generalizing s with
  | nil => simp [readTxQueue, FcStep]
  | cons r rest ih =>
    unfold readTxQueue
    simp only []
    split
    · exact FcStep.trans (by simp [FcStep, emit]) (ih _)
    · exact FcStep.trans (by simp [FcStep]) (FcStep_startTx _ _ _)

theorem FcStep_transmitCf (s : State) (a : Nat) : FcStep s (s.transmitCf a).1 := by
  unfold transmitCf
  simp only []
  repeat' split
  all_goals simp_all [FcStep, consumeActive_fc, stopSending_fc, State.error, emit, State.raise,
    startRxFcTimer, Timer.stop]

theorem FcStep_txFc (s : State) : FcStep s s.txFc.1 := by
  have h0 : FcStep s ({ s with lastFc := none } : State) := by simp [FcStep]
  unfold txFc
  simp only []
  split
  · split
    · refine h0.trans ((FcStep_stopSending _ false).trans ?_)
      simp [FcStep, State.error, emit]
    · exact h0.trans (FcStep_handleFc _ _)
  · exact h0

theorem FcStep_txTimeout (s : State) : FcStep s s.txTimeout := by
  unfold txTimeout; split
  · exact FcStep.trans (s' := s.error .FlowControlTimeout) (by simp [FcStep, State.error, emit])
      (FcStep_stopSending _ _)
  · exact FcStep.refl _

theorem FcStep_txPend (s : State) : FcStep s s.txPend.1 := by
  unfold txPend startRxCfTimer State.raise
  simp only []
  repeat' split
  all_goals simp [FcStep]

theorem FcStep_txFsm (s : State) (a : Nat) : FcStep s (s.txFsm a).1 := by
  have hd : FcStep s s.txDeplete := by
    unfold txDeplete
    generalize (decide (s.txState ≠ .idle) && (match s.active with | some r => r.depleted | none => false) && s.standby.isNone) = c
    cases c
    · exact FcStep.refl _
    · exact FcStep_stopSending _ _
  have hc : FcStep s.txDeplete (s.txDeplete.txCore a).1 := by
    generalize s.txDeplete = t
    unfold txCore
    cases hs : t.txState <;> simp only []
    · exact FcStep_readTxQueue _ _ _
    · exact FcStep.refl _
    · exact FcStep_transmitCf _ _
    all_goals
      cases hb : t.standby <;> simp only []
      · exact FcStep.refl _
      · split
        · first
            | (simp only [hs, reduceCtorEq, ite_false]
               exact FcStep.trans (s' := ({ t with standby := none } : State)) (by simp [FcStep])
                 (FcStep_stopSending _ _))
            | simp [FcStep, startRxFcTimer]
        · exact FcStep.refl _
  unfold txFsm
  split
  · simp [FcStep, State.raise]
  · refine (hd.trans hc).trans ?_
    unfold txFinish
    repeat' split
    all_goals simp [FcStep]

theorem FcStep_processTx (s : State) : FcStep s s.processTx.1 := by
  rw [processTx_eq]
  have h1 := FcStep_txPend s
  split
  · next h' => rw [h'] at h1; exact h1
  · next h' => rw [h'] at h1; exact h1
  · next s1 h' =>
    rw [h'] at h1
    have h2 := FcStep_txFc s1
    split
    · next h'' => rw [h''] at h2; exact h1.trans h2
    · next h'' =>
      rw [h''] at h2
      exact (h1.trans h2).trans ((FcStep_txTimeout _).trans (FcStep_txFsm _ _))

/-- whenever a pass enters WAIT_FC (First Frame sent — directly or out of rate-limiter standby —, block
    finished) N_Bs is started at that instant -/
theorem processTx_enters_waitFc (s : State) (h : TxTimerInv s) (hs : s.txState ≠ .waitFc)
    (hw : s.processTx.1.txState = .waitFc) :
    s.processTx.1.timerFc = { start := some s.now, timeout := s.cfg.tFc } := by
  have h' := TxTimerInv_processTx s h
  obtain ⟨_, _, h3⟩ := FcStep_processTx s
  have a := h.1 hs
  have b := h'.2.1 hw
  rcases h3 with h3 | h3 | h3
  · rw [h3] at b; exact absurd a b
  · exact absurd h3 b
  · exact h3

end State
namespace State

theorem heardOf_TxPassEv (now : Nat) (e : Ev) (h : TxPassEv now e) : heardOf e = none := by
  rcases h with h | h
  · cases e <;> simp_all [TxEv, heardOf]
    rename_i t c
    cases c <;> simp_all [txErr, rxErr]
  · subst h; simp [heardOf, rxErr]

/-- a transmit pass is invisible through the receive-side projection -/
theorem rxCore_processTx (s : State) : s.processTx.1.rxCore = s.rxCore := by
  have h1 := rxView_processTx_of_txPend s
  have h2 : s.txPend.1.rxState = s.rxState ∧ s.txPend.1.rxBuf = s.rxBuf ∧
      s.txPend.1.rxFrameLen = s.rxFrameLen ∧ s.txPend.1.lastSeq = s.lastSeq ∧
      s.txPend.1.actualRxdl = s.actualRxdl ∧ s.txPend.1.rxQueue = s.rxQueue := by
    unfold txPend startRxCfTimer State.raise
    simp only []
    repeat' split
    all_goals simp
  simp only [rxView, RxView.mk.injEq] at h1
  obtain ⟨new, hl, hp⟩ := LogExt_processTx s
  have h3 : s.processTx.1.log.filterMap heardOf = s.log.filterMap heardOf := by
    rw [hl, List.filterMap_append]
    have : new.filterMap heardOf = [] := by
      rw [List.filterMap_eq_nil_iff]
      intro e he; exact heardOf_TxPassEv _ e (hp e he)
    rw [this]; rfl
  simp only [rxCore, h3]
  obtain ⟨_, _, _, a1, a2, a3, a4, _, a5, _, _, _, a6⟩ := h1
  rw [a1, a2, a3, a4, a5, a6, h2.1, h2.2.1, h2.2.2.1, h2.2.2.2.1, h2.2.2.2.2.1, h2.2.2.2.2.2]

/-- configuration and address never change -/
theorem processRx_env (s : State) (m : CanMsg) :
    (s.processRx m).1.cfg = s.cfg ∧ (s.processRx m).1.addr = s.addr := by
  have := txView_processRx s m
  simp only [txView, TxView.mk.injEq] at this
  exact ⟨this.1, this.2.1⟩

theorem processTx_env (s : State) : s.processTx.1.cfg = s.cfg ∧ s.processTx.1.addr = s.addr := by
  have h1 := rxView_processTx_of_txPend s
  simp only [rxView, RxView.mk.injEq] at h1
  have h2 : s.txPend.1.cfg = s.cfg ∧ s.txPend.1.addr = s.addr := by
    unfold txPend startRxCfTimer State.raise
    simp only []
    repeat' split
    all_goals simp
  exact ⟨h1.1.trans h2.1, h1.2.1.trans h2.2⟩

/-- a layer observing a sequence of frames addressed to it, a transmit pass after each (no time passes:
    no N_Cr timeout intervenes) -/
def observe (s : State) : List CanMsg → State
  | [] => s
  | m :: ms => observe ((s.processRx m).1.processTx.1) ms

theorem rxCore_observe (s1 s2 : State) (ms : List CanMsg) (hc : s1.rxCore = s2.rxCore)
    (hp : s1.addr.rx.rxPrefixSize = s2.addr.rx.rxPrefixSize)
    (hm : s1.cfg.maxFrameSize = s2.cfg.maxFrameSize) :
    (s1.observe ms).rxCore = (s2.observe ms).rxCore := by
  induction ms generalizing s1 s2 with
  | nil => exact hc
  | cons m ms ih =>
    unfold observe
    apply ih
    · rw [rxCore_processTx, rxCore_processTx, (rxCore_processRx s1 m).1, (rxCore_processRx s2 m).1,
        hc, hp, hm]
    · rw [(processTx_env _).2, (processTx_env _).2, (processRx_env s1 m).2, (processRx_env s2 m).2, hp]
    · rw [(processTx_env _).1, (processTx_env _).1, (processRx_env s1 m).1, (processRx_env s2 m).1, hm]

end State
end Isotp
