import Isotp.PyAgree.EvalLemmas
import Isotp.PyAgree.MiscLemmas
import Isotp.PyAgree.MiscTimer
import Isotp.PyAgree.MiscFc
import Isotp.PyAgree.AddressFns
import Isotp.Process
/-!
  Source agreement for the small transmit-side helpers and accessors of `TransportLayerLogic`, for `RateLimiter` and for
  `FiniteByteGenerator` (`isotp/protocol.py`, `isotp/tools.py`), FOR ALL STATES and for EVERY environment that shows the model object
  (`Has env (txAttrs s)`: each attribute the method touches has the value the model state gives it; nothing is assumed of the
  other names, and every theorem that writes comes with its frame condition).

  | source (`Src.`)                              | model                                   | theorem |
  |----------------------------------------------|-----------------------------------------|---------|
  | `TransportLayerLogic_p_stop_sending`         | `State.stopSending s ok`                | `p_stop_sending_agrees` (`p_stop_sending_run`) |
  | `TransportLayerLogic_p_start_rx_fc_timer`    | `State.startRxFcTimer`                  | `p_start_rx_fc_timer_agrees` (relative to the float conversion) |
  | `TransportLayerLogic_available`              | `State.available`                       | `available_agrees` |
  | `TransportLayerLogic_transmitting`           | `State.transmitting`                    | `transmitting_agrees` |
  | `TransportLayerLogic_is_tx_throttled`        | `State.isTxThrottled`                   | `is_tx_throttled_agrees` |
  | `FiniteByteGenerator_total_length`           | `Req.size`                              | `fbg_total_length_agrees` |
  | `FiniteByteGenerator_remaining_size`         | `Req.remaining`                         | `fbg_remaining_size_agrees` (needs `consumed ≤ size`: `fbg_remaining_size_needs_le`), `fbg_remaining_size_int` |
  | `FiniteByteGenerator_depleted`               | `Req.depleted`                          | `fbg_depleted_agrees` |
  | `TransportLayerLogic_stop_sending`           | `State.stopSending s false`             | `stop_sending_agrees`, `stop_sending_calls` |
  | `TransportLayerLogic_stop_receiving`         | `State.stopReceiving`                   | `stop_receiving_agrees`, `stop_receiving_calls` |
  | `RateLimiter_allowed_bytes`                  | `Limiter.allowedBytes`                  | `ratelimiter_allowed_bytes_agrees` (integer-valued `window_bit_max`) |
  | `RateLimiter_reset`                          | `Limiter.reset`                         | `ratelimiter_reset_agrees` (integer factors), `ratelimiter_reset_run` (all values) |
  | `RateLimiter_enable` / `RateLimiter_disable` | the `enabled` flag (+ `reset`)          | `ratelimiter_enable_agrees`, `ratelimiter_disable_agrees` |
  | `TransportLayerLogic_p_make_flow_control`    | `makeFlowControl`                       | `p_make_flow_control_agrees` (`_general`) |
  | `TransportLayerLogic_p_trigger_error`        | `State.error`                           | `p_trigger_error_agrees` (`_general`: all three guards) |
  | `TransportLayerLogic_SendRequest_complete`   | (the `.done` event)                     | `sendrequest_complete_calls` |

  Outside the subset (stated as theorems): float operands in `RateLimiter` (`ratelimiter_allowed_bytes_float_outside_subset`,
  `ratelimiter_reset_float_outside_subset`).  Generic machinery is in `namespace TxH`.
-/
namespace Isotp.PyAgree
open Isotp Isotp.Py

/-! ## 0. Infrastructure -/

/-- `env` has every binding of `bs` -/
def Has (env : Env) (bs : List (String × PV)) : Prop := ∀ kv ∈ bs, env kv.1 = some kv.2

/-- every list of bindings with distinct names is shown by the environment built from it (non-vacuity of the `Has` hypotheses) -/
theorem has_envOf : ∀ (bs : List (String × PV)), (bs.map (·.1)).Nodup → Has (envOf bs) bs
  | [], _ => by intro kv h; cases h
  | b :: bs, hn => by
    have hn' := List.nodup_cons.mp hn
    intro kv h
    rcases List.mem_cons.mp h with rfl | h
    · simp [envOf, List.find?]
    · have hne : (b.1 == kv.1) = false := by
        rw [beq_eq_false_iff_ne]
        intro e
        exact hn'.1 (by rw [show (fun x : String × PV => x.1) b = kv.1 from e]; exact List.mem_map_of_mem h)
      have ih := has_envOf bs hn'.2 kv h
      simp only [envOf, List.find?, hne] at ih ⊢
      exact ih

theorem Has.append_left {env : Env} {as bs : List (String × PV)} (h : Has env (as ++ bs)) : Has env as :=
  fun kv hkv => h kv (List.mem_append_left _ hkv)
theorem Has.append_right {env : Env} {as bs : List (String × PV)} (h : Has env (as ++ bs)) : Has env bs :=
  fun kv hkv => h kv (List.mem_append_right _ hkv)

namespace TxH

theorem set_get (env : Env) (k : String) (v : PV) (k' : String) :
    (env.set k v) k' = if k' = k then some v else env k' := rfl

/-- the names the interpreter treats as builtins; every other call goes to `Meths` -/
def builtinNames : List String :=
  ["len", "int", "bool", "min", "max", "bytes", "isinstance_int", "isinstance_bool", "isinstance_float", "isinstance_int_float"]

theorem evalBuiltin_none (fn : String) (args : List PV) (h : fn ∉ builtinNames) : evalBuiltin fn args = none := by
  simp only [builtinNames, List.mem_cons, List.not_mem_nil, or_false, not_or] at h
  unfold evalBuiltin; split <;> simp_all

theorem cons_next {M : Meths} {env env' : Env} {s : PStmt} {rest : PBlock}
    (h : execStmt M env s = .ok (.next env')) : execBlock M env (.cons s rest) = execBlock M env' rest := by
  simp only [execBlock, h, ok_bind]

theorem cons_ret {M : Meths} {env env' : Env} {s : PStmt} {rest : PBlock} {v : PV}
    (h : execStmt M env s = .ok (.returned v env')) : execBlock M env (.cons s rest) = .ok (.returned v env') := by
  simp only [execBlock, h, ok_bind]

theorem cons_err {M : Meths} {env : Env} {s : PStmt} {rest : PBlock} {e : PErr}
    (h : execStmt M env s = .error e) : execBlock M env (.cons s rest) = .error e := by
  simp only [execBlock, h, error_bind]

theorem assign_int (M : Meths) (env : Env) (t : String) (i : Int) :
    execStmt M env (.assign t (.int i)) = .ok (.next (env.set t (pint i))) := by
  simp [execStmt, eval]

theorem assign_none (M : Meths) (env : Env) (t : String) :
    execStmt M env (.assign t .none) = .ok (.next (env.set t pnone)) := by
  simp [execStmt, eval]

theorem assign_tt (M : Meths) (env : Env) (t : String) :
    execStmt M env (.assign t .tt) = .ok (.next (env.set t (pbool true))) := by
  simp [execStmt, eval]

theorem assign_ff (M : Meths) (env : Env) (t : String) :
    execStmt M env (.assign t .ff) = .ok (.next (env.set t (pbool false))) := by
  simp [execStmt, eval]

theorem assign_var (M : Meths) (env : Env) (t src : String) (v : PV) (h : env src = some v) :
    execStmt M env (.assign t (.var src)) = .ok (.next (env.set t v)) := by
  simp [execStmt, eval, h]

/-- a call statement without arguments -/
theorem proc0 (M : Meths) (env env' : Env) (fn : String) (hb : fn ∉ builtinNames) (hp : M.proc fn [] env = .ok env') :
    execStmt M env (.expr (.call fn .nil)) = .ok (.next env') := by
  simp [execStmt, evalArgs, evalBuiltin_none fn _ hb, hp]

/-- a call statement with one argument -/
theorem proc1 (M : Meths) (env env' : Env) (fn : String) (a : PExpr) (v : PV) (hb : fn ∉ builtinNames)
    (ha : eval M env a = .ok v) (hp : M.proc fn [v] env = .ok env') :
    execStmt M env (.expr (.call fn (.cons a .nil))) = .ok (.next env') := by
  simp [execStmt, evalArgs, ha, evalBuiltin_none fn _ hb, hp]

theorem eval_var (M : Meths) (env : Env) (p : String) (v : PV) (h : env p = some v) : eval M env (.var p) = .ok v := by
  simp [eval, h]

/-- a call expression without arguments -/
theorem fn0 (M : Meths) (env : Env) (fn : String) (r : Except PErr PV) (hb : fn ∉ builtinNames) (hf : M.fn fn [] env = r) :
    eval M env (.call fn .nil) = r := by
  simp [eval, evalArgs, evalBuiltin_none fn _ hb, hf]

theorem runFn_next {M : Meths} {env env' : Env} {b : PBlock} (h : execBlock M env b = .ok (.next env')) :
    runFn M env b = .ok (pnone, env') := by simp [runFn, h]
theorem runFn_ret {M : Meths} {env env' : Env} {b : PBlock} {v : PV} (h : execBlock M env b = .ok (.returned v env')) :
    runFn M env b = .ok (v, env') := by simp [runFn, h]
theorem runFn_err {M : Meths} {env : Env} {b : PBlock} {e : PErr} (h : execBlock M env b = .error e) :
    runFn M env b = .error e := by simp [runFn, h]

/-- the n-th top-level statement of a block -/
def nth : PBlock → Nat → PStmt
  | .nil, _ => .pass
  | .cons s _, 0 => s
  | .cons _ r, n + 1 => nth r n

/-- the block from its n-th top-level statement on -/
def drop : PBlock → Nat → PBlock
  | b, 0 => b
  | .nil, _ + 1 => .nil
  | .cons _ r, n + 1 => drop r n

theorem step_next {M : Meths} {env env' : Env} {b : PBlock} {n : Nat}
    (hb : drop b n = .cons (nth b n) (drop b (n + 1)))
    (h : execStmt M env (nth b n) = .ok (.next env')) :
    execBlock M env (drop b n) = execBlock M env' (drop b (n + 1)) := by
  rw [hb]; exact cons_next h

end TxH
open TxH

/-! ## 1. The transmit side of a `TransportLayerLogic` object, as the interpreter sees it -/

def txStName : TxSt → String
  | .idle => "IDLE" | .waitFc => "WAIT_FC" | .transmitCf => "TRANSMIT_CF"
  | .sfStandby => "TRANSMIT_SF_STANDBY" | .ffStandby => "TRANSMIT_FF_STANDBY"

def txStPV (t : TxSt) : PV := .sc (.enum "TxState" (txStName t))

/-- an object-valued attribute that is `None` or an (opaque) object -/
def objPV (name : String) (present : Bool) : PV := if present then .meth name else pnone

/-- one outcome of `SendRequest.complete(success)`: the two scalars `id, success` -/
def donePair (id : Nat) (ok : Bool) : List Sc := [.py (.int id), .py (.bool ok)]

/-- the outcomes `SendRequest.complete(success)` recorded so far, oldest first, each as the two scalars `id, success`
    (the model's `.done id ok` events; the log of the model is newest first) -/
def doneHist : List Ev → List Sc
  | [] => []
  | .done id ok :: rest => doneHist rest ++ donePair id ok
  | _ :: rest => doneHist rest

/-- the attributes the transmit-side helpers read / write.  The two `Timer` sub-objects appear through their attributes
    (`self.timer_rx_fc.start_time` is the `self.start_time` of MiscTimer's `timerEnv s.timerFc`); `#done` is the history of
    completed requests (not a Python attribute: what the harness observes of `SendRequest.complete`). -/
def txAttrs (s : State) : List (String × PV) :=
  [("self.tx_state", txStPV s.txState),
   ("self.tx_frame_length", pint s.txFrameLen),
   ("self.tx_seqnum", pint s.txSeq),
   ("self.tx_block_counter", pint s.txBlockCnt),
   ("self.remote_blocksize", optPV s.remoteBs),
   ("self.wft_counter", pint s.wftCnt),
   ("self.tx_standby_msg", objPV "standby" s.standby.isSome),
   ("self.active_send_request", objPV "req" s.active.isSome),
   ("self.timer_rx_fc.start_time", optPV s.timerFc.start),
   ("self.timer_rx_fc.timeout", pint s.timerFc.timeout),
   ("self.timer_tx_stmin.start_time", optPV s.timerStmin.start),
   ("self.timer_tx_stmin.timeout", pint s.timerStmin.timeout),
   ("#done", .list (doneHist s.log))]

def txKeys : List String :=
  ["self.tx_state", "self.tx_frame_length", "self.tx_seqnum", "self.tx_block_counter", "self.remote_blocksize",
   "self.wft_counter", "self.tx_standby_msg", "self.active_send_request", "self.timer_rx_fc.start_time",
   "self.timer_rx_fc.timeout", "self.timer_tx_stmin.start_time", "self.timer_tx_stmin.timeout", "#done"]

theorem txAttrs_keys (s : State) : (txAttrs s).map (·.1) = txKeys := rfl

theorem has_txAttrs {env : Env} {s : State} (h : Has env (txAttrs s)) :
    env "self.tx_state" = some (txStPV s.txState) ∧
    env "self.tx_frame_length" = some (pint s.txFrameLen) ∧
    env "self.tx_seqnum" = some (pint s.txSeq) ∧
    env "self.tx_block_counter" = some (pint s.txBlockCnt) ∧
    env "self.remote_blocksize" = some (optPV s.remoteBs) ∧
    env "self.wft_counter" = some (pint s.wftCnt) ∧
    env "self.tx_standby_msg" = some (objPV "standby" s.standby.isSome) ∧
    env "self.active_send_request" = some (objPV "req" s.active.isSome) ∧
    env "self.timer_rx_fc.start_time" = some (optPV s.timerFc.start) ∧
    env "self.timer_rx_fc.timeout" = some (pint s.timerFc.timeout) ∧
    env "self.timer_tx_stmin.start_time" = some (optPV s.timerStmin.start) ∧
    env "self.timer_tx_stmin.timeout" = some (pint s.timerStmin.timeout) ∧
    env "#done" = some (.list (doneHist s.log)) := by
  simpa [Has, txAttrs] using h

/-- the members of `TxState`, by the dotted path the methods use -/
def txConsts : List (String × PV) :=
  [("self.TxState.IDLE", txStPV .idle), ("self.TxState.WAIT_FC", txStPV .waitFc), ("self.TxState.TRANSMIT_CF", txStPV .transmitCf),
   ("self.TxState.TRANSMIT_SF_STANDBY", txStPV .sfStandby), ("self.TxState.TRANSMIT_FF_STANDBY", txStPV .ffStandby)]

/-- ... are the ones dumped from the source -/
theorem txConsts_dumped : ∀ kv ∈ txConsts, kv ∈ Src.consts := by decide

theorem has_txConsts {env : Env} (h : Has env txConsts) :
    env "self.TxState.IDLE" = some (txStPV .idle) ∧ env "self.TxState.WAIT_FC" = some (txStPV .waitFc) ∧
    env "self.TxState.TRANSMIT_CF" = some (txStPV .transmitCf) ∧
    env "self.TxState.TRANSMIT_SF_STANDBY" = some (txStPV .sfStandby) ∧
    env "self.TxState.TRANSMIT_FF_STANDBY" = some (txStPV .ffStandby) := by
  simpa [Has, txConsts] using h

/-- The primitives the transmit-side helpers call, in state `s`:
    * `self.active_send_request.complete(success)` appends `(id, success)` of the ACTIVE request to the history `#done`
      (calling it on `None` would be an `AttributeError`);
    * `self.timer_rx_fc.stop()` / `self.timer_tx_stmin.stop()` are `Timer.stop` on the sub-object: `start_time = None`
      (`timer_stop_agrees`, and `txMeths_timer_stop_is_source` below);
    * `float(x)` of an `int` is numerically `x` (the interpreter's arithmetic is on integers / rationals: `float(x) / 1000` is then
      the exact rational `x/1000`); `Timer(timeout=<float>)` is an opaque object; `self.timer_rx_fc.start()` on that fresh object:
      see `p_start_rx_fc_timer_agrees`;
    * `self.rx_queue.empty()` / `self.tx_queue.empty()` answer what the model's queues answer. -/
def txMeths (s : State) : Meths where
  fn := fun name args _ =>
    match name, args with
    | "float", [.sc (.py (.int i))] => .ok (pint i)
    | "Timer#timeout", [.sc (.py (.float _ _))] => .ok (.meth "Timer")
    | "self.rx_queue.empty", [] => .ok (pbool s.rxQueue.isEmpty)
    | "self.tx_queue.empty", [] => .ok (pbool s.txQueue.isEmpty)
    | n, _ => .error (.unsupported ("call " ++ n))
  proc := fun name args env =>
    match name, args with
    | "self.active_send_request.complete", [.sc (.py (.bool ok))] =>
      (match s.active, env "#done" with
       | some r, some (.list h) => .ok (env.set "#done" (.list (h ++ donePair r.id ok)))
       | _, _ => .error (.exc .AttributeError))
    | "self.timer_rx_fc.stop", [] => .ok (env.set "self.timer_rx_fc.start_time" pnone)
    | "self.timer_tx_stmin.stop", [] => .ok (env.set "self.timer_tx_stmin.start_time" pnone)
    | "self.timer_rx_fc.start", [] =>
      (match env "self.timer_rx_fc" with
       | some (.meth "Timer") =>
         .ok ((env.set "self.timer_rx_fc.timeout" (pint s.cfg.tFc)).set "self.timer_rx_fc.start_time" (pint s.now))
       | _ => .error (.exc .AttributeError))
    | n, _ => .error (.unsupported ("call " ++ n))

theorem txMeths_complete (s : State) (r : Req) (ha : s.active = some r) (ok : Bool) (env : Env) (h : List Sc)
    (hd : env "#done" = some (.list h)) :
    (txMeths s).proc "self.active_send_request.complete" [pbool ok] env =
      .ok (env.set "#done" (.list (h ++ donePair r.id ok))) := by
  show (match s.active, env "#done" with
       | some r, some (PV.list h) => Except.ok (env.set "#done" (PV.list (h ++ donePair r.id ok)))
       | _, _ => (Except.error (PErr.exc .AttributeError) : Except PErr Env)) = _
  rw [ha, hd]

theorem txMeths_fc_stop (s : State) (env : Env) :
    (txMeths s).proc "self.timer_rx_fc.stop" [] env = .ok (env.set "self.timer_rx_fc.start_time" pnone) := rfl
theorem txMeths_stmin_stop (s : State) (env : Env) :
    (txMeths s).proc "self.timer_tx_stmin.stop" [] env = .ok (env.set "self.timer_tx_stmin.start_time" pnone) := rfl

/-- the value `self.timer_rx_fc.stop()` leaves in `start_time` is the one the interpreted `Timer.stop` leaves in the `self.start_time`
    of the timer object -/
theorem txMeths_timer_stop_is_source (s : State) (env : Env) (M : Meths) :
    ((txMeths s).proc "self.timer_rx_fc.stop" [] env).map (· "self.timer_rx_fc.start_time") =
      (envM M (timerEnv s.timerFc) Src.Timer_stop).map (· "self.start_time") ∧
    ((txMeths s).proc "self.timer_tx_stmin.stop" [] env).map (· "self.timer_tx_stmin.start_time") =
      (envM M (timerEnv s.timerStmin) Src.Timer_stop).map (· "self.start_time") := by
  rw [timer_stop_start_time, timer_stop_start_time]
  exact ⟨rfl, rfl⟩

/-! ## A. `_stop_sending(success)` = `State.stopSending` -/

/-- the environment `_stop_sending(success)` ends with -/
def stopEnv (s : State) (ok : Bool) (env : Env) : Env :=
  let env1 := match s.active with
    | some r =>
      (env.set "#done" (.list (doneHist s.log ++ donePair r.id ok))).set "self.active_send_request" pnone
    | none => env
  (((((((((env1.set "self.tx_state" (txStPV .idle)).set "self.tx_frame_length" (pint 0)).set
    "self.timer_rx_fc.start_time" pnone).set "self.timer_tx_stmin.start_time" pnone).set "self.remote_blocksize" pnone).set
    "self.tx_block_counter" (pint 0)).set "self.tx_seqnum" (pint 0)).set "self.wft_counter" (pint 0)).set
    "self.tx_standby_msg" pnone)

namespace TxH
abbrev SS (n : Nat) : PStmt := nth Src.TransportLayerLogic_p_stop_sending n
abbrev SR (n : Nat) : PBlock := drop Src.TransportLayerLogic_p_stop_sending n

/-- statement 0: `if self.active_send_request is not None: self.active_send_request.complete(success); self.active_send_request = None` -/
theorem stop_stmt0 (s : State) (ok : Bool) (env : Env) (hE : Has env (txAttrs s)) (hs : env "success" = some (pbool ok)) :
    execStmt (txMeths s) env (SS 0) = .ok (.next (match s.active with
      | some r =>
        (env.set "#done" (.list (doneHist s.log ++ donePair r.id ok))).set "self.active_send_request" pnone
      | none => env)) := by
  obtain ⟨-, -, -, -, -, -, -, hA, -, -, -, -, hD⟩ := has_txAttrs hE
  cases ha : s.active with
  | none =>
    simp [SS, nth, Src.TransportLayerLogic_p_stop_sending, execStmt, execBlock, eval, hA, ha, objPV]
  | some r =>
    have hc := txMeths_complete s r ha ok env _ hD
    simp [SS, nth, Src.TransportLayerLogic_p_stop_sending, execStmt, execBlock, eval, evalArgs, hA, ha, objPV, hs,
      evalBuiltin_none "self.active_send_request.complete" _ (by decide), hc]
end TxH

/-- **`_stop_sending`, run**: in every environment that shows the transmit side of `s`, the call returns `None` and leaves `stopEnv` -/
theorem p_stop_sending_run (s : State) (ok : Bool) (env : Env) (hE : Has env (txAttrs s)) (hC : Has env txConsts)
    (hs : env "success" = some (pbool ok)) :
    runFn (txMeths s) env Src.TransportLayerLogic_p_stop_sending = .ok (pnone, stopEnv s ok env) := by
  obtain ⟨hI, -⟩ := has_txConsts hC
  apply runFn_next
  show execBlock _ env (SR 0) = _
  rw [step_next rfl (stop_stmt0 s ok env hE hs)]
  rw [step_next rfl (assign_var _ _ "self.tx_state" "self.TxState.IDLE" (txStPV .idle)
    (by cases s.active <;> simp [set_get, hI]))]
  rw [step_next rfl (assign_int _ _ "self.tx_frame_length" 0)]
  rw [step_next rfl (proc0 _ _ _ "self.timer_rx_fc.stop" (by decide) (txMeths_fc_stop s _))]
  rw [step_next rfl (proc0 _ _ _ "self.timer_tx_stmin.stop" (by decide) (txMeths_stmin_stop s _))]
  rw [step_next rfl (assign_none _ _ "self.remote_blocksize")]
  rw [step_next rfl (assign_int _ _ "self.tx_block_counter" 0)]
  rw [step_next rfl (assign_int _ _ "self.tx_seqnum" 0)]
  rw [step_next rfl (assign_int _ _ "self.wft_counter" 0)]
  rw [step_next rfl (assign_none _ _ "self.tx_standby_msg")]
  rfl

/-- ... and `stopEnv` shows the transmit side of the model's `s.stopSending ok` -/
theorem stopEnv_has (s : State) (ok : Bool) (env : Env) (hE : Has env (txAttrs s)) :
    Has (stopEnv s ok env) (txAttrs (s.stopSending ok)) := by
  obtain ⟨h1, h2, h3, h4, h5, h6, h7, h8, h9, h10, h11, h12, h13⟩ := has_txAttrs hE
  cases ha : s.active <;> rw [ha] at h8 <;>
  simp [Has, txAttrs, stopEnv, State.stopSending, State.emit, ha, set_get, Timer.stop, optPV, objPV, doneHist, h10, h12, h13] <;>
  simpa [objPV] using h8

/-- nothing else is written -/
theorem stopEnv_frame (s : State) (ok : Bool) (env : Env) (k : String) (hk : k ∉ txKeys) : stopEnv s ok env k = env k := by
  simp only [txKeys, List.mem_cons, List.not_mem_nil, or_false, not_or] at hk
  cases ha : s.active <;> simp [stopEnv, ha, set_get, hk]

/-- **`_stop_sending(success)` = `State.stopSending`**, for ALL states and EVERY environment that shows the transmit side of `s`
    (`Has env (txAttrs s)`), the `TxState` constants and the argument: the call returns `None`; afterwards the object shows the
    transmit side of the model's `s.stopSending ok` (in particular the history `#done` gained `(id, ok)` of the active request exactly
    when there was one: the model's `emit (.done r.id ok)`), and no other name was written. -/
theorem p_stop_sending_agrees (s : State) (ok : Bool) (env : Env) (hE : Has env (txAttrs s)) (hC : Has env txConsts)
    (hs : env "success" = some (pbool ok)) :
    ∃ env', runFn (txMeths s) env Src.TransportLayerLogic_p_stop_sending = .ok (pnone, env') ∧
      Has env' (txAttrs (s.stopSending ok)) ∧ ∀ k, k ∉ txKeys → env' k = env k :=
  ⟨stopEnv s ok env, p_stop_sending_run s ok env hE hC hs, stopEnv_has s ok env hE, stopEnv_frame s ok env⟩

/-- `SendRequest.complete(success)` itself: it stores the flag and signals the event.  The harness' subclass (harness/core.py,
    `TaggedReq.complete`) records `(id, success)` just before calling it: that record is what the primitive
    `self.active_send_request.complete` of `txMeths` appends to `#done`. -/
theorem sendrequest_complete_calls (M : Meths) (env : Env) (v : PV) (h : env "success" = some v) :
    envM M env Src.TransportLayerLogic_SendRequest_complete = M.proc "self.complete_event.set" [] (env.set "self.success" v) := by
  cases hp : M.proc "self.complete_event.set" [] (env.set "self.success" v) <;>
  simp [envM, runFn, Src.TransportLayerLogic_SendRequest_complete, execBlock, execStmt, eval, evalArgs, h,
    evalBuiltin_none "self.complete_event.set" _ (by decide), hp]

/-- an environment with exactly the transmit side of `s`, the constants and the argument (non-vacuity of the hypotheses) -/
def txEnvOf (s : State) (extra : List (String × PV)) : Env := envOf (extra ++ txAttrs s ++ txConsts)

theorem txEnvOf_has (s : State) (ok : Bool) :
    Has (txEnvOf s [("success", pbool ok)]) (txAttrs s) ∧ Has (txEnvOf s [("success", pbool ok)]) txConsts ∧
    txEnvOf s [("success", pbool ok)] "success" = some (pbool ok) := by
  refine ⟨?_, ?_, rfl⟩
  · intro kv h
    simp only [txAttrs, List.mem_cons, List.not_mem_nil, or_false] at h
    rcases h with rfl | rfl | rfl | rfl | rfl | rfl | rfl | rfl | rfl | rfl | rfl | rfl | rfl <;> rfl
  · intro kv h
    simp only [txConsts, List.mem_cons, List.not_mem_nil, or_false] at h
    rcases h with rfl | rfl | rfl | rfl | rfl <;> rfl

/-! ## B. `_start_rx_fc_timer` = `State.startRxFcTimer`

  The source is `self.timer_rx_fc = Timer(timeout=float(self.params.rx_flowcontrol_timeout) / 1000); self.timer_rx_fc.start()`.
  The interpreter evaluates `float(ms) / 1000` to the exact rational `ms/1000` (seconds).  `Timer.__init__` / `Timer.set_timeout`
  then store `int(timeout * 1e9)` nanoseconds: a FLOAT computation, outside the subset.  Its result is, by construction of the
  harness, the value handed to the model as `cfg.tFc` (DESIGN 3.1: "timeout parameters enter the model as integer nanoseconds read
  from the implementation after construction").  Here `Timer(timeout=...)` is therefore an opaque fresh object (`Meths.fn` cannot
  write attributes) and `self.timer_rx_fc.start()` on that fresh object is the primitive that shows its two attributes:
  `timeout := cfg.tFc` (what the constructor stored) and `start_time := now` (`Timer.start`, `timer_start_none_agrees`). -/

theorem TxH.truediv_1000 (x : Int) : evalBinop .truediv (pint x) (pint 1000) = .ok (.sc (.py (.float x 1000))) := rfl

theorem txMeths_float (s : State) (i : Int) (env : Env) : (txMeths s).fn "float" [pint i] env = .ok (pint i) := rfl
theorem txMeths_Timer (s : State) (n : Int) (d : Nat) (env : Env) :
    (txMeths s).fn "Timer#timeout" [.sc (.py (.float n d))] env = .ok (.meth "Timer") := rfl
theorem txMeths_fc_start (s : State) (env : Env) (h : env "self.timer_rx_fc" = some (.meth "Timer")) :
    (txMeths s).proc "self.timer_rx_fc.start" [] env =
      .ok ((env.set "self.timer_rx_fc.timeout" (pint s.cfg.tFc)).set "self.timer_rx_fc.start_time" (pint s.now)) := by
  show (match env "self.timer_rx_fc" with
       | some (PV.meth "Timer") =>
         Except.ok ((env.set "self.timer_rx_fc.timeout" (pint s.cfg.tFc)).set "self.timer_rx_fc.start_time" (pint s.now))
       | _ => (Except.error (PErr.exc .AttributeError) : Except PErr Env)) = _
  rw [h]
  rfl

/-- the `start_time` that `self.timer_rx_fc.start()` shows is the one the interpreted `Timer.start` (no argument) leaves in
    `self.start_time` of ANY timer object when the clock reads `s.now` -/
theorem txMeths_fc_start_is_source (s : State) (env : Env) (h : env "self.timer_rx_fc" = some (.meth "Timer")) (t : Timer) :
    ((txMeths s).proc "self.timer_rx_fc.start" [] env).map (· "self.timer_rx_fc.start_time") =
      (envM (clockMeths s.now) (startEnv t pnone) Src.Timer_start).map (· "self.start_time") := by
  rw [txMeths_fc_start s env h, timer_start_none_start_time _ t s.now (clockMeths_clockIs s.now)]
  rfl

/-- the environment `_start_rx_fc_timer()` ends with -/
def fcStartEnv (s : State) (env : Env) : Env :=
  ((env.set "self.timer_rx_fc" (.meth "Timer")).set "self.timer_rx_fc.timeout" (pint s.cfg.tFc)).set
    "self.timer_rx_fc.start_time" (pint s.now)

theorem p_start_rx_fc_timer_run (s : State) (ms : Int) (env : Env)
    (hp : env "self.params.rx_flowcontrol_timeout" = some (pint ms)) :
    runFn (txMeths s) env Src.TransportLayerLogic_p_start_rx_fc_timer = .ok (pnone, fcStartEnv s env) := by
  have h0 : execStmt (txMeths s) env (nth Src.TransportLayerLogic_p_start_rx_fc_timer 0) =
      .ok (.next (env.set "self.timer_rx_fc" (.meth "Timer"))) := by
    simp [nth, Src.TransportLayerLogic_p_start_rx_fc_timer, execStmt, eval, evalArgs, hp,
      evalBuiltin_none "float" _ (by decide), evalBuiltin_none "Timer#timeout" _ (by decide), txMeths_float, truediv_1000,
      txMeths_Timer]
  apply runFn_next
  show execBlock _ env (drop Src.TransportLayerLogic_p_start_rx_fc_timer 0) = _
  rw [step_next rfl h0]
  rw [step_next rfl (proc0 _ _ _ "self.timer_rx_fc.start" (by decide) (txMeths_fc_start s _ (by simp [set_get])))]
  rfl

def fcTimerKeys : List String := ["self.timer_rx_fc", "self.timer_rx_fc.timeout", "self.timer_rx_fc.start_time"]

/-- **`_start_rx_fc_timer()` = `State.startRxFcTimer`**, for all states, whatever the parameter `rx_flowcontrol_timeout` (an `int`,
    milliseconds): relative to the float conversion described above. -/
theorem p_start_rx_fc_timer_agrees (s : State) (ms : Int) (env : Env) (hE : Has env (txAttrs s))
    (hp : env "self.params.rx_flowcontrol_timeout" = some (pint ms)) :
    ∃ env', runFn (txMeths s) env Src.TransportLayerLogic_p_start_rx_fc_timer = .ok (pnone, env') ∧
      Has env' (txAttrs s.startRxFcTimer) ∧ ∀ k, k ∉ fcTimerKeys → env' k = env k := by
  refine ⟨fcStartEnv s env, p_start_rx_fc_timer_run s ms env hp, ?_, ?_⟩
  · obtain ⟨h1, h2, h3, h4, h5, h6, h7, h8, h9, h10, h11, h12, h13⟩ := has_txAttrs hE
    simp [Has, txAttrs, fcStartEnv, State.startRxFcTimer, set_get, optPV, *]
  · intro k hk
    simp only [fcTimerKeys, List.mem_cons, List.not_mem_nil, or_false, not_or] at hk
    simp [fcStartEnv, set_get, hk]

/-! ## C. the accessors `available`, `transmitting`, `is_tx_throttled` -/

theorem txMeths_rx_empty (s : State) (env : Env) : (txMeths s).fn "self.rx_queue.empty" [] env = .ok (pbool s.rxQueue.isEmpty) := rfl
theorem txMeths_tx_empty (s : State) (env : Env) : (txMeths s).fn "self.tx_queue.empty" [] env = .ok (pbool s.txQueue.isEmpty) := rfl

/-- **`available()` = `State.available`** (`self.rx_queue.empty()` answering what the model's queue answers), every environment -/
theorem available_agrees (s : State) (env : Env) :
    runFn (txMeths s) env Src.TransportLayerLogic_available = .ok (pbool s.available, env) := by
  simp [runFn, Src.TransportLayerLogic_available, execBlock, execStmt, eval, evalArgs,
    evalBuiltin_none "self.rx_queue.empty" _ (by decide), txMeths_rx_empty, State.available]

theorem pvEq_txStPV (a b : TxSt) : pvEq (txStPV a) (txStPV b) = decide (a = b) := by
  cases a <;> cases b <;> rfl

/-- **`transmitting()` = `State.transmitting`**: Python's `or` returns an operand; both are `bool`s here -/
theorem transmitting_agrees (s : State) (env : Env) (hE : Has env (txAttrs s)) (hC : Has env txConsts) :
    runFn (txMeths s) env Src.TransportLayerLogic_transmitting = .ok (pbool s.transmitting, env) := by
  obtain ⟨hS, -⟩ := has_txAttrs hE
  obtain ⟨hI, -⟩ := has_txConsts hC
  cases hq : s.txQueue.isEmpty <;>
  simp [runFn, Src.TransportLayerLogic_transmitting, execBlock, execStmt, eval, evalArgs,
    evalBuiltin_none "self.tx_queue.empty" _ (by decide), txMeths_tx_empty, State.transmitting, hS, hI, hq, pvEq_txStPV]
  all_goals cases s.txState <;> rfl

/-- **`is_tx_throttled()` = `State.isTxThrottled`** -/
theorem is_tx_throttled_agrees (s : State) (M : Meths) (env : Env) (hE : Has env (txAttrs s)) (hC : Has env txConsts) :
    runFn M env Src.TransportLayerLogic_is_tx_throttled = .ok (pbool s.isTxThrottled, env) := by
  obtain ⟨hS, -⟩ := has_txAttrs hE
  obtain ⟨-, -, -, hSF, hFF⟩ := has_txConsts hC
  simp [runFn, Src.TransportLayerLogic_is_tx_throttled, execBlock, execStmt, eval, evalArgs, hS, hSF, hFF, txStPV,
    State.isTxThrottled, List.mapM_cons, List.mapM_nil]
  cases s.txState <;> rfl

/-! ## E. `FiniteByteGenerator.remaining_size / depleted / total_length` = `Req.remaining / depleted / size` -/

/-- the attributes of a `FiniteByteGenerator` (the generator itself, `_gen`, is only touched by `consume`) -/
def reqAttrs (r : Req) : List (String × PV) :=
  [("self._size", pint r.size), ("self._consumed", pint r.consumed), ("self._depleted", pbool r.depletedFlag)]

theorem has_reqAttrs {env : Env} {r : Req} (h : Has env (reqAttrs r)) :
    env "self._size" = some (pint r.size) ∧ env "self._consumed" = some (pint r.consumed) ∧
    env "self._depleted" = some (pbool r.depletedFlag) := by
  simpa [Has, reqAttrs] using h

/-- **`total_length()` = `Req.size`** -/
theorem fbg_total_length_agrees (r : Req) (M : Meths) (env : Env) (hE : Has env (reqAttrs r)) :
    runFn M env Src.FiniteByteGenerator_total_length = .ok (pint r.size, env) := by
  obtain ⟨h1, -, -⟩ := has_reqAttrs hE
  simp [runFn, Src.FiniteByteGenerator_total_length, execBlock, execStmt, eval, h1]

/-- `remaining_size()`, exactly: Python's `int` subtraction (negative when more was consumed than declared) -/
theorem fbg_remaining_size_int (r : Req) (M : Meths) (env : Env) (hE : Has env (reqAttrs r)) :
    runFn M env Src.FiniteByteGenerator_remaining_size = .ok (pint ((r.size : Int) - r.consumed), env) := by
  obtain ⟨h1, h2, -⟩ := has_reqAttrs hE
  simp [runFn, Src.FiniteByteGenerator_remaining_size, execBlock, execStmt, eval, h1, h2]

/-- **`remaining_size()` = `Req.remaining`** (the model's truncated `size - consumed`) as long as no more than the declared size was
    consumed.  `consume` raises `BadGeneratorError` when `_consumed` gets past `_size` (and the layer then drops the request), but it
    leaves the object in that state: the hypothesis cannot be dropped, see `fbg_remaining_size_needs_le`. -/
theorem fbg_remaining_size_agrees (r : Req) (M : Meths) (env : Env) (hE : Has env (reqAttrs r)) (hle : r.consumed ≤ r.size) :
    runFn M env Src.FiniteByteGenerator_remaining_size = .ok (pint r.remaining, env) := by
  rw [fbg_remaining_size_int r M env hE]
  have : (r.size : Int) - r.consumed = ((r.size - r.consumed : Nat) : Int) := by omega
  rw [this]; rfl

/-- declared size 2, 3 bytes consumed (a generator that yields more than it declared, after the `BadGeneratorError`):
    Python says `-1`, the model `0` -/
theorem fbg_remaining_size_needs_le :
    ∃ r : Req, (∀ M env, Has env (reqAttrs r) → runFn M env Src.FiniteByteGenerator_remaining_size = .ok (pint (-1), env)) ∧
      r.remaining = 0 :=
  ⟨{ id := 0, size := 2, src := [], consumed := 3 }, fun M env h => fbg_remaining_size_int _ M env h, rfl⟩

/-- `self.remaining_size()` resolved by interpreting its source on the same object -/
def fbgMeths : Meths where
  fn := fun name args env =>
    match name, args with
    | "self.remaining_size", [] => retM noMeths env Src.FiniteByteGenerator_remaining_size
    | n, _ => .error (.unsupported ("call " ++ n))
  proc := fun n _ _ => .error (.unsupported ("call " ++ n))

theorem fbgMeths_remaining (r : Req) (env : Env) (hE : Has env (reqAttrs r)) :
    fbgMeths.fn "self.remaining_size" [] env = .ok (pint ((r.size : Int) - r.consumed)) := by
  show retM noMeths env Src.FiniteByteGenerator_remaining_size = _
  simp [retM, fbg_remaining_size_int r noMeths env hE]

/-- **`depleted()` = `Req.depleted`**, for ALL requests (no hypothesis: `size - consumed <= 0` on `int`s is `size ≤ consumed`),
    the call `self.remaining_size()` being the interpreted source -/
theorem fbg_depleted_agrees (r : Req) (env : Env) (hE : Has env (reqAttrs r)) :
    runFn fbgMeths env Src.FiniteByteGenerator_depleted = .ok (pbool r.depleted, env) := by
  obtain ⟨-, -, h3⟩ := has_reqAttrs hE
  have e : ((r.size : Int) - r.consumed ≤ 0) ↔ r.size ≤ r.consumed := by omega
  by_cases hd : r.size ≤ r.consumed <;>
  simp [runFn, Src.FiniteByteGenerator_depleted, execBlock, execStmt, eval, evalArgs,
    evalBuiltin_none "self.remaining_size" _ (by decide), fbgMeths_remaining r env hE, evalCmp_le_pint, e, hd, h3, Req.depleted]

example : ∃ r env, Has env (reqAttrs r) ∧ r.consumed ≤ r.size :=
  ⟨{ id := 0, size := 2, src := [] }, envOf (reqAttrs { id := 0, size := 2, src := [] }), by
    intro kv h
    simp only [reqAttrs, List.mem_cons, List.not_mem_nil, or_false] at h
    rcases h with rfl | rfl | rfl <;> rfl, by decide⟩

/-! ## G. the public wrappers `stop_sending()` / `stop_receiving()`

  Model: `TransportLayerLogic.stop_sending()` is `State.stopSending s false`, `stop_receiving()` is `State.stopReceiving s`
  (what `Threaded.stopSending` / `Threaded.stopReceiving` apply to the core when the layer is not started). -/

/-- A call of another method of `self` with one parameter, as a statement: the callee's source runs on the same attributes with
    its parameter bound; the binding disappears on return. -/
def callWith (M : Meths) (body : PBlock) (param : String) (v : PV) (env : Env) : Except PErr Env :=
  (envM M (env.set param v) body).map (fun env' k => if k = param then env k else env' k)

/-- `stop_sending()`, whatever `_stop_sending` is -/
theorem stop_sending_calls (M : Meths) (env : Env) :
    runFn M env Src.TransportLayerLogic_stop_sending =
      (M.proc "self._stop_sending#success" [pbool false] env).map (fun env' => (pnone, env')) := by
  cases h : M.proc "self._stop_sending#success" [pbool false] env <;>
  simp [runFn, Src.TransportLayerLogic_stop_sending, execBlock, execStmt, eval, evalArgs,
    evalBuiltin_none "self._stop_sending#success" _ (by decide), h]

/-- `stop_receiving()`, whatever `_stop_receiving` is -/
theorem stop_receiving_calls (M : Meths) (env : Env) :
    runFn M env Src.TransportLayerLogic_stop_receiving =
      (M.proc "self._stop_receiving" [] env).map (fun env' => (pnone, env')) := by
  cases h : M.proc "self._stop_receiving" [] env <;>
  simp [runFn, Src.TransportLayerLogic_stop_receiving, execBlock, execStmt, evalArgs,
    evalBuiltin_none "self._stop_receiving" _ (by decide), h]

/-- `self._stop_sending(success=v)` resolved by INTERPRETING the source of `_stop_sending` (primitives: `txMeths s`) -/
def pubMeths (s : State) : Meths where
  fn := (txMeths s).fn
  proc := fun name args env =>
    match name, args with
    | "self._stop_sending#success", [v] => callWith (txMeths s) Src.TransportLayerLogic_p_stop_sending "success" v env
    | n, _ => .error (.unsupported ("call " ++ n))

/-- **`stop_sending()` = `State.stopSending s false`**, for all states: composition of the two sources -/
theorem stop_sending_agrees (s : State) (env : Env) (hE : Has env (txAttrs s)) (hC : Has env txConsts) :
    ∃ env', runFn (pubMeths s) env Src.TransportLayerLogic_stop_sending = .ok (pnone, env') ∧
      Has env' (txAttrs (s.stopSending false)) ∧ ∀ k, k ∉ txKeys → env' k = env k := by
  have hne : ∀ k ∈ txKeys ++ txConsts.map (·.1), k ≠ "success" := by decide
  have hE' : Has (env.set "success" (pbool false)) (txAttrs s) := by
    intro kv hkv
    have hk : kv.1 ≠ "success" := hne _ (List.mem_append_left _ (by rw [← txAttrs_keys s]; exact List.mem_map_of_mem hkv))
    simp [set_get, hk, hE kv hkv]
  have hC' : Has (env.set "success" (pbool false)) txConsts := by
    intro kv hkv
    have hk : kv.1 ≠ "success" := hne _ (List.mem_append_right _ (List.mem_map_of_mem hkv))
    simp [set_get, hk, hC kv hkv]
  have hrun := p_stop_sending_run s false _ hE' hC' (by simp [set_get])
  have hp : (pubMeths s).proc "self._stop_sending#success" [pbool false] env =
      .ok (fun k => if k = "success" then env k else stopEnv s false (env.set "success" (pbool false)) k) := by
    show callWith (txMeths s) Src.TransportLayerLogic_p_stop_sending "success" (pbool false) env = _
    simp [callWith, envM, hrun]
  refine ⟨_, by rw [stop_sending_calls, hp]; rfl, ?_, ?_⟩
  · intro kv hkv
    have hk : kv.1 ≠ "success" := hne _ (List.mem_append_left _ (by
      rw [← txAttrs_keys (s.stopSending false)]; exact List.mem_map_of_mem hkv))
    simp only [hk, if_false]
    exact stopEnv_has s false _ hE' kv hkv
  · intro k hk
    by_cases hs : k = "success"
    · simp [hs]
    · simp only [hs, if_false]
      rw [stopEnv_frame s false _ k hk]
      simp [set_get, hs]

/-! `stop_receiving()`: the callee `_stop_receiving` and ITS callees `_empty_rx_buffer`, `_stop_sending_flow_control` are all resolved by
    interpreting their sources; the primitives are `bytearray()` (an empty buffer) and `self.timer_rx_cf.stop()` (`Timer.stop` on the
    sub-object, `timer_stop_agrees`). -/

def pubRxStPV : RxSt → PV
  | .idle => .sc (.enum "RxState" "IDLE")
  | .waitCf => .sc (.enum "RxState" "WAIT_CF")

/-- the attributes `_stop_receiving` touches -/
def pubRxAttrs (s : State) : List (String × PV) :=
  [("self.actual_rxdl", optPV s.actualRxdl),
   ("self.rx_state", pubRxStPV s.rxState),
   ("self.rx_buffer", .bytes s.rxBuf),
   ("self.pending_flow_control_tx", pbool s.pendingFc),
   ("self.last_flow_control_frame", objPV "fc" s.lastFc.isSome),
   ("self.timer_rx_cf.start_time", optPV s.timerCf.start),
   ("self.timer_rx_cf.timeout", pint s.timerCf.timeout)]

def pubRxKeys : List String :=
  ["self.actual_rxdl", "self.rx_state", "self.rx_buffer", "self.pending_flow_control_tx", "self.last_flow_control_frame",
   "self.timer_rx_cf.start_time", "self.timer_rx_cf.timeout"]

theorem pubRxAttrs_keys (s : State) : (pubRxAttrs s).map (·.1) = pubRxKeys := rfl

def pubRxConsts : List (String × PV) :=
  [("self.RxState.IDLE", pubRxStPV .idle), ("self.RxState.WAIT_CF", pubRxStPV .waitCf)]

theorem pubRxConsts_dumped : ∀ kv ∈ pubRxConsts, kv ∈ Src.consts := by decide

/-- the primitives -/
def pubRxPrims : Meths where
  fn := fun name args _ =>
    match name, args with
    | "bytearray", [] => .ok (.bytes [])
    | n, _ => .error (.unsupported ("call " ++ n))
  proc := fun name args env =>
    match name, args with
    | "self.timer_rx_cf.stop", [] => .ok (env.set "self.timer_rx_cf.start_time" pnone)
    | n, _ => .error (.unsupported ("call " ++ n))

/-- the callees of `_stop_receiving`: interpreted sources -/
def pubRxMeths1 : Meths where
  fn := pubRxPrims.fn
  proc := fun name args env =>
    match name, args with
    | "self._empty_rx_buffer", [] => envM pubRxPrims env Src.TransportLayerLogic_p_empty_rx_buffer
    | "self._stop_sending_flow_control", [] => envM pubRxPrims env Src.TransportLayerLogic_p_stop_sending_flow_control
    | n, a => pubRxPrims.proc n a env

/-- the callee of `stop_receiving`: interpreted source -/
def pubRxMeths : Meths where
  fn := pubRxPrims.fn
  proc := fun name args env =>
    match name, args with
    | "self._stop_receiving", [] => envM pubRxMeths1 env Src.TransportLayerLogic_p_stop_receiving
    | n, _ => .error (.unsupported ("call " ++ n))

theorem p_empty_rx_buffer_run (env : Env) :
    envM pubRxPrims env Src.TransportLayerLogic_p_empty_rx_buffer = .ok (env.set "self.rx_buffer" (.bytes [])) := by
  have hf : ∀ env, pubRxPrims.fn "bytearray" [] env = .ok (.bytes []) := fun _ => rfl
  simp [envM, runFn, Src.TransportLayerLogic_p_empty_rx_buffer, execBlock, execStmt, eval, evalArgs,
    evalBuiltin_none "bytearray" _ (by decide), hf]

theorem p_stop_sending_flow_control_run (M : Meths) (env : Env) :
    envM M env Src.TransportLayerLogic_p_stop_sending_flow_control =
      .ok ((env.set "self.pending_flow_control_tx" (pbool false)).set "self.last_flow_control_frame" pnone) := by
  simp [envM, runFn, Src.TransportLayerLogic_p_stop_sending_flow_control, execBlock, execStmt, eval]

/-- the environment `_stop_receiving()` ends with -/
def pubRxStopEnv (env : Env) : Env :=
  ((((((env.set "self.actual_rxdl" pnone).set "self.rx_state" (pubRxStPV .idle)).set "self.rx_buffer" (.bytes [])).set
    "self.pending_flow_control_tx" (pbool false)).set "self.last_flow_control_frame" pnone).set "self.timer_rx_cf.start_time" pnone)

theorem p_stop_receiving_run (env : Env) (hI : env "self.RxState.IDLE" = some (pubRxStPV .idle)) :
    envM pubRxMeths1 env Src.TransportLayerLogic_p_stop_receiving = .ok (pubRxStopEnv env) := by
  have e : execBlock pubRxMeths1 env (drop Src.TransportLayerLogic_p_stop_receiving 0) = .ok (.next (pubRxStopEnv env)) := by
    rw [step_next rfl (assign_none _ _ "self.actual_rxdl")]
    rw [step_next rfl (assign_var _ _ "self.rx_state" "self.RxState.IDLE" (pubRxStPV .idle) (by simp [set_get, hI]))]
    have p1 : ∀ env, pubRxMeths1.proc "self._empty_rx_buffer" [] env = .ok (env.set "self.rx_buffer" (.bytes [])) :=
      fun env => p_empty_rx_buffer_run env
    have p2 : ∀ env, pubRxMeths1.proc "self._stop_sending_flow_control" [] env =
        .ok ((env.set "self.pending_flow_control_tx" (pbool false)).set "self.last_flow_control_frame" pnone) :=
      fun env => p_stop_sending_flow_control_run pubRxPrims env
    have p3 : ∀ env, pubRxMeths1.proc "self.timer_rx_cf.stop" [] env = .ok (env.set "self.timer_rx_cf.start_time" pnone) :=
      fun _ => rfl
    rw [step_next rfl (proc0 _ _ _ "self._empty_rx_buffer" (by decide) (p1 _))]
    rw [step_next rfl (proc0 _ _ _ "self._stop_sending_flow_control" (by decide) (p2 _))]
    rw [step_next rfl (proc0 _ _ _ "self.timer_rx_cf.stop" (by decide) (p3 _))]
    rfl
  have e' : execBlock pubRxMeths1 env Src.TransportLayerLogic_p_stop_receiving = .ok (.next (pubRxStopEnv env)) := e
  simp [envM, runFn, e']

/-- **`stop_receiving()` = `State.stopReceiving`**, for all states: composition of the four sources -/
theorem stop_receiving_agrees (s : State) (env : Env) (hE : Has env (pubRxAttrs s)) (hC : Has env pubRxConsts) :
    ∃ env', runFn pubRxMeths env Src.TransportLayerLogic_stop_receiving = .ok (pnone, env') ∧
      Has env' (pubRxAttrs s.stopReceiving) ∧ ∀ k, k ∉ pubRxKeys → env' k = env k := by
  have hI : env "self.RxState.IDLE" = some (pubRxStPV .idle) := hC ("self.RxState.IDLE", pubRxStPV .idle) (by simp [pubRxConsts])
  have hT : env "self.timer_rx_cf.timeout" = some (pint s.timerCf.timeout) := hE (_, _) (by simp [pubRxAttrs])
  have hp : pubRxMeths.proc "self._stop_receiving" [] env = .ok (pubRxStopEnv env) := p_stop_receiving_run env hI
  refine ⟨pubRxStopEnv env, by rw [stop_receiving_calls, hp]; rfl, ?_, ?_⟩
  · simp [Has, pubRxAttrs, pubRxStopEnv, State.stopReceiving, Timer.stop, set_get, optPV, objPV, hT, pubRxStPV]
  · intro k hk
    simp only [pubRxKeys, List.mem_cons, List.not_mem_nil, or_false, not_or] at hk
    simp [pubRxStopEnv, set_get, hk]

/-! ## D. `RateLimiter.allowed_bytes / reset / enable / disable` = `Limiter.allowedBytes / reset`, the `enabled` flag

  `window_bit_max` (= `mean_bitrate * window_size_sec`) is a FLOAT in the implementation; the model carries `⌊window_bit_max⌋` as
  `cfg.rlBitMax` (DESIGN 3.1).  The interpreter's arithmetic is on integers (`evalBinop` refuses a float operand), so the agreement
  below is for an integer-valued `window_bit_max` / integer-valued factors, shown to the interpreter as `int`s; on a non-integral
  float the interpretation stops with `unsupported` (`ratelimiter_allowed_bytes_float_outside_subset`,
  `ratelimiter_reset_float_outside_subset`): that part of the tie stays with the trace correspondence.
  The burst lists are shown in the model's units (times in integer nanoseconds). -/

def limAttrs (l : Limiter) (bitMax : Nat) : List (String × PV) :=
  [("self.enabled", pbool l.enabled),
   ("self.bit_total", pint l.bitTotal),
   ("self.window_bit_max", pint bitMax),
   ("self.burst_time", .list (l.slots.map fun p => .py (.int p.1))),
   ("self.burst_bitcount", .list (l.slots.map fun p => .py (.int p.2)))]

def limKeys : List String :=
  ["self.enabled", "self.bit_total", "self.window_bit_max", "self.burst_time", "self.burst_bitcount"]

theorem limAttrs_keys (l : Limiter) (bitMax : Nat) : (limAttrs l bitMax).map (·.1) = limKeys := rfl

theorem has_limAttrs {env : Env} {l : Limiter} {bitMax : Nat} (h : Has env (limAttrs l bitMax)) :
    env "self.enabled" = some (pbool l.enabled) ∧ env "self.bit_total" = some (pint l.bitTotal) ∧
    env "self.window_bit_max" = some (pint bitMax) ∧
    env "self.burst_time" = some (.list (l.slots.map fun p => .py (.int p.1))) ∧
    env "self.burst_bitcount" = some (.list (l.slots.map fun p => .py (.int p.2))) := by
  simpa [Has, limAttrs] using h

/-- `math.floor` of a rational is the floor; `float(x)` is numerically `x` (the value itself is kept); `self.can_be_enabled()` answers
    `can`; `self.reset()` is the interpreted source of `RateLimiter.reset`. -/
def limMeths (can : Bool) : Meths where
  fn := fun name args _ =>
    match name, args with
    | "math.floor", [.sc (.py (.float n d))] => if d = 0 then .error .zeroDivision else .ok (pint (n / (d : Int)))
    | "float", [.sc (.py v)] => if isNumber v then .ok (.sc (.py v)) else .error (.exc .TypeError)
    | "self.can_be_enabled", [] => .ok (pbool can)
    | n, _ => .error (.unsupported ("call " ++ n))
  proc := fun name args env =>
    match name, args with
    | "self.reset", [] => envM noMeths env Src.RateLimiter_reset
    | n, _ => .error (.unsupported ("call " ++ n))

theorem limMeths_reset (can : Bool) (env : Env) :
    (limMeths can).proc "self.reset" [] env = envM noMeths env Src.RateLimiter_reset := rfl

theorem TxH.truediv_8 (x : Int) : evalBinop .truediv (pint x) (pint 8) = .ok (.sc (.py (.float x 8))) := rfl

theorem limMeths_floor (can : Bool) (n : Int) (env : Env) :
    (limMeths can).fn "math.floor" [.sc (.py (.float n 8))] env = .ok (pint (n / 8)) := rfl

/-- **`allowed_bytes()` = `Limiter.allowedBytes`** for an integer-valued `window_bit_max` -/
theorem ratelimiter_allowed_bytes_agrees (l : Limiter) (bitMax : Nat) (can : Bool) (env : Env) (hE : Has env (limAttrs l bitMax)) :
    retM (limMeths can) env Src.RateLimiter_allowed_bytes = .ok (pint (l.allowedBytes bitMax)) := by
  obtain ⟨h1, h2, h3, -, -⟩ := has_limAttrs hE
  cases he : l.enabled
  · simp [retM, runFn, Src.RateLimiter_allowed_bytes, execBlock, execStmt, eval, set_get, h1, he, Limiter.allowedBytes, noLimit]
  · simp [retM, runFn, Src.RateLimiter_allowed_bytes, execBlock, execStmt, eval, evalArgs, set_get, h1, h2, h3, he,
      builtin_max_pint, truediv_8, evalBuiltin_none "math.floor" _ (by decide), limMeths_floor, Limiter.allowedBytes]
    split <;> omega

/-- the call only binds the two locals -/
theorem ratelimiter_allowed_bytes_frame (l : Limiter) (bitMax : Nat) (can : Bool) (env : Env) (hE : Has env (limAttrs l bitMax)) :
    ∃ env', envM (limMeths can) env Src.RateLimiter_allowed_bytes = .ok env' ∧
      ∀ k, k ∉ ["no_limit", "allowed_bits"] → env' k = env k := by
  obtain ⟨h1, h2, h3, -, -⟩ := has_limAttrs hE
  cases he : l.enabled
  · refine ⟨env.set "no_limit" (pint 4294967295), ?_, ?_⟩
    · simp [envM, runFn, Src.RateLimiter_allowed_bytes, execBlock, execStmt, eval, set_get, h1, he]
    · intro k hk; simp only [List.mem_cons, List.not_mem_nil, or_false, not_or] at hk; simp [set_get, hk]
  · refine ⟨(env.set "no_limit" (pint 4294967295)).set "allowed_bits"
      (pint (if (0 : Int) > (bitMax : Int) - l.bitTotal then 0 else (bitMax : Int) - l.bitTotal)), ?_, ?_⟩
    · simp [envM, runFn, Src.RateLimiter_allowed_bytes, execBlock, execStmt, eval, evalArgs, set_get, h1, h2, h3, he,
        builtin_max_pint, truediv_8, evalBuiltin_none "math.floor" _ (by decide), limMeths_floor]
    · intro k hk; simp only [List.mem_cons, List.not_mem_nil, or_false, not_or] at hk; simp [set_get, hk]

/-- on a (non-integral) float `window_bit_max` of an enabled limiter the interpretation stops: `float - int` is outside the subset -/
theorem ratelimiter_allowed_bytes_float_outside_subset (M : Meths) (env : Env) (n : Int) (d : Nat) (bt : Int)
    (h1 : env "self.enabled" = some (pbool true)) (h2 : env "self.bit_total" = some (pint bt))
    (h3 : env "self.window_bit_max" = some (.sc (.py (.float n d)))) :
    runFn M env Src.RateLimiter_allowed_bytes = .error (.unsupported "binary operation on a non-integer") := by
  have e : evalBinop .sub (.sc (.py (.float n d))) (pint bt) = .error (.unsupported "binary operation on a non-integer") := rfl
  simp [runFn, Src.RateLimiter_allowed_bytes, execBlock, execStmt, eval, evalArgs, set_get, h1, h2, h3, e]

/-- what `reset()` writes -/
def limResetEnv (env : Env) (wbm : PV) : Env :=
  (((env.set "self.burst_bitcount" (.list [])).set "self.burst_time" (.list [])).set "self.bit_total" (pint 0)).set
    "self.window_bit_max" wbm

/-- `reset()`, for ANY values of `mean_bitrate` / `window_size_sec`: the two lists are emptied, `bit_total = 0`, and
    `window_bit_max` is their product as the interpreter computes it -/
theorem ratelimiter_reset_run (M : Meths) (env : Env) (v1 v2 : PV) (h1 : env "self.mean_bitrate" = some v1)
    (h2 : env "self.window_size_sec" = some v2) :
    runFn M env Src.RateLimiter_reset =
      (evalBinop .mul v1 v2).map (fun w => (pnone, limResetEnv env w)) := by
  cases hm : evalBinop .mul v1 v2 <;>
  simp [runFn, Src.RateLimiter_reset, execBlock, execStmt, eval, evalArgs, set_get, h1, h2, hm, limResetEnv]

/-- **`reset()` = `Limiter.reset`** (integer-valued factors): the object afterwards shows the model's `l.reset`, with
    `window_bit_max = mean_bitrate * window_size_sec` -/
theorem ratelimiter_reset_agrees (l : Limiter) (bitMax b w : Nat) (M : Meths) (env : Env) (hE : Has env (limAttrs l bitMax))
    (h1 : env "self.mean_bitrate" = some (pint b)) (h2 : env "self.window_size_sec" = some (pint w)) :
    ∃ env', runFn M env Src.RateLimiter_reset = .ok (pnone, env') ∧ Has env' (limAttrs l.reset (b * w)) ∧
      ∀ k, k ∉ limKeys → env' k = env k := by
  obtain ⟨hen, -, -, -, -⟩ := has_limAttrs hE
  refine ⟨limResetEnv env (pint ((b * w : Nat) : Int)),
    by rw [ratelimiter_reset_run M env _ _ h1 h2, evalBinop_mul, Int.natCast_mul]; rfl, ?_, ?_⟩
  · simp [Has, limAttrs, Limiter.reset, limResetEnv, set_get, hen]
  · intro k hk
    simp only [limKeys, List.mem_cons, List.not_mem_nil, or_false, not_or] at hk
    simp [limResetEnv, set_get, hk]

/-- with a float factor (the default `window_size_sec = 0.1`) `reset` is outside the subset -/
theorem ratelimiter_reset_float_outside_subset (M : Meths) (env : Env) (v1 : PV) (n : Int) (d : Nat)
    (h1 : env "self.mean_bitrate" = some v1) (h2 : env "self.window_size_sec" = some (.sc (.py (.float n d)))) :
    runFn M env Src.RateLimiter_reset = .error (.unsupported "binary operation on a non-integer") := by
  have e : evalBinop .mul v1 (.sc (.py (.float n d))) = .error (.unsupported "binary operation on a non-integer") := by
    cases v1 <;> simp [evalBinop, asInt, Sc.isInt, PyVal.isInt]
  rw [ratelimiter_reset_run M env _ _ h1 h2, e]; rfl

/-- **`disable()`**: the flag of the model's limiter -/
theorem ratelimiter_disable_agrees (l : Limiter) (bitMax : Nat) (M : Meths) (env : Env) (hE : Has env (limAttrs l bitMax)) :
    ∃ env', runFn M env Src.RateLimiter_disable = .ok (pnone, env') ∧ Has env' (limAttrs { l with enabled := false } bitMax) ∧
      ∀ k, k ≠ "self.enabled" → env' k = env k := by
  obtain ⟨-, h2, h3, h4, h5⟩ := has_limAttrs hE
  refine ⟨env.set "self.enabled" (pbool false), ?_, ?_, ?_⟩
  · simp [runFn, Src.RateLimiter_disable, execBlock, execStmt, eval]
  · simp [Has, limAttrs, set_get, h2, h3, h4, h5]
  · intro k hk; simp [set_get, hk]

/-- **`enable()`**: `ValueError` when `can_be_enabled()` is false; otherwise the flag is set and the limiter is reset
    (`self.reset()` = the interpreted source of `reset`; integer-valued factors) -/
theorem ratelimiter_enable_agrees (l : Limiter) (bitMax b w : Nat) (can : Bool) (env : Env) (hE : Has env (limAttrs l bitMax))
    (h1 : env "self.mean_bitrate" = some (pint b)) (h2 : env "self.window_size_sec" = some (pint w)) :
    if can then
      ∃ env', runFn (limMeths can) env Src.RateLimiter_enable = .ok (pnone, env') ∧
        Has env' (limAttrs { l.reset with enabled := true } (b * w)) ∧ ∀ k, k ∉ limKeys → env' k = env k
    else runFn (limMeths can) env Src.RateLimiter_enable = .error (.exc .ValueError) := by
  have hc : ∀ env, (limMeths can).fn "self.can_be_enabled" [] env = .ok (pbool can) := fun _ => rfl
  have hf : ∀ (i : Int) env, (limMeths can).fn "float" [pint i] env = .ok (pint i) := fun _ _ => rfl
  cases can
  · simp [runFn, Src.RateLimiter_enable, execBlock, execStmt, eval, evalArgs,
      evalBuiltin_none "self.can_be_enabled" _ (by decide), hc]
  · obtain ⟨hen, hbt, hwb, hti, hbc⟩ := has_limAttrs hE
    simp only [if_true]
    -- `self.reset()` in the environment it is called in
    have hp : (limMeths true).proc "self.reset" []
        (((env.set "self.mean_bitrate" (pint b)).set "self.window_size_sec" (pint w)).set "self.enabled" (pbool true)) =
        .ok (limResetEnv
          (((env.set "self.mean_bitrate" (pint b)).set "self.window_size_sec" (pint w)).set "self.enabled" (pbool true))
          (pint ((b * w : Nat) : Int))) := by
      rw [limMeths_reset, envM, ratelimiter_reset_run noMeths _ (pint b) (pint w) (by simp [set_get]) (by simp [set_get]), evalBinop_mul,
        Int.natCast_mul]
      rfl
    refine ⟨limResetEnv
          (((env.set "self.mean_bitrate" (pint b)).set "self.window_size_sec" (pint w)).set "self.enabled" (pbool true))
          (pint ((b * w : Nat) : Int)), ?_, ?_, ?_⟩
    · simp [runFn, Src.RateLimiter_enable, execBlock, execStmt, eval, evalArgs, set_get, h1, h2, hc, hf,
        evalBuiltin_none "self.can_be_enabled" _ (by decide), evalBuiltin_none "float" _ (by decide),
        evalBuiltin_none "self.reset" _ (by decide), hp]
    · simp [Has, limAttrs, Limiter.reset, limResetEnv, set_get]
    · -- `mean_bitrate` / `window_size_sec` are re-assigned their own (numerically equal) values
      intro k hk
      simp only [limKeys, List.mem_cons, List.not_mem_nil, or_false, not_or] at hk
      simp only [limResetEnv, set_get, hk, if_false]
      by_cases a1 : k = "self.window_size_sec"
      · rw [if_pos a1, a1, h2]
      · rw [if_neg a1]
        by_cases a2 : k = "self.mean_bitrate"
        · rw [if_pos a2, a2, h1]
        · rw [if_neg a2]

/-! ## F. `_make_flow_control` = `makeFlowControl`, `_trigger_error` = `State.error`

  Callees of `_make_flow_control`, given from the model; each is tied to its own source by another leaf:
  * `PDU.craft_flow_control_data(fs, bs, stmin)` is `fcData` (`craft_flow_control_data_agrees`, MiscFc.lean);
  * `self.address.get_tx_arbitration_id()` (default `address_type = Physical`) is `Half.txId .physical`
    (`get_tx_arbitration_id_agrees`, AddressFns.lean);
  * `self.address.get_tx_payload_prefix()` returns the `_tx_payload_prefix` stored by the constructor, `Half.txPrefix`
    (`Address_init_constructs`, AddressInit.lean);
  * `self._make_tx_msg(id, data)` is `makeTxMsg` (padding: `_pad_message_data`, DLC: `_get_dlc`, MiscFd.lean).  A `CanMessage` is not a
    value of the embedding: the theorem holds for EVERY way `enc` of showing the model's result (`none` = `ValueError`) to the
    interpreter. -/

def fcMeths (c : Cfg) (a : Addr) (enc : Option CanMsg → Except PErr PV) : Meths where
  fn := fun name args _ =>
    match name, args with
    | "PDU.craft_flow_control_data", [.sc (.py (.int s)), .sc (.py (.int b)), .sc (.py (.int st))] =>
      .ok (.bytes (fcData s.toNat b.toNat st.toNat))
    | "self.address.get_tx_arbitration_id", [] => .ok (pint (a.tx.txId .physical))
    | "self.address.get_tx_payload_prefix", [] => .ok (.bytes a.tx.txPrefix)
    | "self._make_tx_msg", [.sc (.py (.int id)), .bytes d] => enc (makeTxMsg c a id.toNat d)
    | n, _ => .error (.unsupported ("call " ++ n))
  proc := fun n _ _ => .error (.unsupported ("call " ++ n))

/-- arguments of `_make_flow_control(flow_status, blocksize=None, stmin=None)` and the two parameters it reads -/
def fcArgAttrs (c : Cfg) (st : Nat) (ob os : Option Nat) : List (String × PV) :=
  [("flow_status", pint st), ("blocksize", optPV ob), ("stmin", optPV os),
   ("self.params.blocksize", pint c.blocksize), ("self.params.stmin", pint c.stmin)]

theorem fcMeths_craft (c : Cfg) (a : Addr) (enc : Option CanMsg → Except PErr PV) (s b st : Nat) (env : Env) :
    (fcMeths c a enc).fn "PDU.craft_flow_control_data" [pint s, pint b, pint st] env = .ok (.bytes (fcData s b st)) := rfl
theorem fcMeths_id (c : Cfg) (a : Addr) (enc : Option CanMsg → Except PErr PV) (env : Env) :
    (fcMeths c a enc).fn "self.address.get_tx_arbitration_id" [] env = .ok (pint (a.tx.txId .physical)) := rfl
theorem fcMeths_prefix (c : Cfg) (a : Addr) (enc : Option CanMsg → Except PErr PV) (env : Env) :
    (fcMeths c a enc).fn "self.address.get_tx_payload_prefix" [] env = .ok (.bytes a.tx.txPrefix) := rfl
theorem fcMeths_mk (c : Cfg) (a : Addr) (enc : Option CanMsg → Except PErr PV) (id : Nat) (d : Bytes) (env : Env) :
    (fcMeths c a enc).fn "self._make_tx_msg" [pint id, .bytes d] env = enc (makeTxMsg c a id d) := rfl

theorem TxH.evalBinop_add_bytes (x y : Bytes) : evalBinop .add (.bytes x) (.bytes y) = .ok (.bytes (x ++ y)) := rfl

/-- **`_make_flow_control(flow_status, blocksize, stmin)`**: `_make_tx_msg(tx id, prefix + fcData(status, blocksize or the parameter,
    stmin or the parameter))` -/
theorem p_make_flow_control_general (c : Cfg) (a : Addr) (enc : Option CanMsg → Except PErr PV) (st : Nat) (ob os : Option Nat)
    (env : Env) (hE : Has env (fcArgAttrs c st ob os)) :
    retM (fcMeths c a enc) env Src.TransportLayerLogic_p_make_flow_control =
      enc (makeTxMsg c a (a.tx.txId .physical) (a.tx.txPrefix ++ fcData st (ob.getD c.blocksize) (os.getD c.stmin))) := by
  have ⟨h1, h2, h3, h4, h5⟩ : env "flow_status" = some (pint st) ∧ env "blocksize" = some (optPV ob) ∧
      env "stmin" = some (optPV os) ∧ env "self.params.blocksize" = some (pint c.blocksize) ∧
      env "self.params.stmin" = some (pint c.stmin) := by simpa [Has, fcArgAttrs] using hE
  cases ob <;> cases os <;>
  simp [retM, runFn, Src.TransportLayerLogic_p_make_flow_control, execBlock, execStmt, eval, evalArgs, set_get, h1, h2, h3, h4, h5,
    optPV, evalBuiltin_none "PDU.craft_flow_control_data" _ (by decide),
    evalBuiltin_none "self.address.get_tx_arbitration_id" _ (by decide),
    evalBuiltin_none "self.address.get_tx_payload_prefix" _ (by decide), evalBuiltin_none "self._make_tx_msg" _ (by decide),
    fcMeths_craft, fcMeths_id, fcMeths_prefix, fcMeths_mk, evalBinop_add_bytes] <;>
  (generalize enc (makeTxMsg _ _ _ _) = r; cases r <;> rfl)

/-- **`_make_flow_control(flow_status)` = `makeFlowControl`** (the only form the layer uses: `blocksize` / `stmin` from the parameters) -/
theorem p_make_flow_control_agrees (c : Cfg) (a : Addr) (enc : Option CanMsg → Except PErr PV) (st : Nat) (env : Env)
    (hE : Has env (fcArgAttrs c st none none)) :
    retM (fcMeths c a enc) env Src.TransportLayerLogic_p_make_flow_control = enc (makeFlowControl c a st) :=
  p_make_flow_control_general c a enc st none none env hE

/-- the first two entries of `fcMeths` ARE the interpreted sources of the callees (on the callee's own object / arguments) -/
theorem fcMeths_callees_are_sources (c : Cfg) (a : Addr) (enc : Option CanMsg → Except PErr PV) (s b st : Nat) (env : Env) :
    (fcMeths c a enc).fn "PDU.craft_flow_control_data" [pint s, pint b, pint st] env =
      retOf (fcEnv s b st) Src.PDU_craft_flow_control_data ∧
    (fcMeths c a enc).fn "self.address.get_tx_arbitration_id" [] env =
      retOf (tatEnv .physical (cachedEnv a.tx (halfEnv a.tx))) Src.Address_get_tx_arbitration_id := by
  rw [craft_flow_control_data_agrees, get_tx_arbitration_id_agrees]
  exact ⟨rfl, rfl⟩

/-! ### `_trigger_error(error)`

  Source: `if self.error_handler is not None: if hasattr(self.error_handler, '__call__') and isinstance(error, IsoTpError):
  self.error_handler(error)` (the logger calls are dropped by the dumper).  The model's `State.error` records the error
  unconditionally: it models the layer AS THE HARNESS BUILDS IT, with a callable handler installed.  The theorem below is for all
  three guards; `p_trigger_error_agrees` is the harness' case. -/

def isoErrSc (e : Err) : Sc := .enum "IsoTpError" e.name

/-- the errors handed to the handler so far, oldest first, each as the two scalars `time, class` -/
def errHist : List Ev → List Sc
  | [] => []
  | .err t e :: rest => errHist rest ++ [.py (.int t), isoErrSc e]
  | _ :: rest => errHist rest

/-- `hasattr(handler, '__call__')` answers `callable`, `isinstance(error, IsoTpError)` answers `isErr`; calling the handler appends
    `(now, error)` to the history `#errors` -/
def handlerMeths (now : Nat) (callable isErr : Bool) : Meths where
  fn := fun name args _ =>
    match name, args with
    | "hasattr", [_, .str "__call__"] => .ok (pbool callable)
    | "isinstance_IsoTpError", [_] => .ok (pbool isErr)
    | n, _ => .error (.unsupported ("call " ++ n))
  proc := fun name args env =>
    match name, args with
    | "self.error_handler", [.sc e] =>
      (match env "#errors" with
       | some (.list h) => .ok (env.set "#errors" (.list (h ++ [.py (.int now), e])))
       | _ => .error (.exc .AttributeError))
    | n, _ => .error (.unsupported ("call " ++ n))

theorem handlerMeths_call (now : Nat) (callable isErr : Bool) (e : Sc) (env : Env) (h : List Sc)
    (hh : env "#errors" = some (.list h)) :
    (handlerMeths now callable isErr).proc "self.error_handler" [.sc e] env =
      .ok (env.set "#errors" (.list (h ++ [.py (.int now), e]))) := by
  show (match env "#errors" with
       | some (PV.list h) => Except.ok (env.set "#errors" (PV.list (h ++ [Sc.py (.int now), e])))
       | _ => (Except.error (PErr.exc .AttributeError) : Except PErr Env)) = _
  rw [hh]

/-- **`_trigger_error`, all guards**: the handler is called (once, with the error) exactly when one is installed, it is callable and
    the error is an `IsoTpError`; nothing else happens -/
theorem p_trigger_error_general (now : Nat) (installed callable isErr : Bool) (e : Sc) (h : List Sc) (env : Env)
    (h1 : env "self.error_handler" = some (objPV "handler" installed)) (h2 : env "error" = some (.sc e))
    (h3 : env "#errors" = some (.list h)) :
    runFn (handlerMeths now callable isErr) env Src.TransportLayerLogic_p_trigger_error =
      .ok (pnone, if installed && callable && isErr then env.set "#errors" (.list (h ++ [.py (.int now), e])) else env) := by
  have f1 : ∀ v env, (handlerMeths now callable isErr).fn "hasattr" [v, .str "__call__"] env = .ok (pbool callable) :=
    fun _ _ => rfl
  have f2 : ∀ v env, (handlerMeths now callable isErr).fn "isinstance_IsoTpError" [v] env = .ok (pbool isErr) :=
    fun _ _ => rfl
  have hc := handlerMeths_call now callable isErr e env h h3
  cases installed <;> cases callable <;> cases isErr <;>
  simp [runFn, Src.TransportLayerLogic_p_trigger_error, execBlock, execStmt, eval, evalArgs, h1, h2, objPV, f1, f2, hc,
    evalBuiltin_none "hasattr" _ (by decide), evalBuiltin_none "isinstance_IsoTpError" _ (by decide),
    evalBuiltin_none "self.error_handler" _ (by decide)]

/-- **`_trigger_error(e)` = `State.error s e`** for the layer the harness builds (callable handler installed, `e` an `IsoTpError`):
    the history of errors afterwards is the one of the model's `s.error e`; nothing else is written -/
theorem p_trigger_error_agrees (s : State) (e : Err) (env : Env)
    (h1 : env "self.error_handler" = some (.meth "handler")) (h2 : env "error" = some (.sc (isoErrSc e)))
    (h3 : env "#errors" = some (.list (errHist s.log))) :
    ∃ env', runFn (handlerMeths s.now true true) env Src.TransportLayerLogic_p_trigger_error = .ok (pnone, env') ∧
      env' "#errors" = some (.list (errHist (s.error e).log)) ∧ ∀ k, k ≠ "#errors" → env' k = env k := by
  refine ⟨_, p_trigger_error_general s.now true true true (isoErrSc e) _ env h1 h2 h3, ?_, ?_⟩
  · simp [set_get, State.error, State.emit, errHist]
  · intro k hk; simp [set_get, hk]

/-! ## Non-vacuity of the `Has` hypotheses (for EVERY model object there is an environment that shows it) -/

theorem has_envOf_keys (bs : List (String × PV)) (keys : List String) (hk : bs.map (·.1) = keys) (hn : keys.Nodup) :
    Has (envOf bs) bs := has_envOf bs (hk ▸ hn)

example (s : State) (ms : Nat) :
    ∃ env : Env, Has env (txAttrs s) ∧ Has env txConsts ∧ env "self.params.rx_flowcontrol_timeout" = some (pint ms) := by
  have h := has_envOf_keys (txAttrs s ++ txConsts ++ [("self.params.rx_flowcontrol_timeout", pint ms)])
    (txKeys ++ txConsts.map (·.1) ++ ["self.params.rx_flowcontrol_timeout"]) rfl (by decide)
  exact ⟨_, h.append_left.append_left, h.append_left.append_right,
    h.append_right ("self.params.rx_flowcontrol_timeout", pint ms) (by simp)⟩
example (s : State) : ∃ env : Env, Has env (pubRxAttrs s) ∧ Has env pubRxConsts := by
  have h := has_envOf_keys (pubRxAttrs s ++ pubRxConsts) (pubRxKeys ++ pubRxConsts.map (·.1)) rfl (by decide)
  exact ⟨_, h.append_left, h.append_right⟩
example (l : Limiter) (bitMax b w : Nat) :
    ∃ env : Env, Has env (limAttrs l bitMax) ∧ env "self.mean_bitrate" = some (pint b) ∧
      env "self.window_size_sec" = some (pint w) := by
  have h := has_envOf_keys (limAttrs l bitMax ++ [("self.mean_bitrate", pint b), ("self.window_size_sec", pint w)])
    (limKeys ++ ["self.mean_bitrate", "self.window_size_sec"]) rfl (by decide)
  exact ⟨_, h.append_left, h.append_right ("self.mean_bitrate", pint b) (by simp),
    h.append_right ("self.window_size_sec", pint w) (by simp)⟩
example (r : Req) : ∃ env : Env, Has env (reqAttrs r) :=
  ⟨_, has_envOf_keys (reqAttrs r) ["self._size", "self._consumed", "self._depleted"] rfl (by decide)⟩
example (c : Cfg) (st : Nat) (ob os : Option Nat) : ∃ env : Env, Has env (fcArgAttrs c st ob os) :=
  ⟨_, has_envOf_keys (fcArgAttrs c st ob os) ["flow_status", "blocksize", "stmin", "self.params.blocksize", "self.params.stmin"]
    rfl (by decide)⟩
example (s : State) (e : Err) :
    ∃ env : Env, env "self.error_handler" = some (.meth "handler") ∧ env "error" = some (.sc (isoErrSc e)) ∧
      env "#errors" = some (.list (errHist s.log)) :=
  ⟨envOf [("self.error_handler", .meth "handler"), ("error", .sc (isoErrSc e)), ("#errors", .list (errHist s.log))],
    rfl, rfl, rfl⟩

end Isotp.PyAgree

#print axioms Isotp.PyAgree.p_stop_sending_run
#print axioms Isotp.PyAgree.p_stop_sending_agrees
#print axioms Isotp.PyAgree.sendrequest_complete_calls
#print axioms Isotp.PyAgree.txMeths_timer_stop_is_source
#print axioms Isotp.PyAgree.txMeths_fc_start_is_source
#print axioms Isotp.PyAgree.p_start_rx_fc_timer_run
#print axioms Isotp.PyAgree.p_start_rx_fc_timer_agrees
#print axioms Isotp.PyAgree.available_agrees
#print axioms Isotp.PyAgree.transmitting_agrees
#print axioms Isotp.PyAgree.is_tx_throttled_agrees
#print axioms Isotp.PyAgree.fbg_total_length_agrees
#print axioms Isotp.PyAgree.fbg_remaining_size_int
#print axioms Isotp.PyAgree.fbg_remaining_size_agrees
#print axioms Isotp.PyAgree.fbg_remaining_size_needs_le
#print axioms Isotp.PyAgree.fbg_depleted_agrees
#print axioms Isotp.PyAgree.stop_sending_calls
#print axioms Isotp.PyAgree.stop_sending_agrees
#print axioms Isotp.PyAgree.stop_receiving_calls
#print axioms Isotp.PyAgree.stop_receiving_agrees
#print axioms Isotp.PyAgree.ratelimiter_allowed_bytes_agrees
#print axioms Isotp.PyAgree.ratelimiter_allowed_bytes_frame
#print axioms Isotp.PyAgree.ratelimiter_allowed_bytes_float_outside_subset
#print axioms Isotp.PyAgree.ratelimiter_reset_run
#print axioms Isotp.PyAgree.ratelimiter_reset_agrees
#print axioms Isotp.PyAgree.ratelimiter_reset_float_outside_subset
#print axioms Isotp.PyAgree.ratelimiter_disable_agrees
#print axioms Isotp.PyAgree.ratelimiter_enable_agrees
#print axioms Isotp.PyAgree.p_make_flow_control_general
#print axioms Isotp.PyAgree.p_make_flow_control_agrees
#print axioms Isotp.PyAgree.fcMeths_callees_are_sources
#print axioms Isotp.PyAgree.p_trigger_error_general
#print axioms Isotp.PyAgree.p_trigger_error_agrees
