import Isotp.Proofs.NoStuck2
/-
  C10, "no reachable state is stuck", part 3: the canonical continuation with a tick of `c` units per round (`c ≥ 1`).

  NoStuck.lean / NoStuck2.lean: the schedule ticks in units of `dt` and the continuation is the canonical round with a
  tick of exactly one unit.  Here the tick of the continuation is any multiple `c·dt` of the unit — so that a schedule and
  a continuation whose tick durations have a common unit larger than both separation times are covered; in particular
  ALL tick durations when both separation times are 0 (unit 1 ns).

  * `gcanonC`, `gcanonsC`: the canonical round(s) with a tick of `c` units on the abstract network with links.
  * `gcanonC_ok`: it succeeds from any invariant state, flushes the links, does not increase the potential.
  * `gcanonC_absRound`: from a state with empty links it is the round `absRound` of DuplexLive2 (same passes, other
    time stamp at the end), hence strictly decreases the potential unless the network is final (`round_ok`).
  * `gC_complete`: from any invariant state, every `M ≥ gM + 1` rounds end in the final state.
  * `round_simC`, `rounds_simC`, `nostuck_coreC`: the network of the driver follows.
-/
namespace Isotp.NoStuck
open Isotp Isotp.State Isotp.Spec Isotp.Proofs Isotp.Lockstep Isotp.DuplexLive

/-! ## the abstract network -/

/-- A.process(); deliver all A → B; B.process(); deliver all B → A; `c` ticks -/
def gcanonC (PA PB : Par) (c : Nat) (n : GN) : Option GN :=
  (gstep PA PB n .passA).bind fun n1 =>
  (gstep PA PB n1 (.delAB n1.lab.length)).bind fun n2 =>
  (gstep PA PB n2 .passB).bind fun n3 =>
  (gstep PA PB n3 (.delBA n3.lba.length)).bind fun n4 =>
  gstep PA PB n4 (.tick c)

def gcanonsC (PA PB : Par) (c : Nat) : Nat → GN → Option GN
  | 0, n => some n
  | N + 1, n => (gcanonC PA PB c n).bind (gcanonsC PA PB c N)

/-- every STmin timer was started before the current tick -/
def Fresh (n : GN) : Prop :=
  (∀ k j r, n.a.tx = .T k j r → r < n.R) ∧ (∀ k j r, n.b.tx = .T k j r → r < n.R)

/-- **The canonical round with a tick of `c ≥ 1` units, from ANY state satisfying the invariant**: succeeds, does not
    increase the potential, ends with empty links and all STmin timers older than the current tick. -/
theorem gcanonC_ok {PA PB : Par} (hP : ParOk PA PB) {n : GN} (h : GInv PA PB n) (c : Nat) (hc : 1 ≤ c)
    (hK : n.R ≤ PA.kCf ∧ n.R ≤ PA.kFc ∧ n.R ≤ PB.kCf ∧ n.R ≤ PB.kFc) :
    ∃ n', gcanonC PA PB c n = some n' ∧ GInv PA PB n' ∧ n'.lab = [] ∧ n'.lba = [] ∧ Fresh n' ∧
      gM PA PB n' ≤ gM PA PB n ∧ n'.R = n.R + c := by
  obtain ⟨n1, e1, h1, m1, r1⟩ := gstep_ok hP h hK .passA
  have r1' : n1.R = n.R := r1
  obtain ⟨n2, e2, h2, m2, r2⟩ := gstep_ok hP h1 (by rw [r1']; exact hK) (.delAB n1.lab.length)
  have e2' : n2 = { n1 with b := { n1.b with inbox := n1.b.inbox ++ n1.lab.take n1.lab.length },
                            lab := n1.lab.drop n1.lab.length } := by
    have : gstep PA PB n1 (.delAB n1.lab.length) = some _ := rfl
    rw [this] at e2; exact (Option.some.inj e2).symm
  have l2 : n2.lab = [] := by rw [e2']; simp
  have r2' : n2.R = n.R := by rw [r2, r1']; rfl
  obtain ⟨n3, e3, h3, m3, r3⟩ := gstep_ok hP h2 (by rw [r2']; exact hK) .passB
  have l3 : n3.lab = [] := (gstep_passB_lab e3).trans l2
  have r3' : n3.R = n.R := by rw [r3, r2']; rfl
  obtain ⟨n4, e4, h4, m4, r4⟩ := gstep_ok hP h3 (by rw [r3']; exact hK) (.delBA n3.lba.length)
  have e4' : n4 = { n3 with a := { n3.a with inbox := n3.a.inbox ++ n3.lba.take n3.lba.length },
                            lba := n3.lba.drop n3.lba.length } := by
    have : gstep PA PB n3 (.delBA n3.lba.length) = some _ := rfl
    rw [this] at e4; exact (Option.some.inj e4).symm
  have l4 : n4.lab = [] := by rw [e4']; exact l3
  have l4' : n4.lba = [] := by rw [e4']; simp
  have r4' : n4.R = n.R := by rw [r4, r3']; rfl
  obtain ⟨n5, e5, h5, m5, r5⟩ := gstep_ok hP h4 (by rw [r4']; exact hK) (.tick c)
  have e5' : n5 = { n4 with R := n4.R + c } := by
    have : gstep PA PB n4 (.tick c) = some _ := rfl
    rw [this] at e5; exact (Option.some.inj e5).symm
  have l5 : n5.lab = [] := by rw [e5']; exact l4
  have l5' : n5.lba = [] := by rw [e5']; exact l4'
  refine ⟨n5, by simp only [gcanonC, e1, e2, e3, e4, Option.bind_some]; exact e5, h5, l5, l5', ⟨?_, ?_⟩, by omega, ?_⟩
  · intro k j r htx
    have := h4.inv.out.txok
    have htx' : (tl n4.a n4.lba).tx = .T k j r := by rw [e5'] at htx; exact htx
    rw [htx'] at this
    simp only [TxOk] at this
    rw [e5']; show r < n4.R + c; omega
  · intro k j r htx
    have := h4.inv.inn.txok
    have htx' : (tl n4.b n4.lab).tx = .T k j r := by rw [e5'] at htx; exact htx
    rw [htx'] at this
    simp only [TxOk] at this
    rw [e5']; show r < n4.R + c; omega
  · rw [r5, r4']; rfl

theorem absPass_clr (P : Par) (R : Nat) (al : AL) : absPass P R (clr al) = absPass P R al := rfl

/-- **from a state with empty links the canonical round is the round of DuplexLive2** (same two passes; the frames
    emitted travel over the links instead of being handed over; the time stamp at the end is `R + c`) -/
theorem gcanonC_absRound {PA PB : Par} (c : Nat) {n : GN} (hab : n.lab = []) (hba : n.lba = []) {a' : AN}
    (h : absRound PA PB n.toAN = some a') :
    gcanonC PA PB c n =
      some { a := clr a'.a, b := clr a'.b, lab := [], lba := [], R := n.R + c, doneA := a'.doneA, doneB := a'.doneB } := by
  obtain ⟨a, b, lab, lba, R, dA, dB⟩ := n
  simp only [] at hab hba
  subst hab hba
  unfold absRound at h
  simp only [GN.toAN] at h
  cases ea : absPass PA R a with
  | none => rw [ea] at h; cases h
  | some a1 =>
    rw [ea] at h
    simp only [] at h
    cases eb : absPass PB R { b with inbox := b.inbox ++ a1.out } with
    | none => rw [eb] at h; cases h
    | some b1 =>
      rw [eb] at h
      simp only [Option.some.injEq] at h
      subst h
      simp only [gcanonC, gstep, ea, Option.map_some, Option.bind_some, List.nil_append, List.take_length,
        List.drop_length]
      rw [eb]
      rfl

theorem final_clr (al : AL) : (clr al).final = al.final := rfl

/-- the canonical rounds from a final state with empty links stay there (no timer is running: no condition on the
    timeouts) -/
theorem gC_final_stable (PA PB : Par) (c : Nat) : ∀ (M : Nat) (n : GN), n.lab = [] → n.lba = [] → n.toAN.final = true →
    ∃ n', gcanonsC PA PB c M n = some n' ∧ n'.lab = [] ∧ n'.lba = [] ∧ n'.toAN.final = true ∧ n'.R = n.R + M * c := by
  intro M
  induction M with
  | zero => intro n h1 h2 hf; exact ⟨n, rfl, h1, h2, hf, by simp⟩
  | succ M ih =>
    intro n h1 h2 hf
    obtain ⟨a', ea, fa⟩ := absRound_final PA PB n.toAN hf
    have e1 := gcanonC_absRound (PA := PA) (PB := PB) c h1 h2 ea
    have fa' : AN.final { a := clr a'.a, b := clr a'.b, R := n.R + c, doneA := a'.doneA, doneB := a'.doneB } = true := by
      unfold AN.final at fa ⊢
      simpa [final_clr] using fa
    obtain ⟨n', e2, l1, l2, f2, r2⟩ := ih
      { a := clr a'.a, b := clr a'.b, lab := [], lba := [], R := n.R + c, doneA := a'.doneA, doneB := a'.doneB }
      rfl rfl fa'
    refine ⟨n', by simp only [gcanonsC, e1, Option.bind_some]; exact e2, l1, l2, f2, ?_⟩
    rw [r2]; show n.R + c + M * c = n.R + (M + 1) * c
    rw [Nat.add_mul, Nat.one_mul]; omega

/-- **Termination with a tick of `c` units**: from a state with empty links and fresh STmin timers that satisfies the
    invariant, the final state is reached within `gM` rounds, as long as the timeouts cover `R + gM·c` ticks. -/
theorem gC_terminates {PA PB : Par} (hP : ParOk PA PB) (c : Nat) (hc : 1 ≤ c) : ∀ (m : Nat) (n : GN), gM PA PB n = m →
    GInv PA PB n → n.lab = [] → n.lba = [] → Fresh n →
    n.R + m * c ≤ PA.kCf → n.R + m * c ≤ PA.kFc → n.R + m * c ≤ PB.kCf → n.R + m * c ≤ PB.kFc →
    ∃ N n', N ≤ m ∧ gcanonsC PA PB c N n = some n' ∧ n'.lab = [] ∧ n'.lba = [] ∧ n'.toAN.final = true ∧
      n'.R = n.R + N * c := by
  intro m
  induction m using Nat.strongRecOn with
  | _ m ih =>
    intro n hm h l1 l2 hfr k1 k2 k3 k4
    cases hf : n.toAN.final with
    | true => exact ⟨0, n, Nat.zero_le _, rfl, l1, l2, hf, by simp⟩
    | false =>
      have hN : NInv PA PB n.toAN := ninv_of_ginv h l1 l2 hfr.1 hfr.2
      have hRle : n.R ≤ n.R + m * c := Nat.le_add_right _ _
      obtain ⟨a', ea, -, -, -, hlt⟩ := round_ok hP hN
        ⟨Nat.le_trans hRle k1, Nat.le_trans hRle k2, Nat.le_trans hRle k3, Nat.le_trans hRle k4⟩
      have hlt' := hlt hf
      have e1 := gcanonC_absRound (PA := PA) (PB := PB) c l1 l2 ea
      obtain ⟨n1, e1', g1, l1', l2', f1, -, r1⟩ := gcanonC_ok hP h c hc
        ⟨Nat.le_trans hRle k1, Nat.le_trans hRle k2, Nat.le_trans hRle k3, Nat.le_trans hRle k4⟩
      have en1 : n1 =
          { a := clr a'.a, b := clr a'.b, lab := [], lba := [], R := n.R + c, doneA := a'.doneA, doneB := a'.doneB } := by
        rw [e1] at e1'; exact (Option.some.inj e1').symm
      have hm1 : gM PA PB n1 < m := by
        have : gM PA PB n1 = netM PA PB a' := by rw [en1]; rfl
        have : netM PA PB n.toAN = gM PA PB n := rfl
        omega
      have hmc : gM PA PB n1 * c + c ≤ m * c := by
        have : (gM PA PB n1 + 1) * c ≤ m * c := Nat.mul_le_mul_right c hm1
        rw [Nat.add_mul, Nat.one_mul] at this; exact this
      obtain ⟨N, n', hN', e2, l1'', l2'', hf', r2⟩ := ih (gM PA PB n1) hm1 n1 rfl g1 l1' l2' f1
        (by rw [r1]; omega) (by rw [r1]; omega) (by rw [r1]; omega) (by rw [r1]; omega)
      refine ⟨N + 1, n', by omega, by simp only [gcanonsC, e1', Option.bind_some]; exact e2, l1'', l2'', hf', ?_⟩
      rw [r2, r1, Nat.add_mul, Nat.one_mul]; omega

theorem gcanonsC_add (PA PB : Par) (c : Nat) : ∀ (M N : Nat) (n : GN),
    gcanonsC PA PB c (M + N) n = (gcanonsC PA PB c M n).bind (gcanonsC PA PB c N) := by
  intro M
  induction M with
  | zero => intro N n; simp [gcanonsC]
  | succ M ih =>
    intro N n
    have : M + 1 + N = (M + N) + 1 := by omega
    rw [this]
    simp only [gcanonsC]
    cases gcanonC PA PB c n with
    | none => rfl
    | some n1 => exact ih N n1

/-- **No abstract state is stuck, tick of `c` units**: from ANY state satisfying the invariant, every number
    `M ≥ gM + 1` of canonical rounds ends in the final state with empty links — as long as the timeouts cover
    `R + (gM + 1)·c` ticks. -/
theorem gC_complete {PA PB : Par} (hP : ParOk PA PB) (c : Nat) (hc : 1 ≤ c) {n : GN} (h : GInv PA PB n) (K : Nat)
    (hK : n.R + (gM PA PB n + 1) * c ≤ K) (k1 : K ≤ PA.kCf) (k2 : K ≤ PA.kFc) (k3 : K ≤ PB.kCf) (k4 : K ≤ PB.kFc)
    (M : Nat) (hM : gM PA PB n + 1 ≤ M) :
    ∃ n', gcanonsC PA PB c M n = some n' ∧ n'.lab = [] ∧ n'.lba = [] ∧ n'.toAN.final = true ∧ n'.R = n.R + M * c := by
  have hK' : n.R + gM PA PB n * c + c ≤ K := by rw [Nat.add_mul, Nat.one_mul] at hK; omega
  have hle : n.R ≤ K := by omega
  obtain ⟨n1, e1, g1, l1, l1', f1, m1, r1⟩ := gcanonC_ok hP h c hc ⟨by omega, by omega, by omega, by omega⟩
  have hmc : gM PA PB n1 * c ≤ gM PA PB n * c := Nat.mul_le_mul_right c m1
  obtain ⟨N, n2, hN, e2, l2, l2', f2, r2⟩ := gC_terminates hP c hc _ n1 rfl g1 l1 l1' f1 (by rw [r1]; omega)
    (by rw [r1]; omega) (by rw [r1]; omega) (by rw [r1]; omega)
  obtain ⟨M', rfl⟩ : ∃ M', M = 1 + (N + M') := ⟨M - 1 - N, by omega⟩
  obtain ⟨n3, e3, l3, l3', f3, r3⟩ := gC_final_stable PA PB c M' n2 l2 l2' f2
  refine ⟨n3, ?_, l3, l3', f3, ?_⟩
  · rw [gcanonsC_add, show gcanonsC PA PB c 1 n = some n1 by simp [gcanonsC, e1], Option.bind_some, gcanonsC_add, e2]
    exact e3
  · rw [r3, r2, r1]
    simp only [Nat.add_mul, Nat.one_mul]; omega


theorem gstep_done_mono {PA PB : Par} {n n' : GN} {op : GOp} (h : gstep PA PB n op = some n') :
    (n.doneA = true → n'.doneA = true) ∧ (n.doneB = true → n'.doneB = true) := by
  cases op with
  | passA =>
    simp only [gstep] at h
    cases e : absPass PA n.R n.a with
    | none => rw [e] at h; cases h
    | some a1 => rw [e] at h; simp only [Option.map_some, Option.some.injEq] at h; subst h
                 exact ⟨fun h1 => or_true_left h1, fun h1 => h1⟩
  | txA =>
    simp only [gstep] at h
    cases e : absPassTx PA n.R n.a with
    | none => rw [e] at h; cases h
    | some a1 => rw [e] at h; simp only [Option.map_some, Option.some.injEq] at h; subst h
                 exact ⟨fun h1 => or_true_left h1, fun h1 => h1⟩
  | passB =>
    simp only [gstep] at h
    cases e : absPass PB n.R n.b with
    | none => rw [e] at h; cases h
    | some b1 => rw [e] at h; simp only [Option.map_some, Option.some.injEq] at h; subst h
                 exact ⟨fun h1 => h1, fun h1 => or_true_left h1⟩
  | txB =>
    simp only [gstep] at h
    cases e : absPassTx PB n.R n.b with
    | none => rw [e] at h; cases h
    | some b1 => rw [e] at h; simp only [Option.map_some, Option.some.injEq] at h; subst h
                 exact ⟨fun h1 => h1, fun h1 => or_true_left h1⟩
  | delAB k => simp only [gstep, Option.some.injEq] at h; subst h; exact ⟨fun h1 => h1, fun h1 => h1⟩
  | delBA k => simp only [gstep, Option.some.injEq] at h; subst h; exact ⟨fun h1 => h1, fun h1 => h1⟩
  | tick k => simp only [gstep, Option.some.injEq] at h; subst h; exact ⟨fun h1 => h1, fun h1 => h1⟩

theorem grun_done_mono {PA PB : Par} : ∀ (ops : List GOp) {n n' : GN}, grun PA PB ops n = some n' →
    (n.doneA = true → n'.doneA = true) ∧ (n.doneB = true → n'.doneB = true) := by
  intro ops
  induction ops with
  | nil => intro n n' h; simp only [grun, Option.some.injEq] at h; subst h; exact ⟨fun h1 => h1, fun h1 => h1⟩
  | cons op ops ih =>
    intro n n' h
    simp only [grun] at h
    cases e : gstep PA PB n op with
    | none => rw [e] at h; cases h
    | some n1 =>
      rw [e] at h
      simp only [Option.bind_some] at h
      obtain ⟨a1, a2⟩ := gstep_done_mono e
      obtain ⟨b1, b2⟩ := ih h
      exact ⟨fun h1 => b1 (a1 h1), fun h1 => b2 (a2 h1)⟩

/-! ## the network of the driver -/

section simC
variable {SA : Side} {idB kCfB kFcB : Nat}

theorem round_eq_runC (q : Pair) (dt c L1 L3 : Nat) (h1 : L1 = (qPassA q true).1.ab.length)
    (h3 : L3 = (qPassB (qDelAB (qPassA q true).1 (qPassA q true).1.ab.length) true).1.ba.length) :
    qRun dt [.passA, .delAB L1, .passB, .delBA L3, .tick c] q = q.round (c * dt) := by
  subst h1 h3
  rw [round_eq_ops]
  simp [qRun, qStep]

/-- the canonical round as a schedule (for the abstract network) -/
theorem gcanonC_run {PA PB : Par} {c : Nat} {n n1 : GN} (ha : gcanonC PA PB c n = some n1) :
    ∃ m1 m3, gstep PA PB n .passA = some m1 ∧
      (∃ m2, gstep PA PB m1 (.delAB m1.lab.length) = some m2 ∧ gstep PA PB m2 .passB = some m3) ∧
      grun PA PB [.passA, .delAB m1.lab.length, .passB, .delBA m3.lba.length, .tick c] n = some n1 := by
  unfold gcanonC at ha
  cases e1 : gstep PA PB n .passA with
  | none => rw [e1] at ha; cases ha
  | some m1 =>
  rw [e1] at ha; simp only [Option.bind_some] at ha
  cases e2 : gstep PA PB m1 (.delAB m1.lab.length) with
  | none => rw [e2] at ha; cases ha
  | some m2 =>
  rw [e2] at ha; simp only [Option.bind_some] at ha
  cases e3 : gstep PA PB m2 .passB with
  | none => rw [e3] at ha; cases ha
  | some m3 =>
  rw [e3] at ha; simp only [Option.bind_some] at ha
  cases e4 : gstep PA PB m3 (.delBA m3.lba.length) with
  | none => rw [e4] at ha; cases ha
  | some m4 =>
  rw [e4] at ha; simp only [Option.bind_some] at ha
  exact ⟨m1, m3, rfl, ⟨m2, e2, e3⟩, by simp only [grun, e1, e2, e3, e4, Option.bind_some, ha]⟩

/-- **one canonical round with a tick of `c` units from an arbitrary represented state** follows `gcanonC` -/
theorem round_simC (hA : SideOk SA) (hB : SideOk (sideB SA idB kCfB kFcB)) {c : Nat} {n n1 : GN} {q : Pair}
    (h : GRep SA idB kCfB kFcB n q) (ha : gcanonC SA.par (sideB SA idB kCfB kFcB).par c n = some n1) :
    GRep SA idB kCfB kFcB n1 (q.round (c * SA.dt)).1 ∧ NoErr (q.round (c * SA.dt)).2.1 ∧
    NoErr (q.round (c * SA.dt)).2.2 ∧
    (n1.doneA = true → n.doneA = false → Ev.done SA.id true ∈ (q.round (c * SA.dt)).2.1) ∧
    (n1.doneB = true → n.doneB = false → Ev.done idB true ∈ (q.round (c * SA.dt)).2.2) ∧
    (n.doneA = true → n1.doneA = true) ∧ (n.doneB = true → n1.doneB = true) := by
  obtain ⟨m1, m3, e1, ⟨m2, e2, e3⟩, hrun⟩ := gcanonC_run ha
  obtain ⟨s1, -⟩ := gstep_sim hA hB h .passA e1
  obtain ⟨s2, -⟩ := gstep_sim hA hB s1 _ e2
  obtain ⟨s3, -⟩ := gstep_sim hA hB s2 .passB e3
  have L1 : m1.lab.length = (qPassA q true).1.ab.length := by
    have := s1.ab
    have this' : (qPassA q true).1.ab = m1.lab.map SA.outMsg := this
    rw [this', List.length_map]
  have L3 : m3.lba.length = (qPassB (qDelAB (qPassA q true).1 (qPassA q true).1.ab.length) true).1.ba.length := by
    have := s3.ba
    simp only [qStep] at this
    rw [L1] at this
    rw [this, List.length_map]
  obtain ⟨g1, g2, g3, g4, g5⟩ := grun_sim hA hB _ n n1 q h hrun
  rw [round_eq_runC q SA.dt c _ _ L1 L3] at g1 g2 g3 g4 g5
  obtain ⟨d1, d2⟩ := grun_done_mono _ hrun
  exact ⟨g1, g2, g3, g4, g5, d1, d2⟩

/-- **`M` canonical rounds with a tick of `c` units follow `gcanonsC`** -/
theorem rounds_simC (hA : SideOk SA) (hB : SideOk (sideB SA idB kCfB kFcB)) (c : Nat) : ∀ (M : Nat) (n n' : GN) (q : Pair),
    GRep SA idB kCfB kFcB n q → gcanonsC SA.par (sideB SA idB kCfB kFcB).par c M n = some n' →
    GRep SA idB kCfB kFcB n' (Pair.rounds (c * SA.dt) M q).1 ∧
    NoErr (Pair.rounds (c * SA.dt) M q).2.1 ∧ NoErr (Pair.rounds (c * SA.dt) M q).2.2 ∧
    (n'.doneA = true → n.doneA = false → Ev.done SA.id true ∈ (Pair.rounds (c * SA.dt) M q).2.1) ∧
    (n'.doneB = true → n.doneB = false → Ev.done idB true ∈ (Pair.rounds (c * SA.dt) M q).2.2) := by
  intro M
  induction M with
  | zero =>
    intro n n' q h ha
    simp only [gcanonsC, Option.some.injEq] at ha
    subst ha
    exact ⟨h, NoErr_nil, NoErr_nil, fun h1 h0 => bool_absurd h1 h0, fun h1 h0 => bool_absurd h1 h0⟩
  | succ M ih =>
    intro n n' q h ha
    simp only [gcanonsC] at ha
    cases e : gcanonC SA.par (sideB SA idB kCfB kFcB).par c n with
    | none => rw [e] at ha; cases ha
    | some n1 =>
      rw [e] at ha
      simp only [Option.bind_some] at ha
      obtain ⟨h1, e1, e2, d1, d2, -, -⟩ := round_simC hA hB h e
      obtain ⟨h2, f1, f2, g1, g2⟩ := ih n1 n' _ h1 ha
      refine ⟨h2, NoErr_append e1 f1, NoErr_append e2 f2, ?_, ?_⟩
      · intro hd' hd
        show _ ∈ (q.round (c * SA.dt)).2.1 ++ _
        cases hd1 : n1.doneA with
        | true => exact List.mem_append_left _ (d1 hd1 hd)
        | false => exact List.mem_append_right _ (g1 hd' hd1)
      · intro hd' hd
        show _ ∈ (q.round (c * SA.dt)).2.2 ++ _
        cases hd1 : n1.doneB with
        | true => exact List.mem_append_left _ (d2 hd1 hd)
        | false => exact List.mem_append_right _ (g2 hd' hd1)

/-- **No reachable state is stuck** (vocabulary of the proof libraries), continuation with a tick of `c ≥ 1` units:
    after the two `send` calls and ANY schedule `ops` of the schedule space (ticks in units of `SA.dt`), no error was
    reported, and every number `M ≥ 4·(nA + nB) + 3` of canonical rounds with tick `c·SA.dt` completes both transfers. -/
theorem nostuck_coreC (hA : SideOk SA) (hB : SideOk (sideB SA idB kCfB kFcB))
    (hP : ParOk SA.par (sideB SA idB kCfB kFcB).par)
    (haccA : ((State.init SA.c SA.a).send { id := SA.id, size := SA.p.length, src := SA.p }).2 = none)
    (haccB : ((State.init SA.c' SA.a').send { id := idB, size := SA.p'.length, src := SA.p' }).2 = none)
    (ops : List GOp) (c : Nat) (hc : 1 ≤ c) (K : Nat)
    (hK : gticksAll ops + (4 * (SA.par.n + (sideB SA idB kCfB kFcB).par.n) + 2 + 1) * c ≤ K)
    (k1 : K ≤ SA.kCf) (k2 : K ≤ SA.kFc) (k3 : K ≤ kCfB) (k4 : K ≤ kFcB) :
    ∃ d0, startNet2 SA.c SA.c' SA.a SA.a' SA.id SA.p idB SA.p' = some (d0, none, none) ∧
      NoErr (NetP.logOf 0 (NetP.Net.run d0 (ops.map (toNOp SA.dt))).2) ∧
      NoErr (NetP.logOf 1 (NetP.Net.run d0 (ops.map (toNOp SA.dt))).2) ∧
      (NetP.Net.run d0 (ops.map (toNOp SA.dt))).1.now = gticksAll ops * SA.dt ∧
      ∀ M, 4 * (SA.par.n + (sideB SA idB kCfB kFcB).par.n) + 2 + 1 ≤ M →
        ∃ d' evA evB, canonRounds (c * SA.dt) M (NetP.Net.run d0 (ops.map (toNOp SA.dt))).1 = some (d', evA, evB) ∧
          Completed2 SA.id SA.p idB SA.p' d' (NetP.logOf 0 (NetP.Net.run d0 (ops.map (toNOp SA.dt))).2 ++ evA)
            (NetP.logOf 1 (NetP.Net.run d0 (ops.map (toNOp SA.dt))).2 ++ evB) := by
  have hm0 := gM_init SA.par (sideB SA idB kCfB kFcB).par hP
  have hk1 : K ≤ SA.par.kCf := k1
  have hk2 : K ≤ SA.par.kFc := k2
  have hk3 : K ≤ (sideB SA idB kCfB kFcB).par.kCf := k3
  have hk4 : K ≤ (sideB SA idB kCfB kFcB).par.kFc := k4
  have hKt : gticksAll ops ≤ K := Nat.le_trans (Nat.le_add_right _ _) hK
  obtain ⟨n, e, hI, hm, hR⟩ := grun_ok hP ops {} (ginv_init hP) (by show 0 + _ ≤ _; omega) (by show 0 + _ ≤ _; omega)
    (by show 0 + _ ≤ _; omega) (by show 0 + _ ≤ _; omega)
  have hR' : n.R = gticksAll ops := by rw [hR]; show 0 + _ = _; omega
  have nr := netRep_init SA idB kCfB kFcB hA hB
  have hrep0 : GRep SA idB kCfB kFcB {} (pair2 SA.c SA.c' SA.a SA.a' SA.id SA.p idB SA.p') :=
    ⟨nr.a, nr.b, nr.ab, nr.ba, nr.now⟩
  obtain ⟨hrep, ne1, ne2, d1, d2⟩ := grun_sim hA hB ops {} n _ hrep0 e
  obtain ⟨t1, t2, t3⟩ := run_toNet SA.dt ops (pair2 SA.c SA.c' SA.a SA.a' SA.id SA.p idB SA.p')
  refine ⟨_, startNet2_eq SA.c SA.c' SA.a SA.a' SA.id SA.p idB SA.p' haccA haccB, ?_, ?_, ?_, ?_⟩
  · rw [t2]; exact ne1
  · rw [t3]; exact ne2
  · rw [t1]; show (qRun SA.dt ops _).1.now = _; rw [hrep.now, hR']
  · intro M hM
    have hmc : (gM SA.par (sideB SA idB kCfB kFcB).par n + 1) * c ≤
        (4 * (SA.par.n + (sideB SA idB kCfB kFcB).par.n) + 2 + 1) * c := Nat.mul_le_mul_right c (by omega)
    obtain ⟨n', e', l1, l2, hf, -⟩ := gC_complete hP c hc hI K (by rw [hR']; omega) hk1 hk2 hk3 hk4 M (by omega)
    obtain ⟨hrep', c5, c6, c7, c8⟩ := rounds_simC hA hB c M n n' _ hrep e'
    unfold AN.final at hf
    simp only [Bool.and_eq_true] at hf
    obtain ⟨⟨⟨fa, fb⟩, fdA⟩, fdB⟩ := hf
    obtain ⟨a1, a2, a3, a4, a5, a6, a7, a8⟩ := hrep'.a.final fa
    obtain ⟨b1', b2, b3, b4, b5, b6, b7, b8⟩ := hrep'.b.final fb
    have b1 : (Pair.rounds (c * SA.dt) M (qRun SA.dt ops (pair2 SA.c SA.c' SA.a SA.a' SA.id SA.p idB SA.p')).1).1.b.rxQueue =
        [SA.p] := b1'
    rw [t1, t2, t3]
    refine ⟨_, _, _, canonRounds_toNet (c * SA.dt) M _, ?_⟩
    refine ⟨_, _, rfl, ?_, b1, ?_, a1, ?_, a2, b2, a3, b3, a4, b4, a5, b5, a6, b6, a7, b7, a8, b8, ?_, ?_,
      NoErr_append ne1 c5, NoErr_append ne2 c6⟩
    · show #[_, _] = #[[], []]
      rw [hrep'.ab, hrep'.ba, l1, l2]; rfl
    · simp [State.recv, b1]
    · simp [State.recv, a1]
    · cases hd : n.doneA with
      | true => exact List.mem_append_left _ (d1 hd rfl)
      | false => exact List.mem_append_right _ (c7 fdA hd)
    · cases hd : n.doneB with
      | true => exact List.mem_append_left _ (d2 hd rfl)
      | false => exact List.mem_append_right _ (c8 fdB hd)

end simC

end Isotp.NoStuck
