-- This module serves as the root of the `Isotp` library.
-- Import modules here that should be built as part of the library.
import Isotp.Basic
