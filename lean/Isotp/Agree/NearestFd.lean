import Isotp.Generated
import Isotp.Frame
/-
  Leaf: `nearestFd` = `_get_nearest_can_fd_size` on 0..66 (0xFF = ValueError), and
  `dlcOf` = `_get_dlc(data, validate_tx=True)` for tx_data_length = 8 and for CAN FD sizes.
-/
namespace Isotp.Agree

theorem nearestFd_agree : ∀ n : Fin 67, (nearestFd n.val).getD 0xFF = Generated.entry Generated.nearestFdTable 1 n.val := by
  decide +kernel

theorem dlc8_agree : ∀ n : Fin 67, (dlcOf { txDl := 8 } n.val).getD 0xFF = Generated.entry Generated.dlcTable8 1 n.val := by
  decide +kernel

theorem dlcFd_agree : ∀ n : Fin 67, (dlcOf { txDl := 64 } n.val).getD 0xFF = Generated.entry Generated.dlcTableFd 1 n.val := by
  decide +kernel

/-- `dlcOf` reads the link-layer size only through the test `txDl = 8` -/
theorem dlcOf_fd_uniform (c : Cfg) (h : c.txDl ≠ 8) (n : Nat) : dlcOf c n = dlcOf { txDl := 64 } n := by
  unfold dlcOf; simp [h]

end Isotp.Agree
#print axioms Isotp.Agree.nearestFd_agree
#print axioms Isotp.Agree.dlc8_agree
#print axioms Isotp.Agree.dlcFd_agree
