import Isotp.Proofs.NoStuck
import Isotp.Proofs.NetSafety
/-
  C10, "no reachable state is stuck", part 2: the network of the driver follows the abstract network with links
  (`GN`, NoStuck.lean) along ARBITRARY schedules.

  * `procLoopTx_sim`, `passTx_sim`: a transmit-only `process(do_rx=False)` call is the abstract `absPassTx`.
  * `qStep`, `toNOp`, `step_toNet`, `run_toNet`: the operations of the schedule space on the two-layer record, and
    the operations of the driver (`NetP.NOp`, `NetP.Net.step`, `NetP.Net.run`) they are.
  * `GRep`, `gstep_sim`, `grun_sim`: the representation relation with links, preserved by every operation; no error
    event; `complete(True)` is among the events once the abstract network says so.
  * `round_sim1`: the first canonical round from an arbitrary represented state (it flushes the links).
  * `complete_from`: the bridge — from any represented state satisfying the invariant, `M ≥ gM + 1` canonical rounds
    complete both transfers.
-/
namespace Isotp.NoStuck
open Isotp Isotp.State Isotp.Spec Isotp.Proofs Isotp.Lockstep Isotp.DuplexLive

/-! ## the transmit-only pass -/

theorem processLoop_succ_tx (f : Nat) (s : State) (st : Stats) :
    processLoop (f + 1) false true s st =
      (let sw := (!s.txQueue.isEmpty && decide (s.rxState = .idle) && decide (s.txState = .idle))
       let s1 : State := { s with rl := s.rl.update s.cfg.rlWindowNs s.now }
       let t := txLoop s1.txFuel s1 st.sent
       if t.1.exc.isSome then (t.1, { st with sent := t.2.1 }, false)
       else if t.2.2.2 then (t.1, { st with sent := t.2.1 }, true)
       else if sw || false || t.2.2.1 then processLoop f false true t.1 { st with sent := t.2.1 }
       else (t.1, { st with sent := t.2.1 }, false)) := by rfl

/-- one iteration of the outer loop of `process(do_rx=False)` -/
theorem processLoop_iter_tx (f : Nat) (s : State) (st : Stats) (s2 : State) (run : Bool)
    (htx : ∀ n, ∃ n', txLoop (rlUpd s).txFuel (rlUpd s) n = (s2, n', run, false))
    (hexc : s2.exc = none) :
    ∃ st', processLoop (f + 1) false true s st =
      if ((!s.txQueue.isEmpty && decide (s.rxState = .idle) && decide (s.txState = .idle)) || run) = true
      then processLoop f false true s2 st' else (s2, st', false) := by
  obtain ⟨n', h2⟩ := htx st.sent
  refine ⟨{ st with sent := n' }, ?_⟩
  unfold rlUpd at h2
  rw [processLoop_succ_tx]
  simp only [h2, hexc, Option.isSome_none, Bool.false_eq_true, if_false, Bool.or_false]

section txonly
variable {S : Side} {R : Nat}

/-- **the outer loop of `process(do_rx=False)` is the abstract one** -/
theorem procLoopTx_sim (hS : SideOk S) : ∀ (f : Nat) (al : AL) (s : State) (st : Stats) (al' : AL),
    Rep S R al s → absProcLoopTx S.par R f al = some al' →
    ∃ s' st', processLoop f false true s st = (s', st', false) ∧ Rep S R al' s' := by
  intro f
  induction f with
  | zero => intro al s st al' _ ha; simp [absProcLoopTx] at ha
  | succ f ih =>
    intro al s st al' h ha
    unfold absProcLoopTx at ha
    simp only [] at ha
    split at ha
    · cases ha
    next al2 run htx =>
    obtain ⟨s2, e2, hexc, h2⟩ := txLoop_sim hS _ al s al2 run s.txFuel (h.fuel hS) h htx
    obtain ⟨st1, e3⟩ := processLoop_iter_tx f s st s2 run (by rw [h.rlUpd]; exact e2) hexc
    rw [h.sw] at e3
    split at ha
    · next hgo =>
      rw [if_pos hgo] at e3
      obtain ⟨s3, st3, e4, h3⟩ := ih al2 s2 st1 al' h2 ha
      exact ⟨s3, st3, by rw [e3, e4], h3⟩
    · next hgo =>
      rw [if_neg hgo] at e3
      simp only [Option.some.injEq] at ha
      subst ha
      exact ⟨s2, st1, e3, h2⟩

/-- **one `process(do_rx=False)` call is one abstract transmit-only pass** -/
theorem passTx_sim (hS : SideOk S) {al al' : AL} {s : State} (h : Rep S R { al with out := [], done := false } s)
    (ha : absPassTx S.par R al = some al') :
    Rep S R al' (s.process false true).1 := by
  unfold absPassTx at ha
  unfold State.process
  rw [h.fuelEq]
  obtain ⟨s', st', e, h'⟩ := procLoopTx_sim hS _ _ s {} al' h ha
  have : absFuel { al with out := [], done := false } = absFuel al := rfl
  rw [this, e]
  exact h'

/-- a stored layer state seen at another time -/
theorem stored_retime {al : AL} {s : State} (h : Stored S R al s) (R' : Nat) : Stored S R' al s := by
  unfold Stored at *
  exact ⟨⟨h.base.cfg, h.base.addr, h.base.standby, h.base.exc, h.base.rl⟩, h.tx, h.rx, h.fc, h.pend, h.pstat, h.inbox,
    rfl, h.out, h.noerr, h.done⟩

/-- from the end of a pass to the stored state -/
theorem rep_store {al : AL} {s : State} (h : Rep S R al s) : Stored S R (clr al) (leave s) := by
  have := h.next [] R
  simp only [List.append_nil, List.map_nil, pushAll_nil] at this
  exact this

end txonly

/-! ## the operations on the two-layer record -/

/-- `process(do_rx, do_tx=True)` of A: the new record and A's events -/
def qPassA (q : Pair) (doRx : Bool) : Pair × List Ev :=
  let sa := ((enter q.now q.a).process doRx true).1
  ({ q with a := leave sa, ab := q.ab ++ txsOf sa.log, now := sa.now, ea := q.ea + (txsOf sa.log).length },
   sa.log.reverse)

def qPassB (q : Pair) (doRx : Bool) : Pair × List Ev :=
  let sb := ((enter q.now q.b).process doRx true).1
  ({ q with b := leave sb, ba := q.ba ++ txsOf sb.log, now := sb.now, eb := q.eb + (txsOf sb.log).length },
   sb.log.reverse)

def qDelAB (q : Pair) (k : Nat) : Pair := { q with b := pushAll q.b (q.ab.take k), ab := q.ab.drop k }
def qDelBA (q : Pair) (k : Nat) : Pair := { q with a := pushAll q.a (q.ba.take k), ba := q.ba.drop k }
def qTick (q : Pair) (d : Nat) : Pair := { q with now := q.now + d }

/-- an operation of the schedule space on the record: the new record, the events of A, the events of B -/
def qStep (dt : Nat) (q : Pair) : GOp → Pair × List Ev × List Ev
  | .passA => ((qPassA q true).1, (qPassA q true).2, [])
  | .txA => ((qPassA q false).1, (qPassA q false).2, [])
  | .passB => ((qPassB q true).1, [], (qPassB q true).2)
  | .txB => ((qPassB q false).1, [], (qPassB q false).2)
  | .delAB k => (qDelAB q k, [], [])
  | .delBA k => (qDelBA q k, [], [])
  | .tick k => (qTick q (k * dt), [], [])

/-- a schedule on the record: the events of A and of B are collected -/
def qRun (dt : Nat) : List GOp → Pair → Pair × List Ev × List Ev
  | [], q => (q, [], [])
  | op :: ops, q =>
    ((qRun dt ops (qStep dt q op).1).1, (qStep dt q op).2.1 ++ (qRun dt ops (qStep dt q op).1).2.1,
      (qStep dt q op).2.2 ++ (qRun dt ops (qStep dt q op).1).2.2)

/-- the operation of the driver (`NetP.NOp`: `proc`, `procTx`, `deliver`, `tick`) an operation of the schedule space is;
    a tick is `dt` nanoseconds -/
def toNOp (dt : Nat) : GOp → NetP.NOp
  | .passA => .proc 0
  | .passB => .proc 1
  | .txA => .procTx 0
  | .txB => .procTx 1
  | .delAB k => .deliver 0 k
  | .delBA k => .deliver 1 k
  | .tick k => .tick (k * dt)

theorem deliver01k (q : Pair) (k : Nat) :
    q.toNet.deliver 0 [1] k = some ((qDelAB q k).toNet, (q.ab.take k).length) := by
  simp [Net.deliver, Pair.toNet, qDelAB, foldl_pushFrame]

theorem deliver10k (q : Pair) (k : Nat) :
    q.toNet.deliver 1 [0] k = some ((qDelBA q k).toNet, (q.ba.take k).length) := by
  simp [Net.deliver, Pair.toNet, qDelBA, foldl_pushFrame]

/-- **the operations of the driver act on the network as the record operations** -/
theorem step_toNet (dt : Nat) (q : Pair) (op : GOp) :
    (NetP.Net.step q.toNet (toNOp dt op)).1 = (qStep dt q op).1.toNet ∧
    (NetP.Net.step q.toNet (toNOp dt op)).2.evsOf 0 = (qStep dt q op).2.1 ∧
    (NetP.Net.step q.toNet (toNOp dt op)).2.evsOf 1 = (qStep dt q op).2.2 := by
  cases op with
  | passA => simp only [toNOp, NetP.Net.step, onLayer0]; exact ⟨rfl, rfl, rfl⟩
  | txA => simp only [toNOp, NetP.Net.step, onLayer0]; exact ⟨rfl, rfl, rfl⟩
  | passB => simp only [toNOp, NetP.Net.step, onLayer1]; exact ⟨rfl, rfl, rfl⟩
  | txB => simp only [toNOp, NetP.Net.step, onLayer1]; exact ⟨rfl, rfl, rfl⟩
  | delAB k =>
    have := deliver01k q k
    simp only [toNOp, NetP.Net.step, show (0 : Nat) < 2 from by omega, if_true, show 1 - 0 = 1 from rfl, this]
    exact ⟨rfl, rfl, rfl⟩
  | delBA k =>
    have := deliver10k q k
    simp only [toNOp, NetP.Net.step, show (1 : Nat) < 2 from by omega, if_true, show 1 - 1 = 0 from rfl, this]
    exact ⟨rfl, rfl, rfl⟩
  | tick k => exact ⟨rfl, rfl, rfl⟩

/-- **a schedule run by the driver** (`NetP.Net.run`) is the schedule on the record; the events of the two layers are
    the ones collected there -/
theorem runFrom_toNet (dt : Nat) : ∀ (ops : List GOp) (q : Pair) (tr : List NetP.NEv),
    (NetP.Net.runFrom q.toNet tr (ops.map (toNOp dt))).1 = (qRun dt ops q).1.toNet ∧
    NetP.logOf 0 (NetP.Net.runFrom q.toNet tr (ops.map (toNOp dt))).2 = NetP.logOf 0 tr ++ (qRun dt ops q).2.1 ∧
    NetP.logOf 1 (NetP.Net.runFrom q.toNet tr (ops.map (toNOp dt))).2 = NetP.logOf 1 tr ++ (qRun dt ops q).2.2 := by
  intro ops
  induction ops with
  | nil => intro q tr; exact ⟨rfl, by simp [NetP.Net.runFrom, qRun], by simp [NetP.Net.runFrom, qRun]⟩
  | cons op ops ih =>
    intro q tr
    obtain ⟨s1, s2, s3⟩ := step_toNet dt q op
    have e : NetP.Net.runFrom q.toNet tr ((op :: ops).map (toNOp dt)) =
        NetP.Net.runFrom (NetP.Net.step q.toNet (toNOp dt op)).1 (tr ++ [(NetP.Net.step q.toNet (toNOp dt op)).2])
          (ops.map (toNOp dt)) := by
      simp [NetP.Net.runFrom]
    rw [e, s1]
    obtain ⟨i1, i2, i3⟩ := ih (qStep dt q op).1 (tr ++ [(NetP.Net.step q.toNet (toNOp dt op)).2])
    refine ⟨i1, ?_, ?_⟩
    · rw [i2, NetP.logOf_snoc, s2]; simp [qRun]
    · rw [i3, NetP.logOf_snoc, s3]; simp [qRun]

theorem run_toNet (dt : Nat) (ops : List GOp) (q : Pair) :
    (NetP.Net.run q.toNet (ops.map (toNOp dt))).1 = (qRun dt ops q).1.toNet ∧
    NetP.logOf 0 (NetP.Net.run q.toNet (ops.map (toNOp dt))).2 = (qRun dt ops q).2.1 ∧
    NetP.logOf 1 (NetP.Net.run q.toNet (ops.map (toNOp dt))).2 = (qRun dt ops q).2.2 := by
  obtain ⟨h1, h2, h3⟩ := runFrom_toNet dt ops q []
  unfold NetP.Net.run
  exact ⟨h1, by simpa [NetP.logOf] using h2, by simpa [NetP.logOf] using h3⟩

theorem qDelAB_all (q : Pair) : qDelAB q q.ab.length = { q with b := pushAll q.b q.ab, ab := [] } := by
  simp [qDelAB]

theorem qDelBA_all (q : Pair) : qDelBA q q.ba.length = { q with a := pushAll q.a q.ba, ba := [] } := by
  simp [qDelBA]

/-- the canonical round of Lockstep.lean, as operations of the schedule space -/
theorem round_eq_ops (q : Pair) (dt : Nat) :
    q.round dt =
      (qTick (qDelBA (qPassB (qDelAB (qPassA q true).1 (qPassA q true).1.ab.length) true).1
          (qPassB (qDelAB (qPassA q true).1 (qPassA q true).1.ab.length) true).1.ba.length) dt,
       (qPassA q true).2, (qPassB (qDelAB (qPassA q true).1 (qPassA q true).1.ab.length) true).2) := by
  rw [qDelAB_all, qDelBA_all]
  rfl


/-! ## the representation relation with links -/

section sim
variable (SA : Side) (idB kCfB kFcB : Nat)

/-- the concrete two-layer network `q` is in abstract state `n`: both layers are represented (`Stored`: field by field,
    `Rep` of DuplexLive.lean), the two links carry the frames of the abstract links, the clock is `R` ticks -/
structure GRep (n : GN) (q : Pair) : Prop where
  a   : Stored SA n.R n.a q.a
  b   : Stored (sideB SA idB kCfB kFcB) n.R n.b q.b
  ab  : q.ab = n.lab.map SA.outMsg
  ba  : q.ba = n.lba.map SA.inMsg
  now : q.now = n.R * SA.dt

variable {SA idB kCfB kFcB}

/-- a pass of A (full or transmit-only) that follows the abstract one -/
theorem sim_passA {n : GN} {q : Pair} (h : GRep SA idB kCfB kFcB n q) (doRx : Bool) (a1 : AL)
    (hrep : Rep SA n.R a1 ((enter q.now q.a).process doRx true).1) :
    GRep SA idB kCfB kFcB { n with a := clr a1, lab := n.lab ++ a1.out, doneA := n.doneA || a1.done } (qPassA q doRx).1 ∧
      NoErr (qPassA q doRx).2 ∧ (a1.done = true → Ev.done SA.id true ∈ (qPassA q doRx).2) := by
  refine ⟨⟨rep_store hrep, h.b, ?_, h.ba, hrep.now⟩, NoErr_reverse hrep.noerr,
    fun hd => List.mem_reverse.mpr (hrep.done hd)⟩
  show q.ab ++ txsOf _ = _
  rw [h.ab, hrep.out, List.map_append]

theorem sim_passB {n : GN} {q : Pair} (h : GRep SA idB kCfB kFcB n q) (doRx : Bool) (b1 : AL)
    (hrep : Rep (sideB SA idB kCfB kFcB) n.R b1 ((enter q.now q.b).process doRx true).1) :
    GRep SA idB kCfB kFcB { n with b := clr b1, lba := n.lba ++ b1.out, doneB := n.doneB || b1.done } (qPassB q doRx).1 ∧
      NoErr (qPassB q doRx).2 ∧ (b1.done = true → Ev.done idB true ∈ (qPassB q doRx).2) := by
  refine ⟨⟨h.a, rep_store hrep, h.ab, ?_, hrep.now⟩, NoErr_reverse hrep.noerr,
    fun hd => List.mem_reverse.mpr (hrep.done hd)⟩
  show q.ba ++ txsOf _ = _
  rw [h.ba, hrep.out, List.map_append]
  rfl

theorem bool_absurd {P : Prop} {x : Bool} (h1 : x = true) (h0 : x = false) : P := by
  rw [h0] at h1; cases h1

theorem or_true_left {x y : Bool} (h : x = true) : (x || y) = true := by rw [h]; rfl

theorem or_true_of {x y : Bool} (h : (x || y) = true) (hx : x = false) : y = true := by
  cases x <;> simp_all

/-- **every operation of the schedule space on the network of the driver is the abstract one**; it reports no error;
    `complete(True)` is among the events when the abstract operation says so -/
theorem gstep_sim (hA : SideOk SA) (hB : SideOk (sideB SA idB kCfB kFcB)) {n n' : GN} {q : Pair}
    (h : GRep SA idB kCfB kFcB n q) (op : GOp)
    (ha : gstep SA.par (sideB SA idB kCfB kFcB).par n op = some n') :
    GRep SA idB kCfB kFcB n' (qStep SA.dt q op).1 ∧
    NoErr (qStep SA.dt q op).2.1 ∧ NoErr (qStep SA.dt q op).2.2 ∧
    (n'.doneA = true → n.doneA = false → Ev.done SA.id true ∈ (qStep SA.dt q op).2.1) ∧
    (n'.doneB = true → n.doneB = false → Ev.done idB true ∈ (qStep SA.dt q op).2.2) ∧
    (n.doneA = true → n'.doneA = true) ∧ (n.doneB = true → n'.doneB = true) := by
  have hnow := h.now
  cases op with
  | passA =>
    simp only [gstep] at ha
    cases e : absPass SA.par n.R n.a with
    | none => rw [e] at ha; cases ha
    | some a1 =>
      rw [e] at ha
      simp only [Option.map_some, Option.some.injEq] at ha
      subst ha
      have hrep : Rep SA n.R a1 ((enter q.now q.a).process true true).1 := by rw [hnow]; exact pass_sim hA h.a e
      obtain ⟨g1, g2, g3⟩ := sim_passA h true a1 hrep
      exact ⟨g1, g2, NoErr_nil, fun h1 h0 => g3 (or_true_of h1 h0), fun h1 h0 => bool_absurd h1 h0,
        fun h1 => or_true_left h1, fun h1 => h1⟩
  | txA =>
    simp only [gstep] at ha
    cases e : absPassTx SA.par n.R n.a with
    | none => rw [e] at ha; cases ha
    | some a1 =>
      rw [e] at ha
      simp only [Option.map_some, Option.some.injEq] at ha
      subst ha
      have hrep : Rep SA n.R a1 ((enter q.now q.a).process false true).1 := by rw [hnow]; exact passTx_sim hA h.a e
      obtain ⟨g1, g2, g3⟩ := sim_passA h false a1 hrep
      exact ⟨g1, g2, NoErr_nil, fun h1 h0 => g3 (or_true_of h1 h0), fun h1 h0 => bool_absurd h1 h0,
        fun h1 => or_true_left h1, fun h1 => h1⟩
  | passB =>
    simp only [gstep] at ha
    cases e : absPass (sideB SA idB kCfB kFcB).par n.R n.b with
    | none => rw [e] at ha; cases ha
    | some b1 =>
      rw [e] at ha
      simp only [Option.map_some, Option.some.injEq] at ha
      subst ha
      have hrep : Rep (sideB SA idB kCfB kFcB) n.R b1 ((enter q.now q.b).process true true).1 := by
        rw [hnow]; exact pass_sim hB h.b e
      obtain ⟨g1, g2, g3⟩ := sim_passB h true b1 hrep
      exact ⟨g1, NoErr_nil, g2, fun h1 h0 => bool_absurd h1 h0, fun h1 h0 => g3 (or_true_of h1 h0),
        fun h1 => h1, fun h1 => or_true_left h1⟩
  | txB =>
    simp only [gstep] at ha
    cases e : absPassTx (sideB SA idB kCfB kFcB).par n.R n.b with
    | none => rw [e] at ha; cases ha
    | some b1 =>
      rw [e] at ha
      simp only [Option.map_some, Option.some.injEq] at ha
      subst ha
      have hrep : Rep (sideB SA idB kCfB kFcB) n.R b1 ((enter q.now q.b).process false true).1 := by
        rw [hnow]; exact passTx_sim hB h.b e
      obtain ⟨g1, g2, g3⟩ := sim_passB h false b1 hrep
      exact ⟨g1, NoErr_nil, g2, fun h1 h0 => bool_absurd h1 h0, fun h1 h0 => g3 (or_true_of h1 h0),
        fun h1 => h1, fun h1 => or_true_left h1⟩
  | delAB k =>
    simp only [gstep, Option.some.injEq] at ha
    subst ha
    refine ⟨⟨h.a, ?_, ?_, h.ba, h.now⟩, NoErr_nil, NoErr_nil, fun h1 h0 => bool_absurd h1 h0,
      fun h1 h0 => bool_absurd h1 h0, fun h1 => h1, fun h1 => h1⟩
    · have := h.b.push (n.lab.take k)
      show Stored _ n.R _ (pushAll q.b (q.ab.take k))
      rw [h.ab, ← List.map_take]
      exact this
    · show q.ab.drop k = _
      rw [h.ab, ← List.map_drop]
  | delBA k =>
    simp only [gstep, Option.some.injEq] at ha
    subst ha
    refine ⟨⟨?_, h.b, h.ab, ?_, h.now⟩, NoErr_nil, NoErr_nil, fun h1 h0 => bool_absurd h1 h0,
      fun h1 h0 => bool_absurd h1 h0, fun h1 => h1, fun h1 => h1⟩
    · have := h.a.push (n.lba.take k)
      show Stored _ n.R _ (pushAll q.a (q.ba.take k))
      rw [h.ba, ← List.map_take]
      exact this
    · show q.ba.drop k = _
      rw [h.ba, ← List.map_drop]
  | tick k =>
    simp only [gstep, Option.some.injEq] at ha
    subst ha
    refine ⟨⟨stored_retime h.a _, stored_retime h.b _, h.ab, h.ba, ?_⟩, NoErr_nil, NoErr_nil,
      fun h1 h0 => bool_absurd h1 h0, fun h1 h0 => bool_absurd h1 h0, fun h1 => h1, fun h1 => h1⟩
    show q.now + k * SA.dt = (n.R + k) * SA.dt
    rw [h.now, Nat.add_mul]

/-- **every schedule on the network of the driver follows the abstract network** -/
theorem grun_sim (hA : SideOk SA) (hB : SideOk (sideB SA idB kCfB kFcB)) : ∀ (ops : List GOp) (n n' : GN) (q : Pair),
    GRep SA idB kCfB kFcB n q → grun SA.par (sideB SA idB kCfB kFcB).par ops n = some n' →
    GRep SA idB kCfB kFcB n' (qRun SA.dt ops q).1 ∧
    NoErr (qRun SA.dt ops q).2.1 ∧ NoErr (qRun SA.dt ops q).2.2 ∧
    (n'.doneA = true → n.doneA = false → Ev.done SA.id true ∈ (qRun SA.dt ops q).2.1) ∧
    (n'.doneB = true → n.doneB = false → Ev.done idB true ∈ (qRun SA.dt ops q).2.2) := by
  intro ops
  induction ops with
  | nil =>
    intro n n' q h ha
    simp only [grun, Option.some.injEq] at ha
    subst ha
    exact ⟨h, NoErr_nil, NoErr_nil, fun h1 h0 => bool_absurd h1 h0, fun h1 h0 => bool_absurd h1 h0⟩
  | cons op ops ih =>
    intro n n' q h ha
    simp only [grun] at ha
    cases e : gstep SA.par (sideB SA idB kCfB kFcB).par n op with
    | none => rw [e] at ha; cases ha
    | some n1 =>
      rw [e] at ha
      simp only [Option.bind_some] at ha
      obtain ⟨h1, e1, e2, d1, d2, m1, m2⟩ := gstep_sim hA hB h op e
      obtain ⟨h2, f1, f2, g1, g2⟩ := ih n1 n' _ h1 ha
      refine ⟨h2, NoErr_append e1 f1, NoErr_append e2 f2, ?_, ?_⟩
      · intro hd' hd
        show _ ∈ (qStep SA.dt q op).2.1 ++ _
        cases hd1 : n1.doneA with
        | true => exact List.mem_append_left _ (d1 hd1 hd)
        | false => exact List.mem_append_right _ (g1 hd' hd1)
      · intro hd' hd
        show _ ∈ (qStep SA.dt q op).2.2 ++ _
        cases hd1 : n1.doneB with
        | true => exact List.mem_append_left _ (d2 hd1 hd)
        | false => exact List.mem_append_right _ (g2 hd' hd1)


/-! ## the canonical continuation -/

/-- the canonical round is this schedule -/
theorem round_eq_run (q : Pair) (dt L1 L3 : Nat) (h1 : L1 = (qPassA q true).1.ab.length)
    (h3 : L3 = (qPassB (qDelAB (qPassA q true).1 (qPassA q true).1.ab.length) true).1.ba.length) :
    qRun dt [.passA, .delAB L1, .passB, .delBA L3, .tick 1] q = q.round dt := by
  subst h1 h3
  rw [round_eq_ops]
  simp [qRun, qStep, Nat.one_mul]

/-- **the first canonical round from an arbitrary represented state** follows `gcanon` -/
theorem round_sim1 (hA : SideOk SA) (hB : SideOk (sideB SA idB kCfB kFcB)) {n n1 : GN} {q : Pair}
    (h : GRep SA idB kCfB kFcB n q) (ha : gcanon SA.par (sideB SA idB kCfB kFcB).par n = some n1) :
    GRep SA idB kCfB kFcB n1 (q.round SA.dt).1 ∧ NoErr (q.round SA.dt).2.1 ∧ NoErr (q.round SA.dt).2.2 ∧
    (n1.doneA = true → n.doneA = false → Ev.done SA.id true ∈ (q.round SA.dt).2.1) ∧
    (n1.doneB = true → n.doneB = false → Ev.done idB true ∈ (q.round SA.dt).2.2) := by
  unfold gcanon at ha
  cases e1 : gstep SA.par (sideB SA idB kCfB kFcB).par n .passA with
  | none => rw [e1] at ha; cases ha
  | some m1 =>
  rw [e1] at ha; simp only [Option.bind_some] at ha
  cases e2 : gstep SA.par (sideB SA idB kCfB kFcB).par m1 (.delAB m1.lab.length) with
  | none => rw [e2] at ha; cases ha
  | some m2 =>
  rw [e2] at ha; simp only [Option.bind_some] at ha
  cases e3 : gstep SA.par (sideB SA idB kCfB kFcB).par m2 .passB with
  | none => rw [e3] at ha; cases ha
  | some m3 =>
  rw [e3] at ha; simp only [Option.bind_some] at ha
  cases e4 : gstep SA.par (sideB SA idB kCfB kFcB).par m3 (.delBA m3.lba.length) with
  | none => rw [e4] at ha; cases ha
  | some m4 =>
  rw [e4] at ha; simp only [Option.bind_some] at ha
  have hrun : grun SA.par (sideB SA idB kCfB kFcB).par
      [.passA, .delAB m1.lab.length, .passB, .delBA m3.lba.length, .tick 1] n = some n1 := by
    simp only [grun, e1, e2, e3, e4, Option.bind_some, ha]
  obtain ⟨s1, -⟩ := gstep_sim hA hB h .passA e1
  obtain ⟨s2, -⟩ := gstep_sim hA hB s1 _ e2
  obtain ⟨s3, -⟩ := gstep_sim hA hB s2 .passB e3
  have L1 : m1.lab.length = (qPassA q true).1.ab.length := by
    have := s1.ab
    have this' : (qPassA q true).1.ab = m1.lab.map SA.outMsg := this
    rw [this', List.length_map]
  have L3 : m3.lba.length = (qPassB (qDelAB (qPassA q true).1 (qPassA q true).1.ab.length) true).1.ba.length := by
    have := s3.ba
    simp only [qStep] at this
    rw [L1] at this
    rw [this, List.length_map]
  have := grun_sim hA hB _ n n1 q h hrun
  rw [round_eq_run q SA.dt _ _ L1 L3] at this
  exact this

/-- **Bridge.** From ANY concrete state represented by an abstract state satisfying the invariant, every number
    `M ≥ gM + 1` of canonical rounds (`gM` = the potential = the remaining work) ends in a state in which both layers
    hold exactly the peer's payload, are idle in both directions with nothing queued, pending or in flight; no error
    event; `complete(True)` is among the events of a layer unless it had been reported before. -/
theorem complete_from (hA : SideOk SA) (hB : SideOk (sideB SA idB kCfB kFcB))
    (hP : ParOk SA.par (sideB SA idB kCfB kFcB).par) {n : GN} {q : Pair}
    (h : GRep SA idB kCfB kFcB n q) (hI : GInv SA.par (sideB SA idB kCfB kFcB).par n)
    (K : Nat) (hK : n.R + 1 + gM SA.par (sideB SA idB kCfB kFcB).par n ≤ K)
    (k1 : K ≤ SA.kCf) (k2 : K ≤ SA.kFc) (k3 : K ≤ kCfB) (k4 : K ≤ kFcB)
    (M : Nat) (hM : gM SA.par (sideB SA idB kCfB kFcB).par n + 1 ≤ M) :
    (Pair.rounds SA.dt M q).1.ab = [] ∧ (Pair.rounds SA.dt M q).1.ba = [] ∧
    ((Pair.rounds SA.dt M q).1.a.rxQueue = [SA.p'] ∧ (Pair.rounds SA.dt M q).1.a.rxState = .idle ∧
      (Pair.rounds SA.dt M q).1.a.txState = .idle ∧ (Pair.rounds SA.dt M q).1.a.active = none ∧
      (Pair.rounds SA.dt M q).1.a.txQueue = [] ∧ (Pair.rounds SA.dt M q).1.a.inbox = [] ∧
      (Pair.rounds SA.dt M q).1.a.lastFc = none ∧ (Pair.rounds SA.dt M q).1.a.pendingFc = false) ∧
    ((Pair.rounds SA.dt M q).1.b.rxQueue = [SA.p] ∧ (Pair.rounds SA.dt M q).1.b.rxState = .idle ∧
      (Pair.rounds SA.dt M q).1.b.txState = .idle ∧ (Pair.rounds SA.dt M q).1.b.active = none ∧
      (Pair.rounds SA.dt M q).1.b.txQueue = [] ∧ (Pair.rounds SA.dt M q).1.b.inbox = [] ∧
      (Pair.rounds SA.dt M q).1.b.lastFc = none ∧ (Pair.rounds SA.dt M q).1.b.pendingFc = false) ∧
    NoErr (Pair.rounds SA.dt M q).2.1 ∧ NoErr (Pair.rounds SA.dt M q).2.2 ∧
    (n.doneA = false → Ev.done SA.id true ∈ (Pair.rounds SA.dt M q).2.1) ∧
    (n.doneB = false → Ev.done idB true ∈ (Pair.rounds SA.dt M q).2.2) ∧
    (Pair.rounds SA.dt M q).1.now = (n.R + M) * SA.dt := by
  obtain ⟨n1, N, n', e1, l1, l1', r1, g1, hN, e2, hf⟩ := g_terminates hP hI K hK k1 k2 k3 k4
  obtain ⟨M', rfl⟩ : ∃ M', M = (N + M') + 1 := ⟨M - 1 - N, by omega⟩
  obtain ⟨n'', e3, hf'⟩ := absRounds_final SA.par (sideB SA idB kCfB kFcB).par M' n' hf
  have e4 : absRounds SA.par (sideB SA idB kCfB kFcB).par (N + M') n1.toAN = some n'' := by
    rw [absRounds_add, e2]; exact e3
  obtain ⟨s1, ne1, ne2, d1, d2⟩ := round_sim1 hA hB h e1
  have hnr : NetRep SA idB kCfB kFcB n1.toAN (q.round SA.dt).1 :=
    ⟨s1.a, s1.b, by rw [s1.ab, l1]; rfl, by rw [s1.ba, l1']; rfl, s1.now⟩
  obtain ⟨hl, eA, eB, dA, dB, hR⟩ := rounds_sim hA hB (N + M') n1.toAN n'' _ hnr e4
  unfold AN.final at hf'
  simp only [Bool.and_eq_true] at hf'
  obtain ⟨⟨⟨fa, fb⟩, fdA⟩, fdB⟩ := hf'
  have hrd : Pair.rounds SA.dt (N + M' + 1) q =
      ((Pair.rounds SA.dt (N + M') (q.round SA.dt).1).1,
       (q.round SA.dt).2.1 ++ (Pair.rounds SA.dt (N + M') (q.round SA.dt).1).2.1,
       (q.round SA.dt).2.2 ++ (Pair.rounds SA.dt (N + M') (q.round SA.dt).1).2.2) := rfl
  rw [hrd]
  refine ⟨hl.ab, hl.ba, hl.a.final fa, hl.b.final fb, NoErr_append ne1 eA, NoErr_append ne2 eB, ?_, ?_, ?_⟩
  · intro h0
    cases hd1 : n1.doneA with
    | true => exact List.mem_append_left _ (d1 hd1 h0)
    | false => exact List.mem_append_right _ (dA fdA hd1)
  · intro h0
    cases hd1 : n1.doneB with
    | true => exact List.mem_append_left _ (d2 hd1 h0)
    | false => exact List.mem_append_right _ (dB fdB hd1)
  · show (Pair.rounds SA.dt (N + M') (q.round SA.dt).1).1.now = _
    rw [hl.now, hR]
    have : n1.toAN.R = n.R + 1 := r1
    rw [this]
    congr 1; omega


/-- **No reachable state is stuck** (in the vocabulary of the proof libraries): after the two `send` calls and ANY
    schedule `ops` of the schedule space, the network of the driver is represented by the abstract state `n` reached by
    the same schedule on the abstract machine; no error was reported; and every number `M ≥ gM n + 1` of canonical
    rounds completes both transfers. -/
theorem nostuck_core (hA : SideOk SA) (hB : SideOk (sideB SA idB kCfB kFcB))
    (hP : ParOk SA.par (sideB SA idB kCfB kFcB).par)
    (haccA : ((State.init SA.c SA.a).send { id := SA.id, size := SA.p.length, src := SA.p }).2 = none)
    (haccB : ((State.init SA.c' SA.a').send { id := idB, size := SA.p'.length, src := SA.p' }).2 = none)
    (ops : List GOp) (K : Nat)
    (hK : gticksAll ops + (4 * (SA.par.n + (sideB SA idB kCfB kFcB).par.n) + 2) + 1 ≤ K)
    (k1 : K ≤ SA.kCf) (k2 : K ≤ SA.kFc) (k3 : K ≤ kCfB) (k4 : K ≤ kFcB) :
    ∃ d0 n, startNet2 SA.c SA.c' SA.a SA.a' SA.id SA.p idB SA.p' = some (d0, none, none) ∧
      grun SA.par (sideB SA idB kCfB kFcB).par ops {} = some n ∧ GInv SA.par (sideB SA idB kCfB kFcB).par n ∧
      gM SA.par (sideB SA idB kCfB kFcB).par n ≤ 4 * (SA.par.n + (sideB SA idB kCfB kFcB).par.n) + 2 ∧
      NoErr (NetP.logOf 0 (NetP.Net.run d0 (ops.map (toNOp SA.dt))).2) ∧
      NoErr (NetP.logOf 1 (NetP.Net.run d0 (ops.map (toNOp SA.dt))).2) ∧
      (NetP.Net.run d0 (ops.map (toNOp SA.dt))).1.now = gticksAll ops * SA.dt ∧
      ∀ M, gM SA.par (sideB SA idB kCfB kFcB).par n + 1 ≤ M →
        ∃ d' evA evB, canonRounds SA.dt M (NetP.Net.run d0 (ops.map (toNOp SA.dt))).1 = some (d', evA, evB) ∧
          Completed2 SA.id SA.p idB SA.p' d' (NetP.logOf 0 (NetP.Net.run d0 (ops.map (toNOp SA.dt))).2 ++ evA)
            (NetP.logOf 1 (NetP.Net.run d0 (ops.map (toNOp SA.dt))).2 ++ evB) ∧
          d'.now = (gticksAll ops + M) * SA.dt := by
  have hm0 := gM_init SA.par (sideB SA idB kCfB kFcB).par hP
  have hk1 : K ≤ SA.par.kCf := k1
  have hk2 : K ≤ SA.par.kFc := k2
  have hk3 : K ≤ (sideB SA idB kCfB kFcB).par.kCf := k3
  have hk4 : K ≤ (sideB SA idB kCfB kFcB).par.kFc := k4
  obtain ⟨n, e, hI, hm, hR⟩ := grun_ok hP ops {} (ginv_init hP) (by show 0 + _ ≤ _; omega) (by show 0 + _ ≤ _; omega)
    (by show 0 + _ ≤ _; omega) (by show 0 + _ ≤ _; omega)
  have hR' : n.R = gticksAll ops := by rw [hR]; show 0 + _ = _; omega
  have nr := netRep_init SA idB kCfB kFcB hA hB
  have hrep0 : GRep SA idB kCfB kFcB {} (pair2 SA.c SA.c' SA.a SA.a' SA.id SA.p idB SA.p') :=
    ⟨nr.a, nr.b, nr.ab, nr.ba, nr.now⟩
  obtain ⟨hrep, ne1, ne2, d1, d2⟩ := grun_sim hA hB ops {} n _ hrep0 e
  obtain ⟨t1, t2, t3⟩ := run_toNet SA.dt ops (pair2 SA.c SA.c' SA.a SA.a' SA.id SA.p idB SA.p')
  refine ⟨_, n, startNet2_eq SA.c SA.c' SA.a SA.a' SA.id SA.p idB SA.p' haccA haccB, e, hI, by omega, ?_, ?_, ?_, ?_⟩
  · rw [t2]; exact ne1
  · rw [t3]; exact ne2
  · rw [t1]; show (qRun SA.dt ops _).1.now = _; rw [hrep.now, hR']
  · intro M hM
    obtain ⟨c1, c2, ca, cb, c5, c6, c7, c8, c9⟩ := complete_from hA hB hP hrep hI K (by rw [hR']; omega) k1 k2 k3 k4 M hM
    obtain ⟨a1, a2, a3, a4, a5, a6, a7, a8⟩ := ca
    obtain ⟨b1, b2, b3, b4, b5, b6, b7, b8⟩ := cb
    rw [t1, t2, t3]
    refine ⟨_, _, _, canonRounds_toNet SA.dt M _, ?_, ?_⟩
    · refine ⟨_, _, rfl, ?_, b1, ?_, a1, ?_, a2, b2, a3, b3, a4, b4, a5, b5, a6, b6, a7, b7, a8, b8, ?_, ?_,
        NoErr_append ne1 c5, NoErr_append ne2 c6⟩
      · show #[_, _] = #[[], []]
        rw [c1, c2]
      · simp [State.recv, b1]
      · simp [State.recv, a1]
      · cases hd : n.doneA with
        | true => exact List.mem_append_left _ (d1 hd rfl)
        | false => exact List.mem_append_right _ (c7 hd)
      · cases hd : n.doneB with
        | true => exact List.mem_append_left _ (d2 hd rfl)
        | false => exact List.mem_append_right _ (c8 hd)
    · show (Pair.rounds SA.dt M _).1.now = _
      rw [c9, hR']

end sim

end Isotp.NoStuck
