import Isotp.Proofs.TNetDefs
import Isotp.Proofs.NetSafety
/-
  C13, network level — the simulation: a thread schedule of the threaded two-peer system `TNet`
  (Proofs/TNetDefs.lean) without foreign frames is a schedule of the two-layer network `Net` (Isotp/Net.lean,
  Proofs/NetSafety.lean).

  * `toNOps d sched`: the network schedule, constructed explicitly —
      `userSend b a ↦ send b a`, `userRecv b ↦ recv b`, `tick dt ↦ tick dt`, `relay b ↦` nothing (stutter),
      `worker b ↦ deliver (!b) k ; proc b` where `k` = the number of frames in the relay queue of `b` in front of
      the first wake-up token (what this worker iteration takes).
  * `Sim d N tr ntr`: the abstraction — the layers of `N` are the logic layers of the two peers, the link of layer `b`
    (`Net.outbox b`) is what is in flight towards the other peer: its relay queue (tokens dropped) followed by its bus;
    same clock; same observations.
  * `sim_step`, `sim_run`: every step keeps `Sim`.
-/
set_option linter.unusedSimpArgs false

namespace Isotp.TNetP
open Isotp Isotp.State Isotp.NetP

/-! ### the relay queue -/

def somes (q : List (Option CanMsg)) : List CanMsg := q.filterMap id

@[simp] theorem somes_nil : somes [] = [] := rfl
@[simp] theorem somes_append (p q : List (Option CanMsg)) : somes (p ++ q) = somes p ++ somes q := by
  simp [somes]
@[simp] theorem somes_none_cons (q : List (Option CanMsg)) : somes (none :: q) = somes q := by simp [somes]
@[simp] theorem somes_some_cons (m : CanMsg) (q : List (Option CanMsg)) : somes (some m :: q) = m :: somes q := by
  simp [somes]

/-- the queue primitive of the worker: the frames are kept in order, only tokens are dropped -/
theorem takeUntilNone_somes (q : List (Option CanMsg)) :
    somes q = (TL.takeUntilNone q).1 ++ somes (TL.takeUntilNone q).2 := by
  fun_induction TL.takeUntilNone q with
  | case1 => rfl
  | case2 rest => simp
  | case3 m rest ms r h ih => simp [ih, h]

theorem takeUntilNone_token (ms : List CanMsg) (rest : List (Option CanMsg)) :
    TL.takeUntilNone (ms.map some ++ none :: rest) = (ms, rest) := by
  induction ms with
  | nil => simp [TL.takeUntilNone]
  | cons m ms ih => simp [TL.takeUntilNone, ih]

theorem takeUntilNone_all (ms : List CanMsg) : TL.takeUntilNone (ms.map some) = (ms, []) := by
  induction ms with
  | nil => simp [TL.takeUntilNone]
  | cons m ms ih => simp [TL.takeUntilNone, ih]

theorem queue_shape (q : List (Option CanMsg)) :
    (∃ (ms : List CanMsg) (rest : List (Option CanMsg)), q = ms.map some ++ none :: rest) ∨
    (∃ ms : List CanMsg, q = ms.map some) := by
  induction q with
  | nil => exact .inr ⟨[], rfl⟩
  | cons x q ih =>
    cases x with
    | none => exact .inl ⟨[], q, rfl⟩
    | some m =>
      rcases ih with ⟨ms, rest, h⟩ | ⟨ms, h⟩
      · exact .inl ⟨m :: ms, rest, by simp [h]⟩
      · exact .inr ⟨m :: ms, by simp [h]⟩

/-- a token makes the worker's blocking read return: strictly fewer entries remain -/
theorem takeUntilNone_length_lt (q : List (Option CanMsg)) (h : none ∈ q) :
    (TL.takeUntilNone q).2.length < q.length := by
  rcases queue_shape q with ⟨ms, rest, rfl⟩ | ⟨ms, rfl⟩
  · rw [takeUntilNone_token]; simp; omega
  · simp at h

/-! ### the threads of a started layer -/

/-- both internal threads alive, no stop requested (a started layer that is not being stopped) -/
structure Live (t : TL) : Prop where
  main : t.mainThread = .running
  relay : t.relayThread = .running
  noStop : t.ev.stopRequested = false

theorem live_start (c : Cfg) (a : Addr) : Live (TL.init c a).start.1 := ⟨rfl, rfl, rfl⟩

/-- one worker iteration, as an equation -/
theorem workerStep_live (t : TL) (h : Live t) :
    t.workerStep =
      { t with core := (({ t.core with inbox := t.core.inbox ++ (TL.takeUntilNone t.relayQ).1.map (fun m => (0, m)) } :
                          State).process true true).1,
               relayQ := (TL.takeUntilNone t.relayQ).2 } := by
  simp [TL.workerStep, h.main, h.noStop]

/-- one relay iteration: nothing on the bus (`rxfn` timed out) -/
theorem relayStep_nil (t : TL) (h : Live t) (hb : t.bus = []) : t.relayStep = t := by
  simp [TL.relayStep, h.relay, h.noStop, hb]

/-- one relay iteration: the oldest frame on the bus is moved to the end of the relay queue -/
theorem relayStep_cons (t : TL) (h : Live t) (m : CanMsg) (rest : List CanMsg) (hb : t.bus = m :: rest) :
    t.relayStep = { t with bus := rest, relayQ := t.relayQ ++ [some m] } := by
  simp [TL.relayStep, h.relay, h.noStop, hb]

/-- `send` on the threaded layer, as an equation: the logic layer's `send`, plus a wake-up token when the request was
    queued -/
theorem tl_send_eq (t : TL) (a : SendArgs) :
    t.send a = ({ t with core := (t.core.send a).1,
                         relayQ := if (t.core.send a).2 = some .ValueError then t.relayQ else t.relayQ ++ [none] },
                (t.core.send a).2) := by
  rcases C12.send_cases t.core a with ⟨h1, h2⟩ | ⟨h1, -, h2⟩
  · have : t.core.send a = (t.core, some .ValueError) := Prod.ext h2 h1
    simp [TL.send, this]
  · have : t.core.send a = ((t.core.send a).1, if t.core.cfg.blocking then some .BlockingSendTimeout else none) :=
      Prod.ext rfl h1
    unfold TL.send
    rw [this]
    cases t.core.cfg.blocking <;> simp

/-! ### accessors of `TNet` -/

open TNet

@[simp] theorem get_set_same (d : TNet) (b : Bool) (t : TL) : (d.set b t).get b = t := by cases b <;> rfl
@[simp] theorem get_set_other (d : TNet) (b : Bool) (t : TL) : (d.set b t).get (!b) = d.get (!b) := by cases b <;> rfl
@[simp] theorem get_set_other' (d : TNet) (b : Bool) (t : TL) : (d.set (!b) t).get b = d.get b := by cases b <;> rfl
@[simp] theorem set_now (d : TNet) (b : Bool) (t : TL) : (d.set b t).now = d.now := by cases b <;> rfl
@[simp] theorem get_now (d : TNet) (b : Bool) (n : Nat) : ({ d with now := n } : TNet).get b = d.get b := by cases b <;> rfl

theorem leave_get_same (d : TNet) (b : Bool) (t : TL) :
    (d.leave b t).1.get b = { t with core := { t.core with log := [] } } := by cases b <;> rfl
theorem leave_get_other (d : TNet) (b : Bool) (t : TL) :
    (d.leave b t).1.get (!b) = { d.get (!b) with bus := (d.get (!b)).bus ++ Net.txOf t.core.log.reverse } := by
  cases b <;> rfl
theorem leave_now (d : TNet) (b : Bool) (t : TL) : (d.leave b t).1.now = t.core.now := by cases b <;> rfl
theorem leave_evs (d : TNet) (b : Bool) (t : TL) : (d.leave b t).2 = t.core.log.reverse := rfl

theorem runFrom_nil (d : TNet) (tr : List TEv) : TNet.runFrom d tr [] = (d, tr) := rfl
theorem runFrom_cons (d : TNet) (tr : List TEv) (s : TStep) (ss : List TStep) :
    TNet.runFrom d tr (s :: ss) = TNet.runFrom (d.step s).1 (tr ++ [(d.step s).2]) ss := rfl
theorem runFrom_append (d : TNet) (tr : List TEv) (xs ys : List TStep) :
    TNet.runFrom d tr (xs ++ ys) = TNet.runFrom (TNet.runFrom d tr xs).1 (TNet.runFrom d tr xs).2 ys := by
  simp [TNet.runFrom, List.foldl_append]

theorem logOf_snoc (b : Bool) (tr : List TEv) (e : TEv) : TNet.logOf b (tr ++ [e]) = TNet.logOf b tr ++ e.evsOf b := by
  simp [TNet.logOf]
theorem sentOf_snoc (b : Bool) (tr : List TEv) (e : TEv) : TNet.sentOf b (tr ++ [e]) = TNet.sentOf b tr ++ TNet.sentOf b [e] := by
  simp [TNet.sentOf, List.filterMap_append]
theorem recvdOf_snoc (b : Bool) (tr : List TEv) (e : TEv) :
    TNet.recvdOf b (tr ++ [e]) = TNet.recvdOf b tr ++ TNet.recvdOf b [e] := by
  simp [TNet.recvdOf, List.filterMap_append]

theorem net_runFrom_nil (N : Net) (ntr : List NEv) : Net.runFrom N ntr [] = (N, ntr) := rfl
theorem net_runFrom_cons (N : Net) (ntr : List NEv) (op : NOp) (ops : List NOp) :
    Net.runFrom N ntr (op :: ops) = Net.runFrom (Net.step N op).1 (ntr ++ [(Net.step N op).2]) ops := rfl
theorem net_runFrom_append (N : Net) (ntr : List NEv) (xs ys : List NOp) :
    Net.runFrom N ntr (xs ++ ys) = Net.runFrom (Net.runFrom N ntr xs).1 (Net.runFrom N ntr xs).2 ys := by
  simp [Net.runFrom, List.foldl_append]

/-! ### the network schedule of a thread schedule -/

/-- the network operations one step of the threaded system amounts to (in state `d`) -/
def toNOp (d : TNet) : TStep → List NOp
  | .userSend b a => [.send (idx b) a]
  | .userRecv b => [.recv (idx b)]
  | .relay _ => []
  | .worker b => [.deliver (idx (!b)) (d.movedBy b), .proc (idx b)]
  | .noise _ _ => []
  | .tick dt => [.tick dt]

/-- the network schedule of a thread schedule started in `d` -/
def toNOps : TNet → List TStep → List NOp
  | _, [] => []
  | d, s :: ss => toNOp d s ++ toNOps (d.step s).1 ss

theorem runFrom_fst (ss : List TStep) : ∀ (d : TNet) (tr : List TEv), (TNet.runFrom d tr ss).1 = (TNet.runFrom d [] ss).1 := by
  induction ss with
  | nil => intro d tr; rfl
  | cons s ss ih => intro d tr; rw [runFrom_cons, runFrom_cons, ih, ih _ ([] ++ _)]

theorem toNOps_append (d : TNet) (xs ys : List TStep) :
    toNOps d (xs ++ ys) = toNOps d xs ++ toNOps (TNet.runFrom d [] xs).1 ys := by
  induction xs generalizing d with
  | nil => rfl
  | cons x xs ih =>
    simp only [List.cons_append, toNOps, ih, List.append_assoc, runFrom_cons, runFrom_fst xs _ ([] ++ _)]

/-! ### the abstraction -/

theorem rep_unique {N : Net} {ly ly' : Bool → State} {ob ob' : Bool → List CanMsg} (h : Rep N ly ob) (h' : Rep N ly' ob') :
    ly = ly' ∧ ob = ob' := by
  have h1 := h.layers.symm.trans h'.layers
  have h2 := h.outbox.symm.trans h'.outbox
  simp at h1 h2
  exact ⟨funext fun b => by cases b; exact h1.1; exact h1.2, funext fun b => by cases b; exact h2.1; exact h2.2⟩

/-- frames in flight towards peer `b`, oldest first: relay queue (tokens skipped), then bus -/
theorem inFlight_eq (d : TNet) (b : Bool) : d.inFlight b = somes (d.get b).relayQ ++ (d.get b).bus := rfl

/-- `Sim d N tr ntr`: the network `N` (with observations `ntr`) is the abstraction of the threaded system `d` (with
    observations `tr`) -/
structure Sim (d : TNet) (N : Net) (tr : List TEv) (ntr : List NEv) : Prop where
  /-- the layers of the network are the logic layers of the peers; the link of layer `b` is what is in flight
      towards the other peer -/
  rep : Rep N (fun b => (d.get b).core) (fun b => d.inFlight (!b))
  now : N.now = d.now
  live : ∀ b, Live (d.get b)
  exc : ∀ b, (d.get b).core.exc = none
  log0 : ∀ b, (d.get b).core.log = []
  log : ∀ b, NetP.logOf (idx b) ntr = TNet.logOf b tr
  sent : ∀ b, NetP.sentOf (idx b) ntr = TNet.sentOf b tr
  recvd : ∀ b, NetP.recvdOf (idx b) ntr = TNet.recvdOf b tr

theorem onLayer_now {α : Type} {N N' : Net} {i : Nat} {f : State → State × α} {s : State} {evs : List Ev} {r : α}
    (h : N.onLayer i f = some (N', s, evs, r)) : N'.now = s.now := by
  unfold Net.onLayer at h
  split at h
  · cases h
  · simp only [Option.some.injEq, Prod.mk.injEq] at h
    obtain ⟨rfl, rfl, -, -⟩ := h
    rfl

/-- the logic layer of peer `b` as the thread that enters it sees it: global clock, empty operation history -/
def coreIn (d : TNet) (b : Bool) : State := { (d.get b).core with now := d.now, log := [] }

theorem enter_eq (d : TNet) (b : Bool) : d.enter b = { d.get b with core := coreIn d b } := rfl

theorem clear_exc (x : State) (h : x.exc = none) : ({ x with log := [], exc := none } : State) = { x with log := [] } := by
  cases x; simp_all

/-- a thread of peer `b` runs the operation `f` of the logic layer (entering with `TNet.enter`, leaving with
    `TNet.leave` in TL-state `t'`): the network does `onLayer b f` -/
theorem sim_core_op {α : Type} {d : TNet} {N : Net} {tr : List TEv} {ntr : List NEv} (hs : Sim d N tr ntr) (b : Bool)
    (f : State → State × α) (t' : TL)
    (hcore : t'.core = (f (coreIn d b)).1)
    (hexc : t'.core.exc = none) (hlive : Live t')
    (hfl : somes t'.relayQ ++ t'.bus = d.inFlight b) :
    ∃ N', N.onLayer (idx b) f =
        some (N', t'.core, t'.core.log.reverse, (f (coreIn d b)).2) ∧
      Rep N' (fun b' => ((d.leave b t').1.get b').core) (fun b' => (d.leave b t').1.inFlight (!b')) ∧
      N'.now = (d.leave b t').1.now ∧ (∀ b', Live ((d.leave b t').1.get b')) ∧
      (∀ b', ((d.leave b t').1.get b').core.exc = none) ∧ (∀ b', ((d.leave b t').1.get b').core.log = []) := by
  obtain ⟨N', hon, hrep'⟩ := onLayer_rep hs.rep b f
  simp only [hs.now] at hon hrep'
  change N.onLayer (idx b) f = some (N', (f (coreIn d b)).1, (f (coreIn d b)).1.log.reverse, (f (coreIn d b)).2) at hon
  change Rep N' (upd _ b { (f (coreIn d b)).1 with log := [], exc := none })
    (upd _ b (_ ++ Net.txOf (f (coreIn d b)).1.log.reverse)) at hrep'
  rw [← hcore] at hon hrep'
  refine ⟨N', hon, ?_, ?_, ?_, ?_, ?_⟩
  · have e1 : (fun b' => ((d.leave b t').1.get b').core) =
        upd (fun b => (d.get b).core) b { t'.core with log := [], exc := none } := by
      funext b'
      by_cases hb : b' = b
      · subst hb
        rw [upd_same, leave_get_same, clear_exc _ hexc]
      · have hb' := eq_not_of_ne hb
        subst hb'
        rw [upd_other, leave_get_other]
    have e2 : (fun b' => (d.leave b t').1.inFlight (!b')) =
        upd (fun b => d.inFlight (!b)) b (d.inFlight (!b) ++ Net.txOf t'.core.log.reverse) := by
      funext b'
      by_cases hb : b' = b
      · subst hb
        rw [upd_same, inFlight_eq, leave_get_other, inFlight_eq, List.append_assoc]
      · have hb' := eq_not_of_ne hb
        subst hb'
        rw [upd_other, Bool.not_not, inFlight_eq, leave_get_same]
        exact hfl
    rw [e1, e2]
    exact hrep'
  · rw [onLayer_now hon, leave_now]
  · intro b'
    by_cases hb : b' = b
    · subst hb; rw [leave_get_same]; exact ⟨hlive.main, hlive.relay, hlive.noStop⟩
    · have hb' := eq_not_of_ne hb
      subst hb'
      rw [leave_get_other]
      exact ⟨(hs.live _).main, (hs.live _).relay, (hs.live _).noStop⟩
  · intro b'
    by_cases hb : b' = b
    · subst hb; rw [leave_get_same]; exact hexc
    · have hb' := eq_not_of_ne hb
      subst hb'
      rw [leave_get_other]
      exact hs.exc _
  · intro b'
    by_cases hb : b' = b
    · subst hb; rw [leave_get_same]
    · have hb' := eq_not_of_ne hb
      subst hb'
      rw [leave_get_other]
      exact hs.log0 _

theorem idx_eq_iff (b b' : Bool) : idx b = idx b' ↔ b = b' := by cases b <;> cases b' <;> simp [idx]

theorem idx_lt (b : Bool) : idx b < 2 := by cases b <;> simp [idx]

theorem send_exc_eq (s : State) (a : SendArgs) : (s.send a).1.exc = s.exc := by
  rcases C12.send_cases s a with ⟨-, h⟩ | ⟨-, -, h⟩ <;> rw [h]

theorem recv_exc_eq (s : State) : s.recv.1.exc = s.exc := by unfold State.recv; split <;> rfl

theorem leave_set (d : TNet) (b : Bool) (y t : TL) : (d.set b y).leave b t = d.leave b t := by cases b <;> rfl

/-- a step that changes neither a logic layer nor what is in flight (one relay iteration) -/
theorem sim_silent {d : TNet} {N : Net} {tr : List TEv} {ntr : List NEv} (hs : Sim d N tr ntr) (b : Bool) (t2 : TL)
    (hcore : t2.core = (d.get b).core) (hlive : Live t2) (hfl : somes t2.relayQ ++ t2.bus = d.inFlight b) :
    Sim (d.set b t2) N (tr ++ [.silent]) ntr := by
  have e1 : (fun b' => ((d.set b t2).get b').core) = (fun b' => (d.get b').core) := by
    funext b'
    by_cases hb : b' = b
    · subst hb; rw [get_set_same, hcore]
    · have hb' := eq_not_of_ne hb
      subst hb'
      rw [get_set_other]
  have e2 : (fun b' => (d.set b t2).inFlight (!b')) = (fun b' => d.inFlight (!b')) := by
    funext b'
    by_cases hb : b' = b
    · subst hb; rw [inFlight_eq, get_set_other, inFlight_eq]
    · have hb' := eq_not_of_ne hb
      subst hb'
      rw [Bool.not_not, inFlight_eq, get_set_same]
      exact hfl
  refine ⟨by rw [e1, e2]; exact hs.rep, by rw [set_now]; exact hs.now, ?_, ?_, ?_, ?_, ?_, ?_⟩
  · intro b'
    by_cases hb : b' = b
    · subst hb; rw [get_set_same]; exact hlive
    · have hb' := eq_not_of_ne hb
      subst hb'
      rw [get_set_other]; exact hs.live _
  · intro b'; exact (congrFun e1 b' ▸ hs.exc b' : ((d.set b t2).get b').core.exc = none)
  · intro b'; exact (congrFun e1 b' ▸ hs.log0 b' : ((d.set b t2).get b').core.log = [])
  · intro b'; rw [logOf_snoc, hs.log]; simp [TEv.evsOf]
  · intro b'; rw [sentOf_snoc, hs.sent]; simp [TNet.sentOf]
  · intro b'; rw [recvdOf_snoc, hs.recvd]; simp [TNet.recvdOf]

/-- an observation of the network that concerns no layer -/
theorem sim_net_silent {tr : List TEv} {ntr : List NEv} (e : NEv) (he : ∀ i, e.evsOf i = [])
    (hse : ∀ i, NetP.sentOf i [e] = []) (hre : ∀ i, NetP.recvdOf i [e] = [])
    (hl : ∀ b, NetP.logOf (idx b) ntr = TNet.logOf b tr) (hst : ∀ b, NetP.sentOf (idx b) ntr = TNet.sentOf b tr)
    (hr : ∀ b, NetP.recvdOf (idx b) ntr = TNet.recvdOf b tr) :
    (∀ b, NetP.logOf (idx b) (ntr ++ [e]) = TNet.logOf b tr) ∧ (∀ b, NetP.sentOf (idx b) (ntr ++ [e]) = TNet.sentOf b tr) ∧
    (∀ b, NetP.recvdOf (idx b) (ntr ++ [e]) = TNet.recvdOf b tr) := by
  refine ⟨fun b => ?_, fun b => ?_, fun b => ?_⟩
  · rw [NetP.logOf_snoc, he, List.append_nil, hl]
  · rw [NetP.sentOf_snoc, hse, List.append_nil, hst]
  · rw [NetP.recvdOf_snoc, hre, List.append_nil, hr]

/-- admissible step with respect to a setting: the `send`s are admissible network operations -/
def stepOkS (S : Setting) : TStep → Prop
  | .userSend b a => NOp.ok S (.send (idx b) a)
  | _ => True

theorem toNOp_ok (S : Setting) (d : TNet) (s : TStep) (h : stepOkS S s) : SchedOk S (toNOp d s) := by
  intro op hop
  cases s <;> simp only [toNOp, List.mem_cons, List.mem_singleton, List.not_mem_nil, or_false] at hop
  case userSend b a => subst hop; exact h
  case userRecv b => subst hop; trivial
  case worker b => rcases hop with rfl | rfl <;> trivial
  case tick dt => subst hop; trivial
  all_goals exact absurd hop (by simp)

/-- the worker of peer `b` takes the frames in front of the first token out of its relay queue (first half of a
    worker iteration) -/
def takeStep (d : TNet) (b : Bool) : TNet :=
  d.set b { d.get b with
    core := { (d.get b).core with
      inbox := (d.get b).core.inbox ++ (TL.takeUntilNone (d.get b).relayQ).1.map (fun m => (0, m)) },
    relayQ := (TL.takeUntilNone (d.get b).relayQ).2 }

theorem sim_take {d : TNet} {N : Net} {tr : List TEv} {ntr : List NEv} (hs : Sim d N tr ntr) (b : Bool) :
    ∃ N1, Net.step N (.deliver (idx (!b)) (d.movedBy b)) = (N1, .moved (idx (!b)) (d.movedBy b)) ∧
      Sim (takeStep d b) N1 tr (ntr ++ [.moved (idx (!b)) (d.movedBy b)]) := by
  obtain ⟨N1, hdel, hnow, hrep1⟩ := deliver_rep hs.rep (!b) (d.movedBy b)
  have hfl : d.inFlight b = (TL.takeUntilNone (d.get b).relayQ).1 ++
      (somes (TL.takeUntilNone (d.get b).relayQ).2 ++ (d.get b).bus) := by
    rw [inFlight_eq, takeUntilNone_somes (d.get b).relayQ, List.append_assoc]
  have htake : (d.inFlight b).take (d.movedBy b) = (TL.takeUntilNone (d.get b).relayQ).1 := by
    rw [hfl]; exact List.take_left' rfl
  have hdrop : (d.inFlight b).drop (d.movedBy b) = somes (TL.takeUntilNone (d.get b).relayQ).2 ++ (d.get b).bus := by
    rw [hfl]; exact List.drop_left' rfl
  simp only [Bool.not_not, htake, hdrop] at hdel hrep1
  refine ⟨N1, ?_, ?_⟩
  · simp only [Net.step, idx_lt, if_true, hdel]
    rfl
  · have e1 : (fun b' => ((takeStep d b).get b').core) =
        upd (fun b => (d.get b).core) b (pushAll (d.get b).core (TL.takeUntilNone (d.get b).relayQ).1) := by
      funext b'
      by_cases hb : b' = b
      · subst hb
        rw [upd_same, pushAll_fields, takeStep, get_set_same]
      · have hb' := eq_not_of_ne hb
        subst hb'
        rw [upd_other, takeStep, get_set_other]
    have e2 : (fun b' => (takeStep d b).inFlight (!b')) =
        upd (fun b => d.inFlight (!b)) (!b) (somes (TL.takeUntilNone (d.get b).relayQ).2 ++ (d.get b).bus) := by
      funext b'
      by_cases hb : b' = b
      · subst hb
        rw [upd_not, inFlight_eq, takeStep, get_set_other, inFlight_eq]
      · have hb' := eq_not_of_ne hb
        subst hb'
        rw [upd_same, Bool.not_not, inFlight_eq, takeStep, get_set_same]
    obtain ⟨h1, h2, h3⟩ := sim_net_silent (tr := tr) (ntr := ntr) (.moved (idx (!b)) (d.movedBy b)) (fun _ => rfl)
      (fun _ => rfl) (fun _ => rfl) hs.log hs.sent hs.recvd
    refine ⟨by rw [e1, e2]; exact hrep1, by rw [hnow, takeStep, set_now]; exact hs.now, ?_, ?_, ?_, h1, h2, h3⟩
    · intro b'
      by_cases hb : b' = b
      · subst hb
        rw [takeStep, get_set_same]
        exact ⟨(hs.live _).main, (hs.live _).relay, (hs.live _).noStop⟩
      · have hb' := eq_not_of_ne hb
        subst hb'
        rw [takeStep, get_set_other]; exact hs.live _
    · intro b'
      by_cases hb : b' = b
      · subst hb
        rw [takeStep, get_set_same]
        exact hs.exc _
      · have hb' := eq_not_of_ne hb
        subst hb'
        rw [takeStep, get_set_other]; exact hs.exc _
    · intro b'
      by_cases hb : b' = b
      · subst hb
        rw [takeStep, get_set_same]
        exact hs.log0 _
      · have hb' := eq_not_of_ne hb
        subst hb'
        rw [takeStep, get_set_other]; exact hs.log0 _

/-- the second half of a worker iteration, seen from the state after `takeStep` -/
theorem worker_eq (d : TNet) (b : Bool) (h : Live (d.get b)) :
    d.leave b (d.enter b).workerStep =
      (takeStep d b).leave b { (takeStep d b).enter b with core := ((coreIn (takeStep d b) b).process true true).1 } := by
  rw [workerStep_live (d.enter b) ⟨h.main, h.relay, h.noStop⟩]
  unfold takeStep
  rw [leave_set]
  unfold coreIn TNet.enter
  rw [get_set_same, set_now]

/-- the logic layer of a peer never raises in a simulated run (C16b, through the network invariant) -/
theorem process_exc {S : Setting} {d : TNet} {N : Net} {tr : List TEv} {ntr : List NEv} (hinv : NetInv S N ntr)
    (hs : Sim d N tr ntr) (b : Bool) (doRx doTx : Bool) : (((coreIn d b).process doRx doTx).1).exc = none := by
  obtain ⟨ly, ob, hrep, hall, -⟩ := hinv
  obtain ⟨rfl, -⟩ := rep_unique hrep hs.rep
  obtain ⟨hlog, hL, -⟩ := hall b
  have h1 := hL.relabel d.now [] (logOf (idx b) ntr).reverse (d.get b).core.exc hL.safe.2 (by rw [hlog])
  exact (h1.process doRx doTx).safe.2

/-! ### observations of single operations -/

theorem n_sentOf_sent (i j : Nat) (a : SendArgs) (res : Option PyExc) (evs : List Ev) :
    NetP.sentOf i [NEv.sent j a res evs] = if j = i ∧ queued res = true then [a.src] else [] := by
  by_cases h : j = i ∧ queued res = true <;> simp [NetP.sentOf, List.filterMap_cons, h]

theorem t_sentOf_sent (b b' : Bool) (a : SendArgs) (res : Option PyExc) (evs : List Ev) :
    TNet.sentOf b [TEv.sent b' a res evs] = if b' = b ∧ queued res = true then [a.src] else [] := by
  unfold queued
  by_cases h : b' = b ∧ (res != some PyExc.ValueError) = true
  · simp only [TNet.sentOf, List.filterMap_cons, List.filterMap_nil, if_pos h]
  · simp only [TNet.sentOf, List.filterMap_cons, List.filterMap_nil, if_neg h]

theorem n_recvdOf_recvd (i j : Nat) (r : Option Bytes) (evs : List Ev) :
    NetP.recvdOf i [NEv.recvd j r evs] = if j = i then r.toList else [] := by
  cases r <;> by_cases h : j = i <;> simp [NetP.recvdOf, List.filterMap_cons, h]

theorem t_recvdOf_recvd (b b' : Bool) (r : Option Bytes) (evs : List Ev) :
    TNet.recvdOf b [TEv.recvd b' r evs] = if b' = b then r.toList else [] := by
  cases r <;> by_cases h : b' = b <;> simp [TNet.recvdOf, List.filterMap_cons, h]

/-- **One step** of the threaded system is simulated by the network operations `toNOp d s`. -/
theorem sim_step (S : Setting) {d : TNet} {N : Net} {tr : List TEv} {ntr : List NEv} (hinv : NetInv S N ntr)
    (hs : Sim d N tr ntr) (s : TStep) (hn : s.isNoise = false) :
    Sim (d.step s).1 (Net.runFrom N ntr (toNOp d s)).1 (tr ++ [(d.step s).2]) (Net.runFrom N ntr (toNOp d s)).2 := by
  cases s with
  | noise b m => cases hn
  | userSend b a =>
    have ht : ((d.enter b).send a).1 = { d.get b with
        core := ((coreIn d b).send a).1,
        relayQ := if ((coreIn d b).send a).2 = some .ValueError then (d.get b).relayQ else (d.get b).relayQ ++ [none] } := by
      rw [tl_send_eq]; rfl
    have hr : ((d.enter b).send a).2 = ((coreIn d b).send a).2 := by rw [tl_send_eq]; rfl
    obtain ⟨N', hon, hrep, hnow, hlive, hexc, hlog0⟩ := sim_core_op hs b (fun s => s.send a) ((d.enter b).send a).1
      (by rw [ht]) (by rw [ht]; exact (send_exc_eq _ a).trans (hs.exc b))
      (by rw [ht]; exact ⟨(hs.live b).main, (hs.live b).relay, (hs.live b).noStop⟩)
      (by rw [ht, inFlight_eq]; show somes (if _ then _ else _) ++ _ = _; split <;> simp)
    simp only [toNOp, net_runFrom_cons, net_runFrom_nil, Net.step, hon, TNet.step]
    refine ⟨hrep, hnow, hlive, hexc, hlog0, fun b' => ?_, fun b' => ?_, fun b' => ?_⟩
    · rw [NetP.logOf_snoc, logOf_snoc, hs.log, leave_evs]
      simp [NEv.evsOf, TEv.evsOf, idx_eq_iff]
    · rw [NetP.sentOf_snoc, sentOf_snoc, hs.sent, hr, n_sentOf_sent, t_sentOf_sent]
      simp [idx_eq_iff]
    · rw [NetP.recvdOf_snoc, recvdOf_snoc, hs.recvd]
      rfl
  | userRecv b =>
    have ht : (d.enter b).recv.1 = { d.get b with core := (coreIn d b).recv.1 } := rfl
    have hr : (d.enter b).recv.2 = (coreIn d b).recv.2 := rfl
    obtain ⟨N', hon, hrep, hnow, hlive, hexc, hlog0⟩ := sim_core_op hs b State.recv (d.enter b).recv.1
      (by rw [ht]) (by rw [ht]; exact (recv_exc_eq _).trans (hs.exc b))
      (by rw [ht]; exact ⟨(hs.live b).main, (hs.live b).relay, (hs.live b).noStop⟩)
      (by rw [ht, inFlight_eq])
    simp only [toNOp, net_runFrom_cons, net_runFrom_nil, Net.step, hon, TNet.step]
    refine ⟨hrep, hnow, hlive, hexc, hlog0, fun b' => ?_, fun b' => ?_, fun b' => ?_⟩
    · rw [NetP.logOf_snoc, logOf_snoc, hs.log, leave_evs]
      simp [NEv.evsOf, TEv.evsOf, idx_eq_iff]
    · rw [NetP.sentOf_snoc, sentOf_snoc, hs.sent]
      rfl
    · rw [NetP.recvdOf_snoc, recvdOf_snoc, hs.recvd, hr, n_recvdOf_recvd, t_recvdOf_recvd]
      simp [idx_eq_iff]
  | relay b =>
    simp only [toNOp, net_runFrom_nil, TNet.step]
    cases hb : (d.get b).bus with
    | nil =>
      rw [relayStep_nil _ (hs.live b) hb]
      exact sim_silent hs b _ rfl (hs.live b) rfl
    | cons m rest =>
      rw [relayStep_cons _ (hs.live b) m rest hb]
      refine sim_silent hs b _ rfl ⟨(hs.live b).main, (hs.live b).relay, (hs.live b).noStop⟩ ?_
      rw [inFlight_eq, hb]
      simp
  | tick dt =>
    simp only [toNOp, net_runFrom_cons, net_runFrom_nil, Net.step, TNet.step]
    obtain ⟨h1, h2, h3⟩ := sim_net_silent (tr := tr) (ntr := ntr) .ticked (fun _ => rfl) (fun _ => rfl) (fun _ => rfl)
      hs.log hs.sent hs.recvd
    refine ⟨⟨hs.rep.layers, hs.rep.outbox, hs.rep.faults⟩, by show N.now + dt = d.now + dt; rw [hs.now], hs.live,
      hs.exc, hs.log0, fun b' => ?_, fun b' => ?_, fun b' => ?_⟩
    · rw [h1, logOf_snoc]; simp [TEv.evsOf]
    · rw [h2, sentOf_snoc]; simp [TNet.sentOf]
    · rw [h3, recvdOf_snoc]; simp [TNet.recvdOf]
  | worker b =>
    obtain ⟨N1, hstep1, hs1⟩ := sim_take hs b
    have hinv1 : NetInv S N1 (ntr ++ [.moved (idx (!b)) (d.movedBy b)]) := by
      have := netInv_step S N ntr hinv (.deliver (idx (!b)) (d.movedBy b)) trivial
      rw [hstep1] at this
      exact this
    have hexc1 := process_exc hinv1 hs1 b true true
    obtain ⟨N', hon, hrep, hnow, hlive, hexc, hlog0⟩ := sim_core_op hs1 b (fun s => s.process true true)
      { (takeStep d b).enter b with core := ((coreIn (takeStep d b) b).process true true).1 }
      rfl hexc1 ⟨(hs1.live b).main, (hs1.live b).relay, (hs1.live b).noStop⟩ (by rw [inFlight_eq]; rfl)
    simp only [toNOp, net_runFrom_cons, net_runFrom_nil, hstep1, TNet.step, worker_eq d b (hs.live b)]
    simp only [Net.step, hon]
    refine ⟨hrep, hnow, hlive, hexc, hlog0, fun b' => ?_, fun b' => ?_, fun b' => ?_⟩
    · rw [NetP.logOf_snoc, logOf_snoc, hs1.log, leave_evs]
      simp [NEv.evsOf, TEv.evsOf, idx_eq_iff]
    · rw [NetP.sentOf_snoc, sentOf_snoc, hs1.sent]
      rfl
    · rw [NetP.recvdOf_snoc, recvdOf_snoc, hs1.recvd]
      rfl

/-- **Every schedule without foreign frames** is simulated by the network schedule `toNOps d sched`; the network
    invariant of Proofs/NetSafety.lean holds along the way. -/
theorem sim_runFrom (S : Setting) (ss : List TStep) : ∀ (d : TNet) (N : Net) (tr : List TEv) (ntr : List NEv),
    NetInv S N ntr → Sim d N tr ntr → (∀ s ∈ ss, stepOkS S s ∧ s.isNoise = false) →
    Sim (TNet.runFrom d tr ss).1 (Net.runFrom N ntr (toNOps d ss)).1 (TNet.runFrom d tr ss).2
      (Net.runFrom N ntr (toNOps d ss)).2 ∧
    NetInv S (Net.runFrom N ntr (toNOps d ss)).1 (Net.runFrom N ntr (toNOps d ss)).2 := by
  induction ss with
  | nil => intro d N tr ntr hinv hs _; exact ⟨hs, hinv⟩
  | cons s ss ih =>
    intro d N tr ntr hinv hs hok
    rw [runFrom_cons, toNOps, net_runFrom_append]
    obtain ⟨h1, h2⟩ := hok s List.mem_cons_self
    exact ih _ _ _ _ (netInv_runFrom S (toNOp d s) N ntr hinv (toNOp_ok S d s h1)) (sim_step S hinv hs s h2)
      (fun x hx => hok x (List.mem_cons_of_mem _ hx))

/-- the threaded pair of a setting, freshly started -/
def tnet0 (S : Setting) : TNet := TNet.init (S.c false) (S.c true) (S.a false) (S.a true)

theorem sim_init (S : Setting) : Sim (tnet0 S) (net0 S) [] [] := by
  obtain ⟨ly, ob, hrep, -, -⟩ := netInv_init S
  refine ⟨⟨rfl, rfl, hrep.faults⟩, rfl, ?_, ?_, ?_, fun _ => rfl, fun _ => rfl, fun _ => rfl⟩
  · intro b; cases b <;> exact ⟨rfl, rfl, rfl⟩
  · intro b; cases b <;> rfl
  · intro b; cases b <;> rfl

/-- **Simulation.** For every thread schedule `sched` without foreign frames (admissible `send`s), the run of the
    threaded pair from power-on is abstracted (`Sim`) by the run of the two-layer network on `toNOps _ sched`. -/
theorem sim_run (S : Setting) (sched : List TStep) (hok : ∀ s ∈ sched, stepOkS S s ∧ s.isNoise = false) :
    Sim (TNet.run (tnet0 S) sched).1 (Net.run (net0 S) (toNOps (tnet0 S) sched)).1 (TNet.run (tnet0 S) sched).2
      (Net.run (net0 S) (toNOps (tnet0 S) sched)).2 :=
  (sim_runFrom S sched _ _ _ _ (netInv_init S) (sim_init S) hok).1

theorem mem_toNOps (ss : List TStep) : ∀ (d : TNet) (op : NOp), op ∈ toNOps d ss → ∃ d' s, s ∈ ss ∧ op ∈ toNOp d' s := by
  induction ss with
  | nil => intro d op h; cases h
  | cons s ss ih =>
    intro d op h
    rw [toNOps, List.mem_append] at h
    rcases h with h | h
    · exact ⟨d, s, List.mem_cons_self, h⟩
    · obtain ⟨d', s', hs', hop⟩ := ih _ op h
      exact ⟨d', s', List.mem_cons_of_mem _ hs', hop⟩

/-- the network schedule of an admissible thread schedule is admissible -/
theorem toNOps_ok (S : Setting) (ss : List TStep) : ∀ d : TNet, (∀ s ∈ ss, stepOkS S s) → SchedOk S (toNOps d ss) := by
  induction ss with
  | nil => intro d _ op hop; cases hop
  | cons s ss ih =>
    intro d hok op hop
    rw [toNOps, List.mem_append] at hop
    rcases hop with h | h
    · exact toNOp_ok S d s (hok s List.mem_cons_self) op h
    · exact ih _ (fun x hx => hok x (List.mem_cons_of_mem _ hx)) op h

end Isotp.TNetP
