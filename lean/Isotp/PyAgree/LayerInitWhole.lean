import Isotp.PyAgree.LayerWhole
/-!
  Companion of LayerInit.lean (which cannot import LayerWhole.lean: LayerSend.lean and LayerTxWhole.lean both define
  `Isotp.PyAgree.reqScs`, so the two import chains cannot meet in one file).

  LayerInit.lean's `init_presents_State_init` shows that the constructed object, seen through the flat view `present conv`, satisfies
  `Tx.Rep env (State.init c a)`, `Rx.Rep (State.init c a) env`, `Rx.Consts env` and `env "#tx_queue" = some (.list [])`.
  Here: ANY environment that satisfies those leaf presentations for a well-formed state `s`, records no callee call yet (`#ops = []`) and
  binds `logging.DEBUG`, SHOWS `s` in the sense of LayerWhole's `RW` - the hypothesis of `process_whole_agrees` / `process_whole_total`.
  (`RW`'s three groups `TxOwn` / `RxOwn` / `Shared` are a regrouping of the fields of `Tx.Rep` and `Rx.Rep`; the mailbox is a VALUE in
  `RW` - `Tx.Rep`'s field.)  So the conclusions of `init_presents_State_init` are literally the hypotheses of `init_RW`, and the first
  `process()` of a freshly constructed layer is covered by `process_whole_total` (`init_process_total`).
-/
namespace Isotp.PyAgree.Whole
open Isotp Isotp.Py

/-- both leaf presentations on one environment give `RW` -/
theorem RW.of_reps (s : State) (env : Env) (hT : Tx.Rep env s) (hR : Rx.Rep s env) (hC : Rx.Consts env)
    (hq : env "#tx_queue" = some (.list (txqScs s.txQueue))) (hops : env "#ops" = some (.list []))
    (hdbg : env "logging.DEBUG" = some (pint 10)) (hI : Inv s) : RW s env s where
  ops := ⟨[], hops, rfl⟩
  inv := hI
  debug := hdbg
  txo :=
    { txState := hT.txState, txFrameLen := hT.txFrameLen, txSeq := hT.txSeq, txBlockCnt := hT.txBlockCnt, remoteBs := hT.remoteBs,
      wftCnt := hT.wftCnt, listen := hT.listen, wftmax := hT.wftmax, ovr := hT.ovr, txDl := hT.txDl, txMinLen := hT.txMinLen,
      standby := hT.standby, active := hT.active, fcStart := hT.fcStart, fcTo := hT.fcTo, stStart := hT.stStart, stTo := hT.stTo,
      rl := hT.rl, req := hT.req, consts := hT.consts, queue := hq }
  rxo :=
    { rxState := hR.rxState, rxFrameLen := hR.rxFrameLen, lastSeq := hR.lastSeq, rxBlockCnt := hR.rxBlockCnt,
      actualRxdl := hR.actualRxdl, rxBuf := hR.rxBuf, blocksize := hR.blocksize, maxFrameSize := hR.maxFrameSize,
      cfTimeout := hR.cfTimeout, delivered := hR.delivered, rxQueue := hR.rxQueue }
  sh :=
    { pendingFc := hT.pendingFc, pfs := hT.pfs, cfStart := hT.cfStart, cfTo := hT.cfTo, lastFc := hT.lastFc, log := hT.log,
      errors := hR.errors }
  rxc := hC

/-- **the constructed layer shows `State.init c a`** (valid configuration): from the conclusions of LayerInit's
    `init_presents_State_init` -/
theorem init_RW (c : Cfg) (a : Addr) (hc : c.valid = true) (env : Env) (hT : Tx.Rep env (State.init c a))
    (hR : Rx.Rep (State.init c a) env) (hC : Rx.Consts env) (hq : env "#tx_queue" = some (.list []))
    (hops : env "#ops" = some (.list [])) (hdbg : env "logging.DEBUG" = some (pint 10)) :
    RW (State.init c a) env (State.init c a) :=
  RW.of_reps (State.init c a) env hT hR hC hq hops hdbg (Inv.init c a hc)

/-- ... hence the first `process()` of a freshly constructed layer runs as the model says (`process_whole_total`) -/
theorem init_process_total (c : Cfg) (a : Addr) (hc : c.valid = true) (env : Env) (doRx doTx : Bool) (tmo : PV)
    (hT : Tx.Rep env (State.init c a)) (hR : Rx.Rep (State.init c a) env) (hC : Rx.Consts env)
    (hq : env "#tx_queue" = some (.list [])) (hops : env "#ops" = some (.list []))
    (hdbg : env "logging.DEBUG" = some (pint 10))
    (h1 : env "do_rx" = some (pbool doRx)) (h2 : env "do_tx" = some (pbool doTx)) (h3 : env "rx_timeout" = some tmo) :
    ∃ env', (∀ n, processPyFuel (State.init c a) doRx doTx ≤ n →
        run2 n (wholeM (State.init c a)) env Src.TransportLayerLogic_process =
          .ok (.ret (encodeStats ((State.init c a).process doRx doTx).2.1) env')) ∧
      RW (State.init c a) env' ((State.init c a).process doRx doTx).1 :=
  process_whole_total (State.init c a) env (State.init c a) doRx doTx tmo (init_RW c a hc env hT hR hC hq hops hdbg) h1 h2 h3

/-- non-vacuity: LayerWhole's canonical environment of the initial state satisfies the hypotheses of `init_RW` -/
example (c : Cfg) (a : Addr) (hc : c.valid = true) :
    RW (State.init c a) (env0 (State.init c a) true true pnone) (State.init c a) :=
  have h := env0_shows (State.init c a) true true pnone (Inv.init c a hc)
  init_RW c a hc _ h.rep2.rep
    { rxState := h.rxo.rxState, rxFrameLen := h.rxo.rxFrameLen, lastSeq := h.rxo.lastSeq, rxBlockCnt := h.rxo.rxBlockCnt,
      actualRxdl := h.rxo.actualRxdl, rxBuf := h.rxo.rxBuf, pendingFc := h.sh.pendingFc, pfs := h.sh.pfs, tStart := h.sh.cfStart,
      tTimeout := h.sh.cfTo, blocksize := h.rxo.blocksize, maxFrameSize := h.rxo.maxFrameSize, cfTimeout := h.rxo.cfTimeout,
      errors := h.sh.errors, delivered := h.rxo.delivered, rxQueue := h.rxo.rxQueue, mb := rfl,
      fcS := fun f hf => by simp [State.init] at hf, fcB := fun f hf => by simp [State.init] at hf,
      fcM := fun f hf => by simp [State.init] at hf }
    h.rxc rfl rfl rfl

end Isotp.PyAgree.Whole

#print axioms Isotp.PyAgree.Whole.RW.of_reps
#print axioms Isotp.PyAgree.Whole.init_RW
#print axioms Isotp.PyAgree.Whole.init_process_total
