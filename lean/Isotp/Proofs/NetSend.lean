import Isotp.Proofs.Tx
import Isotp.Proofs.Segment
import Isotp.Proofs.NetTxLog
import Isotp.Proofs.NetRecv
/-
  Network-level safety (C01 / C10), part 5: the sending role of a layer.

  `SendInv` (`sender_stream`): as long as no error is reported, the data frames (everything but the Flow Control
  frames) the layer has handed to `txfn` are, in order, the segmentations of the payloads of the accepted `send()`
  calls, in the order of the calls: all the frames of the completed ones, then a prefix of the frames of the one in
  transmission; and every frame carries the identifier / address prefix of the layer's transmit address.
  Built on C02 (`Proofs.processTx_pass`: one `_process_tx` pass emits the next frame of `Spec.segment`), C12
  (`accounted`: the request queue is FIFO), C16b (`Safe`: no exception).
-/
namespace Isotp.NetP
open Isotp Isotp.State

/-! ### Flow Control frames versus data frames -/

theorem byteAt_drop_prefix (pre : Bytes) (b : UInt8) (rest : Bytes) :
    byteAt ((pre ++ b :: rest).drop pre.length) 0 = b.toNat := by
  rw [List.drop_left]
  exact Rx.byteAt_cons_zero b rest

/-- the Flow Control frame built by `_make_flow_control` has N_PCI type 3 -/
theorem isFc_fcMsg (s : State) (st : Nat) : isFc s.addr.tx.txPrefix.length (Proofs.fcMsg s st) = true := by
  have : (Proofs.fcMsg s st).data =
      s.addr.tx.txPrefix ++ u8 (0x30 + st % 16) :: ([u8 (s.cfg.blocksize % 256), u8 (s.cfg.stmin % 256)] ++
        List.replicate (Spec.padTarget (Spec.TxCfg.of s.cfg s.addr)
          (s.addr.tx.txPrefix ++ fcData st s.cfg.blocksize s.cfg.stmin).length -
          (s.addr.tx.txPrefix ++ fcData st s.cfg.blocksize s.cfg.stmin).length) (Spec.padByte (Spec.TxCfg.of s.cfg s.addr))) := by
    simp [Proofs.fcMsg, Proofs.frameMsg, Spec.padFrame, fcData]
  unfold isFc
  rw [this, byteAt_drop_prefix, Rx.u8_toNat]
  have : (0x30 + st % 16) % 256 / 16 = 3 := by omega
  simp [this]

theorem isFc_of_data (k : Nat) (m : CanMsg) (pre : Bytes) (b : UInt8) (rest : Bytes) (hk : pre.length = k)
    (hd : m.data = pre ++ b :: rest) : isFc k m = (b.toNat / 16 == 3) := by
  unfold isFc
  rw [hd, ← hk, byteAt_drop_prefix]

theorem toNat_ofNat_lt (n : Nat) (h : n < 256) : (UInt8.ofNat n).toNat = n := by
  rw [UInt8.toNat_ofNat']; omega

theorem padFrame_head (c : Spec.TxCfg) (pre : Bytes) (hdr : Bytes) (b : UInt8) (rest : Bytes) :
    ∃ tail, Spec.padFrame c (pre ++ (b :: hdr) ++ rest) = pre ++ b :: tail :=
  ⟨hdr ++ rest ++ List.replicate (Spec.padTarget c (pre ++ (b :: hdr) ++ rest).length - (pre ++ (b :: hdr) ++ rest).length)
    (Spec.padByte c), by simp [Spec.padFrame]⟩

theorem cfFrames_pci (c : Spec.TxCfg) : ∀ (ds : List Bytes) (sn : Nat) (d : Bytes), d ∈ Spec.cfFrames c sn ds →
    ∃ b rest, d = c.pre ++ b :: rest ∧ b.toNat / 16 = 2 := by
  intro ds
  induction ds with
  | nil => intro sn d h; simp [Spec.cfFrames] at h
  | cons x xs ih =>
    intro sn d h
    simp only [Spec.cfFrames, List.mem_cons] at h
    rcases h with rfl | h
    · obtain ⟨tail, ht⟩ := padFrame_head c c.pre [] (UInt8.ofNat (0x20 + sn % 16)) x
      refine ⟨_, tail, ht, ?_⟩
      rw [toNat_ofNat_lt _ (by omega)]; omega
    · exact ih _ _ h

/-- every frame of the reference segmentation starts, after the address prefix, with N_PCI type 0, 1 or 2 -/
theorem segment_pci (c : Spec.TxCfg) (p d : Bytes) (hd : d ∈ Spec.segment c p) :
    ∃ b rest, d = c.pre ++ b :: rest ∧ b.toNat / 16 ≠ 3 := by
  rcases Proofs.Seg.segment_cases c p with ⟨hs, heq⟩ | ⟨_, _, heq⟩ | ⟨_, _, heq⟩
  · rw [heq] at hd; simp only [List.mem_cons, List.not_mem_nil, or_false] at hd; subst hd
    obtain ⟨tail, ht⟩ := padFrame_head c c.pre [] (UInt8.ofNat p.length) p
    refine ⟨_, tail, ht, ?_⟩
    have := (Proofs.Seg.sfShort_iff c p.length).mp hs
    rw [toNat_ofNat_lt _ (by omega)]; omega
  · rw [heq] at hd; simp only [List.mem_cons, List.not_mem_nil, or_false] at hd; subst hd
    obtain ⟨tail, ht⟩ := padFrame_head c c.pre [UInt8.ofNat p.length] 0x00 p
    exact ⟨_, tail, ht, by decide⟩
  · rw [heq] at hd
    rcases List.mem_cons.mp hd with rfl | hd
    · unfold Spec.ffHeader
      split
      · rename_i hn
        obtain ⟨tail, ht⟩ := padFrame_head c c.pre [UInt8.ofNat (p.length % 256)] (UInt8.ofNat (0x10 + p.length / 256))
          (p.take (Spec.ffRoom c p.length))
        refine ⟨_, tail, ht, ?_⟩
        rw [toNat_ofNat_lt _ (by omega)]; omega
      · obtain ⟨tail, ht⟩ := padFrame_head c c.pre (0x00 :: Spec.be32 p.length) 0x10 (p.take (Spec.ffRoom c p.length))
        exact ⟨_, tail, ht, by decide⟩
    · obtain ⟨b, rest, h1, h2⟩ := cfFrames_pci c _ _ _ hd
      exact ⟨b, rest, h1, by omega⟩

theorem isFc_segment (c : Spec.TxCfg) (p : Bytes) (m : CanMsg) (hd : m.data ∈ Spec.segment c p) :
    isFc c.pre.length m = false := by
  obtain ⟨b, rest, h1, h2⟩ := segment_pci c p _ hd
  rw [isFc_of_data _ m c.pre b rest rfl h1]
  simpa using h2

/-! ### small list facts -/

theorem suffix_eq_drop {α : Type} {l1 l : List α} (h : l1 <:+ l) : l1 = l.drop (l.length - l1.length) := by
  obtain ⟨t, rfl⟩ := h
  simp

theorem suffix_eq_of_length {α : Type} {l1 l2 l : List α} (h1 : l1 <:+ l) (h2 : l2 <:+ l)
    (hl : l1.length = l2.length) : l1 = l2 := by
  rw [suffix_eq_drop h1, suffix_eq_drop h2, hl]

theorem doneL_noDone (evs : List Ev) (h : Proofs.NoDone evs) : C12.doneL evs = [] := by
  unfold C12.doneL
  rw [List.filterMap_eq_nil_iff]
  intro e he
  have := h e (List.mem_reverse.mp he)
  cases e <;> simp_all [C12.doneOf]

/-- number of requests the layer still owes an outcome to -/
def pend (s : State) : Nat := (C12.optId s.active).length + s.txQueue.length

/-- one transmit pass: completions logged + requests still pending = requests pending before -/
theorem pend_processTx (s : State) (hi : C12.Idle s) (new : List Ev) (hl : s.processTx.1.log = new ++ s.log) :
    (C12.doneL new).length + pend s.processTx.1 = pend s := by
  have h := C12.processTx_acc s hi
  rw [C12.accounted_eq, C12.accounted_eq, hl, C12.doneL_append, List.append_assoc] at h
  have h' := congrArg List.length (List.append_cancel_left h)
  simp only [List.length_append, C12.ids, List.length_map] at h'
  unfold pend
  omega


/-! ### `SafeOk` (C16b) along the micro-steps -/

theorem SafeOk.micro {s s' : State} (h : SafeOk s) (hm : Micro s s') : SafeOk s' := by
  have I := SafeOk.stepInv
  cases hm with
  | frame dt m rest hin =>
    have h1 : SafeOk (arrive s dt m rest).checkTimeoutsRx := I.timeout _ (I.rxEv _ _ _ (I.env s rest (s.now + dt) h))
    unfold rxOne
    split
    · exact I.rx _ _ h1
    · exact h1
  | rxEnd hin => exact I.timeout _ (I.rxNone _ _ (I.env s [] s.now h))
  | rl => exact I.rl s _ h
  | tx hx =>
    unfold afterTxfn
    cases ho : s.processTx.2.1 with
    | none => exact I.tx s h
    | some m => exact I.txEmit s m h ho
  | txExc hx => exact I.tx s h

/-! ### the sender invariant -/

/-- a queued request for the payload `p`: nothing pulled yet, the generator yields all of `p`, `p` is sendable -/
def ReqOk (mx : Nat) (r : Req) (p : Bytes) : Prop :=
  Proofs.Fresh r p ∧ Proofs.Full r p ∧ 1 ≤ p.length ∧ p.length < 4294967296 ∧ p.length ≤ mx

/-- the queued requests, paired with their payloads -/
inductive ReqsOk (mx : Nat) : List Req → List Bytes → Prop
  | nil : ReqsOk mx [] []
  | cons {r : Req} {p : Bytes} {rq : List Req} {rest : List Bytes} :
      ReqOk mx r p → ReqsOk mx rq rest → ReqsOk mx (r :: rq) (p :: rest)

theorem ReqsOk.snoc {mx : Nat} {rq : List Req} {rest : List Bytes} (h : ReqsOk mx rq rest) {r : Req} {p : Bytes}
    (hr : ReqOk mx r p) : ReqsOk mx (rq ++ [r]) (rest ++ [p]) := by
  induction h with
  | nil => exact .cons hr .nil
  | cons h1 _ ih => exact .cons h1 ih

/-- data fields of the frames handed to `txfn` that are not Flow Control frames (`k`: length of the address prefix) -/
def dataOut (k : Nat) (evs : List Ev) : List Bytes := ((Net.txOf evs).filter (fun m => !isFc k m)).map (·.data)

/-- a frame of the sender with transmit address `a.tx`: identifier (either target address type), identifier width,
    address prefix -/
def FrameOk (a : Addr) (m : CanMsg) : Prop :=
  (∃ t, m.id = a.tx.txId t) ∧ m.ext = a.tx.mode.is29 ∧ ∃ r, m.data = a.tx.txPrefix ++ r

/-- the reference segmentation for configuration `c` and address `a` -/
abbrev segA (c : Cfg) (a : Addr) : Bytes → List Bytes := Spec.segment (Spec.TxCfg.of c a)

/-- where the transmit side is in the list `ps` of accepted payloads, and what it has emitted (`out`) -/
inductive Progress (c : Cfg) (a : Addr) (mx : Nat) (s : State) (ps : List Bytes) (out : List Bytes) : Prop
  | idle : s.txState = .idle → s.active = none → s.txQueue = [] → out = Compose.stream (segA c a) ps →
      Progress c a mx s ps out
  | busy (dn rest : List Bytes) (p : Bytes) (r0 : Req) (rq : List Req) (k : Nat) :
      ps = dn ++ p :: rest → ReqOk mx r0 p → ReqsOk mx rq rest → Proofs.TxInv0 s r0 p k →
      out = Compose.stream (segA c a) dn ++ (segA c a p).take k →
      (s.active = none → s.txQueue = r0 :: rq) → (s.active ≠ none → s.txQueue = rq) → Progress c a mx s ps out

theorem Progress.same {c : Cfg} {a : Addr} {mx : Nat} {s s' : State} {ps out : List Bytes} (h : Progress c a mx s ps out)
    (hs : Proofs.TxSame s s') (hq : s'.txQueue = s.txQueue) : Progress c a mx s' ps out := by
  cases h with
  | idle h1 h2 h3 h4 => exact .idle (hs.txState.trans h1) (hs.active.trans h2) (hq.trans h3) h4
  | busy dn rest p r0 rq k h1 h2 h3 h4 h5 h6 h7 =>
    refine .busy dn rest p r0 rq k h1 h2 h3 ?_ h5 ?_ ?_
    · rcases h4 with ⟨hk, hst, hact, rest', hq'⟩ | hi
      · exact Or.inl ⟨hk, hs.txState.trans hst, hs.active.trans hact, rest', hq.trans hq'⟩
      · exact Or.inr (hs.inv _ _ _ hi)
    · intro ha; rw [hq]; exact h6 (hs.active ▸ ha)
    · intro ha; rw [hq]; exact h7 (hs.active ▸ ha)

structure SendOk (c : Cfg) (a : Addr) (mx : Nat) (s : State) (L : List Ev) (ps : List Bytes) : Prop where
  cfg : s.cfg = c
  addr : s.addr = a
  frames : ∀ m ∈ Net.txOf (s.log ++ L).reverse, FrameOk a m
  prog : Progress c a mx s ps (dataOut a.tx.txPrefix.length (s.log ++ L).reverse)

/-- **Sender invariant.** `L`: events of the earlier operations (newest first); `ps`: payloads accepted so far. -/
def SendInv (c : Cfg) (a : Addr) (mx : Nat) (s : State) (L : List Ev) (ps : List Bytes) : Prop :=
  noErr (s.log ++ L) = true → SendOk c a mx s L ps

theorem IntExt.dataOut {l l' : List Ev} (h : IntExt l l') (k : Nat) (L : List Ev) :
    dataOut k (l' ++ L).reverse = dataOut k (l ++ L).reverse := by
  simp only [NetP.dataOut, h.txOf L]

theorem SendOk.neutral {c : Cfg} {a : Addr} {mx : Nat} {s s' : State} {L : List Ev} {ps : List Bytes} (h : SendOk c a mx s L ps)
    (hs : Proofs.TxSame s s') (hq : s'.txQueue = s.txQueue) (hl : IntExt s.log s'.log) : SendOk c a mx s' L ps :=
  ⟨hs.cfg.trans h.cfg, hs.addr.trans h.addr, by rw [hl.txOf L]; exact h.frames,
    by rw [hl.dataOut _ L]; exact h.prog.same hs hq⟩

theorem SendInv.neutral {c : Cfg} {a : Addr} {mx : Nat} {s s' : State} {L : List Ev} {ps : List Bytes} (h : SendInv c a mx s L ps)
    (hs : Proofs.TxSame s s') (hq : s'.txQueue = s.txQueue) (hl : IntExt s.log s'.log) : SendInv c a mx s' L ps :=
  fun hn => (h (hl.noErr L hn)).neutral hs hq hl

theorem txSame_of_rxFrame {s s' : State} (h : RxFrame s s') : Proofs.TxSame s s' :=
  ⟨h.cfg, h.addr, h.active, h.standby, h.txFrameLen, h.txSeq, h.txState, h.remoteBs⟩

theorem SendInv.rxFrame {c : Cfg} {a : Addr} {mx : Nat} {s s' : State} {L : List Ev} {ps : List Bytes} (h : SendInv c a mx s L ps)
    (hf : RxFrame s s') : SendInv c a mx s' L ps :=
  h.neutral (txSame_of_rxFrame hf) hf.txQueue (IntExt.of_rx hf.log)

/-! ### one transmit pass -/

theorem frameOk_msgFor (s : State) (r0 : Req) (p d : Bytes) (hd : d ∈ Proofs.segOf s p) :
    FrameOk s.addr (Proofs.msgFor s r0 p d) :=
  ⟨⟨_, rfl⟩, rfl, Compose.segment_prefix _ p d hd⟩

theorem frameOk_fcMsg (s : State) (st : Nat) : FrameOk s.addr (Proofs.fcMsg s st) :=
  ⟨⟨_, rfl⟩, rfl, by
    obtain ⟨r, hr⟩ := Compose.padFrame_prefix (Spec.TxCfg.of s.cfg s.addr) s.addr.tx.txPrefix
      (fcData st s.cfg.blocksize s.cfg.stmin)
    exact ⟨r, hr⟩⟩

/-- what the message returned by a transmit pass adds to the data frames -/
def outData (k : Nat) (out : Option CanMsg) : List Bytes :=
  match out with
  | some m => if isFc k m then [] else [m.data]
  | none => []

theorem pend_busy {s : State} {r0 : Req} {rq : List Req} (h6 : s.active = none → s.txQueue = r0 :: rq)
    (h7 : s.active ≠ none → s.txQueue = rq) : pend s = 1 + rq.length := by
  unfold pend
  cases ha : s.active with
  | none => rw [h6 ha]; simp; omega
  | some r => rw [h7 (by rw [ha]; simp)]; simp

/-- the queue after a pass that completed `n` requests -/
theorem queue_after {s s1 : State} {r0 : Req} {rq : List Req} (hsfx : s1.txQueue <:+ s.txQueue)
    (h6 : s.active = none → s.txQueue = r0 :: rq) (h7 : s.active ≠ none → s.txQueue = rq) :
    (pend s1 = 1 + rq.length → (s1.active = none → s1.txQueue = r0 :: rq) ∧ (s1.active ≠ none → s1.txQueue = rq)) ∧
    (pend s1 = rq.length → s1.active = none → s1.txQueue = rq) := by
  have hrq : rq <:+ s.txQueue := by
    cases ha : s.active with
    | none => rw [h6 ha]; exact List.suffix_cons _ _
    | some r => rw [h7 (by rw [ha]; simp)]; exact List.suffix_refl _
  have hlen := hsfx.length_le
  refine ⟨fun hp => ⟨fun ha1 => ?_, fun ha1 => ?_⟩, fun hp ha1 => ?_⟩
  · have hl : s1.txQueue.length = 1 + rq.length := by simpa [pend, ha1] using hp
    cases ha : s.active with
    | none =>
      have := h6 ha
      rw [this] at hsfx
      exact hsfx.eq_of_length (by rw [hl]; simp; omega)
    | some r =>
      have := h7 (by rw [ha]; simp)
      rw [this] at hlen; omega
  · obtain ⟨r, hr⟩ := Option.ne_none_iff_exists'.mp ha1
    have hl : s1.txQueue.length = rq.length := by
      have : pend s1 = 1 + s1.txQueue.length := by simp [pend, hr]
      omega
    exact suffix_eq_of_length hsfx hrq hl
  · have hl : s1.txQueue.length = rq.length := by simpa [pend, ha1] using hp
    exact suffix_eq_of_length hsfx hrq hl

theorem take_succ_of_getElem? {α : Type} (l : List α) (k : Nat) (d : α) (h : l[k]? = some d) :
    l.take (k + 1) = l.take k ++ [d] := by
  rw [List.take_add_one, h]; rfl

theorem mem_of_getElem?' {α : Type} (l : List α) (k : Nat) (d : α) (h : l[k]? = some d) : d ∈ l :=
  List.mem_of_getElem? h

/-- what a transmit pass can return: the Flow Control frame with the stored status, or a frame of the segmentation
    of the payload of a queued request -/
def OutKind (mx : Nat) (s : State) (m : CanMsg) : Prop :=
  (∃ st, s.pendingFcStatus = some st ∧ m = Proofs.fcMsg s st) ∨
  (∃ p r0 d, ReqOk mx r0 p ∧ d ∈ Proofs.segOf s p ∧ m = Proofs.msgFor s r0 p d)

theorem OutKind.frameOk {mx : Nat} {s : State} {m : CanMsg} (h : OutKind mx s m) : FrameOk s.addr m := by
  rcases h with ⟨st, -, rfl⟩ | ⟨p, r0, d, -, hd, rfl⟩
  · exact frameOk_fcMsg s st
  · exact frameOk_msgFor s r0 p d hd

/-- **One transmit pass** on a state satisfying the sender invariant, when the pass completes no request with
    failure: the progress invariant holds again, with the data frame returned by the pass (if any) appended to the
    emitted ones; and the returned frame is a Flow Control frame or a segmentation frame. -/
theorem progress_tx_core (c : Cfg) (a : Addr) (mx : Nat) (s : State) (ps o : List Bytes) (hsafe : SafeOk s)
    (hcfg : s.cfg = c) (haddr : s.addr = a) (hp : Progress c a mx s ps o)
    (hnf : ∀ new, s.processTx.1.log = new ++ s.log → ∀ i, Ev.done i false ∉ new) :
    Progress c a mx s.processTx.1 ps (o ++ outData a.tx.txPrefix.length s.processTx.2.1) ∧
    (∀ m, s.processTx.2.1 = some m → OutKind mx s m) := by
  have hvs : s.cfg.valid = true := hsafe.1.cfg_valid
  have hfcok : Proofs.FcOk s := hsafe.1.pend
  have hexc : s.exc = none := hsafe.2
  subst hcfg haddr
  by_cases hd : Proofs.fcPass s = true
  · -- the pass only sends the Flow Control frame requested by the receive side
    obtain ⟨st, hst, he⟩ := Proofs.processTx_fc s hvs hfcok hd
    rw [he]
    refine ⟨?_, ?_⟩
    · simp only [outData, isFc_fcMsg, if_true, List.append_nil]
      exact hp.same (Proofs.afterFcReq_same s st) (Proofs.afterFcReq_queue s st).1
    · intro m hm
      simp only [Option.some.injEq] at hm
      subst hm
      exact Or.inl ⟨st, hst, rfl⟩
  · have hd' : Proofs.fcPass s = false := by simpa using hd
    cases hp with
    | idle h1 h2 h3 h4 =>
      obtain ⟨hq1, hout⟩ := Quiet.processTx (s := s) ⟨h3, h1, h2⟩
      have hnone : s.processTx.2.1 = none := by
        cases ho : s.processTx.2.1 with
        | none => rfl
        | some m =>
          obtain ⟨hpf, hl, -⟩ := hout m ho
          simp [Proofs.fcPass, hpf, hl] at hd'
      rw [hnone]
      exact ⟨by simpa [outData] using Progress.idle hq1.2.1 hq1.2.2 hq1.1 h4, by intro m hm; cases hm⟩
    | busy dn rest p r0 rq k h1 h2 h3 h4 h5 h6 h7 =>
      have hpass := Proofs.processTx_pass s r0 p k hvs h2.1 h2.2.2.1 h2.2.2.2.1 hexc hfcok hd' h4
      have hstep := TxStep.processTx s
      obtain ⟨new, hnew, -⟩ := hstep.log
      have hidle : C12.Idle s := by
        intro hi
        rcases h4 with ⟨-, -, hact, -⟩ | hi'
        · exact hact
        · exact absurd hi hi'.not_idle
      have hpend := pend_processTx s hidle new hnew
      rw [pend_busy h6 h7] at hpend
      have hqa := queue_after hstep.queue h6 h7
      have hnewEq : ∀ evs, s.processTx.1.log = evs ++ s.log → evs = new := by
        intro evs he
        rw [hnew] at he
        exact (List.append_cancel_right he).symm
      rcases hpass with ⟨ho, hi1, hq⟩ | ⟨d, hdk, ho, hi1, hq⟩ | ⟨d, hdk, hlen, ho, hfin, -⟩ | hfailed
      · -- nothing emitted
        obtain ⟨evs, hevs, hnd⟩ := hq.log
        have := hnewEq evs hevs
        subst this
        rw [doneL_noDone _ hnd] at hpend
        obtain ⟨q1, q2⟩ := hqa.1 (by simpa using hpend)
        rw [ho]
        exact ⟨by simpa [outData] using Progress.busy dn rest p r0 rq k h1 h2 h3 hi1 h5 q1 q2, by intro m hm; cases hm⟩
      · -- frame `k` emitted, more to come
        obtain ⟨evs, hevs, hnd⟩ := hq.log
        have := hnewEq evs hevs
        subst this
        rw [doneL_noDone _ hnd] at hpend
        obtain ⟨q1, q2⟩ := hqa.1 (by simpa using hpend)
        have hmem : d ∈ Proofs.segOf s p := List.mem_of_getElem? hdk
        have hnfc : isFc s.addr.tx.txPrefix.length (Proofs.msgFor s r0 p d) = false :=
          isFc_segment (Spec.TxCfg.of s.cfg s.addr) p _ hmem
        rw [ho]
        refine ⟨?_, ?_⟩
        · simp only [outData, hnfc, Bool.false_eq_true, if_false]
          refine Progress.busy dn rest p r0 rq (k + 1) h1 h2 h3 hi1 ?_ q1 q2
          have hdk' : (segA s.cfg s.addr p)[k]? = some d := hdk
          rw [h5, List.append_assoc, take_succ_of_getElem? _ k d hdk']
          rfl
        · intro m hm
          simp only [Option.some.injEq] at hm
          subst hm
          exact Or.inr ⟨p, r0, d, h2, hmem, rfl⟩
      · -- the last frame: the request completes
        obtain ⟨evs, hevs, hnd⟩ := hfin.log
        have := hnewEq (Ev.done r0.id true :: evs) (by rw [hevs])
        subst this
        rw [C12.doneL_done, doneL_noDone _ hnd] at hpend
        have hq1 := hqa.2 (by simpa using hpend) hfin.active
        have hmem : d ∈ Proofs.segOf s p := List.mem_of_getElem? hdk
        have hnfc : isFc s.addr.tx.txPrefix.length (Proofs.msgFor s r0 p d) = false :=
          isFc_segment (Spec.TxCfg.of s.cfg s.addr) p _ hmem
        have hall : (segA s.cfg s.addr p).take k ++ [d] = segA s.cfg s.addr p := by
          have hdk' : (segA s.cfg s.addr p)[k]? = some d := hdk
          rw [← take_succ_of_getElem? _ k d hdk']
          exact List.take_of_length_le (by
            show (Proofs.segOf s p).length ≤ k + 1
            omega)
        have hout : Compose.stream (segA s.cfg s.addr) dn ++ (segA s.cfg s.addr p).take k ++ [d] =
            Compose.stream (segA s.cfg s.addr) (dn ++ [p]) := by
          rw [List.append_assoc, hall, Compose.stream_append]
          simp
        rw [ho]
        refine ⟨?_, ?_⟩
        · simp only [outData, hnfc, Bool.false_eq_true, if_false]
          have hlist : o ++ [(Proofs.msgFor s r0 p d).data] = Compose.stream (segA s.cfg s.addr) (dn ++ [p]) := by
            rw [h5]; exact hout
          rw [hlist]
          cases h3 with
          | nil =>
            refine Progress.idle hfin.txState hfin.active hq1 ?_
            rw [h1]
          | @cons r1 p1 rq' rest' hr1 hrest =>
            refine Progress.busy (dn ++ [p]) rest' p1 r1 rq' 0 (by rw [h1]; simp) hr1 hrest
              (Or.inl ⟨rfl, hfin.txState, hfin.active, rq', hq1⟩) (by simp) (fun _ => hq1)
              (fun hne => absurd hfin.active hne)
        · intro m hm
          simp only [Option.some.injEq] at hm
          subst hm
          exact Or.inr ⟨p, r0, d, h2, hmem, rfl⟩
      · -- the transfer failed: an error was reported
        obtain ⟨evs, hevs, hmem⟩ := hfailed.log
        have := hnewEq evs hevs
        subst this
        exact absurd hmem (hnf evs hevs _)

/-- the same when the pass reports no error at all -/
theorem progress_tx (c : Cfg) (a : Addr) (mx : Nat) (s : State) (ps o : List Bytes) (hsafe : SafeOk s) (hcfg : s.cfg = c)
    (haddr : s.addr = a) (hp : Progress c a mx s ps o) (hn : noErr s.processTx.1.log = true) :
    Progress c a mx s.processTx.1 ps (o ++ outData a.tx.txPrefix.length s.processTx.2.1) ∧
    (∀ m, s.processTx.2.1 = some m → FrameOk a m) := by
  have h := progress_tx_core c a mx s ps o hsafe hcfg haddr hp (by
    intro new hnew i hmem
    obtain ⟨new', hnew', hfail⟩ := (TxStep.processTx s).log
    have : new' = new := List.append_cancel_right (hnew'.symm.trans hnew)
    subst this
    obtain ⟨t, x, hx⟩ := hfail ⟨i, hmem⟩
    rw [hnew, noErr_append] at hn
    have hnn := (Bool.and_eq_true _ _ ▸ hn).1
    have : noErr new' = false := by
      simp only [noErr, List.all_eq_false]
      exact ⟨_, hx, by simp [Ev.isErr]⟩
    rw [this] at hnn
    cases hnn)
  exact ⟨h.1, fun m hm => haddr ▸ (h.2 m hm).frameOk⟩


/-! ### the micro-steps of `process()` -/

theorem txSame_refl' (s s' : State) (h1 : s'.cfg = s.cfg) (h2 : s'.addr = s.addr) (h3 : s'.active = s.active)
    (h4 : s'.standby = s.standby) (h5 : s'.txFrameLen = s.txFrameLen) (h6 : s'.txSeq = s.txSeq)
    (h7 : s'.txState = s.txState) (h8 : s'.remoteBs = s.remoteBs) : Proofs.TxSame s s' :=
  ⟨h1, h2, h3, h4, h5, h6, h7, h8⟩

theorem txSame_trans {a b c : State} (h1 : Proofs.TxSame a b) (h2 : Proofs.TxSame b c) : Proofs.TxSame a c :=
  ⟨h2.cfg.trans h1.cfg, h2.addr.trans h1.addr, h2.active.trans h1.active, h2.standby.trans h1.standby,
    h2.txFrameLen.trans h1.txFrameLen, h2.txSeq.trans h1.txSeq, h2.txState.trans h1.txState,
    h2.remoteBs.trans h1.remoteBs⟩

/-- a step that logs the non-`tx` event `e` and then internal events, and leaves the transmit side alone -/
theorem SendInv.step_of {c : Cfg} {a : Addr} {mx : Nat} {s s' : State} {L : List Ev} {ps : List Bytes} (h : SendInv c a mx s L ps)
    (hs : Proofs.TxSame s s') (hq : s'.txQueue = s.txQueue) (e : Ev) (he : Net.txOf [e] = [])
    (hl : IntExt (e :: s.log) s'.log) : SendInv c a mx s' L ps := by
  intro hn
  have hn1 := hl.noErr L hn
  rw [List.cons_append, noErr_cons] at hn1
  have hok := h (Bool.and_eq_true _ _ ▸ hn1).2
  have htx : Net.txOf (s'.log ++ L).reverse = Net.txOf (s.log ++ L).reverse := by
    rw [hl.txOf L, List.cons_append, List.reverse_cons, txOf_append, he, List.append_nil]
  exact ⟨hs.cfg.trans hok.cfg, hs.addr.trans hok.addr, by rw [htx]; exact hok.frames,
    by unfold dataOut; rw [htx]; exact hok.prog.same hs hq⟩

theorem rxOne_txSame (s : State) (dt : Nat) (m : CanMsg) (rest : List (Nat × CanMsg)) :
    Proofs.TxSame s (rxOne s dt m rest) ∧ (rxOne s dt m rest).txQueue = s.txQueue := by
  have h0 : Proofs.TxSame s (arrive s dt m rest) := txSame_refl' _ _ rfl rfl rfl rfl rfl rfl rfl rfl
  have f1 := RxFrame.checkTimeoutsRx (arrive s dt m rest)
  have h1 := txSame_trans h0 (txSame_of_rxFrame f1)
  have q1 : (arrive s dt m rest).checkTimeoutsRx.txQueue = s.txQueue := f1.txQueue
  unfold rxOne
  split
  · have f2 := RxFrame.processRx (arrive s dt m rest).checkTimeoutsRx m
    exact ⟨txSame_trans h1 (txSame_of_rxFrame f2), f2.txQueue.trans q1⟩
  · exact ⟨h1, q1⟩

theorem txOf_tx_cons (l L : List Ev) (t : Nat) (m : CanMsg) :
    Net.txOf (Ev.tx t m :: l ++ L).reverse = Net.txOf (l ++ L).reverse ++ [m] := by
  simp [Net.txOf, List.filterMap_append]

theorem SendInv.micro {c : Cfg} {a : Addr} {mx : Nat} {s s' : State} {L : List Ev} {ps : List Bytes}
    (hsafe : SafeOk s) (h : SendInv c a mx s L ps) (hm : Micro s s') : SendInv c a mx s' L ps := by
  cases hm with
  | frame dt m rest hin =>
    exact h.step_of (rxOne_txSame s dt m rest).1 (rxOne_txSame s dt m rest).2 _ rfl (rxOne_log s dt m rest)
  | rxEnd hin =>
    have f1 := RxFrame.checkTimeoutsRx (({ s with inbox := [] } : State).emit (.rxNone s.now))
    have h0 : Proofs.TxSame s (({ s with inbox := [] } : State).emit (.rxNone s.now)) :=
      txSame_refl' _ _ rfl rfl rfl rfl rfl rfl rfl rfl
    exact h.neutral (s' := rxEnd s) (txSame_trans h0 (txSame_of_rxFrame f1)) f1.txQueue (rxEnd_log s)
  | rl => exact h.neutral (txSame_refl' _ _ rfl rfl rfl rfl rfl rfl rfl rfl) rfl (IntExt.refl _)
  | tx hx =>
    have hlog := processTx_log s
    have hcore : noErr (s.processTx.1.log ++ L) = true →
        SendOk c a mx s L ps ∧ Progress c a mx s.processTx.1 ps
          (dataOut a.tx.txPrefix.length (s.processTx.1.log ++ L).reverse ++ outData a.tx.txPrefix.length s.processTx.2.1) ∧
        (∀ m, s.processTx.2.1 = some m → FrameOk a m) := by
      intro hn1
      have hok := h (hlog.noErr L hn1)
      have hn2 : noErr s.processTx.1.log = true := by
        rw [noErr_append] at hn1
        exact (Bool.and_eq_true _ _ ▸ hn1).1
      have := progress_tx c a mx s ps _ hsafe hok.cfg hok.addr hok.prog hn2
      rw [hlog.dataOut _ L]
      exact ⟨hok, this⟩
    unfold afterTxfn
    cases ho : s.processTx.2.1 with
    | none =>
      intro hn
      obtain ⟨hok, hprog, -⟩ := hcore hn
      rw [ho] at hprog
      exact ⟨(TxFrame.processTx s).cfg.trans hok.cfg, (TxFrame.processTx s).addr.trans hok.addr,
        by rw [hlog.txOf L]; exact hok.frames, by simpa [outData] using hprog⟩
    | some m =>
      intro hn
      have hn1 : noErr (s.processTx.1.log ++ L) = true := by
        have : (s.processTx.1.emit (.tx s.processTx.1.now m)).log = .tx s.processTx.1.now m :: s.processTx.1.log := rfl
        simp only [] at hn
        rw [this, List.cons_append, noErr_cons] at hn
        exact (Bool.and_eq_true _ _ ▸ hn).2
      obtain ⟨hok, hprog, hfr⟩ := hcore hn1
      rw [ho] at hprog
      have hlogE : (s.processTx.1.emit (.tx s.processTx.1.now m)).log ++ L =
          Ev.tx s.processTx.1.now m :: s.processTx.1.log ++ L := rfl
      refine ⟨(TxFrame.processTx s).cfg.trans hok.cfg, (TxFrame.processTx s).addr.trans hok.addr, ?_, ?_⟩
      · simp only []
        rw [hlogE, txOf_tx_cons, hlog.txOf L]
        intro x hx'
        rcases List.mem_append.mp hx' with hx' | hx'
        · exact hok.frames x hx'
        · simp only [List.mem_singleton] at hx'
          subst hx'
          exact hfr _ ho
      · simp only []
        have hd : dataOut a.tx.txPrefix.length ((s.processTx.1.emit (.tx s.processTx.1.now m)).log ++ L).reverse =
            dataOut a.tx.txPrefix.length (s.processTx.1.log ++ L).reverse ++ outData a.tx.txPrefix.length (some m) := by
          unfold dataOut outData
          rw [hlogE, txOf_tx_cons, List.filter_append, List.map_append]
          congr 1
          simp only [List.filter_cons, List.filter_nil]
          cases isFc a.tx.txPrefix.length m <;> simp
        rw [hd]
        exact hprog.same (txSame_refl' _ _ rfl rfl rfl rfl rfl rfl rfl rfl) rfl
  | txExc hx =>
    have := (SafeOk.stepInv.tx s hsafe).2
    rw [this] at hx
    cases hx

/-- `sender_stream`, one `process()` call -/
theorem SendInv.process {c : Cfg} {a : Addr} {mx : Nat} {L : List Ev} {ps : List Bytes} (s : State) (doRx doTx : Bool)
    (hsafe : SafeOk s) (h : SendInv c a mx s L ps) :
    SafeOk (s.process doRx doTx).1 ∧ SendInv c a mx (s.process doRx doTx).1 L ps :=
  process_ind (fun x => SafeOk x ∧ SendInv c a mx x L ps)
    (fun _ _ hx hm => ⟨SafeOk.micro hx.1 hm, SendInv.micro hx.1 hx.2 hm⟩) doRx doTx s ⟨hsafe, h⟩

/-! ### `send()` -/

/-- the request was queued: `send()` returned normally, or (blocking mode) raised `BlockingSendTimeout` after
    queuing it -/
def queued (r : Option PyExc) : Bool := r != some .ValueError

theorem reqOk_mkReq (mx : Nat) (s : State) (args : SendArgs) (hsz : args.size = args.src.length) (h1 : 1 ≤ args.src.length)
    (h2 : args.src.length < 4294967296) (h3 : args.src.length ≤ mx) : ReqOk mx (C12.mkReq s args) args.src := by
  obtain ⟨hf, hfull⟩ := Proofs.reqOf_fresh s args args.src hsz (List.take_length)
  exact ⟨hf, hfull, h1, h2, h3⟩

theorem Progress.send {c : Cfg} {a : Addr} {mx : Nat} {s : State} {ps out : List Bytes} (h : Progress c a mx s ps out)
    (r : Req) (p : Bytes) (hr : ReqOk mx r p) :
    Progress c a mx { s with txQueue := s.txQueue ++ [r] } (ps ++ [p]) out := by
  cases h with
  | idle h1 h2 h3 h4 =>
    refine .busy ps [] p r [] 0 rfl hr .nil (Or.inl ⟨rfl, h1, h2, [], by simp [h3]⟩) (by simp [h4])
      (fun _ => by simp [h3]) (fun hne => absurd h2 hne)
  | busy dn rest p0 r0 rq k h1 h2 h3 h4 h5 h6 h7 =>
    refine .busy dn (rest ++ [p]) p0 r0 (rq ++ [r]) k (by rw [h1]; simp) h2 (h3.snoc hr) ?_ h5 ?_ ?_
    · rcases h4 with ⟨hk, hst, hact, rest', hq'⟩ | hi
      · exact Or.inl ⟨hk, hst, hact, rest' ++ [r], by simp [hq']⟩
      · exact Or.inr ((txSame_refl' s _ rfl rfl rfl rfl rfl rfl rfl rfl).inv _ _ _ hi)
    · intro ha; simp [h6 ha]
    · intro ha; simp [h7 ha]

theorem SendInv.send {c : Cfg} {a : Addr} {mx : Nat} {s : State} {L : List Ev} {ps : List Bytes} (h : SendInv c a mx s L ps)
    (args : SendArgs) (hsz : args.size = args.src.length) (h1 : 1 ≤ args.src.length)
    (h2 : args.src.length < 4294967296) (h3 : args.src.length ≤ mx) :
    SendInv c a mx (s.send args).1 L (if queued (s.send args).2 then ps ++ [args.src] else ps) := by
  rcases C12.send_cases s args with ⟨hres, hst⟩ | ⟨hres, -, hst⟩
  · rw [hres, hst]
    exact h
  · have hq : queued (s.send args).2 = true := by
      rw [hres]; cases s.cfg.blocking <;> rfl
    rw [hq, hst]
    intro hn
    have hok := h hn
    exact ⟨hok.cfg, hok.addr, hok.frames, hok.prog.send _ _ (reqOk_mkReq mx s args hsz h1 h2 h3)⟩

end Isotp.NetP
