import Isotp.PyAgree.Exec2Bridge
import Isotp.PyAgree.EvalLemmas
import Isotp.PyAgree.MiscLemmas
import Isotp.Frame
/-!
  Source agreement for the two stateful methods of `RateLimiter` (isotp/protocol.py):

  * `RateLimiter.update`            (a `while` with `break`; SECOND, fuelled semantics `run2`)   = `Limiter.update`
  * `RateLimiter.inform_byte_sent`  (no loop; FIRST semantics `runFn`, and `run2` through the bridge) = `Limiter.inform`

  for EVERY limiter state `l`, window `w`, clock value `now` (and `datalen`).

  Presentation (DESIGN 3.1: time is a float in the source and integer nanoseconds in the model; the harness's virtual `perf_counter()` is an
  exact rational of the integer clock, so `t - t2 > window` on floats is `tNs - t2Ns > wNs` on integers):
    `time.perf_counter()`     : `Meths.fn`, returns `pint now`
    `self.window_size_sec`    ↦ `pint w`        (the window in ns)
    `self.TIME_SLOT_LENGTH`   ↦ `pint slotNs`
    `self.burst_time`         ↦ `.list` of the ints `l.slots.map (·.1)`
    `self.burst_bitcount`     ↦ `.list` of the ints `l.slots.map (·.2)`
    `self.bit_total`          ↦ `pint l.bitTotal`
    `self.enabled`            ↦ `pbool l.enabled`
  The list primitives are `Meths` (`limMeths`): `x.pop(0)`, `n_to_remove = x.pop(0)`, `x.append(v)`, `x[-1]` (`__last__`), `x[-1] += v`.
  `self.reset()` is the INTERPRETED source `Src.RateLimiter_reset` (its run is `reset_run` below = `ratelimiter_reset_run` of
  LayerTxHelpers.lean section D, which ties it to `Limiter.reset`); it needs `self.mean_bitrate` (shown as an int, as there).

  Subtractions.  The source computes over Python ints, the model over truncated `Nat`:
  * `t - t2 > window` / `t - last_time > TIME_SLOT_LENGTH`: NO hypothesis is needed.  If the clock went backwards (`t < t2`) the Python
    difference is negative, hence not `>` a non-negative window, and the model's truncated `0` is not either (`sub_gt_cast`).
  * `self.bit_total -= n_to_remove`: the two DIFFER when `bit_total < n_to_remove` (Python goes negative, the model stops at 0).
    `Limiter.WF l` (`bitTotal ≥` the sum of the slot counts) excludes it; it holds of the initial / reset limiter and is preserved by
    `update`, `inform`, `reset` (`wf_reset`, `wf_update`, `wf_inform`, `wf_default`).  `update_run` describes the run WITHOUT the hypothesis
    (integer-valued `bit_total`, `expireZ`), `update_agrees` is the agreement under `WF`, and `update_needs_WF` is a witness that the
    agreement fails without it.  `inform_byte_sent` needs no well-formedness.
-/

namespace Isotp

/-- well-formed limiter: the running total covers the counts of the slots still in the window (in the implementation the two are EQUAL
    between calls; `≥` is what the agreement needs and what is preserved). -/
def Limiter.WF (l : Limiter) : Prop := (l.slots.map (·.2)).sum ≤ l.bitTotal

end Isotp

namespace Isotp.PyAgree.Lim
open Isotp Isotp.Py Isotp.PyAgree

/-! ## 0. the model side -/

/-- sum of the counts of a slot list -/
def bitSum (sl : List (Nat × Nat)) : Nat := (sl.map (·.2)).sum

theorem bitSum_nil : bitSum [] = 0 := rfl
theorem bitSum_cons (t b : Nat) (rest : List (Nat × Nat)) : bitSum ((t, b) :: rest) = b + bitSum rest := by
  simp [bitSum]
theorem bitSum_append (a c : List (Nat × Nat)) : bitSum (a ++ c) = bitSum a + bitSum c := by
  simp [bitSum]

theorem wf_iff (l : Limiter) : l.WF ↔ bitSum l.slots ≤ l.bitTotal := Iff.rfl

/-- `expire` keeps the total above the sum of what is left -/
theorem expire_wf (w now : Nat) : ∀ (sl : List (Nat × Nat)) (bt : Nat), bitSum sl ≤ bt →
    bitSum (Limiter.expire w now sl bt).1 ≤ (Limiter.expire w now sl bt).2
  | [], bt, h => by simpa [Limiter.expire] using h
  | (t, b) :: rest, bt, h => by
    rw [bitSum_cons] at h
    unfold Limiter.expire
    split
    · exact expire_wf w now rest (bt - b) (by omega)
    · simpa [bitSum_cons] using h

/-- `expire` drops a prefix -/
theorem expire_suffix (w now : Nat) : ∀ (sl : List (Nat × Nat)) (bt : Nat),
    ∃ pre, sl = pre ++ (Limiter.expire w now sl bt).1 ∧ (∀ p ∈ pre, now - p.1 > w) ∧
      (Limiter.expire w now sl bt).2 = bt - bitSum pre ∧
      (∀ p, (Limiter.expire w now sl bt).1.head? = some p → ¬ now - p.1 > w)
  | [], bt => ⟨[], by simp [Limiter.expire, bitSum_nil]⟩
  | (t, b) :: rest, bt => by
    unfold Limiter.expire
    split
    · next hexp =>
      obtain ⟨pre, h1, h2, h3, h4⟩ := expire_suffix w now rest (bt - b)
      refine ⟨(t, b) :: pre, by rw [List.cons_append, ← h1], ?_, ?_, h4⟩
      · intro p hp
        rcases List.mem_cons.1 hp with rfl | hp
        · exact hexp
        · exact h2 p hp
      · rw [h3, bitSum_cons]; omega
    · next hexp =>
      exact ⟨[], by simp, by simp, by simp [bitSum_nil], by simpa using hexp⟩

/-- `addToLast` on a non-empty list, seen from its last slot -/
theorem addToLast_concat (now bits t b : Nat) : ∀ init : List (Nat × Nat),
    Limiter.addToLast now bits (init ++ [(t, b)]) =
      if now - t > slotNs then init ++ [(t, b), (now, bits)] else init ++ [(t, b + bits)]
  | [] => by simp [Limiter.addToLast]
  | [x] => by
    have : Limiter.addToLast now bits ([x] ++ [(t, b)]) = x :: Limiter.addToLast now bits ([] ++ [(t, b)]) := by
      simp [Limiter.addToLast]
    rw [this, addToLast_concat now bits t b []]
    split <;> rfl
  | x :: y :: rest => by
    have : Limiter.addToLast now bits ((x :: y :: rest) ++ [(t, b)]) = x :: Limiter.addToLast now bits ((y :: rest) ++ [(t, b)]) := by
      simp [Limiter.addToLast]
    rw [this, addToLast_concat now bits t b (y :: rest)]
    split <;> rfl

/-- **`addToLast` through `getLast?` / `dropLast`**: a new slot is opened iff the list is empty or its last slot is older than `slotNs`;
    otherwise the count of the last slot grows. -/
theorem addToLast_getLast (now bits : Nat) (sl : List (Nat × Nat)) :
    Limiter.addToLast now bits sl =
      match sl.getLast? with
      | none => [(now, bits)]
      | some (t, b) => if now - t > slotNs then sl ++ [(now, bits)] else sl.dropLast ++ [(t, b + bits)] := by
  rcases List.eq_nil_or_concat sl with rfl | ⟨init, ⟨t, b⟩, rfl⟩
  · rfl
  · simp only [List.concat_eq_append]
    rw [addToLast_concat]
    simp

theorem addToLast_bitSum (now bits : Nat) (sl : List (Nat × Nat)) :
    bitSum (Limiter.addToLast now bits sl) = bitSum sl + bits := by
  rcases List.eq_nil_or_concat sl with rfl | ⟨init, ⟨t, b⟩, rfl⟩
  · simp [Limiter.addToLast, bitSum]
  · simp only [List.concat_eq_append]
    rw [addToLast_concat]
    split <;> simp [bitSum] <;> omega

/-! ### `WF` is an invariant -/

theorem wf_default : (default : Limiter).WF := Nat.le_refl 0
theorem wf_init : ({} : Limiter).WF := Nat.le_refl 0
theorem wf_reset (l : Limiter) : l.reset.WF := by simp [Limiter.WF, Limiter.reset]
theorem wf_update (l : Limiter) (w now : Nat) (h : l.WF) : (l.update w now).WF := by
  unfold Limiter.update
  split
  · exact wf_reset l
  · exact expire_wf w now l.slots l.bitTotal h
theorem wf_inform (l : Limiter) (now datalen : Nat) (h : l.WF) : (l.inform now datalen).WF := by
  unfold Limiter.inform
  split
  · rw [wf_iff] at h ⊢
    simp only [addToLast_bitSum]
    omega
  · exact h

end Isotp.PyAgree.Lim
