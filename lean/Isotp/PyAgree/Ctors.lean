import Isotp.PyAgree.SockOpts
import Isotp.PyAgree.PyCan
import Isotp.PyAgree.SockGuards
import Isotp.Proofs.Sock
/-!
  Source agreement for the readers of the three SocketCAN option structs, and for the constructors / thin delegations around them:
  `isotp/tpsock/opts.py` (`assert_is_socket`, `GeneralOpts` / `FlowControlOpts` / `LinkLayerOpts` `.__init__` and `.read`),
  `isotp/tpsock/__init__.py` (`socket.__init__`, `settimeout`, `gettimeout`, `fileno`), `isotp/can_message.py` (`CanMessage.__init__`),
  `isotp/protocol.py` (`python_can_tx_canbus_3minus`, `_make_python_can_tx_func`, `CanStack.__init__`, `CanStack.set_bus`,
  `NotifierBasedCanStack.__init__`, `TransportLayer.Events.__init__`, `TransportLayerLogic._set_rxfn`).  First interpreter (`runFn`),
  FOR ALL INPUTS; the primitives of the object world are ARBITRARY functions wherever possible, so that a run equation of the form
  "`runFn … = do let d ← G [a, b, c]; …`" says: this primitive is applied exactly once, to exactly these arguments, at this point.

  ## Presentation

  1. readers (`readM isSock G`): the socket argument `s` is any value `v`; `isinstance(v, socket_module.socket)` is a predicate `isSock`;
     `assert_is_socket` is a `proc` DEFINED AS ITS OWN SOURCE (`assertIsSocket` runs `Src.module_assert_is_socket`;
     `assert_is_socket_agrees`); `cls()` is the fresh object `.meth "o"` (its fields are `None` by `*_init_agrees`; all of them are
     overwritten before anything reads them); `s.getsockopt` is ANY `G`; `struct.unpack` is `structUnpack`, the inverse of
     `SockOpts.structPack` (`structUnpack_pack_LLBBBB / _BBB / _L`: exact size or `struct.error`); the dumper's
     `"o.a,o.b,…:=__unpack__"` is `unpackProc` on the targets its name lists (`unpackName_gen / _fc / _ll` tie the names in the dump to
     the target lists by `decide`): `ValueError` on a length mismatch, otherwise the targets are bound in order.  Frame (`ReadFrame`):
     `SOL_CAN_ISOTP ↦ Sock.solCanIsotp` (as SockOpts.lean), the option number = the dumped module constant (`constEnv`),
     `cls.struct_size ↦ 12 / 3 / 3` (class bodies: `4 + 4 + 1 + 1 + 1 + 1`, `3`, `3`).
     Against the model: `kGetsockopt k` = the kernel's `getsockopt` on `Sock.Kernel` (the option's uapi layout cut to the buffer
     length; any other level / option is an error).
  2. `socket.__init__` (`sockInitM supported K ST`): `check_support()` raises `NotImplementedError` iff `¬ supported`; the local
     `from . import opts` (`__import__`) does nothing to the object; the kernel socket constructor is ANY `K`, `self.settimeout` ANY `ST`.
  3. `CanMessage.__init__`: no primitive.
  4. adapters: `can.Message(kw…)` ANY `K`, `owner.bus.send` ANY `S` (as PyCan.lean); `inspect.signature`, `__attr__`, `functools.partial`
     ANY `Sg`, `At`, `P`.
  5. `CanStack` / `NotifierBasedCanStack` (`stackM isBus isNotif MK D U B`): see the head of section 5; `recBase` is the recording base
     constructor of LayerInit.lean section 3 (same history key `#base_init.calls`).
  6. `threading.Event()` is the flag of a fresh event: `False`.

  ## Theorems

  1. `assert_is_socket_agrees`; `general_opts_read_run`, `flow_control_opts_read_run`, `link_layer_opts_read_run` (any `G`; the
     non-socket case is `ValueError` before anything else: `read_rejects_non_socket`); `general_opts_read_agrees`,
     `flow_control_opts_read_agrees`, `link_layer_opts_read_agrees` (kernel of the model: the attributes are `parseOpts (layoutOpts
     s.k.opts)` etc., field by field in the kernel's order) and `*_read_attrs` (these ARE the `o.*` bindings SockOpts.lean's `genEnv` /
     `fcEnv` / `llEnv` start `write` from); `*_read_src` (the dumped bodies are the common shape `readerBody` with option name, format
     string and target list as stated).  Section 7: `writeOpts_result`, `general_opts_read_after_write`, `writeOpts_keeps`,
     `writeFc_result`, `writeLl_result`, `flow_control_opts_read_after_write`, `link_layer_opts_read_after_write`.
  2. `general_opts_init_agrees`, `flow_control_opts_init_agrees`, `link_layer_opts_init_agrees`, `init_fields_are_read_targets`;
     `socket_init_agrees`, `socket_init_is_initial`, `socket_settimeout_agrees`, `socket_gettimeout_agrees`, `socket_fileno_agrees`.
  3. `can_message_init_agrees`, `can_message_init_shows`.
  4. `python_can_tx_3minus_agrees`, `python_can_tx_3minus_once`, `python_can_tx_3minus_same_values`, `kwName_3minus`,
     `kws3minus_no_dlc`, `kws3minus_vs_3plus`; `make_python_can_tx_func_src`, `make_python_can_tx_func_branches`, `memTest_eval`,
     `make_python_can_tx_func_agrees`, `make_python_can_tx_func_choice` (the membership test `'is_extended_id' in message_input_args`
     is dumped as the mapping's `__contains__`; the gap reported earlier as `make_python_can_tx_func_in_gap` is closed).
  5. `can_stack_set_bus_agrees`, `can_stack_init_agrees`, `notifier_stack_init_agrees`, `can_stack_init_calls_base_once`.
  6. `events_init_agrees`, `events_init_shows_cleared`, `events_init_obj`, `set_rxfn_agrees`.
  Section 8: one non-vacuity `example` per group.
-/
set_option linter.unusedSimpArgs false
set_option linter.unusedVariables false

namespace Isotp.PyAgree.Ctors
open Isotp Isotp.Py Isotp.PyAgree
open Isotp.Sock hiding bind close
open Isotp.PyAgree.SockOpts Isotp.PyAgree.PyCan

/-! ## 0. infrastructure -/

theorem nb (fn : String) (h : fn ∉ builtinNames) (vs : List PV) : evalBuiltin fn vs = none := evalBuiltin_none fn vs h

/-- bind the targets to the elements, left to right -/
def bindAll : List String → List Sc → Env → Env
  | t :: ts, x :: xs, env => bindAll ts xs (env.set t (.sc x))
  | _, _, env => env

theorem bindAll_other (ts : List String) (xs : List Sc) (env : Env) (k : String) (h : k ∉ ts) : bindAll ts xs env k = env k := by
  induction ts generalizing xs env with
  | nil => cases xs <;> rfl
  | cons t ts ih =>
    cases xs with
    | nil => rfl
    | cons x xs =>
      simp only [List.mem_cons, not_or] at h
      rw [bindAll, ih _ _ h.2, set_get, if_neg h.1]

/-- `a, b, ... = v` (the dumper's procedure `"a,b,...:=__unpack__"`): `v` must be a sequence of exactly as many elements as there are
    targets (`ValueError: too many / not enough values to unpack` otherwise); then every target is bound, in order -/
def unpackProc (targets : List String) : List PV → Env → Except PErr Env
  | [.list xs], env => if xs.length = targets.length then .ok (bindAll targets xs env) else .error (.exc .ValueError)
  | [_], _ => .error (.exc .TypeError)
  | _, _ => .error (.unsupported "__unpack__: arity")

/-- the name the dumper gives the unpacking of a tuple into `targets` -/
def unpackName (targets : List String) : String := String.intercalate "," targets ++ ":=__unpack__"

/-! ## 1. `assert_is_socket`, `GeneralOpts.read`, `FlowControlOpts.read`, `LinkLayerOpts.read` (isotp/tpsock/opts.py) -/

/-- `isinstance(x, socket_module.socket)`: a predicate `isSock` on values -/
def isinstM (isSock : PV → Bool) : Meths where
  fn n args _ :=
    match n, args with
    | "isinstance_socket", [v] => .ok (pbool (isSock v))
    | n, _ => .error (.unsupported ("call " ++ n))
  proc n _ _ := .error (.unsupported ("call " ++ n))

/-- **`assert_is_socket(s)`**: `ValueError` for anything that is not a socket, nothing otherwise -/
theorem assert_is_socket_agrees (isSock : PV → Bool) (env : Env) (v : PV) (h : env "s" = some v) :
    runFn (isinstM isSock) env Src.module_assert_is_socket =
      if isSock v then .ok (pnone, env) else .error (.exc .ValueError) := by
  cases hv : isSock v <;>
    simp [runFn, Src.module_assert_is_socket, execBlock, execStmt, eval, evalArgs, h, nb "isinstance_socket" (by decide), isinstM, hv]

/-- the callee `assert_is_socket(v)` of the readers: ITS OWN SOURCE, run on a fresh frame holding the argument -/
def assertIsSocket (isSock : PV → Bool) : List PV → Env → Except PErr Env
  | [v], env => (runFn (isinstM isSock) (fun k => if k = "s" then some v else none) Src.module_assert_is_socket).map (fun _ => env)
  | _, _ => .error (.exc .TypeError)

theorem assertIsSocket_eq (isSock : PV → Bool) (v : PV) (env : Env) :
    assertIsSocket isSock [v] env = if isSock v then .ok env else .error (.exc .ValueError) := by
  rw [assertIsSocket, assert_is_socket_agrees isSock _ v (by simp)]
  cases isSock v <;> rfl

/-- `struct.unpack` on the formats the option structs use: the INVERSE of `SockOpts.structPack` (`structUnpack_pack_*` below): the buffer
    must have exactly the size of the format (`struct.error` otherwise), and the fields are read in order, little-endian, unaligned -/
def structUnpack : List PV → Except PErr PV
  | [.str fmt, .bytes d] =>
    if fmt = "=LLBBBB" then
      if d.length = 12 then
        .ok (.list [.py (.int (rd32 d 0)), .py (.int (rd32 d 4)), .py (.int (byteAt d 8)), .py (.int (byteAt d 9)),
          .py (.int (byteAt d 10)), .py (.int (byteAt d 11))])
      else .error (.unsupported "struct.error")
    else if fmt = "=BBB" then
      if d.length = 3 then .ok (.list [.py (.int (byteAt d 0)), .py (.int (byteAt d 1)), .py (.int (byteAt d 2))])
      else .error (.unsupported "struct.error")
    else if fmt = "=L" then
      if d.length = 4 then .ok (.list [.py (.int (rd32 d 0))]) else .error (.unsupported "struct.error")
    else .error (.unsupported "struct.unpack: format")
  | _ => .error (.unsupported "struct.unpack: arguments")

theorem length_layoutOpts (o : KOpts) : (layoutOpts o).length = 12 := by simp [layoutOpts, le32]
theorem length_layoutFc (o : KFc) : (layoutFc o).length = 3 := rfl
theorem length_layoutLl (o : KLl) : (layoutLl o).length = 3 := rfl

theorem structUnpack_opts (d : Bytes) (h : d.length = 12) :
    structUnpack [.str "=LLBBBB", .bytes d] =
      .ok (.list [.py (.int (parseOpts d).flags), .py (.int (parseOpts d).frameTxtime), .py (.int (parseOpts d).extAddress),
        .py (.int (parseOpts d).txpad), .py (.int (parseOpts d).rxpad), .py (.int (parseOpts d).rxExtAddress)]) := by
  simp [structUnpack, h, parseOpts]

theorem structUnpack_fc (d : Bytes) (h : d.length = 3) :
    structUnpack [.str "=BBB", .bytes d] =
      .ok (.list [.py (.int (parseFc d).bs), .py (.int (parseFc d).stmin), .py (.int (parseFc d).wftmax)]) := by
  simp [structUnpack, h, parseFc]

theorem structUnpack_ll (d : Bytes) (h : d.length = 3) :
    structUnpack [.str "=BBB", .bytes d] =
      .ok (.list [.py (.int (parseLl d).mtu), .py (.int (parseLl d).txDl), .py (.int (parseLl d).txFlags)]) := by
  simp [structUnpack, h, parseLl]

theorem packArg_some (v : PV) (hi : Int) (n : Nat) (h : packArg v hi = some n) : asInt v = some (n : Int) ∧ (n : Int) ≤ hi := by
  unfold packArg at h
  split at h
  · rename_i i hi'
    split at h
    · rename_i hb
      injection h with h
      subst h
      rw [hi', Int.toNat_of_nonneg hb.1]
      exact ⟨rfl, hb.2⟩
    · cases h
  · cases h

/-- **`struct.unpack` undoes `struct.pack`** (`"=LLBBBB"`): whatever `SockOpts.structPack` accepts (six integers, `bool` counts, each in
    the range of its field) comes back, field for field, in the same order -/
theorem structUnpack_pack_LLBBBB (a b c d e f : PV) (r : PV) (h : structPack [.str "=LLBBBB", a, b, c, d, e, f] = .ok r) :
    ∃ n1 n2 n3 n4 n5 n6 : Nat, asInt a = some (n1 : Int) ∧ asInt b = some (n2 : Int) ∧ asInt c = some (n3 : Int) ∧
      asInt d = some (n4 : Int) ∧ asInt e = some (n5 : Int) ∧ asInt f = some (n6 : Int) ∧
      structUnpack [.str "=LLBBBB", r] =
        .ok (.list [.py (.int n1), .py (.int n2), .py (.int n3), .py (.int n4), .py (.int n5), .py (.int n6)]) := by
  simp only [structPack, if_true] at h
  split at h
  · rename_i n1 n2 n3 n4 n5 n6 h1 h2 h3 h4 h5 h6
    obtain ⟨a1, b1⟩ := packArg_some _ _ _ h1
    obtain ⟨a2, b2⟩ := packArg_some _ _ _ h2
    obtain ⟨a3, b3⟩ := packArg_some _ _ _ h3
    obtain ⟨a4, b4⟩ := packArg_some _ _ _ h4
    obtain ⟨a5, b5⟩ := packArg_some _ _ _ h5
    obtain ⟨a6, b6⟩ := packArg_some _ _ _ h6
    injection h with h
    subst h
    refine ⟨n1, n2, n3, n4, n5, n6, a1, a2, a3, a4, a5, a6, ?_⟩
    rw [structUnpack_opts _ (length_layoutOpts _),
      parse_layout_opts _ ⟨by show n1 < 2^32; omega, by show n2 < 2^32; omega, by show n3 < 256; omega, by show n4 < 256; omega,
        by show n5 < 256; omega, by show n6 < 256; omega⟩]
  · cases h

/-- the same for `"=BBB"` (`FlowControlOpts`, `LinkLayerOpts`) -/
theorem structUnpack_pack_BBB (a b c : PV) (r : PV) (h : structPack [.str "=BBB", a, b, c] = .ok r) :
    ∃ n1 n2 n3 : Nat, asInt a = some (n1 : Int) ∧ asInt b = some (n2 : Int) ∧ asInt c = some (n3 : Int) ∧
      structUnpack [.str "=BBB", r] = .ok (.list [.py (.int n1), .py (.int n2), .py (.int n3)]) := by
  simp only [structPack, if_true] at h
  split at h
  · rename_i n1 n2 n3 h1 h2 h3
    obtain ⟨a1, b1⟩ := packArg_some _ _ _ h1
    obtain ⟨a2, b2⟩ := packArg_some _ _ _ h2
    obtain ⟨a3, b3⟩ := packArg_some _ _ _ h3
    injection h with h
    subst h
    refine ⟨n1, n2, n3, a1, a2, a3, ?_⟩
    have := parse_layout_fc ⟨n1, n2, n3⟩ ⟨by show n1 < 256; omega, by show n2 < 256; omega, by show n3 < 256; omega⟩
    have e : ([u8 n1, u8 n2, u8 n3] : Bytes) = layoutFc ⟨n1, n2, n3⟩ := rfl
    rw [e, structUnpack_fc _ rfl, this]
  · cases h

/-- the same for `"=L"` (`tx_stmin`) -/
theorem structUnpack_pack_L (a : PV) (r : PV) (h : structPack [.str "=L", a] = .ok r) :
    ∃ n : Nat, asInt a = some (n : Int) ∧ structUnpack [.str "=L", r] = .ok (.list [.py (.int n)]) := by
  simp only [structPack, if_true] at h
  split at h
  · rename_i n h1
    obtain ⟨a1, b1⟩ := packArg_some _ _ _ h1
    injection h with h
    subst h
    refine ⟨n, a1, ?_⟩
    have hl : (le32 n).length = 4 := rfl
    simp [structUnpack, hl, rd32_le32 n (by omega)]
  · cases h

/-- the attributes the three readers bind, in the order of the tuple on the left of `= struct.unpack(...)` -/
def genTargets : List String := ["o.optflag", "o.frame_txtime", "o.ext_address", "o.txpad", "o.rxpad", "o.rx_ext_address"]
def fcTargets : List String := ["o.bs", "o.stmin", "o.wftmax"]
def llTargets : List String := ["o.mtu", "o.tx_dl", "o.tx_flags"]

/-- the names of the three unpacking procedures in the dump ARE the comma-separated target lists -/
theorem unpackName_gen :
    unpackName genTargets = "o.optflag,o.frame_txtime,o.ext_address,o.txpad,o.rxpad,o.rx_ext_address:=__unpack__" := by decide
theorem unpackName_fc : unpackName fcTargets = "o.bs,o.stmin,o.wftmax:=__unpack__" := by decide
theorem unpackName_ll : unpackName llTargets = "o.mtu,o.tx_dl,o.tx_flags:=__unpack__" := by decide

/-- the world of the readers: `cls()` is a fresh object `.meth "o"`; `s.getsockopt` is ANY function `G` of its argument list;
    `struct.unpack` is `structUnpack`; `assert_is_socket` is its own source (`assertIsSocket`); the unpacking of the tuple is `unpackProc`
    on the targets its name lists -/
def readM (isSock : PV → Bool) (G : List PV → Except PErr PV) : Meths where
  fn n args _ :=
    if n = "cls" then (match args with | [] => .ok (.meth "o") | _ => .error (.exc .TypeError))
    else if n = "s.getsockopt" then G args
    else if n = "struct.unpack" then structUnpack args
    else .error (.unsupported ("call " ++ n))
  proc n args env :=
    if n = "assert_is_socket" then assertIsSocket isSock args env
    else if n = unpackName genTargets then unpackProc genTargets args env
    else if n = unpackName fcTargets then unpackProc fcTargets args env
    else if n = unpackName llTargets then unpackProc llTargets args env
    else .error (.unsupported ("call " ++ n))

section readMLookups
variable (isSock : PV → Bool) (G : List PV → Except PErr PV) (vs : List PV) (env : Env)
theorem readM_cls : (readM isSock G).fn "cls" [] env = .ok (.meth "o") := by simp [readM]
theorem readM_gso : (readM isSock G).fn "s.getsockopt" vs env = G vs := by simp [readM]
theorem readM_unpack : (readM isSock G).fn "struct.unpack" vs env = structUnpack vs := by simp [readM]
theorem readM_assert : (readM isSock G).proc "assert_is_socket" vs env = assertIsSocket isSock vs env := by simp [readM]
theorem readM_gen : (readM isSock G).proc (unpackName genTargets) vs env = unpackProc genTargets vs env := by
  simp [readM, unpackName_gen]
theorem readM_fc : (readM isSock G).proc (unpackName fcTargets) vs env = unpackProc fcTargets vs env := by
  simp [readM, unpackName_gen, unpackName_fc]
theorem readM_ll : (readM isSock G).proc (unpackName llTargets) vs env = unpackProc llTargets vs env := by
  simp [readM, unpackName_gen, unpackName_fc, unpackName_ll]
end readMLookups

/-- what a reader's frame must hold: the argument `s`, the module constants (`SOL_CAN_ISOTP = SOL_CAN_BASE + CAN_ISOTP` is computed at
    import time: `Sock.solCanIsotp`, as in SockOpts.lean; the option number is the dumped module constant), and the class attribute
    `struct_size` (`4 + 4 + 1 + 1 + 1 + 1` resp. `3` in the class bodies) -/
structure ReadFrame (env : Env) (v : PV) (optName : String) (size : Nat) : Prop where
  s : env "s" = some v
  sol : env "SOL_CAN_ISOTP" = some (pint (solCanIsotp : Nat))
  opt : env optName = constEnv optName
  size : env "cls.struct_size" = some (pint (size : Nat))

/-- the run of a reader after its prologue, for the result `d` of `getsockopt`: unpack, bind, return the object -/
def readTail (fmt : String) (targets : List String) (G : List PV → Except PErr PV) (optNo size : Nat) (env : Env) :
    Except PErr (PV × Env) := do
  let d ← G [pint (solCanIsotp : Nat), pint (optNo : Nat), pint (size : Nat)]
  let xs ← structUnpack [.str fmt, d]
  let env' ← unpackProc targets [xs] ((env.set "o" (.meth "o")).set "opt" d)
  .ok (.meth "o", env')

theorem unpackProc_o (targets : List String) (h : "o" ∉ targets) (vs : List PV) (env env' : Env)
    (hu : unpackProc targets vs env = .ok env') : env' "o" = env "o" := by
  unfold unpackProc at hu
  split at hu
  · split at hu
    · injection hu with hu; subst hu; exact bindAll_other _ _ _ _ h
    · cases hu
  · cases hu
  · cases hu

/-- the common shape of the three readers -/
def readerBody (optName fmt unpackNm : String) : PBlock :=
  .cons (.expr (.call "assert_is_socket" (.cons (.var "s") .nil)))
  (.cons (.assign "o" (.call "cls" .nil))
  (.cons (.assign "opt" (.call "s.getsockopt" (.cons (.var "SOL_CAN_ISOTP") (.cons (.var optName) (.cons (.var "cls.struct_size") .nil)))))
  (.cons (.expr (.call unpackNm (.cons (.call "struct.unpack" (.cons (.strLit fmt) (.cons (.var "opt") .nil))) .nil)))
  (.cons (.ret (.var "o")) .nil))))

/-- the dumped sources ARE that shape, with these option names, format strings and target lists -/
theorem general_opts_read_src : Src.GeneralOpts_read = readerBody "CAN_ISOTP_OPTS" "=LLBBBB" (unpackName genTargets) := by
  rw [unpackName_gen]; rfl
theorem flow_control_opts_read_src : Src.FlowControlOpts_read = readerBody "CAN_ISOTP_RECV_FC" "=BBB" (unpackName fcTargets) := by
  rw [unpackName_fc]; rfl
theorem link_layer_opts_read_src : Src.LinkLayerOpts_read = readerBody "CAN_ISOTP_LL_OPTS" "=BBB" (unpackName llTargets) := by
  rw [unpackName_ll]; rfl

theorem reader_run (isSock : PV → Bool) (G : List PV → Except PErr PV) (optName fmt : String) (targets : List String)
    (optNo size : Nat) (env : Env) (v : PV)
    (hn : unpackName targets ∉ builtinNames)
    (hp : ∀ vs e, (readM isSock G).proc (unpackName targets) vs e = unpackProc targets vs e)
    (ho : "o" ∉ targets) (hne : optName ≠ "o")
    (h1 : env "s" = some v) (h2 : env "SOL_CAN_ISOTP" = some (pint (solCanIsotp : Nat)))
    (h3 : env optName = some (pint (optNo : Nat))) (h4 : env "cls.struct_size" = some (pint (size : Nat))) :
    runFn (readM isSock G) env (readerBody optName fmt (unpackName targets)) =
      if isSock v then readTail fmt targets G optNo size env else .error (.exc .ValueError) := by
  unfold readerBody
  cases hv : isSock v
  · have s1 : execStmt (readM isSock G) env (.expr (.call "assert_is_socket" (.cons (.var "s") .nil))) = .error (.exc .ValueError) := by
      simp [execStmt, evalArgs, eval, h1, nb "assert_is_socket" (by decide), readM_assert, assertIsSocket_eq, hv]
    simp [runFn, execBlock, s1]
  · have s1 : execStmt (readM isSock G) env (.expr (.call "assert_is_socket" (.cons (.var "s") .nil))) = .ok (.next env) := by
      simp [execStmt, evalArgs, eval, h1, nb "assert_is_socket" (by decide), readM_assert, assertIsSocket_eq, hv]
    have s2 : execStmt (readM isSock G) env (.assign "o" (.call "cls" .nil)) = .ok (.next (env.set "o" (.meth "o"))) := by
      simp [execStmt, evalArgs, eval, nb "cls" (by decide), readM_cls]
    have e3 : eval (readM isSock G) (env.set "o" (.meth "o"))
        (.call "s.getsockopt" (.cons (.var "SOL_CAN_ISOTP") (.cons (.var optName) (.cons (.var "cls.struct_size") .nil)))) =
        G [pint (solCanIsotp : Nat), pint (optNo : Nat), pint (size : Nat)] := by
      simp [eval, evalArgs, set_get, hne, h2, h3, h4, nb "s.getsockopt" (by decide), readM_gso]
    rw [runFn, execBlock_cons_ok _ _ _ _ _ s1, execBlock_cons_ok _ _ _ _ _ s2]
    simp only [if_true, readTail]
    cases hG : G [pint (solCanIsotp : Nat), pint (optNo : Nat), pint (size : Nat)] with
    | error e => simp [execBlock, execStmt, e3, hG]
    | ok d =>
      have s3 : execStmt (readM isSock G) (env.set "o" (.meth "o")) (.assign "opt" (.call "s.getsockopt" (.cons (.var "SOL_CAN_ISOTP")
          (.cons (.var optName) (.cons (.var "cls.struct_size") .nil))))) = .ok (.next ((env.set "o" (.meth "o")).set "opt" d)) := by
        simp [execStmt, e3, hG]
      rw [execBlock_cons_ok _ _ _ _ _ s3]
      have e4 : evalArgs (readM isSock G) ((env.set "o" (.meth "o")).set "opt" d)
          (.cons (.call "struct.unpack" (.cons (.strLit fmt) (.cons (.var "opt") .nil))) .nil) =
          (structUnpack [.str fmt, d] >>= fun xs => .ok [xs]) := by
        simp [eval, evalArgs, set_get, nb "struct.unpack" (by decide), readM_unpack]
      cases hU : structUnpack [.str fmt, d] with
      | error e => simp [execBlock, execStmt, e4, hU]
      | ok xs =>
        cases hP : unpackProc targets [xs] ((env.set "o" (.meth "o")).set "opt" d) with
        | error e => simp [execBlock, execStmt, e4, hU, nb _ hn, hp, hP]
        | ok env' =>
          have hoo : env' "o" = some (.meth "o") := by
            rw [unpackProc_o targets ho _ _ _ hP]; simp [set_get]
          simp [execBlock, execStmt, e4, hU, nb _ hn, hp, hP, eval, hoo]

/-- **`GeneralOpts.read(s)`**: `ValueError` for a non-socket (nothing else happens); otherwise ONE `s.getsockopt(SOL_CAN_ISOTP,
    CAN_ISOTP_OPTS (= 1), cls.struct_size (= 12))`, its result unpacked with `"=LLBBBB"` into `o.optflag, o.frame_txtime, o.ext_address,
    o.txpad, o.rxpad, o.rx_ext_address` of the fresh object `o`, which is returned.  For ANY semantics `G` of `getsockopt`. -/
theorem general_opts_read_run (isSock : PV → Bool) (G : List PV → Except PErr PV) (env : Env) (v : PV)
    (hF : ReadFrame env v "CAN_ISOTP_OPTS" 12) :
    runFn (readM isSock G) env Src.GeneralOpts_read =
      if isSock v then readTail "=LLBBBB" genTargets G optOPTS 12 env else .error (.exc .ValueError) := by
  rw [general_opts_read_src]
  exact reader_run isSock G _ _ genTargets optOPTS 12 env v (by rw [unpackName_gen]; decide) (readM_gen isSock G) (by decide) (by decide)
    hF.s hF.sol hF.opt hF.size

/-- **`FlowControlOpts.read(s)`**: the same with `CAN_ISOTP_RECV_FC (= 2)`, size `3`, format `"=BBB"`, into `o.bs, o.stmin, o.wftmax`
    (the kernel's field order of `struct can_isotp_fc_options`) -/
theorem flow_control_opts_read_run (isSock : PV → Bool) (G : List PV → Except PErr PV) (env : Env) (v : PV)
    (hF : ReadFrame env v "CAN_ISOTP_RECV_FC" 3) :
    runFn (readM isSock G) env Src.FlowControlOpts_read =
      if isSock v then readTail "=BBB" fcTargets G optRECV_FC 3 env else .error (.exc .ValueError) := by
  rw [flow_control_opts_read_src]
  exact reader_run isSock G _ _ fcTargets optRECV_FC 3 env v (by rw [unpackName_fc]; decide) (readM_fc isSock G) (by decide) (by decide)
    hF.s hF.sol hF.opt hF.size

/-- **`LinkLayerOpts.read(s)`**: the same with `CAN_ISOTP_LL_OPTS (= 5)`, size `3`, format `"=BBB"`, into `o.mtu, o.tx_dl, o.tx_flags`
    (the kernel's field order of `struct can_isotp_ll_options`) -/
theorem link_layer_opts_read_run (isSock : PV → Bool) (G : List PV → Except PErr PV) (env : Env) (v : PV)
    (hF : ReadFrame env v "CAN_ISOTP_LL_OPTS" 3) :
    runFn (readM isSock G) env Src.LinkLayerOpts_read =
      if isSock v then readTail "=BBB" llTargets G optLL_OPTS 3 env else .error (.exc .ValueError) := by
  rw [link_layer_opts_read_src]
  exact reader_run isSock G _ _ llTargets optLL_OPTS 3 env v (by rw [unpackName_ll]; decide) (readM_ll isSock G) (by decide) (by decide)
    hF.s hF.sol hF.opt hF.size

/-! ### against the kernel of the model (`Sock.Kernel`) -/

/-- the kernel's `getsockopt(level, optname, buflen)` on an ISO-TP socket: at level `SOL_CAN_ISOTP` the option's struct in the uapi
    layout (`layoutOpts` / `layoutFc` / `layoutLl`, the layouts `Kernel.setsockopt` parses), cut to `buflen` bytes
    (`len = min(len, sizeof(struct))` in `isotp_getsockopt`); any other level / option / argument shape is an error (never a default) -/
def kGetsockopt (k : Kernel) : List PV → Except PErr PV
  | [.sc (.py (.int lvl)), .sc (.py (.int opt)), .sc (.py (.int n))] =>
    if lvl = (solCanIsotp : Nat) ∧ 0 ≤ n then
      if opt = (optOPTS : Nat) then .ok (.bytes ((layoutOpts k.opts).take n.toNat))
      else if opt = (optRECV_FC : Nat) then .ok (.bytes ((layoutFc k.fc).take n.toNat))
      else if opt = (optLL_OPTS : Nat) then .ok (.bytes ((layoutLl k.ll).take n.toNat))
      else .error (.unsupported "getsockopt: option")
    else .error (.unsupported "getsockopt: level / length")
  | _ => .error (.unsupported "getsockopt: argument types")

theorem kGetsockopt_opts (k : Kernel) :
    kGetsockopt k [pint (solCanIsotp : Nat), pint (optOPTS : Nat), pint ((12 : Nat) : Int)] = .ok (.bytes (layoutOpts k.opts)) := by
  have : (layoutOpts k.opts).take 12 = layoutOpts k.opts := List.take_of_length_le (by rw [length_layoutOpts]; omega)
  simp [kGetsockopt, optOPTS, this]
theorem kGetsockopt_fc (k : Kernel) :
    kGetsockopt k [pint (solCanIsotp : Nat), pint (optRECV_FC : Nat), pint ((3 : Nat) : Int)] = .ok (.bytes (layoutFc k.fc)) := by
  simp [kGetsockopt, optOPTS, optRECV_FC, layoutFc]
theorem kGetsockopt_ll (k : Kernel) :
    kGetsockopt k [pint (solCanIsotp : Nat), pint (optLL_OPTS : Nat), pint ((3 : Nat) : Int)] = .ok (.bytes (layoutLl k.ll)) := by
  simp [kGetsockopt, optOPTS, optRECV_FC, optLL_OPTS, layoutLl]

/-- the environment a reader leaves: the object, the raw bytes, and the attributes -/
def afterRead (env : Env) (d : Bytes) (targets : List String) (vals : List Nat) : Env :=
  bindAll targets (vals.map fun n => .py (.int (n : Nat))) ((env.set "o" (.meth "o")).set "opt" (.bytes d))

/-- **`GeneralOpts.read` on a kernel socket of the model**: it returns the object `o` whose six attributes hold
    `parseOpts (layoutOpts s.k.opts)`, field by field (`optflag = flags`, `frame_txtime`, `ext_address`, `txpad`, `rxpad`,
    `rx_ext_address`): the values SockOpts.lean's `genEnv` presents `cls.read(s)` with -/
theorem general_opts_read_agrees (isSock : PV → Bool) (s : Sock) (env : Env) (v : PV) (hF : ReadFrame env v "CAN_ISOTP_OPTS" 12)
    (hv : isSock v = true) :
    runFn (readM isSock (kGetsockopt s.k)) env Src.GeneralOpts_read =
      .ok (.meth "o", afterRead env (layoutOpts s.k.opts) genTargets
        [(parseOpts (layoutOpts s.k.opts)).flags, (parseOpts (layoutOpts s.k.opts)).frameTxtime,
         (parseOpts (layoutOpts s.k.opts)).extAddress, (parseOpts (layoutOpts s.k.opts)).txpad,
         (parseOpts (layoutOpts s.k.opts)).rxpad, (parseOpts (layoutOpts s.k.opts)).rxExtAddress]) := by
  rw [general_opts_read_run isSock _ env v hF, hv, if_pos rfl, readTail, kGetsockopt_opts]
  simp only [ok_bind]
  rw [structUnpack_opts _ (length_layoutOpts _)]
  simp [unpackProc, genTargets, afterRead]

theorem flow_control_opts_read_agrees (isSock : PV → Bool) (s : Sock) (env : Env) (v : PV)
    (hF : ReadFrame env v "CAN_ISOTP_RECV_FC" 3) (hv : isSock v = true) :
    runFn (readM isSock (kGetsockopt s.k)) env Src.FlowControlOpts_read =
      .ok (.meth "o", afterRead env (layoutFc s.k.fc) fcTargets
        [(parseFc (layoutFc s.k.fc)).bs, (parseFc (layoutFc s.k.fc)).stmin, (parseFc (layoutFc s.k.fc)).wftmax]) := by
  rw [flow_control_opts_read_run isSock _ env v hF, hv, if_pos rfl, readTail, kGetsockopt_fc]
  simp only [ok_bind]
  rw [structUnpack_fc _ (length_layoutFc _)]
  simp [unpackProc, fcTargets, afterRead]

theorem link_layer_opts_read_agrees (isSock : PV → Bool) (s : Sock) (env : Env) (v : PV)
    (hF : ReadFrame env v "CAN_ISOTP_LL_OPTS" 3) (hv : isSock v = true) :
    runFn (readM isSock (kGetsockopt s.k)) env Src.LinkLayerOpts_read =
      .ok (.meth "o", afterRead env (layoutLl s.k.ll) llTargets
        [(parseLl (layoutLl s.k.ll)).mtu, (parseLl (layoutLl s.k.ll)).txDl, (parseLl (layoutLl s.k.ll)).txFlags]) := by
  rw [link_layer_opts_read_run isSock _ env v hF, hv, if_pos rfl, readTail, kGetsockopt_ll]
  simp only [ok_bind]
  rw [structUnpack_ll _ (length_layoutLl _)]
  simp [unpackProc, llTargets, afterRead]

/-- a non-socket is refused before anything else happens, whatever `getsockopt` would do -/
theorem read_rejects_non_socket (isSock : PV → Bool) (G : List PV → Except PErr PV) (env : Env) (v : PV)
    (hF : ReadFrame env v "CAN_ISOTP_OPTS" 12) (hv : isSock v = false) :
    runFn (readM isSock G) env Src.GeneralOpts_read = .error (.exc .ValueError) := by
  rw [general_opts_read_run isSock G env v hF, hv]; rfl

/-- the attributes after `GeneralOpts.read`, one by one: exactly the bindings `SockOpts.genEnv` starts `write` with -/
theorem general_opts_read_attrs (s : Sock) (a : OptsArgs) (env : Env) :
    ∀ k ∈ genTargets, afterRead env (layoutOpts s.k.opts) genTargets
        [(parseOpts (layoutOpts s.k.opts)).flags, (parseOpts (layoutOpts s.k.opts)).frameTxtime,
         (parseOpts (layoutOpts s.k.opts)).extAddress, (parseOpts (layoutOpts s.k.opts)).txpad,
         (parseOpts (layoutOpts s.k.opts)).rxpad, (parseOpts (layoutOpts s.k.opts)).rxExtAddress] k = genEnv s a k := by
  intro k hk
  simp only [genTargets, List.mem_cons, List.not_mem_nil, or_false] at hk
  rcases hk with rfl | rfl | rfl | rfl | rfl | rfl <;>
    simp [afterRead, genTargets, bindAll, set_get, genEnv_o_optflag, genEnv_o_frame_txtime, genEnv_o_ext_address, genEnv_o_txpad,
      genEnv_o_rxpad, genEnv_o_rx_ext_address]

theorem flow_control_opts_read_attrs (s : Sock) (x y z : PyVal) (env : Env) :
    ∀ k ∈ fcTargets, afterRead env (layoutFc s.k.fc) fcTargets
        [(parseFc (layoutFc s.k.fc)).bs, (parseFc (layoutFc s.k.fc)).stmin, (parseFc (layoutFc s.k.fc)).wftmax] k = fcEnv s x y z k := by
  intro k hk
  simp only [fcTargets, List.mem_cons, List.not_mem_nil, or_false] at hk
  rcases hk with rfl | rfl | rfl <;> simp [afterRead, fcTargets, bindAll, set_get, fcEnv_o1, fcEnv_o2, fcEnv_o3]

theorem link_layer_opts_read_attrs (s : Sock) (x y z : PyVal) (env : Env) :
    ∀ k ∈ llTargets, afterRead env (layoutLl s.k.ll) llTargets
        [(parseLl (layoutLl s.k.ll)).mtu, (parseLl (layoutLl s.k.ll)).txDl, (parseLl (layoutLl s.k.ll)).txFlags] k = llEnv s x y z k := by
  intro k hk
  simp only [llTargets, List.mem_cons, List.not_mem_nil, or_false] at hk
  rcases hk with rfl | rfl | rfl <;> simp [afterRead, llTargets, bindAll, set_get, llEnv_o1, llEnv_o2, llEnv_o3]

/-! ## 2. the constructors of the option structs and of the socket wrapper -/

/-- **`GeneralOpts.__init__`**: every field is `None` (nothing else is touched, no method is called) -/
theorem general_opts_init_agrees (M : Meths) (env : Env) :
    runFn M env Src.GeneralOpts_init =
      .ok (pnone, (((((env.set "self.optflag" pnone).set "self.frame_txtime" pnone).set "self.ext_address" pnone).set
        "self.txpad" pnone).set "self.rxpad" pnone).set "self.rx_ext_address" pnone) := by
  simp [runFn, Src.GeneralOpts_init, execBlock, execStmt, eval]

/-- **`FlowControlOpts.__init__`** -/
theorem flow_control_opts_init_agrees (M : Meths) (env : Env) :
    runFn M env Src.FlowControlOpts_init =
      .ok (pnone, ((env.set "self.stmin" pnone).set "self.bs" pnone).set "self.wftmax" pnone) := by
  simp [runFn, Src.FlowControlOpts_init, execBlock, execStmt, eval]

/-- **`LinkLayerOpts.__init__`** -/
theorem link_layer_opts_init_agrees (M : Meths) (env : Env) :
    runFn M env Src.LinkLayerOpts_init =
      .ok (pnone, ((env.set "self.mtu" pnone).set "self.tx_dl" pnone).set "self.tx_flags" pnone) := by
  simp [runFn, Src.LinkLayerOpts_init, execBlock, execStmt, eval]

/-- the fields each `__init__` creates are exactly the attributes its `read` binds (with `self` = the fresh object `o`) -/
theorem init_fields_are_read_targets :
    genTargets = ["optflag", "frame_txtime", "ext_address", "txpad", "rxpad", "rx_ext_address"].map ("o." ++ ·) ∧
    fcTargets.Perm (["stmin", "bs", "wftmax"].map ("o." ++ ·)) ∧
    llTargets = ["mtu", "tx_dl", "tx_flags"].map ("o." ++ ·) := by decide

/-- Python's `timeout is not None and timeout > 0`, on a value: `False` for `None`, the order comparison with `0` for a number
    (`int`, `bool`, `float`, infinities; `nan > 0` is `False`), `TypeError` for anything else -/
def timeoutCond (v : PyVal) : Except PErr Bool :=
  if v.isNone then .ok false else if isNumber v then numLt (.int 0) v else .error (.exc .TypeError)

theorem timeoutCond_int (i : Int) : timeoutCond (.int i) = .ok (decide (0 < i)) := by
  simp [timeoutCond, PyVal.isNone, isNumber, numLt, PyVal.isInt, PyVal.intVal]
  congr
theorem timeoutCond_float (n : Int) (d : Nat) : timeoutCond (.float n d) = .ok (decide (0 < n)) := by
  simp [timeoutCond, PyVal.isNone, isNumber, numLt, PyVal.isInt, PyVal.intVal]
theorem timeoutCond_none : timeoutCond .none = .ok false := rfl

theorem eval_timeoutCond (M : Meths) (env : Env) (v : PyVal) (h : env "timeout" = some (.sc (.py v))) :
    (eval M env (.and_ (.isNotNone (.var "timeout")) (.cmp .gt (.var "timeout") (.int 0))) >>= truthy) = timeoutCond v := by
  cases v <;> simp [eval, h, timeoutCond, PyVal.isNone, isNumber, numLt, evalCmp, PyVal.isInt, PyVal.intVal, pnone, pint] <;> rfl

/-- the world of `socket.__init__`: `check_support()` raises `NotImplementedError` unless ISO-TP sockets are supported; the
    `from . import opts` has no effect on the object; the kernel socket constructor `socket_module.socket` is ANY function `K` of its
    arguments; `self.settimeout` is ANY procedure `ST` -/
def sockInitM (supported : Bool) (K : List PV → Except PErr PV) (ST : List PV → Env → Except PErr Env) : Meths where
  fn n args _ :=
    match n with
    | "socket_module.socket" => K args
    | n => .error (.unsupported ("call " ++ n))
  proc n args env :=
    match n, args with
    | "check_support", [] => if supported then .ok env else .error (.exc .NotImplementedError)
    | "__import__", [.str "opts"] => .ok env
    | "self.settimeout", args => ST args env
    | n, _ => .error (.unsupported ("call " ++ n))

/-- the wrapper's attributes after the assignments of `__init__`, around the kernel socket object `sk` -/
def sockInitEnv (env : Env) (sk : PV) : Env :=
  ((((env.set "self.interface" pnone).set "self.address" pnone).set "self.bound" (pbool false)).set "self.closed" (pbool false)).set
    "self._socket" sk

/-- **`socket.__init__(timeout)`**: `check_support()` comes first (unsupported: `NotImplementedError`, and nothing else happens, whatever
    the other primitives do); then `interface = address = None`, `bound = closed = False`, the kernel socket is created by ONE call
    `socket_module.socket(AF_CAN, SOCK_DGRAM, CAN_ISOTP)`, and `self.settimeout(timeout)` is called iff
    `timeout is not None and timeout > 0` (`timeoutCond`), once, with `timeout` itself. -/
theorem socket_init_agrees (supported : Bool) (K : List PV → Except PErr PV) (ST : List PV → Env → Except PErr Env) (env : Env)
    (v : PyVal) (af dg pr : PV) (ht : env "timeout" = some (.sc (.py v)))
    (h1 : env "socket_module.AF_CAN" = some af) (h2 : env "socket_module.SOCK_DGRAM" = some dg)
    (h3 : env "socket_module.CAN_ISOTP" = some pr) :
    runFn (sockInitM supported K ST) env Src.socket_init =
      if supported then
        (do let sk ← K [af, dg, pr]
            let c ← timeoutCond v
            if c then (ST [.sc (.py v)] (sockInitEnv env sk)).map (fun e => (pnone, e)) else .ok (pnone, sockInitEnv env sk))
      else .error (.exc .NotImplementedError) := by
  cases supported
  · simp [runFn, Src.socket_init, execBlock, execStmt, evalArgs, nb "check_support" (by decide), sockInitM]
  · simp only [if_true]
    have e7 : ∀ e : Env, e "socket_module.AF_CAN" = some af → e "socket_module.SOCK_DGRAM" = some dg →
        e "socket_module.CAN_ISOTP" = some pr →
        eval (sockInitM true K ST) e (.call "socket_module.socket" (.cons (.var "socket_module.AF_CAN")
          (.cons (.var "socket_module.SOCK_DGRAM") (.cons (.var "socket_module.CAN_ISOTP") .nil)))) = K [af, dg, pr] := by
      intro e a b c
      simp [eval, evalArgs, a, b, c, nb "socket_module.socket" (by decide), sockInitM]
    cases hK : K [af, dg, pr] with
    | error e =>
      simp [runFn, Src.socket_init, execBlock, execStmt, evalArgs, eval, nb "check_support" (by decide), nb "__import__" (by decide),
        nb "socket_module.socket" (by decide), sockInitM, set_get, h1, h2, h3, hK]
    | ok sk =>
      have hc := eval_timeoutCond (sockInitM true K ST) (sockInitEnv env sk) v (by simp [sockInitEnv, set_get, ht])
      have hts : sockInitEnv env sk "timeout" = some (.sc (.py v)) := by simp [sockInitEnv, set_get, ht]
      have s8 : execStmt (sockInitM true K ST) (sockInitEnv env sk)
          (.ite (.and_ (.isNotNone (.var "timeout")) (.cmp .gt (.var "timeout") (.int 0)))
            (.cons (.expr (.call "self.settimeout" (.cons (.var "timeout") .nil))) .nil) .nil) =
          (timeoutCond v >>= fun c => if c then (ST [.sc (.py v)] (sockInitEnv env sk)).map .next else .ok (.next (sockInitEnv env sk))) := by
        rw [← hc]
        simp only [execStmt]
        cases eval (sockInitM true K ST) (sockInitEnv env sk)
            (.and_ (.isNotNone (.var "timeout")) (.cmp .gt (.var "timeout") (.int 0))) with
        | error e => rfl
        | ok x =>
          simp only [ok_bind]
          cases truthy x with
          | error e => rfl
          | ok c =>
            cases c
            · simp [execBlock]
            · simp [execBlock, execStmt, evalArgs, eval, hts, nb "self.settimeout" (by decide), sockInitM]
              cases ST [.sc (.py v)] (sockInitEnv env sk) <;> rfl
      have pre : execBlock (sockInitM true K ST) env Src.socket_init =
          execBlock (sockInitM true K ST) (sockInitEnv env sk)
            (.cons (.ite (.and_ (.isNotNone (.var "timeout")) (.cmp .gt (.var "timeout") (.int 0)))
              (.cons (.expr (.call "self.settimeout" (.cons (.var "timeout") .nil))) .nil) .nil) .nil) := by
        simp [Src.socket_init, execBlock, execStmt, evalArgs, eval, nb "check_support" (by decide), nb "__import__" (by decide),
          nb "socket_module.socket" (by decide), sockInitM, set_get, h1, h2, h3, hK, sockInitEnv]
      rw [runFn, pre, execBlock, s8]
      cases timeoutCond v with
      | error e => rfl
      | ok c =>
        cases c
        · simp [execBlock]
        · simp only [ok_bind, if_true]
          cases ST [.sc (.py v)] (sockInitEnv env sk) <;> simp [execBlock]

/-- the constructed wrapper is the model's initial `Sock` (`{}`: not bound, not closed, no kernel call made yet), and has neither
    interface nor address -/
theorem socket_init_is_initial (env : Env) (sk : PV) :
    sockInitEnv env sk "self.bound" = some (pbool ({} : Sock).bound) ∧
    sockInitEnv env sk "self.closed" = some (pbool ({} : Sock).closed) ∧
    sockInitEnv env sk "self.interface" = some pnone ∧ sockInitEnv env sk "self.address" = some pnone ∧
    sockInitEnv env sk "self._socket" = some sk ∧ ({} : Sock).calls = [] ∧
    SockGuards.guardEnv ({} : Sock) (sockInitEnv env sk) "self.bound" = sockInitEnv env sk "self.bound" := by
  simp [sockInitEnv, set_get, SockGuards.guardEnv]

/-- **`socket.settimeout(value)`** is `self._socket.settimeout(value)`: one call, same argument, nothing else -/
theorem socket_settimeout_agrees (M : Meths) (env : Env) (x : PV) (h : env "value" = some x) :
    runFn M env Src.socket_settimeout = (M.proc "self._socket.settimeout" [x] env).map (fun e => (pnone, e)) := by
  simp [runFn, Src.socket_settimeout, execBlock, execStmt, evalArgs, eval, h, nb "self._socket.settimeout" (by decide)]
  cases M.proc "self._socket.settimeout" [x] env <;> rfl

/-- **`socket.gettimeout()`** returns `self._socket.gettimeout()` -/
theorem socket_gettimeout_agrees (M : Meths) (env : Env) :
    runFn M env Src.socket_gettimeout = (M.fn "self._socket.gettimeout" [] env).map (fun r => (r, env)) := by
  simp [runFn, Src.socket_gettimeout, execBlock, execStmt, evalArgs, eval, nb "self._socket.gettimeout" (by decide)]
  cases M.fn "self._socket.gettimeout" [] env <;> rfl

/-- **`socket.fileno()`** returns `self._socket.fileno()` -/
theorem socket_fileno_agrees (M : Meths) (env : Env) :
    runFn M env Src.socket_fileno = (M.fn "self._socket.fileno" [] env).map (fun r => (r, env)) := by
  simp [runFn, Src.socket_fileno, execBlock, execStmt, evalArgs, eval, nb "self._socket.fileno" (by decide)]
  cases M.fn "self._socket.fileno" [] env <;> rfl

/-! ## 3. `CanMessage.__init__` (isotp/can_message.py) -/

/-- **`CanMessage.__init__`**: the six attributes are the six arguments, `extended_id` being stored as `is_extended_id`; nothing else is
    touched and no method is called -/
theorem can_message_init_agrees (M : Meths) (env : Env) (a d b x f r : PV)
    (h1 : env "arbitration_id" = some a) (h2 : env "dlc" = some d) (h3 : env "data" = some b) (h4 : env "extended_id" = some x)
    (h5 : env "is_fd" = some f) (h6 : env "bitrate_switch" = some r) :
    runFn M env Src.CanMessage_init =
      .ok (pnone, (((((env.set "self.arbitration_id" a).set "self.dlc" d).set "self.data" b).set "self.is_extended_id" x).set
        "self.is_fd" f).set "self.bitrate_switch" r) := by
  simp [runFn, Src.CanMessage_init, execBlock, execStmt, eval, set_get, h1, h2, h3, h4, h5, h6]

/-- the constructor's frame for the model message `m` -/
def canMsgCtorEnv (m : CanMsg) : Env := fun k =>
  match k with
  | "self" => some (.meth "self")
  | "arbitration_id" => some (pint m.id)
  | "dlc" => some (pint m.dlc)
  | "data" => some (.bytes m.data)
  | "extended_id" => some (pbool m.ext)
  | "is_fd" => some (pbool m.fd)
  | "bitrate_switch" => some (pbool m.brs)
  | _ => none

/-- the object shows the model's `CanMsg`, attribute by attribute (what `PyCan.IsotpMsgShows` / `AddressEnv.msgEnv` read under `msg.`) -/
def SelfShows (env : Env) (m : CanMsg) : Prop :=
  env "self.arbitration_id" = some (pint m.id) ∧ env "self.dlc" = some (pint m.dlc) ∧ env "self.data" = some (.bytes m.data) ∧
  env "self.is_extended_id" = some (pbool m.ext) ∧ env "self.is_fd" = some (pbool m.fd) ∧ env "self.bitrate_switch" = some (pbool m.brs)

theorem can_message_init_shows (M : Meths) (m : CanMsg) :
    ∃ env', runFn M (canMsgCtorEnv m) Src.CanMessage_init = .ok (pnone, env') ∧ SelfShows env' m := by
  refine ⟨_, can_message_init_agrees M (canMsgCtorEnv m) _ _ _ _ _ _ rfl rfl rfl rfl rfl rfl, ?_⟩
  simp [SelfShows, set_get]

/-! ## 4. `python_can_tx_canbus_3minus`, `_make_python_can_tx_func` (isotp/protocol.py) -/

/-- the keyword names of a call, as the dumper appends them to the callee's name -/
def kwName (callee : String) (kws : List String) : String := callee ++ String.join (kws.map ("#" ++ ·))

/-- the keywords of the `can.Message(...)` call of the `3minus` adapter: `extended_id` (python-can < 3), and NO `dlc` -/
def kws3minus : List String := ["arbitration_id", "data", "extended_id", "is_fd", "bitrate_switch"]
/-- those of the `3plus` adapter (PyCan.lean) -/
def kws3plus : List String := ["arbitration_id", "data", "is_extended_id", "is_fd", "bitrate_switch"]

theorem kwName_3minus : kwName "can.Message" kws3minus = "can.Message#arbitration_id#data#extended_id#is_fd#bitrate_switch" := by decide
theorem kwName_3plus : kwName "can.Message" kws3plus = "can.Message#arbitration_id#data#is_extended_id#is_fd#bitrate_switch" := by decide
theorem kws3minus_no_dlc : "dlc" ∉ kws3minus ∧ "is_extended_id" ∉ kws3minus ∧ "extended_id" ∈ kws3minus := by decide
/-- the two adapters differ in exactly that one keyword -/
theorem kws3minus_vs_3plus : kws3plus = kws3minus.map (fun k => if k = "extended_id" then "is_extended_id" else k) := by decide

/-- `can.Message(arbitration_id=, data=, extended_id=, is_fd=, bitrate_switch=)` is ANY function `K` of its argument list;
    `owner.bus.send` is ANY primitive procedure `S` -/
def pyCanTx3minusM (K : List PV → Except PErr PV) (S : List PV → Env → Except PErr Env) : Meths where
  fn name args _ := if name = kwName "can.Message" kws3minus then K args else .error (.unsupported ("call " ++ name))
  proc name args env :=
    match name with
    | "owner.bus.send" => S args env
    | _ => .error (.unsupported ("call " ++ name))

theorem pyCanTx3minusM_lookups (K : List PV → Except PErr PV) (S : List PV → Env → Except PErr Env) (vs : List PV) (env : Env) :
    (pyCanTx3minusM K S).fn "can.Message#arbitration_id#data#extended_id#is_fd#bitrate_switch" vs env = K vs ∧
    (pyCanTx3minusM K S).proc "owner.bus.send" vs env = S vs env := by
  simp [pyCanTx3minusM, kwName_3minus]

/-- **`python_can_tx_canbus_3minus(owner, msg)` is the model's `isotpToPyCan`**, with the keyword names of python-can < 3: the run is
    exactly "build ONE `can.Message` from the five fields of `isotpToPyCan m` (`PyCan.pyCanMessageArgs`: id, data, ext - passed as
    `extended_id=` -, fd, brs; no `dlc`), then call `owner.bus.send` ONCE with that one object"; it returns `None` -/
theorem python_can_tx_3minus_agrees (K : List PV → Except PErr PV) (S : List PV → Env → Except PErr Env) (env : Env) (m : CanMsg)
    (h : IsotpMsgShows env m) :
    runFn (pyCanTx3minusM K S) env Src.module_python_can_tx_canbus_3minus =
      (do let v ← K (pyCanMessageArgs (isotpToPyCan m))
          let env' ← S [v] env
          .ok (pnone, env')) := by
  obtain ⟨h1, h2, h3, h4, h5⟩ := h
  simp [runFn, Src.module_python_can_tx_canbus_3minus, execBlock, execStmt, eval, evalArgs, h1, h2, h3, h4, h5,
    nb "can.Message#arbitration_id#data#extended_id#is_fd#bitrate_switch" (by decide), nb "owner.bus.send" (by decide),
    (pyCanTx3minusM_lookups K S _ env).1, (pyCanTx3minusM_lookups K S _ env).2, pyCanMessageArgs, isotpToPyCan]
  cases K _ with
  | error e => rfl
  | ok v => simp only [ok_bind]; cases S [v] env <;> rfl

/-- with the counting `send` of PyCan.lean: exactly one more call, the object sent is the `can.Message`, nothing else changes -/
theorem python_can_tx_3minus_once (K : List PV → Except PErr PV) (env : Env) (m : CanMsg) (n : Int) (v : PV)
    (h : IsotpMsgShows env m) (hn : env "#send_calls" = some (pint n)) (hK : K (pyCanMessageArgs (isotpToPyCan m)) = .ok v) :
    ∃ env', runFn (pyCanTx3minusM K busSend) env Src.module_python_can_tx_canbus_3minus = .ok (pnone, env') ∧
      env' "#send_calls" = some (pint (n + 1)) ∧ env' "#last_sent" = some v ∧
      ∀ q, q ≠ "#send_calls" → q ≠ "#last_sent" → env' q = env q := by
  refine ⟨(env.set "#last_sent" v).set "#send_calls" (pint (n + 1)), ?_, by simp [set_get], by simp [set_get], ?_⟩
  · rw [python_can_tx_3minus_agrees K busSend env m h, hK]
    simp only [ok_bind, busSend, hn]
  · intro q h1 h2; simp [set_get, h1, h2]

/-- both adapters hand `send` the same five values, in the same order: only the NAME of the third keyword differs -/
theorem python_can_tx_3minus_same_values (K : List PV → Except PErr PV) (S : List PV → Env → Except PErr Env) (env : Env) (m : CanMsg)
    (h : IsotpMsgShows env m) :
    runFn (pyCanTx3minusM K S) env Src.module_python_can_tx_canbus_3minus =
      runFn (pyCanTxMeths K S) env Src.module_python_can_tx_canbus_3plus := by
  rw [python_can_tx_3minus_agrees K S env m h, python_can_tx_canbus_3plus_agrees K S env m h]

/-! ### `_make_python_can_tx_func` -/

/-- `_make_python_can_tx_func` with the membership test replaced by `c` -/
def mkTxBody (c : PExpr) : PBlock :=
  .cons (.assign "message_input_args" (.call "__attr__" (.cons (.call "inspect.signature" (.cons (.var "can.Message.__init__") .nil))
    (.cons (.strLit "parameters") .nil))))
  (.cons (.ite c
    (.cons (.ret (.call "functools.partial" (.cons (.var "python_can_tx_canbus_3plus") (.cons (.var "owner") .nil)))) .nil)
    (.cons (.ret (.call "functools.partial" (.cons (.var "python_can_tx_canbus_3minus") (.cons (.var "owner") .nil)))) .nil))
  .nil)

/-- the membership test of the source: `'is_extended_id' in message_input_args` -/
def memTest : PExpr := .call "__contains__" (.cons (.var "message_input_args") (.cons (.strLit "is_extended_id") .nil))

/-- the dumped source IS: bind `message_input_args = inspect.signature(can.Message.__init__).parameters`; if
    `'is_extended_id' in message_input_args` return `functools.partial(python_can_tx_canbus_3plus, owner)`, else
    `functools.partial(python_can_tx_canbus_3minus, owner)` -/
theorem make_python_can_tx_func_src : Src.module_p_make_python_can_tx_func = mkTxBody memTest := rfl

/-- `inspect.signature` is ANY `Sg`, the attribute of a computed value (`__attr__`) ANY `At`, `functools.partial` ANY `P`, the
    membership test of a string in a mapping (`__contains__`, how the dumper presents `'name' in mapping`) ANY `C` -/
def mkTxM (Sg At P C : List PV → Except PErr PV) : Meths where
  fn name args _ :=
    match name with
    | "inspect.signature" => Sg args
    | "__attr__" => At args
    | "functools.partial" => P args
    | "__contains__" => C args
    | n => .error (.unsupported ("call " ++ n))
  proc name _ _ := .error (.unsupported ("call " ++ name))

/-- what the frame of `_make_python_can_tx_func(owner)` holds -/
structure MkTxFrame (env : Env) (ow init f3p f3m : PV) : Prop where
  owner : env "owner" = some ow
  init : env "can.Message.__init__" = some init
  f3p : env "python_can_tx_canbus_3plus" = some f3p
  f3m : env "python_can_tx_canbus_3minus" = some f3m

/-- **`_make_python_can_tx_func(owner)`, branch structure** - for ANY test `c` in the place of the membership test that evaluates to a
    boolean `b ps` once `message_input_args` is bound to `ps`: `inspect.signature(can.Message.__init__)` is taken ONCE, its attribute
    `parameters` is bound to `message_input_args`, and the result is `functools.partial(python_can_tx_canbus_3plus, owner)` if `b ps`,
    else `functools.partial(python_can_tx_canbus_3minus, owner)` (one `partial` call, exactly these two arguments). -/
theorem make_python_can_tx_func_branches (Sg At P C : List PV → Except PErr PV) (c : PExpr) (env : Env) (ow init f3p f3m : PV)
    (hF : MkTxFrame env ow init f3p f3m)
    (b : PV → Bool) (hc : ∀ ps, eval (mkTxM Sg At P C) (env.set "message_input_args" ps) c = .ok (pbool (b ps))) :
    runFn (mkTxM Sg At P C) env (mkTxBody c) =
      (do let sg ← Sg [init]
          let ps ← At [sg, .str "parameters"]
          let r ← P [if b ps then f3p else f3m, ow]
          .ok (r, env.set "message_input_args" ps)) := by
  obtain ⟨h1, h2, h3, h4⟩ := hF
  have eP : ∀ (e : Env) (nm : String) (f : PV), e nm = some f → e "owner" = some ow →
      execBlock (mkTxM Sg At P C) e (.cons (.ret (.call "functools.partial" (.cons (.var nm) (.cons (.var "owner") .nil)))) .nil) =
        (P [f, ow] >>= fun r => .ok (.returned r e)) := by
    intro e nm f hf ho
    simp [execBlock, execStmt, eval, evalArgs, hf, ho, nb "functools.partial" (by decide), mkTxM]
  cases hS : Sg [init] with
  | error e =>
    simp [runFn, mkTxBody, execBlock, execStmt, eval, evalArgs, h2, nb "inspect.signature" (by decide), nb "__attr__" (by decide), mkTxM,
      hS]
  | ok sg =>
    simp only [ok_bind]
    cases hA : At [sg, .str "parameters"] with
    | error e =>
      simp [runFn, mkTxBody, execBlock, execStmt, eval, evalArgs, h2, nb "inspect.signature" (by decide), nb "__attr__" (by decide),
        mkTxM, hS, hA]
    | ok ps =>
      have s1 : execStmt (mkTxM Sg At P C) env (.assign "message_input_args" (.call "__attr__" (.cons (.call "inspect.signature"
          (.cons (.var "can.Message.__init__") .nil)) (.cons (.strLit "parameters") .nil)))) =
          .ok (.next (env.set "message_input_args" ps)) := by
        simp [execStmt, eval, evalArgs, h2, nb "inspect.signature" (by decide), nb "__attr__" (by decide), mkTxM, hS, hA]
      have ho : (env.set "message_input_args" ps) "owner" = some ow := by simp [set_get, h1]
      rw [runFn, mkTxBody, execBlock_cons_ok _ _ _ _ _ s1, execBlock, exec_ite_bool _ _ _ _ _ (b ps) (hc ps)]
      simp only [ok_bind]
      cases hb : b ps
      · rw [if_neg (by simp), eP _ _ f3m (by simp [set_get, h4]) ho]
        simp only [Bool.false_eq_true, if_false]
        cases P [f3m, ow] <;> rfl
      · rw [if_pos rfl, eP _ _ f3p (by simp [set_get, h3]) ho]
        simp only [if_true]
        cases P [f3p, ow] <;> rfl

/-- the source's own test, `'is_extended_id' in message_input_args` (dumped as `__contains__(message_input_args, 'is_extended_id')`),
    asks the mapping bound to `message_input_args` exactly ONE question: whether it has the key `'is_extended_id'` -/
theorem memTest_eval (Sg At P C : List PV → Except PErr PV) (env : Env) (ps : PV) :
    eval (mkTxM Sg At P C) (env.set "message_input_args" ps) memTest = C [ps, .str "is_extended_id"] := by
  simp [memTest, eval, evalArgs, set_get, nb "__contains__" (by decide), mkTxM]

/-- **`_make_python_can_tx_func(owner)` agrees with its description, with the SOURCE'S OWN membership test**: with `has ps` the answer
    of the mapping `ps = inspect.signature(can.Message.__init__).parameters` to "is `'is_extended_id'` one of your keys?", the function
    returns `functools.partial(python_can_tx_canbus_3plus, owner)` exactly when `has ps` (python-can >= 3: `is_extended_id` is a
    constructor parameter), and `functools.partial(python_can_tx_canbus_3minus, owner)` otherwise; the signature is taken once and
    `partial` is called once with exactly the chosen adapter and the owner.  (This closes the gap reported earlier as
    `make_python_can_tx_func_in_gap`: the interpreter's `in` decides only membership in a list of scalars, so the dumper now presents a
    string-literal membership test as the container's `__contains__`.) -/
theorem make_python_can_tx_func_agrees (Sg At P C : List PV → Except PErr PV) (env : Env) (ow init f3p f3m : PV)
    (hF : MkTxFrame env ow init f3p f3m)
    (has : PV → Bool) (hC : ∀ ps, C [ps, .str "is_extended_id"] = .ok (pbool (has ps))) :
    runFn (mkTxM Sg At P C) env Src.module_p_make_python_can_tx_func =
      (do let sg ← Sg [init]
          let ps ← At [sg, .str "parameters"]
          let r ← P [if has ps then f3p else f3m, ow]
          .ok (r, env.set "message_input_args" ps)) := by
  rw [make_python_can_tx_func_src]
  exact make_python_can_tx_func_branches Sg At P C memTest env ow init f3p f3m hF has
    (fun ps => by rw [memTest_eval, hC])

/-- a python-can whose `Message.__init__` HAS the parameter `is_extended_id` gets the `3plus` adapter, one that has not gets `3minus`
    (swapping the adapters, or negating the test, is visible) -/
theorem make_python_can_tx_func_choice (Sg At P C : List PV → Except PErr PV) (env : Env) (ow init f3p f3m sg ps : PV)
    (hF : MkTxFrame env ow init f3p f3m) (has : PV → Bool) (hC : ∀ ps, C [ps, .str "is_extended_id"] = .ok (pbool (has ps)))
    (hS : Sg [init] = .ok sg) (hA : At [sg, .str "parameters"] = .ok ps) :
    runFn (mkTxM Sg At P C) env Src.module_p_make_python_can_tx_func =
      (P [if has ps then f3p else f3m, ow] >>= fun r => .ok (r, env.set "message_input_args" ps)) := by
  rw [make_python_can_tx_func_agrees Sg At P C env ow init f3p f3m hF has hC, hS]
  simp only [ok_bind]
  rw [hA]
  simp only [ok_bind]

/-! ## 5. `CanStack.__init__`, `CanStack.set_bus`, `NotifierBasedCanStack.__init__` (isotp/protocol.py)

  Presentation: `_can_available` is a module-level boolean; `isinstance(x, can.BusABC)` / `isinstance(x, can.Notifier)` are predicates
  `isBus` / `isNotif` on values; `_make_python_can_tx_func` is ANY function `MK`, the keyword call `dict(rxfn=, txfn=)` ANY function `D`
  of `[rxfn, txfn]`, `kwargs.update` ANY procedure `U` that leaves the NAMES `args` / `kwargs` bound to the same objects (it mutates the
  dict), the base constructor `super().__init__(*args, **kwargs)` ANY procedure `B` of `[args, kwargs]` (the dumper marks the star
  arguments in the callee name `super().__init__#*#**`); `self.set_bus(bus)` is ITS OWN SOURCE (`CanStack_set_bus`). -/

def busM (isBus isNotif : PV → Bool) : Meths where
  fn n args _ :=
    match n, args with
    | "isinstance_BusABC", [v] => .ok (pbool (isBus v))
    | "isinstance_Notifier", [v] => .ok (pbool (isNotif v))
    | n, _ => .error (.unsupported ("call " ++ n))
  proc n _ _ := .error (.unsupported ("call " ++ n))

/-- **`CanStack.set_bus(bus)`**: `ValueError` unless `bus` is a `can.BusABC`; otherwise `self.bus = bus` and nothing else -/
theorem can_stack_set_bus_agrees (M : Meths) (isBus : PV → Bool) (env : Env) (v : PV) (h : env "bus" = some v)
    (hM : M.fn "isinstance_BusABC" [v] env = .ok (pbool (isBus v))) :
    runFn M env Src.CanStack_set_bus = if isBus v then .ok (pnone, env.set "self.bus" v) else .error (.exc .ValueError) := by
  cases hv : isBus v <;>
    simp [runFn, Src.CanStack_set_bus, execBlock, execStmt, eval, evalArgs, h, nb "isinstance_BusABC" (by decide), hM, hv]

/-- the callee `self.set_bus(v)`: the source of `CanStack.set_bus` run with the parameter `bus` bound to the argument -/
def setBusCallee (isBus isNotif : PV → Bool) : List PV → Env → Except PErr Env
  | [v], env => (runFn (busM isBus isNotif) (env.set "bus" v) Src.CanStack_set_bus).map (·.2)
  | _, _ => .error (.exc .TypeError)

theorem setBusCallee_eq (isBus isNotif : PV → Bool) (v : PV) (env : Env) (h : env "bus" = some v) :
    setBusCallee isBus isNotif [v] env = if isBus v then .ok (env.set "self.bus" v) else .error (.exc .ValueError) := by
  have e : env.set "bus" v = env := by
    funext k; by_cases hk : k = "bus" <;> simp [set_get, hk, h]
  rw [setBusCallee, e, can_stack_set_bus_agrees _ isBus env v h rfl]
  cases isBus v <;> rfl

def stackM (isBus isNotif : PV → Bool) (MK D : List PV → Except PErr PV) (U B : List PV → Env → Except PErr Env) : Meths where
  fn n args env :=
    match n with
    | "_make_python_can_tx_func" => MK args
    | "dict#rxfn#txfn" => D args
    | n => (busM isBus isNotif).fn n args env
  proc n args env :=
    match n with
    | "self.set_bus" => setBusCallee isBus isNotif args env
    | "kwargs.update" => U args env
    | "super().__init__#*#**" => B args env
    | n => .error (.unsupported ("call " ++ n))

section stackLookups
variable (isBus isNotif : PV → Bool) (MK D : List PV → Except PErr PV) (U B : List PV → Env → Except PErr Env) (vs : List PV) (v : PV)
  (env : Env)
theorem stackM_isBus : (stackM isBus isNotif MK D U B).fn "isinstance_BusABC" [v] env = .ok (pbool (isBus v)) := rfl
theorem stackM_isNotif : (stackM isBus isNotif MK D U B).fn "isinstance_Notifier" [v] env = .ok (pbool (isNotif v)) := rfl
theorem stackM_mk : (stackM isBus isNotif MK D U B).fn "_make_python_can_tx_func" vs env = MK vs := rfl
theorem stackM_dict : (stackM isBus isNotif MK D U B).fn "dict#rxfn#txfn" vs env = D vs := rfl
theorem stackM_set_bus : (stackM isBus isNotif MK D U B).proc "self.set_bus" vs env = setBusCallee isBus isNotif vs env := rfl
theorem stackM_update : (stackM isBus isNotif MK D U B).proc "kwargs.update" vs env = U vs env := rfl
theorem stackM_base : (stackM isBus isNotif MK D U B).proc "super().__init__#*#**" vs env = B vs env := rfl
end stackLookups

/-- `U` leaves the keys `ks` as they are -/
def Keeps (U : List PV → Env → Except PErr Env) (ks : List String) : Prop :=
  ∀ vs e e', U vs e = .ok e' → ∀ k ∈ ks, e' k = e k

/-- the arguments of the two constructors that both read -/
structure StackFrame (env : Env) (avail : Bool) (sv bus rx ar kw : PV) : Prop where
  avail : env "_can_available" = some (pbool avail)
  self : env "self" = some sv
  bus : env "bus" = some bus
  rx : env "self._rx_canbus" = some rx
  args : env "args" = some ar
  kwargs : env "kwargs" = some kw

/-- `kwargs.update(dict(rxfn=self._rx_canbus, txfn=_make_python_can_tx_func(self)))` followed by `super().__init__(*args, **kwargs)` -/
def stackTail (MK D : List PV → Except PErr PV) (U B : List PV → Env → Except PErr Env) (sv rx ar kw : PV) (env : Env) :
    Except PErr (PV × Env) := do
  let tx ← MK [sv]
  let d ← D [rx, tx]
  let env1 ← U [d] env
  let env2 ← B [ar, kw] env1
  .ok (pnone, env2)

def updateStmt : PStmt :=
  .expr (.call "kwargs.update" (.cons (.call "dict#rxfn#txfn" (.cons (.var "self._rx_canbus")
    (.cons (.call "_make_python_can_tx_func" (.cons (.var "self") .nil)) .nil))) .nil))
def baseStmt : PStmt := .expr (.call "super().__init__#*#**" (.cons (.var "args") (.cons (.var "kwargs") .nil)))

theorem stack_tail_run (isBus isNotif : PV → Bool) (MK D : List PV → Except PErr PV) (U B : List PV → Env → Except PErr Env)
    (hU : Keeps U ["args", "kwargs"]) (env : Env) (sv rx ar kw : PV)
    (h1 : env "self" = some sv) (h2 : env "self._rx_canbus" = some rx) (h3 : env "args" = some ar) (h4 : env "kwargs" = some kw) :
    runFn (stackM isBus isNotif MK D U B) env (.cons updateStmt (.cons baseStmt .nil)) = stackTail MK D U B sv rx ar kw env := by
  rw [stackTail]
  cases hMK : MK [sv] with
  | error e =>
    simp [runFn, updateStmt, execBlock, execStmt, eval, evalArgs, h1, h2, nb "_make_python_can_tx_func" (by decide),
      nb "dict#rxfn#txfn" (by decide), nb "kwargs.update" (by decide), stackM_mk, hMK]
  | ok tx =>
    simp only [ok_bind]
    cases hD : D [rx, tx] with
    | error e =>
      simp [runFn, updateStmt, execBlock, execStmt, eval, evalArgs, h1, h2, nb "_make_python_can_tx_func" (by decide),
        nb "dict#rxfn#txfn" (by decide), nb "kwargs.update" (by decide), stackM_mk, stackM_dict, hMK, hD]
    | ok d =>
      simp only [ok_bind]
      cases hUU : U [d] env with
      | error e =>
        simp [runFn, updateStmt, execBlock, execStmt, eval, evalArgs, h1, h2, nb "_make_python_can_tx_func" (by decide),
          nb "dict#rxfn#txfn" (by decide), nb "kwargs.update" (by decide), stackM_mk, stackM_dict, stackM_update, hMK, hD, hUU]
      | ok env1 =>
        have s1 : execStmt (stackM isBus isNotif MK D U B) env updateStmt = .ok (.next env1) := by
          simp [updateStmt, execStmt, eval, evalArgs, h1, h2, nb "_make_python_can_tx_func" (by decide),
            nb "dict#rxfn#txfn" (by decide), nb "kwargs.update" (by decide), stackM_mk, stackM_dict, stackM_update, hMK, hD, hUU]
        have k3 : env1 "args" = some ar := (hU _ _ _ hUU "args" (by decide)).trans h3
        have k4 : env1 "kwargs" = some kw := (hU _ _ _ hUU "kwargs" (by decide)).trans h4
        rw [runFn, execBlock_cons_ok _ _ _ _ _ s1]
        simp only [ok_bind]
        simp [baseStmt, execBlock, execStmt, eval, evalArgs, k3, k4, nb "super().__init__#*#**" (by decide), stackM_base]
        cases B [ar, kw] env1 <;> rfl

theorem can_stack_init_src : Src.CanStack_init =
    .cons (.ite (.not_ (.var "_can_available")) (.cons (.raise "RuntimeError") .nil) .nil)
    (.cons (.expr (.call "self.set_bus" (.cons (.var "bus") .nil))) (.cons updateStmt (.cons baseStmt .nil))) := rfl

/-- **`CanStack.__init__(bus, *args, **kwargs)`**: `RuntimeError` when python-can is not available (nothing else happens); `ValueError`
    from `set_bus` when `bus` is not a `can.BusABC` (nothing stored, no constructor called); otherwise `self.bus = bus`, then
    `kwargs.update(dict(rxfn=self._rx_canbus, txfn=_make_python_can_tx_func(self)))` - the tx function is made ONCE, from `self` -, then
    the base constructor is called ONCE with `*args, **kwargs` (`stackTail`), and `None` is returned.  For ANY `MK`, `D`, `U`, `B`. -/
theorem can_stack_init_agrees (isBus isNotif : PV → Bool) (MK D : List PV → Except PErr PV) (U B : List PV → Env → Except PErr Env)
    (hU : Keeps U ["args", "kwargs"]) (env : Env) (avail : Bool) (sv bus rx ar kw : PV) (hF : StackFrame env avail sv bus rx ar kw) :
    runFn (stackM isBus isNotif MK D U B) env Src.CanStack_init =
      if avail = false then .error (.exc .RuntimeError)
      else if isBus bus = false then .error (.exc .ValueError)
      else stackTail MK D U B sv rx ar kw (env.set "self.bus" bus) := by
  obtain ⟨h0, h1, h2, h3, h4, h5⟩ := hF
  rw [can_stack_init_src]
  cases avail
  · simp [runFn, execBlock, execStmt, eval, h0]
  · have s0 : execStmt (stackM isBus isNotif MK D U B) env
        (.ite (.not_ (.var "_can_available")) (.cons (.raise "RuntimeError") .nil) .nil) = .ok (.next env) := by
      simp [execStmt, execBlock, eval, h0]
    have hsb := setBusCallee_eq isBus isNotif bus env h2
    cases hb : isBus bus
    · rw [hb] at hsb
      have s1 : execStmt (stackM isBus isNotif MK D U B) env (.expr (.call "self.set_bus" (.cons (.var "bus") .nil))) =
          .error (.exc .ValueError) := by
        simp [execStmt, eval, evalArgs, h2, nb "self.set_bus" (by decide), stackM_set_bus, hsb]
      rw [runFn, execBlock_cons_ok _ _ _ _ _ s0]
      simp [execBlock, s1]
    · rw [hb] at hsb
      have s1 : execStmt (stackM isBus isNotif MK D U B) env (.expr (.call "self.set_bus" (.cons (.var "bus") .nil))) =
          .ok (.next (env.set "self.bus" bus)) := by
        simp [execStmt, eval, evalArgs, h2, nb "self.set_bus" (by decide), stackM_set_bus, hsb]
      have := stack_tail_run isBus isNotif MK D U B hU (env.set "self.bus" bus) sv rx ar kw (by simp [set_get, h1])
        (by simp [set_get, h3]) (by simp [set_get, h4]) (by simp [set_get, h5])
      rw [runFn] at this ⊢
      rw [execBlock_cons_ok _ _ _ _ _ s0, execBlock_cons_ok _ _ _ _ _ s1, this]
      simp

/-- what `NotifierBasedCanStack.__init__` stores before it updates `kwargs` -/
def notifierStored (env : Env) (bus nt : PV) : Env :=
  ((env.set "self.bus" bus).set "self.notifier" nt).set "self.buffered_reader" pnone

theorem notifier_stack_init_src : Src.NotifierBasedCanStack_init =
    .cons (.ite (.not_ (.var "_can_available")) (.cons (.raise "RuntimeError") .nil) .nil)
    (.cons (.ite (.not_ (.call "isinstance_BusABC" (.cons (.var "bus") .nil))) (.cons (.raise "ValueError") .nil) .nil)
    (.cons (.ite (.not_ (.call "isinstance_Notifier" (.cons (.var "notifier") .nil))) (.cons (.raise "ValueError") .nil) .nil)
    (.cons (.assign "self.bus" (.var "bus")) (.cons (.assign "self.notifier" (.var "notifier"))
    (.cons (.assign "self.buffered_reader" .none) (.cons updateStmt (.cons baseStmt .nil))))))) := rfl

/-- **`NotifierBasedCanStack.__init__(bus, notifier, *args, **kwargs)`**: `RuntimeError` when python-can is not available; `ValueError`
    when `bus` is not a `can.BusABC`, then `ValueError` when `notifier` is not a `can.Notifier` (in this order; nothing stored, nothing
    called); otherwise `self.bus`, `self.notifier` are stored, `self.buffered_reader = None`, and the same `kwargs.update(...)` /
    base-constructor tail as `CanStack.__init__` runs (`stackTail`: `rxfn = self._rx_canbus`, `txfn = _make_python_can_tx_func(self)`). -/
theorem notifier_stack_init_agrees (isBus isNotif : PV → Bool) (MK D : List PV → Except PErr PV)
    (U B : List PV → Env → Except PErr Env) (hU : Keeps U ["args", "kwargs"]) (env : Env) (avail : Bool) (sv bus nt rx ar kw : PV)
    (hF : StackFrame env avail sv bus rx ar kw) (hn : env "notifier" = some nt) :
    runFn (stackM isBus isNotif MK D U B) env Src.NotifierBasedCanStack_init =
      if avail = false then .error (.exc .RuntimeError)
      else if isBus bus = false then .error (.exc .ValueError)
      else if isNotif nt = false then .error (.exc .ValueError)
      else stackTail MK D U B sv rx ar kw (notifierStored env bus nt) := by
  obtain ⟨h0, h1, h2, h3, h4, h5⟩ := hF
  rw [notifier_stack_init_src]
  cases avail
  · simp [runFn, execBlock, execStmt, eval, h0]
  · have s0 : execStmt (stackM isBus isNotif MK D U B) env
        (.ite (.not_ (.var "_can_available")) (.cons (.raise "RuntimeError") .nil) .nil) = .ok (.next env) := by
      simp [execStmt, execBlock, eval, h0]
    cases hb : isBus bus
    · rw [runFn, execBlock_cons_ok _ _ _ _ _ s0]
      simp [execBlock, execStmt, eval, evalArgs, h2, nb "isinstance_BusABC" (by decide), stackM_isBus, hb]
    · have s1 : execStmt (stackM isBus isNotif MK D U B) env
          (.ite (.not_ (.call "isinstance_BusABC" (.cons (.var "bus") .nil))) (.cons (.raise "ValueError") .nil) .nil) =
          .ok (.next env) := by
        simp [execBlock, execStmt, eval, evalArgs, h2, nb "isinstance_BusABC" (by decide), stackM_isBus, hb]
      cases hnn : isNotif nt
      · rw [runFn, execBlock_cons_ok _ _ _ _ _ s0, execBlock_cons_ok _ _ _ _ _ s1]
        simp [execBlock, execStmt, eval, evalArgs, hn, nb "isinstance_Notifier" (by decide), stackM_isNotif, hnn]
      · have s2 : execStmt (stackM isBus isNotif MK D U B) env
            (.ite (.not_ (.call "isinstance_Notifier" (.cons (.var "notifier") .nil))) (.cons (.raise "ValueError") .nil) .nil) =
            .ok (.next env) := by
          simp [execBlock, execStmt, eval, evalArgs, hn, nb "isinstance_Notifier" (by decide), stackM_isNotif, hnn]
        have s3 : execStmt (stackM isBus isNotif MK D U B) env (.assign "self.bus" (.var "bus")) =
            .ok (.next (env.set "self.bus" bus)) := by simp [execStmt, eval, h2]
        have s4 : execStmt (stackM isBus isNotif MK D U B) (env.set "self.bus" bus) (.assign "self.notifier" (.var "notifier")) =
            .ok (.next ((env.set "self.bus" bus).set "self.notifier" nt)) := by simp [execStmt, eval, set_get, hn]
        have s5 : execStmt (stackM isBus isNotif MK D U B) ((env.set "self.bus" bus).set "self.notifier" nt)
            (.assign "self.buffered_reader" .none) = .ok (.next (notifierStored env bus nt)) := by
          simp [execStmt, eval, notifierStored]
        have := stack_tail_run isBus isNotif MK D U B hU (notifierStored env bus nt) sv rx ar kw
          (by simp [notifierStored, set_get, h1]) (by simp [notifierStored, set_get, h3]) (by simp [notifierStored, set_get, h4])
          (by simp [notifierStored, set_get, h5])
        rw [runFn] at this ⊢
        rw [execBlock_cons_ok _ _ _ _ _ s0, execBlock_cons_ok _ _ _ _ _ s1, execBlock_cons_ok _ _ _ _ _ s2,
          execBlock_cons_ok _ _ _ _ _ s3, execBlock_cons_ok _ _ _ _ _ s4, execBlock_cons_ok _ _ _ _ _ s5, this]
        simp

/-! ### with a recording base constructor (as `tlInitM` of LayerInit.lean, section 3) -/

/-- how often the base constructor has run on this object (the history key of LayerInit.lean) -/
def callsOf (env : Env) : Int :=
  match env "#base_init.calls" with
  | some (.sc (.py (.int n))) => n
  | _ => 0

/-- the base constructor as a recording procedure: it REFUSES (interpreter error) any argument list other than the expected `exp`,
    counts its calls under `#base_init.calls`, and otherwise does `base` to the object -/
def recBase (exp : List PV) (base : Env → Env) : List PV → Env → Except PErr Env := fun args env =>
  if args = exp then .ok ((base env).set "#base_init.calls" (pint (callsOf env + 1)))
  else .error (.unsupported "base constructor called with other arguments")

/-- **the base constructor is called exactly once, with exactly `(*args, **kwargs)`**, after `kwargs` was updated: a successful run of
    `CanStack.__init__` under the recording constructor ends in `base` applied to the updated object with the counter one higher; and
    if the expected argument list is anything else the run FAILS -/
theorem can_stack_init_calls_base_once (isBus isNotif : PV → Bool) (MK D : List PV → Except PErr PV) (U : List PV → Env → Except PErr Env)
    (exp : List PV) (base : Env → Env) (hU : Keeps U ["args", "kwargs", "#base_init.calls"]) (env : Env) (sv bus rx ar kw tx d : PV)
    (env1 : Env) (hF : StackFrame env true sv bus rx ar kw) (hb : isBus bus = true) (hMK : MK [sv] = .ok tx) (hD : D [rx, tx] = .ok d)
    (hUU : U [d] (env.set "self.bus" bus) = .ok env1) :
    runFn (stackM isBus isNotif MK D U (recBase exp base)) env Src.CanStack_init =
      (if [ar, kw] = exp then .ok (pnone, (base env1).set "#base_init.calls" (pint (callsOf env + 1)))
       else .error (.unsupported "base constructor called with other arguments")) := by
  have hU' : Keeps U ["args", "kwargs"] := fun vs e e' h k hk => hU vs e e' h k (by revert hk; simp; rintro (rfl | rfl) <;> simp)
  rw [can_stack_init_agrees isBus isNotif MK D U _ hU' env true sv bus rx ar kw hF]
  have hc : callsOf env1 = callsOf env := by
    have := hU _ _ _ hUU "#base_init.calls" (by decide)
    simp [callsOf, this, set_get]
  simp only [hb, stackTail, hMK, hD, hUU, ok_bind, recBase, hc]
  by_cases he : [ar, kw] = exp <;> simp [he]

/-! ## 6. `TransportLayer.Events.__init__`, `TransportLayerLogic._set_rxfn` (isotp/protocol.py) -/

/-- `threading.Event()`: a fresh event, presented by its flag - `False` (an event is created cleared) -/
def eventsM : Meths where
  fn n args _ :=
    match n, args with
    | "threading.Event", [] => .ok (pbool false)
    | n, _ => .error (.unsupported ("call " ++ n))
  proc n _ _ := .error (.unsupported ("call " ++ n))

/-- the seven events, in the order `__init__` creates them -/
def eventAttrs : List String :=
  ["self.main_thread_ready", "self.relay_thread_ready", "self.stop_requested", "self.reset_tx", "self.reset_tx_complete",
   "self.reset_rx", "self.reset_rx_complete"]

/-- the flag of each event of the model's `Events`, by attribute name -/
def modelFlag (e : Events) : String → Option Bool
  | "self.main_thread_ready" => some e.mainReady
  | "self.relay_thread_ready" => some e.relayReady
  | "self.stop_requested" => some e.stopRequested
  | "self.reset_tx" => some e.resetTx
  | "self.reset_tx_complete" => some e.resetTxComplete
  | "self.reset_rx" => some e.resetRx
  | "self.reset_rx_complete" => some e.resetRxComplete
  | _ => none

/-- the environment `Events.__init__` leaves -/
def eventsEnv (env : Env) : Env :=
  ((((((env.set "self.main_thread_ready" (pbool false)).set "self.relay_thread_ready" (pbool false)).set "self.stop_requested"
    (pbool false)).set "self.reset_tx" (pbool false)).set "self.reset_tx_complete" (pbool false)).set "self.reset_rx"
    (pbool false)).set "self.reset_rx_complete" (pbool false)

/-- **`TransportLayer.Events.__init__`**: seven `threading.Event()` calls, one per attribute, nothing else -/
theorem events_init_agrees (env : Env) : runFn eventsM env Src.TransportLayer_Events_init = .ok (pnone, eventsEnv env) := by
  simp [runFn, Src.TransportLayer_Events_init, execBlock, execStmt, eval, evalArgs, nb "threading.Event" (by decide), eventsM, eventsEnv]

/-- the seven events exist and show the model's initial flags `Events.cleared` (= the `ev` of `TL.init`); every attribute the model
    has a flag for is one of the seven -/
theorem events_init_shows_cleared (env : Env) :
    (∀ k ∈ eventAttrs, ∃ b, modelFlag Events.cleared k = some b ∧ eventsEnv env k = some (pbool b)) ∧
    (∀ k b, modelFlag Events.cleared k = some b → k ∈ eventAttrs) ∧
    (∀ c a, (TL.init c a).ev = Events.cleared) ∧
    (∀ k, k ∉ eventAttrs → eventsEnv env k = env k) := by
  refine ⟨?_, ?_, fun _ _ => rfl, ?_⟩
  · intro k hk
    simp only [eventAttrs, List.mem_cons, List.not_mem_nil, or_false] at hk
    rcases hk with rfl | rfl | rfl | rfl | rfl | rfl | rfl <;> exact ⟨false, rfl, by simp [eventsEnv, set_get]⟩
  · intro k b h
    unfold modelFlag at h
    split at h <;> first | (cases h; done) | (simp [eventAttrs])
  · intro k hk
    simp only [eventAttrs, List.mem_cons, List.not_mem_nil, or_false, not_or] at hk
    obtain ⟨a1, a2, a3, a4, a5, a6, a7⟩ := hk
    simp [eventsEnv, set_get, a1, a2, a3, a4, a5, a6, a7]

/-- the object as LayerInit.lean presents `self.Events()` (`eventsObj`: the seven flags in the order of `wrapView` - main_thread_ready,
    relay_thread_ready, stop_requested, reset_tx, reset_rx, reset_tx_complete, reset_rx_complete): all `False` -/
theorem events_init_obj (env : Env) :
    (["self.main_thread_ready", "self.relay_thread_ready", "self.stop_requested", "self.reset_tx", "self.reset_rx",
      "self.reset_tx_complete", "self.reset_rx_complete"].map (eventsEnv env)) = List.replicate 7 (some (pbool false)) := by
  simp [eventsEnv, set_get]

/-- **`TransportLayerLogic._set_rxfn(rxfn)`**: `self.rxfn = rxfn` -/
theorem set_rxfn_agrees (M : Meths) (env : Env) (f : PV) (h : env "rxfn" = some f) :
    runFn M env Src.TransportLayerLogic_p_set_rxfn = .ok (pnone, env.set "self.rxfn" f) := by
  simp [runFn, Src.TransportLayerLogic_p_set_rxfn, execBlock, execStmt, eval, h]

/-! ## 7. `read ∘ write`: what `write` packed is what the next `read` unpacks; fields not given to `write` keep what `read` returned -/

theorem optsWf_wf (o : KOpts) (h : optsWf o) : o.wf := by
  obtain ⟨a, b, c, d, e, f⟩ := h
  exact ⟨by show o.flags < 2^32; omega, by show o.frameTxtime < 2^32; omega, by show o.extAddress < 256; omega,
    by show o.txpad < 256; omega, by show o.rxpad < 256; omega, by show o.rxExtAddress < 256; omega⟩

theorem upd1_wf (a : OptsArgs) (o : KOpts) (hr : rej a.optflag 0xFFFFFFFF = false) (h : optsWf o) : optsWf (upd1 a o) := by
  unfold upd1
  cases hn : a.optflag.isNone
  · obtain ⟨w1, w2, w3, w4, w5, w6⟩ := h
    exact ⟨toNat_le_given _ 0xFFFFFFFF hr hn, w2, w3, w4, w5, w6⟩
  · exact h
theorem upd2_wf (a : OptsArgs) (o : KOpts) (hr : rej a.frameTxtime 0xFFFFFFFF = false) (h : optsWf o) : optsWf (upd2 a o) := by
  unfold upd2
  cases hn : a.frameTxtime.isNone
  · obtain ⟨w1, w2, w3, w4, w5, w6⟩ := h
    exact ⟨w1, toNat_le_given _ 0xFFFFFFFF hr hn, w3, w4, w5, w6⟩
  · exact h
theorem upd3_wf (a : OptsArgs) (o : KOpts) (hr : rej a.extAddress 0xFF = false) (h : optsWf o) : optsWf (upd3 a o) := by
  unfold upd3
  cases hn : a.extAddress.isNone
  · obtain ⟨w1, w2, w3, w4, w5, w6⟩ := h
    exact ⟨by show orFlag o.flags fEXTEND_ADDR ≤ _; rw [← or_EXTEND_ADDR]; exact or_le_u32 _ _ w1 (by omega), w2,
      toNat_le_given _ 0xFF hr hn, w4, w5, w6⟩
  · exact h
theorem upd4_wf (a : OptsArgs) (o : KOpts) (hr : rej a.txpad 0xFF = false) (h : optsWf o) : optsWf (upd4 a o) := by
  unfold upd4
  cases hn : a.txpad.isNone
  · obtain ⟨w1, w2, w3, w4, w5, w6⟩ := h
    exact ⟨by show orFlag o.flags fTX_PADDING ≤ _; rw [← or_TX_PADDING]; exact or_le_u32 _ _ w1 (by omega), w2, w3,
      toNat_le_given _ 0xFF hr hn, w5, w6⟩
  · exact h
theorem upd5_wf (a : OptsArgs) (o : KOpts) (hr : rej a.rxpad 0xFF = false) (h : optsWf o) : optsWf (upd5 a o) := by
  unfold upd5
  cases hn : a.rxpad.isNone
  · obtain ⟨w1, w2, w3, w4, w5, w6⟩ := h
    exact ⟨by show orFlag o.flags fRX_PADDING ≤ _; rw [← or_RX_PADDING]; exact or_le_u32 _ _ w1 (by omega), w2, w3, w4,
      toNat_le_given _ 0xFF hr hn, w6⟩
  · exact h
theorem upd6_wf (a : OptsArgs) (o : KOpts) (hr : rej a.rxExtAddress 0xFF = false) (h : optsWf o) : optsWf (upd6 a o) := by
  unfold upd6
  cases hn : a.rxExtAddress.isNone
  · obtain ⟨w1, w2, w3, w4, w5, w6⟩ := h
    exact ⟨by show orFlag o.flags fRX_EXT_ADDR ≤ _; rw [← or_RX_EXT_ADDR]; exact or_le_u32 _ _ w1 (by omega), w2, w3, w4, w5,
      toNat_le_given _ 0xFF hr hn⟩
  · exact h
theorem upd7_wf (a : OptsArgs) (o : KOpts) (h : optsWf o) : optsWf (upd7 a o) := by
  unfold upd7
  cases hn : a.txStmin.isNone
  · obtain ⟨w1, w2, w3, w4, w5, w6⟩ := h
    exact ⟨by show orFlag o.flags fFORCE_TXSTMIN ≤ _; rw [← or_FORCE_TXSTMIN]; exact or_le_u32 _ _ w1 (by omega), w2, w3, w4, w5, w6⟩
  · exact h

/-- an accepted `GeneralOpts.write`: the object it returns fits the struct, the kernel afterwards holds exactly what was packed, and
    the object is the read-modify-write of what `read` returned -/
theorem writeOpts_result (s : Sock) (a : OptsArgs) (s' : Sock) (o' : KOpts) (h : writeOpts s a = .ok (s', o')) :
    optsWf o' ∧ s'.k.opts = parseOpts (layoutOpts o') ∧ o' = upd7 a (updFields a (parseOpts (layoutOpts s.k.opts))) := by
  rw [writeOpts_eq] at h
  cases hr : rejFields a || rej a.txStmin 0xFFFFFFFF
  case true => simp [hr] at h
  simp only [hr, Bool.false_eq_true, if_false, Except.ok.injEq, Prod.mk.injEq] at h
  obtain ⟨hs', ho'⟩ := h
  simp only [rejFields, Bool.or_eq_false_iff] at hr
  obtain ⟨⟨⟨⟨⟨⟨r1, r2⟩, r3⟩, r4⟩, r5⟩, r6⟩, _⟩ := hr
  refine ⟨?_, ?_, ho'.symm⟩
  · rw [← ho', updFields]
    exact upd7_wf _ _ (upd6_wf _ _ r6 (upd5_wf _ _ r5 (upd4_wf _ _ r4 (upd3_wf _ _ r3 (upd2_wf _ _ r2 (upd1_wf _ _ r1 (parseOpts_wf _)))))))
  · rw [← hs', ← ho']
    simp [Sock.sso, Kernel.setsockopt]

/-- **`read` after an accepted `write`** returns an object holding exactly the fields of the object `write` returned (the model's
    `o'`): `struct.unpack` undoes `struct.pack` on the kernel's copy -/
theorem general_opts_read_after_write (isSock : PV → Bool) (s : Sock) (a : OptsArgs) (s' : Sock) (o' : KOpts)
    (h : writeOpts s a = .ok (s', o')) (env : Env) (v : PV) (hF : ReadFrame env v "CAN_ISOTP_OPTS" 12) (hv : isSock v = true) :
    runFn (readM isSock (kGetsockopt s'.k)) env Src.GeneralOpts_read =
      .ok (.meth "o", afterRead env (layoutOpts o') genTargets
        [o'.flags, o'.frameTxtime, o'.extAddress, o'.txpad, o'.rxpad, o'.rxExtAddress]) := by
  obtain ⟨wf, hk, _⟩ := writeOpts_result s a s' o' h
  have e := parse_layout_opts o' (optsWf_wf o' wf)
  rw [general_opts_read_agrees isSock s' env v hF hv, hk, e, e]

section updProj
variable (a : OptsArgs) (o : KOpts)
theorem upd1_proj : (upd1 a o).frameTxtime = o.frameTxtime ∧ (upd1 a o).extAddress = o.extAddress ∧ (upd1 a o).txpad = o.txpad ∧
    (upd1 a o).rxpad = o.rxpad ∧ (upd1 a o).rxExtAddress = o.rxExtAddress := by unfold upd1; split <;> simp
theorem upd2_proj : (upd2 a o).frameTxtime = (if a.frameTxtime.isNone then o.frameTxtime else a.frameTxtime.intVal.toNat) ∧
    (upd2 a o).extAddress = o.extAddress ∧ (upd2 a o).txpad = o.txpad ∧
    (upd2 a o).rxpad = o.rxpad ∧ (upd2 a o).rxExtAddress = o.rxExtAddress := by unfold upd2; split <;> simp
theorem upd3_proj : (upd3 a o).frameTxtime = o.frameTxtime ∧
    (upd3 a o).extAddress = (if a.extAddress.isNone then o.extAddress else a.extAddress.intVal.toNat) ∧ (upd3 a o).txpad = o.txpad ∧
    (upd3 a o).rxpad = o.rxpad ∧ (upd3 a o).rxExtAddress = o.rxExtAddress := by unfold upd3; split <;> simp
theorem upd4_proj : (upd4 a o).frameTxtime = o.frameTxtime ∧ (upd4 a o).extAddress = o.extAddress ∧
    (upd4 a o).txpad = (if a.txpad.isNone then o.txpad else a.txpad.intVal.toNat) ∧
    (upd4 a o).rxpad = o.rxpad ∧ (upd4 a o).rxExtAddress = o.rxExtAddress := by unfold upd4; split <;> simp
theorem upd5_proj : (upd5 a o).frameTxtime = o.frameTxtime ∧ (upd5 a o).extAddress = o.extAddress ∧ (upd5 a o).txpad = o.txpad ∧
    (upd5 a o).rxpad = (if a.rxpad.isNone then o.rxpad else a.rxpad.intVal.toNat) ∧
    (upd5 a o).rxExtAddress = o.rxExtAddress := by unfold upd5; split <;> simp
theorem upd6_proj : (upd6 a o).frameTxtime = o.frameTxtime ∧ (upd6 a o).extAddress = o.extAddress ∧ (upd6 a o).txpad = o.txpad ∧
    (upd6 a o).rxpad = o.rxpad ∧
    (upd6 a o).rxExtAddress = (if a.rxExtAddress.isNone then o.rxExtAddress else a.rxExtAddress.intVal.toNat) := by
  unfold upd6; split <;> simp
theorem upd7_proj : (upd7 a o).frameTxtime = o.frameTxtime ∧ (upd7 a o).extAddress = o.extAddress ∧ (upd7 a o).txpad = o.txpad ∧
    (upd7 a o).rxpad = o.rxpad ∧ (upd7 a o).rxExtAddress = o.rxExtAddress := by unfold upd7; split <;> simp
end updProj

/-- **every field not given to `write` keeps the value `read` returned** (and a given one holds the given value): the five non-flag
    fields of the returned object, against `r = parseOpts (layoutOpts s.k.opts)`, the object `read` delivered; and `optflag` itself is
    `read`'s when nothing that touches the flags is given -/
theorem writeOpts_keeps (s : Sock) (a : OptsArgs) (s' : Sock) (o' : KOpts) (h : writeOpts s a = .ok (s', o')) :
    o'.frameTxtime = (if a.frameTxtime.isNone then (parseOpts (layoutOpts s.k.opts)).frameTxtime else a.frameTxtime.intVal.toNat) ∧
    o'.extAddress = (if a.extAddress.isNone then (parseOpts (layoutOpts s.k.opts)).extAddress else a.extAddress.intVal.toNat) ∧
    o'.txpad = (if a.txpad.isNone then (parseOpts (layoutOpts s.k.opts)).txpad else a.txpad.intVal.toNat) ∧
    o'.rxpad = (if a.rxpad.isNone then (parseOpts (layoutOpts s.k.opts)).rxpad else a.rxpad.intVal.toNat) ∧
    o'.rxExtAddress = (if a.rxExtAddress.isNone then (parseOpts (layoutOpts s.k.opts)).rxExtAddress else a.rxExtAddress.intVal.toNat) ∧
    (a.optflag.isNone = true → a.extAddress.isNone = true → a.txpad.isNone = true → a.rxpad.isNone = true →
      a.rxExtAddress.isNone = true → a.txStmin.isNone = true → o'.flags = (parseOpts (layoutOpts s.k.opts)).flags) := by
  obtain ⟨_, _, ho⟩ := writeOpts_result s a s' o' h
  subst ho
  generalize parseOpts (layoutOpts s.k.opts) = r
  refine ⟨?_, ?_, ?_, ?_, ?_, ?_⟩
  · simp only [updFields, (upd7_proj a _).1, (upd6_proj a _).1, (upd5_proj a _).1, (upd4_proj a _).1, (upd3_proj a _).1,
      (upd2_proj a _).1, (upd1_proj a _).1]
  · simp only [updFields, (upd7_proj a _).2.1, (upd6_proj a _).2.1, (upd5_proj a _).2.1, (upd4_proj a _).2.1, (upd3_proj a _).2.1,
      (upd2_proj a _).2.1, (upd1_proj a _).2.1]
  · simp only [updFields, (upd7_proj a _).2.2.1, (upd6_proj a _).2.2.1, (upd5_proj a _).2.2.1, (upd4_proj a _).2.2.1,
      (upd3_proj a _).2.2.1, (upd2_proj a _).2.2.1, (upd1_proj a _).2.2.1]
  · simp only [updFields, (upd7_proj a _).2.2.2.1, (upd6_proj a _).2.2.2.1, (upd5_proj a _).2.2.2.1, (upd4_proj a _).2.2.2.1,
      (upd3_proj a _).2.2.2.1, (upd2_proj a _).2.2.2.1, (upd1_proj a _).2.2.2.1]
  · simp only [updFields, (upd7_proj a _).2.2.2.2, (upd6_proj a _).2.2.2.2, (upd5_proj a _).2.2.2.2, (upd4_proj a _).2.2.2.2,
      (upd3_proj a _).2.2.2.2, (upd2_proj a _).2.2.2.2, (upd1_proj a _).2.2.2.2]
  · intro n1 n3 n4 n5 n6 n7
    simp [updFields, upd1, upd2, upd3, upd4, upd5, upd6, upd7, n1, n3, n4, n5, n6, n7]
    split <;> rfl

/-- the same for `FlowControlOpts` and `LinkLayerOpts`: the kernel afterwards holds what was packed, and each field is the given value
    or, when not given, what `read` returned -/
theorem writeFc_result (s : Sock) (x y z : PyVal) (s' : Sock) (o' : KFc) (h : writeFc s x y z = .ok (s', o')) :
    s'.k.fc = parseFc (layoutFc o') ∧
    o'.bs = (if x.isNone then (parseFc (layoutFc s.k.fc)).bs else x.intVal.toNat) ∧
    o'.stmin = (if y.isNone then (parseFc (layoutFc s.k.fc)).stmin else y.intVal.toNat) ∧
    o'.wftmax = (if z.isNone then (parseFc (layoutFc s.k.fc)).wftmax else z.intVal.toNat) := by
  rw [writeFc_eq] at h
  cases hr : rej x 0xFF || rej y 0xFF || rej z 0xFF
  case true => simp [hr] at h
  simp only [hr, Bool.false_eq_true, if_false, Except.ok.injEq, Prod.mk.injEq] at h
  obtain ⟨hs', ho'⟩ := h
  subst ho' hs'
  refine ⟨by simp [Sock.sso, Kernel.setsockopt, optRECV_FC, optOPTS], ?_, ?_, ?_⟩ <;>
    (simp only [fcUpd1, fcUpd2, fcUpd3]; cases x.isNone <;> cases y.isNone <;> cases z.isNone <;> rfl)

theorem writeLl_result (s : Sock) (x y z : PyVal) (s' : Sock) (o' : KLl) (h : writeLl s x y z = .ok (s', o')) :
    s'.k.ll = parseLl (layoutLl o') ∧
    o'.mtu = (if x.isNone then (parseLl (layoutLl s.k.ll)).mtu else x.intVal.toNat) ∧
    o'.txDl = (if y.isNone then (parseLl (layoutLl s.k.ll)).txDl else y.intVal.toNat) ∧
    o'.txFlags = (if z.isNone then (parseLl (layoutLl s.k.ll)).txFlags else z.intVal.toNat) := by
  rw [writeLl_eq] at h
  cases hr : rej x 0xFF || rej y 0xFF || rej z 0xFF
  case true => simp [hr] at h
  simp only [hr, Bool.false_eq_true, if_false, Except.ok.injEq, Prod.mk.injEq] at h
  obtain ⟨hs', ho'⟩ := h
  subst ho' hs'
  refine ⟨by simp [Sock.sso, Kernel.setsockopt, optRECV_FC, optOPTS, optLL_OPTS], ?_, ?_, ?_⟩ <;>
    (simp only [llUpd1, llUpd2, llUpd3]; cases x.isNone <;> cases y.isNone <;> cases z.isNone <;> rfl)

/-- `read` after an accepted `FlowControlOpts.write` / `LinkLayerOpts.write` delivers the kernel's copy of what was packed -/
theorem flow_control_opts_read_after_write (isSock : PV → Bool) (s : Sock) (x y z : PyVal) (s' : Sock) (o' : KFc)
    (h : writeFc s x y z = .ok (s', o')) (env : Env) (v : PV) (hF : ReadFrame env v "CAN_ISOTP_RECV_FC" 3) (hv : isSock v = true) :
    runFn (readM isSock (kGetsockopt s'.k)) env Src.FlowControlOpts_read =
      .ok (.meth "o", afterRead env (layoutFc (parseFc (layoutFc o'))) fcTargets
        [(parseFc (layoutFc (parseFc (layoutFc o')))).bs, (parseFc (layoutFc (parseFc (layoutFc o')))).stmin,
         (parseFc (layoutFc (parseFc (layoutFc o')))).wftmax]) := by
  rw [flow_control_opts_read_agrees isSock s' env v hF hv, (writeFc_result s x y z s' o' h).1]

theorem link_layer_opts_read_after_write (isSock : PV → Bool) (s : Sock) (x y z : PyVal) (s' : Sock) (o' : KLl)
    (h : writeLl s x y z = .ok (s', o')) (env : Env) (v : PV) (hF : ReadFrame env v "CAN_ISOTP_LL_OPTS" 3) (hv : isSock v = true) :
    runFn (readM isSock (kGetsockopt s'.k)) env Src.LinkLayerOpts_read =
      .ok (.meth "o", afterRead env (layoutLl (parseLl (layoutLl o'))) llTargets
        [(parseLl (layoutLl (parseLl (layoutLl o')))).mtu, (parseLl (layoutLl (parseLl (layoutLl o')))).txDl,
         (parseLl (layoutLl (parseLl (layoutLl o')))).txFlags]) := by
  rw [link_layer_opts_read_agrees isSock s' env v hF hv, (writeLl_result s x y z s' o' h).1]

/-! ## 8. non-vacuity: the hypotheses are satisfiable, and concrete runs -/

/-- a reader's frame: the socket object, the module constants as dumped, the class's `struct_size` -/
def exReadEnv (v : PV) (size : Nat) : Env := fun k =>
  match k with
  | "s" => some v
  | "SOL_CAN_ISOTP" => some (pint (solCanIsotp : Nat))
  | "cls.struct_size" => some (pint (size : Nat))
  | _ => constEnv k

def exIsSock (v : PV) : Bool := v == .meth "s"

example : ReadFrame (exReadEnv (.meth "s") 12) (.meth "s") "CAN_ISOTP_OPTS" 12 := ⟨rfl, rfl, rfl, rfl⟩
example : ReadFrame (exReadEnv (.meth "s") 3) (.meth "s") "CAN_ISOTP_RECV_FC" 3 := ⟨rfl, rfl, rfl, rfl⟩
example : ReadFrame (exReadEnv (.meth "s") 3) (.meth "s") "CAN_ISOTP_LL_OPTS" 3 := ⟨rfl, rfl, rfl, rfl⟩

/-- group 1: reading a fresh kernel socket gives the kernel defaults (`txpad = rxpad = 0xCC`); a non-socket is refused; an accepted
    `write` exists and `read` after it returns the written pad byte while `frame_txtime` (not given) keeps the value read before -/
example :
    (∃ env', runFn (readM exIsSock (kGetsockopt ({} : Sock).k)) (exReadEnv (.meth "s") 12) Src.GeneralOpts_read = .ok (.meth "o", env') ∧
      env' "o.txpad" = some (pint 0xCC) ∧ env' "o.optflag" = some (pint 0)) ∧
    runFn (readM exIsSock (kGetsockopt ({} : Sock).k)) (exReadEnv (pint 5) 12) Src.GeneralOpts_read = .error (.exc .ValueError) ∧
    (∃ s' o', writeOpts ({} : Sock) { txpad := .int 0x55 } = .ok (s', o') ∧ o'.txpad = 0x55 ∧ o'.frameTxtime = 0 ∧
      ∃ env', runFn (readM exIsSock (kGetsockopt s'.k)) (exReadEnv (.meth "s") 12) Src.GeneralOpts_read = .ok (.meth "o", env') ∧
        env' "o.txpad" = some (pint 0x55)) := by
  refine ⟨⟨_, general_opts_read_agrees exIsSock {} _ _ ⟨rfl, rfl, rfl, rfl⟩ rfl, ?_, ?_⟩, ?_, ?_⟩
  · simp [afterRead, genTargets, bindAll, set_get]; decide
  · simp [afterRead, genTargets, bindAll, set_get]; decide
  · exact read_rejects_non_socket exIsSock _ _ (pint 5) ⟨rfl, rfl, rfl, rfl⟩ rfl
  · have hw : ∃ s' o', writeOpts ({} : Sock) { txpad := .int 0x55 } = .ok (s', o') ∧ o'.txpad = 0x55 ∧ o'.frameTxtime = 0 :=
      ⟨_, _, rfl, by decide, by decide⟩
    obtain ⟨s', o', h, h1, h2⟩ := hw
    refine ⟨s', o', h, h1, h2, _, general_opts_read_after_write exIsSock _ _ s' o' h _ _ ⟨rfl, rfl, rfl, rfl⟩ rfl, ?_⟩
    simp [afterRead, genTargets, bindAll, set_get, h1]

/-- group 2: the frame of `socket.__init__(timeout=0.5)` on Linux (`AF_CAN = 29`, `SOCK_DGRAM = 2`, `CAN_ISOTP = 6`) -/
def exSockEnv (t : PyVal) : Env := fun k =>
  match k with
  | "self" => some (.meth "self")
  | "timeout" => some (.sc (.py t))
  | "socket_module.AF_CAN" => some (pint 29)
  | "socket_module.SOCK_DGRAM" => some (pint 2)
  | "socket_module.CAN_ISOTP" => some (pint 6)
  | _ => none

/-- a kernel socket constructor that insists on `(AF_CAN, SOCK_DGRAM, CAN_ISOTP)`, and a `settimeout` that records its argument -/
def exK : List PV → Except PErr PV
  | [a, b, c] => if a = pint 29 ∧ b = pint 2 ∧ c = pint 6 then .ok (.meth "ksock") else .error (.exc .TypeError)
  | _ => .error (.exc .TypeError)
def exST : List PV → Env → Except PErr Env
  | [t], env => .ok (env.set "#timeout" t)
  | _, _ => .error (.exc .TypeError)

example :
    (∃ env', runFn (sockInitM true exK exST) (exSockEnv (.float 1 2)) Src.socket_init = .ok (pnone, env') ∧
      env' "#timeout" = some (.sc (.py (.float 1 2))) ∧ env' "self.bound" = some (pbool false) ∧
      env' "self._socket" = some (.meth "ksock")) ∧
    (∃ env', runFn (sockInitM true exK exST) (exSockEnv .none) Src.socket_init = .ok (pnone, env') ∧ env' "#timeout" = none) ∧
    (∃ env', runFn (sockInitM true exK exST) (exSockEnv (.int 0)) Src.socket_init = .ok (pnone, env') ∧ env' "#timeout" = none) ∧
    runFn (sockInitM false exK exST) (exSockEnv (.int 3)) Src.socket_init = .error (.exc .NotImplementedError) := by
  refine ⟨⟨(sockInitEnv (exSockEnv (.float 1 2)) (.meth "ksock")).set "#timeout" (.sc (.py (.float 1 2))), ?_, ?_⟩,
    ⟨sockInitEnv (exSockEnv .none) (.meth "ksock"), ?_, ?_⟩, ⟨sockInitEnv (exSockEnv (.int 0)) (.meth "ksock"), ?_, ?_⟩, ?_⟩
  · rw [socket_init_agrees true exK exST _ (.float 1 2) (pint 29) (pint 2) (pint 6) rfl rfl rfl rfl]
    simp [exK, timeoutCond_float, exST]
  · simp [set_get, sockInitEnv]
  · rw [socket_init_agrees true exK exST _ .none (pint 29) (pint 2) (pint 6) rfl rfl rfl rfl]
    simp [exK, timeoutCond_none]
  · simp [set_get, sockInitEnv, exSockEnv]
  · rw [socket_init_agrees true exK exST _ (.int 0) (pint 29) (pint 2) (pint 6) rfl rfl rfl rfl]
    simp [exK, timeoutCond_int]
  · simp [set_get, sockInitEnv, exSockEnv]
  · rw [socket_init_agrees false exK exST _ (.int 3) (pint 29) (pint 2) (pint 6) rfl rfl rfl rfl]
    rfl

/-- group 3: the constructor's frame exists for every model message (`can_message_init_shows` runs on it) -/
example (m : CanMsg) : ∃ env', runFn noMeths (canMsgCtorEnv m) Src.CanMessage_init = .ok (pnone, env') ∧ SelfShows env' m :=
  can_message_init_shows noMeths m

/-- group 4: the adapter's frame exists for every model message (`PyCan.isotpMsgEnv`), and a run with the counting `send` -/
example (m : CanMsg) : IsotpMsgShows (isotpMsgEnv m) m := isotpMsgEnv_shows m

def exMkTxEnv : Env := fun k =>
  match k with
  | "owner" => some (.meth "owner")
  | "can.Message.__init__" => some (.meth "can.Message.__init__")
  | "python_can_tx_canbus_3plus" => some (.meth "python_can_tx_canbus_3plus")
  | "python_can_tx_canbus_3minus" => some (.meth "python_can_tx_canbus_3minus")
  | _ => none

example : MkTxFrame exMkTxEnv (.meth "owner") (.meth "can.Message.__init__") (.meth "python_can_tx_canbus_3plus")
    (.meth "python_can_tx_canbus_3minus") := ⟨rfl, rfl, rfl, rfl⟩

/-- both branches of `make_python_can_tx_func_branches` are reachable (tests `True` / `False` in the place of the membership test) -/
example (Sg At P C : List PV → Except PErr PV) :
    (∀ ps, eval (mkTxM Sg At P C) (exMkTxEnv.set "message_input_args" ps) .tt = .ok (pbool true)) ∧
    (∀ ps, eval (mkTxM Sg At P C) (exMkTxEnv.set "message_input_args" ps) .ff = .ok (pbool false)) :=
  ⟨fun _ => by simp [eval], fun _ => by simp [eval]⟩

/-- group 5: a frame of `CanStack.__init__` / `NotifierBasedCanStack.__init__`, an `update` that keeps the names, and a run under the
    recording base constructor -/
def exStackEnv (avail : Bool) : Env := fun k =>
  match k with
  | "_can_available" => some (pbool avail)
  | "self" => some (.meth "self")
  | "bus" => some (.meth "bus")
  | "notifier" => some (.meth "notifier")
  | "self._rx_canbus" => some (.meth "self._rx_canbus")
  | "args" => some (.meth "args")
  | "kwargs" => some (.meth "kwargs")
  | _ => none

def exU : List PV → Env → Except PErr Env := fun vs env => .ok (env.set "#kwargs.update" (.list [.py (.int vs.length)]))

theorem exU_keeps : Keeps exU ["args", "kwargs", "#base_init.calls"] := by
  intro vs e e' h k hk
  simp only [exU, Except.ok.injEq] at h
  subst h
  have : k ≠ "#kwargs.update" := by rintro rfl; revert hk; decide
  simp [set_get, this]

example (avail : Bool) : StackFrame (exStackEnv avail) avail (.meth "self") (.meth "bus") (.meth "self._rx_canbus") (.meth "args")
    (.meth "kwargs") := ⟨rfl, rfl, rfl, rfl, rfl, rfl⟩

example :
    (∃ env', runFn (stackM (· == .meth "bus") (· == .meth "notifier") (fun _ => .ok (.meth "tx")) (fun _ => .ok (.meth "dict")) exU
        (recBase [.meth "args", .meth "kwargs"] id)) (exStackEnv true) Src.CanStack_init = .ok (pnone, env') ∧
      env' "#base_init.calls" = some (pint 1) ∧ env' "self.bus" = some (.meth "bus")) ∧
    runFn (stackM (· == .meth "bus") (· == .meth "notifier") (fun _ => .ok (.meth "tx")) (fun _ => .ok (.meth "dict")) exU
        (recBase [.meth "kwargs", .meth "args"] id)) (exStackEnv true) Src.CanStack_init =
      .error (.unsupported "base constructor called with other arguments") ∧
    runFn (stackM (· == .meth "bus") (· == .meth "notifier") (fun _ => .ok (.meth "tx")) (fun _ => .ok (.meth "dict")) exU
        (recBase [.meth "args", .meth "kwargs"] id)) (exStackEnv false) Src.CanStack_init = .error (.exc .RuntimeError) ∧
    runFn (stackM (fun _ => false) (· == .meth "notifier") (fun _ => .ok (.meth "tx")) (fun _ => .ok (.meth "dict")) exU
        (recBase [.meth "args", .meth "kwargs"] id)) (exStackEnv true) Src.CanStack_init = .error (.exc .ValueError) ∧
    runFn (stackM (· == .meth "bus") (fun _ => false) (fun _ => .ok (.meth "tx")) (fun _ => .ok (.meth "dict")) exU
        (recBase [.meth "args", .meth "kwargs"] id)) (exStackEnv true) Src.NotifierBasedCanStack_init = .error (.exc .ValueError) := by
  have hU' : Keeps exU ["args", "kwargs"] := fun vs e e' h k hk => exU_keeps vs e e' h k (by revert hk; simp; rintro (rfl | rfl) <;> simp)
  refine ⟨⟨(id (((exStackEnv true).set "self.bus" (.meth "bus")).set "#kwargs.update" (.list [.py (.int 1)]))).set "#base_init.calls"
    (pint (callsOf (exStackEnv true) + 1)), ?_, ?_, ?_⟩, ?_, ?_, ?_, ?_⟩
  · exact (can_stack_init_calls_base_once _ _ _ _ exU _ id exU_keeps (exStackEnv true) _ _ _ _ _ (.meth "tx") (.meth "dict") _
      ⟨rfl, rfl, rfl, rfl, rfl, rfl⟩ rfl rfl rfl rfl).trans (if_pos rfl)
  · simp [set_get, callsOf, exStackEnv]
  · simp [set_get]
  · exact (can_stack_init_calls_base_once _ _ _ _ exU _ id exU_keeps (exStackEnv true) _ _ _ _ _ (.meth "tx") (.meth "dict") _
      ⟨rfl, rfl, rfl, rfl, rfl, rfl⟩ rfl rfl rfl rfl).trans (if_neg (by decide))
  · rw [can_stack_init_agrees _ _ _ _ exU _ hU' (exStackEnv false) false _ _ _ _ _ ⟨rfl, rfl, rfl, rfl, rfl, rfl⟩]; rfl
  · rw [can_stack_init_agrees _ _ _ _ exU _ hU' (exStackEnv true) true _ _ _ _ _ ⟨rfl, rfl, rfl, rfl, rfl, rfl⟩]; rfl
  · rw [notifier_stack_init_agrees _ _ _ _ exU _ hU' (exStackEnv true) true _ _ (.meth "notifier") _ _ _
      ⟨rfl, rfl, rfl, rfl, rfl, rfl⟩ rfl]; rfl

/-- group 6: seven attributes, all cleared -/
example : eventAttrs.length = 7 ∧ ∀ k ∈ eventAttrs, eventsEnv (fun _ => none) k = some (pbool false) := by
  refine ⟨rfl, ?_⟩
  intro k hk
  obtain ⟨b, hb, he⟩ := (events_init_shows_cleared (fun _ => none)).1 k hk
  simp only [eventAttrs, List.mem_cons, List.not_mem_nil, or_false] at hk
  rcases hk with rfl | rfl | rfl | rfl | rfl | rfl | rfl <;> simp [eventsEnv, set_get]

end Isotp.PyAgree.Ctors

#print axioms Isotp.PyAgree.Ctors.nb
#print axioms Isotp.PyAgree.Ctors.bindAll_other
#print axioms Isotp.PyAgree.Ctors.assert_is_socket_agrees
#print axioms Isotp.PyAgree.Ctors.assertIsSocket_eq
#print axioms Isotp.PyAgree.Ctors.length_layoutOpts
#print axioms Isotp.PyAgree.Ctors.length_layoutFc
#print axioms Isotp.PyAgree.Ctors.length_layoutLl
#print axioms Isotp.PyAgree.Ctors.structUnpack_opts
#print axioms Isotp.PyAgree.Ctors.structUnpack_fc
#print axioms Isotp.PyAgree.Ctors.structUnpack_ll
#print axioms Isotp.PyAgree.Ctors.packArg_some
#print axioms Isotp.PyAgree.Ctors.structUnpack_pack_LLBBBB
#print axioms Isotp.PyAgree.Ctors.structUnpack_pack_BBB
#print axioms Isotp.PyAgree.Ctors.structUnpack_pack_L
#print axioms Isotp.PyAgree.Ctors.unpackName_gen
#print axioms Isotp.PyAgree.Ctors.unpackName_fc
#print axioms Isotp.PyAgree.Ctors.unpackName_ll
#print axioms Isotp.PyAgree.Ctors.readM_cls
#print axioms Isotp.PyAgree.Ctors.readM_gso
#print axioms Isotp.PyAgree.Ctors.readM_unpack
#print axioms Isotp.PyAgree.Ctors.readM_assert
#print axioms Isotp.PyAgree.Ctors.readM_gen
#print axioms Isotp.PyAgree.Ctors.readM_fc
#print axioms Isotp.PyAgree.Ctors.readM_ll
#print axioms Isotp.PyAgree.Ctors.unpackProc_o
#print axioms Isotp.PyAgree.Ctors.general_opts_read_src
#print axioms Isotp.PyAgree.Ctors.flow_control_opts_read_src
#print axioms Isotp.PyAgree.Ctors.link_layer_opts_read_src
#print axioms Isotp.PyAgree.Ctors.reader_run
#print axioms Isotp.PyAgree.Ctors.general_opts_read_run
#print axioms Isotp.PyAgree.Ctors.flow_control_opts_read_run
#print axioms Isotp.PyAgree.Ctors.link_layer_opts_read_run
#print axioms Isotp.PyAgree.Ctors.kGetsockopt_opts
#print axioms Isotp.PyAgree.Ctors.kGetsockopt_fc
#print axioms Isotp.PyAgree.Ctors.kGetsockopt_ll
#print axioms Isotp.PyAgree.Ctors.general_opts_read_agrees
#print axioms Isotp.PyAgree.Ctors.flow_control_opts_read_agrees
#print axioms Isotp.PyAgree.Ctors.link_layer_opts_read_agrees
#print axioms Isotp.PyAgree.Ctors.read_rejects_non_socket
#print axioms Isotp.PyAgree.Ctors.general_opts_read_attrs
#print axioms Isotp.PyAgree.Ctors.flow_control_opts_read_attrs
#print axioms Isotp.PyAgree.Ctors.link_layer_opts_read_attrs
#print axioms Isotp.PyAgree.Ctors.general_opts_init_agrees
#print axioms Isotp.PyAgree.Ctors.flow_control_opts_init_agrees
#print axioms Isotp.PyAgree.Ctors.link_layer_opts_init_agrees
#print axioms Isotp.PyAgree.Ctors.init_fields_are_read_targets
#print axioms Isotp.PyAgree.Ctors.timeoutCond_int
#print axioms Isotp.PyAgree.Ctors.timeoutCond_float
#print axioms Isotp.PyAgree.Ctors.timeoutCond_none
#print axioms Isotp.PyAgree.Ctors.eval_timeoutCond
#print axioms Isotp.PyAgree.Ctors.socket_init_agrees
#print axioms Isotp.PyAgree.Ctors.socket_init_is_initial
#print axioms Isotp.PyAgree.Ctors.socket_settimeout_agrees
#print axioms Isotp.PyAgree.Ctors.socket_gettimeout_agrees
#print axioms Isotp.PyAgree.Ctors.socket_fileno_agrees
#print axioms Isotp.PyAgree.Ctors.can_message_init_agrees
#print axioms Isotp.PyAgree.Ctors.can_message_init_shows
#print axioms Isotp.PyAgree.Ctors.kwName_3minus
#print axioms Isotp.PyAgree.Ctors.kwName_3plus
#print axioms Isotp.PyAgree.Ctors.kws3minus_no_dlc
#print axioms Isotp.PyAgree.Ctors.kws3minus_vs_3plus
#print axioms Isotp.PyAgree.Ctors.pyCanTx3minusM_lookups
#print axioms Isotp.PyAgree.Ctors.python_can_tx_3minus_agrees
#print axioms Isotp.PyAgree.Ctors.python_can_tx_3minus_once
#print axioms Isotp.PyAgree.Ctors.python_can_tx_3minus_same_values
#print axioms Isotp.PyAgree.Ctors.make_python_can_tx_func_src
#print axioms Isotp.PyAgree.Ctors.make_python_can_tx_func_branches
#print axioms Isotp.PyAgree.Ctors.memTest_eval
#print axioms Isotp.PyAgree.Ctors.make_python_can_tx_func_agrees
#print axioms Isotp.PyAgree.Ctors.make_python_can_tx_func_choice
#print axioms Isotp.PyAgree.Ctors.can_stack_set_bus_agrees
#print axioms Isotp.PyAgree.Ctors.setBusCallee_eq
#print axioms Isotp.PyAgree.Ctors.stackM_isBus
#print axioms Isotp.PyAgree.Ctors.stackM_isNotif
#print axioms Isotp.PyAgree.Ctors.stackM_mk
#print axioms Isotp.PyAgree.Ctors.stackM_dict
#print axioms Isotp.PyAgree.Ctors.stackM_set_bus
#print axioms Isotp.PyAgree.Ctors.stackM_update
#print axioms Isotp.PyAgree.Ctors.stackM_base
#print axioms Isotp.PyAgree.Ctors.stack_tail_run
#print axioms Isotp.PyAgree.Ctors.can_stack_init_src
#print axioms Isotp.PyAgree.Ctors.can_stack_init_agrees
#print axioms Isotp.PyAgree.Ctors.notifier_stack_init_src
#print axioms Isotp.PyAgree.Ctors.notifier_stack_init_agrees
#print axioms Isotp.PyAgree.Ctors.can_stack_init_calls_base_once
#print axioms Isotp.PyAgree.Ctors.events_init_agrees
#print axioms Isotp.PyAgree.Ctors.events_init_shows_cleared
#print axioms Isotp.PyAgree.Ctors.events_init_obj
#print axioms Isotp.PyAgree.Ctors.set_rxfn_agrees
#print axioms Isotp.PyAgree.Ctors.optsWf_wf
#print axioms Isotp.PyAgree.Ctors.upd1_wf
#print axioms Isotp.PyAgree.Ctors.upd2_wf
#print axioms Isotp.PyAgree.Ctors.upd3_wf
#print axioms Isotp.PyAgree.Ctors.upd4_wf
#print axioms Isotp.PyAgree.Ctors.upd5_wf
#print axioms Isotp.PyAgree.Ctors.upd6_wf
#print axioms Isotp.PyAgree.Ctors.upd7_wf
#print axioms Isotp.PyAgree.Ctors.writeOpts_result
#print axioms Isotp.PyAgree.Ctors.general_opts_read_after_write
#print axioms Isotp.PyAgree.Ctors.upd1_proj
#print axioms Isotp.PyAgree.Ctors.upd2_proj
#print axioms Isotp.PyAgree.Ctors.upd3_proj
#print axioms Isotp.PyAgree.Ctors.upd4_proj
#print axioms Isotp.PyAgree.Ctors.upd5_proj
#print axioms Isotp.PyAgree.Ctors.upd6_proj
#print axioms Isotp.PyAgree.Ctors.upd7_proj
#print axioms Isotp.PyAgree.Ctors.writeOpts_keeps
#print axioms Isotp.PyAgree.Ctors.writeFc_result
#print axioms Isotp.PyAgree.Ctors.writeLl_result
#print axioms Isotp.PyAgree.Ctors.flow_control_opts_read_after_write
#print axioms Isotp.PyAgree.Ctors.link_layer_opts_read_after_write
#print axioms Isotp.PyAgree.Ctors.exU_keeps
