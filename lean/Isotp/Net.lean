import Isotp.Process
/-
  The multi-layer "network" the driver runs for the two-peer properties (C01, C10, C11, C18):
  layers, one outgoing FIFO link per layer, a global clock, optional single link fault per layer.
  `Main.lean` executes exactly these functions (so the correspondence check ties them to real layers
  joined by queues), and the network-level theorems are stated about them.
-/
namespace Isotp

structure Net where
  layers  : Array State := #[]
  outbox  : Array (List CanMsg) := #[]            -- frames emitted by layer i, not yet delivered (FIFO)
  now     : Nat := 0
  emitted : Array Nat := #[]                      -- frames emitted so far per layer
  faults  : Array (Option (Bool × Nat)) := #[]   -- armed link fault per layer: (dup?, index of the emitted frame)
  deriving Inhabited

namespace Net

/-- frames handed to `txfn` during an operation, in order -/
def txOf (evs : List Ev) : List CanMsg :=
  evs.filterMap fun e => match e with | .tx _ m => some m | _ => none

/-- what the link of a layer does to the frames emitted during one operation (`n0` = frames emitted before) -/
def route (fault : Option (Bool × Nat)) (n0 : Nat) (txs : List CanMsg) : List CanMsg :=
  match fault with
  | none => txs
  | some (dup, k) =>
    (txs.zipIdx.map fun (m, j) => if n0 + j = k then (if dup then [m, m] else []) else [m]).flatten

/-- Run an operation on layer `i`: the layer sees the global clock, its new events are collected, the
    frames it emitted are appended to its outgoing link, the clock follows the layer's (a blocking read
    may have advanced it); a Python exception does not persist (`exc` is reported and cleared).
    Returns the new network, the layer state right after the operation, its events (oldest first) and
    the operation's own result. -/
def onLayer {α : Type} (d : Net) (i : Nat) (f : State → State × α) : Option (Net × State × List Ev × α) :=
  match d.layers[i]? with
  | none => none
  | some s0 =>
    let s0 := { s0 with now := d.now, log := [] }
    let (s, res) := f s0
    let evs := s.log.reverse
    let txs := txOf evs
    let n0 := d.emitted[i]?.getD 0
    let out := (d.outbox[i]?.getD []) ++ route (d.faults[i]?.getD none) n0 txs
    let s' := { s with log := [], exc := none }
    some ({ d with layers := d.layers.set! i s', outbox := d.outbox.set! i out, now := s.now,
                   emitted := d.emitted.set! i (n0 + txs.length) }, s, evs, res)

/-- move the first `n` frames of layer `i`'s link into the inbox of every layer in `dst` (zero extra delay) -/
def deliver (d : Net) (i : Nat) (dst : List Nat) (n : Nat) : Option (Net × Nat) :=
  let ob := d.outbox[i]?.getD []
  let mv := ob.take n
  let d := { d with outbox := d.outbox.set! i (ob.drop n) }
  if dst.all (fun j => (d.layers[j]?).isSome) then
    let layers := dst.foldl (fun ls j =>
      match ls[j]? with
      | some s => ls.set! j (mv.foldl (fun s m => s.pushFrame 0 m) s)
      | none => ls) d.layers
    some ({ d with layers := layers }, mv.length)
  else none

def tick (d : Net) (dt : Nat) : Net := { d with now := d.now + dt }

/-- add (or replace) layer `i` -/
def setLayer (d : Net) (i : Nat) (s : State) : Net :=
  { d with layers := if i < d.layers.size then d.layers.set! i s else d.layers.push s,
           outbox := if i < d.outbox.size then d.outbox.set! i [] else d.outbox.push [],
           emitted := if i < d.emitted.size then d.emitted.set! i 0 else d.emitted.push 0,
           faults := if i < d.faults.size then d.faults.set! i none else d.faults.push none }

end Net
end Isotp
