import Isotp.Net
import Isotp.Proofs.Safe
import Isotp.Proofs.NetMicro
/-
  Network-level safety (C01 / C10), part 3: what the events of a layer say (frames read from the bus, frames
  handed to `txfn`, errors), and what each micro-step of `process()` adds to the log.
  Conservation at one layer: the frames read so far followed by the inbox is invariant under `process()`.
-/
namespace Isotp.NetP
open Isotp Isotp.State

/-! ### projections of an event list (oldest first) -/

def Ev.isErr : Ev → Bool
  | .err _ _ => true
  | _ => false

/-- no error was handed to the error handler -/
def noErr (evs : List Ev) : Bool := evs.all (fun e => !Ev.isErr e)

/-- the frames `rxfn` returned, in order -/
def rxOf (evs : List Ev) : List CanMsg :=
  evs.filterMap fun e => match e with | .rx _ m => some m | _ => none

theorem noErr_append (a b : List Ev) : noErr (a ++ b) = (noErr a && noErr b) := by simp [noErr]
theorem noErr_reverse (a : List Ev) : noErr a.reverse = noErr a := by simp [noErr]
theorem rxOf_append (a b : List Ev) : rxOf (a ++ b) = rxOf a ++ rxOf b := by simp [rxOf]
theorem txOf_append (a b : List Ev) : Net.txOf (a ++ b) = Net.txOf a ++ Net.txOf b := by simp [Net.txOf]

/-- events that are neither a frame read nor a frame written -/
def Ev.internal : Ev → Bool
  | .rx _ _ | .tx _ _ => false
  | _ => true

theorem rxOf_internal (l : List Ev) (h : ∀ e ∈ l, Ev.internal e = true) : rxOf l = [] := by
  induction l with
  | nil => rfl
  | cons e l ih =>
    have he := h e List.mem_cons_self
    have := ih (fun x hx => h x (List.mem_cons_of_mem _ hx))
    cases e <;> simp_all [rxOf, Ev.internal]

theorem txOf_internal (l : List Ev) (h : ∀ e ∈ l, Ev.internal e = true) : Net.txOf l = [] := by
  induction l with
  | nil => rfl
  | cons e l ih =>
    have he := h e List.mem_cons_self
    have := ih (fun x hx => h x (List.mem_cons_of_mem _ hx))
    cases e <;> simp_all [Net.txOf, Ev.internal]

theorem internal_of_rx (e : Ev) (h : Ev.rxInternal e = true) : Ev.internal e = true := by
  cases e <;> simp_all [Ev.rxInternal, Ev.internal]
theorem internal_of_tx (e : Ev) (h : Ev.txInternal e = true) : Ev.internal e = true := by
  cases e <;> simp_all [Ev.txInternal, Ev.internal]

/-- the log (newest first) extended by internal events -/
def IntExt (l l' : List Ev) : Prop := ∃ new, l' = new ++ l ∧ ∀ e ∈ new, Ev.internal e = true

theorem IntExt.refl (l : List Ev) : IntExt l l := ⟨[], rfl, by simp⟩
theorem IntExt.of_eq {l l' : List Ev} (h : l' = l) : IntExt l l' := h ▸ IntExt.refl l
theorem IntExt.trans {a b c : List Ev} (h1 : IntExt a b) (h2 : IntExt b c) : IntExt a c := by
  obtain ⟨n1, rfl, p1⟩ := h1
  obtain ⟨n2, rfl, p2⟩ := h2
  exact ⟨n2 ++ n1, by simp, fun e he => (List.mem_append.mp he).elim (p2 e) (p1 e)⟩
theorem IntExt.of_rx {l l' : List Ev} (h : LogExt Ev.rxInternal l l') : IntExt l l' := by
  obtain ⟨new, rfl, p⟩ := LogExt.iff_append.mp h
  exact ⟨new, rfl, fun e he => internal_of_rx e (p e he)⟩
theorem IntExt.of_tx {l l' : List Ev} (h : LogExt Ev.txInternal l l') : IntExt l l' := by
  obtain ⟨new, rfl, p⟩ := LogExt.iff_append.mp h
  exact ⟨new, rfl, fun e he => internal_of_tx e (p e he)⟩
theorem IntExt.cons (l : List Ev) (e : Ev) (h : Ev.internal e = true) : IntExt l (e :: l) :=
  ⟨[e], rfl, by simpa using h⟩

theorem IntExt.rxOf {l l' : List Ev} (h : IntExt l l') (L : List Ev) :
    rxOf (l' ++ L).reverse = rxOf (l ++ L).reverse := by
  obtain ⟨new, rfl, p⟩ := h
  simp only [List.reverse_append, rxOf_append]
  rw [rxOf_internal new.reverse (fun e he => p e (List.mem_reverse.mp he))]
  simp

theorem IntExt.txOf {l l' : List Ev} (h : IntExt l l') (L : List Ev) :
    Net.txOf (l' ++ L).reverse = Net.txOf (l ++ L).reverse := by
  obtain ⟨new, rfl, p⟩ := h
  simp only [List.reverse_append, txOf_append]
  rw [txOf_internal new.reverse (fun e he => p e (List.mem_reverse.mp he))]
  simp

/-- errors are never removed from the log -/
theorem IntExt.noErr {l l' : List Ev} (h : IntExt l l') (L : List Ev) (hn : noErr (l' ++ L) = true) :
    noErr (l ++ L) = true := by
  obtain ⟨new, rfl, _⟩ := h
  rw [List.append_assoc, noErr_append] at hn
  exact (Bool.and_eq_true _ _ ▸ hn).2

theorem noErr_cons (e : Ev) (l : List Ev) : noErr (e :: l) = (!Ev.isErr e && noErr l) := by simp [noErr]

/-! ### what the micro-steps add to the log -/

theorem arrive_log (s : State) (dt : Nat) (m : CanMsg) (rest : List (Nat × CanMsg)) :
    (arrive s dt m rest).log = .rx (s.now + dt) m :: s.log := rfl

/-- a frame iteration: the `rx` event, then internal events -/
theorem rxOne_log (s : State) (dt : Nat) (m : CanMsg) (rest : List (Nat × CanMsg)) :
    IntExt (.rx (s.now + dt) m :: s.log) (rxOne s dt m rest).log := by
  have h1 : IntExt (.rx (s.now + dt) m :: s.log) (arrive s dt m rest).checkTimeoutsRx.log :=
    IntExt.of_rx (RxFrame.checkTimeoutsRx (arrive s dt m rest)).log
  unfold rxOne
  split
  · exact h1.trans (IntExt.of_rx (RxFrame.processRx _ m).log)
  · exact h1

theorem rxEnd_log (s : State) : IntExt s.log (rxEnd s).log := by
  unfold rxEnd
  exact (IntExt.cons s.log (.rxNone s.now) rfl).trans
    (IntExt.of_rx (RxFrame.checkTimeoutsRx (({ s with inbox := [] } : State).emit (.rxNone s.now))).log)

theorem rxEnd_inbox (s : State) : (rxEnd s).inbox = [] := by
  unfold rxEnd; rw [checkTimeoutsRx_inbox]; rfl

theorem processTx_log (s : State) : IntExt s.log s.processTx.1.log := IntExt.of_tx (TxFrame.processTx s).log

/-- a transmit iteration: internal events, then the `tx` event if a frame was produced -/
theorem afterTxfn_log (s : State) :
    ∃ mid, IntExt s.log mid ∧ (afterTxfn s.processTx).log =
      (match s.processTx.2.1 with | some m => [Ev.tx s.processTx.1.now m] | none => []) ++ mid := by
  refine ⟨s.processTx.1.log, processTx_log s, ?_⟩
  unfold afterTxfn
  cases s.processTx.2.1 <;> rfl

theorem afterTxfn_inbox (s : State) : (afterTxfn s.processTx).inbox = s.inbox := by
  unfold afterTxfn
  cases s.processTx.2.1 <;> exact (TxFrame.processTx s).inbox

/-! ### conservation at one layer -/

/-- frames read so far (`L`: events of earlier operations, newest first), then the inbox -/
def seen (s : State) (L : List Ev) : List CanMsg := rxOf (s.log ++ L).reverse ++ s.inbox.map (·.2)

theorem seen_step (L : List Ev) (s s' : State) (h : Micro s s') : seen s' L = seen s L := by
  unfold seen
  cases h with
  | frame dt m rest hin =>
    rw [(rxOne_log s dt m rest).rxOf L, rxOne_inbox, hin]
    simp [rxOf, List.filterMap_append]
  | rxEnd hin =>
    rw [(rxEnd_log s).rxOf L, rxEnd_inbox, hin]
  | rl => rfl
  | tx hx =>
    obtain ⟨mid, h1, h2⟩ := afterTxfn_log s
    rw [afterTxfn_inbox, h2, ← h1.rxOf L]
    cases s.processTx.2.1 <;> simp [rxOf, List.filterMap_append]
  | txExc hx =>
    rw [(processTx_log s).rxOf L, (TxFrame.processTx s).inbox]

/-- `process()` reads the inbox front to back: frames read so far ++ inbox is invariant -/
theorem seen_process (L : List Ev) (s : State) (doRx doTx : Bool) : seen (s.process doRx doTx).1 L = seen s L :=
  process_ind (fun x => seen x L = seen s L) (fun a b ha hm => (seen_step L a b hm).trans ha) doRx doTx s rfl

/-- the frames handed to `txfn` by one micro-step -/
theorem txOf_step (L : List Ev) (s s' : State) (h : Micro s s') :
    ∃ out, Net.txOf (s'.log ++ L).reverse = Net.txOf (s.log ++ L).reverse ++ out := by
  cases h with
  | frame dt m rest hin =>
    refine ⟨[], ?_⟩
    rw [(rxOne_log s dt m rest).txOf L]
    simp [Net.txOf, List.filterMap_append]
  | rxEnd hin => exact ⟨[], by rw [(rxEnd_log s).txOf L]; simp⟩
  | rl => exact ⟨[], by simp [rlStage]⟩
  | tx hx =>
    obtain ⟨mid, h1, h2⟩ := afterTxfn_log s
    rw [h2, ← h1.txOf L]
    cases s.processTx.2.1 with
    | none => exact ⟨[], by simp⟩
    | some m => exact ⟨[m], by simp [Net.txOf, List.filterMap_append]⟩
  | txExc hx => exact ⟨[], by rw [(processTx_log s).txOf L]; simp⟩

end Isotp.NetP
