import Isotp.PyAgree.Threaded

/-!
  The worker thread of the threaded wrapper `TransportLayer` (isotp/protocol.py): `_main_thread_fn`, and the two guarded
  entry points `TransportLayer.process` / `TransportLayer.reset`, against the model `TL` (`Isotp/Threaded.lean`).
  Continues `Isotp/PyAgree/Threaded.lean` (same presentation: `ShowsW`, `St`, `Spec`, `CoreRel`; nothing of it is changed).
-/
namespace Isotp.PyAgree.Thr
open Isotp Isotp.Py

/-! ## 1. `TransportLayer.process` / `TransportLayer.reset` (the guards), on the dumped `Src.TransportLayer_process` /
  `Src.TransportLayer_reset`:
  `if self.started: raise RuntimeError(...)`; `return super().process(rx_timeout=rx_timeout, do_rx=do_rx, do_tx=do_tx)`   resp.
  `if self.started: raise RuntimeError(...)`; `super().reset()` -/

/-- **`process`, refusal**: on a started layer, `RuntimeError` at the first statement, whatever the callees are -/
theorem process_refuses (M : Meths) (env : Env) (h : env "self.started" = some (pbool true)) :
    runFn M env Src.TransportLayer_process = .error (.exc .RuntimeError) := by
  unfold runFn Src.TransportLayer_process
  simp only [execBlock, exec_guard M env true h, if_true, error_bind]

/-- **`process`, accepted**: on a layer that is not started the call is `super().process(...)` with exactly the three arguments it was
    given, and returns what that returns (raises what that raises).  In this semantics a call in expression position has a value and no
    effect on the environment (as `self.user_rxfn(timeout)` in `relay_body`): what `super().process` DOES to the object is the subject of
    `process_whole_agrees` (LayerWhole.lean); here: nothing else happens. -/
theorem process_hands_over (M : Meths) (env : Env) (v1 v2 v3 : PV) (h : env "self.started" = some (pbool false))
    (h1 : env "rx_timeout" = some v1) (h2 : env "do_rx" = some v2) (h3 : env "do_tx" = some v3) :
    runFn M env Src.TransportLayer_process =
      match M.fn "super().process#rx_timeout#do_rx#do_tx" [v1, v2, v3] env with
      | .ok v => .ok (v, env)
      | .error e => .error e := by
  have hb : evalBuiltin "super().process#rx_timeout#do_rx#do_tx" [v1, v2, v3] = none := evalBuiltin_none _ _ (by decide)
  have hcall : eval M env (.call "super().process#rx_timeout#do_rx#do_tx"
      (.cons (.var "rx_timeout") (.cons (.var "do_rx") (.cons (.var "do_tx") .nil)))) =
      M.fn "super().process#rx_timeout#do_rx#do_tx" [v1, v2, v3] env := by
    simp only [eval, evalArgs, h1, h2, h3, ok_bind, hb]
  have hg := exec_guard M env false h
  simp only [Bool.false_eq_true, if_false] at hg
  have hr : execStmt M env (.ret (.call "super().process#rx_timeout#do_rx#do_tx"
      (.cons (.var "rx_timeout") (.cons (.var "do_rx") (.cons (.var "do_tx") .nil))))) =
      match M.fn "super().process#rx_timeout#do_rx#do_tx" [v1, v2, v3] env with
      | .ok v => .ok (.returned v env)
      | .error e => .error e := by
    simp only [execStmt, hcall]
    cases M.fn "super().process#rx_timeout#do_rx#do_tx" [v1, v2, v3] env <;> rfl
  unfold runFn Src.TransportLayer_process
  simp only [execBlock, hg, ok_bind, hr]
  cases M.fn "super().process#rx_timeout#do_rx#do_tx" [v1, v2, v3] env <;> rfl

/-- **`process`** against `TL.process`: the source raises `RuntimeError` exactly when the model does so for the reason "started"; otherwise
    the model runs the logic layer's `process` on the frames the user's `rxfn` still has (`bus`), and the source hands the call, with its
    arguments, to the logic layer. -/
theorem process_agrees (M : Meths) (R : Env → State → Prop) (env : Env) (t : TL) (h : Shows R env t) (doRx doTx : Bool) (v1 : PV)
    (h1 : env "rx_timeout" = some v1) (h2 : env "do_rx" = some (pbool doRx)) (h3 : env "do_tx" = some (pbool doTx)) :
    (t.started = true →
      runFn M env Src.TransportLayer_process = .error (.exc .RuntimeError) ∧ TL.process t doRx doTx = (t, some .RuntimeError)) ∧
    (t.started = false →
      (runFn M env Src.TransportLayer_process =
        match M.fn "super().process#rx_timeout#do_rx#do_tx" [v1, pbool doRx, pbool doTx] env with
        | .ok v => .ok (v, env)
        | .error e => .error e) ∧
      TL.process t doRx doTx =
        (let c := ({ t.core with inbox := t.core.inbox ++ t.bus.map (fun m => (0, m)) } : State).process doRx doTx
         ({ t with core := c.1, bus := [] }, c.1.exc))) := by
  constructor
  · intro hs
    exact ⟨process_refuses M env (hs ▸ h.1.started), by simp [TL.process, hs]⟩
  · intro hs
    exact ⟨process_hands_over M env v1 _ _ (hs ▸ h.1.started) h1 h2 h3, by simp [TL.process, hs]⟩

/-- the source of `process` fails with `RuntimeError` of its own iff the layer is started (any other failure is the callee's) -/
theorem process_raises_iff (M : Meths) (R : Env → State → Prop) (env : Env) (t : TL) (h : Shows R env t) (v1 v2 v3 : PV)
    (h1 : env "rx_timeout" = some v1) (h2 : env "do_rx" = some v2) (h3 : env "do_tx" = some v3)
    (hcallee : M.fn "super().process#rx_timeout#do_rx#do_tx" [v1, v2, v3] env ≠ .error (.exc .RuntimeError)) :
    runFn M env Src.TransportLayer_process = .error (.exc .RuntimeError) ↔ t.started = true := by
  cases hs : t.started with
  | true => exact ⟨fun _ => rfl, fun _ => process_refuses M env (hs ▸ h.1.started)⟩
  | false =>
    rw [process_hands_over M env v1 v2 v3 (hs ▸ h.1.started) h1 h2 h3]
    constructor
    · intro hx
      cases hf : M.fn "super().process#rx_timeout#do_rx#do_tx" [v1, v2, v3] env with
      | ok v => rw [hf] at hx; cases hx
      | error e => rw [hf] at hx; simp only [Except.error.injEq] at hx; subst hx; exact absurd hf hcallee
    · intro hx; cases hx

/-- **`reset`, refusal** -/
theorem reset_refuses (M : Meths) (env : Env) (h : env "self.started" = some (pbool true)) :
    runFn M env Src.TransportLayer_reset = .error (.exc .RuntimeError) := by
  unfold runFn Src.TransportLayer_reset
  simp only [execBlock, exec_guard M env true h, if_true, error_bind]

/-- **`reset`** against `TL.reset`: `RuntimeError` exactly when the model says so; otherwise the run ends normally in an environment that
    shows `(TL.reset t).1` (the logic layer reset through `super().reset()`, everything else untouched). -/
theorem reset_agrees {M : Meths} {R : Env → State → Prop} (hM : Spec M R) (env : Env) (t : TL) (h : Shows R env t) :
    match (TL.reset t).2 with
    | some e => runFn M env Src.TransportLayer_reset = .error (.exc e)
    | none => ∃ env', runFn M env Src.TransportLayer_reset = .ok (pnone, env') ∧ Shows R env' (TL.reset t).1 ∧ ∀ k ∈ passiveKeys, env' k = env k := by
  cases hs : t.started with
  | true =>
    have : (TL.reset t).2 = some .RuntimeError := by simp [TL.reset, hs]
    rw [this]
    exact reset_refuses M env (hs ▸ h.1.started)
  | false =>
    have : (TL.reset t).2 = none := by simp [TL.reset, hs]
    rw [this]
    have h0 := St.init h
    obtain ⟨e1, x1, r1, f1⟩ := hM.superReset env t.core h0.c
    have h1 := h0.congr e1 _ f1 r1
    have hrun : Run M env Src.TransportLayer_reset (fun e => e = e1) := by
      unfold Src.TransportLayer_reset
      refine Run.cons (by rw [exec_guard M env false (hs ▸ h0.w.started)]; rfl) ?_
      refine Run.cons (exec_proc0 M env e1 _ (by decide) x1) ?_
      exact Run.nil rfl
    obtain ⟨env', x, rfl⟩ := hrun.toRunFn
    exact ⟨env', x, (h1.cast (by simp [TL.reset, hs])).shows, h1.keep⟩

/-- `reset` raises `RuntimeError` iff the layer is started, and fails in no other way -/
theorem reset_raises_iff {M : Meths} {R : Env → State → Prop} (hM : Spec M R) (env : Env) (t : TL) (h : Shows R env t) :
    (runFn M env Src.TransportLayer_reset = .error (.exc .RuntimeError) ↔ t.started = true) ∧
    ((∃ e, runFn M env Src.TransportLayer_reset = .error e) ↔ t.started = true) := by
  have := reset_agrees hM env t h
  cases hs : t.started with
  | true =>
    have hr := reset_refuses M env (hs ▸ h.1.started)
    exact ⟨⟨fun _ => rfl, fun _ => hr⟩, ⟨fun _ => rfl, fun _ => ⟨_, hr⟩⟩⟩
  | false =>
    have h2 : (TL.reset t).2 = none := by simp [TL.reset, hs]
    rw [h2] at this
    obtain ⟨env', x, -, -⟩ := this
    refine ⟨⟨fun hx => ?_, fun hx => by cases hx⟩, ⟨fun ⟨e, hx⟩ => ?_, fun hx => by cases hx⟩⟩
    · rw [x] at hx; cases hx
    · rw [x] at hx; cases hx


/-! ## 2. `_main_thread_fn`: the source, cut into its parts -/

/-- `not self.events.stop_requested.is_set()` (the loop test; the same expression as `relayCond`) -/
def workerCond : PExpr := .not_ (.call "self.events.stop_requested.is_set" .nil)

/-- `delay = self.next_cf_delay(); assert delay is not None; if delay > 0: self.params.wait_func(delay);
    if not self.events.stop_requested.is_set(): super().process(do_rx=False, do_tx=True)` -/
def cfBranch : PBlock :=
  .cons (.assign "delay" (.call "self.next_cf_delay" .nil))
  (.cons (.assert_ (.isNotNone (.var "delay")))
  (.cons (.ite (.cmp .gt (.var "delay") (.int (0))) (.cons (.expr (.call "self.params.wait_func" (.cons (.var "delay") .nil)))
    .nil) .nil)
  (.cons (.ite (.not_ (.call "self.events.stop_requested.is_set" .nil))
    (.cons (.expr (.call "super().process#do_rx#do_tx" (.cons .ff (.cons .tt .nil)))) .nil) .nil)
  .nil)))

/-- `rx_timeout = 0.0 if self.is_tx_throttled() else self.default_read_timeout; super().process(rx_timeout)` -/
def fullBranch : PBlock :=
  .cons (.assign "rx_timeout" (.ifexp (.call "self.is_tx_throttled" .nil) (.call "__float__" (.cons (.strLit "0.0") .nil))
    (.var "self.default_read_timeout")))
  (.cons (.expr (.call "super().process" (.cons (.var "rx_timeout") .nil)))
  .nil)

/-- `if not self.is_rx_active() and self.is_tx_transmitting_cf(): <cfBranch> else: <fullBranch>` -/
def procStmt : PStmt :=
  .ite (.and_ (.not_ (.call "self.is_rx_active" .nil)) (.call "self.is_tx_transmitting_cf" .nil)) cfBranch fullBranch

/-- `if self.events.reset_tx.is_set(): self._stop_sending(success=False); self.events.reset_tx.clear(); self.events.reset_tx_complete.set()` -/
def serveTxStmt : PStmt :=
  .ite (.call "self.events.reset_tx.is_set" .nil) (.cons (.expr (.call "self._stop_sending#success" (.cons .ff .nil)))
    (.cons (.expr (.call "self.events.reset_tx.clear" .nil))
    (.cons (.expr (.call "self.events.reset_tx_complete.set" .nil))
    .nil))) .nil

/-- `if self.events.reset_rx.is_set(): self._stop_receiving(); self.events.reset_rx.clear(); self.events.reset_rx_complete.set()` -/
def serveRxStmt : PStmt :=
  .ite (.call "self.events.reset_rx.is_set" .nil) (.cons (.expr (.call "self._stop_receiving" .nil))
    (.cons (.expr (.call "self.events.reset_rx.clear" .nil))
    (.cons (.expr (.call "self.events.reset_rx_complete.set" .nil))
    .nil))) .nil

def workerBody : PBlock := .cons procStmt (.cons serveTxStmt (.cons serveRxStmt .nil))
def workerLoop : PStmt := .while_ workerCond workerBody
/-- the `finally` block: `super().reset()` (the logging call is dropped by the dumper) -/
def workerFin : PBlock := .cons (.expr (.call "super().reset" .nil)) .nil
def readyStmt : PStmt := .expr (.call "self.events.main_thread_ready.set" .nil)

/-- the dumped source IS: the ready flag, then `try: <loop> finally: super().reset()`, then nothing -/
theorem worker_src : Src.TransportLayer_p_main_thread_fn =
    .cons readyStmt (.cons (.tryFinally (.cons workerLoop .nil) workerFin) .nil) := rfl

theorem workerBody_shape : loopFreeB workerBody = true ∧ dumperShapeB workerBody = true ∧ depthB workerBody ≤ 12 := by
  refine ⟨by rfl, by rfl, by decide⟩

/-! ## 3. the model side of one iteration

  `TL.workerStep` is "take the frames up to the first `None` token out of the relay queue, run `process true true`" and nothing else.
  One pass through the loop body of the source is MORE than that (the `reset_tx` / `reset_rx` requests are served at its end: the model
  folds that into `TL.stopSending` / `TL.stopReceiving`) and, in one state class, DIFFERENT (while Consecutive Frames are streamed and
  nothing is being received, the source calls `process(do_rx=False, do_tx=True)` and leaves the relay queue alone: `procStep_cf_differs`). -/

/-- `not self.is_rx_active() and self.is_tx_transmitting_cf()` on the model -/
def inCf (s : State) : Bool := !s.isRxActive && decide (s.txState = .transmitCf)

/-- the logic layer with the frames the relay queue holds before its first `None` token appended to its unread input -/
def feed (s : State) (q : List (Option CanMsg)) : State :=
  { s with inbox := s.inbox ++ (TL.takeUntilNone q).1.map (fun m => (0, m)) }

/-- the `process` call of one iteration -/
def procStep (t : TL) : TL :=
  if inCf t.core then { t with core := (t.core.process false true).1 }
  else { t with core := ((feed t.core t.relayQ).process true true).1, relayQ := (TL.takeUntilNone t.relayQ).2 }

/-- what ANOTHER thread's `stop()` has done when it arrives during the blocking call: its first two statements
    `self.events.stop_requested.set(); self.rx_relay_queue.put(None)` (the first `let` of `TL.stop`) -/
def stopArrives (b : Bool) (t : TL) : TL :=
  if b then { t with ev := { t.ev with stopRequested := true }, relayQ := t.relayQ ++ [none] } else t

/-- the tail of the iteration: a pending `reset_tx` request is served ... -/
def serveTx (t : TL) : TL :=
  if t.ev.resetTx then { t with core := t.core.stopSending false, ev := { t.ev with resetTx := false, resetTxComplete := true } } else t
/-- ... then a pending `reset_rx` request -/
def serveRx (t : TL) : TL :=
  if t.ev.resetRx then { t with core := t.core.stopReceiving, ev := { t.ev with resetRx := false, resetRxComplete := true } } else t

/-- one pass through the loop body (`b`: does a stop request arrive during the `process` call) -/
def workerIter (b : Bool) (t : TL) : TL := serveRx (serveTx (stopArrives b (procStep t)))

/-- **the full branch is `TL.workerStep`**: a running worker, no stop requested, not (streaming CFs with the receiver idle) -/
theorem procStep_eq_workerStep (t : TL) (hm : t.mainThread = .running) (hsr : t.ev.stopRequested = false) (hcf : inCf t.core = false) :
    procStep t = TL.workerStep t := by
  unfold procStep TL.workerStep feed
  simp [hm, hsr, hcf]

/-- ... so that an iteration with no request pending and no stop arriving IS `TL.workerStep` -/
theorem workerIter_eq_workerStep (t : TL) (hm : t.mainThread = .running) (hsr : t.ev.stopRequested = false) (hcf : inCf t.core = false)
    (htx : t.ev.resetTx = false) (hrx : t.ev.resetRx = false) : workerIter false t = TL.workerStep t := by
  rw [← procStep_eq_workerStep t hm hsr hcf]
  have he : (procStep t).ev = t.ev := by unfold procStep; split <;> rfl
  simp [workerIter, stopArrives, serveTx, serveRx, he, htx, hrx]

/-- serving a `reset_tx` request is what `TL.stopSending` says the worker does (started layer, live worker, no stop requested) -/
theorem serveTx_eq_stopSending (t : TL) (hst : t.started = true) (hm : t.mainThread = .running) (hsr : t.ev.stopRequested = false) :
    (TL.stopSending t).1 = serveTx { t with ev := { t.ev with resetTxComplete := false, resetTx := true } } := by
  simp [TL.stopSending, serveTx, hst, hm, hsr]

theorem serveRx_eq_stopReceiving (t : TL) (hst : t.started = true) (hm : t.mainThread = .running) (hsr : t.ev.stopRequested = false) :
    (TL.stopReceiving t).1 =
      serveRx { t with ev := { t.ev with resetRxComplete := false, resetRx := true }, relayQ := t.relayQ ++ [none] } := by
  simp [TL.stopReceiving, serveRx, hst, hm, hsr]

theorem procStep_ev (t : TL) : (procStep t).ev = t.ev := by unfold procStep; split <;> rfl

theorem workerIter_sr (b : Bool) (t : TL) : (workerIter b t).ev.stopRequested = (b || t.ev.stopRequested) := by
  unfold workerIter serveRx serveTx stopArrives
  cases b <;> simp only [Bool.false_eq_true, if_false, if_true] <;> (split <;> split) <;> simp [procStep_ev]


/-! ## 4. what the loop body calls (besides the events): `WorkerSpec`

  * `self.is_rx_active()`, `self.is_tx_transmitting_cf()`: one-line accessors of the logic layer, with the model's values;
  * `self.next_cf_delay()`: SOME number while Consecutive Frames are being sent (source: `None` only when not `is_tx_transmitting_cf()`),
    `self.params.wait_func(delay)`, `self.is_tx_throttled()`, `self.default_read_timeout`, `0.0`: timing only, opaque;
  * the two `process` calls into the logic layer, through the abstract core relation `R`:
      - `super().process(rx_timeout)`: `rxfn` is `_read_relay_queue` (`start`), i.e. `rx_relay_queue.get(timeout)` with `None` for a token or
        an empty queue: the call reads the frames the queue holds BEFORE ITS FIRST `None` and that token (`TL.takeUntilNone`) and computes
        `State.process true true` on them (`feed`).  This is the model's abstraction of the pair (`process`, `_read_relay_queue`) and is
        ASSUMED here (field `processFull`), exactly as `TL.workerStep` states it; `process` itself against `State.process` is
        `process_whole_agrees` (LayerWhole.lean).
      - `super().process(do_rx=False, do_tx=True)`: `State.process false true`, the relay queue not read (`processTxOnly`).
    A call that the model says raises (`exc = some e`) raises `e` (`...Raises`).
  * the SCHEDULE of the other thread (for section 8): the history key `#sched` counts the `process` calls that still complete before
    another thread's `stop()` arrives; the call during which it arrives (`arrives env`: the counter is 0) returns with `stop_requested` set
    and a wake-up token queued (`afterCall`: the first two statements of `stop()`).  With the key absent nothing ever arrives: the
    sequential reading of one iteration.  Only `process` calls advance the counter (`schedStopSending`, `schedStopReceiving`). -/

/-- does another thread's `stop()` arrive during the `process` call made in `env` -/
def arrives (env : Env) : Bool := decide (env "#sched" = some (pint 0))

/-- the wrapper keys after a `process` call that leaves `q'` in the relay queue -/
def afterCall (env : Env) (q' : List (Option CanMsg)) : Env :=
  if arrives env then (env.set "#relay_queue" (.list (encQ (q' ++ [none])))).set "#ev.stop_requested" (pbool true)
  else env.set "#relay_queue" (.list (encQ q'))

/-- the schedule counter goes down by one -/
def SchedStep (env env' : Env) : Prop :=
  ∀ n : Nat, env "#sched" = some (pint ((n + 1 : Nat) : Int)) → env' "#sched" = some (pint (n : Int))

structure WorkerSpec (M : Meths) (R : Env → State → Prop) : Prop where
  rxActive : ∀ (env : Env) (s : State), R env s → M.fn "self.is_rx_active" [] env = .ok (pbool s.isRxActive)
  txCf : ∀ (env : Env) (s : State), R env s →
    M.fn "self.is_tx_transmitting_cf" [] env = .ok (pbool (decide (s.txState = .transmitCf)))
  cfDelay : ∀ (env : Env) (s : State), R env s → s.txState = .transmitCf → ∃ d : Int, M.fn "self.next_cf_delay" [] env = .ok (pint d)
  waitFunc : ∀ (env : Env) (v : PV), M.proc "self.params.wait_func" [v] env = .ok env
  throttled : ∀ (env : Env), ∃ b : Bool, M.fn "self.is_tx_throttled" [] env = .ok (pbool b)
  processFull : ∀ (env : Env) (s : State) (q : List (Option CanMsg)) (v : PV), R env s →
    env "#relay_queue" = some (.list (encQ q)) → ((feed s q).process true true).1.exc = none →
    ∃ env', M.proc "super().process" [v] env = .ok env' ∧ R env' ((feed s q).process true true).1 ∧
      (∀ k ∈ wrapperKeys, env' k = afterCall env (TL.takeUntilNone q).2 k) ∧ SchedStep env env'
  processFullRaises : ∀ (env : Env) (s : State) (q : List (Option CanMsg)) (v : PV) (e : PyExc), R env s →
    env "#relay_queue" = some (.list (encQ q)) → ((feed s q).process true true).1.exc = some e →
    M.proc "super().process" [v] env = .error (.exc e)
  processTxOnly : ∀ (env : Env) (s : State) (q : List (Option CanMsg)), R env s →
    env "#relay_queue" = some (.list (encQ q)) → (s.process false true).1.exc = none →
    ∃ env', M.proc "super().process#do_rx#do_tx" [pbool false, pbool true] env = .ok env' ∧ R env' (s.process false true).1 ∧
      (∀ k ∈ wrapperKeys, env' k = afterCall env q k) ∧ SchedStep env env'
  processTxOnlyRaises : ∀ (env : Env) (s : State) (e : PyExc), R env s → (s.process false true).1.exc = some e →
    M.proc "super().process#do_rx#do_tx" [pbool false, pbool true] env = .error (.exc e)
  schedStopSending : ∀ (env env' : Env), M.proc "self._stop_sending#success" [pbool false] env = .ok env' → env' "#sched" = env "#sched"
  schedStopReceiving : ∀ (env env' : Env), M.proc "self._stop_receiving" [] env = .ok env' → env' "#sched" = env "#sched"

/-- the relation does not look at the one local of `_main_thread_fn` that is not already a wrapper key -/
structure WorkerRel (R : Env → State → Prop) : Prop where
  delay : ∀ (env : Env) (v : PV) (s : State), R env s → R (env.set "delay" v) s

section body
variable {M : Meths} {R : Env → State → Prop} {env0 env : Env} {t : TL}

theorem St.setDelay (hD : WorkerRel R) (h : St R env0 env t) (v : PV) : St R env0 (env.set "delay" v) t := by
  obtain ⟨⟨f1, f2, f3, f4, f5, f6, f7, f8, f9, f10, f11, f12, f13, f14, f15, f16, f17, f18, f19, f20⟩, hc, hk⟩ := h
  exact ⟨by constructor <;> simp [Env.set, *], hD.delay _ _ _ hc, keep_set hk _ _ (by decide)⟩

/-- the state after a `process` call of the logic layer -/
theorem St.afterProcess (hR : CoreRel R) (h : St R env0 env t) (q' : List (Option CanMsg)) (env' : Env) (s' : State)
    (hfr : ∀ k ∈ wrapperKeys, env' k = afterCall env q' k) (hc : R env' s') :
    St R env0 env' (stopArrives (arrives env) { t with core := s', relayQ := q' }) := by
  cases ha : arrives env with
  | false =>
    have hfr' : ∀ k ∈ wrapperKeys, env' k = (env.set "#relay_queue" (.list (encQ q'))) k := by
      intro k hk; rw [hfr k hk]; simp only [afterCall, ha, Bool.false_eq_true, if_false]
    exact ((h.setQ hR q').congr env' s' hfr' hc).cast (by simp [stopArrives])
  | true =>
    have hfr' : ∀ k ∈ wrapperKeys, env' k =
        ((env.set "#relay_queue" (.list (encQ (q' ++ [none])))).set Ev7.stopRequested.key (pbool true)) k := by
      intro k hk; rw [hfr k hk]; simp only [afterCall, ha, if_true]; rfl
    exact (((h.setQ hR (q' ++ [none])).setEv hR .stopRequested true).congr env' s' hfr' hc).cast (by simp [stopArrives, evPut])

theorem eval_inCf (hW : WorkerSpec M R) (env : Env) (s : State) (h : R env s) :
    eval M env (.and_ (.not_ (.call "self.is_rx_active" .nil)) (.call "self.is_tx_transmitting_cf" .nil)) = .ok (pbool (inCf s)) := by
  have h1 : eval M env (.not_ (.call "self.is_rx_active" .nil)) = .ok (pbool (!s.isRxActive)) :=
    eval_not M env _ _ (by rw [eval_fn0 M env _ (by decide), hW.rxActive env s h])
  have h2 : eval M env (.call "self.is_tx_transmitting_cf" .nil) = .ok (pbool (decide (s.txState = .transmitCf))) := by
    rw [eval_fn0 M env _ (by decide), hW.txCf env s h]
  exact eval_and M env _ _ _ _ h1 (fun _ => h2)

theorem arrives_set (env : Env) (k : String) (v : PV) (hk : k ≠ "#sched") : arrives (env.set k v) = arrives env := by
  have : ("#sched" = k) = False := by simp [Ne.symm hk]
  simp [arrives, Env.set, this]

theorem afterCall_set (env : Env) (k : String) (v : PV) (q' : List (Option CanMsg)) (hk : k ≠ "#sched") :
    afterCall (env.set k v) q' = if arrives env then
        ((env.set k v).set "#relay_queue" (.list (encQ (q' ++ [none])))).set "#ev.stop_requested" (pbool true)
      else (env.set k v).set "#relay_queue" (.list (encQ q')) := by
  simp only [afterCall, arrives_set env k v hk]

/-- the timeout of the full branch: some number -/
theorem eval_rxTimeout (hM : Spec M R) (hW : WorkerSpec M R) (h : ShowsW env t) :
    ∃ rt : Int, eval M env (.ifexp (.call "self.is_tx_throttled" .nil) (.call "__float__" (.cons (.strLit "0.0") .nil))
      (.var "self.default_read_timeout")) = .ok (pint rt) := by
  obtain ⟨d, hd⟩ := h.cTimeout
  obtain ⟨b, hb⟩ := hW.throttled env
  obtain ⟨i0, hi0⟩ := eval_float hM env "0.0"
  cases b
  · exact ⟨d, eval_ifexp M env _ _ _ false _ (by rw [eval_fn0 M env _ (by decide), hb]) (eval_var M env _ _ hd)⟩
  · exact ⟨i0, eval_ifexp M env _ _ _ true _ (by rw [eval_fn0 M env _ (by decide), hb]) hi0⟩

/-- **the `process` call, full branch**: `rx_timeout` is chosen (timing only), `super().process(rx_timeout)` consumes the relay queue up to
    its first `None` token and runs the logic layer on those frames -/
theorem proc_full (hM : Spec M R) (hW : WorkerSpec M R) (hR : CoreRel R) (h : St R env0 env t) (hcf : inCf t.core = false)
    (hexc : (procStep t).core.exc = none) :
    ∃ env', execStmt M env procStmt = .ok (.next env') ∧ St R env0 env' (stopArrives (arrives env) (procStep t)) ∧
      SchedStep env env' := by
  have hps : procStep t =
      { t with core := ((feed t.core t.relayQ).process true true).1, relayQ := (TL.takeUntilNone t.relayQ).2 } := by
    simp [procStep, hcf]
  rw [hps] at hexc ⊢
  obtain ⟨rt, hrt⟩ := eval_rxTimeout hM hW h.w
  have h1 := h.setLocal hR "rx_timeout" (pint rt) (by decide)
  obtain ⟨e2, x2, r2, f2, s2⟩ := hW.processFull (env.set "rx_timeout" (pint rt)) t.core t.relayQ (pint rt) h1.c h1.w.q hexc
  have h2 := h1.afterProcess hR _ e2 _ f2 r2
  rw [arrives_set env _ _ (by decide)] at h2
  refine ⟨e2, ?_, h2, ?_⟩
  · have hrun : RunS M env procStmt (fun e => e = e2) := by
      unfold procStmt
      refine RunS.ite_false (by rw [eval_inCf hW env _ h.c, hcf]) ?_
      unfold fullBranch
      refine Run.cons (exec_assign M env _ _ _ hrt) ?_
      refine Run.cons (exec_proc1 M _ e2 _ _ _ (by decide) (eval_var M _ _ _ (by simp [Env.set])) x2) ?_
      exact Run.nil rfl
    obtain ⟨e, x, rfl⟩ := hrun
    exact x
  · intro n hn
    exact s2 n (by simp [Env.set, hn])

/-- a call statement with two arguments -/
theorem exec_proc2 (M : Meths) (env env' : Env) (fn : String) (a b : PExpr) (v w : PV) (hb : fn ∉ builtinNames)
    (ha : eval M env a = .ok v) (hb' : eval M env b = .ok w) (hp : M.proc fn [v, w] env = .ok env') :
    execStmt M env (.expr (.call fn (.cons a (.cons b .nil)))) = .ok (.next env') := by
  simp [execStmt, evalArgs, ha, hb', evalBuiltin_none fn _ hb, hp]

theorem evalCmp_gt_pint (a b : Int) : evalCmp .gt (pint a) (pint b) = .ok (pbool (decide (b < a))) := by
  simp [evalCmp, isNumber, numLt, PyVal.isInt, PyVal.intVal, Except.map]
  rfl

theorem exec_assert (M : Meths) (env : Env) (e : PExpr) (h : eval M env e = .ok (pbool true)) :
    execStmt M env (.assert_ e) = .ok (.next env) := by
  simp [execStmt, h]

theorem inCf_txState {s : State} (h : inCf s = true) : s.txState = .transmitCf := by
  simp [inCf] at h; exact h.2

/-- the three statements of the streaming branch before its `process` call: timing only (`delay` is bound, `wait_func` may sleep) -/
theorem cf_prefix (hW : WorkerSpec M R) (hD : WorkerRel R) (h : St R env0 env t) (hcf : inCf t.core = true) :
    ∃ d : Int, St R env0 (env.set "delay" (pint d)) t ∧
      execStmt M env (.assign "delay" (.call "self.next_cf_delay" .nil)) = .ok (.next (env.set "delay" (pint d))) ∧
      execStmt M (env.set "delay" (pint d)) (.assert_ (.isNotNone (.var "delay"))) = .ok (.next (env.set "delay" (pint d))) ∧
      execStmt M (env.set "delay" (pint d)) (.ite (.cmp .gt (.var "delay") (.int (0)))
        (.cons (.expr (.call "self.params.wait_func" (.cons (.var "delay") .nil))) .nil) .nil) = .ok (.next (env.set "delay" (pint d))) := by
  obtain ⟨d, hd⟩ := hW.cfDelay env t.core h.c (inCf_txState hcf)
  have hdv : (env.set "delay" (pint d)) "delay" = some (pint d) := by simp [Env.set]
  refine ⟨d, h.setDelay hD (pint d), exec_assign M env _ _ _ (by rw [eval_fn0 M env _ (by decide), hd]), ?_, ?_⟩
  · refine exec_assert M _ _ ?_
    rw [eval_isNotNone M _ _ _ hdv]
    simp [pint, pnone]
  · have hc : eval M (env.set "delay" (pint d)) (.cmp .gt (.var "delay") (.int (0))) = .ok (pbool (decide (0 < d))) := by
      rw [eval, eval_var M _ _ _ hdv]
      simp only [eval, ok_bind]
      exact evalCmp_gt_pint d 0
    rw [exec_ite M _ _ _ _ _ hc]
    cases decide (0 < d)
    · rfl
    · simp only [if_true, execBlock, exec_proc1 M _ _ _ _ _ (by decide) (eval_var M _ _ _ hdv) (hW.waitFunc _ _), ok_bind]

/-- **the `process` call, streaming branch** (Consecutive Frames being sent, nothing being received): after the STmin wait
    `super().process(do_rx=False, do_tx=True)`: the logic layer's `process false true`; the relay queue is NOT read -/
theorem proc_cf (hM : Spec M R) (hW : WorkerSpec M R) (hR : CoreRel R) (hD : WorkerRel R) (h : St R env0 env t)
    (hcf : inCf t.core = true) (hsr : t.ev.stopRequested = false) (hexc : (procStep t).core.exc = none) :
    ∃ env', execStmt M env procStmt = .ok (.next env') ∧ St R env0 env' (stopArrives (arrives env) (procStep t)) ∧
      SchedStep env env' := by
  have hps : procStep t = { t with core := (t.core.process false true).1 } := by simp [procStep, hcf]
  rw [hps] at hexc ⊢
  obtain ⟨d, h1, x1, x2, x3⟩ := cf_prefix hW hD h hcf
  obtain ⟨e2, y2, r2, f2, s2⟩ := hW.processTxOnly (env.set "delay" (pint d)) t.core t.relayQ h1.c h1.w.q hexc
  have h2 := h1.afterProcess hR _ e2 _ f2 r2
  rw [arrives_set env _ _ (by decide)] at h2
  refine ⟨e2, ?_, h2.cast (by cases t; rfl), ?_⟩
  · have hrun : RunS M env procStmt (fun e => e = e2) := by
      unfold procStmt
      refine RunS.ite_true (by rw [eval_inCf hW env _ h.c, hcf]) ?_
      unfold cfBranch
      refine Run.cons x1 (Run.cons x2 (Run.cons x3 (Run.single ?_)))
      refine RunS.ite_true (eval_not_isSet hM _ .stopRequested false (h1.w.e3.trans (by rw [hsr]))) ?_
      refine Run.cons (exec_proc2 M _ e2 _ _ _ _ _ (by decide) (eval_ff M _) (eval_tt M _) y2) ?_
      exact Run.nil rfl
    obtain ⟨e, x, rfl⟩ := hrun
    exact x
  · intro n hn
    exact s2 n (by simp [Env.set, hn])

end body


/-! ## 5. the tail of the iteration: the `reset_tx` / `reset_rx` requests (what `hServe` / `hServeRx` assume of a live worker) -/

section serve
variable {M : Meths} {R : Env → State → Prop} {env0 env : Env} {t : TL}

/-- **`hServe` is what the source does**: in an environment where `reset_tx` is set, the statement
    `if self.events.reset_tx.is_set(): self._stop_sending(success=False); self.events.reset_tx.clear(); self.events.reset_tx_complete.set()`
    of the loop body ends in an environment with EXACTLY the properties `Spec.hServe` postulates of the environment in which
    `reset_tx_complete.wait(1.0)` returns: the logic layer has done `_stop_sending(False)`, `reset_tx` is cleared, `reset_tx_complete` is set,
    no other wrapper key has changed.  (What remains assumed in `hServe` is scheduling only: that the worker REACHES this statement
    within the 1.0 s of the wait - it is at most one `process` call away from it, see `worker_body`.) -/
theorem serve_tx_is_hServe (hM : Spec M R) (hR : CoreRel R) (env : Env) (s : State) (hs : R env s)
    (hT : env "#ev.reset_tx" = some (pbool true)) :
    ∃ env', execStmt M env serveTxStmt = .ok (.next env') ∧ R env' (s.stopSending false) ∧
      env' "#ev.reset_tx" = some (pbool false) ∧ env' "#ev.reset_tx_complete" = some (pbool true) ∧
      ∀ k ∈ wrapperKeys, k ≠ "#ev.reset_tx" → k ≠ "#ev.reset_tx_complete" → env' k = env k := by
  obtain ⟨e1, x1, r1, f1⟩ := hM.stopSendingCore env s hs
  refine ⟨(e1.set Ev7.resetTx.key (pbool false)).set Ev7.resetTxComplete.key (pbool true), ?_, ?_, ?_, ?_, ?_⟩
  · have hrun : RunS M env serveTxStmt
        (fun e => e = (e1.set Ev7.resetTx.key (pbool false)).set Ev7.resetTxComplete.key (pbool true)) := by
      unfold serveTxStmt
      refine RunS.ite_true (eval_isSet hM env .resetTx true hT) ?_
      refine Run.cons (exec_proc1 M env e1 _ _ _ (by decide) (eval_ff M env) x1) ?_
      refine Run.cons (exec_evClear hM e1 .resetTx) ?_
      refine Run.cons (exec_evSet hM _ .resetTxComplete) ?_
      exact Run.nil rfl
    obtain ⟨e, x, rfl⟩ := hrun
    exact x
  · exact hR.frame _ _ _ _ (by decide) (hR.frame _ _ _ _ (by decide) r1)
  · simp [Env.set, Ev7.key]
  · simp [Env.set, Ev7.key]
  · intro k hk h1 h2
    simp [Env.set, Ev7.key, h1, h2, f1 k hk]

/-- the same for `reset_rx` / `hServeRx` -/
theorem serve_rx_is_hServeRx (hM : Spec M R) (hR : CoreRel R) (env : Env) (s : State) (hs : R env s)
    (hT : env "#ev.reset_rx" = some (pbool true)) :
    ∃ env', execStmt M env serveRxStmt = .ok (.next env') ∧ R env' s.stopReceiving ∧
      env' "#ev.reset_rx" = some (pbool false) ∧ env' "#ev.reset_rx_complete" = some (pbool true) ∧
      ∀ k ∈ wrapperKeys, k ≠ "#ev.reset_rx" → k ≠ "#ev.reset_rx_complete" → env' k = env k := by
  obtain ⟨e1, x1, r1, f1⟩ := hM.stopReceivingCore env s hs
  refine ⟨(e1.set Ev7.resetRx.key (pbool false)).set Ev7.resetRxComplete.key (pbool true), ?_, ?_, ?_, ?_, ?_⟩
  · have hrun : RunS M env serveRxStmt
        (fun e => e = (e1.set Ev7.resetRx.key (pbool false)).set Ev7.resetRxComplete.key (pbool true)) := by
      unfold serveRxStmt
      refine RunS.ite_true (eval_isSet hM env .resetRx true hT) ?_
      refine Run.cons (exec_proc0 M env e1 _ (by decide) x1) ?_
      refine Run.cons (exec_evClear hM e1 .resetRx) ?_
      refine Run.cons (exec_evSet hM _ .resetRxComplete) ?_
      exact Run.nil rfl
    obtain ⟨e, x, rfl⟩ := hrun
    exact x
  · exact hR.frame _ _ _ _ (by decide) (hR.frame _ _ _ _ (by decide) r1)
  · simp [Env.set, Ev7.key]
  · simp [Env.set, Ev7.key]
  · intro k hk h1 h2
    simp [Env.set, Ev7.key, h1, h2, f1 k hk]

/-- the `reset_tx` statement on a wrapper state: `serveTx` -/
theorem serve_tx (hM : Spec M R) (hW : WorkerSpec M R) (hR : CoreRel R) (h : St R env0 env t) :
    ∃ env', execStmt M env serveTxStmt = .ok (.next env') ∧ St R env0 env' (serveTx t) ∧ env' "#sched" = env "#sched" := by
  cases hb : t.ev.resetTx with
  | false =>
    refine ⟨env, ?_, h.cast (by simp [serveTx, hb]), rfl⟩
    unfold serveTxStmt
    exact exec_ite_skip M env _ _ (eval_isSet hM env .resetTx false (hb ▸ h.w.e4))
  | true =>
    obtain ⟨e1, x1, r1, f1⟩ := hM.stopSendingCore env t.core h.c
    have h1 := h.congr e1 _ f1 r1
    have h2 := (h1.setEv hR .resetTx false).setEv hR .resetTxComplete true
    refine ⟨_, ?_, h2.cast (by simp [serveTx, hb, evPut]), ?_⟩
    · have hrun : RunS M env serveTxStmt
          (fun e => e = (e1.set Ev7.resetTx.key (pbool false)).set Ev7.resetTxComplete.key (pbool true)) := by
        unfold serveTxStmt
        refine RunS.ite_true (eval_isSet hM env .resetTx true (hb ▸ h.w.e4)) ?_
        refine Run.cons (exec_proc1 M env e1 _ _ _ (by decide) (eval_ff M env) x1) ?_
        refine Run.cons (exec_evClear hM e1 .resetTx) ?_
        refine Run.cons (exec_evSet hM _ .resetTxComplete) ?_
        exact Run.nil rfl
      obtain ⟨e, x, rfl⟩ := hrun
      exact x
    · simp [Env.set, Ev7.key, hW.schedStopSending env e1 x1]

theorem serve_rx (hM : Spec M R) (hW : WorkerSpec M R) (hR : CoreRel R) (h : St R env0 env t) :
    ∃ env', execStmt M env serveRxStmt = .ok (.next env') ∧ St R env0 env' (serveRx t) ∧ env' "#sched" = env "#sched" := by
  cases hb : t.ev.resetRx with
  | false =>
    refine ⟨env, ?_, h.cast (by simp [serveRx, hb]), rfl⟩
    unfold serveRxStmt
    exact exec_ite_skip M env _ _ (eval_isSet hM env .resetRx false (hb ▸ h.w.e5))
  | true =>
    obtain ⟨e1, x1, r1, f1⟩ := hM.stopReceivingCore env t.core h.c
    have h1 := h.congr e1 _ f1 r1
    have h2 := (h1.setEv hR .resetRx false).setEv hR .resetRxComplete true
    refine ⟨_, ?_, h2.cast (by simp [serveRx, hb, evPut]), ?_⟩
    · have hrun : RunS M env serveRxStmt
          (fun e => e = (e1.set Ev7.resetRx.key (pbool false)).set Ev7.resetRxComplete.key (pbool true)) := by
        unfold serveRxStmt
        refine RunS.ite_true (eval_isSet hM env .resetRx true (hb ▸ h.w.e5)) ?_
        refine Run.cons (exec_proc0 M env e1 _ (by decide) x1) ?_
        refine Run.cons (exec_evClear hM e1 .resetRx) ?_
        refine Run.cons (exec_evSet hM _ .resetRxComplete) ?_
        exact Run.nil rfl
      obtain ⟨e, x, rfl⟩ := hrun
      exact x
    · simp [Env.set, Ev7.key, hW.schedStopReceiving env e1 x1]

/-! ## 6. one iteration of the loop -/

/-- **the loop body, once** (stop not requested, the model's `process` does not raise): the environment reached shows `workerIter` -/
theorem worker_body (hM : Spec M R) (hW : WorkerSpec M R) (hR : CoreRel R) (hD : WorkerRel R) (h : St R env0 env t)
    (hsr : t.ev.stopRequested = false) (hexc : (procStep t).core.exc = none) :
    ∃ env', execBlock M env workerBody = .ok (.next env') ∧ St R env0 env' (workerIter (arrives env) t) ∧ SchedStep env env' := by
  have hp : ∃ env1, execStmt M env procStmt = .ok (.next env1) ∧ St R env0 env1 (stopArrives (arrives env) (procStep t)) ∧
      SchedStep env env1 := by
    cases hcf : inCf t.core
    · exact proc_full hM hW hR h hcf hexc
    · exact proc_cf hM hW hR hD h hcf hsr hexc
  obtain ⟨e1, x1, h1, s1⟩ := hp
  obtain ⟨e2, x2, h2, s2⟩ := serve_tx hM hW hR h1
  obtain ⟨e3, x3, h3, s3⟩ := serve_rx hM hW hR h2
  refine ⟨e3, ?_, h3, ?_⟩
  · unfold workerBody
    simp only [execBlock, x1, x2, x3, ok_bind]
  · intro n hn
    rw [s3, s2]
    exact s1 n hn

end serve


/-! ## 7. the loop and the function, second semantics -/

theorem exec2S_tryFinally (n : Nat) (M : Meths) (env : Env) (body fin : PBlock) :
    exec2S (n + 1) M env (.tryFinally body fin) =
      (match exec2B n M env body with
       | .error e => .error e
       | .ok o =>
         match exec2B n M o.env fin with
         | .ok (.next env2) => .ok (o.setEnv env2)
         | r => r) := rfl

theorem exec2S_simple_next (n : Nat) (M : Meths) (env env1 : Env) (s : PStmt) (hs : isSimple s = true)
    (h : execStmt M env s = .ok (.next env1)) : exec2S (n + 1) M env s = .ok (.next env1) := by
  rw [exec2S_simple n M env s hs]; unfold simple2; rw [h]; rfl

theorem exec2S_simple_exc (n : Nat) (M : Meths) (env : Env) (s : PStmt) (e : PyExc) (hs : isSimple s = true)
    (h : execStmt M env s = .error (.exc e)) : exec2S (n + 1) M env s = .ok (.raised e.name env) := by
  rw [exec2S_simple n M env s hs]; unfold simple2; rw [h]; rfl

theorem exec2B_cons_next {n : Nat} {M : Meths} {env env1 : Env} {s : PStmt} {rest : PBlock}
    (h : exec2S n M env s = .ok (.next env1)) : exec2B (n + 1) M env (.cons s rest) = exec2B n M env1 rest := by
  rw [exec2B_cons, h]

theorem exec2B_cons_raised {n : Nat} {M : Meths} {env env1 : Env} {s : PStmt} {rest : PBlock} {x : String}
    (h : exec2S n M env s = .ok (.raised x env1)) : exec2B (n + 1) M env (.cons s rest) = .ok (.raised x env1) := by
  rw [exec2B_cons, h]

theorem exec2S_ite_bool (n : Nat) (M : Meths) (env : Env) (c : PExpr) (t e : PBlock) (b : Bool) (h : eval M env c = .ok (pbool b)) :
    exec2S (n + 1) M env (.ite c t e) = if b then exec2B n M env t else exec2B n M env e := by
  rw [exec2S_ite, h]; rfl

theorem exec_proc1_err (M : Meths) (env : Env) (fn : String) (a : PExpr) (v : PV) (er : PErr) (hb : fn ∉ builtinNames)
    (ha : eval M env a = .ok v) (hp : M.proc fn [v] env = .error er) :
    execStmt M env (.expr (.call fn (.cons a .nil))) = .error er := by
  simp [execStmt, evalArgs, ha, evalBuiltin_none fn _ hb, hp]

theorem exec_proc2_err (M : Meths) (env : Env) (fn : String) (a b : PExpr) (v w : PV) (er : PErr) (hb : fn ∉ builtinNames)
    (ha : eval M env a = .ok v) (hb' : eval M env b = .ok w) (hp : M.proc fn [v, w] env = .error er) :
    execStmt M env (.expr (.call fn (.cons a (.cons b .nil)))) = .error er := by
  simp [execStmt, evalArgs, ha, hb', evalBuiltin_none fn _ hb, hp]

section loop
variable {M : Meths} {R : Env → State → Prop}

theorem eval_workerCond (hM : Spec M R) (env : Env) (b : Bool) (h : env "#ev.stop_requested" = some (pbool b)) :
    eval M env workerCond = .ok (pbool (!b)) := eval_not_isSet hM env .stopRequested b h

/-- **(c) the loop ends when `stop_requested` is set**: the test fails, nothing else happens -/
theorem worker_loop_exit (hM : Spec M R) (env : Env) (h : env "#ev.stop_requested" = some (pbool true)) (n : Nat) (hn : 1 ≤ n) :
    exec2S n M env workerLoop = .ok (.next env) := by
  obtain ⟨m, rfl⟩ : ∃ m, n = m + 1 := ⟨n - 1, by omega⟩
  unfold workerLoop
  rw [exec2S_while, eval_workerCond hM env true h]
  rfl

/-- **(b) one iteration of the loop of `_main_thread_fn`** (stop not requested, the model's `process` does not raise): the loop unfolds
    once, `exec2S (n+1) (while) env = exec2S n (while) env'`, where `env'` - reached by one pass through the body - shows
    `workerIter (arrives env) t`: the `process` call of the branch the state selects (`procStep`), then the two request blocks. -/
theorem worker_iteration (hM : Spec M R) (hW : WorkerSpec M R) (hR : CoreRel R) (hD : WorkerRel R) (env : Env) (t : TL)
    (h : Shows R env t) (hsr : t.ev.stopRequested = false) (hexc : (procStep t).core.exc = none) :
    ∃ env', Shows R env' (workerIter (arrives env) t) ∧ (∀ k ∈ passiveKeys, env' k = env k) ∧ SchedStep env env' ∧
      ∀ n, 12 ≤ n → exec2S (n + 1) M env workerLoop = exec2S n M env' workerLoop := by
  obtain ⟨env', x1, x2, x3⟩ := worker_body hM hW hR hD (St.init h) hsr hexc
  refine ⟨env', x2.shows, x2.keep, x3, fun n hn => ?_⟩
  have hc := eval_workerCond hM env false (hsr ▸ h.1.e3)
  unfold workerLoop
  rw [exec2S_while, hc]
  simp only [truthy_pbool, Bool.not_false]
  rw [exec2B_of_execBlock_ok M workerBody n env _ workerBody_shape.1 workerBody_shape.2.1
    (Nat.le_trans workerBody_shape.2.2 hn) x1]
  rfl

/-- ... against `TL.workerStep`: a running worker, stop not requested, not streaming (`inCf` false), no request pending, no stop arriving:
    the environment after the pass shows `TL.workerStep t` -/
theorem worker_iteration_workerStep (hM : Spec M R) (hW : WorkerSpec M R) (hR : CoreRel R) (hD : WorkerRel R) (env : Env) (t : TL)
    (h : Shows R env t) (hm : t.mainThread = .running) (hsr : t.ev.stopRequested = false) (hcf : inCf t.core = false)
    (htx : t.ev.resetTx = false) (hrx : t.ev.resetRx = false) (hna : arrives env = false)
    (hexc : (TL.workerStep t).core.exc = none) :
    ∃ env', Shows R env' (TL.workerStep t) ∧ (∀ k ∈ passiveKeys, env' k = env k) ∧
      ∀ n, 12 ≤ n → exec2S (n + 1) M env workerLoop = exec2S n M env' workerLoop := by
  rw [← procStep_eq_workerStep t hm hsr hcf] at hexc
  obtain ⟨env', x1, x2, -, x4⟩ := worker_iteration hM hW hR hD env t h hsr hexc
  rw [hna, workerIter_eq_workerStep t hm hsr hcf htx hrx] at x1
  exact ⟨env', x1, x2, x4⟩

/-- the `process` call of the iteration when the model says it raises `e`: the statement raises `e`, in the environment of the call
    (the environment of the iteration with the branch's local bound).  In this semantics a callee that raises has no effect on the
    environment (`simple2`): what the logic layer did before raising is not visible - the `finally` block resets it anyway. -/
theorem proc_raises (hM : Spec M R) (hW : WorkerSpec M R) (hR : CoreRel R) (hD : WorkerRel R) {env0 env : Env} {t : TL}
    (h : St R env0 env t) (hsr : t.ev.stopRequested = false) (e : PyExc) (hexc : (procStep t).core.exc = some e) (k : Nat) :
    ∃ env1, exec2S (k + 8) M env procStmt = .ok (.raised e.name env1) ∧ St R env0 env1 t := by
  cases hcf : inCf t.core with
  | false =>
    have hps : procStep t =
        { t with core := ((feed t.core t.relayQ).process true true).1, relayQ := (TL.takeUntilNone t.relayQ).2 } := by
      simp [procStep, hcf]
    rw [hps] at hexc
    obtain ⟨rt, hrt⟩ := eval_rxTimeout hM hW h.w
    have h1 := h.setLocal hR "rx_timeout" (pint rt) (by decide)
    have hp := hW.processFullRaises (env.set "rx_timeout" (pint rt)) t.core t.relayQ (pint rt) e h1.c h1.w.q hexc
    refine ⟨_, ?_, h1⟩
    unfold procStmt
    rw [exec2S_ite_bool (k + 7) M env _ _ _ _ (eval_inCf hW env _ h.c), hcf]
    show exec2B (k + 7) M env fullBranch = _
    unfold fullBranch
    refine (exec2B_cons_next (n := k + 6) (exec2S_simple_next (k + 5) M env _ _ rfl (exec_assign M env _ _ _ hrt))).trans ?_
    exact exec2B_cons_raised (n := k + 5) (exec2S_simple_exc (k + 4) M _ _ e rfl
      (exec_proc1_err M _ _ _ _ _ (by decide) (eval_var M _ _ _ (by simp [Env.set])) hp))
  | true =>
    have hps : procStep t = { t with core := (t.core.process false true).1 } := by simp [procStep, hcf]
    rw [hps] at hexc
    obtain ⟨d, h1, x1, x2, x3⟩ := cf_prefix hW hD h hcf
    have hp := hW.processTxOnlyRaises (env.set "delay" (pint d)) t.core e h1.c hexc
    refine ⟨_, ?_, h1⟩
    unfold procStmt
    rw [exec2S_ite_bool (k + 7) M env _ _ _ _ (eval_inCf hW env _ h.c), hcf]
    show exec2B (k + 7) M env cfBranch = _
    unfold cfBranch
    refine (exec2B_cons_next (n := k + 6) (exec2S_simple_next (k + 5) M env _ _ rfl x1)).trans ?_
    refine (exec2B_cons_next (n := k + 5) (exec2S_simple_next (k + 4) M _ _ _ rfl x2)).trans ?_
    refine (exec2B_cons_next (n := k + 4) (exec2S_of_execStmt_ok M _ (k + 4) _ _ (by rfl) (by rfl)
      (Nat.le_trans (m := 3) (by decide) (by omega)) x3)).trans ?_
    refine exec2B_cons_raised (n := k + 3) ?_
    refine (exec2S_ite_bool (k + 2) M _ _ _ _ _ (eval_not_isSet hM _ .stopRequested false (h1.w.e3.trans (by rw [hsr])))).trans ?_
    show exec2B (k + 2) M _ _ = _
    exact exec2B_cons_raised (n := k + 1) (exec2S_simple_exc k M _ _ e rfl
      (exec_proc2_err M _ _ _ _ _ _ _ (by decide) (eval_ff M _) (eval_tt M _) hp))

/-- the loop, when the `process` call of the current iteration raises: the exception leaves the loop -/
theorem worker_loop_raises (hM : Spec M R) (hW : WorkerSpec M R) (hR : CoreRel R) (hD : WorkerRel R) {env0 env : Env} {t : TL}
    (h : St R env0 env t) (hsr : t.ev.stopRequested = false) (e : PyExc) (hexc : (procStep t).core.exc = some e) (k : Nat) :
    ∃ env1, exec2S (k + 10) M env workerLoop = .ok (.raised e.name env1) ∧ St R env0 env1 t := by
  obtain ⟨env1, x1, h1⟩ := proc_raises hM hW hR hD h hsr e hexc k
  refine ⟨env1, ?_, h1⟩
  have hc := eval_workerCond hM env false (hsr ▸ h.w.e3)
  unfold workerLoop
  rw [exec2S_while, hc]
  simp only [truthy_pbool, Bool.not_false]
  unfold workerBody
  rw [exec2B_cons_raised (n := k + 8) x1]

/-! ### the function: ready flag, loop, `finally` -/

/-- **(a)** the first statement sets `main_thread_ready` - what `Spec.hReady` says a started worker has done when `wait(0.5)` returns:
    the environment is exactly the one `hReady` postulates -/
theorem worker_ready_first (hM : Spec M R) (env : Env) (n : Nat) :
    exec2S (n + 1) M env readyStmt = .ok (.next (env.set "#ev.main_thread_ready" (pbool true))) :=
  exec2S_simple_next n M env _ readyStmt rfl (exec_evSet hM env .mainReady)

/-- the function, given what its loop does from the environment with the ready flag set: the loop ENDS (`stop_requested`): the `finally`
    block runs `super().reset()` and the function returns -/
theorem worker_fn_of_loop_next (hM : Spec M R) (env e1 env2 : Env) (m : Nat)
    (hloop : exec2S (m + 1) M (env.set "#ev.main_thread_ready" (pbool true)) workerLoop = .ok (.next e1))
    (hfin : M.proc "super().reset" [] e1 = .ok env2) :
    run2 (m + 5) M env Src.TransportLayer_p_main_thread_fn = .ok (.ret pnone env2) := by
  have h1 : exec2B (m + 2) M (env.set "#ev.main_thread_ready" (pbool true)) (.cons workerLoop .nil) = .ok (.next e1) := by
    rw [exec2B_cons_next hloop]; rfl
  have h2 : exec2B (m + 2) M e1 workerFin = .ok (.next env2) := by
    unfold workerFin
    rw [exec2B_cons_next (n := m + 1) (exec2S_simple_next m M e1 env2 _ rfl (exec_proc0 M e1 env2 _ (by decide) hfin))]
    rfl
  have h3 : exec2S (m + 3) M (env.set "#ev.main_thread_ready" (pbool true)) (.tryFinally (.cons workerLoop .nil) workerFin) =
      .ok (.next env2) := by
    rw [exec2S_tryFinally, h1]
    simp only [Out.env]
    rw [h2]
    rfl
  rw [worker_src]
  unfold run2
  rw [exec2B_cons_next (n := m + 4) (worker_ready_first hM env (m + 3)), exec2B_cons_next h3]
  rfl

/-- ... the loop is LEFT BY AN EXCEPTION: the `finally` block still runs `super().reset()`, in the environment the exception was raised
    in, and the exception propagates out of the function (the thread dies with it) -/
theorem worker_fn_of_loop_raised (hM : Spec M R) (env e1 env2 : Env) (x : String) (m : Nat)
    (hloop : exec2S (m + 1) M (env.set "#ev.main_thread_ready" (pbool true)) workerLoop = .ok (.raised x e1))
    (hfin : M.proc "super().reset" [] e1 = .ok env2) :
    run2 (m + 5) M env Src.TransportLayer_p_main_thread_fn = .ok (.raised x env2) := by
  have h1 : exec2B (m + 2) M (env.set "#ev.main_thread_ready" (pbool true)) (.cons workerLoop .nil) = .ok (.raised x e1) :=
    exec2B_cons_raised hloop
  have h2 : exec2B (m + 2) M e1 workerFin = .ok (.next env2) := by
    unfold workerFin
    rw [exec2B_cons_next (n := m + 1) (exec2S_simple_next m M e1 env2 _ rfl (exec_proc0 M e1 env2 _ (by decide) hfin))]
    rfl
  have h3 : exec2S (m + 3) M (env.set "#ev.main_thread_ready" (pbool true)) (.tryFinally (.cons workerLoop .nil) workerFin) =
      .ok (.raised x env2) := by
    rw [exec2S_tryFinally, h1]
    simp only [Out.env]
    rw [h2]
    rfl
  rw [worker_src]
  unfold run2
  rw [exec2B_cons_next (n := m + 4) (worker_ready_first hM env (m + 3)), exec2B_cons_raised h3]

end loop


/-! ## 8. the whole function -/

/-- the wrapper state once the worker has signalled ready -/
def ready (t : TL) : TL := { t with ev := { t.ev with mainReady := true } }
/-- ... and once its `finally: super().reset()` has run.  `TL.workerExit` is this plus `mainThread := .finished`: the death of a thread
    whose target has returned is the runtime's doing, not a statement of the source (as for the relay thread, `relay_iteration`) -/
def exited (t : TL) : TL := { t with core := t.core.reset }

theorem workerExit_eq (t : TL) : TL.workerExit t = { exited t with mainThread := .finished } := rfl

/-- `k + 1` passes through the loop body, a stop request arriving during the `process` call of the last one -/
def workerRun : Nat → TL → TL
  | 0, t => workerIter true t
  | k + 1, t => workerRun k (workerIter false t)

/-- the model's `process` raises in none of them -/
def RunOk : Nat → TL → Prop
  | 0, t => (procStep t).core.exc = none
  | k + 1, t => (procStep t).core.exc = none ∧ RunOk k (workerIter false t)

section whole
variable {M : Meths} {R : Env → State → Prop}

theorem pint_succ_ne_zero (k : Nat) : pint ((k + 1 : Nat) : Int) ≠ pint 0 := by
  intro h
  simp only [pint, PV.sc.injEq, Sc.py.injEq, PyVal.int.injEq] at h
  omega

/-- **(d) the loop under a schedule**: `#sched = k` (the other thread's `stop()` arrives during the `process` call of iteration `k + 1`):
    by induction on `k`, the loop makes `k` undisturbed passes, one pass during which the request arrives, and ends -/
theorem worker_loop_sched (hM : Spec M R) (hW : WorkerSpec M R) (hR : CoreRel R) (hD : WorkerRel R) :
    ∀ (k : Nat) (env : Env) (t : TL), Shows R env t → t.ev.stopRequested = false →
      env "#sched" = some (pint ((k : Nat) : Int)) → RunOk k t →
      ∃ env', Shows R env' (workerRun k t) ∧ (∀ p ∈ passiveKeys, env' p = env p) ∧
        ∀ n, k + 14 ≤ n → exec2S n M env workerLoop = .ok (.next env')
  | 0, env, t, h, hsr, hs, hok => by
    have ha : arrives env = true := by simp [arrives, hs]
    obtain ⟨env', x1, x2, -, x4⟩ := worker_iteration hM hW hR hD env t h hsr hok
    rw [ha] at x1
    refine ⟨env', x1, x2, fun n hn => ?_⟩
    obtain ⟨m, rfl⟩ : ∃ m, n = m + 1 := ⟨n - 1, by omega⟩
    rw [x4 m (by omega)]
    exact worker_loop_exit hM env' (by rw [x1.1.e3, workerIter_sr]; rfl) m (by omega)
  | k + 1, env, t, h, hsr, hs, hok => by
    have ha : arrives env = false := by
      simp only [arrives, hs, decide_eq_false_iff_not, Option.some.injEq]
      exact pint_succ_ne_zero k
    obtain ⟨env', x1, x2, x3, x4⟩ := worker_iteration hM hW hR hD env t h hsr hok.1
    rw [ha] at x1
    obtain ⟨env'', y1, y2, y3⟩ := worker_loop_sched hM hW hR hD k env' _ x1
      (by rw [workerIter_sr]; simpa using hsr) (x3 k hs) hok.2
    refine ⟨env'', y1, fun p hp => (y2 p hp).trans (x2 p hp), fun n hn => ?_⟩
    obtain ⟨m, rfl⟩ : ∃ m, n = m + 1 := ⟨n - 1, by omega⟩
    rw [x4 m (by omega)]
    exact y3 m (by omega)

/-- the state in which the loop is entered -/
theorem St.ready (hR : CoreRel R) {env : Env} {t : TL} (h : Shows R env t) :
    St R env (env.set "#ev.main_thread_ready" (pbool true)) (ready t) :=
  ((St.init h).setEv hR .mainReady true).cast rfl

/-- **(c) exit**: `stop_requested` already set when the worker starts: ready flag, no pass through the body, `finally: super().reset()`;
    the function returns and the environment shows `exited (ready t)` - the core reset of `TL.workerExit` (the source side of
    `Spec.hWorkerExit`) -/
theorem worker_exits_on_stop (hM : Spec M R) (hR : CoreRel R) (env : Env) (t : TL) (h : Shows R env t)
    (hsr : t.ev.stopRequested = true) :
    ∃ env', (∀ n, 6 ≤ n → run2 n M env Src.TransportLayer_p_main_thread_fn = .ok (.ret pnone env')) ∧
      Shows R env' (exited (ready t)) ∧ ∀ p ∈ passiveKeys, env' p = env p := by
  have h1 := St.ready hR h
  have hloop := worker_loop_exit hM _ (h1.w.e3.trans (by rw [show (ready t).ev.stopRequested = t.ev.stopRequested from rfl, hsr])) 2
    (by omega)
  obtain ⟨env2, x2, r2, f2⟩ := hM.superReset _ _ h1.c
  have h2 := h1.congr env2 _ f2 r2
  refine ⟨env2, fun n hn => ?_, h2.shows, h2.keep⟩
  exact run2_mono_le hn M env _ _ (worker_fn_of_loop_next hM env _ env2 1 hloop x2)

/-- **(d) the whole function under a schedule**: ready flag, `k + 1` passes (the stop request arriving during the last), exit through the
    `finally` block; the function returns (fuel `≥ k + 18`) and the final environment shows `exited (workerRun k (ready t))` -/
theorem worker_runs (hM : Spec M R) (hW : WorkerSpec M R) (hR : CoreRel R) (hD : WorkerRel R) (k : Nat) (env : Env) (t : TL)
    (h : Shows R env t) (hsr : t.ev.stopRequested = false) (hs : env "#sched" = some (pint ((k : Nat) : Int)))
    (hok : RunOk k (ready t)) :
    ∃ env', (∀ n, k + 18 ≤ n → run2 n M env Src.TransportLayer_p_main_thread_fn = .ok (.ret pnone env')) ∧
      Shows R env' (exited (workerRun k (ready t))) ∧ ∀ p ∈ passiveKeys, env' p = env p := by
  have h1 := St.ready hR h
  obtain ⟨e1, y1, y2, y3⟩ := worker_loop_sched hM hW hR hD k _ (ready t) h1.shows hsr (by simp [Env.set, hs]) hok
  obtain ⟨env2, x2, r2, f2⟩ := hM.superReset _ _ y1.2
  have h2 := (St.init y1).congr env2 _ f2 r2
  refine ⟨env2, fun n hn => ?_, h2.shows, fun p hp => ((h2.keep p hp).trans (y2 p hp)).trans (h1.keep p hp)⟩
  exact run2_mono_le hn M env _ _ (worker_fn_of_loop_next hM env e1 env2 (k + 13) (y3 _ (by omega)) x2)

/-- **(c) an exception out of `super().process`**: the model says the `process` call of the first pass raises `e`: the loop is left by
    the exception, the `finally` block runs `super().reset()` all the same, and the function ends `raised e` in an environment that
    shows the RESET logic layer (`exited`); nothing else of the wrapper has changed (in particular `stop_requested` is not set: the
    other thread is not told) -/
theorem worker_raises_finally (hM : Spec M R) (hW : WorkerSpec M R) (hR : CoreRel R) (hD : WorkerRel R) (env : Env) (t : TL)
    (h : Shows R env t) (hsr : t.ev.stopRequested = false) (e : PyExc) (hexc : (procStep (ready t)).core.exc = some e) :
    ∃ env', (∀ n, 14 ≤ n → run2 n M env Src.TransportLayer_p_main_thread_fn = .ok (.raised e.name env')) ∧
      Shows R env' (exited (ready t)) ∧ ∀ p ∈ passiveKeys, env' p = env p := by
  have h1 := St.ready hR h
  obtain ⟨e1, x1, h1'⟩ := worker_loop_raises hM hW hR hD h1 hsr e hexc 0
  obtain ⟨env2, x2, r2, f2⟩ := hM.superReset _ _ h1'.c
  have h2 := h1'.congr env2 _ f2 r2
  refine ⟨env2, fun n hn => ?_, h2.shows, h2.keep⟩
  exact run2_mono_le hn M env _ _ (worker_fn_of_loop_raised hM env e1 env2 e.name 9 x1 x2)

end whole


/-! ## 9. MODEL GAP: the streaming branch is not `TL.workerStep`

  While Consecutive Frames are being sent and nothing is being received (`inCf`), the source calls `process(do_rx=False, do_tx=True)` after
  the STmin wait: the relay queue is NOT read in that pass, and the logic layer runs `State.process false true` (`proc_cf`).
  `TL.workerStep` has no such case: it always takes the frames before the first `None` token out of the queue and runs
  `process true true`.  On every state of that class whose relay queue is not empty the two differ (`procStep_cf_ne_workerStep`), and
  the environment the source reaches does NOT show `TL.workerStep t` (`cf_iteration_not_workerStep`).  Consequence for the real object:
  frames that arrive while a block of Consecutive Frames is streamed stay queued until the block ends (`WAIT_FC`) or the transmission does,
  whereas the model handles them at once. -/

theorem tun_cons_some (m : CanMsg) (rest : List (Option CanMsg)) :
    (TL.takeUntilNone (some m :: rest)).2 = (TL.takeUntilNone rest).2 := rfl

theorem tun_length_le : ∀ q : List (Option CanMsg), (TL.takeUntilNone q).2.length ≤ q.length
  | [] => Nat.le_refl _
  | none :: rest => by simp [TL.takeUntilNone]
  | some m :: rest => by
    rw [tun_cons_some, List.length_cons]
    exact Nat.le_succ_of_le (tun_length_le rest)

theorem tun_length_lt (q : List (Option CanMsg)) (h : q ≠ []) : (TL.takeUntilNone q).2.length < q.length := by
  cases q with
  | nil => exact absurd rfl h
  | cons x rest =>
    cases x with
    | none => simp [TL.takeUntilNone]
    | some m =>
      rw [tun_cons_some, List.length_cons]
      exact Nat.lt_succ_of_le (tun_length_le rest)

theorem encQ_tun_le : ∀ q : List (Option CanMsg), (encQ (TL.takeUntilNone q).2).length ≤ (encQ q).length
  | [] => Nat.le_refl _
  | none :: rest => by
    rw [encQ_cons, List.length_append]
    show (encQ rest).length ≤ _
    omega
  | some m :: rest => by
    rw [tun_cons_some, encQ_cons, List.length_append]
    have := encQ_tun_le rest
    omega

theorem encQ_tun_lt (q : List (Option CanMsg)) (h : q ≠ []) : (encQ (TL.takeUntilNone q).2).length < (encQ q).length := by
  cases q with
  | nil => exact absurd rfl h
  | cons x rest =>
    have hx : 1 ≤ (encItem x).length := by
      have := encItem_ne_nil x
      cases hx : encItem x with
      | nil => exact absurd hx this
      | cons _ _ => simp
    rw [encQ_cons, List.length_append]
    cases x with
    | none =>
      show (encQ rest).length < _
      omega
    | some m =>
      rw [tun_cons_some]
      have := encQ_tun_le rest
      omega

/-- on the model: in the streaming class, with a non-empty relay queue, the pass of the source and `TL.workerStep` are different states
    (the source leaves the queue alone, the model's step shortens it) -/
theorem procStep_cf_ne_workerStep (t : TL) (hm : t.mainThread = .running) (hsr : t.ev.stopRequested = false)
    (hcf : inCf t.core = true) (hq : t.relayQ ≠ []) :
    (procStep t).relayQ = t.relayQ ∧ (TL.workerStep t).relayQ = (TL.takeUntilNone t.relayQ).2 ∧ procStep t ≠ TL.workerStep t := by
  have h1 : (procStep t).relayQ = t.relayQ := by simp [procStep, hcf]
  have h2 : (TL.workerStep t).relayQ = (TL.takeUntilNone t.relayQ).2 := by simp [TL.workerStep, hm, hsr]
  refine ⟨h1, h2, fun he => ?_⟩
  have := tun_length_lt t.relayQ hq
  rw [← h2, ← he, h1] at this
  omega

section gap
variable {M : Meths} {R : Env → State → Prop}

/-- **the source and `TL.workerStep` disagree on the streaming class** (witness of the gap): a running worker, stop not requested, no
    request pending, Consecutive Frames being sent with the receiver idle, something in the relay queue.  One pass through the loop body
    reaches an environment that shows `process false true` on the logic layer with the relay queue UNTOUCHED, and that environment does
    not show `TL.workerStep t`. -/
theorem cf_iteration_not_workerStep (hM : Spec M R) (hW : WorkerSpec M R) (hR : CoreRel R) (hD : WorkerRel R) (env : Env) (t : TL)
    (h : Shows R env t) (hm : t.mainThread = .running) (hsr : t.ev.stopRequested = false) (hcf : inCf t.core = true)
    (hq : t.relayQ ≠ []) (htx : t.ev.resetTx = false) (hrx : t.ev.resetRx = false) (hna : arrives env = false)
    (hexc : (t.core.process false true).1.exc = none) :
    ∃ env', (∀ n, 12 ≤ n → exec2S (n + 1) M env workerLoop = exec2S n M env' workerLoop) ∧
      Shows R env' { t with core := (t.core.process false true).1 } ∧ ¬ ShowsW env' (TL.workerStep t) := by
  have hps : procStep t = { t with core := (t.core.process false true).1 } := by simp [procStep, hcf]
  obtain ⟨env', x1, -, -, x4⟩ := worker_iteration hM hW hR hD env t h hsr (by rw [hps]; exact hexc)
  have hit : workerIter false t = { t with core := (t.core.process false true).1 } := by
    simp [workerIter, stopArrives, serveTx, serveRx, hps, htx, hrx]
  rw [hna, hit] at x1
  refine ⟨env', x4, x1, fun hbad => ?_⟩
  have a := x1.1.q
  have b := hbad.q
  rw [(procStep_cf_ne_workerStep t hm hsr hcf hq).2.1, a] at b
  have hl := encQ_tun_lt t.relayQ hq
  simp only [Option.some.injEq, PV.list.injEq] at b
  rw [← b] at hl
  exact Nat.lt_irrefl _ hl

end gap

end Isotp.PyAgree.Thr
