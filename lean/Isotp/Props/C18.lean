import Isotp.Proofs.Timers
/-
  C18 — listen mode never transmits and hears the same messages.
  Helper lemmas: `Isotp/Proofs/Timers.lean` (sections "listen mode" and "a reference receiver").

  Vocabulary (defined in the helper file):
  * `State.Quiet s`       : `cfg.listen = true ∧ txQueue = [] ∧ txState = .idle`
                            (a listener on which the user has no `send()` outstanding)
  * `State.NotTx e`       : `e` is not an `Ev.tx` (a frame handed to `txfn`)
  * `State.LogExt P s s'` : `s'.log = new ++ s.log`, every event of `new` satisfies `P`
  * `RxCore`, `RxCore.step`, `State.rxCore` : the reassembly state (rxState, rxBuf, rxFrameLen, lastSeq,
    actualRxdl, rxQueue, and what was *heard*: the deliveries and the `_process_rx` error classes of the
    log), a reference receiver on it that knows nothing of timers / Flow Control / blocksize / STmin /
    padding / listen mode, and the projection of a layer state onto it
  * `State.observe s ms`  : `processRx m` then `processTx`, for each frame of `ms`
-/
set_option linter.unusedSimpArgs false
set_option linter.unusedVariables false

namespace Isotp.C18
open Isotp State

/-! ## 1. a listener is silent -/

/-- with listen mode on, nothing queued and the transmit FSM idle, `processTx` outputs no frame — in
    EVERY state of the receive side: Flow Control pending or not (any status), any Flow Control in the
    mailbox (ContinueToSend, Wait, Overflow), any timer state. (`active = none` is not even needed.) -/
theorem silent (s : State) (hl : s.cfg.listen = true) (hq : s.txQueue = []) (hi : s.txState = .idle) :
    s.processTx.2.1 = none := (Quiet_processTx s ⟨hl, hq, hi⟩).1

/-- the premises are invariant under everything but `send` -/
theorem silent_invariant (s : State) (h : Quiet s) :
    (∀ m, Quiet (s.processRx m).1) ∧ Quiet s.checkTimeoutsRx ∧ Quiet s.processTx.1 ∧
    Quiet s.recv.1 ∧ Quiet s.stopReceiving ∧ (∀ ok, Quiet (s.stopSending ok)) ∧
    (∀ dt, Quiet (s.advance dt)) ∧ (∀ dt m, Quiet (s.pushFrame dt m)) ∧
    (∀ doRx doTx, Quiet (s.process doRx doTx).1) := by
  refine ⟨fun m => Quiet_of_txView (txView_processRx s m) h,
    Quiet_of_txView (txView_checkTimeoutsRx s) h, (Quiet_processTx s h).2, ?_, ?_,
    fun ok => Quiet_stopSending s ok h, fun dt => ?_, fun dt m => ?_,
    fun doRx doTx => (Quiet_process s doRx doTx h).1⟩
  · unfold recv; split
    · exact h
    · simpa [Quiet] using h
  · simpa [Quiet, stopReceiving] using h
  · simpa [Quiet, advance] using h
  · simpa [Quiet, pushFrame] using h

/-- for any inbox contents and any flags, `process` on a quiet listener hands nothing to `txfn`: the log
    grows only by events that are not `Ev.tx` -/
theorem silent_process (s : State) (doRx doTx : Bool) (h : Quiet s) :
    ∃ new, (s.process doRx doTx).1.log = new ++ s.log ∧ ∀ e ∈ new, ∀ t m, e ≠ Ev.tx t m :=
  (Quiet_process s doRx doTx h).2

/-- what can happen to a listener whose user never calls `send` -/
inductive Listening (s0 : State) : State → Prop
  | start : Listening s0 s0
  | process {s} (doRx doTx : Bool) : Listening s0 s → Listening s0 (s.process doRx doTx).1
  | recv {s} : Listening s0 s → Listening s0 s.recv.1
  | stopReceiving {s} : Listening s0 s → Listening s0 s.stopReceiving
  | advance {s} (dt : Nat) : Listening s0 s → Listening s0 (s.advance dt)
  | pushFrame {s} (dt : Nat) (m : CanMsg) : Listening s0 s → Listening s0 (s.pushFrame dt m)

/-- no bus traffic of any kind, over any number of `process` calls, makes a listener emit a frame -/
theorem silent_forever (s0 s : State) (h0 : Quiet s0) (h : Listening s0 s) :
    Quiet s ∧ ∃ new, s.log = new ++ s0.log ∧ ∀ e ∈ new, ∀ t m, e ≠ Ev.tx t m := by
  induction h with
  | start => exact ⟨h0, [], rfl, by simp⟩
  | process doRx doTx _ ih =>
    have := Quiet_process _ doRx doTx ih.1
    exact ⟨this.1, LogExt.trans ih.2 this.2⟩
  | recv _ ih =>
    refine ⟨(silent_invariant _ ih.1).2.2.2.1, LogExt.trans ih.2 (LogExt.of_eq ?_)⟩
    unfold State.recv; split <;> rfl
  | stopReceiving _ ih =>
    exact ⟨(silent_invariant _ ih.1).2.2.2.2.1, LogExt.trans ih.2 (LogExt.of_eq rfl)⟩
  | advance dt _ ih =>
    exact ⟨(silent_invariant _ ih.1).2.2.2.2.2.2.1 dt, LogExt.trans ih.2 (LogExt.of_eq rfl)⟩
  | pushFrame dt m _ ih =>
    exact ⟨(silent_invariant _ ih.1).2.2.2.2.2.2.2.1 dt m, LogExt.trans ih.2 (LogExt.of_eq rfl)⟩

/-! ## 2. only a user request produces frames -/

/-- in listen mode a frame coming out of `processTx` means the transmit FSM was busy with, or had queued,
    a user request -/
theorem user_send_only (s : State) (msg : CanMsg) (hl : s.cfg.listen = true)
    (ho : s.processTx.2.1 = some msg) : ¬ (s.txState = .idle ∧ s.txQueue = []) := by
  rintro ⟨hi, hq⟩
  rw [silent s hl hq hi] at ho
  cases ho

/-- … because the pending-Flow-Control stage of `processTx` (`txPend`, the only place where a Flow
    Control is built) never yields a frame in listen mode: it falls through to the transmit FSM -/
theorem no_flow_control_in_listen_mode (s : State) (hl : s.cfg.listen = true) (m : CanMsg) :
    s.txPend.2 ≠ some (some m) := txPend_listen s hl m

/-! ## 3. the listener hears the same messages -/

/-- `processRx`, seen through the receive-side projection, IS the reference receiver: the new reassembly
    state, the payloads delivered, the error classes reported and the "frame received" flag depend only on
    the old reassembly state, the size of the receive address prefix and `max_frame_size` — not on
    `listen`, `blocksize`, `stmin`, padding, timers, or any transmit-side field -/
theorem rx_is_reference (s : State) (m : CanMsg) :
    (s.processRx m).1.rxCore = (RxCore.step s.addr.rx.rxPrefixSize s.cfg.maxFrameSize s.rxCore m).1 ∧
    (s.processRx m).2.2 = (RxCore.step s.addr.rx.rxPrefixSize s.cfg.maxFrameSize s.rxCore m).2 :=
  rxCore_processRx s m

/-- two layers that agree on the reassembly state (and on the prefix size and `max_frame_size`) agree on
    it after processing the same frame, whatever their other parameters -/
theorem same_rx (s1 s2 : State) (m : CanMsg) (hc : s1.rxCore = s2.rxCore)
    (hp : s1.addr.rx.rxPrefixSize = s2.addr.rx.rxPrefixSize)
    (hm : s1.cfg.maxFrameSize = s2.cfg.maxFrameSize) :
    (s1.processRx m).1.rxCore = (s2.processRx m).1.rxCore ∧
    (s1.processRx m).2.2 = (s2.processRx m).2.2 := by
  rw [(rx_is_reference s1 m).1, (rx_is_reference s2 m).1, (rx_is_reference s1 m).2,
    (rx_is_reference s2 m).2, hc, hp, hm]
  exact ⟨rfl, rfl⟩

/-- a transmit pass does not disturb what was heard (it reports transmit-side errors only) -/
theorem tx_pass_invisible (s : State) : s.processTx.1.rxCore = s.rxCore := rxCore_processTx s

/-- a listener and a normal receiver with the same receive address observing the same frames (each
    followed by a transmit pass — in which the receiver sends its Flow Controls and the listener does
    not) reassemble exactly the same payloads and report the same receive errors -/
theorem same_messages (s1 s2 : State) (ms : List CanMsg) (hc : s1.rxCore = s2.rxCore)
    (hp : s1.addr.rx.rxPrefixSize = s2.addr.rx.rxPrefixSize)
    (hm : s1.cfg.maxFrameSize = s2.cfg.maxFrameSize) :
    (s1.observe ms).rxCore = (s2.observe ms).rxCore := rxCore_observe s1 s2 ms hc hp hm

/-- the timer caveat: with different block sizes N_Cr is stopped and restarted at different moments
    (at a block boundary it is stopped until the Flow Control is handed out), but after an accepted First
    Frame or intermediate Consecutive Frame and the transmit pass that follows it at the same instant,
    N_Cr is running from that instant — in listen mode too, where the Flow Control is not sent -/
theorem same_timer_after_pass (s : State) (m : CanMsg) (d : Decoded) :
    (∀ len data esc, FfAccepted s m d len data esc →
      (s.processRx m).1.processTx.1.timerCf.start = some s.now) ∧
    (∀ sn data, CfInSeq s m d sn data → (s.cfBuf data).length < s.rxFrameLen →
      (s.processRx m).1.processTx.1.timerCf.start = some s.now) := by
  have hn : (s.processRx m).1.now = s.now := by
    have := txView_processRx s m
    simp only [txView, TxView.mk.injEq] at this
    exact this.2.2.1
  refine ⟨fun len data esc h => ?_, fun sn data h hl => ?_⟩
  · have := processRx_ff_start h
    rw [← hn]
    exact processTx_timerCf_of_fresh _ (Or.inl (by rw [this.2.2.2.1, hn]))
  · have := (processRx_cf_more h hl).2.2.2.2.2.1
    rw [← hn]
    exact processTx_timerCf_of_fresh _ (by unfold RxFresh; rw [hn]; exact this)

/-! ## non-vacuity -/

def h11 : Half := { mode := .n11, txid := some 0x123, rxid := some 0x456, ta := none, sa := none, ae := none,
                    physId := 0, funcId := 0, rxOnly := false, txOnly := false }
def addr : Addr := { tx := h11, rx := h11 }
/-- a listener, and a normal receiver with other block size / STmin / padding -/
def cfgL : Cfg := { listen := true, blocksize := 0 }
def cfgN : Cfg := { blocksize := 2, stmin := 5, txPadding := some 0xAA }
def ff : CanMsg := { id := 0x456, ext := false, data := [0x10, 20, 1, 2, 3, 4, 5, 6] }
def cf1 : CanMsg := { id := 0x456, ext := false, data := [0x21, 7, 8, 9, 10, 11, 12, 13] }
def cf2 : CanMsg := { id := 0x456, ext := false, data := [0x22, 14, 15, 16, 17, 18, 19, 20] }
def fcOvf : CanMsg := { id := 0x456, ext := false, data := [0x32, 0, 0] }
def sf : CanMsg := { id := 0x456, ext := false, data := [3, 1, 2, 3] }

/-- the premises of `silent` hold initially … -/
example : Quiet (State.init cfgL addr) := by unfold Quiet; decide +kernel
/-- … and in the middle of a reception with a Flow Control pending and an Overflow in the mailbox -/
example : let s := (((State.init cfgL addr).processRx ff).1.processRx fcOvf).1
    Quiet s ∧ s.pendingFc = true ∧ s.pendingFcStatus = some 0 ∧ (s.lastFc.map (·.status)) = some 2 ∧
    s.processTx.2.1 = none := by unfold Quiet; decide +kernel
/-- the normal receiver does answer the same First Frame -/
example : (((State.init cfgN addr).processRx ff).1.processTx.2.1.map (·.data)) =
    some [0x30, 2, 5, 0xAA, 0xAA, 0xAA, 0xAA, 0xAA] := by decide +kernel
/-- a whole `process` with traffic in the inbox: nothing transmitted by the listener -/
example : let s := (((State.init cfgL addr).pushFrame 0 ff).pushFrame 10 cf1).process true true
    (s.1.log.filter fun | .tx _ _ => true | _ => false) = [] ∧ s.1.rxState = .waitCf := by
  decide +kernel
/-- `user_send_only`: a listener does transmit what the user sends -/
example : let s := ((State.init cfgL addr).send { id := 1, size := 3, src := [7, 8, 9] }).1
    s.cfg.listen = true ∧ (s.processTx.2.1.map (·.data)) = some [3, 7, 8, 9] ∧ s.txQueue ≠ [] := by
  decide +kernel
/-- `same_rx` / `same_messages`: hypotheses hold for the two fresh layers, and both hear the message -/
example : (State.init cfgL addr).rxCore = (State.init cfgN addr).rxCore ∧
    (State.init cfgL addr).addr.rx.rxPrefixSize = (State.init cfgN addr).addr.rx.rxPrefixSize ∧
    (State.init cfgL addr).cfg.maxFrameSize = (State.init cfgN addr).cfg.maxFrameSize := by
  decide +kernel
example : ((State.init cfgL addr).observe [ff, cf1, cf2, sf]).rxQueue =
      [[1, 2, 3, 4, 5, 6, 7, 8, 9, 10, 11, 12, 13, 14, 15, 16, 17, 18, 19, 20], [1, 2, 3]] ∧
    ((State.init cfgN addr).observe [ff, cf1, cf2, sf]).rxQueue =
      [[1, 2, 3, 4, 5, 6, 7, 8, 9, 10, 11, 12, 13, 14, 15, 16, 17, 18, 19, 20], [1, 2, 3]] := by
  decide +kernel
/-- `same_timer_after_pass`: hypotheses -/
example : FfAccepted (State.init cfgL addr) ff
    { pdu := .ff 20 [1, 2, 3, 4, 5, 6] false, canDl := 8, rxDl := 8 } 20 [1, 2, 3, 4, 5, 6] false :=
  ⟨by decide +kernel, rfl, by decide +kernel, by decide +kernel⟩
example : let s := ((State.init cfgN addr).processRx ff).1.processTx.1
    CfInSeq s cf1 { pdu := .cf 1 [7, 8, 9, 10, 11, 12, 13], canDl := 8, rxDl := 8 } 1
      [7, 8, 9, 10, 11, 12, 13] ∧ (s.cfBuf [7, 8, 9, 10, 11, 12, 13]).length < s.rxFrameLen :=
  ⟨⟨by decide +kernel, rfl, by decide +kernel, by decide +kernel, Or.inl (by decide +kernel)⟩,
   by decide +kernel⟩

end Isotp.C18

#print axioms Isotp.C18.silent
#print axioms Isotp.C18.silent_invariant
#print axioms Isotp.C18.silent_process
#print axioms Isotp.C18.silent_forever
#print axioms Isotp.C18.user_send_only
#print axioms Isotp.C18.no_flow_control_in_listen_mode
#print axioms Isotp.C18.rx_is_reference
#print axioms Isotp.C18.same_rx
#print axioms Isotp.C18.tx_pass_invisible
#print axioms Isotp.C18.same_messages
#print axioms Isotp.C18.same_timer_after_pass
