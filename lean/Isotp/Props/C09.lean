import Isotp.Process
/-
  C09 — property theorems (see DESIGN.md §6). Helper lemmas live in Isotp/Proofs.
-/
namespace Isotp.C09
open Isotp State

end Isotp.C09
