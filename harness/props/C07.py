"""C07 - timeouts fire exactly when the deadline is missed, and only then."""
import gen
import ref
import trace
from props.base import PropBase
from props.C06 import rx_prefix_bytes
from props.C02 import fc_frame


def split_gap(rng, d, k):
    """split duration d into k+1 non-negative parts"""
    cuts = sorted(rng.randrange(0, d + 1) for _ in range(k))
    parts = []
    prev = 0
    for c in cuts:
        parts.append(c - prev)
        prev = c
    parts.append(d - prev)
    return parts


class C07(PropBase):
    id = 'C07'
    address_change = 0.15
    rx_only_gaps = 0.1
    partial_passes = 0.25
    rx_only_passes = 0.4
    lean_modules = ['Isotp.Props.C07']
    theorems = []
    rule = ('timeouts 1 ms..10 s; RX: a well-formed message of 2..20 frames with one inter-frame gap T +/- delta (delta 1 us..T/2, never on the '
            'deadline) at every position, 0..5 idle process() calls inside the gap, time advanced by tick or by a blocking rxfn; endings by '
            'completion, interrupting SF, over-long FF, stop_receiving followed by silence of 3T; TX: First Frame / end of block / Wait followed by '
            'a Flow Control after T +/- delta with idle tx passes in between, late Wait, then silence; expectation computed from the deadline; '
            'distinct = (family, T, position, delta sign, idle calls, ending)')
    assumptions = ['virtual clock; gaps never exactly on a deadline']
    quick_per_shard = 150
    thorough_per_shard = 5000

    def scenario(self, rng, tier):
        r = rng.random()
        if r < 0.5:
            return self.rx_family(rng)
        if r < 0.8:
            return self.tx_family(rng)
        if r < 0.9:
            return self.tx_midblock_wait_family(rng)
        return self.tx_standby_family(rng)

    # ------------------------------------------------------------------ TX, First Frame parked by the rate limiter: N_Bs counts from its transmission
    def tx_standby_family(self, rng):
        a, _ = gen.rand_addr_pair(rng, mode=rng.choice([0, 0, 1, 4, 6]), asym_prob=0)
        T_ms = rng.choice([50, 100, 500])
        T = T_ms * 1000000
        w = rng.choice([1.0, 2.0])                   # limiter window well above N_Bs
        params = {'rx_flowcontrol_timeout': T_ms, 'rate_limit_enable': True, 'rate_limit_window_size': w,
                  'rate_limit_max_bitrate': int(16 * 8 / w)}            # two 8-byte frames per window
        ops = [{'op': 'layer', 'i': 0, 'addr': a, 'params': params}]
        pre = gen.prefix_len(a, 'tx')
        # two Single Frames use up the window, then a multi-frame message: its First Frame waits in standby for about w seconds
        ops.append({'op': 'send', 'i': 0, 'id': 1, 'data': gen.rand_payload(rng, 6 - pre)})
        ops.append({'op': 'send', 'i': 0, 'id': 2, 'data': gen.rand_payload(rng, 6 - pre)})
        ops.append({'op': 'send', 'i': 0, 'id': 3, 'data': gen.rand_payload(rng, 12)})
        ops.append({'op': 'process', 'i': 0})
        wns = int(w * 10**9)
        # idle passes while the First Frame is parked, for longer than N_Bs: no FlowControlTimeoutError may be reported
        step = rng.choice([T // 2 + 1000, T + 1000, T // 3])
        acc = 0
        while acc < wns + 20000000:
            ops.append({'op': 'tick', 'dt': step})
            acc += step
            ops.append({'op': 'process', 'i': 0})
        # the First Frame is out by now (window passed); the Flow Control arrives T - delta after it at the latest
        fidc, ext, cts = fc_frame(a, 0, 0)
        late = rng.random() < 0.4
        delta = max(1000, rng.choice([1000, T // 10]))
        # time of the First Frame = first pass at which the oldest slot expired: between wns and wns + step after the start;
        # the passes above overshoot it by less than `step` + 20 ms, so only a margin-safe gap is used for the in-time case
        if late:
            ops.append({'op': 'tick', 'dt': T + delta})
            ops.append({'op': 'process', 'i': 0})
            expect_at = len(ops) - 1
        ops.append({'op': 'frame', 'i': 0, 'id': fidc, 'ext': ext, 'data': cts})
        ops.append({'op': 'process', 'i': 0})
        for _ in range(6):
            ops.append({'op': 'tick', 'dt': wns + 6000000})
            ops.append({'op': 'process', 'i': 0})
        return {'ops': ops, 'meta': {'family': 'txstandby', 'T': T, 'late': late, 'idle': 0, 'gap_at': 200, 'wait': False, 'late_wait': False,
                                     'expect_timeout': late, 'expect_at': None, 'rbs': 0, 'wft': 0, 'step': step}}

    # ------------------------------------------------------------------ TX, Wait frame received mid-block (sender paced by STmin)
    def tx_midblock_wait_family(self, rng):
        a, _ = gen.rand_addr_pair(rng, mode=rng.choice([0, 0, 1, 4, 6]), asym_prob=0)
        T_ms = rng.choice([5, 100, 1000, 1000])
        T = T_ms * 1000000
        wft = rng.choice([1, 2, 3])
        params = {'rx_flowcontrol_timeout': T_ms, 'wftmax': wft}
        ops = [{'op': 'layer', 'i': 0, 'addr': a, 'params': params}]
        pre = gen.prefix_len(a, 'tx')
        c = 7 - pre
        ncf = rng.choice([4, 6, 9])
        n = (6 - pre) + c * ncf - rng.randrange(0, c - 1)
        ops.append({'op': 'send', 'i': 0, 'id': 1, 'data': gen.rand_payload(rng, n)})
        ops.append({'op': 'process', 'i': 0})       # FF out
        stmin_byte = rng.choice([1, 2, 0xF5])
        st_ns = ref.stmin_ns(stmin_byte)
        rbs = rng.choice([0, 0, ncf + 5])
        fidc, ext, cts = fc_frame(a, rbs, stmin_byte)
        _, _, wait = fc_frame(a, 0, 0, status=1)
        ops.append({'op': 'frame', 'i': 0, 'id': fidc, 'ext': ext, 'data': cts})
        ops.append({'op': 'process', 'i': 0})
        k_cf = rng.randrange(0, ncf - 1)            # Consecutive Frames sent before the Wait arrives
        for _ in range(k_cf):
            ops.append({'op': 'tick', 'dt': st_ns + 1000})
            ops.append({'op': 'process', 'i': 0})
        nwait = rng.randrange(1, wft + 1)
        for w in range(nwait):                      # Wait frames, each well inside the deadline of the previous restart
            ops.append({'op': 'tick', 'dt': rng.choice([0, 1000, min(T // 3, st_ns // 2)])})
            ops.append({'op': 'frame', 'i': 0, 'id': fidc, 'ext': ext, 'data': wait})
            ops.append({'op': 'process', 'i': 0})
        late = rng.random() < 0.6
        delta = max(1000, rng.choice([1000, 20000, T // 10, T // 2 - 1]))
        d = T + delta if late else T - delta
        idle = rng.randrange(0, 4)
        parts = split_gap(rng, d, idle)
        acc = 0
        expect_at = None
        for pgap in parts[:-1]:
            ops.append({'op': 'tick', 'dt': pgap})
            acc += pgap
            ops.append({'op': 'process', 'i': 0})
            if acc > T and expect_at is None:
                expect_at = len(ops) - 1
        ops.append({'op': 'tick', 'dt': parts[-1]})
        ops.append({'op': 'frame', 'i': 0, 'id': fidc, 'ext': ext, 'data': cts})
        ops.append({'op': 'process', 'i': 0})
        if late and expect_at is None:
            expect_at = len(ops) - 1
        if not late:
            for _ in range(ncf + 2):
                ops.append({'op': 'tick', 'dt': st_ns + 1000})
                ops.append({'op': 'process', 'i': 0})
        for _ in range(4):
            ops.append({'op': 'tick', 'dt': rng.choice([T // 2 + 1, T + 1000, 3 * T])})
            ops.append({'op': 'process', 'i': 0})
        return {'ops': ops, 'meta': {'family': 'tx', 'T': T, 'late': late, 'idle': idle, 'gap_at': 100 + k_cf, 'wait': True, 'late_wait': False,
                                     'expect_timeout': late, 'expect_at': expect_at if late else None, 'rbs': rbs, 'wft': wft}}

    # ------------------------------------------------------------------ RX
    def rx_family(self, rng):
        a, _ = gen.rand_addr_pair(rng, mode=rng.choice([0, 0, 2, 3, 5]), asym_prob=0)
        T_ms = rng.choice([1, 5, 100, 1000, 1000, 10000])
        T = T_ms * 1000000
        bs = rng.choice([0, 1, 2, 5])
        params = {'rx_consecutive_frame_timeout': T_ms, 'blocksize': bs}
        if rng.random() < 0.2:
            # a listener follows the same deadlines although it never answers: where a Flow Control would be due it only restarts its N_Cr timer
            params['listen_mode'] = True
        ops = [{'op': 'layer', 'i': 0, 'addr': a, 'params': params}]
        pre = rx_prefix_bytes(a)
        fid, ext, _ = gen.rx_match_frame(a, b'')
        txdl = rng.choice([8, 8, 16])
        c = txdl - 1 - len(pre)
        ncf = rng.choice([1, 2, 3, 7, 19])
        n = (txdl - 2 - len(pre)) + c * ncf - rng.randrange(0, c - 1)
        m = gen.rand_payload(rng, n)
        frames = ref.foreign_stream(m, txdl, prefix=pre, last='min')
        ending = rng.choice(['gap', 'gap', 'gap', 'complete', 'sf', 'toolong', 'stop'])
        g = rng.randrange(1, len(frames))
        late = rng.random() < 0.5
        delta = rng.choice([1000, 1000, 20000, T // 10, T // 2 - 1]) if T > 4000 else 1000
        delta = max(1000, delta)
        d = T + delta if late else T - delta
        idle = rng.randrange(0, 6)
        blocking = rng.random() < 0.3
        expect_timeout = False
        expect_at = None
        for k, fr in enumerate(frames):
            if ending == 'gap' and k == g:
                parts = split_gap(rng, d, idle)
                acc = 0
                # frames that are read but IGNORED inside the gap do not belong to the message: they must not move its deadline
                inj = rng.randrange(len(parts) - 1) if len(parts) > 1 and rng.random() < 0.4 else None
                for j, p in enumerate(parts[:-1]):
                    ops.append({'op': 'tick', 'dt': p})
                    acc += p
                    if j == inj:
                        kinds = ['fc', 'foreign']
                        if txdl > 8 and k < len(frames) - 1:
                            kinds += ['rxdl', 'rxdl']
                        kinds.append('sf_noescape')
                        ignored = rng.choice(kinds)
                        if ignored == 'fc':
                            ops.append({'op': 'frame', 'i': 0, 'id': fid, 'ext': ext, 'data': pre + bytes([0x30, 0, 0])})
                        elif ignored == 'sf_noescape':
                            # a Single Frame on more than 8 bytes without the escape sequence: refused (MissingEscapeSequenceError), ignored
                            ops.append({'op': 'frame', 'i': 0, 'id': fid, 'ext': ext, 'data': (pre + bytes([0x05]) + bytes(11))[:12]})
                        elif ignored == 'foreign':
                            ops.append({'op': 'frame', 'i': 0, 'id': fid ^ 1, 'ext': ext, 'data': fr})
                        else:
                            # the expected sequence number in a frame of another size than the First Frame's (not the last frame): refused, ignored
                            ops.append({'op': 'frame', 'i': 0, 'id': fid, 'ext': ext, 'data': (pre + bytes([0x20 | (k % 16)]) + bytes(7))[:8]})
                    ops.append({'op': 'process', 'i': 0})
                    if acc > T and expect_at is None:
                        expect_at = len(ops) - 1
                if blocking:
                    ops.append({'op': 'frame', 'i': 0, 'id': fid, 'ext': ext, 'data': fr, 'dt': parts[-1]})
                else:
                    ops.append({'op': 'tick', 'dt': parts[-1]})
                    ops.append({'op': 'frame', 'i': 0, 'id': fid, 'ext': ext, 'data': fr})
                ops.append({'op': 'process', 'i': 0})
                if late and expect_at is None:
                    expect_at = len(ops) - 1
                expect_timeout = late
                continue
            if ending in ('sf', 'toolong', 'stop') and k == g:
                if ending == 'sf':
                    ops.append({'op': 'frame', 'i': 0, 'id': fid, 'ext': ext, 'data': pre + bytes([2, 0xAA, 0xBB])})
                    ops.append({'op': 'process', 'i': 0})
                elif ending == 'toolong':
                    ops.append({'op': 'frame', 'i': 0, 'id': fid, 'ext': ext, 'data': (pre + bytes([0x1F, 0xFF]) + bytes(6))[:8]})
                    ops.append({'op': 'process', 'i': 0})
                else:
                    ops.append({'op': 'stop_receiving', 'i': 0})
                break
            ops.append({'op': 'tick', 'dt': rng.choice([0, 1000, max(0, T - 1000)])})
            ops.append({'op': 'frame', 'i': 0, 'id': fid, 'ext': ext, 'data': fr})
            ops.append({'op': 'process', 'i': 0})
        if ending == 'toolong':
            params['max_frame_size'] = 4000
        # silence
        for _ in range(4):
            ops.append({'op': 'tick', 'dt': rng.choice([T // 2 + 1, T + 1000, 3 * T])})
            ops.append({'op': 'process', 'i': 0})
        return {'ops': ops, 'meta': {'family': 'rx', 'T': T, 'ending': ending, 'g': g, 'late': late, 'idle': idle,
                                     'expect_timeout': expect_timeout, 'expect_at': expect_at, 'm': bytes(m), 'nframes': len(frames)}}

    # ------------------------------------------------------------------ TX
    def tx_family(self, rng):
        a, _ = gen.rand_addr_pair(rng, mode=rng.choice([0, 0, 1, 4, 6]), asym_prob=0)
        T_ms = rng.choice([1, 5, 100, 1000, 1000, 10000])
        T = T_ms * 1000000
        wft = rng.choice([0, 0, 2, 3])
        params = {'rx_flowcontrol_timeout': T_ms, 'wftmax': wft}
        # full duplex: while the layer waits for the Flow Control of its own transmission it is also RECEIVING a multi-frame message, and the
        # awaited Flow Control is read in the same process() call as - just before - the frame that ends that reception.  "Processed within
        # the deadline" holds for it like for any other Flow Control.
        duplex = rng.random() < 0.25
        if duplex:
            params['rx_consecutive_frame_timeout'] = 40 * T_ms       # the reception itself never times out in these scenarios
        ops = [{'op': 'layer', 'i': 0, 'addr': a, 'params': params}]
        pre = gen.prefix_len(a, 'tx')
        c = 7 - pre
        rbs = rng.choice([0, 1, 2])
        nblocks = rng.choice([1, 2, 3]) if rbs else 1
        ncf = rbs * nblocks + (1 if rbs else 3)
        n = (6 - pre) + c * ncf - rng.randrange(0, c - 1)
        ops.append({'op': 'send', 'i': 0, 'id': 1, 'data': gen.rand_payload(rng, n)})
        ops.append({'op': 'process', 'i': 0})       # FF out, timer starts now
        closing = []
        if duplex:
            rpre = rx_prefix_bytes(a)
            rid_, rext, _ = gen.rx_match_frame(a, b'')
            kind = rng.choice(['last_cf', 'last_cf', 'sf', 'wrong_sn'])
            inc = ref.foreign_stream(gen.rand_payload(rng, (6 - len(rpre)) + (7 - len(rpre)) * 2), 8, prefix=rpre, last='min')
            for fr in inc[:-1]:
                ops.append({'op': 'frame', 'i': 0, 'id': rid_, 'ext': rext, 'data': fr})
                ops.append({'op': 'process', 'i': 0})
            end = {'last_cf': inc[-1], 'sf': rpre + bytes([2, 0x11, 0x22]), 'wrong_sn': rpre + bytes([0x2F, 1, 2, 3])}[kind]
            closing = [{'op': 'frame', 'i': 0, 'id': rid_, 'ext': rext, 'data': end}]
        nrounds = nblocks + 1 if rbs else 1
        gap_at = rng.randrange(0, nrounds)
        late = rng.random() < 0.5
        delta = max(1000, rng.choice([1000, 1000, 20000, T // 10, T // 2 - 1]) if T > 4000 else 1000)
        d = T + delta if late else T - delta
        idle = rng.randrange(0, 5)
        use_wait = wft > 0 and rng.random() < 0.5
        late_wait = use_wait and rng.random() < 0.4
        expect_timeout = False
        expect_at = None
        fidc, ext, cts = fc_frame(a, rbs, 0)
        _, _, wait = fc_frame(a, 0, 0, status=1)
        for b in range(nrounds):
            if b == gap_at:
                if use_wait:
                    if late_wait:
                        # Wait arrives after the deadline
                        ops.append({'op': 'tick', 'dt': T + delta})
                        ops.append({'op': 'frame', 'i': 0, 'id': fidc, 'ext': ext, 'data': wait})
                        ops.append({'op': 'process', 'i': 0})
                        expect_timeout = True
                        expect_at = len(ops) - 1
                        break
                    # a Wait in time restarts the deadline
                    ops.append({'op': 'tick', 'dt': T - delta})
                    ops.append({'op': 'frame', 'i': 0, 'id': fidc, 'ext': ext, 'data': wait})
                    ops.extend(closing)
                    closing = []
                    ops.append({'op': 'process', 'i': 0})
                parts = split_gap(rng, d, idle)
                acc = 0
                for p in parts[:-1]:
                    ops.append({'op': 'tick', 'dt': p})
                    acc += p
                    ops.append({'op': 'process', 'i': 0})
                    if acc > T and expect_at is None:
                        expect_at = len(ops) - 1
                ops.append({'op': 'tick', 'dt': parts[-1]})
                ops.append({'op': 'frame', 'i': 0, 'id': fidc, 'ext': ext, 'data': cts})
                ops.extend(closing)
                closing = []
                ops.append({'op': 'process', 'i': 0})
                expect_timeout = late
                if late:
                    if expect_at is None:
                        expect_at = len(ops) - 1
                    break
            else:
                ops.append({'op': 'tick', 'dt': rng.choice([0, 1000, max(0, T - 1000)])})
                ops.append({'op': 'frame', 'i': 0, 'id': fidc, 'ext': ext, 'data': cts})
                ops.extend(closing)
                closing = []
                ops.append({'op': 'process', 'i': 0})
        for _ in range(4):
            ops.append({'op': 'tick', 'dt': rng.choice([T // 2 + 1, T + 1000, 3 * T])})
            ops.append({'op': 'process', 'i': 0})
        return {'ops': ops, 'no_rx_only': duplex,        # (a receive-only pass may lose a Flow Control in duplex: outside every quantifier, DESIGN 11.3)
                'meta': {'family': 'tx', 'T': T, 'late': late, 'idle': idle, 'gap_at': gap_at, 'wait': use_wait, 'late_wait': late_wait,
                         'expect_timeout': expect_timeout, 'expect_at': expect_at, 'rbs': rbs, 'wft': wft, 'duplex': duplex}}

    def project(self, op_line, out_line):
        return trace.project_events(out_line, keep=('err', 'deliver', 'done', 'tx'), status_keys=('rx', 'tr'))

    def judge(self, sc, lines_in, impl_out):
        meta = sc['meta']
        out = []
        recs = trace.records(lines_in, impl_out, sc)
        cf_to = [(r.k, e['t']) for r in recs for e in r.events if e['k'] == 'err' and e['name'] == 'ConsecutiveFrameTimeoutError']
        fc_to = [(r.k, e['t']) for r in recs for e in r.events if e['k'] == 'err' and e['name'] == 'FlowControlTimeoutError']
        delivered = [e['data'] for r in recs for e in r.events if e['k'] == 'deliver']
        dones = [(e['id'], e['ok']) for r in recs for e in r.events if e['k'] == 'done']
        if meta['family'] == 'txstandby':
            # the deadline runs from the moment the First Frame is handed to the CAN layer, not from the moment it was parked
            t_ff = None
            prefix_len = None
            for r in recs:
                for e in r.events:
                    if e['k'] == 'tx' and t_ff is None:
                        body = e['data']
                        # third data frame emitted = the First Frame of request 3 (two Single Frames precede it)
                        pass
            txs = [(r.k, e['t'], e['data']) for r in recs for e in r.events if e['k'] == 'tx']
            ff = [x for x in txs if len(txs) >= 3 and x is txs[2]]
            if not ff:
                out.append(('tx_iff', 'the parked First Frame was never emitted (frames: %d)%s' % (len(txs), ' after FlowControlTimeoutError while still parked' if fc_to else '')))
                return out[:3]
            t_ff = ff[0][1]
            early = [t for (_, t) in fc_to if t <= t_ff + meta['T']]
            if early:
                out.append(('tx_iff', 'FlowControlTimeoutError at %d ns although the First Frame went out at %d ns and N_Bs is %d ns' % (early[0], t_ff, meta['T'])))
            if meta['late'] and not fc_to:
                out.append(('tx_iff', 'no FlowControlTimeoutError although no Flow Control arrived within N_Bs of the First Frame'))
            if not meta['late'] and ((3, True) not in dones):
                cts_t = [e['t'] for r in recs for e in r.events if e['k'] == 'rx']
                if cts_t and cts_t[0] - t_ff <= meta['T'] and not fc_to:
                    out.append(('tx_iff', 'a ContinueToSend processed %d ns after the First Frame (N_Bs %d ns) was not honoured: outcomes %s' % (cts_t[0] - t_ff, meta['T'], dones)))
            return out[:3]
        if meta['family'] == 'rx':
            if fc_to:
                out.append(('idle_quiet', 'FlowControlTimeoutError reported although nothing is being transmitted'))
            if meta['expect_timeout']:
                if len(cf_to) != 1:
                    out.append(('rx_iff', 'gap of T+delta before frame %d: %d ConsecutiveFrameTimeoutError reported, expected exactly one' % (meta['g'], len(cf_to))))
                elif cf_to[0][0] != meta['expect_at']:
                    out.append(('rx_iff', 'ConsecutiveFrameTimeoutError reported at op %d, but the first rx return after the deadline is op %d' % (cf_to[0][0], meta['expect_at'])))
                if meta['m'] in delivered:
                    out.append(('rx_iff', 'message delivered although the deadline was missed'))
            else:
                if cf_to:
                    what = 'while no reception is in progress (ending: %s)' % meta['ending'] if meta['ending'] != 'gap' else 'although every frame arrived before its deadline'
                    out.append(('rx_quiet' if meta['ending'] != 'gap' else 'rx_iff', 'ConsecutiveFrameTimeoutError reported %s' % what))
                if meta['ending'] in ('gap', 'complete') and meta['m'] not in delivered:
                    out.append(('rx_iff', 'a frame processed before the deadline was not accepted: message not delivered'))
        else:
            if cf_to:
                out.append(('idle_quiet', 'ConsecutiveFrameTimeoutError reported although nothing is being received'))
            if meta['expect_timeout']:
                if len(fc_to) != 1:
                    out.append(('tx_iff', 'Flow Control missing at the deadline: %d FlowControlTimeoutError reported, expected exactly one' % len(fc_to)))
                elif fc_to[0][0] != meta['expect_at']:
                    out.append(('tx_iff', 'FlowControlTimeoutError reported at op %d, but the first tx pass after the deadline is op %d (late Flow Control honoured?)' % (fc_to[0][0], meta['expect_at'])))
                if (1, False) not in dones or (1, True) in dones:
                    out.append(('tx_iff', 'transmission not marked failed after the missed deadline: outcomes %s' % dones))
            else:
                if fc_to:
                    out.append(('tx_iff', 'FlowControlTimeoutError reported although every Flow Control arrived before its deadline'))
                if (1, True) not in dones:
                    out.append(('tx_iff', 'a ContinueToSend processed before the deadline was not honoured: outcomes %s' % dones))
        return out[:3]

    def nontrivial_key(self, sc, lines_in, impl_out):
        m = sc['meta']
        if m['family'] == 'rx':
            return ('rx', m['T'], m['ending'], m['g'], m['late'], m['idle'], m['nframes'])
        if m['family'] == 'txstandby':
            return ('txstandby', m['T'], m['late'], m['step'])
        return ('tx', m['T'], m['gap_at'], m['late'], m['idle'], m['wait'], m['late_wait'], m['rbs'], m.get('duplex', False))

    def tally(self, dist, sc, lines_in, impl_out):
        PropBase.tally(self, dist, sc, lines_in, impl_out)
        m = sc['meta']
        k = '%s:%s:%s' % (m['family'], m.get('ending', 'fc'), 'late' if m['expect_timeout'] else 'intime')
        dist[k] = dist.get(k, 0) + 1


PROP = C07()
