import Isotp.Proofs.Segment
/-
  C01 (lossless transfer between two peers) — the Spec-level bridge.

  Other files prove "the sender model emits exactly `Spec.segment`" and "the receiver model
  reassembles every `Spec.WellFormed` stream". Here: for every valid transmit configuration the
  reference segmentation IS a well-formed stream (`segment_wellFormed`), every frame has a legal
  length (`segment_lengths`), and a reference decoder inverts every well-formed stream
  (`reassemble_wellFormed_partial`, `reassemble_segment`), so the composition is lossless.
  Helper lemmas: Isotp/Proofs/Segment.lean.
-/
namespace Isotp.C01
open Isotp.Spec Isotp.Proofs.Seg

/-! ## 1. basic lemmas -/

/-- `leastLegal n` (n ≤ 64) is a legal CAN (FD) length, at least `n`, and the least such; it is `n`
    itself up to 8. -/
theorem leastLegal_spec (n : Nat) (h : n ≤ 64) :
    legal (leastLegal n) ∧ n ≤ leastLegal n ∧ (∀ m, legal m → n ≤ m → leastLegal n ≤ m) ∧
    (n ≤ 8 → leastLegal n = n) :=
  ⟨leastLegal_legal n h, leastLegal_ge n, fun m hm hnm => leastLegal_least n m hm hnm, leastLegal_of_le_8 n⟩

example : leastLegal 9 = 12 ∧ leastLegal 33 = 48 ∧ leastLegal 7 = 7 ∧ leastLegal 64 = 64 := by decide

/-- under validity the padded length of a frame that fits the link layer is legal, at least the data
    length, at least the padding floor, at most `tx_data_length`, and the least such length -/
theorem padTarget_spec (c : TxCfg) (hv : c.valid) (n : Nat) (hn : n ≤ c.txDl) :
    legal (padTarget c n) ∧ n ≤ padTarget c n ∧ floorLen c ≤ padTarget c n ∧ padTarget c n ≤ c.txDl ∧
    (∀ m, legal m → n ≤ m → floorLen c ≤ m → padTarget c n ≤ m) :=
  ⟨padTarget_legal c hv n hn, padTarget_ge c n, padTarget_ge_floor c n, padTarget_le c hv n hn,
   fun m hm h1 h2 => padTarget_least c n m hm h1 h2⟩

example : ({ txDl := 64, minLen := some 12, padding := some 0xAA, pre := [0x55] } : TxCfg).valid := by decide
example : padTarget { txDl := 64, minLen := some 12, padding := some 0xAA, pre := [0x55] } 6 = 12 := by decide
example : ¬ ({ txDl := 16, minLen := some 20, padding := none, pre := [] } : TxCfg).valid := by decide

/-- padding keeps the data as a prefix, appends only padding bytes, and reaches exactly `padTarget` -/
theorem padFrame_spec (c : TxCfg) (d : Bytes) :
    padFrame c d = d ++ List.replicate (padTarget c d.length - d.length) (Spec.padByte c) ∧
    (padFrame c d).length = padTarget c d.length ∧ (padFrame c d).take d.length = d :=
  ⟨padFrame_eq c d, length_padFrame c d, padFrame_prefix c d⟩

/-- `chunks k l` (k ≥ 1) cuts `l` without loss into ⌈|l|/k⌉ non-empty pieces, all of length `k`
    except the last one, which has 1..k bytes -/
theorem chunks_spec (k : Nat) (hk : 1 ≤ k) (l : Bytes) :
    (chunks k l).flatten = l ∧
    (∀ d ∈ chunks k l, 1 ≤ d.length ∧ d.length ≤ k) ∧
    (∀ i (hi : i + 1 < (chunks k l).length), ((chunks k l)[i]'(by omega)).length = k) ∧
    (∀ h : chunks k l ≠ [], 1 ≤ ((chunks k l).getLast h).length ∧ ((chunks k l).getLast h).length ≤ k) ∧
    (chunks k l).length = (l.length + k - 1) / k ∧
    (chunks k l = [] ↔ l = []) :=
  ⟨chunks_flatten k hk _ l rfl, chunks_mem_length k hk l, chunks_getElem_length k hk l,
   chunks_getLast_length k hk l, chunks_length k hk l, chunks_eq_nil_iff k hk l⟩

example : chunks 3 [1, 2, 3, 4, 5, 6, 7] = [[1, 2, 3], [4, 5, 6], [7]] := by decide

/-! ## 2. the three forms of the segmentation -/

/-- arithmetic reading of the two Single Frame conditions -/
theorem sf_conditions (c : TxCfg) (n : Nat) :
    (sfShort c n ↔ c.pre.length + 1 + n ≤ 8 ∧ floorLen c ≤ 8) ∧
    (sfEscape c n ↔ (8 < c.pre.length + 1 + n ∨ 8 < floorLen c) ∧ c.pre.length + 2 + n ≤ c.txDl) := by
  have h := sfShort_iff c n
  refine ⟨h, ?_⟩
  unfold sfEscape
  rw [h]; omega

/-- Exactly one of the three forms applies (the three guards are mutually exclusive); in the
    segmented case the First Frame cannot hold the whole payload, so there is at least one
    Consecutive Frame; with classic CAN (`txDl = 8`) the escape form is never used. -/
theorem segment_cases (c : TxCfg) (hv : c.valid) (p : Bytes) :
    ((sfShort c p.length ∧ segment c p = [padFrame c (c.pre ++ [UInt8.ofNat p.length] ++ p)]) ∨
     (¬ sfShort c p.length ∧ sfEscape c p.length ∧
        segment c p = [padFrame c (c.pre ++ [0x00, UInt8.ofNat p.length] ++ p)]) ∨
     (¬ sfShort c p.length ∧ ¬ sfEscape c p.length ∧ ffRoom c p.length < p.length ∧
        chunks (cfRoom c) (p.drop (ffRoom c p.length)) ≠ [] ∧
        segment c p = padFrame c (c.pre ++ ffHeader p.length ++ p.take (ffRoom c p.length))
          :: cfFrames c 1 (chunks (cfRoom c) (p.drop (ffRoom c p.length))))) ∧
    (c.txDl = 8 → ¬ sfEscape c p.length) := by
  refine ⟨?_, fun h8 => not_sfEscape_of_txDl_8 c hv h8 _⟩
  rcases Proofs.Seg.segment_cases c p with h | h | ⟨hs, he, heq⟩
  · exact Or.inl h
  · exact Or.inr (Or.inl h)
  · have hgt := ffRoom_lt_of_not_sf c hv p.length hs he
    refine Or.inr (Or.inr ⟨hs, he, hgt, ?_, heq⟩)
    rw [ne_eq, chunks_eq_nil_iff _ (cfRoom_pos c hv)]
    intro h
    have := congrArg List.length h
    simp only [List.length_drop, List.length_nil] at this; omega

-- corner cases: classic CAN with minLen = 8 (short SF padded to 8; 7 bytes no longer fit a prefix-ed SF)
example : sfShort { txDl := 8, minLen := some 8, padding := none, pre := [] } 7 := by decide
example : ¬ sfShort { txDl := 8, minLen := some 8, padding := none, pre := [1] } 7 ∧
          ¬ sfEscape { txDl := 8, minLen := some 8, padding := none, pre := [1] } 7 := by decide
-- CAN FD with minLen > 8: the short form is never used, even for 1 byte
example : ¬ sfShort { txDl := 64, minLen := some 12, padding := none, pre := [] } 1 ∧
          sfEscape { txDl := 64, minLen := some 12, padding := none, pre := [] } 1 := by decide

/-! ## 3. main theorem: the reference segmentation is a well-formed stream -/

/-- For a valid transmit configuration and a non-empty payload below 2^32 bytes, the frames a
    conforming sender must produce form a stream every conforming receiver must accept. -/
theorem segment_wellFormed (c : TxCfg) (hv : c.valid) (p : Bytes)
    (h1 : 1 ≤ p.length) (h2 : p.length < 4294967296) : WellFormed c.pre p (segment c p) :=
  Proofs.Seg.segment_wellFormed c hv p h1 h2

/-! ## 4. frame lengths and frame count -/

/-- every frame of the segmentation has a legal CAN / CAN FD data length, not above
    `tx_data_length` and not below the padding floor -/
theorem segment_lengths (c : TxCfg) (hv : c.valid) (p : Bytes) :
    ∀ f ∈ segment c p, legal f.length ∧ f.length ≤ c.txDl ∧ floorLen c ≤ f.length :=
  segment_frame_lengths c hv p

/-- one frame for a Single Frame, otherwise `1 + ⌈(n - ffRoom) / cfRoom⌉` -/
theorem segment_count (c : TxCfg) (hv : c.valid) (p : Bytes) :
    (segment c p).length =
      if sfShort c p.length ∨ sfEscape c p.length then 1
      else 1 + (p.length - ffRoom c p.length + cfRoom c - 1) / cfRoom c :=
  Proofs.Seg.segment_count c hv p

/-! ## 5. the Spec-level lossless round trip -/

/-- The statement as first asked, for an arbitrary prefix. It is FALSE: for a prefix of 7 bytes and
    8-byte frames `ffRoom = cfRoom = 0` (truncated subtraction) and one frame list is a "well-formed"
    encoding of two different payloads. `WellFormed` is documented for a prefix of 0 or 1 byte, which
    is all the implementation uses; the theorem below needs only `pre.length ≤ 6`. -/
def C01_reassemble_wellFormed_statement : Prop :=
  ∀ (pre p : Bytes) (frames : List Bytes), WellFormed pre p frames → reassemble pre.length frames = some p

theorem C01_reassemble_wellFormed_statement_false : ¬ C01_reassemble_wellFormed_statement := by
  intro h
  obtain ⟨h1, h2⟩ := wellFormed_long_prefix_ambiguous
  have e1 := h _ _ _ h1
  have e2 := h _ _ _ h2
  rw [e1] at e2
  exact absurd e2 (by decide)

/-- the reference decoder returns the payload of every well-formed stream -/
theorem reassemble_wellFormed_partial (pre p : Bytes) (hpre : pre.length ≤ 6) (frames : List Bytes)
    (h : WellFormed pre p frames) : reassemble pre.length frames = some p :=
  Proofs.Seg.reassemble_wellFormed pre p hpre frames h

example : WellFormed [0x55] [1, 2, 3] [[0x55, 0, 3, 1, 2, 3, 0xAA, 0xAA, 0xAA, 0xAA, 0xAA, 0xAA]] :=
  Or.inr (Or.inl ⟨[0xAA, 0xAA, 0xAA, 0xAA, 0xAA, 0xAA], by decide, by decide, by decide, by decide⟩)

/-- decoding the reference segmentation gives back the payload -/
theorem reassemble_segment (c : TxCfg) (hv : c.valid) (p : Bytes)
    (h1 : 1 ≤ p.length) (h2 : p.length < 4294967296) :
    reassemble c.pre.length (segment c p) = some p :=
  Proofs.Seg.reassemble_segment c hv p h1 h2

/-! ## 6. injectivity -/

/-- different payloads (of the same or of different lengths) give different frame lists -/
theorem segment_injective (c : TxCfg) (hv : c.valid) (p q : Bytes)
    (hp1 : 1 ≤ p.length) (hp2 : p.length < 4294967296) (hq1 : 1 ≤ q.length) (hq2 : q.length < 4294967296)
    (h : segment c p = segment c q) : p = q :=
  Proofs.Seg.segment_injective c hv p q hp1 hp2 hq1 hq2 h

/-- a frame list is a well-formed encoding of at most one payload -/
theorem wellFormed_unique (pre p q : Bytes) (hpre : pre.length ≤ 6) (frames : List Bytes)
    (hp : WellFormed pre p frames) (hq : WellFormed pre q frames) : p = q :=
  Proofs.Seg.wellFormed_unique pre p q hpre frames hp hq

/-! ## non-vacuity: concrete segmentations -/

-- classic CAN, no prefix, 20 bytes: First Frame + 2 Consecutive Frames
example : segment { txDl := 8, minLen := none, padding := none, pre := [] } ((List.range 20).map UInt8.ofNat) =
    [[0x10, 20, 0, 1, 2, 3, 4, 5], [0x21, 6, 7, 8, 9, 10, 11, 12], [0x22, 13, 14, 15, 16, 17, 18, 19]] := by
  decide

-- CAN FD, minLen 12, padding, prefix, 3 bytes: escape Single Frame of 12 bytes
example : segment { txDl := 64, minLen := some 12, padding := some 0xAA, pre := [0x55] } [1, 2, 3] =
    [[0x55, 0, 3, 1, 2, 3, 0xAA, 0xAA, 0xAA, 0xAA, 0xAA, 0xAA]] := by decide

-- classic CAN with a padding byte: Single Frame padded to 8, last Consecutive Frame padded to 8
example : segment { txDl := 8, minLen := none, padding := some 0xAA, pre := [] } [1, 2, 3] =
    [[3, 1, 2, 3, 0xAA, 0xAA, 0xAA, 0xAA]] := by decide
example : segment { txDl := 8, minLen := none, padding := some 0xAA, pre := [] } [1, 2, 3, 4, 5, 6, 7, 8] =
    [[0x10, 8, 1, 2, 3, 4, 5, 6], [0x21, 7, 8, 0xAA, 0xAA, 0xAA, 0xAA, 0xAA]] := by decide

-- txDl 16, 4100 bytes: 32-bit First Frame form, 274 frames
example : (segment { txDl := 16, minLen := none, padding := none, pre := [] } (List.replicate 4100 7)).head? =
    some [0x10, 0x00, 0x00, 0x00, 0x10, 0x04, 7, 7, 7, 7, 7, 7, 7, 7, 7, 7] := by decide +kernel
example : (segment { txDl := 16, minLen := none, padding := none, pre := [] } (List.replicate 4100 7)).length = 274 := by
  decide +kernel

-- the round trip on concrete data
example : reassemble 1 (segment { txDl := 12, minLen := none, padding := some 0, pre := [0xF1] }
    ((List.range 40).map UInt8.ofNat)) = some ((List.range 40).map UInt8.ofNat) := by decide +kernel
-- a wrong sequence number is rejected
example : reassemble 0 [[0x10, 8, 1, 2, 3, 4, 5, 6], [0x22, 7, 8]] = none := by decide

end Isotp.C01

#print axioms Isotp.C01.leastLegal_spec
#print axioms Isotp.C01.padTarget_spec
#print axioms Isotp.C01.padFrame_spec
#print axioms Isotp.C01.chunks_spec
#print axioms Isotp.C01.sf_conditions
#print axioms Isotp.C01.segment_cases
#print axioms Isotp.C01.segment_wellFormed
#print axioms Isotp.C01.segment_lengths
#print axioms Isotp.C01.segment_count
#print axioms Isotp.C01.C01_reassemble_wellFormed_statement_false
#print axioms Isotp.C01.reassemble_wellFormed_partial
#print axioms Isotp.C01.reassemble_segment
#print axioms Isotp.C01.segment_injective
#print axioms Isotp.C01.wellFormed_unique
