import Isotp.PyAgree.EvalLemmas
import Isotp.PyAgree.Address
/-!
  Agreement of the interpreted source of the small `Address` methods with the model (`Isotp/Address.lean`), for all inputs:
  the five `_is_for_me_*` predicates, `_get_tx_arbitration_id` / `_get_rx_arbitration_id`, the extension-byte getters,
  `_requires_extension_byte`, `is_partial_address`, and the public cached getters `get_tx_arbitration_id` / `get_rx_arbitration_id`.
-/
namespace Isotp.PyAgree
open Isotp Isotp.Py

/-! ### environments -/

/-- the extra parameter `address_type` of the identifier getters -/
def tatEnv (t : Tat) (base : Env) : Env := fun k =>
  match k with
  | "address_type" => some (tatPV t)
  | _ => base k

/-- the four identifiers cached by the constructor (`self._tx_arbitration_id_physical`, ...) -/
def cachedEnv (h : Half) (base : Env) : Env := fun k =>
  match k with
  | "self._tx_arbitration_id_physical" => some (pint (h.txId .physical))
  | "self._tx_arbitration_id_functional" => some (pint (h.txId .functional))
  | "self._rx_arbitration_id_physical" => some (pint (h.rxId .physical))
  | "self._rx_arbitration_id_functional" => some (pint (h.rxId .functional))
  | _ => base k

/-! ### environment lookups

  Evaluating the string `match` of an environment on a literal key by `simp` (`whnf` on `String.decEq`) is very slow;
  the lookups are therefore proved once, by `rfl` (kernel evaluation), and used as rewrite rules. -/

/-- what an `Address` object answers for each attribute the methods read, and for the class constants -/
theorem halfEnv_lookups (h : Half) :
    halfEnv h "self._addressing_mode" = some (modePV h.mode) ∧
    halfEnv h "self._is_29bits" = some (pbool h.mode.is29) ∧
    halfEnv h "self._txid" = some (optPV h.txid) ∧
    halfEnv h "self._rxid" = some (optPV h.rxid) ∧
    halfEnv h "self._target_address" = some (optPV h.ta) ∧
    halfEnv h "self._source_address" = some (optPV h.sa) ∧
    halfEnv h "self._address_extension" = some (optPV h.ae) ∧
    halfEnv h "self._rx_only" = some (pbool h.rxOnly) ∧
    halfEnv h "self._tx_only" = some (pbool h.txOnly) ∧
    halfEnv h "self.physical_id" = (if h.mode = .nf29 ∨ h.mode = .m29 then some (pint h.physId) else none) ∧
    halfEnv h "self.functional_id" = (if h.mode = .nf29 ∨ h.mode = .m29 then some (pint h.funcId) else none) ∧
    halfEnv h "AddressingMode.Normal_11bits" = some (modePV .n11) ∧
    halfEnv h "AddressingMode.Normal_29bits" = some (modePV .n29) ∧
    halfEnv h "AddressingMode.NormalFixed_29bits" = some (modePV .nf29) ∧
    halfEnv h "AddressingMode.Extended_11bits" = some (modePV .e11) ∧
    halfEnv h "AddressingMode.Extended_29bits" = some (modePV .e29) ∧
    halfEnv h "AddressingMode.Mixed_11bits" = some (modePV .m11) ∧
    halfEnv h "AddressingMode.Mixed_29bits" = some (modePV .m29) ∧
    halfEnv h "TargetAddressType.Physical" = some (tatPV .physical) ∧
    halfEnv h "TargetAddressType.Functional" = some (tatPV .functional) :=
  ⟨rfl, rfl, rfl, rfl, rfl, rfl, rfl, rfl, rfl, rfl, rfl, rfl, rfl, rfl, rfl, rfl, rfl, rfl, rfl, rfl⟩

theorem msgEnv_of_ne (m : CanMsg) (base : Env) (k : String) (h1 : k ≠ "msg.arbitration_id")
    (h2 : k ≠ "msg.is_extended_id") (h3 : k ≠ "msg.data") : msgEnv m base k = base k := by
  unfold msgEnv; split <;> first | contradiction | rfl

theorem msgEnv_lookups (m : CanMsg) (base : Env) :
    msgEnv m base "msg.arbitration_id" = some (pint m.id) ∧
    msgEnv m base "msg.is_extended_id" = some (pbool m.ext) ∧
    msgEnv m base "msg.data" = some (.bytes m.data) := ⟨rfl, rfl, rfl⟩

theorem tatEnv_of_ne (t : Tat) (base : Env) (k : String) (hk : k ≠ "address_type") : tatEnv t base k = base k := by
  unfold tatEnv; split <;> first | contradiction | rfl

theorem tatEnv_address_type (t : Tat) (base : Env) : tatEnv t base "address_type" = some (tatPV t) := rfl

theorem cachedEnv_of_ne (h : Half) (base : Env) (k : String) (h1 : k ≠ "self._tx_arbitration_id_physical")
    (h2 : k ≠ "self._tx_arbitration_id_functional") (h3 : k ≠ "self._rx_arbitration_id_physical")
    (h4 : k ≠ "self._rx_arbitration_id_functional") : cachedEnv h base k = base k := by
  unfold cachedEnv; split <;> first | contradiction | rfl

theorem cachedEnv_lookups (h : Half) (base : Env) :
    cachedEnv h base "self._tx_arbitration_id_physical" = some (pint (h.txId .physical)) ∧
    cachedEnv h base "self._tx_arbitration_id_functional" = some (pint (h.txId .functional)) ∧
    cachedEnv h base "self._rx_arbitration_id_physical" = some (pint (h.rxId .physical)) ∧
    cachedEnv h base "self._rx_arbitration_id_functional" = some (pint (h.rxId .functional)) := ⟨rfl, rfl, rfl, rfl⟩

/-! ### value-level lemmas local to this file -/

/-- `msg.data[0]` of the interpreter (`b[0].toNat`) is the model's `byteAt m.data 0` when the payload is not empty -/
theorem getElem_zero_toNat_eq_byteAt (d : Bytes) (hd : 0 < d.length) : (d[0]'hd).toNat = byteAt d 0 := by
  cases d with
  | nil => simp at hd
  | cons x xs => simp [byteAt]

/-- `base | (hi << 8) | lo = base + hi*256 + lo` for a base that is a multiple of 65536 and two bytes
    (same statement as `Isotp.C09.add_eq_or`, re-proved here to avoid importing the process model). -/
theorem or_shl_eq_add (base hi lo : Nat) (hb : base % 65536 = 0) (hhi : hi ≤ 255) (hlo : lo ≤ 255) :
    base ||| (hi <<< 8) ||| lo = base + hi * 256 + lo := by
  obtain ⟨k, rfl⟩ : ∃ k, base = k * 65536 := ⟨base / 65536, by omega⟩
  have e : k * 65536 + hi * 256 = (k * 256 + hi) * 256 := by omega
  have a1 := Nat.shiftLeft_add_eq_or_of_lt (i := 16) (b := hi <<< 8)
    (by simp only [Nat.shiftLeft_eq, Nat.reducePow]; omega) k
  have a2 := Nat.shiftLeft_add_eq_or_of_lt (i := 8) (b := lo) (by omega) (k * 256 + hi)
  simp only [Nat.shiftLeft_eq, Nat.reducePow] at a1 a2 ⊢
  rewrite [← a1, e, ← a2]
  rfl

@[simp] theorem except_pure {ε α : Type} (a : α) : (pure a : Except ε α) = .ok a := rfl

/- builtins / comparisons on the values that occur here (so that `simp` never unfolds `evalBuiltin` / `evalCmp`) -/
theorem evalBuiltin_len_bytes (b : Bytes) : evalBuiltin "len" [.bytes b] = some (.ok (pint b.length)) := rfl
theorem evalBuiltin_int_pint (i : Int) : evalBuiltin "int" [pint i] = some (.ok (pint i)) := rfl
theorem natIdx_pint (i : Int) :
    natIdx (pint i) = if i < 0 then .error (.unsupported "negative index") else .ok i.toNat := rfl
theorem evalCmp_gt_pint (a b : Int) : evalCmp .gt (pint a) (pint b) = .ok (pbool (decide (b < a))) := rfl
theorem bytes_bne_pnone (b : Bytes) : (PV.bytes b != pnone) = true := by simp [pnone]

/-! ### 1. the five `_is_for_me_*` predicates -/

theorem is_for_me_normal_agrees (h : Half) (hm : h.mode = .n11 ∨ h.mode = .n29) (m : CanMsg) :
    retOf (msgEnv m (halfEnv h)) Src.Address_p_is_for_me_normal = .ok (pbool (h.isForMe m)) := by
  rcases hm with hm | hm <;> cases hx : m.ext <;> cases hr : h.rxid <;>
  simp [retOf, runFn, Src.Address_p_is_for_me_normal, execBlock, execStmt, eval, msgEnv_lookups, msgEnv_of_ne, halfEnv_lookups, hm, hx, hr,
    Half.isForMe, Mode.is29, optPV]
  all_goals grind

theorem is_for_me_extended_agrees (h : Half) (hm : h.mode = .e11 ∨ h.mode = .e29) (m : CanMsg) :
    retOf (msgEnv m (halfEnv h)) Src.Address_p_is_for_me_extended = .ok (pbool (h.isForMe m)) := by
  obtain ⟨id, ext, data, dlc, fd, brs⟩ := m
  rcases hm with hm | hm <;> cases ext <;> cases hr : h.rxid <;> cases hs : h.sa <;> cases data <;>
  simp [retOf, runFn, Src.Address_p_is_for_me_extended, execBlock, execStmt, eval, evalArgs, msgEnv_lookups, msgEnv_of_ne, halfEnv_lookups, hm, hr, hs,
    Half.isForMe, Mode.is29, optPV, byteAt,
    evalBuiltin_len_bytes, evalBuiltin_int_pint, natIdx_pint, evalCmp_gt_pint, bytes_bne_pnone]
  all_goals grind

theorem is_for_me_mixed_11bits_agrees (h : Half) (hm : h.mode = .m11) (m : CanMsg) :
    retOf (msgEnv m (halfEnv h)) Src.Address_p_is_for_me_mixed_11bits = .ok (pbool (h.isForMe m)) := by
  obtain ⟨id, ext, data, dlc, fd, brs⟩ := m
  cases ext <;> cases hr : h.rxid <;> cases he : h.ae <;> cases data <;>
  simp [retOf, runFn, Src.Address_p_is_for_me_mixed_11bits, execBlock, execStmt, eval, evalArgs, msgEnv_lookups, msgEnv_of_ne, halfEnv_lookups, hm, hr, he,
    Half.isForMe, Mode.is29, optPV, byteAt,
    evalBuiltin_len_bytes, evalBuiltin_int_pint, natIdx_pint, evalCmp_gt_pint, bytes_bne_pnone]
  all_goals grind

theorem is_for_me_mixed_29bits_agrees (h : Half) (hm : h.mode = .m29) (m : CanMsg) :
    retOf (msgEnv m (halfEnv h)) Src.Address_p_is_for_me_mixed_29bits = .ok (pbool (h.isForMe m)) := by
  obtain ⟨id, ext, data, dlc, fd, brs⟩ := m
  cases ext <;> cases hs : h.sa <;> cases ht : h.ta <;> cases he : h.ae <;> cases data <;>
  simp [retOf, runFn, Src.Address_p_is_for_me_mixed_29bits, execBlock, execStmt, eval, evalArgs, msgEnv_lookups, msgEnv_of_ne, halfEnv_lookups, hm, hs, ht, he,
    Int.natCast_nonneg, and_mask2816, and_ff, and_ff00_shr, Half.isForMe, Mode.is29, optPV, byteAt,
    evalBuiltin_len_bytes, evalBuiltin_int_pint, natIdx_pint, evalCmp_gt_pint, bytes_bne_pnone]
  all_goals grind

/-! ### 2. `_get_tx_arbitration_id` / `_get_rx_arbitration_id` -/

/-- the five modes whose identifiers are given explicitly: the `assert self._txid is not None` of the source is the hypothesis -/
theorem p_get_tx_arbitration_id_plain_agrees (h : Half) (t : Tat) (hm : h.mode ≠ .nf29 ∧ h.mode ≠ .m29)
    (i : Nat) (hi : h.txid = some i) :
    retOf (tatEnv t (halfEnv h)) Src.Address_p_get_tx_arbitration_id = .ok (pint (h.txId t)) := by
  cases hmm : h.mode <;> simp [hmm] at hm <;>
  simp [retOf, runFn, Src.Address_p_get_tx_arbitration_id, execBlock, execStmt, eval, evalArgs, halfEnv_lookups, tatEnv_of_ne, hmm, hi,
    modePV, modeName, Half.txId, optPV]

theorem p_get_rx_arbitration_id_plain_agrees (h : Half) (t : Tat) (hm : h.mode ≠ .nf29 ∧ h.mode ≠ .m29)
    (i : Nat) (hi : h.rxid = some i) :
    retOf (tatEnv t (halfEnv h)) Src.Address_p_get_rx_arbitration_id = .ok (pint (h.rxId t)) := by
  cases hmm : h.mode <;> simp [hmm] at hm <;>
  simp [retOf, runFn, Src.Address_p_get_rx_arbitration_id, execBlock, execStmt, eval, evalArgs, halfEnv_lookups, tatEnv_of_ne, hmm, hi,
    modePV, modeName, Half.rxId, optPV]

/-- the two modes whose identifiers are computed: both address bytes present (the two `assert`s of the source) and bytes
    (`validate`), and the base selected by `address_type` a multiple of 65536 (the constructor masks it with `0x1FFF0000`). -/
theorem p_get_tx_arbitration_id_fixed_agrees (h : Half) (t : Tat) (hm : h.mode = .nf29 ∨ h.mode = .m29)
    (ta sa : Nat) (hta : h.ta = some ta) (hsa : h.sa = some sa) (bta : ta ≤ 255) (bsa : sa ≤ 255)
    (hb : (if t = .physical then h.physId else h.funcId) % 65536 = 0) :
    retOf (tatEnv t (halfEnv h)) Src.Address_p_get_tx_arbitration_id = .ok (pint (h.txId t)) := by
  rcases hm with hm | hm <;> cases t <;> simp only [if_true, reduceCtorEq, if_false] at hb <;>
  simp [retOf, runFn, Src.Address_p_get_tx_arbitration_id, execBlock, execStmt, eval, evalArgs, halfEnv_lookups, tatEnv_of_ne,
    tatEnv_address_type, hm, hta, hsa,    modePV, modeName, tatPV, Half.txId, optPV, Env.set, Int.natCast_nonneg, -Int.natCast_shiftLeft]
  all_goals (rw [or_shl_eq_add _ _ _ hb bta bsa]; simp)

theorem p_get_rx_arbitration_id_fixed_agrees (h : Half) (t : Tat) (hm : h.mode = .nf29 ∨ h.mode = .m29)
    (ta sa : Nat) (hta : h.ta = some ta) (hsa : h.sa = some sa) (bta : ta ≤ 255) (bsa : sa ≤ 255)
    (hb : (if t = .physical then h.physId else h.funcId) % 65536 = 0) :
    retOf (tatEnv t (halfEnv h)) Src.Address_p_get_rx_arbitration_id = .ok (pint (h.rxId t)) := by
  rcases hm with hm | hm <;> cases t <;> simp only [if_true, reduceCtorEq, if_false] at hb <;>
  simp [retOf, runFn, Src.Address_p_get_rx_arbitration_id, execBlock, execStmt, eval, evalArgs, halfEnv_lookups, tatEnv_of_ne,
    tatEnv_address_type, hm, hta, hsa,    modePV, modeName, tatPV, Half.rxId, optPV, Env.set, Int.natCast_nonneg, -Int.natCast_shiftLeft]
  all_goals (rw [or_shl_eq_add _ _ _ hb bsa bta]; simp)

/-! ### 3. extension bytes, `_requires_extension_byte`, `is_partial_address` -/

theorem get_tx_extension_byte_agrees (h : Half) :
    retOf (halfEnv h) Src.Address_get_tx_extension_byte = .ok (optPV h.txExtByte) := by
  cases hm : h.mode <;>
  simp [retOf, runFn, Src.Address_get_tx_extension_byte, execBlock, execStmt, eval, evalArgs, halfEnv_lookups, hm,
    modePV, modeName, Half.txExtByte, optPV]

theorem get_rx_extension_byte_agrees (h : Half) :
    retOf (halfEnv h) Src.Address_get_rx_extension_byte = .ok (optPV h.rxExtByte) := by
  cases hm : h.mode <;>
  simp [retOf, runFn, Src.Address_get_rx_extension_byte, execBlock, execStmt, eval, evalArgs, halfEnv_lookups, hm,
    modePV, modeName, Half.rxExtByte, optPV]

theorem p_requires_extension_byte_agrees (h : Half) :
    retOf (halfEnv h) Src.Address_p_requires_extension_byte = .ok (pbool h.mode.hasPrefix) := by
  cases hm : h.mode <;>
  simp [retOf, runFn, Src.Address_p_requires_extension_byte, execBlock, execStmt, eval, evalArgs, halfEnv_lookups, hm,
    modePV, modeName] <;> rfl

/-- Python's `or` returns one of its operands; both are `bool`s here, so the value is the Boolean disjunction -/
theorem is_partial_address_agrees (h : Half) :
    retOf (halfEnv h) Src.Address_is_partial_address = .ok (pbool (h.txOnly || h.rxOnly)) := by
  cases ht : h.txOnly <;> cases hr : h.rxOnly <;>
  simp [retOf, runFn, Src.Address_is_partial_address, execBlock, execStmt, eval, halfEnv_lookups, ht, hr]

/-! ### 4. the public getters, which read the identifiers cached by the constructor -/

theorem get_tx_arbitration_id_agrees (h : Half) (t : Tat) :
    retOf (tatEnv t (cachedEnv h (halfEnv h))) Src.Address_get_tx_arbitration_id = .ok (pint (h.txId t)) := by
  cases t <;>
  simp [retOf, runFn, Src.Address_get_tx_arbitration_id, execBlock, execStmt, eval, halfEnv_lookups, tatEnv_of_ne, tatEnv_address_type,
    cachedEnv_lookups, cachedEnv_of_ne, tatPV]

theorem get_rx_arbitration_id_agrees (h : Half) (t : Tat) :
    retOf (tatEnv t (cachedEnv h (halfEnv h))) Src.Address_get_rx_arbitration_id = .ok (pint (h.rxId t)) := by
  cases t <;>
  simp [retOf, runFn, Src.Address_get_rx_arbitration_id, execBlock, execStmt, eval, halfEnv_lookups, tatEnv_of_ne, tatEnv_address_type,
    cachedEnv_lookups, cachedEnv_of_ne, tatPV]

/-! ### summary: the predicate installed by the constructor -/

/-- the method `Address.__init__` binds to `self.is_for_me` (same case split as the source) -/
def selectedPredicate : Mode → PBlock
  | .n11 | .n29 => Src.Address_p_is_for_me_normal
  | .e11 | .e29 => Src.Address_p_is_for_me_extended
  | .nf29 => Src.Address_p_is_for_me_normal_fixed
  | .m11 => Src.Address_p_is_for_me_mixed_11bits
  | .m29 => Src.Address_p_is_for_me_mixed_29bits

theorem isForMe_agrees (h : Half) (m : CanMsg) :
    retOf (msgEnv m (halfEnv h)) (selectedPredicate h.mode) = .ok (pbool (h.isForMe m)) := by
  cases hm : h.mode <;> simp only [selectedPredicate]
  · exact is_for_me_normal_agrees h (.inl hm) m
  · exact is_for_me_normal_agrees h (.inr hm) m
  · exact is_for_me_normal_fixed_agrees h hm m
  · exact is_for_me_extended_agrees h (.inl hm) m
  · exact is_for_me_extended_agrees h (.inr hm) m
  · exact is_for_me_mixed_11bits_agrees h hm m
  · exact is_for_me_mixed_29bits_agrees h hm m

/-! ### the hypotheses of item 2 are what the constructor guarantees

  `Address.__init__` calls `_get_tx_arbitration_id` only when `not self._rx_only` and `_get_rx_arbitration_id` only when
  `not self._tx_only`, after `validate`.  For every object the model's constructor returns, the hypotheses of the four
  theorems above hold under those guards, so the two getters agree with the model on every constructed object. -/

theorem mask2816_mod (x : Nat) : mask2816 x % 65536 = 0 := by unfold mask2816; omega

theorem optBase_mod (o : Option Nat) (d : Nat) (hd : d % 65536 = 0) : ((o.map mask2816).getD d) % 65536 = 0 := by
  cases o <;> simp [hd, mask2816_mod]

theorem optNat_byte (v : PyVal) (hv : byteOk v = true) (hn : v.isNone = false) : ∃ n, optNat v = some n ∧ n ≤ 255 := by
  cases v <;> simp_all [byteOk, optNat, PyVal.isNone, PyVal.isInt, PyVal.intVal]
  all_goals exact of_decide_eq_true hv.2

theorem mkAddress_fixed_guarantees (a : AddrArgs) (h : Half) (hk : mkAddress a = .ok h)
    (hm : h.mode = .nf29 ∨ h.mode = .m29) :
    ∃ ta sa, h.ta = some ta ∧ h.sa = some sa ∧ ta ≤ 255 ∧ sa ≤ 255 ∧ h.physId % 65536 = 0 ∧ h.funcId % 65536 = 0 := by
  unfold mkAddress at hk
  cases hmo : a.mode with
  | none => simp [hmo] at hk
  | some m =>
    simp only [hmo] at hk
    split at hk
    · rename_i hv
      injection hk with hk
      subst hk
      simp only [validateAddr, hmo, Bool.and_eq_true] at hv
      obtain ⟨⟨⟨⟨⟨⟨_, hp⟩, bta⟩, bsa⟩, _⟩, _⟩, _⟩ := hv
      simp only at hm
      rcases hm with rfl | rfl
      · simp only [presenceOk, Bool.not_eq_true', Bool.or_eq_false_iff] at hp
        obtain ⟨ta, e1, b1⟩ := optNat_byte _ bta hp.1
        obtain ⟨sa, e2, b2⟩ := optNat_byte _ bsa hp.2
        exact ⟨ta, sa, e1, e2, b1, b2, optBase_mod _ _ (by decide), optBase_mod _ _ (by decide)⟩
      · simp only [presenceOk, Bool.not_eq_true', Bool.or_eq_false_iff] at hp
        obtain ⟨ta, e1, b1⟩ := optNat_byte _ bta hp.1.1
        obtain ⟨sa, e2, b2⟩ := optNat_byte _ bsa hp.1.2
        exact ⟨ta, sa, e1, e2, b1, b2, optBase_mod _ _ (by decide), optBase_mod _ _ (by decide)⟩
    · simp at hk

theorem mkAddress_plain_guarantees (a : AddrArgs) (h : Half) (hk : mkAddress a = .ok h)
    (hm : h.mode ≠ .nf29 ∧ h.mode ≠ .m29) :
    (h.rxOnly = false → ∃ i, h.txid = some i) ∧ (h.txOnly = false → ∃ i, h.rxid = some i) := by
  unfold mkAddress at hk
  cases hmo : a.mode with
  | none => simp [hmo] at hk
  | some m =>
    simp only [hmo] at hk
    split at hk
    · rename_i hv
      injection hk with hk
      subst hk
      simp only [validateAddr, hmo, Bool.and_eq_true] at hv
      obtain ⟨⟨⟨⟨⟨⟨_, hp⟩, _⟩, _⟩, _⟩, _⟩, _⟩ := hv
      simp only at hm ⊢
      cases m <;> simp_all [presenceOk, optNat] <;> grind
    · simp at hk

/-- `_get_tx_arbitration_id`, every mode, every constructed object that is not receive-only -/
theorem p_get_tx_arbitration_id_agrees (a : AddrArgs) (h : Half) (hk : mkAddress a = .ok h) (hr : h.rxOnly = false) (t : Tat) :
    retOf (tatEnv t (halfEnv h)) Src.Address_p_get_tx_arbitration_id = .ok (pint (h.txId t)) := by
  by_cases hm : h.mode = .nf29 ∨ h.mode = .m29
  · obtain ⟨ta, sa, e1, e2, b1, b2, p, f⟩ := mkAddress_fixed_guarantees a h hk hm
    exact p_get_tx_arbitration_id_fixed_agrees h t hm ta sa e1 e2 b1 b2 (by split <;> assumption)
  · have hm' : h.mode ≠ .nf29 ∧ h.mode ≠ .m29 := by simpa [not_or] using hm
    obtain ⟨i, hi⟩ := (mkAddress_plain_guarantees a h hk hm').1 hr
    exact p_get_tx_arbitration_id_plain_agrees h t hm' i hi

/-- `_get_rx_arbitration_id`, every mode, every constructed object that is not transmit-only -/
theorem p_get_rx_arbitration_id_agrees (a : AddrArgs) (h : Half) (hk : mkAddress a = .ok h) (ht : h.txOnly = false) (t : Tat) :
    retOf (tatEnv t (halfEnv h)) Src.Address_p_get_rx_arbitration_id = .ok (pint (h.rxId t)) := by
  by_cases hm : h.mode = .nf29 ∨ h.mode = .m29
  · obtain ⟨ta, sa, e1, e2, b1, b2, p, f⟩ := mkAddress_fixed_guarantees a h hk hm
    exact p_get_rx_arbitration_id_fixed_agrees h t hm ta sa e1 e2 b1 b2 (by split <;> assumption)
  · have hm' : h.mode ≠ .nf29 ∧ h.mode ≠ .m29 := by simpa [not_or] using hm
    obtain ⟨i, hi⟩ := (mkAddress_plain_guarantees a h hk hm').2 ht
    exact p_get_rx_arbitration_id_plain_agrees h t hm' i hi

/-! ### non-vacuity: each hypothesis-carrying theorem applies to an object the constructor builds -/

example : ∃ h, mkAddress { mode := some .n11, txid := .int 0x123, rxid := .int 0x456 } = .ok h ∧
    (h.mode = .n11 ∨ h.mode = .n29) := ⟨_, rfl, .inl rfl⟩
example : ∃ h, mkAddress { mode := some .e29, txid := .int 0x123456, rxid := .int 0x654321, ta := .int 0x55, sa := .int 0xAA }
    = .ok h ∧ (h.mode = .e11 ∨ h.mode = .e29) := ⟨_, rfl, .inr rfl⟩
example : ∃ h, mkAddress { mode := some .m11, txid := .int 0x123, rxid := .int 0x456, ae := .int 0x99 } = .ok h ∧
    h.mode = .m11 := ⟨_, rfl, rfl⟩
example : ∃ h, mkAddress { mode := some .m29, ta := .int 0x55, sa := .int 0xAA, ae := .int 0x99 } = .ok h ∧
    h.mode = .m29 := ⟨_, rfl, rfl⟩
/-- plain identifiers (hypotheses of `p_get_{tx,rx}_arbitration_id_plain_agrees`) -/
example : ∃ h, mkAddress { mode := some .e11, txid := .int 0x123, rxid := .int 0x456, ta := .int 0x55, sa := .int 0xAA } = .ok h ∧
    (h.mode ≠ .nf29 ∧ h.mode ≠ .m29) ∧ h.txid = some 0x123 ∧ h.rxid = some 0x456 := ⟨_, rfl, by decide, rfl, rfl⟩
/-- computed identifiers (hypotheses of `p_get_{tx,rx}_arbitration_id_fixed_agrees`), default and user-given bases -/
example : ∃ h, mkAddress { mode := some .nf29, ta := .int 0x55, sa := .int 0xAA } = .ok h ∧
    (h.mode = .nf29 ∨ h.mode = .m29) ∧ h.ta = some 0x55 ∧ h.sa = some 0xAA ∧ 0x55 ≤ 255 ∧ 0xAA ≤ 255 ∧
    (∀ t : Tat, (if t = .physical then h.physId else h.funcId) % 65536 = 0) :=
  ⟨_, rfl, .inl rfl, rfl, rfl, by decide, by decide, by intro t; cases t <;> decide⟩
example : ∃ h,
    mkAddress { mode := some .m29, ta := .int 1, sa := .int 2, ae := .int 3, physId := some 0x1234ABCD, funcId := some 0xFFFFFFFF }
      = .ok h ∧
    (h.mode = .nf29 ∨ h.mode = .m29) ∧ h.ta = some 1 ∧ h.sa = some 2 ∧
    (∀ t : Tat, (if t = .physical then h.physId else h.funcId) % 65536 = 0) :=
  ⟨_, rfl, .inr rfl, rfl, rfl, by intro t; cases t <;> decide⟩
/-- the constructed-object form (hypotheses of `p_get_{tx,rx}_arbitration_id_agrees`) -/
example : ∃ h, mkAddress { mode := some .nf29, ta := .int 0x55, sa := .int 0xAA } = .ok h ∧ h.rxOnly = false ∧ h.txOnly = false :=
  ⟨_, rfl, rfl, rfl⟩

#print axioms is_for_me_normal_agrees
#print axioms is_for_me_extended_agrees
#print axioms is_for_me_normal_fixed_agrees
#print axioms is_for_me_mixed_11bits_agrees
#print axioms is_for_me_mixed_29bits_agrees
#print axioms p_get_tx_arbitration_id_plain_agrees
#print axioms p_get_rx_arbitration_id_plain_agrees
#print axioms p_get_tx_arbitration_id_fixed_agrees
#print axioms p_get_rx_arbitration_id_fixed_agrees
#print axioms p_get_tx_arbitration_id_agrees
#print axioms p_get_rx_arbitration_id_agrees
#print axioms get_tx_extension_byte_agrees
#print axioms get_rx_extension_byte_agrees
#print axioms p_requires_extension_byte_agrees
#print axioms is_partial_address_agrees
#print axioms get_tx_arbitration_id_agrees
#print axioms get_rx_arbitration_id_agrees
#print axioms isForMe_agrees

end Isotp.PyAgree
