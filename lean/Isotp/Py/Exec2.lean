import Isotp.Py.Ast
/-
  Second semantics of the embedding, for the functions of /repo that contain a loop or a `try` whose body has several statements
  (`_process_tx`, `process`, the `clear_*_queue` helpers).  Same values, same expressions (`eval`), same `Meths`; what is added:

  * an outcome that keeps the environment at the point where an exception is raised (`Out.raised`), so that a handler runs in the state the
    `try` body had reached;
  * `while` (fuel decreases at every iteration and at every nesting level; running out of fuel is an explicit error, never a result);
  * `try ... except <Class>` with a body of any length.

  On loop-free, `tryCatch`-free code it coincides with `execStmt` / `execBlock` (theorem `exec2B_eq_execBlock` in PyAgree/Exec2Bridge.lean), so
  the agreement theorems proved for regions with the first semantics carry over.

  Exceptions are identified by class NAME.  A builtin exception `e : PyExc` has name `e.name`; an exception class the interpreter has no
  constructor for (e.g. `BadGeneratorError`) is, by the convention already used by `execStmt (.raise cls)`, the error
  `PErr.unsupported ("raise " ++ cls)` - here it becomes `Out.raised cls`.
-/
namespace Isotp.Py

inductive Out where
  | next (env : Env)
  | ret (v : PV) (env : Env)
  | raised (cls : String) (env : Env)
  | brk (env : Env)                          -- `break`: leaves the innermost `while`

/-- the environment an outcome carries -/
def Out.env : Out → Env
  | .next e => e | .ret _ e => e | .raised _ e => e | .brk e => e
/-- the same outcome with another environment -/
def Out.setEnv : Out → Env → Out
  | .next _, e => .next e | .ret v _, e => .ret v e | .raised x _, e => .raised x e | .brk _, e => .brk e

inductive Err2 where
  | unsupported (what : String)
  | outOfFuel
  deriving DecidableEq, Repr, Inhabited

/-- the exception classes of the package that the interpreter has no constructor for, as `execStmt (.raise cls)` and the `Meths` of the
    theorems spell them -/
def namedExc : String → Option String
  | "raise BadGeneratorError" => some "BadGeneratorError"
  | "raise BlockingSendTimeout" => some "BlockingSendTimeout"
  | "raise BlockingSendFailure" => some "BlockingSendFailure"
  | "raise Empty" => some "Empty"
  | "raise Full" => some "Full"
  | _ => none

/-- how an error of the first semantics reads in the second: Python exceptions become `raised` (in the environment `env` of the statement that
    raised: a simple statement that raises has no effect), the rest stays an interpreter error. -/
def ofPErr (env : Env) : PErr → Except Err2 Out
  | .exc e => .ok (.raised e.name env)
  | .zeroDivision => .ok (.raised "ZeroDivisionError" env)
  | .unsupported w => match namedExc w with
      | some cls => .ok (.raised cls env)
      | none => .error (.unsupported w)

def ofFlow : Flow → Out
  | .next env => .next env
  | .returned v env => .ret v env

/-- a simple (non-compound) statement: exactly `execStmt` -/
def simple2 (M : Meths) (env : Env) (s : PStmt) : Except Err2 Out :=
  match execStmt M env s with
  | .ok f => .ok (ofFlow f)
  | .error e => ofPErr env e

/-- does `except cls` catch an exception of class `x`?  (`Exception` catches everything; no other subclassing is modelled) -/
def catches (cls x : String) : Bool := cls == "Exception" || cls == x

mutual
def exec2S : Nat → Meths → Env → PStmt → Except Err2 Out
  | 0, _, _, _ => .error .outOfFuel
  | n + 1, M, env, .ite c t e =>
      match eval M env c with
      | .error er => ofPErr env er
      | .ok v =>
        match truthy v with
        | .error er => ofPErr env er
        | .ok b => if b then exec2B n M env t else exec2B n M env e
  | n + 1, M, env, .tryExcept body handler =>
      match exec2B n M env body with
      | .ok (.raised _ env1) => exec2B n M env1 handler
      | r => r
  | n + 1, M, env, .tryCatch body cls handler =>
      match exec2B n M env body with
      | .ok (.raised x env1) => if catches cls x then exec2B n M env1 handler else .ok (.raised x env1)
      | r => r
  | n + 1, M, env, .while_ c body =>
      match eval M env c with
      | .error er => ofPErr env er
      | .ok v =>
        match truthy v with
        | .error er => ofPErr env er
        | .ok false => .ok (.next env)
        | .ok true =>
          match exec2B n M env body with
          | .ok (.next env1) => exec2S n M env1 (.while_ c body)
          | .ok (.brk env1) => .ok (.next env1)
          | r => r
  | _ + 1, _, env, .break_ => .ok (.brk env)
  | n + 1, M, env, .tryFinally body fin =>
      -- the `finally` block runs whatever the body did, in the environment the body reached; if it completes normally the body's outcome
      -- stands (with the environment the `finally` block left), otherwise its own outcome (return / raise / break) replaces it
      match exec2B n M env body with
      | .error e => .error e
      | .ok o =>
        match exec2B n M o.env fin with
        | .ok (.next env2) => .ok (o.setEnv env2)
        | r => r
  | _ + 1, M, env, s => simple2 M env s
def exec2B : Nat → Meths → Env → PBlock → Except Err2 Out
  | 0, _, _, _ => .error .outOfFuel
  | _ + 1, _, env, .nil => .ok (.next env)
  | n + 1, M, env, .cons s rest =>
      match exec2S n M env s with
      | .ok (.next env1) => exec2B n M env1 rest
      | r => r
end

/-- a function body run as a call -/
def run2 (fuel : Nat) (M : Meths) (env : Env) (body : PBlock) : Except Err2 Out :=
  match exec2B fuel M env body with
  | .ok (.next env') => .ok (.ret pnone env')
  | .ok (.brk _) => .error (.unsupported "break outside a loop")
  | r => r

end Isotp.Py
