#!/usr/bin/env python3
"""
Byte-safe application of the repairs D1..D12 (DESIGN.md section 7) to a checkout of
python-can-isotp.  Usage: apply_fix.py <repo-dir> D1 [D2 ...] | all
Each repair is an exact (old -> new) replacement on CRLF text; it fails loudly when the
anchor text is not found exactly once.
"""
import sys
import os

NL = b'\r\n'


def L(*lines):
    return NL.join(s.encode() for s in lines)


def rep(buf, old, new, count=1):
    if buf.count(old) != count:
        raise SystemExit('anchor found %d times (expected %d): %r' % (buf.count(old), count, old[:80]))
    return buf.replace(old, new)


def D1(b):
    # empty payload: request is no longer "active" once completed
    b = rep(b,
            L("                        self.active_send_request.complete(True)",
              "                    else:"),
            L("                        self.active_send_request.complete(True)",
              "                        self.active_send_request = None",
              "                    else:"))
    # single frame sent at once
    b = rep(b,
            L("                                else:",
              "                                    output_msg = msg_temp",
              "",
              "                            # Multi frame - First Frame"),
            L("                                else:",
              "                                    output_msg = msg_temp",
              "                                    self._stop_sending(success=True)",
              "",
              "                            # Multi frame - First Frame"))
    # single frame sent from standby
    b = rep(b,
            L("                        self.tx_state = self.TxState.IDLE   # After a single frame, there's nothing to do"),
            L("                        self._stop_sending(success=True)   # After a single frame, there's nothing to do"))
    return b


def D2(b):
    return rep(b,
               L("        while not self.tx_queue.empty():",
                 "            self.tx_queue.get_nowait()"),
               L("        while not self.tx_queue.empty():",
                 "            self.tx_queue.get_nowait().complete(False)"))


def D3(b):
    return rep(b,
               L("        self.main_thread = None",
                 "        self.default_read_timeout = read_timeout"),
               L("        self.main_thread = None",
                 "        self.relay_thread = None",
                 "        self.default_read_timeout = read_timeout"))


def D4(b):
    b = rep(b,
            L("                    self.rx_queue.put(bytearray(pdu.data))",
              "                    self.rx_state = self.RxState.IDLE",
              "                    self._trigger_error(isotp.errors.ReceptionInterruptedWithSingleFrameError("),
            L("                    self.rx_queue.put(bytearray(pdu.data))",
              "                    self._stop_receiving()",
              "                    self._trigger_error(isotp.errors.ReceptionInterruptedWithSingleFrameError("))
    b = rep(b,
            L("            self._request_tx_flowcontrol(PDU.FlowStatus.Overflow)",
              "            self.rx_state = self.RxState.IDLE"),
            L("            self._stop_receiving()",
              "            self._request_tx_flowcontrol(PDU.FlowStatus.Overflow)"))
    return b


def D5(b):
    return rep(b,
               L("                elif flow_control_frame.flow_status == PDU.FlowStatus.ContinueToSend and not self.timer_rx_fc.is_timed_out():"),
               L("                elif flow_control_frame.flow_status == PDU.FlowStatus.ContinueToSend and not self.timer_rx_fc.is_timed_out() \\",
                 "                        and self.tx_state in [self.TxState.WAIT_FC, self.TxState.TRANSMIT_CF]:"))


def D6(b):
    return rep(b,
               L("            s.setsockopt(SOL_CAN_ISOTP, CAN_ISOTP_TX_STMIN, struct.pack(\"=L\", tx_stmin))",
                 "        else:",
                 "            # Does not make sense to let the user force STmin value without providing it",
                 "            o.optflag &= ~flags.FORCE_TXSTMIN"),
               L("            s.setsockopt(SOL_CAN_ISOTP, CAN_ISOTP_TX_STMIN, struct.pack(\"=L\", tx_stmin))"))


def D7(b):
    return rep(b,
               L("                        size_on_first_byte = (self.active_send_request.generator.remaining_size() + len(self.address.get_tx_payload_prefix())) <= 7",
                 "                        size_offset = 1 if size_on_first_byte else 2"),
               L("                        size_on_first_byte = (self.active_send_request.generator.remaining_size() + len(self.address.get_tx_payload_prefix())) <= 7",
                 "                        if self.params.tx_data_min_length is not None and self.params.tx_data_min_length > 8:",
                 "                            size_on_first_byte = False  # Frame will be padded above 8 bytes: escape sequence is mandatory",
                 "                        size_offset = 1 if size_on_first_byte else 2"))


def D8(b):
    return rep(b,
               L("        send_request = self.SendRequest(data=data, target_address_type=target_address_type)",
                 ""),
               L("        send_request = self.SendRequest(data=data, target_address_type=target_address_type)",
                 "",
                 "        if send_request.generator.total_length() > 0xFFFFFFFF:",
                 "            raise ValueError('Cannot send more than 4294967295 bytes (limit of the First Frame length field)')",
                 ""))


def D9(b):
    return rep(b,
               L("        if self.params.rate_limit_enable:",
                 "            self.rate_limiter.enable()"),
               L("        if self.params.rate_limit_enable:",
                 "            self.rate_limiter.enable()",
                 "        else:",
                 "            self.rate_limiter.disable()"))


def D10(b):
    return rep(b,
               L("                raise ValueError('rate_limit_window_size must be greater than 0')",
                 ""),
               L("                raise ValueError('rate_limit_window_size must be greater than 0')",
                 "",
                 "            if not math.isfinite(self.rate_limit_window_size) or not math.isfinite(self.rate_limit_max_bitrate * self.rate_limit_window_size):",
                 "                raise ValueError('rate_limit_window_size and the resulting window size in bits must be finite')",
                 ""))


def D11(b):
    return rep(b,
               L("                if flow_control_frame.flow_status == PDU.FlowStatus.Wait:"),
               L("                if flow_control_frame.flow_status == PDU.FlowStatus.Wait and not self.timer_rx_fc.is_timed_out():"))


def D12(b):
    return rep(b,
               L("                if self.override_receiver_stmin < 0 or not math.isfinite(self.override_receiver_stmin):"),
               L("                if self.override_receiver_stmin < 0 or not math.isfinite(self.override_receiver_stmin * 1e9):"))


FILES = {'D6': 'isotp/tpsock/opts.py'}
ALL = ['D1', 'D2', 'D3', 'D4', 'D5', 'D6', 'D7', 'D8', 'D9', 'D10', 'D11', 'D12']

if __name__ == '__main__':
    repo = sys.argv[1]
    which = sys.argv[2:]
    if which == ['all']:
        which = ALL
    for d in which:
        path = os.path.join(repo, FILES.get(d, 'isotp/protocol.py'))
        with open(path, 'rb') as f:
            buf = f.read()
        buf = globals()[d](buf)
        with open(path, 'wb') as f:
            f.write(buf)
        print('applied', d, 'to', path)
