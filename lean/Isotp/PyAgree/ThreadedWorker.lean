import Isotp.PyAgree.Threaded

/-!
  The worker thread of the threaded wrapper `TransportLayer` (isotp/protocol.py): `_main_thread_fn`
  (`Src.TransportLayer_p_main_thread_fn`: a `tryFinally` around a `while_`, second semantics), and the two guarded entry points
  `TransportLayer.process` / `TransportLayer.reset` (`Src.TransportLayer_process`, `Src.TransportLayer_reset`), against the model `TL`
  (`Isotp/Threaded.lean`).  Continues `Isotp/PyAgree/Threaded.lean`: same presentation (`ShowsW`, `St`, `Shows`, `Spec`, `CoreRel`; the events,
  thread handles and the relay queue as environment keys; the logic layer through an abstract relation `R`), nothing of it is changed.

  ## Presentation added here
  * `self.is_rx_active()`, `self.is_tx_transmitting_cf()`: primitives with the model's values; `self.next_cf_delay()`,
    `self.params.wait_func`, `self.is_tx_throttled()`, `self.default_read_timeout`, `0.0`: timing only, opaque (`WorkerPrims`).
  * the two calls into the logic layer, `super().process(rx_timeout)` and (streaming branch, since fix f47ba4d)
    `super().process(0.0, do_rx=True, do_tx=True)`, through `R` (`WorkerSpec.processFull`, `.processStream`, and `...Raises` when the
    model's `process` sets `exc`): both are the model's "frames up to the first `None` token, `State.process true true`".
  * the OTHER thread: a schedule counter under the history key `#sched`; the `process` call during which the counter is 0 returns with
    `stop_requested` set and a wake-up token queued (the first two statements of another thread's `stop()`).  `is_set()` stays a pure read
    of `#ev.stop_requested`.  Key absent: no interference (the sequential reading).
  * `delay` is the one local of the function that is not already a wrapper key: `WorkerRel R` says `R` does not look at it.

  ## Theorems
  1. `process_refuses`, `process_hands_over`, `process_agrees`, `process_raises_iff`; `reset_refuses`, `reset_agrees`, `reset_raises_iff`:
     `RuntimeError` iff started; otherwise the call is handed to the logic layer.  (`return super().process(...)` is a call in EXPRESSION
     position: in this semantics it has a value and no effect on the environment, so for `process` the hand-over is stated as "the result
     is the callee's result on exactly the given arguments"; `reset` calls `super().reset()` as a statement and agrees with `TL.reset` in full.)
  2. (a) `worker_src`, `worker_ready_first`: the first statement sets `main_thread_ready` (the environment `Spec.hReady` postulates).
     (b) `worker_body`, `worker_iteration`: one pass through the loop body = `workerIter` = `procStep` (the `process` call), then `serveTx`,
         `serveRx`;  `procStep_eq_workerStep`, `worker_iteration_workerStep`: the `process` call IS `TL.workerStep`, in BOTH branches
         (`proc_full`, `proc_cf`: the streaming branch only adds the STmin wait and reads without waiting);
         `serve_tx_is_hServe`, `serve_rx_is_hServeRx`: the request blocks produce exactly the environment `Spec.hServe` / `hServeRx` postulate;
         `serveTx_eq_stopSending`, `serveRx_eq_stopReceiving`: and that is what `TL.stopSending` / `TL.stopReceiving` say.
     (c) `worker_loop_exit`, `worker_exits_on_stop`: `stop_requested` set: the loop ends, `finally: super().reset()` runs: `exited` (the core
         reset of `TL.workerExit`; `workerExit_eq`);  `worker_fn_of_loop_raised` (any `Meths`), `worker_raises_finally_callee` (any exception
         of the callee), `worker_raises_finally`, `worker_raises_finally_after` (the model's `process` raising, in the first / a later
         pass): the function ends `Out.raised e` in the RESET environment.
     (d) `worker_loop_sched`, `worker_runs`: under the schedule `#sched = k`: `k` undisturbed passes, one pass during which the stop request
         arrives, exit; by induction on `k`.
  Section 10: a concrete world (`wMeths`, `Rq`, `raiseMeths`) in which every assumption holds, with `example`s for each hypothesis-carrying
  theorem and two kernel-evaluated runs of the dumped function.

  ## Findings
  * DEFECT FOUND HERE (C13, fixed by f47ba4d; section 9).  Before the fix the streaming branch called `process(do_rx=False, do_tx=True)`
    and never read the relay queue: a peer starting a transfer while we streamed Consecutive Frames got no Flow Control until the stream
    ended.  `procStepBeforeFix_ne_workerStep`, `cf_pass_before_fix`: the pre-fix body (literal copy, regression witness) and
    `TL.workerStep` disagree on that class.
  * MODEL GAP (worker death).  When `super().process` raises (the user's `txfn` or error handler raising inside it: neither is guarded
    in `process` / `_trigger_error`), the source leaves the loop, resets the logic layer and the thread ends with the exception; nothing
    else is touched: `started` stays `True`, `stop_requested` is not set, the relay thread keeps filling the queue, `stop_sending()` /
    `stop_receiving()` silently do nothing (`is_alive()` is false), `send()` queues for ever.  `TL.workerStep` just records `core.exc` and
    keeps `mainThread = .running`.
  * `process` of the wrapper: see 1. (semantics limitation, not a gap of the model).
-/
namespace Isotp.PyAgree.Thr
open Isotp Isotp.Py

/-! ## 1. `TransportLayer.process` / `TransportLayer.reset` (the guards), on the dumped `Src.TransportLayer_process` /
  `Src.TransportLayer_reset`:
  `if self.started: raise RuntimeError(...)`; `return super().process(rx_timeout=rx_timeout, do_rx=do_rx, do_tx=do_tx)`   resp.
  `if self.started: raise RuntimeError(...)`; `super().reset()` -/

/-- **`process`, refusal**: on a started layer, `RuntimeError` at the first statement, whatever the callees are -/
theorem process_refuses (M : Meths) (env : Env) (h : env "self.started" = some (pbool true)) :
    runFn M env Src.TransportLayer_process = .error (.exc .RuntimeError) := by
  unfold runFn Src.TransportLayer_process
  simp only [execBlock, exec_guard M env true h, if_true, error_bind]

/-- **`process`, accepted**: on a layer that is not started the call is `super().process(...)` with exactly the three arguments it was
    given, and returns what that returns (raises what that raises).  In this semantics a call in expression position has a value and no
    effect on the environment (as `self.user_rxfn(timeout)` in `relay_body`): what `super().process` DOES to the object is the subject of
    `process_whole_agrees` (LayerWhole.lean); here: nothing else happens. -/
theorem process_hands_over (M : Meths) (env : Env) (v1 v2 v3 : PV) (h : env "self.started" = some (pbool false))
    (h1 : env "rx_timeout" = some v1) (h2 : env "do_rx" = some v2) (h3 : env "do_tx" = some v3) :
    runFn M env Src.TransportLayer_process =
      match M.fn "super().process#rx_timeout#do_rx#do_tx" [v1, v2, v3] env with
      | .ok v => .ok (v, env)
      | .error e => .error e := by
  have hb : evalBuiltin "super().process#rx_timeout#do_rx#do_tx" [v1, v2, v3] = none := evalBuiltin_none _ _ (by decide)
  have hcall : eval M env (.call "super().process#rx_timeout#do_rx#do_tx"
      (.cons (.var "rx_timeout") (.cons (.var "do_rx") (.cons (.var "do_tx") .nil)))) =
      M.fn "super().process#rx_timeout#do_rx#do_tx" [v1, v2, v3] env := by
    simp only [eval, evalArgs, h1, h2, h3, ok_bind, hb]
  have hg := exec_guard M env false h
  simp only [Bool.false_eq_true, if_false] at hg
  have hr : execStmt M env (.ret (.call "super().process#rx_timeout#do_rx#do_tx"
      (.cons (.var "rx_timeout") (.cons (.var "do_rx") (.cons (.var "do_tx") .nil))))) =
      match M.fn "super().process#rx_timeout#do_rx#do_tx" [v1, v2, v3] env with
      | .ok v => .ok (.returned v env)
      | .error e => .error e := by
    simp only [execStmt, hcall]
    cases M.fn "super().process#rx_timeout#do_rx#do_tx" [v1, v2, v3] env <;> rfl
  unfold runFn Src.TransportLayer_process
  simp only [execBlock, hg, ok_bind, hr]
  cases M.fn "super().process#rx_timeout#do_rx#do_tx" [v1, v2, v3] env <;> rfl

/-- **`process`** against `TL.process`: the source raises `RuntimeError` exactly when the model does so for the reason "started"; otherwise
    the model runs the logic layer's `process` on the frames the user's `rxfn` still has (`bus`), and the source hands the call, with its
    arguments, to the logic layer. -/
theorem process_agrees (M : Meths) (R : Env → State → Prop) (env : Env) (t : TL) (h : Shows R env t) (doRx doTx : Bool) (v1 : PV)
    (h1 : env "rx_timeout" = some v1) (h2 : env "do_rx" = some (pbool doRx)) (h3 : env "do_tx" = some (pbool doTx)) :
    (t.started = true →
      runFn M env Src.TransportLayer_process = .error (.exc .RuntimeError) ∧ TL.process t doRx doTx = (t, some .RuntimeError)) ∧
    (t.started = false →
      (runFn M env Src.TransportLayer_process =
        match M.fn "super().process#rx_timeout#do_rx#do_tx" [v1, pbool doRx, pbool doTx] env with
        | .ok v => .ok (v, env)
        | .error e => .error e) ∧
      TL.process t doRx doTx =
        (let c := ({ t.core with inbox := t.core.inbox ++ t.bus.map (fun m => (0, m)) } : State).process doRx doTx
         ({ t with core := c.1, bus := [] }, c.1.exc))) := by
  constructor
  · intro hs
    exact ⟨process_refuses M env (hs ▸ h.1.started), by simp [TL.process, hs]⟩
  · intro hs
    exact ⟨process_hands_over M env v1 _ _ (hs ▸ h.1.started) h1 h2 h3, by simp [TL.process, hs]⟩

/-- the source of `process` fails with `RuntimeError` of its own iff the layer is started (any other failure is the callee's) -/
theorem process_raises_iff (M : Meths) (R : Env → State → Prop) (env : Env) (t : TL) (h : Shows R env t) (v1 v2 v3 : PV)
    (h1 : env "rx_timeout" = some v1) (h2 : env "do_rx" = some v2) (h3 : env "do_tx" = some v3)
    (hcallee : M.fn "super().process#rx_timeout#do_rx#do_tx" [v1, v2, v3] env ≠ .error (.exc .RuntimeError)) :
    runFn M env Src.TransportLayer_process = .error (.exc .RuntimeError) ↔ t.started = true := by
  cases hs : t.started with
  | true => exact ⟨fun _ => rfl, fun _ => process_refuses M env (hs ▸ h.1.started)⟩
  | false =>
    rw [process_hands_over M env v1 v2 v3 (hs ▸ h.1.started) h1 h2 h3]
    constructor
    · intro hx
      cases hf : M.fn "super().process#rx_timeout#do_rx#do_tx" [v1, v2, v3] env with
      | ok v => rw [hf] at hx; cases hx
      | error e => rw [hf] at hx; simp only [Except.error.injEq] at hx; subst hx; exact absurd hf hcallee
    · intro hx; cases hx

/-- **`reset`, refusal** -/
theorem reset_refuses (M : Meths) (env : Env) (h : env "self.started" = some (pbool true)) :
    runFn M env Src.TransportLayer_reset = .error (.exc .RuntimeError) := by
  unfold runFn Src.TransportLayer_reset
  simp only [execBlock, exec_guard M env true h, if_true, error_bind]

/-- **`reset`** against `TL.reset`: `RuntimeError` exactly when the model says so; otherwise the run ends normally in an environment that
    shows `(TL.reset t).1` (the logic layer reset through `super().reset()`, everything else untouched). -/
theorem reset_agrees {M : Meths} {R : Env → State → Prop} (hM : Spec M R) (env : Env) (t : TL) (h : Shows R env t) :
    match (TL.reset t).2 with
    | some e => runFn M env Src.TransportLayer_reset = .error (.exc e)
    | none => ∃ env', runFn M env Src.TransportLayer_reset = .ok (pnone, env') ∧ Shows R env' (TL.reset t).1 ∧ ∀ k ∈ passiveKeys, env' k = env k := by
  cases hs : t.started with
  | true =>
    have : (TL.reset t).2 = some .RuntimeError := by simp [TL.reset, hs]
    rw [this]
    exact reset_refuses M env (hs ▸ h.1.started)
  | false =>
    have : (TL.reset t).2 = none := by simp [TL.reset, hs]
    rw [this]
    have h0 := St.init h
    obtain ⟨e1, x1, r1, f1⟩ := hM.superReset env t.core h0.c
    have h1 := h0.congr e1 _ f1 r1
    have hrun : Run M env Src.TransportLayer_reset (fun e => e = e1) := by
      unfold Src.TransportLayer_reset
      refine Run.cons (by rw [exec_guard M env false (hs ▸ h0.w.started)]; rfl) ?_
      refine Run.cons (exec_proc0 M env e1 _ (by decide) x1) ?_
      exact Run.nil rfl
    obtain ⟨env', x, rfl⟩ := hrun.toRunFn
    exact ⟨env', x, (h1.cast (by simp [TL.reset, hs])).shows, h1.keep⟩

/-- `reset` raises `RuntimeError` iff the layer is started, and fails in no other way -/
theorem reset_raises_iff {M : Meths} {R : Env → State → Prop} (hM : Spec M R) (env : Env) (t : TL) (h : Shows R env t) :
    (runFn M env Src.TransportLayer_reset = .error (.exc .RuntimeError) ↔ t.started = true) ∧
    ((∃ e, runFn M env Src.TransportLayer_reset = .error e) ↔ t.started = true) := by
  have := reset_agrees hM env t h
  cases hs : t.started with
  | true =>
    have hr := reset_refuses M env (hs ▸ h.1.started)
    exact ⟨⟨fun _ => rfl, fun _ => hr⟩, ⟨fun _ => rfl, fun _ => ⟨_, hr⟩⟩⟩
  | false =>
    have h2 : (TL.reset t).2 = none := by simp [TL.reset, hs]
    rw [h2] at this
    obtain ⟨env', x, -, -⟩ := this
    refine ⟨⟨fun hx => ?_, fun hx => by cases hx⟩, ⟨fun ⟨e, hx⟩ => ?_, fun hx => by cases hx⟩⟩
    · rw [x] at hx; cases hx
    · rw [x] at hx; cases hx


/-! ## 2. `_main_thread_fn`: the source, cut into its parts -/

/-- `not self.events.stop_requested.is_set()` (the loop test; the same expression as `relayCond`) -/
def workerCond : PExpr := .not_ (.call "self.events.stop_requested.is_set" .nil)

/-- `delay = self.next_cf_delay(); assert delay is not None; if delay > 0: self.params.wait_func(delay);
    if not self.events.stop_requested.is_set(): super().process(0.0, do_rx=True, do_tx=True)`  (since fix f47ba4d; before it the call
    was `super().process(do_rx=False, do_tx=True)`: section 9) -/
def cfBranch : PBlock :=
  .cons (.assign "delay" (.call "self.next_cf_delay" .nil))
  (.cons (.assert_ (.isNotNone (.var "delay")))
  (.cons (.ite (.cmp .gt (.var "delay") (.int (0))) (.cons (.expr (.call "self.params.wait_func" (.cons (.var "delay") .nil)))
    .nil) .nil)
  (.cons (.ite (.not_ (.call "self.events.stop_requested.is_set" .nil))
    (.cons (.expr (.call "super().process#do_rx#do_tx" (.cons (.call "__float__" (.cons (.strLit "0.0") .nil))
      (.cons .tt (.cons .tt .nil))))) .nil) .nil)
  .nil)))

/-- `rx_timeout = 0.0 if self.is_tx_throttled() else self.default_read_timeout; super().process(rx_timeout)` -/
def fullBranch : PBlock :=
  .cons (.assign "rx_timeout" (.ifexp (.call "self.is_tx_throttled" .nil) (.call "__float__" (.cons (.strLit "0.0") .nil))
    (.var "self.default_read_timeout")))
  (.cons (.expr (.call "super().process" (.cons (.var "rx_timeout") .nil)))
  .nil)

/-- `if not self.is_rx_active() and self.is_tx_transmitting_cf(): <cfBranch> else: <fullBranch>` -/
def procStmt : PStmt :=
  .ite (.and_ (.not_ (.call "self.is_rx_active" .nil)) (.call "self.is_tx_transmitting_cf" .nil)) cfBranch fullBranch

/-- `if self.events.reset_tx.is_set(): self._stop_sending(success=False); self.events.reset_tx.clear(); self.events.reset_tx_complete.set()` -/
def serveTxStmt : PStmt :=
  .ite (.call "self.events.reset_tx.is_set" .nil) (.cons (.expr (.call "self._stop_sending#success" (.cons .ff .nil)))
    (.cons (.expr (.call "self.events.reset_tx.clear" .nil))
    (.cons (.expr (.call "self.events.reset_tx_complete.set" .nil))
    .nil))) .nil

/-- `if self.events.reset_rx.is_set(): self._stop_receiving(); self.events.reset_rx.clear(); self.events.reset_rx_complete.set()` -/
def serveRxStmt : PStmt :=
  .ite (.call "self.events.reset_rx.is_set" .nil) (.cons (.expr (.call "self._stop_receiving" .nil))
    (.cons (.expr (.call "self.events.reset_rx.clear" .nil))
    (.cons (.expr (.call "self.events.reset_rx_complete.set" .nil))
    .nil))) .nil

def workerBody : PBlock := .cons procStmt (.cons serveTxStmt (.cons serveRxStmt .nil))
def workerLoop : PStmt := .while_ workerCond workerBody
/-- the `finally` block: `super().reset()` (the logging call is dropped by the dumper) -/
def workerFin : PBlock := .cons (.expr (.call "super().reset" .nil)) .nil
def readyStmt : PStmt := .expr (.call "self.events.main_thread_ready.set" .nil)

/-- the dumped source IS: the ready flag, then `try: <loop> finally: super().reset()`, then nothing -/
theorem worker_src : Src.TransportLayer_p_main_thread_fn =
    .cons readyStmt (.cons (.tryFinally (.cons workerLoop .nil) workerFin) .nil) := rfl

theorem workerBody_shape : loopFreeB workerBody = true ∧ dumperShapeB workerBody = true ∧ depthB workerBody ≤ 12 := by
  refine ⟨by rfl, by rfl, by decide⟩

/-! ## 3. the model side of one iteration

  `TL.workerStep` is "take the frames up to the first `None` token out of the relay queue, run `process true true`" and nothing else.
  One pass through the loop body of the source is that (`procStep`, in BOTH branches since fix f47ba4d: the streaming branch only differs
  in timing - the STmin wait first, then a read that does not wait) plus the `reset_tx` / `reset_rx` requests served at its end (the model
  folds that into `TL.stopSending` / `TL.stopReceiving`). -/

/-- `not self.is_rx_active() and self.is_tx_transmitting_cf()` on the model -/
def inCf (s : State) : Bool := !s.isRxActive && decide (s.txState = .transmitCf)

/-- the logic layer with the frames the relay queue holds before its first `None` token appended to its unread input -/
def feed (s : State) (q : List (Option CanMsg)) : State :=
  { s with inbox := s.inbox ++ (TL.takeUntilNone q).1.map (fun m => (0, m)) }

/-- the `process` call of one iteration (either branch) -/
def procStep (t : TL) : TL :=
  { t with core := ((feed t.core t.relayQ).process true true).1, relayQ := (TL.takeUntilNone t.relayQ).2 }

/-- what ANOTHER thread's `stop()` has done when it arrives during the blocking call: its first two statements
    `self.events.stop_requested.set(); self.rx_relay_queue.put(None)` (the first `let` of `TL.stop`) -/
def stopArrives (b : Bool) (t : TL) : TL :=
  if b then { t with ev := { t.ev with stopRequested := true }, relayQ := t.relayQ ++ [none] } else t

/-- the tail of the iteration: a pending `reset_tx` request is served ... -/
def serveTx (t : TL) : TL :=
  if t.ev.resetTx then { t with core := t.core.stopSending false, ev := { t.ev with resetTx := false, resetTxComplete := true } } else t
/-- ... then a pending `reset_rx` request -/
def serveRx (t : TL) : TL :=
  if t.ev.resetRx then { t with core := t.core.stopReceiving, ev := { t.ev with resetRx := false, resetRxComplete := true } } else t

/-- one pass through the loop body (`b`: does a stop request arrive during the `process` call) -/
def workerIter (b : Bool) (t : TL) : TL := serveRx (serveTx (stopArrives b (procStep t)))

/-- **the `process` call is `TL.workerStep`**: a running worker, no stop requested -/
theorem procStep_eq_workerStep (t : TL) (hm : t.mainThread = .running) (hsr : t.ev.stopRequested = false) :
    procStep t = TL.workerStep t := by
  unfold procStep TL.workerStep feed
  simp [hm, hsr]

/-- ... so that an iteration with no request pending and no stop arriving IS `TL.workerStep` -/
theorem workerIter_eq_workerStep (t : TL) (hm : t.mainThread = .running) (hsr : t.ev.stopRequested = false)
    (htx : t.ev.resetTx = false) (hrx : t.ev.resetRx = false) : workerIter false t = TL.workerStep t := by
  rw [← procStep_eq_workerStep t hm hsr]
  have he : (procStep t).ev = t.ev := rfl
  simp [workerIter, stopArrives, serveTx, serveRx, he, htx, hrx]

/-- serving a `reset_tx` request is what `TL.stopSending` says the worker does (started layer, live worker, no stop requested) -/
theorem serveTx_eq_stopSending (t : TL) (hst : t.started = true) (hm : t.mainThread = .running) (hsr : t.ev.stopRequested = false) :
    (TL.stopSending t).1 = serveTx { t with ev := { t.ev with resetTxComplete := false, resetTx := true } } := by
  simp [TL.stopSending, serveTx, hst, hm, hsr]

theorem serveRx_eq_stopReceiving (t : TL) (hst : t.started = true) (hm : t.mainThread = .running) (hsr : t.ev.stopRequested = false) :
    (TL.stopReceiving t).1 =
      serveRx { t with ev := { t.ev with resetRxComplete := false, resetRx := true }, relayQ := t.relayQ ++ [none] } := by
  simp [TL.stopReceiving, serveRx, hst, hm, hsr]

theorem procStep_ev (t : TL) : (procStep t).ev = t.ev := rfl

theorem workerIter_sr (b : Bool) (t : TL) : (workerIter b t).ev.stopRequested = (b || t.ev.stopRequested) := by
  unfold workerIter serveRx serveTx stopArrives
  cases b <;> simp only [Bool.false_eq_true, if_false, if_true] <;> (split <;> split) <;> simp [procStep_ev]


/-! ## 4. what the loop body calls (besides the events): `WorkerSpec`

  * `self.is_rx_active()`, `self.is_tx_transmitting_cf()`: one-line accessors of the logic layer, with the model's values;
  * `self.next_cf_delay()`: SOME number while Consecutive Frames are being sent (source: `None` only when not `is_tx_transmitting_cf()`),
    `self.params.wait_func(delay)`, `self.is_tx_throttled()`, `self.default_read_timeout`, `0.0`: timing only, opaque;
  * the two `process` calls into the logic layer, through the abstract core relation `R`:
      - `super().process(rx_timeout)`: `rxfn` is `_read_relay_queue` (`start`), i.e. `rx_relay_queue.get(timeout)` with `None` for a token or
        an empty queue: the call reads the frames the queue holds BEFORE ITS FIRST `None` and that token (`TL.takeUntilNone`) and computes
        `State.process true true` on them (`feed`).  This is the model's abstraction of the pair (`process`, `_read_relay_queue`) and is
        ASSUMED here (field `processFull`), exactly as `TL.workerStep` states it; `process` itself against `State.process` is
        `process_whole_agrees` (LayerWhole.lean).
      - `super().process(0.0, do_rx=True, do_tx=True)` (streaming branch): the same with a read that does not wait (`processStream`).
    A call that the model says raises (`exc = some e`) raises `e` (`...Raises`).
  * the SCHEDULE of the other thread (for section 8): the history key `#sched` counts the `process` calls that still complete before
    another thread's `stop()` arrives; the call during which it arrives (`arrives env`: the counter is 0) returns with `stop_requested` set
    and a wake-up token queued (`afterCall`: the first two statements of `stop()`).  With the key absent nothing ever arrives: the
    sequential reading of one iteration.  Only `process` calls advance the counter (`schedStopSending`, `schedStopReceiving`). -/

/-- does another thread's `stop()` arrive during the `process` call made in `env` -/
def arrives (env : Env) : Bool := decide (env "#sched" = some (pint 0))

/-- the wrapper keys after a `process` call that leaves `q'` in the relay queue -/
def afterCall (env : Env) (q' : List (Option CanMsg)) : Env :=
  if arrives env then (env.set "#relay_queue" (.list (encQ (q' ++ [none])))).set "#ev.stop_requested" (pbool true)
  else env.set "#relay_queue" (.list (encQ q'))

/-- the schedule counter goes down by one -/
def SchedStep (env env' : Env) : Prop :=
  ∀ n : Nat, env "#sched" = some (pint ((n + 1 : Nat) : Int)) → env' "#sched" = some (pint (n : Int))

/-- the accessors and the timing primitives -/
structure WorkerPrims (M : Meths) (R : Env → State → Prop) : Prop where
  rxActive : ∀ (env : Env) (s : State), R env s → M.fn "self.is_rx_active" [] env = .ok (pbool s.isRxActive)
  txCf : ∀ (env : Env) (s : State), R env s →
    M.fn "self.is_tx_transmitting_cf" [] env = .ok (pbool (decide (s.txState = .transmitCf)))
  cfDelay : ∀ (env : Env) (s : State), R env s → s.txState = .transmitCf → ∃ d : Int, M.fn "self.next_cf_delay" [] env = .ok (pint d)
  waitFunc : ∀ (env : Env) (v : PV), M.proc "self.params.wait_func" [v] env = .ok env
  throttled : ∀ (env : Env), ∃ b : Bool, M.fn "self.is_tx_throttled" [] env = .ok (pbool b)

/-- ... plus the two `process` calls and the schedule -/
structure WorkerSpec (M : Meths) (R : Env → State → Prop) : Prop extends WorkerPrims M R where
  processFull : ∀ (env : Env) (s : State) (q : List (Option CanMsg)) (v : PV), R env s →
    env "#relay_queue" = some (.list (encQ q)) → ((feed s q).process true true).1.exc = none →
    ∃ env', M.proc "super().process" [v] env = .ok env' ∧ R env' ((feed s q).process true true).1 ∧
      (∀ k ∈ wrapperKeys, env' k = afterCall env (TL.takeUntilNone q).2 k) ∧ SchedStep env env'
  processFullRaises : ∀ (env : Env) (s : State) (q : List (Option CanMsg)) (v : PV) (e : PyExc), R env s →
    env "#relay_queue" = some (.list (encQ q)) → ((feed s q).process true true).1.exc = some e →
    M.proc "super().process" [v] env = .error (.exc e)
  processStream : ∀ (env : Env) (s : State) (q : List (Option CanMsg)) (v : PV), R env s →
    env "#relay_queue" = some (.list (encQ q)) → ((feed s q).process true true).1.exc = none →
    ∃ env', M.proc "super().process#do_rx#do_tx" [v, pbool true, pbool true] env = .ok env' ∧
      R env' ((feed s q).process true true).1 ∧
      (∀ k ∈ wrapperKeys, env' k = afterCall env (TL.takeUntilNone q).2 k) ∧ SchedStep env env'
  processStreamRaises : ∀ (env : Env) (s : State) (q : List (Option CanMsg)) (v : PV) (e : PyExc), R env s →
    env "#relay_queue" = some (.list (encQ q)) → ((feed s q).process true true).1.exc = some e →
    M.proc "super().process#do_rx#do_tx" [v, pbool true, pbool true] env = .error (.exc e)
  schedStopSending : ∀ (env env' : Env), M.proc "self._stop_sending#success" [pbool false] env = .ok env' → env' "#sched" = env "#sched"
  schedStopReceiving : ∀ (env env' : Env), M.proc "self._stop_receiving" [] env = .ok env' → env' "#sched" = env "#sched"

/-- the relation does not look at the one local of `_main_thread_fn` that is not already a wrapper key -/
structure WorkerRel (R : Env → State → Prop) : Prop where
  delay : ∀ (env : Env) (v : PV) (s : State), R env s → R (env.set "delay" v) s

section body
variable {M : Meths} {R : Env → State → Prop} {env0 env : Env} {t : TL}

theorem St.setDelay (hD : WorkerRel R) (h : St R env0 env t) (v : PV) : St R env0 (env.set "delay" v) t := by
  obtain ⟨⟨f1, f2, f3, f4, f5, f6, f7, f8, f9, f10, f11, f12, f13, f14, f15, f16, f17, f18, f19, f20⟩, hc, hk⟩ := h
  exact ⟨by constructor <;> simp [Env.set, *], hD.delay _ _ _ hc, keep_set hk _ _ (by decide)⟩

/-- the state after a `process` call of the logic layer -/
theorem St.afterProcess (hR : CoreRel R) (h : St R env0 env t) (q' : List (Option CanMsg)) (env' : Env) (s' : State)
    (hfr : ∀ k ∈ wrapperKeys, env' k = afterCall env q' k) (hc : R env' s') :
    St R env0 env' (stopArrives (arrives env) { t with core := s', relayQ := q' }) := by
  cases ha : arrives env with
  | false =>
    have hfr' : ∀ k ∈ wrapperKeys, env' k = (env.set "#relay_queue" (.list (encQ q'))) k := by
      intro k hk; rw [hfr k hk]; simp only [afterCall, ha, Bool.false_eq_true, if_false]
    exact ((h.setQ hR q').congr env' s' hfr' hc).cast (by simp [stopArrives])
  | true =>
    have hfr' : ∀ k ∈ wrapperKeys, env' k =
        ((env.set "#relay_queue" (.list (encQ (q' ++ [none])))).set Ev7.stopRequested.key (pbool true)) k := by
      intro k hk; rw [hfr k hk]; simp only [afterCall, ha, if_true]; rfl
    exact (((h.setQ hR (q' ++ [none])).setEv hR .stopRequested true).congr env' s' hfr' hc).cast (by simp [stopArrives, evPut])

theorem eval_inCf (hW : WorkerPrims M R) (env : Env) (s : State) (h : R env s) :
    eval M env (.and_ (.not_ (.call "self.is_rx_active" .nil)) (.call "self.is_tx_transmitting_cf" .nil)) = .ok (pbool (inCf s)) := by
  have h1 : eval M env (.not_ (.call "self.is_rx_active" .nil)) = .ok (pbool (!s.isRxActive)) :=
    eval_not M env _ _ (by rw [eval_fn0 M env _ (by decide), hW.rxActive env s h])
  have h2 : eval M env (.call "self.is_tx_transmitting_cf" .nil) = .ok (pbool (decide (s.txState = .transmitCf))) := by
    rw [eval_fn0 M env _ (by decide), hW.txCf env s h]
  exact eval_and M env _ _ _ _ h1 (fun _ => h2)

theorem arrives_set (env : Env) (k : String) (v : PV) (hk : k ≠ "#sched") : arrives (env.set k v) = arrives env := by
  have : ("#sched" = k) = False := by simp [Ne.symm hk]
  simp [arrives, Env.set, this]

theorem afterCall_set (env : Env) (k : String) (v : PV) (q' : List (Option CanMsg)) (hk : k ≠ "#sched") :
    afterCall (env.set k v) q' = if arrives env then
        ((env.set k v).set "#relay_queue" (.list (encQ (q' ++ [none])))).set "#ev.stop_requested" (pbool true)
      else (env.set k v).set "#relay_queue" (.list (encQ q')) := by
  simp only [afterCall, arrives_set env k v hk]

/-- the timeout of the full branch: some number -/
theorem eval_rxTimeout (hM : Spec M R) (hW : WorkerPrims M R) (h : ShowsW env t) :
    ∃ rt : Int, eval M env (.ifexp (.call "self.is_tx_throttled" .nil) (.call "__float__" (.cons (.strLit "0.0") .nil))
      (.var "self.default_read_timeout")) = .ok (pint rt) := by
  obtain ⟨d, hd⟩ := h.cTimeout
  obtain ⟨b, hb⟩ := hW.throttled env
  obtain ⟨i0, hi0⟩ := eval_float hM env "0.0"
  cases b
  · exact ⟨d, eval_ifexp M env _ _ _ false _ (by rw [eval_fn0 M env _ (by decide), hb]) (eval_var M env _ _ hd)⟩
  · exact ⟨i0, eval_ifexp M env _ _ _ true _ (by rw [eval_fn0 M env _ (by decide), hb]) hi0⟩

/-- **the `process` call, full branch**: `rx_timeout` is chosen (timing only), `super().process(rx_timeout)` consumes the relay queue up to
    its first `None` token and runs the logic layer on those frames -/
theorem proc_full (hM : Spec M R) (hW : WorkerSpec M R) (hR : CoreRel R) (h : St R env0 env t) (hcf : inCf t.core = false)
    (hexc : (procStep t).core.exc = none) :
    ∃ env', execStmt M env procStmt = .ok (.next env') ∧ St R env0 env' (stopArrives (arrives env) (procStep t)) ∧
      SchedStep env env' := by
  have hps : procStep t =
      { t with core := ((feed t.core t.relayQ).process true true).1, relayQ := (TL.takeUntilNone t.relayQ).2 } := rfl
  rw [hps] at hexc ⊢
  obtain ⟨rt, hrt⟩ := eval_rxTimeout hM hW.toWorkerPrims h.w
  have h1 := h.setLocal hR "rx_timeout" (pint rt) (by decide)
  obtain ⟨e2, x2, r2, f2, s2⟩ := hW.processFull (env.set "rx_timeout" (pint rt)) t.core t.relayQ (pint rt) h1.c h1.w.q hexc
  have h2 := h1.afterProcess hR _ e2 _ f2 r2
  rw [arrives_set env _ _ (by decide)] at h2
  refine ⟨e2, ?_, h2, ?_⟩
  · have hrun : RunS M env procStmt (fun e => e = e2) := by
      unfold procStmt
      refine RunS.ite_false (by rw [eval_inCf hW.toWorkerPrims env _ h.c, hcf]) ?_
      unfold fullBranch
      refine Run.cons (exec_assign M env _ _ _ hrt) ?_
      refine Run.cons (exec_proc1 M _ e2 _ _ _ (by decide) (eval_var M _ _ _ (by simp [Env.set])) x2) ?_
      exact Run.nil rfl
    obtain ⟨e, x, rfl⟩ := hrun
    exact x
  · intro n hn
    exact s2 n (by simp [Env.set, hn])

/-- a call statement with two arguments -/
theorem exec_proc2 (M : Meths) (env env' : Env) (fn : String) (a b : PExpr) (v w : PV) (hb : fn ∉ builtinNames)
    (ha : eval M env a = .ok v) (hb' : eval M env b = .ok w) (hp : M.proc fn [v, w] env = .ok env') :
    execStmt M env (.expr (.call fn (.cons a (.cons b .nil)))) = .ok (.next env') := by
  simp [execStmt, evalArgs, ha, hb', evalBuiltin_none fn _ hb, hp]

theorem evalCmp_gt_pint (a b : Int) : evalCmp .gt (pint a) (pint b) = .ok (pbool (decide (b < a))) := by
  simp [evalCmp, isNumber, numLt, PyVal.isInt, PyVal.intVal, Except.map]
  rfl

theorem exec_assert (M : Meths) (env : Env) (e : PExpr) (h : eval M env e = .ok (pbool true)) :
    execStmt M env (.assert_ e) = .ok (.next env) := by
  simp [execStmt, h]

theorem inCf_txState {s : State} (h : inCf s = true) : s.txState = .transmitCf := by
  simp [inCf] at h; exact h.2

/-- the three statements of the streaming branch before its `process` call: timing only (`delay` is bound, `wait_func` may sleep) -/
theorem cf_prefix (hW : WorkerPrims M R) (hD : WorkerRel R) (h : St R env0 env t) (hcf : inCf t.core = true) :
    ∃ d : Int, St R env0 (env.set "delay" (pint d)) t ∧
      execStmt M env (.assign "delay" (.call "self.next_cf_delay" .nil)) = .ok (.next (env.set "delay" (pint d))) ∧
      execStmt M (env.set "delay" (pint d)) (.assert_ (.isNotNone (.var "delay"))) = .ok (.next (env.set "delay" (pint d))) ∧
      execStmt M (env.set "delay" (pint d)) (.ite (.cmp .gt (.var "delay") (.int (0)))
        (.cons (.expr (.call "self.params.wait_func" (.cons (.var "delay") .nil))) .nil) .nil) = .ok (.next (env.set "delay" (pint d))) := by
  obtain ⟨d, hd⟩ := hW.cfDelay env t.core h.c (inCf_txState hcf)
  have hdv : (env.set "delay" (pint d)) "delay" = some (pint d) := by simp [Env.set]
  refine ⟨d, h.setDelay hD (pint d), exec_assign M env _ _ _ (by rw [eval_fn0 M env _ (by decide), hd]), ?_, ?_⟩
  · refine exec_assert M _ _ ?_
    rw [eval_isNotNone M _ _ _ hdv]
    simp [pint, pnone]
  · have hc : eval M (env.set "delay" (pint d)) (.cmp .gt (.var "delay") (.int (0))) = .ok (pbool (decide (0 < d))) := by
      rw [eval, eval_var M _ _ _ hdv]
      simp only [eval, ok_bind]
      exact evalCmp_gt_pint d 0
    rw [exec_ite M _ _ _ _ _ hc]
    cases decide (0 < d)
    · rfl
    · simp only [if_true, execBlock, exec_proc1 M _ _ _ _ _ (by decide) (eval_var M _ _ _ hdv) (hW.waitFunc _ _), ok_bind]

/-- a call statement with three arguments -/
theorem exec_proc3 (M : Meths) (env env' : Env) (fn : String) (a b c : PExpr) (v w x : PV) (hb : fn ∉ builtinNames)
    (ha : eval M env a = .ok v) (hb' : eval M env b = .ok w) (hc : eval M env c = .ok x) (hp : M.proc fn [v, w, x] env = .ok env') :
    execStmt M env (.expr (.call fn (.cons a (.cons b (.cons c .nil))))) = .ok (.next env') := by
  simp [execStmt, evalArgs, ha, hb', hc, evalBuiltin_none fn _ hb, hp]

/-- **the `process` call, streaming branch** (Consecutive Frames being sent, nothing being received): after the STmin wait
    `super().process(0.0, do_rx=True, do_tx=True)`: the same step of the logic layer as in the full branch, on what the relay queue
    already holds (no waiting) -/
theorem proc_cf (hM : Spec M R) (hW : WorkerSpec M R) (hR : CoreRel R) (hD : WorkerRel R) (h : St R env0 env t)
    (hcf : inCf t.core = true) (hsr : t.ev.stopRequested = false) (hexc : (procStep t).core.exc = none) :
    ∃ env', execStmt M env procStmt = .ok (.next env') ∧ St R env0 env' (stopArrives (arrives env) (procStep t)) ∧
      SchedStep env env' := by
  have hps : procStep t =
      { t with core := ((feed t.core t.relayQ).process true true).1, relayQ := (TL.takeUntilNone t.relayQ).2 } := rfl
  rw [hps] at hexc ⊢
  obtain ⟨d, h1, x1, x2, x3⟩ := cf_prefix hW.toWorkerPrims hD h hcf
  obtain ⟨i0, hi0⟩ := eval_float hM (env.set "delay" (pint d)) "0.0"
  obtain ⟨e2, y2, r2, f2, s2⟩ := hW.processStream (env.set "delay" (pint d)) t.core t.relayQ (pint i0) h1.c h1.w.q hexc
  have h2 := h1.afterProcess hR _ e2 _ f2 r2
  rw [arrives_set env _ _ (by decide)] at h2
  refine ⟨e2, ?_, h2, ?_⟩
  · have hrun : RunS M env procStmt (fun e => e = e2) := by
      unfold procStmt
      refine RunS.ite_true (by rw [eval_inCf hW.toWorkerPrims env _ h.c, hcf]) ?_
      unfold cfBranch
      refine Run.cons x1 (Run.cons x2 (Run.cons x3 (Run.single ?_)))
      refine RunS.ite_true (eval_not_isSet hM _ .stopRequested false (h1.w.e3.trans (by rw [hsr]))) ?_
      refine Run.cons (exec_proc3 M _ e2 _ _ _ _ _ _ _ (by decide) hi0 (eval_tt M _) (eval_tt M _) y2) ?_
      exact Run.nil rfl
    obtain ⟨e, x, rfl⟩ := hrun
    exact x
  · intro n hn
    exact s2 n (by simp [Env.set, hn])

end body


/-! ## 5. the tail of the iteration: the `reset_tx` / `reset_rx` requests (what `hServe` / `hServeRx` assume of a live worker) -/

section serve
variable {M : Meths} {R : Env → State → Prop} {env0 env : Env} {t : TL}

/-- **`hServe` is what the source does**: in an environment where `reset_tx` is set, the statement
    `if self.events.reset_tx.is_set(): self._stop_sending(success=False); self.events.reset_tx.clear(); self.events.reset_tx_complete.set()`
    of the loop body ends in an environment with EXACTLY the properties `Spec.hServe` postulates of the environment in which
    `reset_tx_complete.wait(1.0)` returns: the logic layer has done `_stop_sending(False)`, `reset_tx` is cleared, `reset_tx_complete` is set,
    no other wrapper key has changed.  (What remains assumed in `hServe` is scheduling only: that the worker REACHES this statement
    within the 1.0 s of the wait - it is at most one `process` call away from it, see `worker_body`.) -/
theorem serve_tx_is_hServe (hM : Spec M R) (hR : CoreRel R) (env : Env) (s : State) (hs : R env s)
    (hT : env "#ev.reset_tx" = some (pbool true)) :
    ∃ env', execStmt M env serveTxStmt = .ok (.next env') ∧ R env' (s.stopSending false) ∧
      env' "#ev.reset_tx" = some (pbool false) ∧ env' "#ev.reset_tx_complete" = some (pbool true) ∧
      ∀ k ∈ wrapperKeys, k ≠ "#ev.reset_tx" → k ≠ "#ev.reset_tx_complete" → env' k = env k := by
  obtain ⟨e1, x1, r1, f1⟩ := hM.stopSendingCore env s hs
  refine ⟨(e1.set Ev7.resetTx.key (pbool false)).set Ev7.resetTxComplete.key (pbool true), ?_, ?_, ?_, ?_, ?_⟩
  · have hrun : RunS M env serveTxStmt
        (fun e => e = (e1.set Ev7.resetTx.key (pbool false)).set Ev7.resetTxComplete.key (pbool true)) := by
      unfold serveTxStmt
      refine RunS.ite_true (eval_isSet hM env .resetTx true hT) ?_
      refine Run.cons (exec_proc1 M env e1 _ _ _ (by decide) (eval_ff M env) x1) ?_
      refine Run.cons (exec_evClear hM e1 .resetTx) ?_
      refine Run.cons (exec_evSet hM _ .resetTxComplete) ?_
      exact Run.nil rfl
    obtain ⟨e, x, rfl⟩ := hrun
    exact x
  · exact hR.frame _ _ _ _ (by decide) (hR.frame _ _ _ _ (by decide) r1)
  · simp [Env.set, Ev7.key]
  · simp [Env.set, Ev7.key]
  · intro k hk h1 h2
    simp [Env.set, Ev7.key, h1, h2, f1 k hk]

/-- the same for `reset_rx` / `hServeRx` -/
theorem serve_rx_is_hServeRx (hM : Spec M R) (hR : CoreRel R) (env : Env) (s : State) (hs : R env s)
    (hT : env "#ev.reset_rx" = some (pbool true)) :
    ∃ env', execStmt M env serveRxStmt = .ok (.next env') ∧ R env' s.stopReceiving ∧
      env' "#ev.reset_rx" = some (pbool false) ∧ env' "#ev.reset_rx_complete" = some (pbool true) ∧
      ∀ k ∈ wrapperKeys, k ≠ "#ev.reset_rx" → k ≠ "#ev.reset_rx_complete" → env' k = env k := by
  obtain ⟨e1, x1, r1, f1⟩ := hM.stopReceivingCore env s hs
  refine ⟨(e1.set Ev7.resetRx.key (pbool false)).set Ev7.resetRxComplete.key (pbool true), ?_, ?_, ?_, ?_, ?_⟩
  · have hrun : RunS M env serveRxStmt
        (fun e => e = (e1.set Ev7.resetRx.key (pbool false)).set Ev7.resetRxComplete.key (pbool true)) := by
      unfold serveRxStmt
      refine RunS.ite_true (eval_isSet hM env .resetRx true hT) ?_
      refine Run.cons (exec_proc0 M env e1 _ (by decide) x1) ?_
      refine Run.cons (exec_evClear hM e1 .resetRx) ?_
      refine Run.cons (exec_evSet hM _ .resetRxComplete) ?_
      exact Run.nil rfl
    obtain ⟨e, x, rfl⟩ := hrun
    exact x
  · exact hR.frame _ _ _ _ (by decide) (hR.frame _ _ _ _ (by decide) r1)
  · simp [Env.set, Ev7.key]
  · simp [Env.set, Ev7.key]
  · intro k hk h1 h2
    simp [Env.set, Ev7.key, h1, h2, f1 k hk]

/-- the `reset_tx` statement on a wrapper state: `serveTx` -/
theorem serve_tx (hM : Spec M R) (hW : WorkerSpec M R) (hR : CoreRel R) (h : St R env0 env t) :
    ∃ env', execStmt M env serveTxStmt = .ok (.next env') ∧ St R env0 env' (serveTx t) ∧ env' "#sched" = env "#sched" := by
  cases hb : t.ev.resetTx with
  | false =>
    refine ⟨env, ?_, h.cast (by simp [serveTx, hb]), rfl⟩
    unfold serveTxStmt
    exact exec_ite_skip M env _ _ (eval_isSet hM env .resetTx false (hb ▸ h.w.e4))
  | true =>
    obtain ⟨e1, x1, r1, f1⟩ := hM.stopSendingCore env t.core h.c
    have h1 := h.congr e1 _ f1 r1
    have h2 := (h1.setEv hR .resetTx false).setEv hR .resetTxComplete true
    refine ⟨_, ?_, h2.cast (by simp [serveTx, hb, evPut]), ?_⟩
    · have hrun : RunS M env serveTxStmt
          (fun e => e = (e1.set Ev7.resetTx.key (pbool false)).set Ev7.resetTxComplete.key (pbool true)) := by
        unfold serveTxStmt
        refine RunS.ite_true (eval_isSet hM env .resetTx true (hb ▸ h.w.e4)) ?_
        refine Run.cons (exec_proc1 M env e1 _ _ _ (by decide) (eval_ff M env) x1) ?_
        refine Run.cons (exec_evClear hM e1 .resetTx) ?_
        refine Run.cons (exec_evSet hM _ .resetTxComplete) ?_
        exact Run.nil rfl
      obtain ⟨e, x, rfl⟩ := hrun
      exact x
    · simp [Env.set, Ev7.key, hW.schedStopSending env e1 x1]

theorem serve_rx (hM : Spec M R) (hW : WorkerSpec M R) (hR : CoreRel R) (h : St R env0 env t) :
    ∃ env', execStmt M env serveRxStmt = .ok (.next env') ∧ St R env0 env' (serveRx t) ∧ env' "#sched" = env "#sched" := by
  cases hb : t.ev.resetRx with
  | false =>
    refine ⟨env, ?_, h.cast (by simp [serveRx, hb]), rfl⟩
    unfold serveRxStmt
    exact exec_ite_skip M env _ _ (eval_isSet hM env .resetRx false (hb ▸ h.w.e5))
  | true =>
    obtain ⟨e1, x1, r1, f1⟩ := hM.stopReceivingCore env t.core h.c
    have h1 := h.congr e1 _ f1 r1
    have h2 := (h1.setEv hR .resetRx false).setEv hR .resetRxComplete true
    refine ⟨_, ?_, h2.cast (by simp [serveRx, hb, evPut]), ?_⟩
    · have hrun : RunS M env serveRxStmt
          (fun e => e = (e1.set Ev7.resetRx.key (pbool false)).set Ev7.resetRxComplete.key (pbool true)) := by
        unfold serveRxStmt
        refine RunS.ite_true (eval_isSet hM env .resetRx true (hb ▸ h.w.e5)) ?_
        refine Run.cons (exec_proc0 M env e1 _ (by decide) x1) ?_
        refine Run.cons (exec_evClear hM e1 .resetRx) ?_
        refine Run.cons (exec_evSet hM _ .resetRxComplete) ?_
        exact Run.nil rfl
      obtain ⟨e, x, rfl⟩ := hrun
      exact x
    · simp [Env.set, Ev7.key, hW.schedStopReceiving env e1 x1]

/-! ## 6. one iteration of the loop -/

/-- **the loop body, once** (stop not requested, the model's `process` does not raise): the environment reached shows `workerIter` -/
theorem worker_body (hM : Spec M R) (hW : WorkerSpec M R) (hR : CoreRel R) (hD : WorkerRel R) (h : St R env0 env t)
    (hsr : t.ev.stopRequested = false) (hexc : (procStep t).core.exc = none) :
    ∃ env', execBlock M env workerBody = .ok (.next env') ∧ St R env0 env' (workerIter (arrives env) t) ∧ SchedStep env env' := by
  have hp : ∃ env1, execStmt M env procStmt = .ok (.next env1) ∧ St R env0 env1 (stopArrives (arrives env) (procStep t)) ∧
      SchedStep env env1 := by
    cases hcf : inCf t.core
    · exact proc_full hM hW hR h hcf hexc
    · exact proc_cf hM hW hR hD h hcf hsr hexc
  obtain ⟨e1, x1, h1, s1⟩ := hp
  obtain ⟨e2, x2, h2, s2⟩ := serve_tx hM hW hR h1
  obtain ⟨e3, x3, h3, s3⟩ := serve_rx hM hW hR h2
  refine ⟨e3, ?_, h3, ?_⟩
  · unfold workerBody
    simp only [execBlock, x1, x2, x3, ok_bind]
  · intro n hn
    rw [s3, s2]
    exact s1 n hn

end serve


/-! ## 7. the loop and the function, second semantics -/

theorem exec2S_tryFinally (n : Nat) (M : Meths) (env : Env) (body fin : PBlock) :
    exec2S (n + 1) M env (.tryFinally body fin) =
      (match exec2B n M env body with
       | .error e => .error e
       | .ok o =>
         match exec2B n M o.env fin with
         | .ok (.next env2) => .ok (o.setEnv env2)
         | r => r) := rfl

theorem exec2S_simple_next (n : Nat) (M : Meths) (env env1 : Env) (s : PStmt) (hs : isSimple s = true)
    (h : execStmt M env s = .ok (.next env1)) : exec2S (n + 1) M env s = .ok (.next env1) := by
  rw [exec2S_simple n M env s hs]; unfold simple2; rw [h]; rfl

theorem exec2S_simple_exc (n : Nat) (M : Meths) (env : Env) (s : PStmt) (e : PyExc) (hs : isSimple s = true)
    (h : execStmt M env s = .error (.exc e)) : exec2S (n + 1) M env s = .ok (.raised e.name env) := by
  rw [exec2S_simple n M env s hs]; unfold simple2; rw [h]; rfl

theorem exec2B_cons_next {n : Nat} {M : Meths} {env env1 : Env} {s : PStmt} {rest : PBlock}
    (h : exec2S n M env s = .ok (.next env1)) : exec2B (n + 1) M env (.cons s rest) = exec2B n M env1 rest := by
  rw [exec2B_cons, h]

theorem exec2B_cons_raised {n : Nat} {M : Meths} {env env1 : Env} {s : PStmt} {rest : PBlock} {x : String}
    (h : exec2S n M env s = .ok (.raised x env1)) : exec2B (n + 1) M env (.cons s rest) = .ok (.raised x env1) := by
  rw [exec2B_cons, h]

theorem exec2S_ite_bool (n : Nat) (M : Meths) (env : Env) (c : PExpr) (t e : PBlock) (b : Bool) (h : eval M env c = .ok (pbool b)) :
    exec2S (n + 1) M env (.ite c t e) = if b then exec2B n M env t else exec2B n M env e := by
  rw [exec2S_ite, h]; rfl

theorem exec_proc1_err (M : Meths) (env : Env) (fn : String) (a : PExpr) (v : PV) (er : PErr) (hb : fn ∉ builtinNames)
    (ha : eval M env a = .ok v) (hp : M.proc fn [v] env = .error er) :
    execStmt M env (.expr (.call fn (.cons a .nil))) = .error er := by
  simp [execStmt, evalArgs, ha, evalBuiltin_none fn _ hb, hp]

theorem exec_proc3_err (M : Meths) (env : Env) (fn : String) (a b c : PExpr) (v w x : PV) (er : PErr) (hb : fn ∉ builtinNames)
    (ha : eval M env a = .ok v) (hb' : eval M env b = .ok w) (hc : eval M env c = .ok x) (hp : M.proc fn [v, w, x] env = .error er) :
    execStmt M env (.expr (.call fn (.cons a (.cons b (.cons c .nil))))) = .error er := by
  simp [execStmt, evalArgs, ha, hb', hc, evalBuiltin_none fn _ hb, hp]

section loop
variable {M : Meths} {R : Env → State → Prop}

theorem eval_workerCond (hM : Spec M R) (env : Env) (b : Bool) (h : env "#ev.stop_requested" = some (pbool b)) :
    eval M env workerCond = .ok (pbool (!b)) := eval_not_isSet hM env .stopRequested b h

/-- **(c) the loop ends when `stop_requested` is set**: the test fails, nothing else happens -/
theorem worker_loop_exit (hM : Spec M R) (env : Env) (h : env "#ev.stop_requested" = some (pbool true)) (n : Nat) (hn : 1 ≤ n) :
    exec2S n M env workerLoop = .ok (.next env) := by
  obtain ⟨m, rfl⟩ : ∃ m, n = m + 1 := ⟨n - 1, by omega⟩
  unfold workerLoop
  rw [exec2S_while, eval_workerCond hM env true h]
  rfl

/-- one iteration, on the invariant of a run -/
theorem worker_iteration_st (hM : Spec M R) (hW : WorkerSpec M R) (hR : CoreRel R) (hD : WorkerRel R) {env0 env : Env} {t : TL}
    (h : St R env0 env t) (hsr : t.ev.stopRequested = false) (hexc : (procStep t).core.exc = none) :
    ∃ env', St R env0 env' (workerIter (arrives env) t) ∧ SchedStep env env' ∧
      ∀ n, 12 ≤ n → exec2S (n + 1) M env workerLoop = exec2S n M env' workerLoop := by
  obtain ⟨env', x1, x2, x3⟩ := worker_body hM hW hR hD h hsr hexc
  refine ⟨env', x2, x3, fun n hn => ?_⟩
  have hc := eval_workerCond hM env false (hsr ▸ h.w.e3)
  unfold workerLoop
  rw [exec2S_while, hc]
  simp only [truthy_pbool, Bool.not_false]
  rw [exec2B_of_execBlock_ok M workerBody n env _ workerBody_shape.1 workerBody_shape.2.1
    (Nat.le_trans workerBody_shape.2.2 hn) x1]
  rfl

/-- **(b) one iteration of the loop of `_main_thread_fn`** (stop not requested, the model's `process` does not raise): the loop unfolds
    once, `exec2S (n+1) (while) env = exec2S n (while) env'`, where `env'` - reached by one pass through the body - shows
    `workerIter (arrives env) t`: the `process` call of the branch the state selects (`procStep`), then the two request blocks. -/
theorem worker_iteration (hM : Spec M R) (hW : WorkerSpec M R) (hR : CoreRel R) (hD : WorkerRel R) (env : Env) (t : TL)
    (h : Shows R env t) (hsr : t.ev.stopRequested = false) (hexc : (procStep t).core.exc = none) :
    ∃ env', Shows R env' (workerIter (arrives env) t) ∧ (∀ k ∈ passiveKeys, env' k = env k) ∧ SchedStep env env' ∧
      ∀ n, 12 ≤ n → exec2S (n + 1) M env workerLoop = exec2S n M env' workerLoop := by
  obtain ⟨env', x1, x2, x3⟩ := worker_iteration_st hM hW hR hD (St.init h) hsr hexc
  exact ⟨env', x1.shows, x1.keep, x2, x3⟩

/-- ... against `TL.workerStep`, in EITHER branch: a running worker, stop not requested, no request pending, no stop arriving: the
    environment after the pass shows `TL.workerStep t` -/
theorem worker_iteration_workerStep (hM : Spec M R) (hW : WorkerSpec M R) (hR : CoreRel R) (hD : WorkerRel R) (env : Env) (t : TL)
    (h : Shows R env t) (hm : t.mainThread = .running) (hsr : t.ev.stopRequested = false)
    (htx : t.ev.resetTx = false) (hrx : t.ev.resetRx = false) (hna : arrives env = false)
    (hexc : (TL.workerStep t).core.exc = none) :
    ∃ env', Shows R env' (TL.workerStep t) ∧ (∀ k ∈ passiveKeys, env' k = env k) ∧
      ∀ n, 12 ≤ n → exec2S (n + 1) M env workerLoop = exec2S n M env' workerLoop := by
  rw [← procStep_eq_workerStep t hm hsr] at hexc
  obtain ⟨env', x1, x2, -, x4⟩ := worker_iteration hM hW hR hD env t h hsr hexc
  rw [hna, workerIter_eq_workerStep t hm hsr htx hrx] at x1
  exact ⟨env', x1, x2, x4⟩

/-- the `process` call of the iteration when the callee raises `e` (whatever the reason: the logic layer, the user's `txfn` / `rxfn` /
    error handler called from it): the statement raises `e`, in the environment of the call (the environment of the iteration with the
    branch's local bound).  In this semantics a callee that raises has no effect on the environment (`simple2`): what the logic layer
    did before raising is not visible - the `finally` block resets it anyway. -/
theorem proc_raises_callee (hM : Spec M R) (hW : WorkerPrims M R) (hR : CoreRel R) (hD : WorkerRel R) {env0 env : Env} {t : TL}
    (h : St R env0 env t) (hsr : t.ev.stopRequested = false) (e : PyExc)
    (hfull : inCf t.core = false → ∀ (v : PV) (env1 : Env), R env1 t.core → env1 "#relay_queue" = some (.list (encQ t.relayQ)) →
      M.proc "super().process" [v] env1 = .error (.exc e))
    (htx : inCf t.core = true → ∀ (v : PV) (env1 : Env), R env1 t.core → env1 "#relay_queue" = some (.list (encQ t.relayQ)) →
      M.proc "super().process#do_rx#do_tx" [v, pbool true, pbool true] env1 = .error (.exc e))
    (k : Nat) :
    ∃ env1, exec2S (k + 8) M env procStmt = .ok (.raised e.name env1) ∧ St R env0 env1 t := by
  cases hcf : inCf t.core with
  | false =>
    obtain ⟨rt, hrt⟩ := eval_rxTimeout hM hW h.w
    have h1 := h.setLocal hR "rx_timeout" (pint rt) (by decide)
    have hp := hfull hcf (pint rt) (env.set "rx_timeout" (pint rt)) h1.c h1.w.q
    refine ⟨_, ?_, h1⟩
    unfold procStmt
    rw [exec2S_ite_bool (k + 7) M env _ _ _ _ (eval_inCf hW env _ h.c), hcf]
    show exec2B (k + 7) M env fullBranch = _
    unfold fullBranch
    refine (exec2B_cons_next (n := k + 6) (exec2S_simple_next (k + 5) M env _ _ rfl (exec_assign M env _ _ _ hrt))).trans ?_
    exact exec2B_cons_raised (n := k + 5) (exec2S_simple_exc (k + 4) M _ _ e rfl
      (exec_proc1_err M _ _ _ _ _ (by decide) (eval_var M _ _ _ (by simp [Env.set])) hp))
  | true =>
    obtain ⟨d, h1, x1, x2, x3⟩ := cf_prefix hW hD h hcf
    obtain ⟨i0, hi0⟩ := eval_float hM (env.set "delay" (pint d)) "0.0"
    have hp := htx hcf (pint i0) (env.set "delay" (pint d)) h1.c h1.w.q
    refine ⟨_, ?_, h1⟩
    unfold procStmt
    rw [exec2S_ite_bool (k + 7) M env _ _ _ _ (eval_inCf hW env _ h.c), hcf]
    show exec2B (k + 7) M env cfBranch = _
    unfold cfBranch
    refine (exec2B_cons_next (n := k + 6) (exec2S_simple_next (k + 5) M env _ _ rfl x1)).trans ?_
    refine (exec2B_cons_next (n := k + 5) (exec2S_simple_next (k + 4) M _ _ _ rfl x2)).trans ?_
    refine (exec2B_cons_next (n := k + 4) (exec2S_of_execStmt_ok M _ (k + 4) _ _ (by rfl) (by rfl)
      (Nat.le_trans (m := 3) (by decide) (by omega)) x3)).trans ?_
    refine exec2B_cons_raised (n := k + 3) ?_
    refine (exec2S_ite_bool (k + 2) M _ _ _ _ _ (eval_not_isSet hM _ .stopRequested false (h1.w.e3.trans (by rw [hsr])))).trans ?_
    show exec2B (k + 2) M _ _ = _
    exact exec2B_cons_raised (n := k + 1) (exec2S_simple_exc k M _ _ e rfl
      (exec_proc3_err M _ _ _ _ _ _ _ _ _ (by decide) hi0 (eval_tt M _) (eval_tt M _) hp))

/-- the loop, when the `process` call of the current iteration raises: the exception leaves the loop -/
theorem worker_loop_raises_callee (hM : Spec M R) (hW : WorkerPrims M R) (hR : CoreRel R) (hD : WorkerRel R) {env0 env : Env} {t : TL}
    (h : St R env0 env t) (hsr : t.ev.stopRequested = false) (e : PyExc)
    (hfull : inCf t.core = false → ∀ (v : PV) (env1 : Env), R env1 t.core → env1 "#relay_queue" = some (.list (encQ t.relayQ)) →
      M.proc "super().process" [v] env1 = .error (.exc e))
    (htx : inCf t.core = true → ∀ (v : PV) (env1 : Env), R env1 t.core → env1 "#relay_queue" = some (.list (encQ t.relayQ)) →
      M.proc "super().process#do_rx#do_tx" [v, pbool true, pbool true] env1 = .error (.exc e))
    (k : Nat) :
    ∃ env1, exec2S (k + 10) M env workerLoop = .ok (.raised e.name env1) ∧ St R env0 env1 t := by
  obtain ⟨env1, x1, h1⟩ := proc_raises_callee hM hW hR hD h hsr e hfull htx k
  refine ⟨env1, ?_, h1⟩
  have hc := eval_workerCond hM env false (hsr ▸ h.w.e3)
  unfold workerLoop
  rw [exec2S_while, hc]
  simp only [truthy_pbool, Bool.not_false]
  unfold workerBody
  rw [exec2B_cons_raised (n := k + 8) x1]

/-- ... in particular when the MODEL says the `process` call raises (`WorkerSpec.process...Raises`) -/
theorem worker_loop_raises (hM : Spec M R) (hW : WorkerSpec M R) (hR : CoreRel R) (hD : WorkerRel R) {env0 env : Env} {t : TL}
    (h : St R env0 env t) (hsr : t.ev.stopRequested = false) (e : PyExc) (hexc : (procStep t).core.exc = some e) (k : Nat) :
    ∃ env1, exec2S (k + 10) M env workerLoop = .ok (.raised e.name env1) ∧ St R env0 env1 t := by
  exact worker_loop_raises_callee hM hW.toWorkerPrims hR hD h hsr e
    (fun _ v env1 r1 q1 => hW.processFullRaises env1 t.core t.relayQ v e r1 q1 hexc)
    (fun _ v env1 r1 q1 => hW.processStreamRaises env1 t.core t.relayQ v e r1 q1 hexc) k

/-! ### the function: ready flag, loop, `finally` -/

/-- **(a)** the first statement sets `main_thread_ready` - what `Spec.hReady` says a started worker has done when `wait(0.5)` returns:
    the environment is exactly the one `hReady` postulates -/
theorem worker_ready_first (hM : Spec M R) (env : Env) (n : Nat) :
    exec2S (n + 1) M env readyStmt = .ok (.next (env.set "#ev.main_thread_ready" (pbool true))) :=
  exec2S_simple_next n M env _ readyStmt rfl (exec_evSet hM env .mainReady)

/-- the function, given what its loop does from the environment with the ready flag set: the loop ENDS (`stop_requested`): the `finally`
    block runs `super().reset()` and the function returns -/
theorem worker_fn_of_loop_next (hM : Spec M R) (env e1 env2 : Env) (m : Nat)
    (hloop : exec2S (m + 1) M (env.set "#ev.main_thread_ready" (pbool true)) workerLoop = .ok (.next e1))
    (hfin : M.proc "super().reset" [] e1 = .ok env2) :
    run2 (m + 5) M env Src.TransportLayer_p_main_thread_fn = .ok (.ret pnone env2) := by
  have h1 : exec2B (m + 2) M (env.set "#ev.main_thread_ready" (pbool true)) (.cons workerLoop .nil) = .ok (.next e1) := by
    rw [exec2B_cons_next hloop]; rfl
  have h2 : exec2B (m + 2) M e1 workerFin = .ok (.next env2) := by
    unfold workerFin
    rw [exec2B_cons_next (n := m + 1) (exec2S_simple_next m M e1 env2 _ rfl (exec_proc0 M e1 env2 _ (by decide) hfin))]
    rfl
  have h3 : exec2S (m + 3) M (env.set "#ev.main_thread_ready" (pbool true)) (.tryFinally (.cons workerLoop .nil) workerFin) =
      .ok (.next env2) := by
    rw [exec2S_tryFinally, h1]
    simp only [Out.env]
    rw [h2]
    rfl
  rw [worker_src]
  unfold run2
  rw [exec2B_cons_next (n := m + 4) (worker_ready_first hM env (m + 3)), exec2B_cons_next h3]
  rfl

/-- ... the loop is LEFT BY AN EXCEPTION: the `finally` block still runs `super().reset()`, in the environment the exception was raised
    in, and the exception propagates out of the function (the thread dies with it) -/
theorem worker_fn_of_loop_raised (hM : Spec M R) (env e1 env2 : Env) (x : String) (m : Nat)
    (hloop : exec2S (m + 1) M (env.set "#ev.main_thread_ready" (pbool true)) workerLoop = .ok (.raised x e1))
    (hfin : M.proc "super().reset" [] e1 = .ok env2) :
    run2 (m + 5) M env Src.TransportLayer_p_main_thread_fn = .ok (.raised x env2) := by
  have h1 : exec2B (m + 2) M (env.set "#ev.main_thread_ready" (pbool true)) (.cons workerLoop .nil) = .ok (.raised x e1) :=
    exec2B_cons_raised hloop
  have h2 : exec2B (m + 2) M e1 workerFin = .ok (.next env2) := by
    unfold workerFin
    rw [exec2B_cons_next (n := m + 1) (exec2S_simple_next m M e1 env2 _ rfl (exec_proc0 M e1 env2 _ (by decide) hfin))]
    rfl
  have h3 : exec2S (m + 3) M (env.set "#ev.main_thread_ready" (pbool true)) (.tryFinally (.cons workerLoop .nil) workerFin) =
      .ok (.raised x env2) := by
    rw [exec2S_tryFinally, h1]
    simp only [Out.env]
    rw [h2]
    rfl
  rw [worker_src]
  unfold run2
  rw [exec2B_cons_next (n := m + 4) (worker_ready_first hM env (m + 3)), exec2B_cons_raised h3]

end loop


/-! ## 8. the whole function -/

/-- the wrapper state once the worker has signalled ready -/
def ready (t : TL) : TL := { t with ev := { t.ev with mainReady := true } }
/-- ... and once its `finally: super().reset()` has run.  `TL.workerExit` is this plus `mainThread := .finished`: the death of a thread
    whose target has returned is the runtime's doing, not a statement of the source (as for the relay thread, `relay_iteration`) -/
def exited (t : TL) : TL := { t with core := t.core.reset }

theorem workerExit_eq (t : TL) : TL.workerExit t = { exited t with mainThread := .finished } := rfl

/-- `k + 1` passes through the loop body, a stop request arriving during the `process` call of the last one -/
def workerRun : Nat → TL → TL
  | 0, t => workerIter true t
  | k + 1, t => workerRun k (workerIter false t)

/-- the model's `process` raises in none of them -/
def RunOk : Nat → TL → Prop
  | 0, t => (procStep t).core.exc = none
  | k + 1, t => (procStep t).core.exc = none ∧ RunOk k (workerIter false t)

section whole
variable {M : Meths} {R : Env → State → Prop}

theorem pint_succ_ne_zero (k : Nat) : pint ((k + 1 : Nat) : Int) ≠ pint 0 := by
  intro h
  simp only [pint, PV.sc.injEq, Sc.py.injEq, PyVal.int.injEq] at h
  omega

/-- **(d) the loop under a schedule**: `#sched = k` (the other thread's `stop()` arrives during the `process` call of iteration `k + 1`):
    by induction on `k`, the loop makes `k` undisturbed passes, one pass during which the request arrives, and ends -/
theorem worker_loop_sched (hM : Spec M R) (hW : WorkerSpec M R) (hR : CoreRel R) (hD : WorkerRel R) :
    ∀ (k : Nat) (env : Env) (t : TL), Shows R env t → t.ev.stopRequested = false →
      env "#sched" = some (pint ((k : Nat) : Int)) → RunOk k t →
      ∃ env', Shows R env' (workerRun k t) ∧ (∀ p ∈ passiveKeys, env' p = env p) ∧
        ∀ n, k + 14 ≤ n → exec2S n M env workerLoop = .ok (.next env')
  | 0, env, t, h, hsr, hs, hok => by
    have ha : arrives env = true := by simp [arrives, hs]
    obtain ⟨env', x1, x2, -, x4⟩ := worker_iteration hM hW hR hD env t h hsr hok
    rw [ha] at x1
    refine ⟨env', x1, x2, fun n hn => ?_⟩
    obtain ⟨m, rfl⟩ : ∃ m, n = m + 1 := ⟨n - 1, by omega⟩
    rw [x4 m (by omega)]
    exact worker_loop_exit hM env' (by rw [x1.1.e3, workerIter_sr]; rfl) m (by omega)
  | k + 1, env, t, h, hsr, hs, hok => by
    have ha : arrives env = false := by
      simp only [arrives, hs, decide_eq_false_iff_not, Option.some.injEq]
      exact pint_succ_ne_zero k
    obtain ⟨env', x1, x2, x3, x4⟩ := worker_iteration hM hW hR hD env t h hsr hok.1
    rw [ha] at x1
    obtain ⟨env'', y1, y2, y3⟩ := worker_loop_sched hM hW hR hD k env' _ x1
      (by rw [workerIter_sr]; simpa using hsr) (x3 k hs) hok.2
    refine ⟨env'', y1, fun p hp => (y2 p hp).trans (x2 p hp), fun n hn => ?_⟩
    obtain ⟨m, rfl⟩ : ∃ m, n = m + 1 := ⟨n - 1, by omega⟩
    rw [x4 m (by omega)]
    exact y3 m (by omega)

/-- the state in which the loop is entered -/
theorem St.ready (hR : CoreRel R) {env : Env} {t : TL} (h : Shows R env t) :
    St R env (env.set "#ev.main_thread_ready" (pbool true)) (ready t) :=
  ((St.init h).setEv hR .mainReady true).cast rfl

/-- **(c) exit**: `stop_requested` already set when the worker starts: ready flag, no pass through the body, `finally: super().reset()`;
    the function returns and the environment shows `exited (ready t)` - the core reset of `TL.workerExit` (the source side of
    `Spec.hWorkerExit`) -/
theorem worker_exits_on_stop (hM : Spec M R) (hR : CoreRel R) (env : Env) (t : TL) (h : Shows R env t)
    (hsr : t.ev.stopRequested = true) :
    ∃ env', (∀ n, 6 ≤ n → run2 n M env Src.TransportLayer_p_main_thread_fn = .ok (.ret pnone env')) ∧
      Shows R env' (exited (ready t)) ∧ ∀ p ∈ passiveKeys, env' p = env p := by
  have h1 := St.ready hR h
  have hloop := worker_loop_exit hM _ (h1.w.e3.trans (by rw [show (ready t).ev.stopRequested = t.ev.stopRequested from rfl, hsr])) 2
    (by omega)
  obtain ⟨env2, x2, r2, f2⟩ := hM.superReset _ _ h1.c
  have h2 := h1.congr env2 _ f2 r2
  refine ⟨env2, fun n hn => ?_, h2.shows, h2.keep⟩
  exact run2_mono_le hn M env _ _ (worker_fn_of_loop_next hM env _ env2 1 hloop x2)

/-- **(d) the whole function under a schedule**: ready flag, `k + 1` passes (the stop request arriving during the last), exit through the
    `finally` block; the function returns (fuel `≥ k + 18`) and the final environment shows `exited (workerRun k (ready t))` -/
theorem worker_runs (hM : Spec M R) (hW : WorkerSpec M R) (hR : CoreRel R) (hD : WorkerRel R) (k : Nat) (env : Env) (t : TL)
    (h : Shows R env t) (hsr : t.ev.stopRequested = false) (hs : env "#sched" = some (pint ((k : Nat) : Int)))
    (hok : RunOk k (ready t)) :
    ∃ env', (∀ n, k + 18 ≤ n → run2 n M env Src.TransportLayer_p_main_thread_fn = .ok (.ret pnone env')) ∧
      Shows R env' (exited (workerRun k (ready t))) ∧ ∀ p ∈ passiveKeys, env' p = env p := by
  have h1 := St.ready hR h
  obtain ⟨e1, y1, y2, y3⟩ := worker_loop_sched hM hW hR hD k _ (ready t) h1.shows hsr (by simp [Env.set, hs]) hok
  obtain ⟨env2, x2, r2, f2⟩ := hM.superReset _ _ y1.2
  have h2 := (St.init y1).congr env2 _ f2 r2
  refine ⟨env2, fun n hn => ?_, h2.shows, fun p hp => ((h2.keep p hp).trans (y2 p hp)).trans (h1.keep p hp)⟩
  exact run2_mono_le hn M env _ _ (worker_fn_of_loop_next hM env e1 env2 (k + 13) (y3 _ (by omega)) x2)

/-- **(c) an exception out of `super().process`**: the model says the `process` call of the first pass raises `e`: the loop is left by
    the exception, the `finally` block runs `super().reset()` all the same, and the function ends `raised e` in an environment that
    shows the RESET logic layer (`exited`); nothing else of the wrapper has changed (in particular `stop_requested` is not set: the
    other thread is not told) -/
theorem worker_raises_finally (hM : Spec M R) (hW : WorkerSpec M R) (hR : CoreRel R) (hD : WorkerRel R) (env : Env) (t : TL)
    (h : Shows R env t) (hsr : t.ev.stopRequested = false) (e : PyExc) (hexc : (procStep (ready t)).core.exc = some e) :
    ∃ env', (∀ n, 14 ≤ n → run2 n M env Src.TransportLayer_p_main_thread_fn = .ok (.raised e.name env')) ∧
      Shows R env' (exited (ready t)) ∧ ∀ p ∈ passiveKeys, env' p = env p := by
  have h1 := St.ready hR h
  obtain ⟨e1, x1, h1'⟩ := worker_loop_raises hM hW hR hD h1 hsr e hexc 0
  obtain ⟨env2, x2, r2, f2⟩ := hM.superReset _ _ h1'.c
  have h2 := h1'.congr env2 _ f2 r2
  refine ⟨env2, fun n hn => ?_, h2.shows, h2.keep⟩
  exact run2_mono_le hn M env _ _ (worker_fn_of_loop_raised hM env e1 env2 e.name 9 x1 x2)

/-- **(c) the same for ANY exception of the callee** (not only those the model knows: the user's `txfn`, `rxfn`, error handler run inside
    `super().process`): if the `process` call of the first pass raises `e`, the function ends `raised e`, the `finally` block having run -/
theorem worker_raises_finally_callee (hM : Spec M R) (hP : WorkerPrims M R) (hR : CoreRel R) (hD : WorkerRel R) (env : Env) (t : TL)
    (h : Shows R env t) (hsr : t.ev.stopRequested = false) (e : PyExc)
    (hfull : inCf t.core = false → ∀ (v : PV) (env1 : Env), R env1 t.core → env1 "#relay_queue" = some (.list (encQ t.relayQ)) →
      M.proc "super().process" [v] env1 = .error (.exc e))
    (htx : inCf t.core = true → ∀ (v : PV) (env1 : Env), R env1 t.core → env1 "#relay_queue" = some (.list (encQ t.relayQ)) →
      M.proc "super().process#do_rx#do_tx" [v, pbool true, pbool true] env1 = .error (.exc e)) :
    ∃ env', (∀ n, 14 ≤ n → run2 n M env Src.TransportLayer_p_main_thread_fn = .ok (.raised e.name env')) ∧
      Shows R env' (exited (ready t)) ∧ ∀ p ∈ passiveKeys, env' p = env p := by
  have h1 := St.ready hR h
  obtain ⟨e1, x1, h1'⟩ := worker_loop_raises_callee hM hP hR hD h1 hsr e hfull htx 0
  obtain ⟨env2, x2, r2, f2⟩ := hM.superReset _ _ h1'.c
  have h2 := h1'.congr env2 _ f2 r2
  refine ⟨env2, fun n hn => ?_, h2.shows, h2.keep⟩
  exact run2_mono_le hn M env _ _ (worker_fn_of_loop_raised hM env e1 env2 e.name 9 x1 x2)

/-- `k` undisturbed passes -/
def iterN : Nat → TL → TL
  | 0, t => t
  | k + 1, t => iterN k (workerIter false t)

def IterOk : Nat → TL → Prop
  | 0, _ => True
  | k + 1, t => (procStep t).core.exc = none ∧ IterOk k (workerIter false t)

/-- the loop when the model's `process` raises in pass `k + 1`, after `k` undisturbed passes (the schedule counter is large enough: no
    stop request arrives before) -/
theorem worker_loop_raises_after (hM : Spec M R) (hW : WorkerSpec M R) (hR : CoreRel R) (hD : WorkerRel R) (e : PyExc) :
    ∀ (k j : Nat) (env0 env : Env) (t : TL), St R env0 env t → t.ev.stopRequested = false →
      env "#sched" = some (pint ((j + k + 1 : Nat) : Int)) → IterOk k t → (procStep (iterN k t)).core.exc = some e →
      ∃ env1, exec2S (k + 12) M env workerLoop = .ok (.raised e.name env1) ∧ St R env0 env1 (iterN k t)
  | 0, _, _, _, _, h, hsr, _, _, hexc => worker_loop_raises hM hW hR hD h hsr e hexc 2
  | k + 1, j, env0, env, t, h, hsr, hs, hok, hexc => by
    have ha : arrives env = false := by
      simp only [arrives, hs, decide_eq_false_iff_not, Option.some.injEq]
      exact pint_succ_ne_zero (j + (k + 1))
    obtain ⟨env', x1, x3, x4⟩ := worker_iteration_st hM hW hR hD h hsr hok.1
    rw [ha] at x1
    obtain ⟨env1, y1, y2⟩ := worker_loop_raises_after hM hW hR hD e k j env0 env' _ x1
      (by rw [workerIter_sr]; simpa using hsr) (x3 (j + k + 1) hs) hok.2 hexc
    exact ⟨env1, (x4 (k + 12) (by omega)).trans y1, y2⟩

/-- **(c) an exception in a later pass**: `k` passes, then the model's `process` raises `e`: the function ends `raised e`, the logic layer
    reset by the `finally` block -/
theorem worker_raises_finally_after (hM : Spec M R) (hW : WorkerSpec M R) (hR : CoreRel R) (hD : WorkerRel R) (k j : Nat) (env : Env)
    (t : TL) (h : Shows R env t) (hsr : t.ev.stopRequested = false) (hs : env "#sched" = some (pint ((j + k + 1 : Nat) : Int)))
    (hok : IterOk k (ready t)) (e : PyExc) (hexc : (procStep (iterN k (ready t))).core.exc = some e) :
    ∃ env', (∀ n, k + 16 ≤ n → run2 n M env Src.TransportLayer_p_main_thread_fn = .ok (.raised e.name env')) ∧
      Shows R env' (exited (iterN k (ready t))) ∧ ∀ p ∈ passiveKeys, env' p = env p := by
  have h1 := St.ready hR h
  obtain ⟨e1, x1, h1'⟩ := worker_loop_raises_after hM hW hR hD e k j _ _ _ h1 hsr (by simp [Env.set, hs]) hok hexc
  obtain ⟨env2, x2, r2, f2⟩ := hM.superReset _ _ h1'.c
  have h2 := h1'.congr env2 _ f2 r2
  refine ⟨env2, fun n hn => ?_, h2.shows, h2.keep⟩
  exact run2_mono_le hn M env _ _ (worker_fn_of_loop_raised hM env e1 env2 e.name (k + 11) x1 x2)

end whole


/-! ## 9. the defect this file found (C13; fixed by f47ba4d): before the fix the streaming branch did not read the relay queue

  Before the fix the streaming branch (`inCf`: Consecutive Frames being sent, nothing being received) called
  `super().process(do_rx=False, do_tx=True)`: the relay queue was NOT read in that pass and the logic layer ran `State.process false true`,
  whereas `TL.workerStep` always takes the frames before the first `None` token out of the queue and runs `process true true`.  On every
  state of that class with a non-empty relay queue the two differ (`procStepBeforeFix_ne_workerStep`), and the environment the pre-fix
  body reached did not show `TL.workerStep t` (`cf_pass_before_fix`).  On the real code of that time: a Single Frame injected while CFs
  were streamed at STmin = 100 ms was delivered 1.2 s later, right after the last CF; a First Frame got its Flow Control 1.2 s late
  (the peer's N_Bs is 1 s: `FlowControlTimeoutError` at the peer).  The definitions below are a literal copy of the pre-fix body, kept as
  a regression witness; they are NOT the dumped source (for which `worker_iteration_workerStep` now holds in both branches). -/

theorem tun_cons_some (m : CanMsg) (rest : List (Option CanMsg)) :
    (TL.takeUntilNone (some m :: rest)).2 = (TL.takeUntilNone rest).2 := rfl

theorem tun_length_le : ∀ q : List (Option CanMsg), (TL.takeUntilNone q).2.length ≤ q.length
  | [] => Nat.le_refl _
  | none :: rest => by simp [TL.takeUntilNone]
  | some m :: rest => by
    rw [tun_cons_some, List.length_cons]
    exact Nat.le_succ_of_le (tun_length_le rest)

theorem tun_length_lt (q : List (Option CanMsg)) (h : q ≠ []) : (TL.takeUntilNone q).2.length < q.length := by
  cases q with
  | nil => exact absurd rfl h
  | cons x rest =>
    cases x with
    | none => simp [TL.takeUntilNone]
    | some m =>
      rw [tun_cons_some, List.length_cons]
      exact Nat.lt_succ_of_le (tun_length_le rest)

theorem encQ_tun_le : ∀ q : List (Option CanMsg), (encQ (TL.takeUntilNone q).2).length ≤ (encQ q).length
  | [] => Nat.le_refl _
  | none :: rest => by
    rw [encQ_cons, List.length_append]
    show (encQ rest).length ≤ _
    omega
  | some m :: rest => by
    rw [tun_cons_some, encQ_cons, List.length_append]
    have := encQ_tun_le rest
    omega

theorem encQ_tun_lt (q : List (Option CanMsg)) (h : q ≠ []) : (encQ (TL.takeUntilNone q).2).length < (encQ q).length := by
  cases q with
  | nil => exact absurd rfl h
  | cons x rest =>
    have hx : 1 ≤ (encItem x).length := by
      have := encItem_ne_nil x
      cases hx : encItem x with
      | nil => exact absurd hx this
      | cons _ _ => simp
    rw [encQ_cons, List.length_append]
    cases x with
    | none =>
      show (encQ rest).length < _
      omega
    | some m =>
      rw [tun_cons_some]
      have := encQ_tun_le rest
      omega

/-- the streaming branch as it was BEFORE fix f47ba4d (not the dumped source) -/
def cfBranchBeforeFix : PBlock :=
  .cons (.assign "delay" (.call "self.next_cf_delay" .nil))
  (.cons (.assert_ (.isNotNone (.var "delay")))
  (.cons (.ite (.cmp .gt (.var "delay") (.int (0))) (.cons (.expr (.call "self.params.wait_func" (.cons (.var "delay") .nil)))
    .nil) .nil)
  (.cons (.ite (.not_ (.call "self.events.stop_requested.is_set" .nil))
    (.cons (.expr (.call "super().process#do_rx#do_tx" (.cons .ff (.cons .tt .nil)))) .nil) .nil)
  .nil)))

def procStmtBeforeFix : PStmt :=
  .ite (.and_ (.not_ (.call "self.is_rx_active" .nil)) (.call "self.is_tx_transmitting_cf" .nil)) cfBranchBeforeFix fullBranch

def workerBodyBeforeFix : PBlock := .cons procStmtBeforeFix (.cons serveTxStmt (.cons serveRxStmt .nil))

/-- the `process` call of one pre-fix iteration, on the model -/
def procStepBeforeFix (t : TL) : TL :=
  if inCf t.core then { t with core := (t.core.process false true).1 } else procStep t

/-- on the model: in the streaming class, with a non-empty relay queue, the pre-fix pass and `TL.workerStep` are different states
    (the source left the queue alone, the model's step shortens it) -/
theorem procStepBeforeFix_ne_workerStep (t : TL) (hm : t.mainThread = .running) (hsr : t.ev.stopRequested = false)
    (hcf : inCf t.core = true) (hq : t.relayQ ≠ []) :
    (procStepBeforeFix t).relayQ = t.relayQ ∧ (TL.workerStep t).relayQ = (TL.takeUntilNone t.relayQ).2 ∧
      procStepBeforeFix t ≠ TL.workerStep t := by
  have h1 : (procStepBeforeFix t).relayQ = t.relayQ := by simp [procStepBeforeFix, hcf]
  have h2 : (TL.workerStep t).relayQ = (TL.takeUntilNone t.relayQ).2 := by simp [TL.workerStep, hm, hsr]
  refine ⟨h1, h2, fun he => ?_⟩
  have := tun_length_lt t.relayQ hq
  rw [← h2, ← he, h1] at this
  omega

/-- the class is not empty -/
example : ∃ t : TL, t.mainThread = .running ∧ t.ev.stopRequested = false ∧ inCf t.core = true ∧ t.relayQ ≠ [] ∧
    procStepBeforeFix t ≠ TL.workerStep t := by
  let t : TL := { core := { (default : State) with txState := .transmitCf }, mainThread := Isotp.Thr.running, relayQ := [none] }
  exact ⟨t, rfl, rfl, rfl, by simp [t], (procStepBeforeFix_ne_workerStep t rfl rfl rfl (by simp [t])).2.2⟩

section gap
variable {M : Meths} {R : Env → State → Prop}

/-- **before fix f47ba4d the source and `TL.workerStep` DISAGREED on the streaming class**: a running worker, stop not requested, no request
    pending, Consecutive Frames being sent with the receiver idle, something in the relay queue.  One pass through the pre-fix loop body
    (its callee `super().process(do_rx=False, do_tx=True)` doing what the logic layer does with those arguments: `hOld`) reached an
    environment that shows `process false true` on the logic layer with the relay queue UNTOUCHED, and that environment does not show
    `TL.workerStep t`. -/
theorem cf_pass_before_fix (hM : Spec M R) (hW : WorkerSpec M R) (hR : CoreRel R) (hD : WorkerRel R) (env : Env) (t : TL)
    (h : Shows R env t) (hm : t.mainThread = .running) (hsr : t.ev.stopRequested = false) (hcf : inCf t.core = true)
    (hq : t.relayQ ≠ []) (htx : t.ev.resetTx = false) (hrx : t.ev.resetRx = false) (hna : arrives env = false)
    (hOld : ∀ (env1 : Env) (s : State) (q : List (Option CanMsg)), R env1 s → env1 "#relay_queue" = some (.list (encQ q)) →
      ∃ env', M.proc "super().process#do_rx#do_tx" [pbool false, pbool true] env1 = .ok env' ∧ R env' (s.process false true).1 ∧
        ∀ k ∈ wrapperKeys, env' k = afterCall env1 q k) :
    ∃ env', execBlock M env workerBodyBeforeFix = .ok (.next env') ∧
      Shows R env' { t with core := (t.core.process false true).1 } ∧ ¬ ShowsW env' (TL.workerStep t) := by
  have h0 := St.init h
  obtain ⟨d, h1, x1, x2, x3⟩ := cf_prefix hW.toWorkerPrims hD h0 hcf
  obtain ⟨e2, y2, r2, f2⟩ := hOld (env.set "delay" (pint d)) t.core t.relayQ h1.c h1.w.q
  have h2 := h1.afterProcess hR _ e2 _ f2 r2
  rw [arrives_set env _ _ (by decide), hna] at h2
  have h2' : St R env e2 { t with core := (t.core.process false true).1 } := h2.cast (by cases t; simp [stopArrives])
  obtain ⟨e3, x4, h3, -⟩ := serve_tx hM hW hR h2'
  obtain ⟨e4, x5, h4, -⟩ := serve_rx hM hW hR h3
  have hst : serveRx (serveTx ({ t with core := (t.core.process false true).1 } : TL)) =
      { t with core := (t.core.process false true).1 } := by simp [serveTx, serveRx, htx, hrx]
  rw [hst] at h4
  have hproc : execStmt M env procStmtBeforeFix = .ok (.next e2) := by
    have hrun : RunS M env procStmtBeforeFix (fun e => e = e2) := by
      unfold procStmtBeforeFix
      refine RunS.ite_true (by rw [eval_inCf hW.toWorkerPrims env _ h0.c, hcf]) ?_
      unfold cfBranchBeforeFix
      refine Run.cons x1 (Run.cons x2 (Run.cons x3 (Run.single ?_)))
      refine RunS.ite_true (eval_not_isSet hM _ .stopRequested false (h1.w.e3.trans (by rw [hsr]))) ?_
      refine Run.cons (exec_proc2 M _ e2 _ _ _ _ _ (by decide) (eval_ff M _) (eval_tt M _) y2) ?_
      exact Run.nil rfl
    obtain ⟨e, x, rfl⟩ := hrun
    exact x
  refine ⟨e4, ?_, h4.shows, fun hbad => ?_⟩
  · unfold workerBodyBeforeFix
    simp only [execBlock, hproc, x4, x5, ok_bind]
  · have a := h4.w.q
    have b := hbad.q
    rw [(procStepBeforeFix_ne_workerStep t hm hsr hcf hq).2.1, a] at b
    have hl := encQ_tun_lt t.relayQ hq
    simp only [Option.some.injEq, PV.list.injEq] at b
    rw [← b] at hl
    exact Nat.lt_irrefl _ hl

end gap

/-! ## 10. the assumptions are satisfiable: a concrete world for the worker

  The world of Threaded.lean (`thrMeths`, `R0`: the logic layer shown by its two FSM states) extended with the callees of the worker.
  A `Meths` is a function of the ENVIRONMENT, and `R0` does not determine the logic-layer state, so `super().process` cannot compute
  `State.process` of an arbitrary state from it; the world is therefore restricted to a class of logic-layer states on which
  `State.process` is computed by hand and which every operation of the worker preserves: `Quiet` - idle in both directions, nothing
  queued, no timer running, and a receive address that matches no frame (`rxid = None`).  On that class the full branch is exercised
  with ARBITRARY relay queues (frames are read up to the first token and ignored), under every schedule.  The streaming branch
  (`inCf`) does not occur in the class: for it the theorems are checked against the specification only (the callee of that branch is
  given the same meaning in the world). -/

structure Quiet (s : State) : Prop where
  tx : s.txState = .idle
  rx : s.rxState = .idle
  q : s.txQueue = []
  pf : s.pendingFc = false
  fc : s.lastFc = none
  tfc : s.timerFc.start = none
  tcf : s.timerCf.start = none
  exc : s.exc = none
  mode : s.addr.rx.mode = .n11
  rxid : s.addr.rx.rxid = none

theorem Quiet.upd {s : State} (h : Quiet s) (ib : List (Nat × CanMsg)) (now : Nat) (log : List Ev) (rl : Limiter) :
    Quiet { s with inbox := ib, now := now, log := log, rl := rl } :=
  ⟨h.tx, h.rx, h.q, h.pf, h.fc, h.tfc, h.tcf, h.exc, h.mode, h.rxid⟩

theorem Quiet.notForMe {s : State} (h : Quiet s) (m : CanMsg) : s.addr.rx.isForMe m = false := by
  simp [Half.isForMe, h.mode, h.rxid, Mode.is29]

theorem Quiet.checkTimeoutsRx {s : State} (h : Quiet s) : s.checkTimeoutsRx = s := by
  simp [State.checkTimeoutsRx, Timer.timedOut, h.tcf]

theorem Quiet.txTimeDriven {s : State} (h : Quiet s) : s.txTimeDriven = false := by
  simp [State.txTimeDriven, h.tx]

theorem Quiet.rxLoop : ∀ (ib : List (Nat × CanMsg)) (s : State) (st : Stats), Quiet s →
    ∃ s' st', s.rxLoop true st ib = (s', st', false) ∧ Quiet s'
  | [], s, st, h => by
    have hq : Quiet (({ s with inbox := [] } : State).emit (.rxNone s.now)) := h.upd [] s.now (.rxNone s.now :: s.log) s.rl
    have e := hq.checkTimeoutsRx
    refine ⟨_, st, ?_, hq⟩
    rw [State.rxLoop]
    exact congrArg (fun x => (x, st, false)) e
  | (dt, m) :: rest, s, st, h => by
    have h2 : Quiet (({ s with inbox := rest, now := s.now + dt } : State).emit (.rx (s.now + dt) m)) :=
      h.upd rest (s.now + dt) _ s.rl
    have e := h2.checkTimeoutsRx
    have hq2 : Quiet (({ s with inbox := rest, now := s.now + dt } : State).emit (.rx (s.now + dt) m)).checkTimeoutsRx := e.symm ▸ h2
    obtain ⟨s', st', x, hq⟩ := Quiet.rxLoop rest _ { st with received := st.received + 1 } hq2
    refine ⟨s', st', ?_, hq⟩
    rw [State.rxLoop]
    split
    · next hx => exact absurd (hx.symm.trans (hq2.notForMe m)) (by simp)
    · split
      · next hx =>
        have hx' : (true && (({ s with inbox := rest, now := s.now + dt } : State).emit (.rx (s.now + dt) m)).checkTimeoutsRx.txTimeDriven) = true := hx
        rw [hq2.txTimeDriven] at hx'
        cases hx'
      · exact x


theorem Quiet.processTx {s : State} (h : Quiet s) : ∃ s', s.processTx = (s', none, false) ∧ Quiet s' := by
  refine ⟨{ s with lastFc := none, txQueue := [] }, ?_, ⟨h.tx, h.rx, rfl, h.pf, rfl, h.tfc, h.tcf, h.exc, h.mode, h.rxid⟩⟩
  simp [State.processTx, h.pf, h.fc, h.tfc, Timer.timedOut, h.tx, State.readTxQueue, h.q, h.exc]

theorem Quiet.txLoop {s : State} (h : Quiet s) (f n : Nat) : ∃ s', State.txLoop (f + 1) s n = (s', n, false, false) ∧ Quiet s' := by
  obtain ⟨s', x, hq⟩ := h.processTx
  refine ⟨s', ?_, hq⟩
  rw [State.txLoop]
  simp [x, hq.exc]

theorem Quiet.processLoop {s : State} (h : Quiet s) (f : Nat) (doRx : Bool) (st : Stats) :
    ∃ s' st', State.processLoop (f + 1) doRx true s st = (s', st', false) ∧ Quiet s' := by
  have hrx : ∃ s1 st1, (if doRx then s.rxLoop true st s.inbox else (s, st, false)) = (s1, st1, false) ∧ Quiet s1 := by
    cases doRx
    · exact ⟨s, st, rfl, h⟩
    · exact Quiet.rxLoop _ _ _ h
  obtain ⟨s1, st1, x1, h1⟩ := hrx
  have h2 : Quiet { s1 with rl := s1.rl.update s1.cfg.rlWindowNs s1.now } := h1.upd s1.inbox s1.now s1.log _
  obtain ⟨f2, hf2⟩ : ∃ f2, ({ s1 with rl := s1.rl.update s1.cfg.rlWindowNs s1.now } : State).txFuel = f2 + 1 := ⟨_, rfl⟩
  obtain ⟨s3, x3, h3⟩ := h2.txLoop f2 st1.sent
  refine ⟨s3, { st1 with sent := st1.sent }, ?_, h3⟩
  rw [State.processLoop]
  simp only [h.q, List.isEmpty_nil, Bool.not_true, Bool.and_false, Bool.false_and, Bool.not_false, Bool.and_true]
  simp only [x1, hf2, x3]
  simp

theorem Quiet.process {s : State} (h : Quiet s) (doRx : Bool) : Quiet (s.process doRx true).1 := by
  obtain ⟨s', st', x, hq⟩ := h.processLoop (2 * (s.inbox.length + s.txQueue.length) + 7) doRx {}
  have : s.process doRx true = (s', st', false) := x
  rw [this]; exact hq

theorem Quiet.stopSending {s : State} (h : Quiet s) (b : Bool) : Quiet (s.stopSending b) := by
  cases ha : s.active <;> simp only [State.stopSending, ha, State.emit, Timer.stop] <;>
    exact ⟨rfl, h.rx, h.q, h.pf, h.fc, rfl, h.tcf, h.exc, h.mode, h.rxid⟩

theorem Quiet.stopReceiving {s : State} (h : Quiet s) : Quiet s.stopReceiving :=
  ⟨h.tx, rfl, h.q, rfl, rfl, h.tfc, rfl, h.exc, h.mode, h.rxid⟩

theorem Quiet.reset {s : State} (h : Quiet s) : Quiet s.reset := by
  have h1 : Quiet (({ s with rxQueue := [] } : State).clearTxQueue s.txQueue) := by
    rw [h.q]; exact ⟨h.tx, h.rx, rfl, h.pf, h.fc, h.tfc, h.tcf, h.exc, h.mode, h.rxid⟩
  have h2 := (h1.stopSending false).stopReceiving
  exact h2.upd _ _ _ _


/-- the relation of the world: the two FSM states, on a quiet logic layer -/
def Rq (env : Env) (s : State) : Prop := R0 env s ∧ Quiet s

theorem Rq_coreRel : CoreRel Rq where
  frame := fun env k v s hk h => ⟨R0_coreRel.frame env k v s hk h.1, h.2⟩
  inbox := fun _ s ib h => ⟨h.1, h.2.upd ib s.now s.log s.rl⟩

theorem Rq_workerRel : WorkerRel Rq where
  delay := fun env v s h => ⟨⟨by simp [Env.set, h.1.1], by simp [Env.set, h.1.2]⟩, h.2⟩

/-- the encoded relay queue after its items up to and including the first `None` token have been read -/
def dropToNone : Nat → List Sc → List Sc
  | 0, xs => xs
  | f + 1, xs =>
    match takeItem xs with
    | some (item, rest) => if item = [Sc.py .none] then rest else dropToNone f rest
    | none => xs

theorem dropToNone_enc : ∀ (q : List (Option CanMsg)) (f : Nat), q.length ≤ f →
    dropToNone f (encQ q) = encQ (TL.takeUntilNone q).2
  | [], f, _ => by cases f <;> rfl
  | none :: rest, f, hf => by
    obtain ⟨f', rfl⟩ : ∃ f', f = f' + 1 := ⟨f - 1, by simp only [List.length_cons] at hf; omega⟩
    rw [encQ_cons, dropToNone, takeItem_enc]
    rfl
  | some m :: rest, f, hf => by
    obtain ⟨f', rfl⟩ : ∃ f', f = f' + 1 := ⟨f - 1, by simp only [List.length_cons] at hf; omega⟩
    rw [encQ_cons, dropToNone, takeItem_enc, tun_cons_some]
    have hne : encItem (some m) ≠ [Sc.py .none] := by simp [encItem, encMsg]
    simp only [hne, if_false]
    exact dropToNone_enc rest f' (by simp only [List.length_cons] at hf; omega)

/-- the schedule counter after a `process` call -/
def schedNext : Option PV → Option PV
  | some (.sc (.py (.int (.ofNat (n + 1))))) => some (pint (n : Int))
  | x => x

def schedDec (env0 env : Env) : Env := fun k => if k = "#sched" then schedNext (env0 "#sched") else env k

/-- a `process` call of the logic layer in the world: the relay queue becomes `xs'`, the other thread's `stop()` arrives if scheduled, the
    counter goes down; the (quiet) logic layer stays as it is -/
def wAfter (env : Env) (xs' : List Sc) : Env :=
  schedDec env (if arrives env then (env.set "#relay_queue" (.list (xs' ++ [.py .none]))).set "#ev.stop_requested" (pbool true)
    else env.set "#relay_queue" (.list xs'))

def wProcFull (env : Env) : Except PErr Env :=
  match env "#relay_queue" with
  | some (.list xs) => .ok (wAfter env (dropToNone xs.length xs))
  | _ => .error (.exc .AttributeError)

def wFn (name : String) (args : List PV) (env : Env) : Except PErr PV :=
  match name, args with
  | "self.is_rx_active", [] => .ok (pbool false)
  | "self.is_tx_transmitting_cf", [] => .ok (pbool false)
  | "self.next_cf_delay", [] => .ok (pint 0)
  | n, a => thrFn n a env

def wProc (name : String) (args : List PV) (env : Env) : Except PErr Env :=
  match name, args with
  | "super().process", [_] => wProcFull env
  | "super().process#do_rx#do_tx", [_, _, _] => wProcFull env
  | "self.params.wait_func", [_] => .ok env
  | n, a => thrProc n a env

def wMeths : Meths := { fn := wFn, proc := wProc }

def wProcNames : List String := ["super().process", "super().process#do_rx#do_tx", "self.params.wait_func"]
def wFnNames : List String := ["self.is_rx_active", "self.is_tx_transmitting_cf", "self.next_cf_delay"]

theorem wProc_other (n : String) (a : List PV) (env : Env) (h : n ∉ wProcNames) : wMeths.proc n a env = thrMeths.proc n a env := by
  simp only [wProcNames, List.mem_cons, List.not_mem_nil, or_false, not_or] at h
  show wProc n a env = thrProc n a env
  unfold wProc
  split <;> simp_all

theorem wFn_other (n : String) (a : List PV) (env : Env) (h : n ∉ wFnNames) : wMeths.fn n a env = thrMeths.fn n a env := by
  simp only [wFnNames, List.mem_cons, List.not_mem_nil, or_false, not_or] at h
  show wFn n a env = thrFn n a env
  unfold wFn
  split <;> simp_all


/-- the names `Spec` mentions -/
def specProcNames : List String :=
  ["self.events.main_thread_ready.set", "self.events.relay_thread_ready.set", "self.events.stop_requested.set",
   "self.events.reset_tx.set", "self.events.reset_rx.set", "self.events.reset_tx_complete.set", "self.events.reset_rx_complete.set",
   "self.events.main_thread_ready.clear", "self.events.relay_thread_ready.clear", "self.events.stop_requested.clear",
   "self.events.reset_tx.clear", "self.events.reset_rx.clear", "self.events.reset_tx_complete.clear",
   "self.events.reset_rx_complete.clear",
   "self.events.main_thread_ready.wait", "self.events.relay_thread_ready.wait", "self.events.stop_requested.wait",
   "self.events.reset_tx.wait", "self.events.reset_rx.wait", "self.events.reset_tx_complete.wait", "self.events.reset_rx_complete.wait",
   "self.rx_relay_queue.put", "self.rx_relay_queue.get", "self._set_rxfn", "self.main_thread.start", "self.relay_thread.start",
   "self.main_thread.join", "self.relay_thread.join#timeout", "super().reset", "self._stop_sending#success", "self._stop_receiving"]
def specFnNames : List String :=
  ["self.events.main_thread_ready.is_set", "self.events.relay_thread_ready.is_set", "self.events.stop_requested.is_set",
   "self.events.reset_tx.is_set", "self.events.reset_rx.is_set", "self.events.reset_tx_complete.is_set",
   "self.events.reset_rx_complete.is_set", "__float__", "self.rx_relay_queue.empty", "threading.Thread#target#daemon",
   "self.main_thread.is_alive", "self.relay_thread.is_alive"]

/-- the lifecycle assumptions of Threaded.lean hold, on the quiet class, for every `Meths` that agrees with `thrMeths` on the names they
    mention -/
theorem spec_of_agree (M' : Meths) (hp : ∀ n a env, n ∈ specProcNames → M'.proc n a env = thrMeths.proc n a env)
    (hf : ∀ n a env, n ∈ specFnNames → M'.fn n a env = thrMeths.fn n a env) : Spec M' Rq where
  evSet := fun e env => (hp _ _ _ (by cases e <;> decide)).trans (thrMeths_spec.evSet e env)
  evClear := fun e env => (hp _ _ _ (by cases e <;> decide)).trans (thrMeths_spec.evClear e env)
  evIsSet := fun e env b h => (hf _ _ _ (by cases e <;> decide)).trans (thrMeths_spec.evIsSet e env b h)
  waitSet := fun e env v h => (hp _ _ _ (by cases e <;> decide)).trans (thrMeths_spec.waitSet e env v h)
  float := fun s env => by
    obtain ⟨i, hi⟩ := thrMeths_spec.float s env
    exact ⟨i, (hf _ _ _ (by decide)).trans hi⟩
  qPutNone := fun env q h => (hp _ _ _ (by decide)).trans (thrMeths_spec.qPutNone env q h)
  qEmpty := fun env q h => (hf _ _ _ (by decide)).trans (thrMeths_spec.qEmpty env q h)
  qGet := fun env x q h => (hp _ _ _ (by decide)).trans (thrMeths_spec.qGet env x q h)
  setRxfn := fun env x => (hp _ _ _ (by decide)).trans (thrMeths_spec.setRxfn env x)
  thrNew := fun env tgt => (hf _ _ _ (by decide)).trans (thrMeths_spec.thrNew env tgt)
  startMain := fun env h => (hp _ _ _ (by decide)).trans (thrMeths_spec.startMain env h)
  startRelay := fun env h => (hp _ _ _ (by decide)).trans (thrMeths_spec.startRelay env h)
  aliveMain := fun env b h => (hf _ _ _ (by decide)).trans (thrMeths_spec.aliveMain env b h)
  aliveRelay := fun env b h => (hf _ _ _ (by decide)).trans (thrMeths_spec.aliveRelay env b h)
  joinDeadMain := fun env v h => (hp _ _ _ (by decide)).trans (thrMeths_spec.joinDeadMain env v h)
  joinDeadRelay := fun env v h => (hp _ _ _ (by decide)).trans (thrMeths_spec.joinDeadRelay env v h)
  hJoin := fun env v q hA hS hQ => by
    obtain ⟨env', h1, h2, h3⟩ := thrMeths_spec.hJoin env v q hA hS hQ
    exact ⟨env', (hp _ _ _ (by decide)).trans h1, h2, h3⟩
  hJoinRelay := fun env v hA hS => (hp _ _ _ (by decide)).trans (thrMeths_spec.hJoinRelay env v hA hS)
  hWorkerExit := fun env env' v s hR hA hj hd =>
    ⟨thrMeths_spec.hWorkerExit env env' v s hR.1 hA ((hp _ _ _ (by decide)).symm.trans hj) hd, hR.2.reset⟩
  hReady := fun env v h => (hp _ _ _ (by decide)).trans (thrMeths_spec.hReady env v h)
  hReadyRelay := fun env v h => (hp _ _ _ (by decide)).trans (thrMeths_spec.hReadyRelay env v h)
  hServe := fun env v s hR hA hS hT hC => by
    obtain ⟨env', h1, h2, h3, h4, h5⟩ := thrMeths_spec.hServe env v s hR.1 hA hS hT hC
    exact ⟨env', (hp _ _ _ (by decide)).trans h1, ⟨h2, hR.2.stopSending false⟩, h3, h4, h5⟩
  hServeRx := fun env v s hR hA hS hT hC => by
    obtain ⟨env', h1, h2, h3, h4, h5⟩ := thrMeths_spec.hServeRx env v s hR.1 hA hS hT hC
    exact ⟨env', (hp _ _ _ (by decide)).trans h1, ⟨h2, hR.2.stopReceiving⟩, h3, h4, h5⟩
  superReset := fun env s hR => by
    obtain ⟨env', h1, h2, h3⟩ := thrMeths_spec.superReset env s hR.1
    exact ⟨env', (hp _ _ _ (by decide)).trans h1, ⟨h2, hR.2.reset⟩, h3⟩
  stopSendingCore := fun env s hR => by
    obtain ⟨env', h1, h2, h3⟩ := thrMeths_spec.stopSendingCore env s hR.1
    exact ⟨env', (hp _ _ _ (by decide)).trans h1, ⟨h2, hR.2.stopSending false⟩, h3⟩
  stopReceivingCore := fun env s hR => by
    obtain ⟨env', h1, h2, h3⟩ := thrMeths_spec.stopReceivingCore env s hR.1
    exact ⟨env', (hp _ _ _ (by decide)).trans h1, ⟨h2, hR.2.stopReceiving⟩, h3⟩


theorem wMeths_spec : Spec wMeths Rq :=
  spec_of_agree wMeths
    (fun n a env hn => wProc_other n a env (by revert n; decide))
    (fun n a env hn => wFn_other n a env (by revert n; decide))

theorem schedDec_other (env0 env : Env) (k : String) (h : k ≠ "#sched") : schedDec env0 env k = env k := by
  simp [schedDec, h]

theorem wAfter_other (env : Env) (xs' : List Sc) (k : String) (h1 : k ≠ "#sched") (h2 : k ≠ "#relay_queue")
    (h3 : k ≠ "#ev.stop_requested") : wAfter env xs' k = env k := by
  unfold wAfter
  rw [schedDec_other _ _ _ h1]
  split <;> simp [Env.set, h2, h3]

theorem wAfter_wrapper (env : Env) (q' : List (Option CanMsg)) (k : String) (hk : k ∈ wrapperKeys) :
    wAfter env (encQ q') k = afterCall env q' k := by
  have h1 : k ≠ "#sched" := by intro e; subst e; revert hk; decide
  unfold wAfter afterCall
  rw [schedDec_other _ _ _ h1]
  have : encQ (q' ++ [none]) = encQ q' ++ [Sc.py .none] := by rw [encQ_append]; rfl
  rw [this]

theorem wAfter_sched (env : Env) (xs' : List Sc) : SchedStep env (wAfter env xs') := by
  intro n hn
  have : wAfter env xs' "#sched" = schedNext (env "#sched") := by simp [wAfter, schedDec]
  rw [this, hn]
  rfl

theorem wAfter_Rq (env : Env) (xs' : List Sc) (s s' : State) (h : Rq env s) (h' : Quiet s') : Rq (wAfter env xs') s' := by
  refine ⟨⟨?_, ?_⟩, h'⟩
  · rw [wAfter_other env xs' _ (by decide) (by decide) (by decide), h.1.1, h.2.tx, h'.tx]
  · rw [wAfter_other env xs' _ (by decide) (by decide) (by decide), h.1.2, h.2.rx, h'.rx]

theorem Quiet.feed {s : State} (h : Quiet s) (q : List (Option CanMsg)) : Quiet (feed s q) := h.upd _ s.now s.log s.rl

theorem coreIdle_sched (env : Env) (tx rx : Bool) : coreIdle env tx rx "#sched" = env "#sched" := by
  cases tx <;> cases rx <;> simp [coreIdle, Env.set]

/-- the worker's assumptions hold in the world, on the quiet class -/
theorem wMeths_worker : WorkerSpec wMeths Rq where
  rxActive := fun env s h => by
    show (Except.ok (pbool false) : Except PErr PV) = _
    simp [State.isRxActive, h.2.rx]
  txCf := fun env s h => by
    show (Except.ok (pbool false) : Except PErr PV) = _
    simp [h.2.tx]
  cfDelay := fun _ _ _ _ => ⟨0, rfl⟩
  waitFunc := fun _ _ => rfl
  throttled := fun _ => ⟨false, rfl⟩
  processFull := by
    intro env s q v h hq _
    have hQ := (h.2.feed q).process true
    refine ⟨wAfter env (encQ (TL.takeUntilNone q).2), ?_, wAfter_Rq env _ s _ h hQ, fun k hk => wAfter_wrapper env _ k hk,
      wAfter_sched env _⟩
    show wProcFull env = _
    unfold wProcFull
    rw [hq]
    simp only [dropToNone_enc q _ (encQ_length_ge q)]
  processFullRaises := by
    intro env s q v e h _ hx
    have hQ := (h.2.feed q).process true
    rw [hQ.exc] at hx
    cases hx
  processStream := by
    intro env s q v h hq _
    have hQ := (h.2.feed q).process true
    refine ⟨wAfter env (encQ (TL.takeUntilNone q).2), ?_, wAfter_Rq env _ s _ h hQ, fun k hk => wAfter_wrapper env _ k hk,
      wAfter_sched env _⟩
    show wProcFull env = _
    unfold wProcFull
    rw [hq]
    simp only [dropToNone_enc q _ (encQ_length_ge q)]
  processStreamRaises := by
    intro env s q v e h _ hx
    have hQ := (h.2.feed q).process true
    rw [hQ.exc] at hx
    cases hx
  schedStopSending := by
    intro env env' h
    have h' : (Except.ok (coreIdle env true false) : Except PErr Env) = .ok env' := h
    simp only [Except.ok.injEq] at h'
    subst h'
    exact coreIdle_sched env true false
  schedStopReceiving := by
    intro env env' h
    have h' : (Except.ok (coreIdle env false true) : Except PErr Env) = .ok env' := h
    simp only [Except.ok.injEq] at h'
    subst h'
    exact coreIdle_sched env false true


/-! ### environments of the world; every theorem applies to every wrapper state with a quiet logic layer -/

theorem Quiet.inCf {s : State} (h : Quiet s) : inCf s = false := by simp [Thr.inCf, h.tx]

theorem Quiet.procStep {t : TL} (h : Quiet t.core) : Quiet (procStep t).core := by
  exact (h.feed _).process true

theorem Quiet.workerIter (b : Bool) {t : TL} (h : Quiet t.core) : Quiet (workerIter b t).core := by
  have h1 : Quiet (stopArrives b (Thr.procStep t)).core := by
    unfold stopArrives; split <;> exact h.procStep
  have h2 : Quiet (serveTx (stopArrives b (Thr.procStep t))).core := by
    unfold serveTx; split
    · exact h1.stopSending false
    · exact h1
  unfold Thr.workerIter serveRx
  split
  · exact h2.stopReceiving
  · exact h2

theorem RunOk_of_quiet : ∀ (k : Nat) (t : TL), Quiet t.core → RunOk k t
  | 0, _, h => h.procStep.exc
  | k + 1, _, h => ⟨h.procStep.exc, RunOk_of_quiet k _ (h.workerIter false)⟩

/-- setting the schedule key does not change what is shown -/
theorem Shows.setSched {env : Env} {t : TL} (h : Shows Rq env t) (v : PV) : Shows Rq (env.set "#sched" v) t := by
  obtain ⟨⟨f1, f2, f3, f4, f5, f6, f7, f8, f9, f10, f11, f12, f13, f14, f15, f16, f17, f18, f19, f20⟩, hc⟩ := h
  exact ⟨by constructor <;> simp [Env.set, *], ⟨⟨by simp [Env.set, hc.1.1], by simp [Env.set, hc.1.2]⟩, hc.2⟩⟩

/-- the world environment of Threaded.lean shows `t` with the relation of this world when the logic layer is quiet; it has no schedule -/
theorem worldEnv_showsq (t : TL) (hq : Quiet t.core) :
    Shows Rq (worldEnv t false 0 true) t ∧ arrives (worldEnv t false 0 true) = false :=
  ⟨⟨(worldEnv_shows t false 0 true).1.1, (worldEnv_shows t false 0 true).1.2, hq⟩, rfl⟩

/-- a quiet logic layer exists: the initial state of a layer whose receive address has no `rxid` -/
theorem quiet_default : Quiet (default : State) := ⟨rfl, rfl, rfl, rfl, rfl, rfl, rfl, rfl, rfl, rfl⟩

/-- (b) one iteration IS `TL.workerStep`, for every such wrapper state with a running worker and no request pending - whatever the relay
    queue holds -/
example (t : TL) (hq : Quiet t.core) (hm : t.mainThread = .running) (hsr : t.ev.stopRequested = false)
    (htx : t.ev.resetTx = false) (hrx : t.ev.resetRx = false) :
    ∃ env', Shows Rq env' (TL.workerStep t) ∧ ∀ n, 12 ≤ n →
      exec2S (n + 1) wMeths (worldEnv t false 0 true) workerLoop = exec2S n wMeths env' workerLoop := by
  obtain ⟨env', h1, -, h3⟩ := worker_iteration_workerStep wMeths_spec wMeths_worker Rq_coreRel Rq_workerRel _ t
    (worldEnv_showsq t hq).1 hm hsr htx hrx (worldEnv_showsq t hq).2
    (by rw [← procStep_eq_workerStep t hm hsr]; exact hq.procStep.exc)
  exact ⟨env', h1, h3⟩

/-- (b) with requests pending: they are served in the same pass -/
example (t : TL) (hq : Quiet t.core) (hsr : t.ev.stopRequested = false) :
    ∃ env', Shows Rq env' (workerIter false t) ∧ ∀ n, 12 ≤ n →
      exec2S (n + 1) wMeths (worldEnv t false 0 true) workerLoop = exec2S n wMeths env' workerLoop := by
  obtain ⟨env', h1, -, -, h3⟩ := worker_iteration wMeths_spec wMeths_worker Rq_coreRel Rq_workerRel _ t
    (worldEnv_showsq t hq).1 hsr hq.procStep.exc
  rw [(worldEnv_showsq t hq).2] at h1
  exact ⟨env', h1, h3⟩

/-- (c) exit -/
example (t : TL) (hq : Quiet t.core) (hsr : t.ev.stopRequested = true) :
    ∃ env', (∀ n, 6 ≤ n → run2 n wMeths (worldEnv t false 0 true) Src.TransportLayer_p_main_thread_fn = .ok (.ret pnone env')) ∧
      Shows Rq env' (exited (ready t)) := by
  obtain ⟨env', h1, h2, -⟩ := worker_exits_on_stop wMeths_spec Rq_coreRel _ t (worldEnv_showsq t hq).1 hsr
  exact ⟨env', h1, h2⟩

/-- (d) every schedule -/
example (t : TL) (hq : Quiet t.core) (hsr : t.ev.stopRequested = false) (k : Nat) :
    ∃ env', (∀ n, k + 18 ≤ n → run2 n wMeths ((worldEnv t false 0 true).set "#sched" (pint (k : Int)))
        Src.TransportLayer_p_main_thread_fn = .ok (.ret pnone env')) ∧
      Shows Rq env' (exited (workerRun k (ready t))) := by
  obtain ⟨env', h1, h2, -⟩ := worker_runs wMeths_spec wMeths_worker Rq_coreRel Rq_workerRel k _ t
    ((worldEnv_showsq t hq).1.setSched (pint (k : Int))) hsr (by simp [Env.set]) (RunOk_of_quiet k _ hq)
  exact ⟨env', h1, h2⟩

/-! ### a world in which `super().process` raises (a user callback failing inside it): `worker_raises_finally_callee` applies -/

def raiseProc (name : String) (args : List PV) (env : Env) : Except PErr Env :=
  if name = "super().process" ∨ name = "super().process#do_rx#do_tx" then .error (.exc .ValueError) else wProc name args env

def raiseMeths : Meths := { fn := wFn, proc := raiseProc }

theorem raiseMeths_spec : Spec raiseMeths Rq :=
  spec_of_agree raiseMeths
    (fun n a env hn => by
      have h1 : n ∉ ["super().process", "super().process#do_rx#do_tx"] := by revert n; decide
      simp only [List.mem_cons, List.not_mem_nil, or_false] at h1
      show raiseProc n a env = _
      unfold raiseProc
      rw [if_neg h1]
      exact wProc_other n a env (by revert n; decide))
    (fun n a env hn => wFn_other n a env (by revert n; decide))

theorem raiseMeths_prims : WorkerPrims raiseMeths Rq where
  rxActive := wMeths_worker.rxActive
  txCf := wMeths_worker.txCf
  cfDelay := wMeths_worker.cfDelay
  waitFunc := fun _ _ => rfl
  throttled := wMeths_worker.throttled

example (t : TL) (hq : Quiet t.core) (hsr : t.ev.stopRequested = false) :
    ∃ env', (∀ n, 14 ≤ n → run2 n raiseMeths (worldEnv t false 0 true) Src.TransportLayer_p_main_thread_fn =
        .ok (.raised "ValueError" env')) ∧ Shows Rq env' (exited (ready t)) := by
  obtain ⟨env', h1, h2, -⟩ := worker_raises_finally_callee raiseMeths_spec raiseMeths_prims Rq_coreRel Rq_workerRel _ t
    (worldEnv_showsq t hq).1 hsr .ValueError (fun _ _ _ _ _ => rfl) (fun _ _ _ _ _ => rfl)
  exact ⟨env', h1, h2⟩


/-! ### ... and the world really runs: the kernel evaluates the interpreter on the dumped `_main_thread_fn`

  A started layer, worker running, a `reset_tx` request pending, relay queue `[frame, None, frame]`, schedule 1 (the other thread's `stop()`
  arrives during the second `process` call): two passes, then the exit.  Pass 1 reads `frame, None` and serves the request; pass 2 reads
  the second frame (no token behind it: `get` times out) and comes back with `stop_requested` set and the token of `stop()` queued. -/

def demoW : TL :=
  { core := default, started := true, mainThread := Isotp.Thr.running, relayThread := Isotp.Thr.running,
    relayQ := [some demoMsg, none, some demoMsg], ev := { relayReady := true, resetTx := true }, rxfnIsRelay := true }

def demoWorker (M : Meths) (n : Nat) (k : Int) : Option (Option String) :=
  match run2 n M ((worldEnv demoW false 0 true).set "#sched" (pint k)) Src.TransportLayer_p_main_thread_fn with
  | .ok (.ret _ e) =>
    if e "#ev.main_thread_ready" == some (pbool true) && e "#ev.stop_requested" == some (pbool true) &&
      e "#ev.reset_tx" == some (pbool false) && e "#ev.reset_tx_complete" == some (pbool true) &&
      e "#relay_queue" == some (.list [.py .none]) && e "self.tx_state" == some (txPV .idle) && e "#sched" == some (pint 0)
    then some none else none
  | .ok (.raised x e) =>
    if e "#ev.main_thread_ready" == some (pbool true) && e "#ev.stop_requested" == some (pbool false) &&
      e "#ev.reset_tx" == some (pbool true) && e "self.tx_state" == some (txPV .idle)
    then some (some x) else none
  | _ => none

/-- the run returns with the expected final environment (the fuel bound of `worker_runs`, `k + 18`, is sufficient, not tight: this run
    needs 12) -/
example : demoWorker wMeths 19 1 = some none ∧ demoWorker wMeths 12 1 = some none ∧ demoWorker wMeths 11 1 = none := by decide

/-- with a `process` that raises: ready flag set, the loop left at once (the pending request NOT served, `stop_requested` not set), the
    logic layer reset by the `finally` block, `ValueError` out of the function -/
example : demoWorker raiseMeths 40 1 = some (some "ValueError") := by decide

end Isotp.PyAgree.Thr

#print axioms Isotp.PyAgree.Thr.process_refuses
#print axioms Isotp.PyAgree.Thr.process_hands_over
#print axioms Isotp.PyAgree.Thr.process_agrees
#print axioms Isotp.PyAgree.Thr.process_raises_iff
#print axioms Isotp.PyAgree.Thr.reset_refuses
#print axioms Isotp.PyAgree.Thr.reset_agrees
#print axioms Isotp.PyAgree.Thr.reset_raises_iff
#print axioms Isotp.PyAgree.Thr.worker_src
#print axioms Isotp.PyAgree.Thr.procStep_eq_workerStep
#print axioms Isotp.PyAgree.Thr.workerIter_eq_workerStep
#print axioms Isotp.PyAgree.Thr.serveTx_eq_stopSending
#print axioms Isotp.PyAgree.Thr.serveRx_eq_stopReceiving
#print axioms Isotp.PyAgree.Thr.proc_full
#print axioms Isotp.PyAgree.Thr.proc_cf
#print axioms Isotp.PyAgree.Thr.serve_tx_is_hServe
#print axioms Isotp.PyAgree.Thr.serve_rx_is_hServeRx
#print axioms Isotp.PyAgree.Thr.serve_tx
#print axioms Isotp.PyAgree.Thr.serve_rx
#print axioms Isotp.PyAgree.Thr.worker_body
#print axioms Isotp.PyAgree.Thr.worker_loop_exit
#print axioms Isotp.PyAgree.Thr.worker_iteration
#print axioms Isotp.PyAgree.Thr.worker_iteration_workerStep
#print axioms Isotp.PyAgree.Thr.proc_raises_callee
#print axioms Isotp.PyAgree.Thr.worker_loop_raises_callee
#print axioms Isotp.PyAgree.Thr.worker_loop_raises
#print axioms Isotp.PyAgree.Thr.worker_ready_first
#print axioms Isotp.PyAgree.Thr.worker_fn_of_loop_next
#print axioms Isotp.PyAgree.Thr.worker_fn_of_loop_raised
#print axioms Isotp.PyAgree.Thr.worker_loop_sched
#print axioms Isotp.PyAgree.Thr.worker_exits_on_stop
#print axioms Isotp.PyAgree.Thr.worker_runs
#print axioms Isotp.PyAgree.Thr.worker_raises_finally
#print axioms Isotp.PyAgree.Thr.worker_raises_finally_callee
#print axioms Isotp.PyAgree.Thr.worker_loop_raises_after
#print axioms Isotp.PyAgree.Thr.worker_raises_finally_after
#print axioms Isotp.PyAgree.Thr.procStepBeforeFix_ne_workerStep
#print axioms Isotp.PyAgree.Thr.cf_pass_before_fix
#print axioms Isotp.PyAgree.Thr.Quiet.process
#print axioms Isotp.PyAgree.Thr.Rq_coreRel
#print axioms Isotp.PyAgree.Thr.Rq_workerRel
#print axioms Isotp.PyAgree.Thr.spec_of_agree
#print axioms Isotp.PyAgree.Thr.wMeths_spec
#print axioms Isotp.PyAgree.Thr.wMeths_worker
#print axioms Isotp.PyAgree.Thr.raiseMeths_spec
#print axioms Isotp.PyAgree.Thr.raiseMeths_prims
