import Isotp.Proofs.Safe
/-
  C16 (second half) — "Any configuration that is accepted can then send any payload and process any
  traffic without an exception escaping from process() or, other than the documented ValueError,
  from send()."

  "Accepted configuration" = `c.valid = true`, which is what `Params.validate` guarantees about the
  integer-valued parameters (Isotp/Frame.lean; the link from the Python-level `validateParams` to
  `Cfg.valid` is `C16.accepted_params_give_valid_cfg` in Props/C16.lean, not used here).
  The address is any `Addr` (the theorems need nothing about it beyond what holds for every `Half`:
  the address prefix is at most one byte).

  "Any use": any list of `Op` — `send` with any arguments (any declared size, any generator content,
  either target address type), any frame put on the bus with any delay, `process` with any flags,
  clock advance, `recv`, `stop_sending`, `stop_receiving`, `reset` — see `Op` / `Op.step` / `runOps`
  in Isotp/Proofs/Safe.lean.

  In the model an exception escaping from `process()` is `exc ≠ none` (every Python exception site is
  an explicit `State.raise`); `send()` returns its exception as a value.
-/
namespace Isotp.C16
open Isotp State

/-- **An accepted configuration is operable.** Starting from the freshly constructed layer, after any
    sequence of public-method calls and bus traffic no exception has escaped from `process()`
    (`exc = none`), and the layer still satisfies the safety invariant. Since `ops` is arbitrary this
    holds after every step of every run. -/
theorem operable_process (c : Cfg) (a : Addr) (hc : c.valid = true) (ops : List Op) :
    (runOps (State.init c a) ops).exc = none ∧ Safe (runOps (State.init c a) ops) :=
  let h := SafeOk.runOps ops (s := State.init c a) ⟨Safe.init c a hc, rfl⟩
  ⟨h.2, h.1⟩

/-- The same, spelled out for every prefix of the run. -/
theorem operable_process_every_step (c : Cfg) (a : Addr) (hc : c.valid = true) (ops : List Op) (k : Nat) :
    (runOps (State.init c a) (ops.take k)).exc = none :=
  (operable_process c a hc (ops.take k)).1

/-- One step from any safe state (not only reachable ones): every public method keeps the invariant and
    raises nothing through `process()`. -/
theorem operable_step (s : State) (h : Safe s) (he : s.exc = none) (op : Op) :
    Safe (op.step s) ∧ (op.step s).exc = none :=
  SafeOk.step ⟨h, he⟩ op

/-- **`send()` raises only what is documented**: it returns normally, or raises `ValueError` (negative or
    too large size, functional addressing with a payload that does not fit a Single Frame), or — only
    with `blocking_send` — `BlockingSendTimeout`; it never touches the exception flag of `process()`;
    and when it raises `ValueError` nothing was queued. -/
theorem operable_send (s : State) (a : SendArgs) :
    ((s.send a).2 = none ∨ (s.send a).2 = some .ValueError ∨
      ((s.send a).2 = some .BlockingSendTimeout ∧ s.cfg.blocking = true)) ∧
    (s.send a).1.exc = s.exc ∧
    ((s.send a).2 = some .ValueError → (s.send a).1 = s) := by
  refine ⟨?_, Safe.send_exc s a, ?_⟩
  · unfold State.send
    dsimp only
    repeat' split
    all_goals simp_all
  · unfold State.send
    dsimp only
    repeat' split
    all_goals simp_all

/-- `send()` accepts every non-negative size up to 2^32 - 1 with physical addressing: then the only
    possible exception is the blocking-send timeout. -/
theorem operable_send_physical (s : State) (a : SendArgs) (h0 : 0 ≤ a.size) (h1 : a.size ≤ 0xFFFFFFFF)
    (ht : a.tat.getD s.cfg.defaultTat = .physical) :
    (s.send a).2 = if s.cfg.blocking then some .BlockingSendTimeout else none := by
  unfold State.send
  simp only [ht]
  have h0' : ¬ a.size < 0 := by omega
  have h1' : ¬ a.size > 0xFFFFFFFF := by omega
  simp [h0', h1']
  split <;> rfl

/-- Every frame the transmit side builds under an accepted configuration is a legal CAN frame:
    padding (`_pad_message_data`) and the DLC lookup (`_get_dlc`, `_get_nearest_can_fd_size`) succeed
    for every data length from 2 to `tx_data_length`, and the padded frame still fits. -/
theorem operable_make_tx_msg (c : Cfg) (a : Addr) (id : Nat) (d : Bytes) (hc : c.valid = true)
    (h2 : 2 ≤ d.length) (hle : d.length ≤ c.txDl) :
    ∃ m, makeTxMsg c a id d = some m ∧ 2 ≤ m.data.length ∧ m.data.length ≤ c.txDl ∧
      d.length ≤ m.data.length :=
  Safe.makeTxMsg_ok c a id d hc h2 hle

/-- A Flow Control frame can always be built. -/
theorem operable_flow_control (c : Cfg) (a : Addr) (st : Nat) (hc : c.valid = true) :
    makeFlowControl c a st ≠ none :=
  Safe.makeFlowControl_ne_none c a st hc

/-- The inner transmit loop of `process()` stops by itself: with the fuel `process` gives it
    (`txFuel`: remaining bytes + 2 per request + 4) the model's out-of-fuel flag is never returned,
    i.e. the `while` loop of the code terminates for every accepted configuration. -/
theorem operable_tx_loop_terminates (s : State) (n : Nat) (hc : s.cfg.valid = true) :
    (txLoop s.txFuel s n).2.2.2 = false :=
  txLoop_txFuel s n hc

/-! ## Non-vacuity -/

def exHalf : Half :=
  { mode := .e29, txid := some 0x18DA1020, rxid := some 0x18DA2010, ta := some 0x55, sa := some 0xAA, ae := none,
    physId := 0, funcId := 0, rxOnly := false, txOnly := false }
def exAddr : Addr := ⟨exHalf, exHalf⟩
/-- CAN FD, 64-byte frames, padding, a minimum length, rate limiter on -/
def exCfg : Cfg :=
  { txDl := 64, txPadding := some 0xAA, txMinLen := some 12, canFd := true, rlEnable := true, blocksize := 2,
    stmin := 5 }
/-- remote Flow Control (extended addressing: first byte is the source address) -/
def exFc : CanMsg := { id := 0x18DA2010, ext := true, data := [0xAA, 0x30, 0x00, 0x00] }
def exOps : List Op :=
  [.send { id := 1, size := 200, src := List.replicate 200 7 },
   .process true true, .frame 1000 exFc, .process true true, .advance 1000000, .process true true,
   .send { id := 2, size := 3, src := [1, 2] },            -- generator too short: BadGeneratorError, no raise
   .send { id := 3, size := -1, src := [] },               -- ValueError from send
   .process true true, .stopSending, .recv, .reset, .process false true]

example : exCfg.valid = true := by decide
example : ({} : Cfg).valid = true := by decide
example : (runOps (State.init exCfg exAddr) exOps).exc = none := (operable_process _ _ (by decide) _).1
/-- the run is not trivial: frames were actually transmitted (a First Frame and Consecutive Frames) -/
example : ((runOps (State.init exCfg exAddr) (exOps.take 6)).log.filter
    (fun e => match e with | .tx _ _ => true | _ => false)).length = 4 := by decide
example : ((State.init exCfg exAddr).send { id := 3, size := -1, src := [] }).2 = some .ValueError := by decide
example : ((State.init { exCfg with blocking := true } exAddr).send { id := 3, size := 5, src := [] }).2 =
    some .BlockingSendTimeout := by decide
/-- the hypothesis `c.valid` is needed: with an unvalidated `tx_data_min_length` (70) a plain use raises
    `ValueError` out of `process()` -/
example : ({ txMinLen := some 70 } : Cfg).valid = false ∧
    (runOps (State.init { txMinLen := some 70 } exAddr)
      [.send { id := 1, size := 2, src := [1, 2] }, .process true true]).exc = some .ValueError := by decide

end Isotp.C16

#print axioms Isotp.C16.operable_process
#print axioms Isotp.C16.operable_process_every_step
#print axioms Isotp.C16.operable_step
#print axioms Isotp.C16.operable_send
#print axioms Isotp.C16.operable_send_physical
#print axioms Isotp.C16.operable_make_tx_msg
#print axioms Isotp.C16.operable_flow_control
#print axioms Isotp.C16.operable_tx_loop_terminates
