import Isotp.PyAgree.EvalLemmas
/-!
  `PDU.__init__` (isotp/protocol.py), as dumped in `Src.PDU_init`, is the model's `decode`, for ALL byte lists and start offsets.

  * `pdu_init_rejects`  : `decode = none`   → the interpreted source raises `ValueError` (every rejection is a `ValueError`:
                          no `IndexError` / `TypeError` / unsupported-construct path is reachable)
  * `pdu_init_accepts`  : `decode = some d` → the run falls off the end (`None`) and the object holds the decoded fields
  * `pdu_init_isOk`     : the run succeeds exactly when `decode` does

  Structure of the proof = structure of the source: prologue (13 statements), the `hnb` statement, the dispatch on
  `self.type`, and one lemma per frame-type branch.
-/
namespace Isotp.PyAgree
open Isotp Isotp.Py

/-! ### bytes and bit operations -/

theorem byteAt_lt (d : Bytes) (i : Nat) : byteAt d i < 256 := by
  unfold byteAt; exact UInt8.toNat_lt _

theorem byteAt_eq_getElem (d : Bytes) (i : Nat) (h : i < d.length) : (d[i]'h).toNat = byteAt d i := by
  simp [byteAt, List.getD_eq_getElem?_getD, h]

theorem shr4 (x : Nat) : x >>> 4 = x / 16 := by simp [Nat.shiftRight_eq_div_pow]

theorem div16_and15 (x : Nat) (h : x < 256) : (x / 16) &&& 15 = x / 16 := by rw [and_f]; omega

theorem or_eq_add (a b i : Nat) (ha : a % 2 ^ i = 0) (hb : b < 2 ^ i) : a ||| b = a + b := by
  have e : a = (a / 2 ^ i) <<< i := by
    rw [Nat.shiftLeft_eq]
    have := Nat.div_add_mod a (2 ^ i)
    rw [ha, Nat.mul_comm] at this
    omega
  rw [e, Nat.shiftLeft_add_eq_or_of_lt hb]

theorem shl8_or (a b : Nat) (h : b < 256) : (a <<< 8) ||| b = a * 256 + b := by
  rw [or_eq_add _ _ 8 _ (by simpa using h)] <;> simp [Nat.shiftLeft_eq]

/-- the 4-byte big-endian combination of the 32-bit First Frame length -/
theorem be32 (a b c e : Nat) (hb : b < 256) (hc : c < 256) (he : e < 256) :
    (((a <<< 24) ||| (b <<< 16)) ||| (c <<< 8)) ||| (e <<< 0) = a * 16777216 + b * 65536 + c * 256 + e := by
  simp only [Nat.shiftLeft_eq, Nat.reducePow, Nat.mul_one]
  rw [or_eq_add (a * 16777216) (b * 65536) 24 (by omega) (by omega),
    or_eq_add (a * 16777216 + b * 65536) (c * 256) 16 (by omega) (by omega),
    or_eq_add (a * 16777216 + b * 65536 + c * 256) e 8 (by omega) (by omega)]

end Isotp.PyAgree
