import Isotp.Proofs.Pad
import Isotp.Process
/-
  Helper lemmas for C02 / C17: shape of the reference segmentation, the request as a byte stream,
  equational descriptions of `startTx` / `transmitCf`, the transmit progress invariant and its
  preservation by `processTx` and by the other public operations.
-/
namespace Isotp.Proofs
open Isotp Isotp.Spec

/-! ### shape of `Spec.chunks`, `Spec.cfFrames`, `Spec.segment` -/

theorem chunksAux_getElem? (k : Nat) (hk : 1 ≤ k) (f : Nat) : ∀ (l : Bytes) (i : Nat), l.length ≤ f →
    (chunksAux k f l)[i]? = if i * k < l.length then some ((l.drop (i * k)).take k) else none := by
  induction f with
  | zero =>
    intro l i hl
    have : l.length = 0 := by omega
    simp [chunksAux, this]
  | succ f ih =>
    intro l i hl
    unfold chunksAux
    by_cases he : l.isEmpty = true
    · have : l.length = 0 := by simpa using he
      simp [he, this]
    · have hpos : 0 < l.length := by
        cases l with
        | nil => simp at he
        | cons => simp
      simp only [he, Bool.false_eq_true, if_false]
      cases i with
      | zero => simp [hpos]
      | succ j =>
        rw [List.getElem?_cons_succ, ih (l.drop k) j (by simp; omega)]
        rw [Nat.succ_mul, List.length_drop, List.drop_drop]
        have e : k + j * k = j * k + k := by omega
        rw [e]
        by_cases h : j * k + k < l.length
        · rw [if_pos h, if_pos (by omega)]
        · rw [if_neg h, if_neg (by omega)]

theorem chunks_getElem? (k : Nat) (hk : 1 ≤ k) (l : Bytes) (i : Nat) :
    (chunks k l)[i]? = if i * k < l.length then some ((l.drop (i * k)).take k) else none :=
  chunksAux_getElem? k hk l.length l i (Nat.le_refl _)

theorem cfFrames_getElem? (c : TxCfg) (ds : List Bytes) : ∀ (sn i : Nat),
    (cfFrames c sn ds)[i]? =
      ds[i]?.map (fun d => padFrame c (c.pre ++ [UInt8.ofNat (0x20 + (sn + i) % 16)] ++ d)) := by
  induction ds with
  | nil => intro sn i; simp [cfFrames]
  | cons d ds ih =>
    intro sn i
    cases i with
    | zero => simp [cfFrames]
    | succ j =>
      simp only [cfFrames, List.getElem?_cons_succ, ih]
      have : sn + 1 + j = sn + (j + 1) := by omega
      rw [this]


/-- a payload of `n` bytes needs a First Frame -/
def NeedsFF (tc : TxCfg) (n : Nat) : Prop := ¬ sfShort tc n ∧ ¬ sfEscape tc n

theorem sfShort_iff (tc : TxCfg) (n : Nat) :
    sfShort tc n ↔ tc.pre.length + 1 + n ≤ 8 ∧ floorLen tc ≤ 8 := by
  unfold sfShort padTarget
  have := leastLegal_spec (max (tc.pre.length + 1 + n) (floorLen tc))
  omega

theorem ffRoom_lt (tc : TxCfg) (n : Nat) (h : NeedsFF tc n) (hv : ValidTx tc) : ffRoom tc n < n := by
  obtain ⟨h1, h2⟩ := h
  have := txDl_fix tc hv
  have := hv.pre
  have h2' : ¬ (tc.pre.length + 2 + n ≤ tc.txDl) := fun hh => h2 ⟨h1, hh⟩
  unfold ffRoom
  split <;> omega

theorem cfRoom_pos (tc : TxCfg) (hv : ValidTx tc) : 1 ≤ cfRoom tc := by
  have := txDl_fix tc hv
  have := hv.pre
  unfold cfRoom; omega

theorem segment_sfShort (tc : TxCfg) (p : Bytes) (h : sfShort tc p.length) :
    segment tc p = [padFrame tc (tc.pre ++ [UInt8.ofNat p.length] ++ p)] := by
  simp [segment, h]

theorem segment_sfEscape (tc : TxCfg) (p : Bytes) (h : sfEscape tc p.length) :
    segment tc p = [padFrame tc (tc.pre ++ [0x00, UInt8.ofNat p.length] ++ p)] := by
  have h1 := h.1
  simp [segment, h, h1]

theorem segment_ff (tc : TxCfg) (p : Bytes) (h : NeedsFF tc p.length) :
    segment tc p = padFrame tc (tc.pre ++ ffHeader p.length ++ p.take (ffRoom tc p.length))
      :: cfFrames tc 1 (chunks (cfRoom tc) (p.drop (ffRoom tc p.length))) := by
  simp [segment, h.1, h.2]

theorem segment_ff_zero (tc : TxCfg) (p : Bytes) (h : NeedsFF tc p.length) :
    (segment tc p)[0]? = some (padFrame tc (tc.pre ++ ffHeader p.length ++ p.take (ffRoom tc p.length))) := by
  rw [segment_ff tc p h]; rfl

theorem carried_succ (tc : TxCfg) (n j : Nat) : carried tc n (j + 1) = min n (ffRoom tc n + j * cfRoom tc) := by
  simp [carried]

/-- the `k`-th frame (k ≥ 1) of a segmented payload is the Consecutive Frame numbered `k mod 16`
    carrying the next `cfRoom` bytes after the `carried k` already sent, if any are left -/
theorem segment_ff_succ (tc : TxCfg) (hv : ValidTx tc) (p : Bytes) (h : NeedsFF tc p.length) (k : Nat) (hk : 1 ≤ k) :
    (segment tc p)[k]? =
      if carried tc p.length k < p.length then
        some (padFrame tc (tc.pre ++ [UInt8.ofNat (0x20 + k % 16)] ++ (p.drop (carried tc p.length k)).take (cfRoom tc)))
      else none := by
  obtain ⟨j, rfl⟩ : ∃ j, k = j + 1 := ⟨k - 1, by omega⟩
  have hlt := ffRoom_lt tc p.length h hv
  rw [segment_ff tc p h, List.getElem?_cons_succ, cfFrames_getElem?, chunks_getElem? _ (cfRoom_pos tc hv),
    carried_succ, List.length_drop, List.drop_drop]
  have e : 1 + j = j + 1 := by omega
  by_cases hc : j * cfRoom tc < p.length - ffRoom tc p.length
  · rw [if_pos hc, if_pos (by omega), Nat.min_eq_right (by omega), e]; rfl
  · rw [if_neg hc, if_neg (by omega)]; rfl

theorem carried_step (tc : TxCfg) (n k : Nat) (hk : 1 ≤ k) (hlt : carried tc n k < n) :
    carried tc n (k + 1) = min n (carried tc n k + cfRoom tc) := by
  obtain ⟨j, rfl⟩ : ∃ j, k = j + 1 := ⟨k - 1, by omega⟩
  rw [carried_succ] at hlt ⊢
  rw [carried_succ, Nat.succ_mul]
  omega

/-! ### the request as a byte stream -/

/-- request `r` is streaming payload `p`: declared size `|p|`, `r.consumed` bytes already pulled, and the
    generator still yields (at least) the rest of `p` -/
structure Feeds (r : Req) (p : Bytes) : Prop where
  size : r.size = p.length
  le : r.consumed ≤ r.size
  src : r.src.take (r.size - r.consumed) = p.drop r.consumed
  flag : r.depletedFlag = false

theorem Feeds.src_len {r : Req} {p : Bytes} (h : Feeds r p) : r.size - r.consumed ≤ r.src.length := by
  have h1 := congrArg List.length h.src
  have h2 := h.size
  simp only [List.length_take, List.length_drop] at h1
  omega

theorem consume_ok (r : Req) (n : Nat) (e : Bool) (hle : r.consumed ≤ r.size) (hn : n ≤ r.remaining)
    (hs : n ≤ r.src.length) :
    r.consume n e = ({ r with src := r.src.drop n, consumed := r.consumed + n }, some (r.src.take n)) := by
  simp only [Req.remaining] at hn
  unfold Req.consume
  have hl : (r.src.take n).length = n := by rw [List.length_take]; omega
  simp only [hl]
  rw [if_neg (by omega), if_neg (by omega)]

theorem Feeds.consume {r : Req} {p : Bytes} (h : Feeds r p) (n : Nat) (e : Bool) (hn : n ≤ r.remaining) :
    r.consume n e = ({ r with src := r.src.drop n, consumed := r.consumed + n },
                      some ((p.drop r.consumed).take n)) ∧
    Feeds { r with src := r.src.drop n, consumed := r.consumed + n } p := by
  have hl := h.src_len
  have hle := h.le
  have hn' : n ≤ r.size - r.consumed := by simpa only [Req.remaining] using hn
  constructor
  · rw [consume_ok r n e h.le hn (by omega), ← h.src, List.take_take, Nat.min_eq_left hn']
  · refine ⟨h.size, by simp only; omega, ?_, h.flag⟩
    simp only
    rw [← List.drop_drop, ← h.src, List.drop_take]
    congr 1; omega


open Isotp.State

/-- the pull event logged for an instrumented generator -/
def pullLog (r : Req) (n : Nat) : List Ev := if r.instr && n > 0 then [Ev.pull r.id n] else []

/-- `r` advanced by `n` pulled values -/
def Req.adv (r : Req) (n : Nat) : Req := { r with src := r.src.drop n, consumed := r.consumed + n }

theorem consumeActive_ok (s : State) (r : Req) (n : Nat) (e : Bool) (p : Bytes) (h : Feeds r p)
    (hn : n ≤ r.remaining) :
    s.consumeActive r n e =
      ({ s with active := some (Req.adv r n), log := pullLog r n ++ s.log }, Req.adv r n,
        some ((p.drop r.consumed).take n)) := by
  unfold consumeActive
  rw [(h.consume n e hn).1]
  simp only [Req.adv, pullLog, Nat.add_sub_cancel_left]
  split <;> simp [emit]

/-- `tx_data_min_length > 8` (the `bigMin` flag of `startTx`) -/
def bigMin (c : Cfg) : Bool := match c.txMinLen with | some m => m > 8 | none => false

/-- restates the anonymous `match` inside `startTx` as `bigMin` (the two `match`es compile to different
    auxiliary matchers, so `simp` needs this bridge) -/
theorem startTx_match_bigMin (c : Cfg) :
    State.startTx.match_1 (fun _ => Bool) c.txMinLen (fun m => decide (m > 8)) (fun _ => false) = bigMin c := by
  unfold bigMin; cases c.txMinLen <;> rfl

theorem sizeOnFirst_eq (c : Cfg) (a : Addr) (n : Nat) :
    (decide (n + a.tx.txPrefix.length ≤ 7) && !(bigMin c)) = decide (sfShort (TxCfg.of c a) n) := by
  rw [Bool.eq_iff_iff]
  simp only [bigMin, Bool.and_eq_true, decide_eq_true_eq, Bool.not_eq_true', sfShort_iff, floorLen, TxCfg.of]
  cases c.txMinLen with
  | none =>
    have h8 : ∀ (P : Prop) [Decidable P], (if P then 8 else 0) ≤ 8 := by intro P _; split <;> omega
    simp only [h8, and_true]; omega
  | some m => simp only [decide_eq_false_iff_not]; omega

theorem ite_or {α : Type} (c : Prop) [Decidable c] (a b a' b' : α) (ha : a = a') (hb : b = b') :
    (if c then a else b) = b' ∨ (if c then a else b) = a' := by
  subst ha hb; by_cases h : c <;> simp [h]

theorem ite_or' {α : Type} (c : Prop) [Decidable c] (a b a' b' : α) (ha : a = a') (hb : b = b') :
    (if c then a else b) = a' ∨ (if c then a else b) = b' := by
  subst ha hb; by_cases h : c <;> simp [h]

theorem u8_eq (n : Nat) : u8 n = UInt8.ofNat n := rfl

theorem startTx_sf (s : State) (r : Req) (allowed : Nat) (p : Bytes) (hv : s.cfg.valid = true)
    (hf : Feeds r p) (h0 : r.consumed = 0) (h1 : 1 ≤ p.length)
    (hsf : sfShort (TxCfg.of s.cfg s.addr) p.length ∨ sfEscape (TxCfg.of s.cfg s.addr) p.length) :
    ∃ d0, segment (TxCfg.of s.cfg s.addr) p = [d0] ∧
      (s.startTx r allowed =
          (({ s with active := some (Req.adv r p.length), log := pullLog r p.length ++ s.log } : State).stopSending true,
            some (frameMsg s.cfg s.addr (s.addr.tx.txId r.tat) d0)) ∨
       s.startTx r allowed =
          ({ s with active := some (Req.adv r p.length), log := pullLog r p.length ++ s.log,
                    standby := some (frameMsg s.cfg s.addr (s.addr.tx.txId r.tat) d0), txState := .sfStandby }, none)) := by
  have hvt := valid_of s.cfg s.addr hv
  have hdl := txDl_fix _ hvt
  have hpre := hvt.pre
  have hsz := hf.size
  have hrem : r.size ≤ r.remaining := by simp [Req.remaining, h0]
  have hca := consumeActive_ok s r r.size true p hf hrem
  rw [h0, List.drop_zero, hsz, List.take_length] at hca
  unfold startTx
  simp only [txPrefixLen, Req.remaining, h0, Nat.sub_zero, startTx_match_bigMin, sizeOnFirst_eq, hsz]
  rcases hsf with hs | hs
  · have hs' := (sfShort_iff _ _).mp hs
    simp only [TxCfg.of] at hs' hdl hpre
    simp only [hs, decide_true, if_true]
    rw [if_pos (by omega), hca]
    simp only []
    rw [makeTxMsg_eq _ _ hv _ _ (by simp; omega) (by simp; omega)]
    refine ⟨_, segment_sfShort _ p hs, ?_⟩
    simp only [u8_eq, TxCfg.of]
    apply ite_or <;> rfl
  · have hs1 := hs.1
    have hs2 := hs.2
    simp only [TxCfg.of] at hs2 hdl hpre
    simp only [hs1, decide_false, Bool.false_eq_true, if_false]
    rw [if_pos (by omega), hca]
    simp only []
    rw [makeTxMsg_eq _ _ hv _ _ (by simp; omega) (by simp; omega)]
    refine ⟨_, segment_sfEscape _ p hs, ?_⟩
    simp only [u8_eq, TxCfg.of]
    apply ite_or <;> rfl


theorem ffHeader_eq (n : Nat) (hn : n < 4294967296) :
    (if n ≤ 4095 then [u8 (0x10 + n / 256 % 16), u8 (n % 256)]
      else [0x10, 0x00, u8 (n / 16777216 % 256), u8 (n / 65536 % 256), u8 (n / 256 % 256), u8 (n % 256)])
      = ffHeader n := by
  unfold ffHeader be32
  split
  · have : n / 256 % 16 = n / 256 := by omega
    rw [this]; rfl
  · rfl

theorem startTx_ff (s : State) (r : Req) (allowed : Nat) (p : Bytes) (hv : s.cfg.valid = true)
    (hf : Feeds r p) (h0 : r.consumed = 0) (hn : p.length < 4294967296)
    (hff : NeedsFF (TxCfg.of s.cfg s.addr) p.length) :
    ∃ d0, (segment (TxCfg.of s.cfg s.addr) p)[0]? = some d0 ∧
      (s.startTx r allowed =
          ({ s with active := some (Req.adv r (ffRoom (TxCfg.of s.cfg s.addr) p.length)),
                    log := pullLog r (ffRoom (TxCfg.of s.cfg s.addr) p.length) ++ s.log,
                    txFrameLen := p.length, txSeq := 1, txState := .waitFc,
                    timerFc := { start := some s.now, timeout := s.cfg.tFc } },
            some (frameMsg s.cfg s.addr (s.addr.tx.txId .physical) d0)) ∨
       s.startTx r allowed =
          ({ s with active := some (Req.adv r (ffRoom (TxCfg.of s.cfg s.addr) p.length)),
                    log := pullLog r (ffRoom (TxCfg.of s.cfg s.addr) p.length) ++ s.log,
                    txFrameLen := p.length, txSeq := 1, txState := .ffStandby,
                    standby := some (frameMsg s.cfg s.addr (s.addr.tx.txId .physical) d0) }, none)) := by
  have hvt := valid_of s.cfg s.addr hv
  have hdl := txDl_fix _ hvt
  have hpre := hvt.pre
  have hsz := hf.size
  have hlt := ffRoom_lt _ _ hff hvt
  have hrem : ffRoom (TxCfg.of s.cfg s.addr) p.length ≤ r.remaining := by simp [Req.remaining, h0, hsz]; omega
  have hca := consumeActive_ok { s with txFrameLen := p.length } r _ true p hf hrem
  rw [h0, List.drop_zero] at hca
  obtain ⟨hs1, hs2⟩ := hff
  have hs2' : ¬ (s.addr.tx.txPrefix.length + 2 + p.length ≤ s.cfg.txDl) := fun hh => hs2 ⟨hs1, hh⟩
  unfold startTx
  simp only [txPrefixLen, Req.remaining, h0, Nat.sub_zero, startTx_match_bigMin, sizeOnFirst_eq, hsz]
  simp only [hs1, decide_false, Bool.false_eq_true, if_false]
  rw [if_neg (by omega)]
  have hroom : (if p.length ≤ 4095 then s.cfg.txDl - 2 - s.addr.tx.txPrefix.length
      else s.cfg.txDl - 6 - s.addr.tx.txPrefix.length) = ffRoom (TxCfg.of s.cfg s.addr) p.length := rfl
  simp only [hroom, ffHeader_eq _ hn]
  rw [hca]
  simp only []
  have hffl : (ffHeader p.length).length + ffRoom (TxCfg.of s.cfg s.addr) p.length + s.addr.tx.txPrefix.length
      = s.cfg.txDl := by
    simp only [TxCfg.of] at hdl hpre
    unfold ffHeader ffRoom be32
    simp only [TxCfg.of]
    split <;> simp <;> omega
  have hlen : (s.addr.tx.txPrefix ++ ffHeader p.length ++ p.take (ffRoom (TxCfg.of s.cfg s.addr) p.length)).length
      = s.cfg.txDl := by
    simp only [List.length_append, List.length_take]
    omega
  have hdl8 := hdl.2.1
  simp only [TxCfg.of] at hdl8
  rw [makeTxMsg_eq _ _ hv _ _ (by rw [hlen]; omega) (by rw [hlen]; exact Nat.le_refl _)]
  refine ⟨_, segment_ff_zero _ p ⟨hs1, hs2⟩, ?_⟩
  simp only [startRxFcTimer]
  apply ite_or' <;> rfl


/-- state after a Consecutive Frame carrying `m` fresh bytes of request `r` has been built -/
def cfSent (s : State) (r : Req) (m : Nat) : State :=
  { s with active := some (Req.adv r m), log := pullLog r m ++ s.log, txSeq := (s.txSeq + 1) % 16,
           timerStmin := s.timerStmin.startAt s.now, txBlockCnt := s.txBlockCnt + 1 }

theorem transmitCf_eq (s : State) (allowed : Nat) (p : Bytes) (k : Nat) (r : Req) (rbs : Nat)
    (hv : s.cfg.valid = true) (hact : s.active = some r) (hbs : s.remoteBs = some rbs) (hf : Feeds r p)
    (hk : 1 ≤ k) (hff : NeedsFF (TxCfg.of s.cfg s.addr) p.length)
    (hc : r.consumed = carried (TxCfg.of s.cfg s.addr) p.length k) (hlt : r.consumed < p.length)
    (hseq : s.txSeq = k % 16) :
    ∃ d, (segment (TxCfg.of s.cfg s.addr) p)[k]? = some d ∧
      (s.transmitCf allowed = (s, none, false) ∨
       (carried (TxCfg.of s.cfg s.addr) p.length (k + 1) = p.length ∧
         s.transmitCf allowed =
          ((cfSent s r (min (cfRoom (TxCfg.of s.cfg s.addr)) (p.length - r.consumed))).stopSending true,
           some (frameMsg s.cfg s.addr (s.addr.tx.txId .physical) d), false)) ∨
       (carried (TxCfg.of s.cfg s.addr) p.length (k + 1) < p.length ∧
         s.transmitCf allowed =
          ({ cfSent s r (min (cfRoom (TxCfg.of s.cfg s.addr)) (p.length - r.consumed)) with
              txState := .waitFc, timerFc := { start := some s.now, timeout := s.cfg.tFc } },
           some (frameMsg s.cfg s.addr (s.addr.tx.txId .physical) d), true)) ∨
       (carried (TxCfg.of s.cfg s.addr) p.length (k + 1) < p.length ∧
         s.transmitCf allowed =
          (cfSent s r (min (cfRoom (TxCfg.of s.cfg s.addr)) (p.length - r.consumed)),
           some (frameMsg s.cfg s.addr (s.addr.tx.txId .physical) d), false))) := by
  have hvt := valid_of s.cfg s.addr hv
  have hdl := txDl_fix _ hvt
  have hpre := hvt.pre
  have hsz := hf.size
  have hroom := cfRoom_pos _ hvt
  have hstep := carried_step (TxCfg.of s.cfg s.addr) p.length k hk (by omega)
  rw [segment_ff_succ _ hvt p hff k hk, if_pos (by omega)]
  refine ⟨_, rfl, ?_⟩
  unfold transmitCf
  rw [hbs, hact]
  simp only []
  by_cases hto : s.timerStmin.timedOut s.now = true
  · rw [if_pos hto]
    have hrm : r.remaining = p.length - r.consumed := by simp [Req.remaining, hsz]
    have hroom' : s.cfg.txDl - 1 - s.txPrefixLen = cfRoom (TxCfg.of s.cfg s.addr) := rfl
    simp only [hroom', hrm]
    by_cases hal : min (cfRoom (TxCfg.of s.cfg s.addr)) (p.length - r.consumed) ≤ allowed
    · rw [if_pos hal]
      have hca := consumeActive_ok s r (min (cfRoom (TxCfg.of s.cfg s.addr)) (p.length - r.consumed)) false p hf
        (by rw [hrm]; omega)
      rw [hca]
      simp only []
      generalize hm : min (cfRoom (TxCfg.of s.cfg s.addr)) (p.length - r.consumed) = m at *
      have hpl : ((p.drop r.consumed).take m).length = m := by simp; omega
      have htake : (p.drop r.consumed).take m = (p.drop r.consumed).take (cfRoom (TxCfg.of s.cfg s.addr)) := by
        rw [List.take_eq_take_iff, List.length_drop]; omega
      have hm0 : m > 0 := by omega
      simp only [hpl, if_pos hm0]
      simp only [TxCfg.of] at hdl hpre
      have hcr : cfRoom (TxCfg.of s.cfg s.addr) = s.cfg.txDl - 1 - s.addr.tx.txPrefix.length := rfl
      rw [makeTxMsg_eq _ _ hv _ _ (by simp [hpl]; omega) (by simp [hpl]; omega)]
      simp only [Bool.false_eq_true, if_false]
      have hdata : s.addr.tx.txPrefix ++ [u8 (32 + s.txSeq)] ++ List.take m (List.drop r.consumed p) =
          (TxCfg.of s.cfg s.addr).pre ++ [UInt8.ofNat (32 + k % 16)] ++
            List.take (cfRoom (TxCfg.of s.cfg s.addr)) (List.drop (carried (TxCfg.of s.cfg s.addr) p.length k) p) := by
        rw [hseq, htake, hc]; rfl
      rw [hdata]
      have hflag := hf.flag
      have hdep : (Req.adv r m).depleted = decide (p.length ≤ r.consumed + m) := by
        simp [Req.depleted, Req.adv, hflag, hsz]
      have hrem' : (Req.adv r m).remaining = p.length - (r.consumed + m) := by
        simp [Req.remaining, Req.adv, hsz]
      rw [hdep, hrem']
      by_cases hfin : p.length ≤ r.consumed + m
      · right; left
        refine ⟨by omega, ?_⟩
        simp only [hfin, decide_true, if_true]
        rw [if_neg (by omega)]
        rfl
      · right; right
        simp only [hfin, decide_false, Bool.false_eq_true, if_false]
        by_cases hb : (decide (rbs ≠ 0) && decide (s.txBlockCnt + 1 ≥ rbs)) = true
        · left
          refine ⟨by omega, ?_⟩
          rw [if_pos hb]; rfl
        · right
          refine ⟨by omega, ?_⟩
          rw [if_neg hb]; rfl
    · rw [if_neg hal]; left; rfl
  · rw [if_neg hto]; left; rfl

end Isotp.Proofs
