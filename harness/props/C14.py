"""C14 - start/stop lifecycle is clean, bounded and restartable (real threads)."""
import sys
import time
import threading
import queue
import random
import gen
import ref
from props.base import PropBase

OPS = ['start', 'stop', 'send_sf', 'send_mf', 'recv', 'stop_sending', 'stop_receiving', 'process', 'reset', 'sleep']


def run_lifecycle(sc):
    import core
    import isotp
    core.time.perf_counter_ns = core.REAL_PERF_NS
    core.time.perf_counter = core.REAL_PERF
    sys.setswitchinterval(1e-5)
    a, b = sc['addrs']
    kind = sc['kind']
    read_timeout = sc['read_timeout']
    qa, qb = queue.Queue(), queue.Queue()      # frames to A / to B
    errors = []
    cleanup = []
    base_threads = set(threading.enumerate())

    def rx_a(timeout):
        try:
            return qa.get(timeout=timeout) if timeout and timeout > 0 else qa.get_nowait()
        except queue.Empty:
            return None

    def rx_b(timeout):
        try:
            return qb.get(timeout=timeout) if timeout and timeout > 0 else qb.get_nowait()
        except queue.Empty:
            return None
    params = {'blocksize': sc['bs'], 'stmin': sc['stmin']}
    params.update(sc.get('params_extra') or {})
    peer = None
    peer_params = dict(sc.get('peer_params') or {'blocksize': 4})
    # frames the harness itself puts on the bus towards A (a First Frame longer than max_frame_size, a stray Flow Control)
    inj = {'inject_toolong': gen.rx_match_frame(a, bytes([0x10, 0x00, 0x00, 0x00, 0x20, 0x00, 0xAA, 0xBB])),
           'inject_fc': gen.rx_match_frame(a, bytes([0x30, 0x00, 0x00])),
           'inject_ff': gen.rx_match_frame(a, bytes([0x10, 20, 1, 2, 3, 4, 5, 6]))}
    mf_ok = []
    rx_after = []       # is_rx_active() right after each stop_receiving() that returned normally on a started layer
    if kind == 'tl':
        rxfn_a = rx_a
        if sc.get('legacy'):
            def rxfn_a():       # v1.x style rxfn: no timeout parameter, never blocks
                return rx_a(0)
        L = isotp.TransportLayer(rxfn_a, lambda m: qb.put(m), core.make_address(a), lambda e: errors.append(type(e).__name__), params,
                                 read_timeout=read_timeout)
        if sc.get('idle_sleep') is not None:
            # the user's own polling periods: must not stretch the time the reading thread needs to notice a stop request
            L.set_sleep_timing(idle=sc['idle_sleep'], wait_fc=0.005)
        if sc['peer']:
            peer = isotp.TransportLayer(rx_b, lambda m: qa.put(m), core.make_address(b), None, peer_params, read_timeout=0.02)
    else:
        import can
        chan = 'lc_%d_%d' % (sc['seed'], threading.get_ident())
        bus1 = can.interface.Bus(chan, interface='virtual')
        bus2 = can.interface.Bus(chan, interface='virtual')
        notifier = can.Notifier(bus1, [], timeout=0.02)
        cleanup = [notifier, bus1, bus2]
        base_threads = set(threading.enumerate())
        L = isotp.NotifierBasedCanStack(bus1, notifier, address=core.make_address(a), error_handler=lambda e: errors.append(type(e).__name__),
                                        params=params, read_timeout=read_timeout)
        if sc['peer']:
            peer = isotp.CanStack(bus2, address=core.make_address(b), params=peer_params, read_timeout=0.02)
    if sc.get('slow_put'):
        # the thread that posts into the relay queue is descheduled right after each put (a schedule the OS is free to choose)
        _put = L.rx_relay_queue.put

        def slow_put(item, *a, **k):
            _put(item, *a, **k)
            time.sleep(sc['slow_put'])
        L.rx_relay_queue.put = slow_put
    if peer is not None:
        peer.start()
    base_threads = set(threading.enumerate())
    toks = ['tl', 'new'] + core.all_addr_tokens(a) + core.cfg_tokens(L)
    lines_in = [' '.join(toks)]
    lines_out = ['ok|started=0 clean=1']
    info = []

    def is_clean():
        extra = [t for t in threading.enumerate() if t not in base_threads and t.is_alive()]
        if kind != 'tl' and len(notifier.listeners) != 0:
            return False        # a stopped stack must not leave a reader registered on the user's notifier (it would keep buffering frames)
        return (not L.started and L.main_thread is None and getattr(L, 'relay_thread', 'unset') is None and L.rx_relay_queue.empty()
                and not L.is_rx_active() and not L.transmitting() and not L.available() and L.active_send_request is None and not extra
                # idle also means: no Flow Control still owed to the bus, none still held for a transmission that is gone
                and not L.pending_flow_control_tx and L.last_flow_control_frame is None)

    for op in sc['ops_list']:
        t0 = time.time()
        exc = None
        try:
            if op == 'start':
                L.start()
            elif op == 'stop':
                L.stop()
            elif op == 'send_sf':
                L.send(bytes([1, 2, 3]))
            elif op == 'send_mf':
                L.send(bytes([7] * 20))
            elif op == 'recv':
                L.recv()
            elif op == 'stop_sending':
                L.stop_sending()
            elif op == 'stop_receiving':
                was_started = L.started
                L.stop_receiving()
                if was_started:
                    rx_after.append(bool(L.is_rx_active()))
            elif op == 'process':
                L.process()
            elif op == 'process_rx':
                L.process(do_tx=False)
            elif op == 'process_tx':
                L.process(do_rx=False)
            elif op == 'send_long':
                L.send(bytes([9] * 400))
            elif op == 'inject_mf':
                # a well-formed 20-byte segmented message from the bus, frames 80 ms apart (the worker leaves process() in between): a started layer must deliver it
                was_started = L.started
                while was_started and L.recv() is not None:
                    pass
                body = bytes(range(50, 70))
                for part in (bytes([0x10, 20]) + body[:6], bytes([0x21]) + body[6:13], bytes([0x22]) + body[13:20]):
                    fid, ext, data = gen.rx_match_frame(a, part)
                    if kind == 'tl':
                        qa.put(isotp.CanMessage(arbitration_id=fid, data=data, extended_id=ext))
                    else:
                        bus2.send(can.Message(arbitration_id=fid, data=data, is_extended_id=ext))
                    time.sleep(0.08)
                if was_started:
                    got = L.recv(block=True, timeout=1.0)
                    mf_ok.append(got is not None and bytes(got) == body)
            elif op in inj:
                fid, ext, data = inj[op]
                msg = isotp.CanMessage(arbitration_id=fid, data=data, extended_id=ext)
                if kind == 'tl':
                    qa.put(msg)
                else:
                    bus2.send(can.Message(arbitration_id=fid, data=data, is_extended_id=ext))
            elif op == 'reset':
                L.reset()
            elif op == 'sleep':
                time.sleep(0.01)
        except Exception as e:
            exc = type(e).__name__
        dur = time.time() - t0
        clean = '?'
        if op == 'stop':
            time.sleep(0.005)
            clean = '1' if is_clean() else '0'
        info.append((op, exc, dur, clean))
        if op in inj:
            lines_in.append('tl bus %d %d %s' % (inj[op][0], 1 if inj[op][1] else 0, inj[op][2].hex()))
        elif op == 'inject_mf':
            out_l = '%s|started=%d clean=%s' % ('ok' if exc is None else 'exc ' + exc, 1 if L.started else 0, clean)
            body = bytes(range(50, 70))
            for part in (bytes([0x10, 20]) + body[:6], bytes([0x21]) + body[6:13]):
                fid, ext, data = gen.rx_match_frame(a, part)
                lines_in.append('tl bus %d %d %s' % (fid, 1 if ext else 0, data.hex()))
                lines_out.append(out_l)
            fid, ext, data = gen.rx_match_frame(a, bytes([0x22]) + body[13:20])
            lines_in.append('tl bus %d %d %s' % (fid, 1 if ext else 0, data.hex()))
        else:
            lines_in.append('tl %s' % ('send_mf' if op == 'send_long' else op))
        lines_out.append('%s|started=%d clean=%s' % ('ok' if exc is None else 'exc ' + exc, 1 if L.started else 0, clean))
    # restart check: a stopped-and-restarted layer transfers payloads (peer present)
    restart_ok = None
    try:
        L.stop()
    except Exception as e:
        info.append(('final-stop', type(e).__name__, 0, '?'))
    if peer is not None:
        try:
            while True:
                if peer.recv() is None:
                    break
            L.start()
            payload = bytes(range(30))
            L.send(payload)
            restart_ok = False
            t_end = time.time() + 5
            while time.time() < t_end:
                got = peer.recv(block=True, timeout=0.2)
                if got is not None and bytes(got) == payload:     # earlier payloads of the sequence may still trickle in
                    restart_ok = True
                    break
            if restart_ok:
                # ... and in the other direction: the restarted layer RECEIVES a segmented payload (nothing asked for by an earlier
                # stop_sending() / stop_receiving() / reset() may still be acted upon)
                restart_ok = False
                while L.recv() is not None:
                    pass
                payload2 = bytes(range(100, 141))
                peer.send(payload2)
                t_end = time.time() + 5
                while time.time() < t_end:
                    got = L.recv(block=True, timeout=0.2)
                    if got is not None and bytes(got) == payload2:
                        restart_ok = True
                        break
            L.stop()
        except Exception as e:
            restart_ok = False
            info.append(('restart', type(e).__name__, 0, '?'))
        peer.stop()
    for c in cleanup:
        try:
            c.stop() if hasattr(c, 'add_listener') else c.shutdown()
        except Exception:
            pass
    leftover = [t.name for t in threading.enumerate() if t not in base_threads and t.is_alive() and 'Notifier' not in t.name]
    sc['_result'] = {'mf_ok': mf_ok, 'rx_after_stop_receiving': rx_after, 'info': info, 'restart_ok': restart_ok, 'leftover': leftover, 'errors': errors}
    return lines_in, lines_out


class C14(PropBase):
    id = 'C14'
    lean_modules = ['Isotp.Props.C14']
    theorems = []
    keep_ops = ()
    rule = ('operation sequences over {start, stop, send(single), send(multi), recv, stop_sending, stop_receiving, process, reset, sleep}: every '
            'sequence of length <= 2 plus random ones up to length 8 (also with receive-only / transmit-only process() passes and frames arriving from '
            'the bus in between: an over-long First Frame, a stray Flow Control), stop() in the middle of a long transmission paced at 50-100 ms per '
            'frame, legacy rxfn without timeout parameter and user sleep timings above the join timeout, on real TransportLayer and NotifierBasedCanStack objects with real threads, '
            'peer present / absent, read_timeout varied; observables: exception classes, started flag, threads alive / layer idle / queues empty '
            'after stop(), duration of stop(), transfer after restart; distinct = (class, peer?, op sequence)')
    assumptions = ['a thread asked to stop is observed dead within the join timeout (H-join)', 'real schedules are sampled',
                   'one worker iteration lasts < 1 s (receiver-requested STmin <= 127 ms, no large override_receiver_stmin)']
    quick_per_shard = 6
    thorough_per_shard = 150
    _enum = [[a] for a in OPS] + [[a, b] for a in OPS for b in OPS]

    def scenario(self, rng, tier):
        if rng.random() < 0.5:
            ops = list(rng.choice(C14._enum))
        else:
            ops = [rng.choice(OPS[:9]) for _ in range(rng.randrange(3, 9))]
        a, b = gen.rand_addr_pair(rng, asym_prob=0.05)
        sc = {'ops': [], 'ops_list': ops, 'addrs': (a, b), 'kind': rng.choice(['tl', 'tl', 'notifier']), 'peer': rng.random() < 0.6,
              'read_timeout': rng.choice([0.005, 0.05, 0.3]), 'bs': rng.choice([0, 2, 8]), 'stmin': rng.choice([0, 0, 2]), 'seed': rng.randrange(1 << 30)}
        if sc['kind'] == 'tl' and rng.random() < 0.4:
            sc['legacy'] = rng.random() < 0.7
            sc['idle_sleep'] = rng.choice([0.001, 0.2, 1.6, 3.0])
        r = rng.random()
        if r < 0.15:
            # stop() in the middle of a long, slowly paced transmission (the peer asks for 50 ms between frames): about 3 s of frames left
            sc['peer'] = True
            sc['peer_params'] = {'blocksize': rng.choice([0, 0, 20]), 'stmin': rng.choice([50, 100])}
            sc['ops_list'] = ['start', 'send_long'] + ['sleep'] * rng.randrange(3, 14) + ['stop'] + rng.choice([[], ['start', 'sleep', 'stop']])
        elif r < 0.35:
            # a layer driven by hand with partial passes, frames arriving from the bus, then the lifecycle calls
            pool = OPS[:9] + ['process_rx', 'process_rx', 'process_tx', 'inject_toolong', 'inject_fc', 'inject_toolong', 'send_mf']
            sc['ops_list'] = [rng.choice(pool) for _ in range(rng.randrange(3, 9))]
        return sc

    def enumerate(self, tier):
        """EVERY operation sequence of length <= 2 (<= 3 in the thorough tier) on both classes, plus every sequence start,start,x,stop"""
        import itertools
        a = {'mode': 0, 'txid': 0x123, 'rxid': 0x456}
        b = {'mode': 0, 'txid': 0x456, 'rxid': 0x123}
        seqs = [list(s) for n in ((1, 2) if tier == 'quick' else (1, 2, 3)) for s in itertools.product(OPS[:9], repeat=n)]
        seqs += [['start', 'start', x, 'stop'] for x in OPS[:9]] + [['start', 'stop', 'start', x, 'stop'] for x in OPS[:9]]
        k = 0
        for kind in ('tl', 'notifier'):
            for ops in seqs:
                k += 1
                yield {'ops': [], 'ops_list': list(ops), 'addrs': (a, b), 'kind': kind, 'peer': kind == 'notifier' and len(ops) >= 4,
                       'read_timeout': 0.05, 'bs': 2, 'stmin': 0, 'seed': 1000 + k}
        # every way a receive-only / transmit-only pass can leave Flow Control state behind, followed by stop() [and a restart]
        for kind in ('tl', 'notifier'):
            for pre in (['inject_toolong'], ['inject_fc'], ['send_mf', 'process', 'inject_fc'], ['send_mf', 'process_tx', 'inject_fc']):
                for mid in (['process_rx'], ['process_rx', 'process_rx'], ['process_rx', 'process_tx'], ['process_tx', 'process_rx']):
                    for post in (['stop'], ['stop', 'process'], ['stop', 'start', 'sleep', 'stop'], ['reset', 'stop']):
                        k += 1
                        yield {'ops': [], 'ops_list': pre + mid + post, 'addrs': (a, b), 'kind': kind, 'peer': False, 'read_timeout': 0.05, 'bs': 2,
                               'stmin': 0, 'seed': 1000 + k}
        # stop() in the middle of a long paced transmission
        for nsleep in (4, 9):
            for bs in (0, 20):
                k += 1
                yield {'ops': [], 'ops_list': ['start', 'send_long'] + ['sleep'] * nsleep + ['stop', 'start', 'sleep', 'stop'], 'addrs': (a, b),
                       'kind': 'tl', 'peer': True, 'peer_params': {'blocksize': bs, 'stmin': 50}, 'read_timeout': 0.05, 'bs': 2, 'stmin': 0,
                       'seed': 1000 + k}
        # legacy rxfn (no timeout parameter) / user polling periods far above the join timeout of stop()
        for legacy in (True, False):
            for idle in (1.6, 3.0):
                for ops in (['start', 'sleep', 'stop'], ['start', 'send_sf', 'sleep', 'stop'], ['start', 'stop', 'start', 'sleep', 'stop']):
                    k += 1
                    yield {'ops': [], 'ops_list': list(ops), 'addrs': (a, b), 'kind': 'tl', 'peer': False, 'read_timeout': 0.05, 'bs': 2,
                           'stmin': 0, 'seed': 1000 + k, 'legacy': legacy, 'idle_sleep': idle}

        # a reading thread that really blocks for a read_timeout above the 1 s floor of stop()'s join: stop() has to wait for it
        for ops in (['start', 'sleep', 'stop'], ['start', 'send_sf', 'sleep', 'stop', 'start', 'sleep', 'stop']):
            for slow in (0, 0.1):
                k += 1
                yield {'ops': [], 'ops_list': list(ops), 'addrs': (a, b), 'kind': 'tl', 'peer': False, 'read_timeout': 1.6, 'bs': 2, 'stmin': 0,
                       'seed': 1000 + k, 'slow_put': slow}
        # a reception in progress, a reading / worker thread that blocks for longer than the 1 s stop_receiving() waits for its acknowledgement
        for rt in (1.6, 0.05):
            for ops in (['start', 'inject_ff', 'sleep', 'sleep', 'stop_receiving', 'stop'], ['start', 'inject_ff', 'sleep', 'sleep', 'stop_receiving', 'sleep', 'stop_receiving', 'stop']):
                k += 1
                yield {'ops': [], 'ops_list': list(ops), 'addrs': (a, b), 'kind': 'tl', 'peer': False, 'read_timeout': rt, 'bs': 2, 'stmin': 0,
                       'seed': 1000 + k}
        # what a lifecycle call asked for is acted upon ONCE: the layer receives normally afterwards, in the same session and after a restart
        for kind in ('tl', 'notifier'):
            for pre in (['stop_receiving'], ['stop_sending'], ['stop_receiving', 'stop_sending'], ['inject_ff', 'sleep', 'stop_receiving']):
                for post in ([], ['stop', 'start', 'sleep', 'inject_mf']):
                    k += 1
                    yield {'ops': [], 'ops_list': ['start'] + pre + ['sleep', 'inject_mf'] + post + ['stop'], 'addrs': (a, b), 'kind': kind,
                           'peer': False, 'read_timeout': 0.05, 'bs': 2, 'stmin': 0, 'seed': 1000 + k}
        # rate limiter with a long window: what was sent before a stop() / reset() must not count against the restarted layer
        # (402 bits per 3 s window: one 20-byte message = 192 bits, the 30-byte message of the restart check = 320 bits)
        for ops in (['start', 'send_mf', 'sleep', 'sleep', 'sleep', 'stop'], ['start', 'send_mf', 'sleep', 'sleep', 'sleep', 'stop', 'start', 'sleep', 'stop'],
                    ['send_mf', 'process', 'sleep', 'process', 'sleep', 'process', 'reset']):
            k += 1
            yield {'ops': [], 'ops_list': list(ops), 'addrs': (a, b), 'kind': 'tl', 'peer': True, 'read_timeout': 0.05, 'bs': 0, 'stmin': 0,
                   'seed': 1000 + k, 'params_extra': {'rate_limit_enable': True, 'rate_limit_max_bitrate': 134, 'rate_limit_window_size': 3.0}}

    def run_impl(self, sc):
        return run_lifecycle(sc)

    def judge(self, sc, lines_in, impl_out):
        res = sc.get('_result')
        out = []
        started = False
        for (op, exc, dur, clean) in res['info']:
            if op == 'start':
                if started and exc != 'RuntimeError':
                    out.append(('exceptions', 'second start() gave %s instead of RuntimeError' % exc))
                if not started and exc is not None:
                    out.append(('exceptions', 'start() raised %s' % exc))
                if exc is None:
                    started = True
            elif op in ('process', 'reset', 'process_rx', 'process_tx'):
                if started and exc != 'RuntimeError':
                    out.append(('exceptions', '%s() while started gave %s instead of RuntimeError' % (op, exc)))
                if not started and exc is not None:
                    out.append(('exceptions', '%s() raised %s' % (op, exc)))
            elif op == 'stop':
                if exc is not None:
                    out.append(('exceptions', 'stop() raised %s (started=%s)' % (exc, started)))
                else:
                    if clean != '1':
                        out.append(('stop_clean', 'after stop(): worker threads alive or layer not idle / queues not empty'))
                    bound = 1.0 + max(sc['read_timeout'] + 0.5, 1.0) + 0.5
                    if dur > bound:
                        out.append(('stop_bounded', 'stop() took %.2f s (bound %.2f s)' % (dur, bound)))
                started = False
            elif op in ('final-stop', 'restart'):
                out.append(('exceptions', '%s raised %s' % (op, exc)))
            elif exc is not None:
                out.append(('exceptions', '%s() raised %s' % (op, exc)))
        if not all(res.get('mf_ok') or []):
            out.append(('receives', 'a started layer did not deliver a well-formed segmented message from the bus (frames 80 ms apart)'))
        if any(res.get('rx_after_stop_receiving') or []):
            out.append(('stop_receiving', 'stop_receiving() returned normally on a started layer but the reception is still in progress'))
        if res['restart_ok'] is False:
            out.append(('restart', 'a stopped layer that was started again did not transfer a payload'))
        if res['leftover']:
            out.append(('stop_clean', 'threads left alive at the end: %s' % res['leftover']))
        return out[:4]

    def project(self, op_line, out_line):
        return out_line

    def nontrivial_key(self, sc, lines_in, impl_out):
        return (sc['kind'], sc['peer'], tuple(sc['ops_list']), sc.get('legacy'), sc.get('idle_sleep'))

    def tally(self, dist, sc, lines_in, impl_out):
        for op in sc['ops_list']:
            dist['op:' + op] = dist.get('op:' + op, 0) + 1
        dist['kind:' + sc['kind']] = dist.get('kind:' + sc['kind'], 0) + 1
        if sc.get('idle_sleep') is not None:
            k = 'user_sleep_timing:%s:%s' % ('legacy_rxfn' if sc.get('legacy') else 'blocking_rxfn', sc['idle_sleep'])
            dist[k] = dist.get(k, 0) + 1


PROP = C14()
