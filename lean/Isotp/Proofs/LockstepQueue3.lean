import Isotp.Proofs.LockstepQueue2
/-
  C01, liveness half for any number of queued messages, part 3: the lockstep invariant with a queue, one round at a
  time.

  * `QSetting` : the hypotheses that do not depend on the payload (`Scenario` without `h32`, `hmax`).
  * `QIdle del l q` : both layers idle, links empty, `del` in B's rx queue, the requests of `l` in A's tx queue.
    `QLock del rest id p a q` : the transfer of `(id, p)` is in abstract state `a` (`W k` / `T k j` of `Lockstep.Abs`),
    `del` delivered before, the requests of `rest` still queued.
    `QAfter del l q` : the state right after a round in which the chain over `l` was started: every leading Single
    Frame message of `l` is already delivered, the first segmented one is in state `W 1` (recursive in `l`).
  * `sim_startQ` : a round from `QIdle del l` (`l ≠ []`) ends in `QAfter del l`.
    `sim_WQ`, `sim_TQ` : a round from `QLock … a` ends in `QLock … (absStep a)`, or — when the abstract step completes
    the message — in `QAfter (del ++ [p]) rest`: the next messages are started IN THE SAME ROUND.
    `sim_idleQ` : a round from `QIdle del []` changes nothing.
    Each with the events of the round: no error event, and exactly which requests were completed.
-/
namespace Isotp.LockstepQ
open Isotp Isotp.State Isotp.Spec Isotp.Proofs Isotp.Lockstep

/-! ## `complete(ok)` notifications of an event list (oldest first) -/

def doneEvs (evs : List Ev) : List (Nat × Bool) :=
  evs.filterMap fun e => match e with | .done i b => some (i, b) | _ => none

theorem doneEvs_reverse (lg : List Ev) : doneEvs lg.reverse = donesOf lg := rfl

theorem doneEvs_append (a b : List Ev) : doneEvs (a ++ b) = doneEvs a ++ doneEvs b := by
  simp [doneEvs, List.filterMap_append]

theorem doneEvs_nil : doneEvs [] = [] := rfl

section sim
variable (ca cb : Cfg) (aa ab : Addr) (dt : Nat)

/-- The hypotheses of the queue theorems that do not depend on the payloads: as `Lockstep.Scenario`. -/
structure QSetting : Prop where
  va      : ca.valid = true
  vb      : cb.valid = true
  listenB : cb.listen = false
  wfA     : aa.tx.txWf = true
  wfB     : ab.tx.txWf = true
  mirAB   : ab.rx = Spec.mirror aa.tx
  mirBA   : aa.rx = Spec.mirror ab.tx
  stmin   : validStmin cb.stmin = true
  sep     : effOf ca cb < dt
  tFc     : dt ≤ ca.tFc
  tCf     : gapOf ca cb dt ≤ cb.tCf

theorem QSetting.scen (hS : QSetting ca cb aa ab dt) (p : Bytes) (h32 : p.length < 4294967296)
    (hmax : p.length ≤ cb.maxFrameSize) : Scenario ca cb aa ab p dt :=
  ⟨hS.va, hS.vb, hS.listenB, hS.wfA, hS.wfB, hS.mirAB, hS.mirBA, hS.stmin, h32, hmax, hS.sep, hS.tFc, hS.tCf⟩

theorem QSetting.of_scen {p : Bytes} (h : Scenario ca cb aa ab p dt) : QSetting ca cb aa ab dt :=
  ⟨h.va, h.vb, h.listenB, h.wfA, h.wfB, h.mirAB, h.mirBA, h.stmin, h.sep, h.tFc, h.tCf⟩

theorem MsgOkB.toA {l : List Msg} (h : MsgOkB cb l) : MsgOkA l := fun m hm => ⟨(h m hm).1, (h m hm).2.1⟩

/-! ## the invariants -/

/-- the sender at the beginning of a round, transfer of `(id, p)` in abstract state `W k` / `T k j`, queue `Q` -/
def LockAQ (id : Nat) (p : Bytes) (Q : List Req) (fcm : CanMsg) (now : Nat) : Abs → AP → Prop
  | .W k, x => 1 ≤ k ∧ x.txState = .waitFc ∧ (∃ tF, x.timerFc = some tF ∧ now ≤ tF + dt) ∧
      x.active = some (reqAt ca id p (carried (TxCfg.of ca aa) p.length k)) ∧
      carried (TxCfg.of ca aa) p.length k < p.length ∧ x.txSeq = k % 16 ∧ x.txQueue = Q ∧
      x.inbox = [(0, fcm)] ∧ SyncW cb.blocksize k
  | .T k j, x => TCondQ ca aa id p cb.blocksize Q x k ∧ x.txBlockCnt = j ∧
      (∃ tS, x.timerStmin = { start := some tS, timeout := effOf ca cb } ∧ tS + effOf ca cb < now) ∧
      x.inbox = [] ∧ SyncT cb.blocksize k j
  | _, _ => False

/-- the receiver at the beginning of a round, `del` delivered before -/
def LockBQ (p : Bytes) (del : List Bytes) (now : Nat) : Abs → BP → Prop
  | .W k, y => ∃ t, SessAtQ ca aa del p y (k - 1) t ∧ now ≤ t + dt ∧ y.inbox = []
  | .T k _, y => ∃ t, SessAtQ ca aa del p y (k - 1) t ∧ now ≤ t + gapOf ca cb dt ∧ y.inbox = []
  | _, _ => False

/-- the transfer of `(id, p)` is in abstract state `a`; `del` delivered before, the requests of `rest` queued -/
def QLock (fcm : CanMsg) (del : List Bytes) (rest : List Msg) (id : Nat) (p : Bytes) (a : Abs) (q : Pair) : Prop :=
  ∃ x y, q.a = mkA ca aa x ∧ q.b = mkB cb ab y ∧ q.ab = [] ∧ q.ba = [] ∧
    LockAQ ca cb aa dt id p (reqsOf ca rest) fcm q.now a x ∧ LockBQ ca cb aa dt p del q.now a y

/-- both layers idle, links and inboxes empty; `del` delivered, the requests of `l` queued -/
def QIdle (del : List Bytes) (l : List Msg) (q : Pair) : Prop :=
  ∃ x y, q.a = mkA ca aa x ∧ q.b = mkB cb ab y ∧ q.ab = [] ∧ q.ba = [] ∧
    IdleA (reqsOf ca l) x ∧ x.inbox = [] ∧ IdleB del y ∧ y.inbox = []

/-- the state after a round in which the chain over `l` was started -/
def QAfter (fcm : CanMsg) : List Bytes → List Msg → Pair → Prop
  | del, [], q => QIdle ca cb aa ab del [] q
  | del, m :: rest, q =>
    if NeedsFF (TxCfg.of ca aa) m.2.length then QLock ca cb aa ab dt fcm del rest m.1 m.2 (.W 1) q
    else QAfter fcm (del ++ [m.2]) rest q

/-- what a round reports: no error event on either side, the requests completed in it, the clock -/
def RoundOkQ (q : Pair) (ds : List (Nat × Bool)) : Prop :=
  NoErr (q.round dt).2.1 ∧ NoErr (q.round dt).2.2 ∧ doneEvs (q.round dt).2.1 = ds ∧
  (q.round dt).1.now = q.now + dt

theorem ChainPostA_relog : ∀ (l : List Msg) (x : AP) (lg : List Ev), ChainPostA ca aa l x →
    ChainPostA ca aa l { x with log := lg } := by
  intro l
  induction l with
  | nil => intro x lg h; exact ⟨h.st, h.txq, h.lf, h.tf, h.act⟩
  | cons m rest ih =>
    intro x lg h
    by_cases hff : NeedsFF (TxCfg.of ca aa) m.2.length
    · simp only [ChainPostA, hff, if_true] at h ⊢
      exact ⟨h.st, h.tf, h.act, h.more, h.seq, h.txq, h.lf⟩
    · simp only [ChainPostA, hff, if_false] at h ⊢
      exact ih x lg h

/-- the network after a round in which A ended its pass as the chain over `l` says and B received that chain -/
theorem after_assemble (fcm : CanMsg) (now e1 e2 : Nat) : ∀ (l : List Msg) (del : List Bytes) (xa : AP) (yb : BP),
    ChainPostA ca aa l xa → ChainPostB ca aa fcm now [] del l yb → xa.inbox = [] → yb.inbox = [] → xa.now = now →
    QAfter ca cb aa ab dt fcm del l
      { a := mkA ca aa { xa with log := [], inbox := xa.inbox ++ toInbox (txsOf yb.log) },
        b := mkB cb ab { yb with log := [] }, ab := [], ba := [], now := now + dt, ea := e1, eb := e2 } := by
  intro l
  induction l with
  | nil =>
    intro del xa yb hA hB hia hib hn
    obtain ⟨hB1, hB2⟩ := hB
    refine ⟨_, _, rfl, rfl, rfl, rfl, ⟨hA.st, hA.txq, hA.lf, hA.tf, hA.act⟩, ?_, ⟨hB1.st, hB1.pend, hB1.queue, hB1.timer⟩, hib⟩
    show xa.inbox ++ toInbox (txsOf yb.log) = []
    rw [hia, hB2]; rfl
  | cons m rest ih =>
    intro del xa yb hA hB hia hib hn
    by_cases hff : NeedsFF (TxCfg.of ca aa) m.2.length
    · simp only [ChainPostA, hff, if_true] at hA
      simp only [ChainPostB, hff, if_true] at hB
      simp only [QAfter, hff, if_true]
      obtain ⟨hB1, hB2⟩ := hB
      refine ⟨_, _, rfl, rfl, rfl, rfl, ?_, ?_⟩
      · refine ⟨Nat.le_refl 1, hA.st, ⟨xa.now, hA.tf, ?_⟩, hA.act, hA.more, hA.seq, hA.txq, ?_, fun _ => ⟨0, by omega⟩⟩
        · show now + dt ≤ xa.now + dt
          rw [hn]; exact Nat.le_refl _
        · show xa.inbox ++ toInbox (txsOf yb.log) = _
          rw [hia, hB2]; rfl
      · refine ⟨now, ⟨hB1.sess.congr ca aa m.2 rfl rfl rfl rfl rfl rfl, hB1.pend, hB1.queue, hB1.timer⟩,
          Nat.le_refl _, hib⟩
    · simp only [ChainPostA, hff, if_false] at hA
      simp only [ChainPostB, hff, if_false] at hB
      simp only [QAfter, hff, if_false]
      exact ih _ xa yb hA hB hia hib hn

theorem toInbox_append (a b : List CanMsg) : toInbox (a ++ b) = toInbox a ++ toInbox b := by
  simp [toInbox]

/-! ## the rounds -/

/-- a round of two idle layers with nothing queued: nothing happens -/
theorem sim_idleQ (del : List Bytes) (q : Pair) (h : QIdle ca cb aa ab del [] q) :
    QIdle ca cb aa ab del [] (q.round dt).1 ∧ RoundOkQ dt q [] := by
  obtain ⟨x, y, hqa, hqb, hab, hba, hIA, hib, hIB, hyib⟩ := h
  have hA := passA_idleQ ca aa { x with now := q.now, log := [] } ⟨hIA.st, hIA.txq, hIA.lf, hIA.tf, hIA.act⟩ hib
  have hB := passB_quiet cb ab
    { y with now := q.now, log := [], inbox := y.inbox ++ toInbox (txsOf [Ev.rxNone q.now]) }
    (by show y.inbox ++ _ = []; rw [hyib]; rfl) (Or.inl hIB.timer) hIB.pend
  obtain ⟨e1, e2, e3⟩ := round_eq ca cb aa ab dt q x _ y _ hqa hqb hab hba hA rfl hB rfl
  refine ⟨⟨_, _, by rw [e1], by rw [e1], by rw [e1], by rw [e1], ?_, ?_, ?_, ?_⟩, ?_, ?_, ?_, ?_⟩
  · exact ⟨hIA.st, hIA.txq, hIA.lf, hIA.tf, hIA.act⟩
  · show x.inbox ++ _ = []; rw [hib]; rfl
  · exact ⟨hIB.st, hIB.pend, hIB.queue, hIB.timer⟩
  · show y.inbox ++ _ = []; rw [hyib]; rfl
  · rw [e2]; exact NoErr_reverse (NoErr_cons NoErr_nil (by intro t e h; cases h))
  · rw [e3]; exact NoErr_reverse (NoErr_cons NoErr_nil (by intro t e h; cases h))
  · rw [e2]; rfl
  · rw [e1]

/-- the first round with the requests of `l` queued: the chain goes out and is received -/
theorem sim_startQ (hS : QSetting ca cb aa ab dt) (fcm : CanMsg) (hfc : FcFacts cb aa ab fcm)
    (del : List Bytes) (l : List Msg) (hl : l ≠ []) (hok : MsgOkB cb l) (q : Pair)
    (h : QIdle ca cb aa ab del l q) :
    QAfter ca cb aa ab dt fcm del l (q.round dt).1 ∧ RoundOkQ dt q (chainDones ca aa l) := by
  obtain ⟨x, y, hqa, hqb, hab, hba, hIA, hib, hIB, hyib⟩ := h
  have htFc0 : ca.tFc ≠ 0 := by have := hS.tFc; have := hS.sep; omega
  have htCf0 : cb.tCf ≠ 0 := by
    have := hS.tCf; have := hS.sep; have := gapOf_ge ca cb dt; omega
  have hI0 : IdleA (reqsOf ca l) { x with now := q.now, log := [] } := ⟨hIA.st, hIA.txq, hIA.lf, hIA.tf, hIA.act⟩
  have hA := passA_startQ ca aa hS.va htFc0 l hl { x with now := q.now, log := [] } hI0 (MsgOkB.toA cb hok) hib
  obtain ⟨c1, c2, c3, c4, c5, c6⟩ := chainA_spec ca aa hS.va l { x with now := q.now, log := [] } hI0 (MsgOkB.toA cb hok)
  generalize hxc : chainA ca aa l { x with now := q.now, log := [] } = xc at *
  have hc2 : xc.now = q.now := c2
  have hc3 : xc.inbox = [] := by rw [c3]; exact hib
  have hc4 : txsOf xc.log = chainFrames ca aa l := by rw [c4]; rfl
  have hIB0 : IdleB del { y with now := q.now, log := [],
                                 inbox := y.inbox ++ toInbox (txsOf ({ xc with log := .rxNone xc.now :: xc.log } : AP).log) } :=
    ⟨hIB.st, hIB.pend, hIB.queue, hIB.timer⟩
  obtain ⟨y', hB, hPB, hnB, hib', hneB⟩ := passB_startQ ca cb aa ab hS.va hS.wfA hS.mirAB hS.listenB htCf0 fcm hfc.made
    l del _ hIB0 hok
    (by show y.inbox ++ toInbox (txsOf (.rxNone xc.now :: xc.log)) = _
        rw [hyib, txsOf_rxNone, hc4, chainMsgs_eq]; rfl) rfl
  obtain ⟨e1, e2, e3⟩ := round_eq ca cb aa ab dt q x _ y y' hqa hqb hab hba hA hc2 hB hnB
  refine ⟨?_, ?_, ?_, ?_, ?_⟩
  · rw [e1]
    exact after_assemble ca cb aa ab dt fcm q.now _ _ l del _ y'
      (ChainPostA_relog ca aa l xc _ c1) hPB hc3 hib' hc2
  · rw [e2]
    exact NoErr_reverse (NoErr_cons (c5 NoErr_nil) (by intro t e h; cases h))
  · rw [e3]; exact NoErr_reverse hneB
  · rw [e2, doneEvs_reverse]
    show donesOf (.rxNone xc.now :: xc.log) = _
    rw [donesOf_rxNone, c6]; rfl
  · rw [e1]

/-! ## rounds inside a transfer -/

/-- where a round leads in which the sender's run ended in abstract state `a'`: the transfer goes on, or — message
    complete — the chain over `rest` has been started -/
def QNext (fcm : CanMsg) (del : List Bytes) (rest : List Msg) (id : Nat) (p : Bytes) : Abs → Pair → Prop
  | .D, q' => QAfter ca cb aa ab dt fcm (del ++ [p]) rest q'
  | .W k, q' => QLock ca cb aa ab dt fcm del rest id p (.W k) q'
  | .T k j, q' => QLock ca cb aa ab dt fcm del rest id p (.T k j) q'
  | .I, _ => False

/-- the requests completed in that round -/
def nextDones (id : Nat) (rest : List Msg) (a' : Abs) : List (Nat × Bool) :=
  if a' = .D then (id, true) :: chainDones ca aa rest else []

theorem donesOf_finA (r : AP × Nat × Bool) : donesOf (finA r).log = donesOf r.1.log := by
  unfold finA; split
  · simp
  · rfl

/-- A round in which the sender's pass is a run of Consecutive Frames from TRANSMIT_CF (entered in this pass or
    before), with the requests of `rest` queued behind. -/
theorem sim_runQ (hS : QSetting ca cb aa ab dt) (id : Nat) (p : Bytes) (h32 : p.length < 4294967296)
    (hmax : p.length ≤ cb.maxFrameSize) (hff : NeedsFF (TxCfg.of ca aa) p.length) (fcm : CanMsg)
    (hfc : FcFacts cb aa ab fcm) (del : List Bytes) (rest : List Msg) (hok : MsgOkB cb rest)
    (q : Pair) (x x0 : AP) (y : BP) (k j f tB : Nat)
    (hqa : q.a = mkA ca aa x) (hqb : q.b = mkB cb ab y) (hab : q.ab = []) (hba : q.ba = [])
    (hA : ((mkA ca aa { x with now := q.now, log := [] }).process true true).1 =
      mkA ca aa (endA ca aa rest (runA ca aa id p cb.blocksize f x0 k)))
    (hc : TCondQ ca aa id p cb.blocksize (reqsOf ca rest) x0 k) (hj : x0.txBlockCnt = j)
    (hto0 : x0.timerStmin.timeout = effOf ca cb)
    (hto : x0.timerStmin.timedOut x0.now = true) (hib0 : x0.inbox = []) (hnow0 : x0.now = q.now)
    (hlog0 : txsOf x0.log = []) (hne0 : NoErr x0.log) (hd0 : donesOf x0.log = [])
    (hf : p.length - carried (TxCfg.of ca aa) p.length k < f)
    (hsync : SyncT cb.blocksize k j)
    (hyB : SessAtQ ca aa del p y (k - 1) tB) (hyt : q.now ≤ tB + gapOf ca cb dt) (hyib : y.inbox = []) :
    QNext ca cb aa ab dt fcm del rest id p
      (absRun (decide (effOf ca cb = 0)) cb.blocksize (nFrames (TxCfg.of ca aa) p) (nFrames (TxCfg.of ca aa) p) k j).1
      (q.round dt).1 ∧
    RoundOkQ dt q (nextDones ca aa id rest
      (absRun (decide (effOf ca cb = 0)) cb.blocksize (nFrames (TxCfg.of ca aa) p) (nFrames (TxCfg.of ca aa) p) k j).1) := by
  have hSc := hS.scen ca cb aa ab dt p h32 hmax
  have hvt := valid_of ca aa hS.va
  have hrs := hSc.rx ca cb aa ab p dt hff
  have htCf := hS.tCf
  have hk1 := hc.k1
  have hkn := (lt_nFrames_iff _ hvt p hff k hk1).mpr hc.more
  obtain ⟨r1, r2, r3, r4, r5, r6, r7, r8⟩ := runA_absQ ca aa id p cb.blocksize (reqsOf ca rest) (effOf ca cb) hS.va hff
    (decide (effOf ca cb = 0)) rfl f (nFrames (TxCfg.of ca aa) p) x0 k hc hto0 hto hf (by omega)
  rw [hj] at r1 r2 r5 r7
  obtain ⟨s1, s2, s3, _⟩ := absRun_shape (decide (effOf ca cb = 0)) cb.blocksize (nFrames (TxCfg.of ca aa) p)
    (nFrames (TxCfg.of ca aa) p) k j hk1 hkn (by omega) hsync
  obtain ⟨f1, f2, f3, f4, f5, f6, f7, f8, f9, f10, f11, f12, f13, f14⟩ := finA_fields (runA ca aa id p cb.blocksize f x0 k)
  have f15 := donesOf_finA (runA ca aa id p cb.blocksize f x0 k)
  generalize hr : runA ca aa id p cb.blocksize f x0 k = r at *
  generalize hab' : absRun (decide (effOf ca cb = 0)) cb.blocksize (nFrames (TxCfg.of ca aa) p)
    (nFrames (TxCfg.of ca aa) p) k j = ar at *
  obtain ⟨a', c⟩ := ar
  simp only [] at r1 r2 r5 r7 s1 s2 s3 ⊢
  obtain ⟨c, rfl⟩ : ∃ c', c = c' + 1 := ⟨c - 1, by omega⟩
  obtain ⟨i, rfl⟩ : ∃ i, k = i + 1 := ⟨k - 1, by omega⟩
  simp only [Nat.add_sub_cancel] at hyB
  have hplain : PlainRun ca cb aa p i c := by
    intro t ht
    obtain ⟨h1, h2⟩ := s2 t (by omega)
    have e1 : i + t + 2 = i + 1 + t + 1 := by omega
    have e2 : i + t + 1 = i + 1 + t := by omega
    rw [e1, e2]
    exact ⟨(lt_nFrames_iff _ hvt p hff _ (by omega)).mp h1, h2⟩
  cases a' with
  | I => exact absurd s3 (by simp [Shape])
  | D =>
    simp only [Shape] at s3
    have hlast : carried (TxCfg.of ca aa) p.length (i + c + 2) = p.length := by
      have hn1 : 1 ≤ i + c + 1 := by omega
      have hlt : carried (TxCfg.of ca aa) p.length (i + c + 1) < p.length :=
        (lt_nFrames_iff _ hvt p hff _ hn1).mp (by omega)
      exact (last_iff _ hvt p hff (i + c + 1) hn1 hlt).mpr (by omega)
    obtain ⟨d1, d2, d3, d4, d5⟩ := r1
    have hI : IdleA (reqsOf ca rest) r.1 := ⟨d1, d2, d3, d4, d5⟩
    obtain ⟨c1, c2, c3, c4, c5, c6⟩ := chainA_spec ca aa hS.va rest r.1 hI (MsgOkB.toA cb hok)
    have hE : endA ca aa rest r = chainA ca aa rest r.1 := by unfold endA; rw [if_pos d1]
    rw [hE] at hA
    generalize chainA ca aa rest r.1 = xc at *
    have hnA : xc.now = q.now := by rw [c2, r3, hnow0]
    have hxib : xc.inbox = [] := by rw [c3, r4, hib0]
    have htx : txsOf xc.log = framesA ca aa p (i + 1) (c + 1) ++ chainFrames ca aa rest := by
      rw [c4, r5, hlog0]; rfl
    have hyin : SessAtQ ca aa del p
        { y with now := q.now, log := [], inbox := y.inbox ++ toInbox (txsOf xc.log) } i tB :=
      ⟨hyB.sess.congr ca aa p rfl rfl rfl rfl rfl rfl, hyB.pend, hyB.queue, hyB.timer⟩
    have hyinb : ({ y with now := q.now, log := [], inbox := y.inbox ++ toInbox (txsOf xc.log) } : BP).inbox =
        cfMsgs ca aa p (i + 1) (c + 1) ++ chainMsgs ca aa rest := by
      show y.inbox ++ toInbox (txsOf xc.log) = _
      rw [hyib, htx, toInbox_append, toInbox_framesA, chainMsgs_eq]; rfl
    have hytm : ({ y with now := q.now, log := [], inbox := y.inbox ++ toInbox (txsOf xc.log) } : BP).now ≤
        tB + cb.tCf := by show q.now ≤ _; omega
    obtain ⟨y', hB, hPB, hnB, hib', hneB⟩ := passB_finalQ ca cb aa ab p hrs hS.listenB hSc.tCf0 fcm hfc.made rest hok del
      _ i c tB hyin hytm rfl hyinb hplain hlast
    obtain ⟨e1, e2, e3⟩ := round_eq ca cb aa ab dt q x xc y y' hqa hqb hab hba hA hnA hB hnB
    refine ⟨?_, ?_, ?_, ?_, ?_⟩
    · show QAfter ca cb aa ab dt fcm (del ++ [p]) rest (q.round dt).1
      rw [e1]
      exact after_assemble ca cb aa ab dt fcm q.now _ _ rest (del ++ [p]) xc y' c1 hPB hxib hib' hnA
    · rw [e2]; exact NoErr_reverse (c5 (r6 hne0))
    · rw [e3]; exact NoErr_reverse hneB
    · rw [e2, doneEvs_reverse, c6, r7, hd0]
      simp [nextDones]
    · rw [e1]
  | W k' =>
    simp only [Shape] at s3
    obtain ⟨hk', hk'n, hbnd, hsw⟩ := s3
    obtain ⟨d1, d2, d3, d4, d5, d6, d7, d8⟩ := r1
    have hE : endA ca aa rest r = finA r := by
      unfold endA; rw [if_neg (by rw [d2]; intro h; cases h)]
    rw [hE] at hA
    have htx : txsOf (finA r).log = framesA ca aa p (i + 1) (c + 1) := by rw [f12, r5, hlog0]; rfl
    have hnA : (finA r).now = q.now := by rw [f1, r3, hnow0]
    have hyin : SessAtQ ca aa del p
        { y with now := q.now, log := [], inbox := y.inbox ++ toInbox (txsOf (finA r).log) } i tB :=
      ⟨hyB.sess.congr ca aa p rfl rfl rfl rfl rfl rfl, hyB.pend, hyB.queue, hyB.timer⟩
    have hyinb : ({ y with now := q.now, log := [], inbox := y.inbox ++ toInbox (txsOf (finA r).log) } : BP).inbox =
        cfMsgs ca aa p (i + 1) (c + 1) := by
      show y.inbox ++ toInbox (txsOf (finA r).log) = _
      rw [hyib, htx, toInbox_framesA]; rfl
    have hytm : ({ y with now := q.now, log := [], inbox := y.inbox ++ toInbox (txsOf (finA r).log) } : BP).now ≤
        tB + cb.tCf := by show q.now ≤ _; omega
    have hmore : carried (TxCfg.of ca aa) p.length (i + c + 2) < p.length :=
      (lt_nFrames_iff _ hvt p hff _ (by omega)).mp (by omega)
    have hbnd' : 0 < cb.blocksize ∧ (i + c + 1) % cb.blocksize = 0 := by
      have : k' - 1 = i + c + 1 := by omega
      rw [this] at hbnd; exact hbnd
    obtain ⟨y', hB, hSs, hnB, hib', htxB, hneB⟩ := passB_boundaryQ ca cb aa ab p hrs hS.listenB hSc.tCf0 fcm hfc.made del
      _ i c tB hyin hytm rfl hyinb hplain hmore hbnd'
    obtain ⟨e1, e2, e3⟩ := round_eq ca cb aa ab dt q x (finA r) y y' hqa hqb hab hba hA hnA hB hnB
    refine ⟨⟨_, _, by rw [e1], by rw [e1], by rw [e1], by rw [e1], ?_, ?_⟩, ?_, ?_, ?_, ?_⟩
    · rw [e1]
      refine ⟨d1, by rw [← d2]; exact f2, ⟨q.now, ?_, Nat.le_refl _⟩, by rw [← d4]; exact f4, d5, by rw [← d6]; exact f5,
        by rw [← d7]; exact f3, ?_, hsw⟩
      · show (finA r).timerFc = _
        rw [f8, d3, r3, hnow0]
      · show (finA r).inbox ++ toInbox (txsOf y'.log) = _
        rw [f11, r4, hib0, htxB]; rfl
    · rw [e1]
      refine ⟨q.now, ?_, Nat.le_refl _, hib'⟩
      have : k' - 1 = i + c + 1 := by omega
      rw [this]
      exact ⟨hSs.sess.congr ca aa p rfl rfl rfl rfl rfl rfl, hSs.pend, hSs.queue, hSs.timer⟩
    · rw [e2]; exact NoErr_reverse (f13 (r6 hne0))
    · rw [e3]; exact NoErr_reverse hneB
    · rw [e2, doneEvs_reverse, f15, r7, hd0]
      simp [nextDones]
    · rw [e1]
  | T k' j' =>
    simp only [Shape] at s3
    obtain ⟨hk', hk'n, hbnd, hst⟩ := s3
    obtain ⟨d1, d2, d3⟩ := r1
    have hE : endA ca aa rest r = finA r := by
      unfold endA; rw [if_neg (by rw [d1.st]; intro h; cases h)]
    rw [hE] at hA
    have htx : txsOf (finA r).log = framesA ca aa p (i + 1) (c + 1) := by rw [f12, r5, hlog0]; rfl
    have hnA : (finA r).now = q.now := by rw [f1, r3, hnow0]
    have hyin : SessAtQ ca aa del p
        { y with now := q.now, log := [], inbox := y.inbox ++ toInbox (txsOf (finA r).log) } i tB :=
      ⟨hyB.sess.congr ca aa p rfl rfl rfl rfl rfl rfl, hyB.pend, hyB.queue, hyB.timer⟩
    have hyinb : ({ y with now := q.now, log := [], inbox := y.inbox ++ toInbox (txsOf (finA r).log) } : BP).inbox =
        cfMsgs ca aa p (i + 1) (c + 1) := by
      show y.inbox ++ toInbox (txsOf (finA r).log) = _
      rw [hyib, htx, toInbox_framesA]; rfl
    have hytm : ({ y with now := q.now, log := [], inbox := y.inbox ++ toInbox (txsOf (finA r).log) } : BP).now ≤
        tB + cb.tCf := by show q.now ≤ _; omega
    have hmore : carried (TxCfg.of ca aa) p.length (i + c + 2) < p.length :=
      (lt_nFrames_iff _ hvt p hff _ (by omega)).mp (by omega)
    have hbnd' : ¬ (0 < cb.blocksize ∧ (i + c + 1) % cb.blocksize = 0) := by
      have : k' - 1 = i + c + 1 := by omega
      rw [this] at hbnd; exact hbnd
    obtain ⟨y', hB, hSs, hnB, hib', htxB, hneB⟩ := passB_plainQ ca cb aa ab p hrs hSc.tCf0 del _ i c tB
      hyin hytm rfl hyinb hplain hmore hbnd'
    obtain ⟨e1, e2, e3⟩ := round_eq ca cb aa ab dt q x (finA r) y y' hqa hqb hab hba hA hnA hB hnB
    refine ⟨⟨_, _, by rw [e1], by rw [e1], by rw [e1], by rw [e1], ?_, ?_⟩, ?_, ?_, ?_, ?_⟩
    · rw [e1]
      refine ⟨⟨d1.k1, by rw [← d1.st]; exact f2, by rw [← d1.lf]; exact f10, by rw [← d1.tf]; exact f8,
        by rw [← d1.act]; exact f4, d1.more, by rw [← d1.seq]; exact f5, by rw [← d1.rbs]; exact f7,
        by rw [← d1.txq]; exact f3⟩, by rw [← d2]; exact f6, ⟨q.now, ?_, ?_⟩, ?_, hst⟩
      · show (finA r).timerStmin = _
        rw [f9, d3, r3, hnow0]
      · have := hS.sep
        show q.now + effOf ca cb < q.now + dt
        omega
      · show (finA r).inbox ++ toInbox (txsOf y'.log) = _
        rw [f11, r4, hib0, htxB]; rfl
    · rw [e1]
      refine ⟨q.now, ?_, (by show q.now + dt ≤ q.now + gapOf ca cb dt; have := gapOf_ge ca cb dt; omega), hib'⟩
      have : k' - 1 = i + c + 1 := by omega
      rw [this]
      exact ⟨hSs.sess.congr ca aa p rfl rfl rfl rfl rfl rfl, hSs.pend, hSs.queue, hSs.timer⟩
    · rw [e2]; exact NoErr_reverse (f13 (r6 hne0))
    · rw [e3]; exact NoErr_reverse hneB
    · rw [e2, doneEvs_reverse, f15, r7, hd0]
      simp [nextDones]
    · rw [e1]

/-- a round that starts with the sender in TRANSMIT_CF -/
theorem sim_TQ (hS : QSetting ca cb aa ab dt) (id : Nat) (p : Bytes) (h32 : p.length < 4294967296)
    (hmax : p.length ≤ cb.maxFrameSize) (hff : NeedsFF (TxCfg.of ca aa) p.length) (fcm : CanMsg)
    (hfc : FcFacts cb aa ab fcm) (del : List Bytes) (rest : List Msg) (hok : MsgOkB cb rest) (q : Pair) (k j : Nat)
    (h : QLock ca cb aa ab dt fcm del rest id p (.T k j) q) :
    QNext ca cb aa ab dt fcm del rest id p
      (absStep (decide (effOf ca cb = 0)) cb.blocksize (nFrames (TxCfg.of ca aa) p) (.T k j)) (q.round dt).1 ∧
    RoundOkQ dt q (nextDones ca aa id rest
      (absStep (decide (effOf ca cb = 0)) cb.blocksize (nFrames (TxCfg.of ca aa) p) (.T k j))) := by
  obtain ⟨x, y, hqa, hqb, hab, hba, ⟨hc, hj, ⟨tS, htS, htSn⟩, hib, hsync⟩, ⟨tB, hyB, hyt, hyib⟩⟩ := h
  have htFc0 : ca.tFc ≠ 0 := by have := hS.tFc; have := hS.sep; omega
  have hc1 : TCondQ ca aa id p cb.blocksize (reqsOf ca rest) { x with now := q.now, log := [] } k :=
    ⟨hc.k1, hc.st, hc.lf, hc.tf, hc.act, hc.more, hc.seq, hc.rbs, hc.txq⟩
  have hA := passA_TQ ca aa id p cb.blocksize hS.va htFc0 rest (MsgOkB.toA cb hok) { x with now := q.now, log := [] } k hc1 hib
  have hc0 : TCondQ ca aa id p cb.blocksize (reqsOf ca rest) { x with now := q.now, log := [.rxNone q.now] } k :=
    ⟨hc.k1, hc.st, hc.lf, hc.tf, hc.act, hc.more, hc.seq, hc.rbs, hc.txq⟩
  exact sim_runQ ca cb aa ab dt hS id p h32 hmax hff fcm hfc del rest hok q x _ y k j _ tB hqa hqb hab hba hA hc0 hj
    (by show x.timerStmin.timeout = _; rw [htS])
    (by show x.timerStmin.timedOut q.now = true; rw [htS]; exact timedOut_after _ _ _ htSn)
    hib rfl (by simp [txsOf_nil]) (NoErr_cons NoErr_nil (by intro t e h; cases h)) (by simp [donesOf_nil])
    (by omega) hsync hyB hyt hyib

/-- a round that starts with the sender waiting for the Flow Control that is in its inbox -/
theorem sim_WQ (hS : QSetting ca cb aa ab dt) (id : Nat) (p : Bytes) (h32 : p.length < 4294967296)
    (hmax : p.length ≤ cb.maxFrameSize) (hff : NeedsFF (TxCfg.of ca aa) p.length) (fcm : CanMsg)
    (hfc : FcFacts cb aa ab fcm) (del : List Bytes) (rest : List Msg) (hok : MsgOkB cb rest) (q : Pair) (k : Nat)
    (h : QLock ca cb aa ab dt fcm del rest id p (.W k) q) :
    QNext ca cb aa ab dt fcm del rest id p
      (absStep (decide (effOf ca cb = 0)) cb.blocksize (nFrames (TxCfg.of ca aa) p) (.W k)) (q.round dt).1 ∧
    RoundOkQ dt q (nextDones ca aa id rest
      (absStep (decide (effOf ca cb = 0)) cb.blocksize (nFrames (TxCfg.of ca aa) p) (.W k))) := by
  obtain ⟨x, y, hqa, hqb, hab, hba, ⟨hk, hst, ⟨tF, htF, htFn⟩, hact, hmore, hseq, hq, hib, hsync⟩,
    ⟨tB, hyB, hyt, hyib⟩⟩ := h
  obtain ⟨cdl, rdl, hdec⟩ := hfc.dec
  have htFc := hS.tFc
  have htFc0 : ca.tFc ≠ 0 := by have := hS.sep; omega
  have htCf0 : cb.tCf ≠ 0 := by
    have := hS.tCf; have := hS.sep; have := gapOf_ge ca cb dt; omega
  have hA : ((mkA ca aa { x with now := q.now, log := [] }).process true true).1 =
      mkA ca aa (endA ca aa rest (runA ca aa id p cb.blocksize (p.length - carried (TxCfg.of ca aa) p.length k + 1)
        (apAfterFc x q.now fcm cb.blocksize (effOf ca cb)) k)) :=
    passA_WQ ca aa id p cb.blocksize hS.va htFc0 rest (MsgOkB.toA cb hok) { x with now := q.now, log := [] } k tF
      cb.stmin cdl rdl fcm hk hst htF (by show q.now ≤ _; omega) hact hmore hseq hq hib hfc.me hdec
  have hc0 : TCondQ ca aa id p cb.blocksize (reqsOf ca rest) (apAfterFc x q.now fcm cb.blocksize (effOf ca cb)) k :=
    ⟨hk, rfl, rfl, rfl, hact, hmore, hseq, rfl, hq⟩
  unfold absStep
  by_cases hz : effOf ca cb = 0
  · simp only [hz, decide_true, if_true]
    have := sim_runQ ca cb aa ab dt hS id p h32 hmax hff fcm hfc del rest hok q x _ y k 0 _ tB hqa hqb hab hba hA hc0 rfl rfl
      (by show ({ start := some q.now, timeout := effOf ca cb } : Timer).timedOut q.now = true
          rw [timedOut_started]; simp [hz])
      rfl rfl (by simp [apAfterFc, txsOf_nil]) (NoErr_cons NoErr_nil (by intro t e h; cases h))
      (by simp [apAfterFc, donesOf_nil]) (by omega)
      hsync.toT hyB (by have := gapOf_ge ca cb dt; omega) hyib
    simpa only [hz, decide_true] using this
  · simp only [hz, decide_false, Bool.false_eq_true, if_false]
    -- the separation time has just started: nothing is sent in this round
    have hrun : runA ca aa id p cb.blocksize (p.length - carried (TxCfg.of ca aa) p.length k + 1)
        (apAfterFc x q.now fcm cb.blocksize (effOf ca cb)) k =
        (apAfterFc x q.now fcm cb.blocksize (effOf ca cb), 0, false) := by
      unfold runA
      have : (apAfterFc x q.now fcm cb.blocksize (effOf ca cb)).timerStmin.timedOut
          (apAfterFc x q.now fcm cb.blocksize (effOf ca cb)).now = false := by
        show ({ start := some q.now, timeout := effOf ca cb } : Timer).timedOut q.now = false
        rw [timedOut_started]; simp [hz]
      simp only [this, Bool.false_eq_true, if_false]
    have hA' : ((mkA ca aa { x with now := q.now, log := [] }).process true true).1 =
        mkA ca aa (apAfterFc x q.now fcm cb.blocksize (effOf ca cb)) := by
      rw [hA, hrun]; rfl
    have htCf := hS.tCf
    have hge := gapOf_ge ca cb dt
    have hgap : gapOf ca cb dt = 2 * dt := by simp [gapOf, hz]
    have hB := passB_quiet cb ab
      { y with now := q.now, log := [],
               inbox := y.inbox ++ toInbox (txsOf (apAfterFc x q.now fcm cb.blocksize (effOf ca cb)).log) }
      (by show y.inbox ++ toInbox (txsOf [Ev.rx q.now fcm]) = []; rw [hyib]; rfl)
      (Or.inr ⟨tB, hyB.timer, by show q.now ≤ _; omega, htCf0⟩) hyB.pend
    obtain ⟨e1, e2, e3⟩ := round_eq ca cb aa ab dt q x _ y _ hqa hqb hab hba hA' rfl hB rfl
    have hsep := hS.sep
    refine ⟨⟨_, _, by rw [e1], by rw [e1], by rw [e1], by rw [e1], ?_, ?_⟩, ?_, ?_, ?_, ?_⟩
    · rw [e1]
      exact ⟨⟨hc0.k1, hc0.st, hc0.lf, hc0.tf, hc0.act, hc0.more, hc0.seq, hc0.rbs, hc0.txq⟩, rfl,
        ⟨q.now, rfl, by show q.now + effOf ca cb < q.now + dt; omega⟩, rfl, hsync.toT⟩
    · rw [e1]
      exact ⟨tB, ⟨hyB.sess.congr ca aa p rfl rfl rfl rfl rfl rfl, hyB.pend, hyB.queue, hyB.timer⟩,
        by show q.now + dt ≤ _; omega, by show y.inbox ++ _ = []; rw [hyib]; rfl⟩
    · rw [e2]; exact NoErr_reverse (NoErr_cons NoErr_nil (by intro t e h; cases h))
    · rw [e3]; exact NoErr_reverse (NoErr_cons NoErr_nil (by intro t e h; cases h))
    · rw [e2]; rfl
    · rw [e1]

/-- **One concrete round is one abstract step, with a queue**: from `QLock … a` (`a = W k` or `T k j`) the round
    leads to `QLock … (absStep a)`, or — if the step completes the message — to the state after the chain over
    `rest`, and reports exactly the requests completed. -/
theorem round_simQ (hS : QSetting ca cb aa ab dt) (id : Nat) (p : Bytes) (h32 : p.length < 4294967296)
    (hmax : p.length ≤ cb.maxFrameSize) (hff : NeedsFF (TxCfg.of ca aa) p.length) (fcm : CanMsg)
    (hfc : FcFacts cb aa ab fcm) (del : List Bytes) (rest : List Msg) (hok : MsgOkB cb rest) (a : Abs) (q : Pair)
    (h : QLock ca cb aa ab dt fcm del rest id p a q) :
    QNext ca cb aa ab dt fcm del rest id p
      (absStep (decide (effOf ca cb = 0)) cb.blocksize (nFrames (TxCfg.of ca aa) p) a) (q.round dt).1 ∧
    RoundOkQ dt q (nextDones ca aa id rest
      (absStep (decide (effOf ca cb = 0)) cb.blocksize (nFrames (TxCfg.of ca aa) p) a)) := by
  cases a with
  | I => obtain ⟨x, y, -, -, -, -, hA, -⟩ := h; exact absurd hA (by simp [LockAQ])
  | D => obtain ⟨x, y, -, -, -, -, hA, -⟩ := h; exact absurd hA (by simp [LockAQ])
  | W k => exact sim_WQ ca cb aa ab dt hS id p h32 hmax hff fcm hfc del rest hok q k h
  | T k j => exact sim_TQ ca cb aa ab dt hS id p h32 hmax hff fcm hfc del rest hok q k j h

end sim

end Isotp.LockstepQ
