"""
Writes /verif/MANIFEST.json from harness/registry.json (which theorems exist) and the table below.
A property is claimed only when at least one property theorem (or table leaf) is registered for it.
"""
import os, json
HERE = os.path.dirname(os.path.abspath(__file__))
VERIF = os.path.dirname(HERE)

COMMON_NOTE = ("Trusted base: Lean 4.33 kernel (axioms audited on every run to be within propext / Classical.choice / Quot.sound; no sorry, "
               "native_decide, bv_decide, user axioms); the hand-written Lean model is tied to /repo's working tree on every run by (a) finite "
               "tables regenerated from the code with kernel-checked agreement theorems where listed, (a') for the functions named in the level text (pure helpers, validators, constructors, the receive / transmit state machines, process(), the threaded lifecycle), the Python source dumped by harness/py2lean.py on every run and proved equal to the model through the interpreters lean/Isotp/Py/Ast.lean / Exec2.lean (trusted: the dumper, those interpreters' semantics of the Python subset, the Meths records of primitives named in each leaf; a leaf that no longer checks is a broken obligation), and (b) a differential correspondence "
               "check model-vs-implementation on generated scenarios under an exact virtual clock (differential testing, not proof); the judge "
               "of the property is evaluated on every implementation trace. CPython semantics, zero-time computation and float->ns "
               "conversions of configuration values are modelled, not verified.")

# id -> (what the theorems establish, what is partial / assumed in addition)
TEXT = {
    'C01': ('Lean theorems at network level (two mirrored layers joined by two in-order links, Isotp/Net.lean): for EVERY schedule of sends, full and transmit-only passes, deliveries, clock ticks and recv calls, what each side received is a prefix of what the other sent (byte-identical, in order, at most once) and no error of any kind is reported as long as no timeout fires (C01net.safety, safety_timeouts, clean_exchange, conservation); on the canonical cooperative schedule every payload is delivered after exactly roundsFor rounds for every block size, STmin, mode and link size (C01live.transfer_completes), and so is ANY NUMBER of queued messages, also when send() calls are interleaved with the rounds, in sending order, with the exact round count (C01queue.queue_completes, interleaved_completes, not_before); endpoint contracts: the sender emits exactly Spec.segment (C02), the receiver reassembles every Spec.WellFormed stream (C03); two real layers and the two-layer model run the same random schedules and must agree.',
            'Progress for ARBITRARY fair schedules is proved per endpoint only (no wedged state, process terminates) and explored on schedules; the composed liveness theorems are for the canonical cooperative schedule (one direction: C01live / C01queue; both directions at once: C10live).'),
    'C02': ("Lean theorems: the transmit FSM of the model produces, for every payload/configuration, exactly the frames of the reference "
            "Spec.segment (invariant TxProg over arbitrary interleavings), padding/DLC closed forms equal the code's on the whole finite domain "
            "(kernel-checked tables regenerated from /repo), send() refuses sizes >= 2^32.", ""),
    'C03': ("Lean theorems: from any receiver state, every Spec.WellFormed stream (any conforming sender) is reassembled to exactly the payload, "
            "delivered once at the last frame and not before, with exactly the Flow Control requests the standard prescribes.", ""),
    'C04': ("Lean theorems on the transmit FSM for arbitrary Flow Control histories: no Consecutive Frame before a ContinueToSend, block budget "
            "monitor never violated, documented abort behaviour for Overflow / Wait / N_Bs expiry, no wedged state (a running timer or a parked frame "
            "exists whenever a transfer is active).", "Bounded-time termination is derived from the no-wedged-state invariant; the composed potential argument is checked on schedules."),
    'C05': ("Lean theorems: process() of the model never raises for any traffic (invariant Safe over all operations), deliveries are justified "
            "(Single Frame data or exactly FF_DL <= max_frame_size bytes of in-sequence data), an idle sender emits only requested Flow Control frames.", ""),
    'C06': ("Lean theorems: one theorem per reception anomaly giving the documented error class and outcome, and recovery: a First Frame "
            "establishes a clean session from ANY state.", ""),
    'C07': ("Lean theorems: timer invariants (idle => timer stopped) over all operations, timeout error iff the deadline was missed at the "
            "check point, one error per abandoned transfer; frames that are read but ignored (wrong-size CF, stray Flow Control, foreign id, Single Frame without escape) leave the deadline where it was (C07ign).", "Deadlines are on the virtual clock."),
    'C08': ("Lean theorems: a Consecutive Frame is emitted only when the STmin timer (value of the last ContinueToSend / override) has expired "
            "since the previous one; STmin byte decoding equals the code's on all 256 bytes (kernel-checked table); a transmitting process() pass never ends with Consecutive Frames held back under a zero separation time unless the rate limiter holds them (C08pass).", "Virtual clock."),
    'C09': ("Lean theorems: is_for_me of the model equals the documented reception condition for every address and frame; frames not for me "
            "change nothing; emitted id/prefix are the documented ones and are accepted by the mirrored address; Functional sends restricted to single frames.", ""),
    'C10': ('The network-level theorems of C01 hold with both directions active at once (they are stated for arbitrary schedules of both layers), plus the mailbox discipline: when every pass that reads also transmits (full and transmit-only passes, the schedule space of the property) a received Flow Control is consumed by the next transmit pass before any other frame is read (C10.fc_never_lost, mailbox_inv_reachable), frame conditions between the directions, no wedged state in full duplex; liveness with BOTH directions active at once on the canonical schedule: both payloads are delivered, both requests succeed, no error, for every block size / STmin / mode / link size when the four timeouts cover the exchange (C10live.duplex_completes_partial, progress_each_round: a potential strictly decreases every round), with the sharp timeouts (N_Cr 3 ticks, N_Bs 2 ticks) for BS 0 / STmin 0 and a 1600-configuration table; the one-directional timing hypotheses are proved NOT sufficient in duplex (a layer that sends and receives leaves process() after the pass that follows a Flow Control; frames behind it wait one more round); exhaustive-interleaving correspondence of the two-layer model against two real layers.',
            "'No interleaving reaches a stuck state' is PROVED for arbitrary interleavings (C10nostuck.no_stuck_state_partial / _nops: after ANY schedule of full passes, transmit-only passes, partial deliveries and ticks in which the timeouts are not exhausted, the canonical continuation completes both transfers within a bound given by a potential that no operation increases), for every block size / STmin / mode; when a separation time is > 0 the tick durations of the schedule must share a unit with the continuation tick (with STmin 0 on both sides the statement holds as written, no_stuck_state_stmin0); the sharp-timeout duplex statement for all parameters is kept as a stated conjecture (C10live_statement)."),
    'C11': ('Lean theorems: one dropped or duplicated frame anywhere in a multi-message exchange leaves deliveries = sent list minus at most the hit message (twice for a duplicated Single Frame), never truncated/merged/corrupted (c11_never_corrupt, contained_any_aborts, message_fate), the loss of a multi-frame message is reported (loss_detected), later messages are delivered normally (c11_rest_normal), also across timeouts (C11abort) and sequence-number wrap; ignored frames never move the N_Cr deadline (C07ign); plus exhaustive single-fault enumeration on real layers vs the model.',
            "Return to idle 'within the configured timeouts' is derived from the timer invariants per endpoint and checked on the virtual clock."),
    'C12': ("Lean theorems: request conservation (queued + active + completed is a permutation of accepted ids over every operation), hence "
            "exactly-once completion; aborts complete with failure; success only in the pass that outputs the last frame.", "Blocking send: logic proved, real threads sampled."),
    'C13': ("Lean theorems on the threaded model: relay queue preserves bus order, sends are linearised in queue order, no lost wake-up, "
            "python-can adapters copy the five fields; real-thread runs are replayed through the model.", "OS scheduling, queue.Queue, threading.Event, python-can are modelled by contract; real schedules are sampled."),
    'C14': ("Lean theorems on the lifecycle model: only documented exceptions for every operation sequence, stop() from any state is clean, restartable.",
            "Real-time bound of stop() is measured, not proved."),
    'C15': ("Lean theorems: limiter bookkeeping invariant, admission bound, sliding-window burst bound over abstract runs, progress once the window has "
            "passed, disabled limiter never holds a frame, throttling never changes frames; the abstract runs are compared step by step with a bare RateLimiter object (update / admitted hand-overs at arbitrary instants).", ""),
    'C16': ("Lean theorems: Address / Params validation of the model equals an independent predicate written from the documentation for every "
            "Python value combination; accepted configurations never raise in process() (invariant Safe).", "Float conversions handed over by Python."),
    'C17': ("Lean theorems: generator values are pulled in order, at most one frame ahead, never beyond the declared size; a short generator "
            "fails the request with BadGeneratorError.", ""),
    'C18': ("Lean theorems: in listen mode with no user send nothing is ever emitted for any traffic; the receive projection does not depend on "
            "the listener's own blocksize/stmin/padding.", ""),
    'C19': ("Lean theorems: the option setters of the model write exactly the uapi byte images, merge with 'None means unchanged', reject "
            "out-of-range values without a setsockopt, and read back what was written, for all call histories.", "The kernel is a modelled option store."),
    'C20': ("Lean theorems: bind() passes the documented id tuple and extended-address options, preserves other options, refuses inexpressible "
            "asymmetric addresses; under the modelled kernel semantics the socket emits/accepts what the Python layer does.", "Kernel addressing semantics are modelled."),
}


def main():
    reg = json.load(open(os.path.join(HERE, 'registry.json')))
    lean_targets = ['driver']
    checks, na = [], []
    for pid in sorted(TEXT):
        r = reg.get(pid, {})
        n = len(r.get('theorems', [])) + len(r.get('agree_theorems', []))
        if n == 0:
            na.append({'property_id': pid, 'reason': 'no property theorem is registered yet for this property (proofs under construction); not claimed until one is'})
            continue
        lean_targets += r.get('modules', []) + r.get('agree', [])
        what, partial = TEXT[pid]
        py = [a.split('.')[-1] for a in r.get('agree', []) if '.PyAgree.' in a]
        if py:
            what += (' Source-agreement leaves (DESIGN 11.7): the Python source of the functions this property rests on is dumped from the '
                     'working tree on every run and proved, for all inputs, to compute what the model computes (%s).' % ', '.join(py))
        checks.append({
            'property_id': pid,
            'quick_cmd': './check %s --tier quick' % pid,
            'thorough_cmd': './check %s --tier thorough' % pid,
            'evidence_file': 'evidence/%s.json' % pid,
            'replay_cmd_template': './check replay {path}',
            'engine': 'lean4-model+correspondence',
            'level_claimed': {
                'category': 'proof',
                'text': what + (' PARTIAL: ' + partial if partial else '') + ' (%d machine-checked theorems registered for this property.)' % n,
                'design_ref': 'DESIGN.md section 6 (%s) and section 11' % pid,
            },
            'level_note': COMMON_NOTE,
            'technique': 'Lean 4 theorems (invariants/induction) about a hand-written executable model + regenerated-table agreement (decide +kernel) + '
                         + ('source translator (Python ast -> deep embedding) with agreement theorems interpreter(source) = model for the translated functions + ' if py else '')
                         + 'differential correspondence model-vs-code; judge on implementation traces for the failing-input search',
        })
    man = {
        'version': 1,
        'setup_cmd': 'cd lean && lake build ' + ' '.join(dict.fromkeys(lean_targets)),
        'hooks': {
            'guard': 'PYTHON_CAN_ISOTP_VERIF',
            'enable': 'no source hooks are needed; the harness substitutes time.perf_counter_ns/perf_counter from outside and wraps callbacks',
            'baseline_off_cmd': 'cd /repo && /venv/bin/python -m pytest -q -p no:cacheprovider --timeout=900',
            'source_commits': [],
            'add_only': True,
        },
        'engines': [{'name': 'lean4-model+correspondence', 'path': 'lean/ + harness/',
                     'serves_properties': [c['property_id'] for c in checks],
                     'kind_free_text': 'Lean 4 proofs about an executable model; model tied to the code by regenerated finite tables and differential correspondence under a virtual clock'}],
        'checks': checks,
        'not_applicable': na,
        'notes': 'See DESIGN.md. known_findings.json lists the genuine defects found and repaired (fix: commits in /repo); seeded/ holds the mutation self-test.',
    }
    with open(os.path.join(VERIF, 'MANIFEST.json'), 'w') as f:
        json.dump(man, f, indent=1)
    print('claimed:', [c['property_id'] for c in checks])
    print('not claimed:', [x['property_id'] for x in na])


if __name__ == '__main__':
    main()
