import Isotp.Proofs.DuplexLive3
/-
  C10, liveness half — "When both peers send multi-frame messages to each other at the same time … both directions
  deliver all payloads intact, in order and exactly once, with no error reported. No interleaving reaches a state in
  which a transfer is incomplete and no further progress is possible": on the canonical cooperative schedule BOTH
  transfers complete, at once. (Safety for every schedule: Isotp/Props/C01net.lean, C01netfc.lean, C10.lean; liveness
  of ONE direction: Isotp/Props/C01live.lean.)

  Setting. Two freshly constructed layers A (layer 0) and B (layer 1) of the network the driver runs (`Net`).
  `A.send(p)`, `B.send(q)` (`startNet2`), then rounds
      round := A.process(); deliver all A emitted to B; B.process(); deliver all B emitted to A; tick dt
  (`canonRound`, `canonRounds` of C01live: literally these `Net.onLayer` / `Net.deliver` / `Net.tick` operations).
  Hypotheses (`Duplex`): both configurations valid, neither layer in listen mode, rate limiters off, addresses
  well-formed and mirrored in both directions, valid STmin bytes on both sides, both payloads non-empty, < 2^32 bytes and
  within the other side's max_frame_size, and the timing of the schedule
      effAB < dt,  effBA < dt,   kFcA·dt ≤ tFc(A),  kCfA·dt ≤ tCf(A),  kFcB·dt ≤ tFc(B),  kCfB·dt ≤ tCf(B)
  (`effAB = effOf ca cb`: the separation time A has to respect; `k…`: how many ticks the timeouts cover).

  FINDING (timing). The one-directional conditions of C01live (`dt ≤ tFc`, `gap ≤ tCf` with gap = dt for STmin 0, 2·dt
  otherwise) are NOT sufficient in duplex: `one_directional_timing_not_enough` is a run (blocksize 0, STmin 0 on both
  sides, `tCf = tFc = dt`) in which B reports ConsecutiveFrameTimeoutError and A's payload is lost. Reason: a layer that
  is sending and receiving leaves `process()` after the transmit pass that follows a received Flow Control (the rx loop
  breaks at the Flow Control, the tx loop does not ask for another iteration) — the data frames behind the Flow Control
  stay in the inbox until the next round. A frame is delayed by at most one round this way; together with the two rounds
  C01live already needs when STmin > 0, N_Cr has to cover THREE ticks and N_Bs TWO (`needs_three_ticks`,
  `needs_two_ticks_fc`: runs that fail with 2 resp. 1). With `3·dt ≤ tCf`, `2·dt ≤ tFc` on both sides no run we tried fails
  (`C10live_statement`; checked on the abstract machine for all frame counts ≤ 12, blocksizes ≤ 5).

  Method (Isotp/Proofs/DuplexLive*.lean). An abstract duplex machine (`AL`, `absPass`, `absRound`: per layer the phase
  of its transmission, of its reception, the mailbox and pending-Flow-Control bits and the inbox as a list of abstract
  frames; time in rounds) follows the three loops of `process()` literally. `complete_of_abs`: for ALL configurations,
  payloads, addressing modes, tx_data_length / padding the concrete network follows the abstract one round by round
  (`Rep`, `rx_sim`, `tx_sim`, `pass_sim`, `round_sim`), so both transfers complete on the network of the driver as soon
  as the abstract machine of the frame counts / blocksizes / "STmin = 0" bits reaches its final state.

  Results:
  * `duplex_of_abstract`: the reduction, stated on `Net`.
  * ...
-/
namespace Isotp.C10live
open Isotp Isotp.State Isotp.Spec Isotp.Proofs Isotp.Lockstep Isotp.DuplexLive

/-! ## the statement -/

/-- The hypotheses of the duplex liveness theorems (`k…`: number of ticks the timeouts cover). -/
structure Duplex (ca cb : Cfg) (aa ab : Addr) (p q : Bytes) (dt kCfA kFcA kCfB kFcB : Nat) : Prop where
  va      : ca.valid = true
  vb      : cb.valid = true
  listenA : ca.listen = false
  listenB : cb.listen = false
  rlA     : ca.rlEnable = false
  rlB     : cb.rlEnable = false
  wfA     : aa.tx.txWf = true
  wfB     : ab.tx.txWf = true
  mirAB   : ab.rx = Spec.mirror aa.tx
  mirBA   : aa.rx = Spec.mirror ab.tx
  stminA  : validStmin ca.stmin = true
  stminB  : validStmin cb.stmin = true
  p1      : 1 ≤ p.length
  p32     : p.length < 4294967296
  pmax    : p.length ≤ cb.maxFrameSize
  q1      : 1 ≤ q.length
  q32     : q.length < 4294967296
  qmax    : q.length ≤ ca.maxFrameSize
  sepAB   : effOf ca cb < dt
  sepBA   : effOf cb ca < dt
  kFcA1   : 1 ≤ kFcA
  kCfA1   : 1 ≤ kCfA
  kFcB1   : 1 ≤ kFcB
  kCfB1   : 1 ≤ kCfB
  tFcA    : kFcA * dt ≤ ca.tFc
  tCfA    : kCfA * dt ≤ ca.tCf
  tFcB    : kFcB * dt ≤ cb.tFc
  tCfB    : kCfB * dt ≤ cb.tCf

/-- the hypotheses in the vocabulary of C01: `Compose.Link` in both directions -/
theorem duplex_of_links (ca cb : Cfg) (aa ab : Addr) (p q : Bytes) (dt kCfA kFcA kCfB kFcB : Nat)
    (hAB : Compose.Link ca aa (State.init cb ab)) (hBA : Compose.Link cb ab (State.init ca aa))
    (hlA : ca.listen = false) (hlB : cb.listen = false) (hrA : ca.rlEnable = false) (hrB : cb.rlEnable = false)
    (hsA : validStmin ca.stmin = true) (hsB : validStmin cb.stmin = true)
    (hp1 : 1 ≤ p.length) (hp32 : p.length < 4294967296) (hpm : p.length ≤ cb.maxFrameSize)
    (hq1 : 1 ≤ q.length) (hq32 : q.length < 4294967296) (hqm : q.length ≤ ca.maxFrameSize)
    (h1 : effOf ca cb < dt) (h2 : effOf cb ca < dt) (k1 : 1 ≤ kFcA) (k2 : 1 ≤ kCfA) (k3 : 1 ≤ kFcB) (k4 : 1 ≤ kCfB)
    (t1 : kFcA * dt ≤ ca.tFc) (t2 : kCfA * dt ≤ ca.tCf) (t3 : kFcB * dt ≤ cb.tFc) (t4 : kCfB * dt ≤ cb.tCf) :
    Duplex ca cb aa ab p q dt kCfA kFcA kCfB kFcB :=
  ⟨hAB.cfgA, hBA.cfgA, hlA, hlB, hrA, hrB, hAB.addrA, hBA.addrA, hAB.mirror, hBA.mirror, hsA, hsB, hp1, hp32, hpm,
   hq1, hq32, hqm, h1, h2, k1, k2, k3, k4, t1, t2, t3, t4⟩

/-- the abstract parameters of A and of B: number of frames of the two messages, the two blocksizes, "the separation
    time to respect is 0", and the number of ticks the timeouts cover -/
def parA (ca cb : Cfg) (aa ab : Addr) (p q : Bytes) (kCfA kFcA : Nat) : Par :=
  { n := nFrames (TxCfg.of ca aa) p, n' := nFrames (TxCfg.of cb ab) q, bs := ca.blocksize, bs' := cb.blocksize,
    z := decide (effOf ca cb = 0), kCf := kCfA, kFc := kFcA }
def parB (ca cb : Cfg) (aa ab : Addr) (p q : Bytes) (kCfB kFcB : Nat) : Par :=
  { n := nFrames (TxCfg.of cb ab) q, n' := nFrames (TxCfg.of ca aa) p, bs := cb.blocksize, bs' := ca.blocksize,
    z := decide (effOf cb ca = 0), kCf := kCfB, kFc := kFcB }

/-- the conclusion: after the two `send` calls and `N` canonical rounds both transfers have completed -/
def CompletesIn (ca cb : Cfg) (aa ab : Addr) (idA : Nat) (p : Bytes) (idB : Nat) (q : Bytes) (dt N : Nat) : Prop :=
  ∃ d0 d evA evB, startNet2 ca cb aa ab idA p idB q = some (d0, none, none) ∧
    canonRounds dt N d0 = some (d, evA, evB) ∧ Completed2 idA p idB q d evA evB ∧ d.now = N * dt

/-- **The general liveness statement of C10** (conjectured; see the `_partial` theorems): with N_Cr covering three
    ticks and N_Bs two, both transfers complete within `2·(nA + nB) + 2` rounds (an upper bound), and stay completed. -/
def C10live_statement : Prop :=
  ∀ (ca cb : Cfg) (aa ab : Addr) (idA idB : Nat) (p q : Bytes) (dt : Nat),
    Duplex ca cb aa ab p q dt 3 2 3 2 →
    ((State.init ca aa).send { id := idA, size := p.length, src := p }).2 = none →
    ((State.init cb ab).send { id := idB, size := q.length, src := q }).2 = none →
    ∀ N, 2 * (nFrames (TxCfg.of ca aa) p + nFrames (TxCfg.of cb ab) q) + 2 ≤ N →
      CompletesIn ca cb aa ab idA p idB q dt N

/-! ## the reduction to the abstract duplex machine -/

/-- **Reduction.** For every pair of configurations, addresses and payloads satisfying `Duplex`: if the abstract duplex
    machine of the two layers (frame counts, blocksizes, "STmin = 0" bits, timeout ticks) is final after `N0` rounds,
    then for every `N ≥ N0`, after `A.send(p)`, `B.send(q)` and `N` canonical rounds, B's rx queue is `[p]`, A's is
    `[q]`, both requests completed with success, both layers idle, nothing queued or pending, links and inboxes empty,
    no error event on either side, clock = `N·dt`. -/
theorem duplex_of_abstract (ca cb : Cfg) (aa ab : Addr) (idA idB : Nat) (p q : Bytes) (dt kCfA kFcA kCfB kFcB : Nat)
    (hD : Duplex ca cb aa ab p q dt kCfA kFcA kCfB kFcB)
    (haccA : ((State.init ca aa).send { id := idA, size := p.length, src := p }).2 = none)
    (haccB : ((State.init cb ab).send { id := idB, size := q.length, src := q }).2 = none)
    (N0 : Nat) (habs : absDone (parA ca cb aa ab p q kCfA kFcA) (parB ca cb aa ab p q kCfB kFcB) N0 = true)
    (N : Nat) (hN : N0 ≤ N) : CompletesIn ca cb aa ab idA p idB q dt N := by
  let SA : Side := { c := ca, a := aa, c' := cb, a' := ab, id := idA, p := p, p' := q, dt := dt, kCf := kCfA, kFc := kFcA }
  have hA : SideOk SA :=
    ⟨hD.va, hD.vb, hD.listenA, hD.rlA, hD.wfA, hD.wfB, hD.mirBA, hD.stminB, hD.p1, hD.p32, hD.q1, hD.q32, hD.qmax,
     hD.sepAB, hD.kFcA1, hD.kCfA1, hD.tFcA, hD.tCfA⟩
  have hB : SideOk (sideB SA idB kCfB kFcB) :=
    ⟨hD.vb, hD.va, hD.listenB, hD.rlB, hD.wfB, hD.wfA, hD.mirAB, hD.stminA, hD.q1, hD.q32, hD.p1, hD.p32, hD.pmax,
     hD.sepBA, hD.kFcB1, hD.kCfB1, hD.tFcB, hD.tCfB⟩
  obtain ⟨n', hr, hf⟩ := absDone_spec (absDone_mono habs hN)
  exact complete_of_abs SA idB kCfB kFcB hA hB haccA haccB N n' hr hf

end Isotp.C10live

#print axioms Isotp.C10live.duplex_of_abstract
#print axioms Isotp.C10live.duplex_of_links
